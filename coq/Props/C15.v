(* Props/C15.v — Encrypted VMX: unlock round-trips and is authenticated.
   Only statements; each is closed by a lemma of Proofs/VmxCrypto.v.

   AES-CBC, HMAC and PBKDF2 are universally quantified function arguments; the only facts
   assumed about them are the hypotheses written out in each statement (decrypt inverts
   encrypt on block multiples, digest / derived-key lengths).  Nothing is assumed about their
   strength: "authenticated" is stated as  success => the stored MACs equal the recomputed ones. *)
From Coq Require Import String ZArith List.
From DH Require Import Model.VmxCrypto Proofs.VmxCrypto Proofs.VmxCodec.
Import ListNotations.
Open Scope Z_scope.

Definition mk_oracles pbkdf2 aes_dec hmac : oracles :=
  {| o_pbkdf2 := pbkdf2; o_aes_dec := aes_dec; o_hmac := hmac |}.

(* PKCS#7: what the writer pads, the reader strips, for every plaintext *)
Theorem C15_pkcs7_roundtrip :
  forall p : bytes, exists lastb t,
    rev (pkcs7_pad p) = lastb :: t /\ pkcs7_strip (pkcs7_pad p) lastb = XOk p.
Proof. exact pkcs7_roundtrip. Qed.
Print Assumptions C15_pkcs7_roundtrip.

(* the tables generated from vmx.py contain every cipher / MAC / KDF the property names *)
Theorem C15_tables_cover_property :
  In ("AES-128"%string, 16) CIPHER_KEY_SIZES /\ In ("AES-192"%string, 24) CIPHER_KEY_SIZES /\
  In ("AES-256"%string, 32) CIPHER_KEY_SIZES /\
  In ("HMAC-SHA-1"%string, ("sha1"%string, 20)) HMAC_MAP /\
  In ("HMAC-SHA-1-128"%string, ("sha1"%string, 16)) HMAC_MAP /\
  In ("HMAC-SHA-256"%string, ("sha256"%string, 32)) HMAC_MAP /\
  In ("PBKDF2-HMAC-SHA-1"%string, "sha1"%string) PASS2KEY_MAP /\
  In ("PBKDF2-HMAC-SHA-256"%string, "sha256"%string) PASS2KEY_MAP.
Proof. exact tables_cover_property. Qed.
Print Assumptions C15_tables_cover_property.

(* every entry of the generated tables is usable: AES key sizes are valid, stored MAC sizes
   do not exceed the digest of the named hash *)
Theorem C15_tables_consistent :
  (forall name klen, In (name, klen) CIPHER_KEY_SIZES ->
     lookup_str CIPHER_KEY_SIZES (cps name) = Some klen /\ valid_keylen klen = true) /\
  (forall name h n, In (name, (h, n)) HMAC_MAP ->
     lookup_str HMAC_MAP (cps name) = Some (h, n) /\ 0 < n <= hash_len h) /\
  (forall name h, In (name, h) PASS2KEY_MAP ->
     lookup_str PASS2KEY_MAP (cps name) = Some h /\ 0 < hash_len h).
Proof. exact (conj cipher_table_ok (conj hmac_table_ok kdf_table_ok)). Qed.
Print Assumptions C15_tables_consistent.

(* Round trip, for EVERY entry of the generated tables, every rounds / salt / IV / passphrase /
   configuration, any number of earlier locators the loop passes over, any later locators. *)
Theorem C15_unlock_roundtrip :
  forall (aes_enc aes_dec : bytes -> bytes -> bytes -> bytes)
         (hmac : str -> bytes -> bytes -> bytes)
         (pbkdf2 : str -> bytes -> bytes -> Z -> Z -> bytes),
  (forall k iv p, valid_keylen (len k) = true -> len iv = 16 -> len p mod 16 = 0 ->
                  aes_dec k iv (aes_enc k iv p) = p) ->
  (forall k iv p, len (aes_enc k iv p) = len p) ->
  (forall h k m, 0 < hash_len h -> len (hmac (cps h) k m) = hash_len h) ->
  (forall h pw s r n, 0 < hash_len h -> 0 <= n -> len (pbkdf2 (cps h) pw s r n) = n) ->
  let o := mk_oracles pbkdf2 aes_dec hmac in
  forall kdf kh cipher klen macname h n rounds salt pw iv1 iv2 id kd K cfg text attr ks d64 pre post,
  In (kdf, kh) PASS2KEY_MAP -> In (cipher, klen) CIPHER_KEY_SIZES -> In (macname, (h, n)) HMAC_MAP ->
  rounds_ok rounds -> len iv1 = 16 -> len iv2 = 16 ->
  keydict_key kd = XOk K -> valid_keylen (len K) = true ->
  utf8_strict cfg = XOk text ->
  let wkey := pbkdf2 (cps kh) pw salt rounds klen in
  let pair := LPair (LPhrase id (cps kdf) (cps cipher) rounds salt) (cps macname)
                    (seal_blob aes_enc hmac (cps h) n wkey iv1 kd) in
  Forall (skipped o pw) pre ->
  dict_get attr K_KEYSAFE = Some ks -> keysafe_from_text ks = XOk (pre ++ pair :: post) ->
  dict_get attr K_DATA = Some d64 ->
  b64decode_str d64 = XOk (seal_blob aes_enc hmac (cps h) n K iv2 cfg) ->
  run o (unlock attr pw) = XOk (dict_update attr (parse_dictionary text)).
Proof.
  intros aes_enc aes_dec hmac pbkdf2 H1 H2 H3 H4 o.
  intros kdf kh cipher klen macname h n rounds salt pw iv1 iv2 id kd K cfg text attr ks d64 pre post.
  exact (unlock_roundtrip_parsed aes_enc o H1 H2 H3 H4
           kdf kh cipher klen macname h n rounds salt pw iv1 iv2 id kd K cfg text attr ks d64 pre post).
Qed.
Print Assumptions C15_unlock_roundtrip.

(* Authenticated: if unlocking succeeds then, for some Phrase pair of the key safe, the padding
   and the stored (possibly truncated) MAC of the wrapped key verify under the PBKDF2 key of the
   given passphrase, and padding and MAC of the encrypted configuration verify under the key found
   inside — for arbitrary primitives and arbitrary files.  A wrong passphrase or an altered byte
   can therefore only be accepted through a MAC collision of the primitive itself. *)
Theorem C15_unlock_sound :
  forall (o : oracles) attr pw attr',
  run o (unlock attr pw) = XOk attr' ->
  exists ks locs id p2k cipher rounds salt macname pdata kh klen h n kd d64 blob cfg text,
    dict_get attr K_KEYSAFE = Some ks /\ keysafe_from_text ks = XOk locs /\
    In (LPair (LPhrase id p2k cipher rounds salt) macname pdata) locs /\
    lookup_str PASS2KEY_MAP p2k = Some kh /\ lookup_str CIPHER_KEY_SIZES cipher = Some klen /\
    rounds_ok rounds /\
    lookup_str HMAC_MAP macname = Some (h, n) /\
    verified o (o_pbkdf2 o (cps kh) pw salt rounds klen) pdata h n kd /\
    dict_get attr K_DATA = Some d64 /\ b64decode_str d64 = XOk blob /\
    (exists key, keydict_key kd = XOk key /\ verified o key blob h n cfg) /\
    utf8_strict cfg = XOk text /\
    attr' = dict_update attr (parse_dictionary text).
Proof. exact unlock_sound. Qed.
Print Assumptions C15_unlock_sound.

(* a stored MAC that differs from the recomputed, truncated digest is always refused *)
Theorem C15_mac_mismatch_refused :
  forall (o : oracles) key data macname h n lastb t plain,
  lookup_str HMAC_MAP macname = Some (h, n) ->
  valid_keylen (len key) = true -> len (firstn 16 data) = 16 -> len (slice_enc data n) mod 16 = 0 ->
  rev (o_aes_dec o key (firstn 16 data) (slice_enc data n)) = lastb :: t ->
  pkcs7_strip (o_aes_dec o key (firstn 16 data) (slice_enc data n)) lastb = XOk plain ->
  firstn (Z.to_nat n) (o_hmac o (cps h) key plain) <> slice_mac data n ->
  run o (decrypt_hmac key data macname) = XExc EValue.
Proof. exact decrypt_hmac_mismatch. Qed.
Print Assumptions C15_mac_mismatch_refused.

(* the visible configuration is only replaced on success *)
Theorem C15_no_partial_update :
  forall (o : oracles) attr pw,
  fst (unlock_state o attr pw) <> XOk tt -> snd (unlock_state o attr pw) = attr.
Proof. exact no_partial_update. Qed.
Print Assumptions C15_no_partial_update.

(* ---------- codecs: the reader's decoders invert the writer, at full generality ---------- *)
Theorem C15_b64_roundtrip :
  forall bs, bytes_ok bs -> b64decode_str (b64encode bs) = XOk bs.
Proof. exact b64_roundtrip. Qed.
Print Assumptions C15_b64_roundtrip.

Theorem C15_unquote_quote :
  forall s, ascii_ok s -> unquote (quote s) = s.
Proof. exact unquote_quote. Qed.
Print Assumptions C15_unquote_quote.

(* the key dictionary the writer puts inside a pair (type=key:cipher=..:key=<quoted base64>) yields the key *)
Theorem C15_keydict_roundtrip :
  forall cn K, ascii_ok cn -> bytes_ok K -> keydict_key (render_keydict cn K) = XOk K.
Proof. exact keydict_roundtrip. Qed.
Print Assumptions C15_keydict_roundtrip.

(* Round trip on the writer's own output: the wrapped key is the rendered key dictionary and
   encryption.data is the base64 TEXT of the sealed configuration; the only parsing step left as a
   premise is KeySafe.from_text of the key-safe string (exercised by C15_example_unlocks and by the
   correspondence). *)
Theorem C15_unlock_roundtrip_sealed :
  forall (aes_enc aes_dec : bytes -> bytes -> bytes -> bytes)
         (hmac : str -> bytes -> bytes -> bytes)
         (pbkdf2 : str -> bytes -> bytes -> Z -> Z -> bytes),
  (forall k iv p, valid_keylen (len k) = true -> len iv = 16 -> len p mod 16 = 0 ->
                  aes_dec k iv (aes_enc k iv p) = p) ->
  (forall k iv p, len (aes_enc k iv p) = len p) ->
  (forall h k m, 0 < hash_len h -> len (hmac (cps h) k m) = hash_len h) ->
  (forall h pw s r n, 0 < hash_len h -> 0 <= n -> len (pbkdf2 (cps h) pw s r n) = n) ->
  (forall k iv p, bytes_ok (aes_enc k iv p)) ->
  (forall h k m, bytes_ok (hmac h k m)) ->
  let o := mk_oracles pbkdf2 aes_dec hmac in
  forall kdf kh cipher klen macname h n rounds salt pw iv1 iv2 id cn K cfg text attr ks pre post,
  In (kdf, kh) PASS2KEY_MAP -> In (cipher, klen) CIPHER_KEY_SIZES -> In (macname, (h, n)) HMAC_MAP ->
  rounds_ok rounds -> len iv1 = 16 -> len iv2 = 16 -> bytes_ok iv2 ->
  ascii_ok cn -> bytes_ok K -> valid_keylen (len K) = true ->
  utf8_strict cfg = XOk text ->
  let wkey := pbkdf2 (cps kh) pw salt rounds klen in
  let pair := LPair (LPhrase id (cps kdf) (cps cipher) rounds salt) (cps macname)
                    (seal_blob aes_enc hmac (cps h) n wkey iv1 (render_keydict cn K)) in
  Forall (skipped o pw) pre ->
  dict_get attr K_KEYSAFE = Some ks -> keysafe_from_text ks = XOk (pre ++ pair :: post) ->
  dict_get attr K_DATA = Some (b64encode (seal_blob aes_enc hmac (cps h) n K iv2 cfg)) ->
  run o (unlock attr pw) = XOk (dict_update attr (parse_dictionary text)).
Proof.
  intros aes_enc aes_dec hmac pbkdf2 H1 H2 H3 H4 H5 H6 o.
  intros kdf kh cipher klen macname h n rounds salt pw iv1 iv2 id cn K cfg text attr ks pre post.
  exact (unlock_roundtrip_sealed aes_enc o H1 H2 H3 H4 H5 H6
           kdf kh cipher klen macname h n rounds salt pw iv1 iv2 id cn K cfg text attr ks pre post).
Qed.
Print Assumptions C15_unlock_roundtrip_sealed.

(* ---------- non-vacuity ---------- *)
(* the hypotheses of C15_unlock_roundtrip are satisfiable (a toy, key-dependent cipher/MAC/KDF) *)
Example C15_hypotheses_satisfiable :
  (forall k iv p, valid_keylen (len k) = true -> len iv = 16 -> len p mod 16 = 0 ->
                  toy_dec k iv (toy_enc k iv p) = p) /\
  (forall k iv p, len (toy_enc k iv p) = len p) /\
  (forall h k m, 0 < hash_len h -> len (toy_hmac (cps h) k m) = hash_len h) /\
  (forall h pw s r n, 0 < hash_len h -> 0 <= n -> len (toy_pbkdf2 (cps h) pw s r n) = n).
Proof. exact toy_hyps. Qed.

(* a complete two-pair file rendered to TEXT by the specification's writer (HMAC-SHA-1-128, a
   foreign pair first) is parsed and unlocked by the model; a wrong passphrase is refused *)
Example C15_example_unlocks :
  run toy (unlock ex_attr ex_pw) =
  XOk (ex_attr ++ [(cps "a", cps "1"); (cps "disk.file", cps "d 1.vmdk")]).
Proof. exact ex_unlocks. Qed.

Example C15_example_wrong_phrase : run toy (unlock ex_attr (cps "Secret!")) = XExc EValue.
Proof. exact ex_wrong_phrase. Qed.

Example C15_example_skipped : skipped toy ex_pw (loc_of_ppair ex_decoy).
Proof. exact ex_decoy_skipped. Qed.
