(* Props/C02.v — placeholder while the proofs are being written *)
From Coq Require Import ZArith List.
From DH Require Import Base.Plan Model.Vmdk.
