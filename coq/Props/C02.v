(* Props/C02.v — VMDK: every byte range of a sparse/flat extent reads as guest content.
   Only statements; each is closed by [exact] of a lemma from Proofs/Vmdk.v.

   Reading guide.  [vfile] is the extent file as the reader sees it (size, little-endian words at byte
   offsets), [sparse] the geometry SparseDisk.__init__ derives, [guest_src f sp soff hp o] the
   format-level source of guest byte o of the extent (zero / parent / byte of the file / byte k of the
   inflated grain stored at a sector), written with div/mod arithmetic; the model functions use the masks
   and constants extracted from the source (Gen/VmdkTables.v, Gen/Consts.v).  zlib is the oracle [infl]. *)
From Coq Require Import ZArith List.
From DH Require Import Base.Plan Base.Table Model.Vmdk Proofs.Vmdk.
Import ListNotations.
Open Scope Z_scope.

(* 1. sparse extents, sector interface (SparseDisk.read_sectors): hosted / COWD / SE-sparse, any capacity,
      grain size, grain-table size, table content and physical placement, compressed or not, with or
      without a parent: a read that succeeds returns exactly the guest bytes *)
Theorem C02_sparse_read_sectors_correct :
  forall f sp soff hp, wf_words f -> wf_geom sp ->
  forall fuel sector count p, soff <= sector ->
  sparse_read_sectors f sp soff hp fuel sector count = Ok p ->
  srcs_of p = map (guest_src f sp soff hp) (zseq ((sector - soff) * 512) (count * 512)).
Proof. intros f sp soff hp Hw Hg fuel sector count p. exact (sparse_read_sectors_correct f sp soff hp Hw Hg fuel sector count p). Qed.
Print Assumptions C02_sparse_read_sectors_correct.

(* the same statement as bytes, for every content of the file, of the parent and every inflate oracle *)
Theorem C02_sparse_read_sectors_bytes :
  forall (B : Type) (zero : B) (file data parent : Z -> B) (infl : Z -> Z -> B),
  forall f sp soff hp, wf_words f -> wf_geom sp ->
  forall fuel sector count p, soff <= sector ->
  sparse_read_sectors f sp soff hp fuel sector count = Ok p ->
  denote zero file data parent infl p =
  map (fun o => byte_of zero file data parent infl (guest_src f sp soff hp o))
      (zseq ((sector - soff) * 512) (count * 512)).
Proof.
  intros B zero file data parent infl f sp soff hp Hw Hg fuel sector count p Hs Hrun.
  apply denote_of_srcs. exact (sparse_read_sectors_correct f sp soff hp Hw Hg fuel sector count p Hs Hrun).
Qed.
Print Assumptions C02_sparse_read_sectors_bytes.

(* 2. the coalescer (SparseDisk.get_runs): the runs tile the request and every byte of a run is the guest
      byte at that position, so a run built from several grains is physically consecutive *)
Theorem C02_get_runs_merge_sound :
  forall f sp soff hp, wf_words f -> wf_geom sp ->
  forall fuel sector count runs, soff <= sector ->
  sparse_get_runs f sp soff fuel sector count = Ok runs ->
  runs_srcs (sp_grain_size sp) (is_compressed sp) hp runs =
  map (guest_src f sp soff hp) (zseq ((sector - soff) * 512) (count * 512)).
Proof. intros f sp soff hp Hw Hg fuel sector count runs. exact (sparse_get_runs_sound f sp soff hp Hw Hg fuel sector count runs). Qed.
Print Assumptions C02_get_runs_merge_sound.

(* 3. progress: for ARBITRARY table contents the loops end within the request's sector count *)
Theorem C02_progress :
  forall f sp soff hp, wf_words f -> wf_geom sp ->
  forall fuel sector count, soff <= sector -> count < Z.of_nat fuel ->
  sparse_read_sectors f sp soff hp fuel sector count <> Fuel.
Proof. intros f sp soff hp Hw Hg fuel sector count. exact (sparse_read_sectors_fuel f sp soff hp Hw Hg fuel sector count). Qed.
Print Assumptions C02_progress.

(* 4. the stream back-end contract (VMDK._read, repaired): on a well-formed sparse extent an aligned
      request that starts inside the disk succeeds even when it runs past the end, and its first
      min(len, size - off) bytes are the guest bytes — for every capacity, in particular those that are
      not a multiple of the 16-sector stream buffer *)
Theorem C02_vmdk_tail_read :
  forall f sp hp off len,
  wf_sparse f sp -> 0 <= off < sp_capacity sp * 512 -> off mod 512 = 0 -> 0 < len ->
  exists p, vmdk_read (mk_vmdk [XSparse f sp hp]) off len = Ok p /\
    let n := Z.min len (sp_capacity sp * 512 - off) in
    firstn (Z.to_nat n) (srcs_of (plan_of_x p)) = map (guest_src f sp 0 hp) (zseq off n).
Proof. exact vmdk_sparse_read_correct. Qed.
Print Assumptions C02_vmdk_tail_read.

(* the code as found (no clamp): the same request raises IndexError whenever it runs past the end *)
Theorem C02_vmdk_tail_read_unclamped_fails :
  forall x off len,
  (forall s c, exists p, x_read x 0 s c = Ok p) ->
  0 <= off -> off mod 512 = 0 -> 0 < x_sectors x - off / 512 < (len + 512 - 1) / 512 ->
  vmdk_read_unclamped (mk_vmdk [x]) off len = Err.
Proof. exact vmdk_tail_read_unclamped_fails. Qed.
Print Assumptions C02_vmdk_tail_read_unclamped_fails.

(* 5. flat extents *)
Theorem C02_flat_read_correct :
  forall nsect off len, 0 <= off < nsect * 512 -> off mod 512 = 0 -> 0 < len ->
  exists p, vmdk_read (mk_vmdk [XRaw (nsect * 512) 0]) off len = Ok p /\
    let n := Z.min len (nsect * 512 - off) in
    firstn (Z.to_nat n) (srcs_of (plan_of_x p)) = map flat_src (zseq off n).
Proof. exact vmdk_flat_read_correct. Qed.
Print Assumptions C02_flat_read_correct.

(* 6. SE-sparse entry decoding with the masks of the source: the type is the top nibble, the cluster
      number is reassembled from its two parts without truncation (no 2^32-sector limit), the
      grain-directory check is "top 32 bits = 0x10000000" and the table index the low 32 bits *)
Theorem C02_sesparse_type_mask :
  forall e, u64 e ->
  Z.land e Gen.Consts.vmdk_SESPARSE_GRAIN_TYPE_MASK = (e / 2 ^ 60) * 2 ^ 60 /\ 0 <= e / 2 ^ 60 < 16.
Proof. exact gte_type_mask. Qed.
Print Assumptions C02_sesparse_type_mask.

Theorem C02_sesparse_cluster_decode :
  forall e, 0 <= e -> se_cluster e = (e / 2 ^ 48) mod 2 ^ 12 + (e mod 2 ^ 48) * 2 ^ 12.
Proof. exact se_cluster_spec. Qed.
Print Assumptions C02_sesparse_cluster_decode.

Theorem C02_sesparse_decode_inj :
  forall c, 0 <= c < 2 ^ 60 ->
  se_cluster (3 * 2 ^ 60 + (c mod 2 ^ 12) * 2 ^ 48 + c / 2 ^ 12) = c.
Proof. exact se_cluster_roundtrip. Qed.
Print Assumptions C02_sesparse_decode_inj.

Theorem C02_sesparse_gde_check :
  forall e, u64 e ->
  (Z.land e Gen.VmdkTables.vmdk_gde_check_mask =? Gen.VmdkTables.vmdk_gde_check_value) = (e / 2 ^ 32 =? 2 ^ 28) /\
  Z.land e Gen.VmdkTables.vmdk_gde_index_mask = e mod 2 ^ 32.
Proof. exact gde_check_spec. Qed.
Print Assumptions C02_sesparse_gde_check.

(* 7. header / footer selection *)
Theorem C02_footer_selected :
  forall f h0 hf,
  read_header f 0 = Ok h0 -> h_kind h0 = KHosted -> h_gd_off h0 = Gen.Consts.vmdk_SPARSE_GD_AT_END ->
  1024 <= f_size f ->
  read_header f (f_size f - 1024) = Ok hf -> h_kind hf = KHosted ->
  h_num_gte hf * h_grain_size hf <> 0 ->
  open_sparse f =
    if array_in_file f 4 (h_gd_off hf) (sp_gd_size (hosted_geometry hf)) then Ok (hosted_geometry hf) else Err.
Proof. exact footer_selected. Qed.
Print Assumptions C02_footer_selected.

Theorem C02_header_selected :
  forall f h0,
  read_header f 0 = Ok h0 -> h_kind h0 = KHosted -> 0 <= h_gd_off h0 < 2 ^ 64 - 1 ->
  h_num_gte h0 * h_grain_size h0 <> 0 ->
  open_sparse f =
    if array_in_file f 4 (h_gd_off h0) (sp_gd_size (hosted_geometry h0)) then Ok (hosted_geometry h0) else Err.
Proof. exact header_selected. Qed.
Print Assumptions C02_header_selected.

(* non-vacuity: concrete extents meeting the hypotheses (hosted with merged, zero and absent grains and a
   capacity that is no multiple of grain or stream buffer; SE-sparse with a split cluster number) *)
Example C02_nonvacuous_hosted : wf_sparse ex_file ex_sparse.
Proof. exact ex_sparse_wf. Qed.
Example C02_nonvacuous_sesparse : wf_sparse ex_se_file ex_se_sparse.
Proof. exact ex_se_wf. Qed.
