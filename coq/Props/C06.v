(* Props/C06.v — Parallels HDS / plain images: every byte range reads as the guest-visible content. *)
From Coq Require Import ZArith List.
From DH Require Import Base.Plan Base.Table Model.Hds Proofs.Hds.
From DH Require Model.Chain Proofs.Chain Proofs.Layers Proofs.Storage Model.Hdd Proofs.Hdd.
Open Scope Z_scope.

Definition produced_ok' (h : hds) (off len T : Z) : Prop :=
  0 <= T /\ T <= Z.max 0 len /\ Z.min len (h_size h - off) <= T.

(* whatever the BAT holds and wherever clusters lie in the file, a successful read is exactly the
   guest bytes of [off, off+T) with min(len, size-off) <= T <= len (coalescing runs is sound) *)
Theorem C06_hds_read_sound :
  forall h, 0 < h_cs h -> forall fuel off len p,
  0 <= off -> hds_read h fuel off len = Ok p ->
  exists T, produced_ok' h off len T /\ srcs_of p = map (hds_src h) (zseq off T).
Proof. exact hds_read_sound. Qed.
Print Assumptions C06_hds_read_sound.

Theorem C06_hds_read_correct :
  forall h, 0 < h_cs h -> forall off len,
  hds_wf h -> 0 <= off < h_size h -> 0 < len ->
  exists p T, hds_read h (hds_fuel len) off len = Ok p /\
    Z.min len (h_size h - off) <= T <= len /\ srcs_of p = map (hds_src h) (zseq off T).
Proof. exact hds_read_correct. Qed.
Print Assumptions C06_hds_read_correct.

Theorem C06_progress :
  forall h, 0 < h_cs h -> forall fuel off len,
  0 <= off -> len < Z.of_nat fuel -> hds_read h fuel off len <> Fuel.
Proof. exact hds_read_progress. Qed.
Print Assumptions C06_progress.

(* the .hdd directory: storages laid back to back, each with its own chain of image layers; every byte comes from
   the topmost layer of the chain of the storage that holds its sector, zero when no layer of THAT chain has it
   (HDS images are such layers for every allocation table: Proofs/Layers.hds_layer_ok) *)
Theorem C06_hdd_read_correct :
  forall hs s0 sector count,
  Proofs.Hdd.hdd_ok hs -> Proofs.Storage.slaid (Proofs.Hdd.ss_of hs) s0 -> s0 <= sector -> 0 <= count ->
  sector + count <= Proofs.Storage.s_end (Proofs.Hdd.ss_of hs) s0 ->
  Model.Hdd.hdd_read hs (sector * 512) (count * 512) =
  Ok (map (Model.Hdd.hdd_src hs 0) (zseq (sector * 512) (count * 512))).
Proof. exact Proofs.Hdd.hdd_read_correct. Qed.
Print Assumptions C06_hdd_read_correct.

Theorem C06_hds_is_layer :
  forall h, 0 < h_cs h -> hds_wf h -> Proofs.Chain.layer_ok (h_size h) 1 (Proofs.Layers.hds_layer h).
Proof. exact Proofs.Layers.hds_layer_ok. Qed.
Print Assumptions C06_hds_is_layer.

Example C06_nonvacuous : hds_wf ex_hds.
Proof. exact ex_hds_wf. Qed.
