(* Props/C06.v — Parallels HDS / plain images: every byte range reads as the guest-visible content. *)
From Coq Require Import ZArith List.
From DH Require Import Base.Plan Base.Table Model.Hds Proofs.Hds.
Open Scope Z_scope.

Definition produced_ok' (h : hds) (off len T : Z) : Prop :=
  0 <= T /\ T <= Z.max 0 len /\ Z.min len (h_size h - off) <= T.

(* whatever the BAT holds and wherever clusters lie in the file, a successful read is exactly the
   guest bytes of [off, off+T) with min(len, size-off) <= T <= len (coalescing runs is sound) *)
Theorem C06_hds_read_sound :
  forall h, 0 < h_cs h -> forall fuel off len p,
  0 <= off -> hds_read h fuel off len = Ok p ->
  exists T, produced_ok' h off len T /\ srcs_of p = map (hds_src h) (zseq off T).
Proof. exact hds_read_sound. Qed.
Print Assumptions C06_hds_read_sound.

Theorem C06_hds_read_correct :
  forall h, 0 < h_cs h -> forall off len,
  hds_wf h -> 0 <= off < h_size h -> 0 < len ->
  exists p T, hds_read h (hds_fuel len) off len = Ok p /\
    Z.min len (h_size h - off) <= T <= len /\ srcs_of p = map (hds_src h) (zseq off T).
Proof. exact hds_read_correct. Qed.
Print Assumptions C06_hds_read_correct.

Theorem C06_progress :
  forall h, 0 < h_cs h -> forall fuel off len,
  0 <= off -> len < Z.of_nat fuel -> hds_read h fuel off len <> Fuel.
Proof. exact hds_read_progress. Qed.
Print Assumptions C06_progress.

Example C06_nonvacuous : hds_wf ex_hds.
Proof. exact ex_hds_wf. Qed.
