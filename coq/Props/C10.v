(* placeholder *)
From DH Require Import Model.VmdkDesc.
