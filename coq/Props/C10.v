(* Props/C10.v — Descriptor-driven multi-extent assembly and size accounting.
   Only statements; each is closed by [exact] of a lemma from Proofs/VmdkDesc.v.

   Reading guide.  [extent] is one opened backing file (XSparse: a sparse extent of any of the three kinds,
   XRaw size start: a flat/VMFS extent with its start sector), [mk_vmdk] the bookkeeping of VMDK.__init__,
   [vmdk_read_sectors] the bisect lookup + walk of VMDK.read_sectors, [concat_src ds 0 o] the source of byte
   o of the concatenation (tagged with the index of the extent file).  Gen.VmdkTables holds the
   alternatives of RE_EXTENT_DESCRIPTOR and the two type lists of VMDK.__init__ as they are in the source. *)
From Coq Require Import ZArith List.
From DH Require Import Base.Plan Base.Table Model.Vmdk Model.VmdkDesc Proofs.Vmdk Proofs.VmdkDesc Proofs.Storage Proofs.VmdkTotal.
From DH Require Import Model.Chain Proofs.Chain Model.Hdd Proofs.Hdd.
Import ListNotations.
Open Scope Z_scope.

(* 1. no data-bearing extent type is dropped: each of FLAT, VMFS, SPARSE, VMFSSPARSE, SESPARSE is an
      alternative of the extent grammar and is opened by VMDK.__init__ (false of the source as found:
      SESPARSE is wired but missing from the grammar — fixes/C10-vmdk-sesparse-extent-type.diff) *)
Theorem C10_no_data_extent_dropped :
  forall t, In t data_types ->
  In t Gen.VmdkTables.vmdk_re_types /\
  (In t Gen.VmdkTables.vmdk_sparse_wired \/ In t Gen.VmdkTables.vmdk_raw_wired).
Proof. exact no_data_extent_dropped. Qed.
Print Assumptions C10_no_data_extent_dropped.

Theorem C10_wired_types_in_grammar :
  forall t, In t (Gen.VmdkTables.vmdk_sparse_wired ++ Gen.VmdkTables.vmdk_raw_wired) ->
  In t Gen.VmdkTables.vmdk_re_types.
Proof. exact wired_types_in_grammar. Qed.
Print Assumptions C10_wired_types_in_grammar.

(* 2. the matcher model implements the pattern that is in the source (group structure, anchors, classes);
      the extent-line prefixes of DiskDescriptor.parse are the access modes of the grammar *)
Theorem C10_grammar_skeleton : Gen.VmdkTables.vmdk_re_skeleton = expected_skeleton.
Proof. exact skeleton_matches_source. Qed.
Print Assumptions C10_grammar_skeleton.

Theorem C10_prefixes_are_modes :
  Gen.VmdkTables.vmdk_extent_prefixes = map (fun m => m ++ [32]) Gen.VmdkTables.vmdk_re_access_modes.
Proof. exact prefixes_match_modes. Qed.
Print Assumptions C10_prefixes_are_modes.

(* 3. size accounting: the disk's size and sector count are the sums over its extents, in declared order *)
Theorem C10_size_is_sum :
  forall xs,
  v_size (mk_vmdk xs) = sum_size xs /\ v_sector_count (mk_vmdk xs) = sum_sectors xs /\
  map fst (v_disks (mk_vmdk xs)) = xs.
Proof. exact size_is_sum. Qed.
Print Assumptions C10_size_is_sum.

Theorem C10_extents_back_to_back :
  forall xs, Forall (fun x => 0 < x_sectors x) xs -> laid (v_disks (mk_vmdk xs)) 0.
Proof. exact mk_vmdk_laid. Qed.
Print Assumptions C10_extents_back_to_back.

(* 4. the bisect lookup finds the extent that holds the sector *)
Theorem C10_bisect_finds :
  forall ds s0 sector, laid ds s0 -> s0 <= sector < ds_end ds s0 ->
  let i := bisect_right (map snd (tl ds)) sector in
  match skipn i ds with
  | (x, soff) :: rest =>
      laid ((x, soff) :: rest) soff /\ soff <= sector < soff + x_sectors x /\
      (forall idx o, soff * 512 <= o ->
         concat_src ds idx o = concat_src ((x, soff) :: rest) (idx + Z.of_nat i) o)
  | [] => False
  end.
Proof. exact bisect_skipn. Qed.
Print Assumptions C10_bisect_finds.

(* 5. a read at any sector, across any number of extent boundaries, is the concatenation of the extents'
      guest bytes, each extent occupying exactly its sector range (flat with any start sector, hosted
      sparse, COWD, SE-sparse) *)
Theorem C10_multi_read_correct :
  forall xs sector count p,
  Forall (fun x => 0 < x_sectors x /\ 0 < x_size x) xs -> Forall x_wf xs ->
  0 <= sector < sum_sectors xs ->
  vmdk_read_sectors (mk_vmdk xs) sector count = Ok p ->
  xsrcs_of p = map (concat_src (v_disks (mk_vmdk xs)) 0) (zseq (sector * 512) (count * 512)).
Proof. exact multi_read_correct. Qed.
Print Assumptions C10_multi_read_correct.

(* 5b. ... and such a read succeeds: for a disk assembled from well-formed extents (sparse extents whose tables
       cover their capacity, flat extents) every request that stays inside the disk returns — no IndexError at
       an extent boundary or at the last sector, however many extents it crosses *)
Theorem C10_multi_read_total :
  forall xs sector count,
  Forall (fun x => 0 < x_sectors x /\ 0 < x_size x) xs -> Forall x_total xs ->
  0 <= sector -> 0 <= count -> sector + count <= sum_sectors xs -> sector < sum_sectors xs ->
  exists p, vmdk_read_sectors (mk_vmdk xs) sector count = Ok p.
Proof. exact multi_read_total. Qed.
Print Assumptions C10_multi_read_total.

(* 6. Parallels StorageStream (disk/hdd.py): storages [start, end) laid back to back from sector s0.
      The size is the end of the last storage; a read at any sector across any number of storage
      boundaries returns, for every byte, the byte of the storage holding its sector at the
      storage-relative offset (tagged with the storage's index). *)
Theorem C10_storage_size :
  forall ss s0, ss <> [] -> storage_size ss = s_end ss s0 * 512.
Proof. exact storage_size_is_end. Qed.
Print Assumptions C10_storage_size.

Theorem C10_storage_read_correct :
  forall ss s0 sector count,
  slaid ss s0 -> s0 <= sector -> 0 <= count -> sector + count <= s_end ss s0 ->
  xsrcs_of (storage_read ss (sector * 512) (count * 512)) =
  map (storage_src ss 0) (zseq (sector * 512) (count * 512)).
Proof. exact storage_read_correct. Qed.
Print Assumptions C10_storage_read_correct.

Example C10_storage_nonvacuous :
  slaid [(0, 7); (7, 9); (9, 20)] 0 /\ s_end [(0, 7); (7, 9); (9, 20)] 0 = 20.
Proof. exact ex_storage. Qed.

(* 7. the whole .hdd disk as HDD.open() assembles it: storages laid back to back, each with its OWN chain of image
      layers (any depth, any layer that satisfies the layer contract of C07: HDS images, a plain base).  Every byte
      comes from the topmost layer of the chain of the storage that holds its sector, at the storage-relative
      offset, and is zero when no layer of that chain has it — whatever the neighbouring storages hold. *)
Theorem C10_hdd_read_correct :
  forall hs s0 sector count,
  hdd_ok hs -> slaid (ss_of hs) s0 -> s0 <= sector -> 0 <= count -> sector + count <= s_end (ss_of hs) s0 ->
  hdd_read hs (sector * 512) (count * 512) = Ok (map (hdd_src hs 0) (zseq (sector * 512) (count * 512))).
Proof. exact hdd_read_correct. Qed.
Print Assumptions C10_hdd_read_correct.

(* non-vacuity and the pinned grammar cases (13 cases of tests/test_vmdk.py) as evaluated examples *)
Example C10_nonvacuous :
  Forall (fun x => 0 < x_sectors x /\ 0 < x_size x) ex_multi /\ Forall x_wf ex_multi.
Proof. exact ex_multi_ok. Qed.
Example C10_pinned_cases :
  (parse_extents prefix_spaces = [(s_RW, 1234567890, s_SPARSE, Some n_spaces, None, None, None)]) /\
  (parse_extents (prefix_spaces ++ s_123 ++ [32] ++ s_part ++ [32] ++ s_dev)
   = [(s_RW, 1234567890, s_SPARSE, Some n_spaces, Some 123, Some s_part, Some s_dev)]) /\
  (parse_extents s_NOACCESS = []).
Proof. split; [exact pinned_spaces_4|split; [exact pinned_spaces_7|exact pinned_bad_3]]. Qed.
