(* Props/C13.v — lazy access: I/O proportional to the request, independent of the amount of
   allocated data and of the file length; correct at multi-terabyte scale. *)
From Coq Require Import ZArith List Bool.
Import ListNotations.
From DH Require Model.Lru Proofs.Lru Proofs.LruCost Proofs.LruMulti.
From DH Require Import Base.Plan Base.Table Model.Walk Model.Io Proofs.Io Proofs.StreamReaders
  Model.Vhd Proofs.Vhd Model.Vdi Proofs.Vdi Model.Vhdx Proofs.Vhdx Model.Hds Proofs.Hds.
Open Scope Z_scope.

(* 1. Any reader that meets the stream contract: an in-range aligned request of len bytes fetches at
      most len bytes from the backing files — the bound mentions neither tables nor file size. *)
Theorem C13_contract_io_bound :
  forall size align bread gsrc, reader_contract size align bread gsrc ->
  forall off len, 0 <= off < size -> off mod align = 0 -> 0 < len -> len mod align = 0 -> off + len <= size ->
  exists p, bread off len = Ok p /\ 0 <= io_bytes p <= len.
Proof. exact contract_io_bound. Qed.
Print Assumptions C13_contract_io_bound.

(* 2. Table look-ups of the block walker: at most len/U + 2, for any table and any fuel. *)
Theorem C13_lookups_bound :
  forall U, 0 < U -> forall fuel off len, 0 <= off -> 0 <= len -> walk_steps U fuel off len <= len / U + 2.
Proof. exact walk_steps_bound. Qed.
Print Assumptions C13_lookups_bound.

(* 3. Instances. *)
Theorem C13_vhd_io : forall d off len,
  wf_dyn d -> 0 <= off < d_size d -> off mod 512 = 0 -> 0 < len -> len mod 512 = 0 -> off + len <= d_size d ->
  exists p, dyn_read d (fuel_for (cdiv (Z.min len (d_size d - off)) SECTOR)) off len = Ok p /\ 0 <= io_bytes p <= len.
Proof. exact vhd_io_bound. Qed.
Print Assumptions C13_vhd_io.

Theorem C13_vdi_io : forall v off len,
  0 < v_bs v -> vdi_wf v -> 0 <= off < v_size v -> 0 < len -> off + len <= v_size v ->
  exists p, vdi_read v (vdi_fuel len) off len = Ok p /\ 0 <= io_bytes p <= len.
Proof. exact vdi_io_bound. Qed.
Print Assumptions C13_vdi_io.

Theorem C13_hds_io : forall h off len,
  0 < h_cs h -> hds_wf h -> 0 <= off < h_size h -> 0 < len -> off + len <= h_size h ->
  exists p, hds_read h (hds_fuel len) off len = Ok p /\ 0 <= io_bytes p <= len.
Proof. exact hds_io_bound. Qed.
Print Assumptions C13_hds_io.

Theorem C13_vhdx_io : forall x off len,
  geom_ok x -> states_ok x -> vhdx_wf_nodiff x ->
  0 <= off < x_size x -> off mod x_ss x = 0 -> 0 < len -> len mod x_ss x = 0 -> off + len <= x_size x ->
  exists p, vhdx_read x (vhdx_fuel (cdiv (Z.min len (x_size x - off)) (x_ss x))) off len = Ok p /\
            0 <= io_bytes p <= len.
Proof. exact vhdx_io_bound. Qed.
Print Assumptions C13_vhdx_io.

(* 4. Wide arithmetic: 44-bit MiB offsets (VHDX) decode without truncation; all other offsets are
      unbounded integers in the model exactly as they are in Python. *)
Theorem C13_vhdx_wide_offsets :
  forall state mb, 0 <= state < 8 -> 0 <= mb < 2 ^ 44 ->
  be_state (state + mb * 2 ^ 20) = state /\ be_mb (state + mb * 2 ^ 20) = mb.
Proof. exact bat_entry_roundtrip. Qed.
Print Assumptions C13_vhdx_wide_offsets.

(* amortised table loads: a cache of [cap] tables serving requests whose mapping tables all come from a working set
   of at most [cap] tables loads each table at most once — in any order, however often they recur (the QCOW2 L2
   cache, the VMDK grain-table cache, the VHD / VHDX BAT entry caches are instances of Model/Lru.v) *)
Theorem C13_tables_loaded_once :
  forall (V : Type) (cap : nat) (load : Z -> V) (W ks : list Z),
  (length W <= cap)%nat -> incl ks W -> (Proofs.LruCost.lru_misses cap load [] ks <= length W)%nat.
Proof. intros V cap load W ks. exact (Proofs.LruCost.lru_loads_each_once cap load W ks). Qed.
Print Assumptions C13_tables_loaded_once.

(* several readers side by side (the extents of one VMDK, the links of a chain), each with its own cache: when every
   reader's working set fits ITS cache, any interleaving of requests loads each table of each reader at most once — the
   bound is the sum of the working sets, which may exceed the capacity of any single cache *)
Theorem C13_tables_loaded_once_per_reader :
  forall (V : Type) (cap : nat) (load : nat -> Z -> V) (Ws : list (list Z)) (h : list (nat * Z)),
  Forall (fun W => (length W <= cap)%nat) Ws ->
  (forall i k, In (i, k) h -> exists W, nth_error Ws i = Some W /\ In k W) ->
  (Proofs.LruMulti.multi_misses cap load (map (fun _ => []) Ws) h <= Proofs.LruMulti.wtotal Ws)%nat.
Proof. intros V cap load Ws h. exact (Proofs.LruMulti.multi_loads_each_once cap load Ws h). Qed.
Print Assumptions C13_tables_loaded_once_per_reader.

(* ... and it is a statement about per-reader caches: the same history through one shared cache of that capacity thrashes *)
Example C13_shared_cache_thrashes :
  Proofs.LruMulti.multi_misses 4 (fun i k => (i, k)) [[]; []] Proofs.LruMulti.ex_hist = 6%nat /\
  Proofs.LruCost.lru_misses 4 (fun k => k) []
    (map (fun ik => Z.of_nat (fst ik) * 100 + snd ik) Proofs.LruMulti.ex_hist) = 18%nat.
Proof. split; reflexivity. Qed.

Example C13_cache_capacity_matters :
  Proofs.LruCost.lru_misses 4 (fun k => k) [] [1; 2; 3; 1; 2; 3; 1; 2; 3] = 3%nat /\
  Proofs.LruCost.lru_misses 2 (fun k => k) [] [1; 2; 3; 1; 2; 3; 1; 2; 3] = 9%nat.
Proof. split; reflexivity. Qed.
