(* Props/C07.v — layer precedence in differencing, backing and snapshot chains. *)
From Coq Require Import ZArith List Bool.
Import ListNotations.
From DH Require Model.Qcow2 Proofs.Qcow2 Spec.Qcow2.
From DH Require Import Base.Plan Base.Table Model.Chain Proofs.Chain Proofs.Layers
  Model.Vdi Proofs.Vdi Model.Hds Proofs.Hds Model.Vhdx Proofs.Vhdx Proofs.VhdxPartial Proofs.VhdxLayer
  Model.OpenParent Proofs.OpenParent.
From DH Require Model.Vmdk Proofs.Vmdk Proofs.VmdkLayer.
From DH Require Proofs.Storage Model.Hdd Proofs.Hdd.
Open Scope Z_scope.

(* 1. Any chain of layers, of any depth: every byte reads from the topmost layer that holds it,
      else from the nearest ancestor that does, down to zeros below the base. *)
Theorem C07_chain_read_correct :
  forall size g ls depth off n,
  Forall (layer_ok size g) ls ->
  0 <= off -> 0 <= n -> off + n <= size -> off mod g = 0 -> n mod g = 0 ->
  chain_read ls depth off n = Ok (map (chain_src ls depth) (zseq off n)).
Proof. exact chain_read_correct. Qed.
Print Assumptions C07_chain_read_correct.

(* 2. The formats' readers are such layers (for every allocation map / sector bitmap). *)
Theorem C07_vdi_chain :
  forall size (vs : list vdi),
  Forall (fun v => 0 < v_bs v /\ vdi_wf v /\ v_size v = size) vs ->
  forall off n, 0 <= off -> 0 <= n -> off + n <= size ->
  chain_read (map vdi_layer vs) 0 off n = Ok (map (chain_src (map vdi_layer vs) 0) (zseq off n)).
Proof. exact vdi_chain_correct. Qed.
Print Assumptions C07_vdi_chain.

Theorem C07_hds_chain :
  forall size (hs : list hds),
  Forall (fun h => 0 < h_cs h /\ hds_wf h /\ h_size h = size) hs ->
  forall off n, 0 <= off -> 0 <= n -> off + n <= size ->
  chain_read (map hds_layer hs) 0 off n = Ok (map (chain_src (map hds_layer hs) 0) (zseq off n)).
Proof. exact hds_chain_correct. Qed.
Print Assumptions C07_hds_chain.

Theorem C07_vhdx_chain :
  forall size ss (xs : list vhdx),
  Forall (vhdx_member_ok size ss) xs ->
  forall off n, 0 <= off -> 0 <= n -> off + n <= size -> off mod ss = 0 -> n mod ss = 0 ->
  chain_read (map vhdx_layer xs) 0 off n = Ok (map (chain_src (map vhdx_layer xs) 0) (zseq off n)).
Proof. exact vhdx_chain_correct. Qed.
Print Assumptions C07_vhdx_chain.

Theorem C07_qcow2_backing_chain :
  forall size (ims : list Model.Qcow2.image),
  Forall (fun im => Proofs.Qcow2.wf_image im /\
                    Spec.Qcow2.conformant (Model.Qcow2.spec_of im) (Model.Qcow2.size_of im) /\
                    Model.Qcow2.size_of im = size) ims ->
  forall off n, 0 <= off -> 0 <= n -> off + n <= size ->
  chain_read (map qcow2_layer ims) 0 off n = Ok (map (chain_src (map qcow2_layer ims) 0) (zseq off n)).
Proof. exact qcow2_chain_correct. Qed.
Print Assumptions C07_qcow2_backing_chain.

(* ... and over a base shorter than its overlays: zeros beyond the end of the base, overlay data there stays in place *)
Theorem C07_qcow2_short_base_chain :
  forall size (tops : list Model.Qcow2.image) (base : Model.Qcow2.image),
  Forall (fun im => Proofs.Qcow2.wf_image im /\
                    Spec.Qcow2.conformant (Model.Qcow2.spec_of im) (Model.Qcow2.size_of im) /\
                    Model.Qcow2.size_of im = size) tops ->
  Proofs.Qcow2.wf_image base -> Spec.Qcow2.conformant (Model.Qcow2.spec_of base) (Model.Qcow2.size_of base) ->
  0 <= Model.Qcow2.size_of base <= size ->
  let ls := map qcow2_layer tops ++ [clip_layer (Model.Qcow2.size_of base) (qcow2_layer base)] in
  forall off n, 0 <= off -> 0 <= n -> off + n <= size ->
  chain_read ls 0 off n = Ok (map (chain_src ls 0) (zseq off n)).
Proof. exact qcow2_short_base_chain. Qed.
Print Assumptions C07_qcow2_short_base_chain.

(* non-vacuity of the zero-extended view: an overlay that holds nothing over a base of 1024 bytes, read across the end of the base *)
Example C07_short_base_nonvacuous :
  let top := {| l_read := fun off n => Ok [SParent off n]; l_src := fun o => Parent o |} in
  let base := {| l_read := fun off n => Ok [SFile off n]; l_src := File |} in
  chain_read_c [top; clip_layer 1024 base] 512 1024 = Ok [LSFile 1 512 512; LSZero 512] /\
  chain_spec_c [top; clip_layer 1024 base] 512 1024 = [LSFile 1 512 512; LSZero 512].
Proof. split; vm_compute; reflexivity. Qed.

(* VMDK delta links (hosted sparse / COWD / SE-sparse, compressed or not, any grain and table size, any
   table content): a chain of any depth, at sector granularity (the unit of VMDK.read_sectors) *)
Theorem C07_vmdk_delta_chain :
  forall cap (links : list (Model.Vmdk.vfile * Model.Vmdk.sparse)),
  Forall (fun fs => Proofs.Vmdk.wf_sparse (fst fs) (snd fs) /\ Model.Vmdk.sp_capacity (snd fs) = cap) links ->
  forall off n, 0 <= off -> 0 <= n -> off + n <= cap * 512 -> off mod 512 = 0 -> n mod 512 = 0 ->
  chain_read (map Proofs.VmdkLayer.vmdk_layer links) 0 off n =
  Ok (map (chain_src (map Proofs.VmdkLayer.vmdk_layer links) 0) (zseq off n)).
Proof. exact Proofs.VmdkLayer.vmdk_chain_correct. Qed.
Print Assumptions C07_vmdk_delta_chain.

Example C07_vmdk_nonvacuous_hosted : Proofs.Vmdk.wf_sparse Proofs.Vmdk.ex_file Proofs.Vmdk.ex_sparse.
Proof. exact Proofs.Vmdk.ex_sparse_wf. Qed.
Example C07_vmdk_nonvacuous_se : Proofs.Vmdk.wf_sparse Proofs.Vmdk.ex_se_file Proofs.Vmdk.ex_se_sparse.
Proof. exact Proofs.Vmdk.ex_se_wf. Qed.

(* Parallels .hdd split over storages: each storage's snapshot chain stands alone *)
Theorem C07_hdd_storages_independent :
  forall hs s0 sector count,
  Proofs.Hdd.hdd_ok hs -> Proofs.Storage.slaid (Proofs.Hdd.ss_of hs) s0 -> s0 <= sector -> 0 <= count ->
  sector + count <= Proofs.Storage.s_end (Proofs.Hdd.ss_of hs) s0 ->
  Model.Hdd.hdd_read hs (sector * 512) (count * 512) =
  Ok (map (Model.Hdd.hdd_src hs 0) (zseq (sector * 512) (count * 512))).
Proof. exact Proofs.Hdd.hdd_read_correct. Qed.
Print Assumptions C07_hdd_storages_independent.

(* any byte-granular reader with an exact pointwise theorem whose parent references stay at the same guest
   offset is a layer (this is how further formats plug into the chain theorem) *)
Theorem C07_exact_reader_is_layer :
  forall size (l : layer),
  (forall o o', l_src l o = Parent o' -> o' = o) ->
  (forall off n, 0 <= off -> 0 <= n -> off + n <= size ->
     exists p, l_read l off n = Ok p /\ srcs_of p = map (l_src l) (zseq off n)) ->
  layer_ok size 1 l.
Proof. exact exact_reader_layer_ok. Qed.
Print Assumptions C07_exact_reader_is_layer.

(* 3. VHDX per-sector bitmaps: the run iterator expands to exactly bits [start, start+len) of the
      bitmap, for every bitmap, every start bit 0..7 and every length. *)
Theorem C07_iter_partial_runs_correct :
  forall bm start len runs,
  0 <= start < 8 -> 0 <= len -> start + len <= 8 * Z.of_nat (length bm) ->
  iter_partial_runs bm start len = Ok runs ->
  expand runs = map (bm_bit bm) (zseq start len).
Proof. exact iter_partial_runs_correct. Qed.
Print Assumptions C07_iter_partial_runs_correct.

(* 4. A required parent that cannot be resolved makes opening fail; the first existing candidate wins. *)
Theorem C07_vhdx_parent_required :
  forall (P : Type) (fs : P -> bool) rel abs,
  fs rel = false -> fs abs = false -> vhdx_open_parent fs true true rel abs = Err.
Proof. intros P fs. exact (vhdx_parent_required fs). Qed.
Print Assumptions C07_vhdx_parent_required.

Theorem C07_vhdx_parent_choice :
  forall (P : Type) (fs : P -> bool) rel abs r,
  vhdx_open_parent fs true true rel abs = Ok r ->
  (r = Some rel /\ fs rel = true) \/ (r = Some abs /\ fs rel = false /\ fs abs = true).
Proof. intros P fs. exact (vhdx_parent_choice fs). Qed.
Print Assumptions C07_vhdx_parent_choice.

Theorem C07_vmdk_parent_first_existing :
  forall (P : Type) (fs : P -> bool) same up r,
  vmdk_open_parent fs true same up = Ok (Some r) ->
  fs r = true /\ (r = same \/ (fs same = false /\ r = up)).
Proof. intros P fs. exact (vmdk_parent_first_existing fs). Qed.
Print Assumptions C07_vmdk_parent_first_existing.

Theorem C07_vmdk_parent_required :
  forall (P : Type) (fs : P -> bool) same up,
  fs same = false -> fs up = false -> vmdk_open_parent fs true same up = Err.
Proof. intros P fs. exact (vmdk_parent_required fs). Qed.
Print Assumptions C07_vmdk_parent_required.

Example C07_vmdk_parent_nonvacuous :
  vmdk_open_parent (fun p : Z => p =? 2) true 1 2 = Ok (Some 2) /\
  vmdk_open_parent (fun _ : Z => true) true 1 2 = Ok (Some 1) /\
  vmdk_open_parent (fun _ : Z => false) true 1 2 = Err.
Proof. repeat split; reflexivity. Qed.

Theorem C07_hdd_image_required :
  forall (P : Type) (fs : P -> bool) ia p c1 c2 c3 rel,
  fs p = false -> fs c1 = false -> fs c2 = false -> fs c3 = false -> fs rel = false ->
  hdd_open_image fs ia p c1 c2 c3 rel = Err.
Proof. intros P fs. exact (hdd_image_required fs). Qed.
Print Assumptions C07_hdd_image_required.

Example C07_pinned_partial_runs :
  iter_partial_runs [255; 0] 4 8 = Ok [(1, 4); (0, 4)].
Proof. reflexivity. Qed.
