(* Props/C18.v — VM configuration files: the disk list is exactly the VM's hard disks.
   Only statements; each is closed by [exact] of a lemma from Proofs/{Text,Vmx,XmlDesc}.v.
   Strings are lists of code points; the model functions (parse_dictionary, vmx_disks, ovf_disks,
   vbox_disks, pvs_disks) use the constants regenerated from the source in Gen/DescTables.v. *)
From Coq Require Import ZArith List Bool Sorted.
Import ListNotations.
From DH Require Import Base.Plan Model.Text Model.XmlTree Gen.DescTables Model.Vmx Model.XmlDesc
  Proofs.Text Proofs.Vmx Proofs.XmlDesc.
Open Scope Z_scope.

(* ---- VMX dictionaries ---- *)

(* the text is cut at line feeds and nowhere else *)
Theorem C18_dict_lines :
  forall ls, ls <> [] -> Forall (fun l => ~ In 10 l) ls ->
  parse_dictionary (join_on 10 ls) = parse_lines ls.
Proof. exact parse_dictionary_lines. Qed.
Print Assumptions C18_dict_lines.

(* keys are case-folded and the last assignment of a key wins: looking a key up in the parsed
   dictionary gives the value of the LAST line whose case-folded, stripped key is that key *)
Theorem C18_dict_last_wins :
  forall ls k, dget k (parse_lines ls) = last_assoc k (assignments ls).
Proof. exact dict_last_wins. Qed.
Print Assumptions C18_dict_last_wins.

Theorem C18_dict_keys_unique : forall ls, NoDup (map fst (parse_lines ls)).
Proof. exact dict_keys_unique. Qed.
Print Assumptions C18_dict_keys_unique.

(* blank lines and '#' comment lines contribute nothing, wherever they stand *)
Theorem C18_dict_comment_blank_ignored :
  forall ls1 l ls2, strip l = [] \/ startswith [35] (strip l) = true ->
  parse_lines (ls1 ++ l :: ls2) = parse_lines (ls1 ++ ls2).
Proof. exact dict_comment_blank_ignored. Qed.
Print Assumptions C18_dict_comment_blank_ignored.

(* a rendered assignment line  ws key ws = pad value pad ws  (ws: any Unicode white space; pad: any
   mix of spaces and double quotes) contributes exactly (lower key, value): key casing, optional
   quoting and surrounding white space are irrelevant *)
Theorem C18_assignment_rendered :
  forall w1 k w2 p3 v p4 w4,
  forallb is_space w1 = true -> forallb is_space w2 = true -> forallb is_space w4 = true ->
  forallb (memz [32; 34]) p3 = true -> forallb (memz [32; 34]) p4 = true ->
  k <> [] -> ~ In 61 k -> head_not is_space k = true -> last_not is_space k = true ->
  head_not (Z.eqb 35) k = true ->
  v <> [] -> head_not (memz [32; 34]) v = true -> last_not (memz [32; 34]) v = true ->
  last_not is_space v = true ->
  assignment (w1 ++ k ++ w2 ++ 61 :: p3 ++ v ++ p4 ++ w4) = Some (lower k, v).
Proof. exact assignment_rendered. Qed.
Print Assumptions C18_assignment_rendered.

(* ---- VMX.disks ---- *)

(* device.lstrip(dev_class) strips a character SET; it is a prefix removal exactly when the
   device id does not begin with a letter of the class name (a bus number never does) *)
Theorem C18_lstrip_is_prefix_removal :
  forall c id, head_not (memz c) id = true -> lstrip_chars c (c ++ id) = id.
Proof. exact lstrip_class_is_prefix_removal. Qed.
Print Assumptions C18_lstrip_is_prefix_removal.

Theorem C18_strict_id_is_safe :
  forall c id, In c spec_classes -> strict_id id = true -> head_not (memz c) id = true.
Proof. exact strict_id_head. Qed.
Print Assumptions C18_strict_id_is_safe.

(* for every well-formed dictionary — any number of devices, any bus:unit, any key order, any
   unrelated entries — the reported list contains exactly the hard disks' backing files, sorted *)
Theorem C18_vmx_disks_exact :
  forall attr f, wf_vmx attr = true -> (In f (vmx_disks attr) <-> In f (spec_disks attr)).
Proof. exact vmx_disks_exact. Qed.
Print Assumptions C18_vmx_disks_exact.

Theorem C18_vmx_disks_sorted : forall attr, StronglySorted sle (vmx_disks attr).
Proof. exact vmx_disks_sorted. Qed.
Print Assumptions C18_vmx_disks_sorted.

(* ---- VirtualBox, Parallels: arbitrary element trees ---- *)
Theorem C18_vbox_disks_correct : forall root, vbox_disks root = Ok (spec_vbox_disks root).
Proof. exact vbox_disks_correct. Qed.
Print Assumptions C18_vbox_disks_correct.

Theorem C18_pvs_disks_correct :
  forall root, wf_pvs root = true -> pvs_disks root = map Some (spec_pvs_disks root).
Proof. exact pvs_disks_correct. Qed.
Print Assumptions C18_pvs_disks_correct.

(* ---- OVF: arbitrary element trees; any reference/disk/item graph in scope ---- *)
Theorem C18_ovf_disks_correct :
  forall root, wf_ovf root = true -> ovf_disks root = Ok (map Some (spec_ovf_disks root)).
Proof. exact ovf_disks_correct. Qed.
Print Assumptions C18_ovf_disks_correct.

(* the ElementPath evaluation of the generated disk-drive path selects exactly the ResourceType-17
   items of VirtualSystem/VirtualHardwareSection, in every tree *)
Theorem C18_ovf_drive_path : forall root, eval_path ovf_drive_xpath root = spec_drives root.
Proof. exact drive_path. Qed.
Print Assumptions C18_ovf_drive_path.

(* ---- non-vacuity and the need for well-formedness ---- *)
Definition E (t : str) (a : list (str * str)) (tx : option str) (k : list elem) : elem := Elem t a tx None k.
(* one file, a disk on it, an EMPTY disk (no fileRef), two disk drives and a CD drive on the same file *)
Definition ex_ovf : elem :=
  E (ovf_n [69]) [] None
    [ E (ovf_n n_References) [] None [E (ovf_n n_File) [(ovf_n n_id, [102;49]); (ovf_n n_href, [97])] None []];
      E (ovf_n n_DiskSection) [] None
        [ E (ovf_n n_Disk) [(ovf_n n_diskId, [100;49]); (ovf_n n_fileRef, [102;49])] None [];
          E (ovf_n n_Disk) [(ovf_n n_diskId, [100;50])] None [] ];
      E (ovf_n n_VirtualSystem) [] None
        [ E (ovf_n n_VirtualHardwareSection) [] None
            [ E (ovf_n n_Item) [] None [E (rasd_n n_ResourceType) [] (Some s_17) [];
                                        E (rasd_n n_HostResource) [] (Some (s_ovf_colon ++ s_slash_disk ++ [100;49])) []];
              E (ovf_n n_Item) [] None [E (rasd_n n_HostResource) [] (Some (s_slash_disk ++ [100;50])) [];
                                        E (rasd_n n_ResourceType) [] (Some s_17) []];
              E (ovf_n n_Item) [] None [E (rasd_n n_ResourceType) [] (Some [49;53]) [];
                                        E (rasd_n n_HostResource) [] (Some (s_ovf_colon ++ s_slash_file ++ [102;49])) []] ] ] ].
Example C18_ovf_nonvacuous :
  wf_ovf ex_ovf = true /\ spec_ovf_disks ex_ovf = [[97]] /\ ovf_disks ex_ovf = Ok [Some [97]].
Proof. repeat split; vm_compute; reflexivity. Qed.

Definition s (l : list Z) : str := l.
(* scsi0:0.filename = "a"; scsi0:0.devicetype = "scsi-harddisk"; ide1:0.filename = "b";
   ide1:0.devicetype = "cdrom-image"; scsi0.present; ideal = "1" (unrelated, dot-less) *)
Definition ex_attr : dict str :=
  [ ([115;99;115;105;48;58;48;46;102;105;108;101;110;97;109;101], [97]);
    ([115;99;115;105;48;58;48;46;100;101;118;105;99;101;116;121;112;101], [115;99;115;105;45;104;97;114;100;100;105;115;107]);
    ([105;100;101;49;58;48;46;102;105;108;101;110;97;109;101], [98]);
    ([105;100;101;49;58;48;46;100;101;118;105;99;101;116;121;112;101], [99;100;114;111;109;45;105;109;97;103;101]);
    ([115;99;115;105;48;46;112;114;101;115;101;110;116], [84;82;85;69]);
    ([105;100;101;97;108], [49]) ].
Example C18_nonvacuous : wf_vmx ex_attr = true /\ vmx_disks ex_attr = [[97]] /\ spec_disks ex_attr = [[97]].
Proof. repeat split; vm_compute; reflexivity. Qed.

(* outside the domain the character-set stripping is NOT a prefix removal: "scsis0:0".lstrip("scsi") is
   "0:0", so an unrelated setting scsis0:0.devicetype would be filed under the device scsi0:0 *)
Example C18_charset_strip_needs_wf :
  lstrip_chars [115;99;115;105] [115;99;115;105;115;48;58;48] = [48;58;48] /\
  removeprefix [115;99;115;105] [115;99;115;105;115;48;58;48] = [115;48;58;48] /\
  wf_entry ([115;99;115;105;115;48;58;48;46;100;101;118;105;99;101;116;121;112;101], [120]) = false.
Proof. repeat split; vm_compute; reflexivity. Qed.
