(* Props/C18.v — placeholder while the correspondence is brought up *)
From Coq Require Import ZArith List.
From DH Require Import Model.Text Model.XmlTree Model.Vmx Model.XmlDesc.
Theorem C18_placeholder : True.
Proof. exact I. Qed.
Print Assumptions C18_placeholder.
