(* Props/C16.v — placeholder, replaced below *)
From DH Require Import Model.Envelope Model.EnvKeystore.
Theorem C16_placeholder : True.
Proof. exact I. Qed.
Print Assumptions C16_placeholder.
