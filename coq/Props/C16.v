(* Props/C16.v — ESXi envelope and keystore: decrypt round-trips and is authenticated.
   Only statements; each is closed by [exact] of a lemma from Proofs/Envelope.v / Proofs/EnvKeystore.v.
   AES-GCM, SHA-256 and PBKDF2 are universally quantified function arguments; what is assumed about
   them is written as explicit premises of the theorem that needs it. *)
From Coq Require Import ZArith List.
From DH Require Import Base.Plan Base.Layout Model.Envelope Model.EnvKeystore Proofs.Envelope Proofs.EnvKeystore.
From DH Require Gen.EnvelopeTables.
Import ListNotations.
Open Scope Z_scope.

(* ---- attribute codec: all 12 types, any order, any count ---- *)
Theorem C16_attrs_pack_total :
  forall attrs, Forall wf_attr attrs -> exists packed, pack_attr_list attrs = Ok packed.
Proof. exact pack_attr_list_total. Qed.
Print Assumptions C16_attrs_pack_total.

Theorem C16_attrs_roundtrip :
  forall attrs packed rest, wf_attrs attrs -> pack_attr_list attrs = Ok packed ->
  read_attributes (packed ++ 0 :: rest) = Ok attrs.
Proof. exact attrs_roundtrip. Qed.
Print Assumptions C16_attrs_roundtrip.

(* the block _pack_envelope_header writes is one block that reads back to the same attributes and
   re-serialises to itself byte for byte *)
Theorem C16_header_repack_identity :
  forall attrs hdr, wf_attrs attrs -> fits attrs ->
  pack_header attrs Gen.EnvelopeTables.envelope_header_version = Ok hdr ->
  len hdr = BLOCK /\
  exists attrs', read_attributes (dropz hdr HDR) = Ok attrs' /\
                 pack_header attrs' Gen.EnvelopeTables.envelope_header_version = Ok hdr.
Proof. exact header_repack_identity. Qed.
Print Assumptions C16_header_repack_identity.

(* ---- padding / footer stripping is exact for every payload and padding length ---- *)
Theorem C16_strip_exact :
  forall payload padbytes fill, len fill = STRIP - TAIL -> len padbytes < 2 ^ 32 ->
  strip (plaintext payload padbytes fill) = Ok payload.
Proof. exact strip_exact. Qed.
Print Assumptions C16_strip_exact.

(* ---- round trip: every attribute set, payload, padding, IV, associated data ---- *)
Theorem C16_decrypt_roundtrip :
  forall (sha : list Z -> list Z)
         (gcm_enc gcm_dec : list Z -> list Z -> list Z -> list Z)
         (gcm_tag : list Z -> list Z -> list Z -> list Z -> list Z)
         (gcm_ok : list Z -> list Z -> list Z -> list Z -> list Z -> bool),
  (forall k iv p, gcm_dec k iv (gcm_enc k iv p) = p) ->
  (forall k iv a c, gcm_ok k iv a c (gcm_tag k iv a c) = true) ->
  (forall k iv a c, len (gcm_tag k iv a c) <= 4056) ->
  forall attrs key iv aad payload padbytes fill,
  wf_attrs attrs -> fits attrs -> sealed_attrs sha attrs key iv ->
  key_len_ok key = true -> iv <> [] -> len fill = STRIP - TAIL -> len padbytes < 2 ^ 32 ->
  exists hdr, pack_header attrs Gen.EnvelopeTables.envelope_header_version = Ok hdr /\
    open_decrypt sha gcm_dec gcm_ok true (seal gcm_enc gcm_tag hdr key iv aad payload padbytes fill) key aad
    = Ok payload.
Proof. exact decrypt_roundtrip. Qed.
Print Assumptions C16_decrypt_roundtrip.

(* the same for ANY stored header block the reader opens (non-canonical encodings included: reserved
   bytes, bytes after the terminator, signalling-NaN floats) *)
Theorem C16_decrypt_roundtrip_stored_header :
  forall (sha : list Z -> list Z)
         (gcm_enc gcm_dec : list Z -> list Z -> list Z -> list Z)
         (gcm_tag : list Z -> list Z -> list Z -> list Z -> list Z)
         (gcm_ok : list Z -> list Z -> list Z -> list Z -> list Z -> bool),
  (forall k iv p, gcm_dec k iv (gcm_enc k iv p) = p) ->
  (forall k iv a c, gcm_ok k iv a c (gcm_tag k iv a c) = true) ->
  (forall k iv a c, len (gcm_tag k iv a c) <= 4056) ->
  forall hdr attrs key iv aad payload padbytes fill,
  header_opens hdr attrs -> sealed_attrs sha attrs key iv ->
  key_len_ok key = true -> iv <> [] -> len fill = STRIP - TAIL -> len padbytes < 2 ^ 32 ->
  open_decrypt sha gcm_dec gcm_ok true (seal gcm_enc gcm_tag hdr key iv aad payload padbytes fill) key aad
  = Ok payload.
Proof. exact decrypt_roundtrip_hdr. Qed.
Print Assumptions C16_decrypt_roundtrip_stored_header.

(* ---- authenticated: plaintext only if the key hash matched and GCM verification accepted exactly
        (stored header block ‖ aad, stored ciphertext, stored tag); nothing is assumed about GCM/SHA ---- *)
Theorem C16_decrypt_sound :
  forall sha gcm_dec gcm_ok file key aad p,
  open_decrypt sha gcm_dec gcm_ok true file key aad = Ok p ->
  exists e iv tag,
    env_open file = Ok e /\ iv_of e = Some iv /\ stored_tag file = Some tag /\
    hash_matches (sha (CIPHER ++ key)) (e_key_hash e) = true /\
    gcm_ok key iv (stored_header file ++ aad) (stored_ct file) tag = true /\
    strip (gcm_dec key iv (stored_ct file)) = Ok p.
Proof. exact decrypt_sound. Qed.
Print Assumptions C16_decrypt_sound.

(* ---- every alteration is refused, for an ideal MAC and hash.  The two idealisations (a tag determines what
        was authenticated; the hash is injective) are premises of THIS theorem only: they are false of any real
        128-bit tag, which is exactly the residual risk C16_decrypt_sound leaves. ---- *)
Theorem C16_tamper_rejected_ideal :
  forall (sha : list Z -> list Z) (gcm_dec : list Z -> list Z -> list Z -> list Z)
         (gcm_tag : list Z -> list Z -> list Z -> list Z -> list Z)
         (gcm_ok : list Z -> list Z -> list Z -> list Z -> list Z -> bool),
  (forall k iv a c t, gcm_ok k iv a c t = true -> t = gcm_tag k iv a c) ->
  (forall k iv a c k' iv' a' c', gcm_tag k iv a c = gcm_tag k' iv' a' c' -> k = k' /\ iv = iv' /\ a = a' /\ c = c') ->
  (forall x y, sha x = sha y -> x = y) ->
  forall hdr attrs key iv aad ct file' key' aad' p,
  header_opens hdr attrs -> sealed_attrs sha attrs key iv -> iv <> [] ->
  open_decrypt sha gcm_dec gcm_ok true file' key' aad' = Ok p ->
  let tag := gcm_tag key iv (hdr ++ aad) ct in
  (stored_tag file' = Some tag ->
     stored_header file' = hdr /\ stored_ct file' = ct /\ aad' = aad /\ key' = key) /\
  (stored_header file' = hdr ->
     key' = key /\ (stored_ct file' = ct -> aad' = aad -> stored_tag file' = Some tag)).
Proof. exact tamper_rejected. Qed.
Print Assumptions C16_tamper_rejected_ideal.

(* ---- progress: the model never needs more fuel (every outcome is "returns" or "raises") ---- *)
Theorem C16_no_fuel :
  forall sha gcm_dec gcm_ok verify file key aad, open_decrypt sha gcm_dec gcm_ok verify file key aad <> Fuel.
Proof. exact open_decrypt_no_fuel. Qed.
Print Assumptions C16_no_fuel.

(* ---- command-line tool: writes exactly the decrypted bytes; on failure no plaintext ---- *)
Theorem C16_cli_writes_exactly :
  forall sha gcm_dec gcm_ok file key aad,
  match open_decrypt sha gcm_dec gcm_ok true file key aad with
  | Ok p => cli sha gcm_dec gcm_ok file (Ok key) aad = (Ok tt, Written p)
  | _ => fst (cli sha gcm_dec gcm_ok file (Ok key) aad) <> Ok tt /\
         (snd (cli sha gcm_dec gcm_ok file (Ok key) aad) = Absent \/
          snd (cli sha gcm_dec gcm_ok file (Ok key) aad) = Written [])
  end.
Proof. exact cli_writes_exactly. Qed.
Print Assumptions C16_cli_writes_exactly.

(* ---- keystore: the key is PBKDF2 of the stored values, and depends on nothing else ---- *)
Theorem C16_keystore_key_spec :
  forall pbkdf2 text k,
  keystore_key pbkdf2 text = Ok k <->
  exists c, keystore_plan text = Ok c /\ k = pbkdf2 KDF_HASH (k_password c) (k_salt c) KDF_ITER.
Proof. exact keystore_key_spec. Qed.
Print Assumptions C16_keystore_key_spec.

Theorem C16_keystore_init_values :
  forall store c, keystore_init store = Ok c ->
  kv_get store N_mode = Some (Leaf MODE_NONE) /\
  exists data kid s1 s2 d1,
    kv_get store N_ConfigEncData = Some (Leaf data) /\
    obj_get (parse_config data) F_keyId = Some kid /\ b64decode kid = Ok (k_id c) /\ len (k_id c) = 16 /\
    obj_get (parse_config data) F_data1 = Some s1 /\ b64decode s1 = Ok d1 /\ k_password c = d1 ++ SALT /\
    obj_get (parse_config data) F_data2 = Some s2 /\ b64decode s2 = Ok (k_salt c).
Proof. exact keystore_init_values. Qed.
Print Assumptions C16_keystore_init_values.

Theorem C16_keystore_deterministic :
  forall pbkdf2 t1 t2 s1 s2,
  from_text t1 = Ok s1 -> from_text t2 = Ok s2 ->
  kv_get s1 N_mode = kv_get s2 N_mode -> kv_get s1 N_ConfigEncData = kv_get s2 N_ConfigEncData ->
  keystore_key pbkdf2 t1 = keystore_key pbkdf2 t2.
Proof. exact keystore_key_deterministic. Qed.
Print Assumptions C16_keystore_deterministic.

Theorem C16_keystore_no_fuel : forall text, keystore_plan text <> Fuel.
Proof. exact keystore_plan_no_fuel. Qed.
Print Assumptions C16_keystore_no_fuel.

(* ---- why the stored block (not its re-serialisation) must be the associated data: a header the
        reader opens whose re-serialisation differs (Float attribute holding a signalling NaN) ---- *)
Theorem C16_repack_is_not_the_stored_header :
  exists hdr attrs hdr', header_opens hdr attrs /\ pack_header attrs 2 = Ok hdr' /\
                         len hdr' = len hdr /\ beq hdr' hdr = false.
Proof. exists ex_snan_hdr. exact ex_snan_repack_differs. Qed.
Print Assumptions C16_repack_is_not_the_stored_header.

(* ---- non-vacuity: a concrete attribute set with the four stored attributes and one attribute of each
        of the 12 types, in mixed order, meets every hypothesis of the round-trip theorem ---- *)
Example C16_nonvacuous :
  wf_attrs ex_attrs /\ fits ex_attrs /\ sealed_attrs ex_sha ex_attrs ex_key ex_iv /\
  key_len_ok ex_key = true /\ ex_iv <> [].
Proof.
  split; [exact ex_attrs_wf|]. split; [exact ex_attrs_fits|]. split; [exact ex_attrs_sealed|].
  split; [reflexivity|discriminate].
Qed.
