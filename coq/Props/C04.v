(* Props/C04.v — VHD: every byte range reads as the guest-visible content.
   Only statements; each is closed by [exact] of a lemma from Proofs/Vhd.v. *)
From Coq Require Import ZArith List.
From DH Require Import Base.Plan Base.Table Model.Vhd Proofs.Vhd.
Open Scope Z_scope.

(* dynamic disks, sector interface: whatever the BAT holds, a successful read
   is exactly the guest bytes of the requested sectors *)
Theorem C04_dyn_read_sectors_correct :
  forall d, 0 < spb d -> forall fuel sector count p, 0 <= sector ->
  dyn_read_sectors d fuel sector count = Ok p ->
  srcs_of p = map (guest_src d) (zseq (sector * SECTOR) (count * SECTOR)).
Proof. intros d H fuel. exact (dyn_read_sectors_correct d H fuel). Qed.
Print Assumptions C04_dyn_read_sectors_correct.

(* dynamic disks, byte back end: succeeds on every well-formed image, for any
   aligned request inside the disk, even one running past the end *)
Theorem C04_dyn_read_correct :
  forall d off len,
  wf_dyn d -> 0 <= off < d_size d -> off mod SECTOR = 0 -> 0 < len ->
  exists p, dyn_read d (fuel_for (cdiv (Z.min len (d_size d - off)) SECTOR)) off len = Ok p /\
    let n := Z.min len (d_size d - off) in
    firstn (Z.to_nat n) (srcs_of p) = map (guest_src d) (zseq off n).
Proof. exact dyn_read_correct. Qed.
Print Assumptions C04_dyn_read_correct.

Theorem C04_fixed_read_correct :
  forall size off len, 0 <= off < size -> off mod SECTOR = 0 -> 0 < len ->
  let n := Z.min len (size - off) in
  firstn (Z.to_nat n) (srcs_of (fixed_read size off len)) = map fixed_src (zseq off n).
Proof. exact fixed_read_correct. Qed.
Print Assumptions C04_fixed_read_correct.

Theorem C04_footer_selection :
  forall fsz feat, footer_offset fsz feat = if Z.testbit feat 1 then fsz - 512 else fsz - 511.
Proof. exact footer_offset_spec. Qed.
Print Assumptions C04_footer_selection.

Theorem C04_progress :
  forall d, 0 < spb d -> forall fuel sector count, 0 <= sector -> count < Z.of_nat fuel ->
  dyn_read_sectors d fuel sector count <> Fuel.
Proof. intros d H fuel. exact (dyn_read_sectors_fuel d H fuel). Qed.
Print Assumptions C04_progress.

Example C04_nonvacuous : wf_dyn ex_dyn.
Proof. exact ex_dyn_wf. Qed.
