(* Props/C03.v — VHDX (non-differencing): every byte range reads as the guest-visible content. *)
From Coq Require Import ZArith List.
From DH Require Import Base.Plan Base.Table Model.Vhdx Proofs.Vhdx.
Open Scope Z_scope.

(* sector interface: any BAT contents; a successful read is exactly the guest bytes *)
Theorem C03_read_sectors_sound :
  forall x, geom_ok x -> states_ok x -> forall fuel sector count p,
  x_has_parent x = false -> 0 <= sector ->
  vhdx_read_sectors x fuel sector count = Ok p ->
  srcs_of p = map (vhdx_src x) (zseq (sector * x_ss x) (count * x_ss x)).
Proof. exact vhdx_read_sectors_sound. Qed.
Print Assumptions C03_read_sectors_sound.

(* byte back end on every well-formed non-differencing image: succeeds for any sector-aligned
   request starting inside the disk (also one running past the end) with the right bytes *)
Theorem C03_read_correct :
  forall x, geom_ok x -> states_ok x -> forall off len,
  vhdx_wf_nodiff x -> 0 <= off < x_size x -> off mod x_ss x = 0 -> 0 < len ->
  exists p, vhdx_read x (vhdx_fuel (cdiv (Z.min len (x_size x - off)) (x_ss x))) off len = Ok p /\
    let n := Z.min len (x_size x - off) in
    firstn (Z.to_nat n) (srcs_of p) = map (vhdx_src x) (zseq off n).
Proof. exact vhdx_read_correct. Qed.
Print Assumptions C03_read_correct.

(* interleaved sector-bitmap entries: the payload entry index of a block inside the disk
   never leaves the table, for every chunk ratio *)
Theorem C03_pb_index_in_table :
  forall x, geom_ok x -> forall block,
  x_has_parent x = false -> 0 <= block < pb_count x ->
  block + block / chunk_ratio x + 1 <= entry_count x.
Proof. exact pb_index_in_table. Qed.
Print Assumptions C03_pb_index_in_table.

(* 44-bit MiB offsets decode without truncation *)
Theorem C03_bat_entry_roundtrip :
  forall state mb, 0 <= state < 8 -> 0 <= mb < 2 ^ 44 ->
  be_state (state + mb * 2 ^ 20) = state /\ be_mb (state + mb * 2 ^ 20) = mb.
Proof. exact bat_entry_roundtrip. Qed.
Print Assumptions C03_bat_entry_roundtrip.

Theorem C03_progress :
  forall x, geom_ok x -> forall fuel sector count,
  0 <= sector -> count < Z.of_nat fuel -> vhdx_read_sectors x fuel sector count <> Fuel.
Proof. exact vhdx_read_sectors_progress. Qed.
Print Assumptions C03_progress.

Example C03_nonvacuous : geom_ok ex_vhdx.
Proof. exact ex_vhdx_geom. Qed.
