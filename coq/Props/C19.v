(* Props/C19.v — XML descriptors are parsed without entity expansion or external fetches.
   Only statements.  xml_sites / xml_runtime_imports / xml_unresolved / xml_modules_scanned are regenerated
   from every module under dissect/hypervisor on every run (Gen/XmlSites.v). *)
From Coq Require Import String ZArith List Bool.
Import ListNotations.
From DH Require Import Model.XmlEntry Gen.XmlSites Model.XmlPredict Proofs.XmlEntry.
Open Scope Z_scope.
Open Scope string_scope.

(* every call into an XML library is defusedxml.ElementTree.fromstring(<one argument>): no keyword
   (forbid_entities / forbid_external / forbid_dtd keep their defaults), no other parser *)
Theorem C19_all_sites_defused : forallb site_ok xml_sites = true.
Proof. exact all_sites_ok. Qed.
Print Assumptions C19_all_sites_defused.

(* exactly the four known XML consumers; a new, unlisted one changes this list *)
Theorem C19_four_entry_points :
  map (fun s => (site_module s, site_fn s)) xml_sites =
  [ ("dissect.hypervisor.descriptor.ovf", "OVF.__init__");
    ("dissect.hypervisor.descriptor.pvs", "PVS.__init__");
    ("dissect.hypervisor.descriptor.vbox", "VBox.__init__");
    ("dissect.hypervisor.disk.hdd", "Descriptor.__init__") ].
Proof. exact entry_points. Qed.
Print Assumptions C19_four_entry_points.

(* xml.* is imported for typing only, in every module *)
Theorem C19_no_runtime_xml_import : xml_runtime_imports = [].
Proof. exact no_runtime_xml. Qed.
Print Assumptions C19_no_runtime_xml_import.

(* no parser-like call (fromstring / XML / iterparse / feed ...) on a receiver the inventory could not resolve *)
Theorem C19_nothing_unresolved : xml_unresolved = [].
Proof. exact nothing_unresolved. Qed.
Print Assumptions C19_nothing_unresolved.

(* under the contract of defusedxml (oracle): every entry point refuses every document that
   declares an entity, whatever the document and whatever else the parsers do *)
Theorem C19_entities_refused_everywhere :
  forall (doc tree : Type) (declares_entity : doc -> bool) (stdlib_parse : doc -> option tree)
         (defused_parse : doc -> outcome tree) (other_parse : xml_site -> doc -> outcome tree),
  (forall d, declares_entity d = true -> defused_parse d = Refused) ->
  forall s d, In s xml_sites -> declares_entity d = true ->
  entry doc tree stdlib_parse defused_parse other_parse s d = Refused.
Proof. intros doc tree de sp dp op H. exact (entities_refused doc tree de sp dp op H). Qed.
Print Assumptions C19_entities_refused_everywhere.

(* documents without entity declarations parse as with the standard library *)
Theorem C19_benign_unchanged :
  forall (doc tree : Type) (declares_entity : doc -> bool) (stdlib_parse : doc -> option tree)
         (defused_parse : doc -> outcome tree) (other_parse : xml_site -> doc -> outcome tree),
  (forall d, declares_entity d = false -> defused_parse d = of_stdlib doc tree stdlib_parse d) ->
  forall s d, In s xml_sites -> declares_entity d = false ->
  entry doc tree stdlib_parse defused_parse other_parse s d = of_stdlib doc tree stdlib_parse d.
Proof. intros doc tree de sp dp op H. exact (benign_same doc tree de sp dp op H). Qed.
Print Assumptions C19_benign_unchanged.

(* non-vacuity: the abstract parsers of Model/XmlPredict.v meet both hypotheses, and the four entry
   points are predicted to refuse an entity-declaring document and to parse a benign one unchanged *)
Example C19_contract_inhabited :
  (forall d, declares d = true -> wellformed d = true -> a_defused d = Refused) /\
  predict "dissect.hypervisor.descriptor.ovf" true true = 2 /\
  predict "dissect.hypervisor.descriptor.vbox" true true = 2 /\
  predict "dissect.hypervisor.descriptor.pvs" true true = 2 /\
  predict "dissect.hypervisor.disk.hdd" true true = 2 /\
  predict "dissect.hypervisor.disk.hdd" false true = 0.
Proof.
  split; [intros [dc wf] H1 H2; simpl in *; subst; reflexivity|]. repeat split; vm_compute; reflexivity.
Qed.
