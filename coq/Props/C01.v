(* Props/C01.v — QCOW2: every byte range reads as the guest-visible content.
   Only statements; each is closed by [exact] of a lemma from Proofs/Qcow2*.v.

   [guest_src im] is Spec/Qcow2.v (written from the QCOW2 specification, no generated code) applied to
   the stored header and tables.  [qcow2_read] / [read_runs] / [yield_runs] are Model/Qcow2.v, whose
   index arithmetic, classification, range types, ctz, geometry and version-2 defaults are the
   definitions TRANSLATED from qcow2.py / c_qcow2.py (Gen/Qcow2Fun.v). *)
From Coq Require Import ZArith List Bool.
From DH Require Import Base.Plan Base.Table Gen.Consts Gen.Qcow2Fun.
From DH Require Import Spec.Qcow2 Model.Qcow2 Proofs.Qcow2Bits Proofs.Qcow2Class Proofs.Qcow2 Proofs.Qcow2Total.
Import ListNotations.
Open Scope Z_scope.

(* 1. the central theorem: for EVERY image with a supported header (version 2/3, cluster_bits 9..21; standard
   or extended L2, data file or not, backing or not), EVERY content of L1/L2 tables at ANY host offsets and
   EVERY request, a read that returns, returns exactly the guest-visible sources of the requested bytes. *)
Theorem C01_read_runs_correct :
  forall im fuel off len p,
  wf_image im -> read_runs im fuel off len = Ok p ->
  srcs_of p = map (guest_src im) (zseq off len).
Proof. exact read_runs_correct. Qed.
Print Assumptions C01_read_runs_correct.

(* the same in bytes, for every content of the image file, the data file, the (zero-extended) backing image
   and every inflate function *)
Theorem C01_read_bytes :
  forall (Bt : Type) (zero : Bt) (file data parent : Z -> Bt) (infl : Z -> Z -> Bt) im fuel off len p,
  wf_image im -> qcow2_read im fuel off len = Ok p ->
  denote zero file data parent infl p =
  map (fun o => byte_of zero file data parent infl (guest_src im o)) (zseq off (Z.min len (size_of im - off))).
Proof. intros Bt. exact (@qcow2_read_bytes Bt). Qed.
Print Assumptions C01_read_bytes.

(* 2. the stream back-end contract: QCow2._read on an aligned request that may run past the end of the disk
   yields exactly the min(len, size - off) guest bytes (so AlignedStream never sees short or foreign data) *)
Theorem C01_read_backend :
  forall im fuel off len p,
  wf_image im -> qcow2_read im fuel off len = Ok p ->
  srcs_of p = map (guest_src im) (zseq off (Z.min len (size_of im - off))).
Proof. exact qcow2_read_correct. Qed.
Print Assumptions C01_read_backend.

(* 2b. existence: on a specification-CONFORMANT image (Spec.conformant: L1 covers the disk, referenced L2
   tables lie in the file, extended entries are well formed) no exception is raised: every request that starts
   inside the disk — even one running past its end, as AlignedStream issues — returns a plan, and the plan is
   exactly the min(len, size - off) guest bytes (the shape of C04_dyn_read_correct) *)
Theorem C01_read_total :
  forall im off len,
  wf_image im -> conformant (spec_of im) (size_of im) ->
  0 <= off < size_of im -> 0 < len ->
  let n := Z.min len (size_of im - off) in
  exists p, qcow2_read im (S (Z.to_nat n)) off len = Ok p /\
            srcs_of p = map (guest_src im) (zseq off n).
Proof. exact qcow2_read_total. Qed.
Print Assumptions C01_read_total.

(* 3. progress: whatever the tables contain, the loop ends within `length` iterations (it never spins) *)
Theorem C01_progress :
  forall im fuel off len,
  wf_image im -> Z.min len (size_of im - off) < Z.of_nat fuel -> qcow2_read im fuel off len <> Fuel.
Proof. exact qcow2_read_progress. Qed.
Print Assumptions C01_progress.

(* 4. count_contiguous_subclusters: at least one sub-cluster; every counted sub-cluster has the type of the
   first and, for host-backed types, its cluster continues the host range linearly *)
Theorem C01_count_contiguous_sound :
  forall q cb ext df, geom_ok q cb ext df -> 9 <= cb <= 21 ->
  forall t l2_index sc_index ety m0, 0 <= sc_index < (if ext then 32 else 1) ->
  forall nb e0 bm0 count,
  l2_entry q t l2_index = Ok e0 -> l2_bitmap q t l2_index = Ok bm0 ->
  get_subcluster_type q e0 bm0 sc_index = Ok ety ->
  m0 = Z.land e0 qcow2_L2E_OFFSET_MASK -> 0 < nb ->
  count_contiguous_subclusters q nb sc_index t l2_index = Ok count ->
  valid_type ety /\ 1 <= count /\ count + sc_index <= nb * (if ext then 32 else 1) /\
  (ety = T_COMPRESSED -> count + sc_index = (if ext then 32 else 1)) /\
  forall p, sc_index <= p < count + sc_index -> at_pos q ext t l2_index ety m0 p.
Proof. exact ccs_sound. Qed.
Print Assumptions C01_count_contiguous_sound.

(* the translated ctz and the repaired "count trailing ones" *)
Theorem C01_ctz_spec :
  forall v size, 0 <= size ->
  0 <= ctz v size <= size /\
  (forall j, 0 <= j < ctz v size -> Z.testbit v j = false) /\
  (ctz v size < size -> Z.testbit v (ctz v size) = true).
Proof. exact ctz_spec. Qed.
Print Assumptions C01_ctz_spec.

Theorem C01_cto_spec :
  forall v, let r := ctz (Z.land (Z.lnot v) 4294967295) 32 in
  0 <= r <= 32 /\ (forall j, 0 <= j < r -> Z.testbit v j = true) /\ (r < 32 -> Z.testbit v r = false).
Proof. exact cto32_spec. Qed.
Print Assumptions C01_cto_spec.

(* the derived geometry of QCow2.__init__ for every cluster size 2^9 .. 2^21 *)
Theorem C01_geometry :
  forall h, 9 <= h_cluster_bits h <= 21 ->
  geom_ok (open_geom h) (h_cluster_bits h) (has_subclusters h) (has_data_file h).
Proof. exact open_geom_ok. Qed.
Print Assumptions C01_geometry.

(* 5. masks (generated constants): field extraction, host offsets beyond 4 GiB, compressed descriptors *)
Theorem C01_masks :
  qcow2_L1E_OFFSET_MASK = 2 ^ 56 - 2 ^ 9 /\ qcow2_L2E_OFFSET_MASK = 2 ^ 56 - 2 ^ 9 /\
  qcow2_L2E_COMPRESSED_OFFSET_SIZE_MASK = 2 ^ 62 - 1 /\
  (forall e, Z.land e qcow2_L2E_OFFSET_MASK = field e 9 47 * 512) /\
  (forall e, Z.land e qcow2_L1E_OFFSET_MASK = field e 9 47 * 512) /\
  (forall e, Z.land e qcow2_L2E_COMPRESSED_OFFSET_SIZE_MASK = descriptor e).
Proof.
  split; [reflexivity|]. split; [reflexivity|]. split; [reflexivity|].
  split; [exact l2e_offset|]. split; [exact l1e_offset|exact l2e_descriptor].
Qed.
Print Assumptions C01_masks.

Theorem C01_host_offset_roundtrip :
  forall h flags, 0 <= h < 2 ^ 56 -> h mod 512 = 0 ->
  In flags [0; 1; 2 ^ 62; 2 ^ 63; 2 ^ 63 + 1] ->
  Z.land (h + flags) qcow2_L2E_OFFSET_MASK = h.
Proof. exact l2e_offset_roundtrip. Qed.
Print Assumptions C01_host_offset_roundtrip.

Theorem C01_compressed_descriptor :
  (forall q cb ext df d, geom_ok q cb ext df -> 9 <= cb <= 21 ->
     comp_coffset q d = desc_offset cb d /\ comp_csize q d = desc_size cb d /\
     g_csize_shift q + (cb - 8) = 62) /\
  (forall cb coff nsec, 9 <= cb <= 21 -> 0 <= coff < 2 ^ (70 - cb) -> 0 <= nsec < 2 ^ (cb - 8) ->
     let d := coff + nsec * 2 ^ (70 - cb) in
     0 <= d < 2 ^ 62 /\ desc_offset cb d = coff /\ desc_size cb d = (nsec + 1) * 512 - coff mod 512).
Proof. split; [exact comp_decode_spec|exact desc_roundtrip]. Qed.
Print Assumptions C01_compressed_descriptor.

(* 6. version-2 headers: the opened geometry does not depend on bytes 72..111 *)
Theorem C01_v2_fields_ignored :
  forall h h', h_version h = 2 -> same_v2_part h h' ->
  open_geom (v2_fix h) = open_geom (v2_fix h') /\ h_header_length (v2_fix h) = 72 /\
  has_subclusters (v2_fix h) = false /\ has_data_file (v2_fix h) = false.
Proof. exact v2_geometry_ignores_v3_fields. Qed.
Print Assumptions C01_v2_fields_ignored.

(* non-vacuity *)
Example C01_nonvacuous_ext : wf_image ex_ext /\
  qcow2_read ex_ext 100 1000 (3 * 65536 - 1000) =
  Ok [SFile 328680 7192; SParent 8192 8192; SZero 16384; SParent 32768 32768; SFile 393216 65536; SParent 131072 65536].
Proof. split; [exact ex_ext_wf|exact ex_ext_read]. Qed.

Example C01_nonvacuous_std : wf_image ex_std /\
  qcow2_read ex_std 100 0 100000 =
  Ok [SInfl 20000 0 512; SZero 512; SZero 30720; SFile 8192 1024; SFile 9216 1024; SZero 1948].
Proof. split; [exact ex_std_wf|exact ex_std_read]. Qed.

Example C01_nonvacuous_conformant : wf_image ex_std /\ conformant (spec_of ex_std) (size_of ex_std).
Proof. split; [exact ex_std_wf|exact ex_std_conformant]. Qed.
