From Coq Require Import ZArith List.
From DH Require Import Base.Plan Model.Qcow2.
Theorem C01_placeholder : True.
Proof. exact I. Qed.
Print Assumptions C01_placeholder.
