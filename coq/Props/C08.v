(* Props/C08.v — a disk stream behaves as an immutable byte array under any access history. *)
From Coq Require Import ZArith List.
Import ListNotations.
From DH Require Model.Qcow2 Proofs.Qcow2 Spec.Qcow2 Model.Vmdk Proofs.Vmdk.
From DH Require Import Base.Plan Base.Table Model.AlignedStream Proofs.AlignedStream Model.Lru Proofs.Lru
  Proofs.StreamReaders Model.AlignedStreamB Proofs.AlignedStreamB Proofs.StreamBytes Model.Vhd Proofs.Vhd Model.Vdi Proofs.Vdi Model.Vhdx Proofs.Vhdx Model.Hds Proofs.Hds.
Open Scope Z_scope.

(* 1. The stream state machine (seek SET/CUR/END, read n / -1 / past the end, peek, readoffset,
      tell) over ANY back end honouring the contract: for every finite history the outputs are
      those of an immutable array with a cursor — positions [pos, pos+min(n,size-pos)) — and
      bad arguments raise without changing the state. *)
Theorem C08_stream_refines_array :
  forall size align blen, 0 < align -> 0 <= size -> backend_ok size align blen ->
  forall ops st, Inv size align st ->
  exists st' outs, AlignedStream.run size align blen st ops = Ok (st', outs) /\ Inv size align st' /\
    Forall2 out_agrees outs (spec_run size (s_pos st) ops).
Proof. exact run_refines_array. Qed.
Print Assumptions C08_stream_refines_array.

Theorem C08_initial_state_ok : forall size align, 0 < align -> Inv size align init.
Proof. exact Inv_init. Qed.
Print Assumptions C08_initial_state_ok.

(* 2. Memoised table loaders (lru_cache) are invisible: every capacity, every key history. *)
Theorem C08_lru_transparent :
  forall (V : Type) (cap : nat) (load : Z -> V) ks c, coherent load c ->
  fst (lru_run cap load c ks) = map load ks /\ coherent load (snd (lru_run cap load c ks)).
Proof. intros V cap load ks c. exact (lru_transparent cap load ks c). Qed.
Print Assumptions C08_lru_transparent.

(* 3. Each reader's _read honours the back-end contract for every alignment that is a positive
      multiple of its sector size — including requests running past the end of the disk. *)
Theorem C08_vhd_dynamic_backend :
  forall d align, wf_dyn d -> 0 < align -> align mod 512 = 0 ->
  backend_ok (d_size d) align
    (blen_of (fun off len => dyn_read d (fuel_for (cdiv (Z.min len (d_size d - off)) SECTOR)) off len)).
Proof. intros d align H1 H2 H3. exact (contract_backend_ok _ _ _ _ (vhd_dyn_contract d align H1 H2 H3)). Qed.
Print Assumptions C08_vhd_dynamic_backend.

Theorem C08_vhd_fixed_backend :
  forall size align, 0 < align -> align mod 512 = 0 ->
  backend_ok size align (blen_of (fun off len => Ok (fixed_read size off len))).
Proof. intros s a H1 H2. exact (contract_backend_ok _ _ _ _ (vhd_fixed_contract s a H1 H2)). Qed.
Print Assumptions C08_vhd_fixed_backend.

Theorem C08_vdi_backend :
  forall v align, 0 < v_bs v -> vdi_wf v -> 0 < align ->
  backend_ok (v_size v) align (blen_of (fun off len => vdi_read v (vdi_fuel len) off len)).
Proof. intros v a H1 H2 H3. exact (contract_backend_ok _ _ _ _ (vdi_contract v a H1 H2 H3)). Qed.
Print Assumptions C08_vdi_backend.

Theorem C08_vhdx_backend :
  forall x align, geom_ok x -> states_ok x -> vhdx_wf_nodiff x -> 0 < align -> align mod x_ss x = 0 ->
  backend_ok (x_size x) align
    (blen_of (fun off len => vhdx_read x (vhdx_fuel (cdiv (Z.min len (x_size x - off)) (x_ss x))) off len)).
Proof. intros x a H1 H2 H3 H4 H5. exact (contract_backend_ok _ _ _ _ (vhdx_contract x a H1 H2 H3 H4 H5)). Qed.
Print Assumptions C08_vhdx_backend.

Theorem C08_hds_backend :
  forall h align, 0 < h_cs h -> hds_wf h -> 0 < align ->
  backend_ok (h_size h) align (blen_of (fun off len => hds_read h (hds_fuel len) off len)).
Proof. intros h a H1 H2 H3. exact (contract_backend_ok _ _ _ _ (hds_contract h a H1 H2 H3)). Qed.
Print Assumptions C08_hds_backend.

(* 4. Buffer size is irrelevant: the array specification [spec_run] does not mention the
      alignment, so streams at two alignments agree with the same outputs on every history. *)
Theorem C08_buffer_size_irrelevant :
  forall size a1 a2 b1 b2, 0 <= size -> 0 < a1 -> 0 < a2 ->
  backend_ok size a1 b1 -> backend_ok size a2 b2 ->
  forall ops, exists s1 o1 s2 o2,
    AlignedStream.run size a1 b1 init ops = Ok (s1, o1) /\ AlignedStream.run size a2 b2 init ops = Ok (s2, o2) /\
    Forall2 out_agrees o1 (spec_run size 0 ops) /\ Forall2 out_agrees o2 (spec_run size 0 ops).
Proof.
  intros size a1 a2 b1 b2 Hs H1 H2 B1 B2 ops.
  destruct (run_refines_array size a1 b1 H1 Hs B1 ops init (Inv_init size a1 H1)) as (s1 & o1 & R1 & _ & A1).
  destruct (run_refines_array size a2 b2 H2 Hs B2 ops init (Inv_init size a2 H2)) as (s2 & o2 & R2 & _ & A2).
  exists s1, o1, s2, o2. repeat split; assumption.
Qed.
Print Assumptions C08_buffer_size_irrelevant.

(* 5. The sector interface returns the same bytes as the byte interface for the same range
      (VHD dynamic shown; VHDX is C03_read_sectors_sound). *)
Theorem C08_vhd_sector_iface :
  forall d : vhd_dyn, 0 < Vhd.spb d -> forall fuel sector count p, 0 <= sector ->
  dyn_read_sectors d fuel sector count = Ok p ->
  srcs_of p = map (guest_src d) (zseq (sector * SECTOR) (count * SECTOR)).
Proof. intros d H fuel. exact (dyn_read_sectors_correct d H fuel). Qed.
Print Assumptions C08_vhd_sector_iface.

(* 6. Byte level, for every content of the backing files: over any reader that meets the contract,
      every finite history returns exactly the guest bytes [guest o = byte_of (gsrc o)] of the
      immutable array — the stream model here carries real byte lists, not extents. *)
Theorem C08_stream_returns_guest_bytes :
  forall (B : Type) (zero : B) (file data parent : Z -> B) (infl : Z -> Z -> B)
         size align bread gsrc,
  0 < align -> 0 <= size -> reader_contract size align bread gsrc ->
  forall ops, exists st',
    brun size align (bytes_backend zero file data parent infl bread) binit ops =
    Ok (st', map (array_out (guest zero file data parent infl gsrc)) (spec_run size 0 ops)).
Proof. intros B zero file data parent infl size align bread gsrc. exact (stream_returns_guest_bytes zero file data parent infl size align bread gsrc). Qed.
Print Assumptions C08_stream_returns_guest_bytes.

(* instance: a VDI image (any block map), any alignment, any history, any file content *)
Theorem C08_vdi_stream_bytes :
  forall (B : Type) (zero : B) (file data parent : Z -> B) (infl : Z -> Z -> B) v align,
  0 < v_bs v -> vdi_wf v -> 0 < align ->
  forall ops, exists st',
    brun (v_size v) align
      (bytes_backend zero file data parent infl (fun off len => vdi_read v (vdi_fuel len) off len)) binit ops =
    Ok (st', map (array_out (guest zero file data parent infl (vdi_src v))) (spec_run (v_size v) 0 ops)).
Proof.
  intros B zero file data parent infl v align Hbs Hwf Hal.
  apply (stream_returns_guest_bytes zero file data parent infl); [exact Hal|apply Hwf|].
  now apply vdi_contract.
Qed.
Print Assumptions C08_vdi_stream_bytes.

(* QCOW2 (every conformant image, every cluster size, standard and extended L2): back-end contract
   and hence the byte-level stream theorem *)
Theorem C08_qcow2_backend :
  forall (im : Model.Qcow2.image) align,
  Proofs.Qcow2.wf_image im -> Spec.Qcow2.conformant (Model.Qcow2.spec_of im) (Model.Qcow2.size_of im) -> 0 < align ->
  backend_ok (Model.Qcow2.size_of im) align
    (blen_of (fun off len => Model.Qcow2.qcow2_read im (S (Z.to_nat (Z.min len (Model.Qcow2.size_of im - off)))) off len)).
Proof. intros im a H1 H2 H3. exact (contract_backend_ok _ _ _ _ (qcow2_contract im a H1 H2 H3)). Qed.
Print Assumptions C08_qcow2_backend.

(* VMDK sparse extents (hosted, COWD, SE-sparse), any grain directory / tables, single-extent disk *)
Theorem C08_vmdk_backend :
  forall (f : Model.Vmdk.vfile) (sp : Model.Vmdk.sparse) hp align,
  Proofs.Vmdk.wf_sparse f sp -> 0 < align -> align mod 512 = 0 ->
  backend_ok (Model.Vmdk.sp_capacity sp * 512) align
    (blen_of (fun off len => match Model.Vmdk.vmdk_read (Model.Vmdk.mk_vmdk [Model.Vmdk.XSparse f sp hp]) off len with
                             | Ok p => Ok (Model.Vmdk.plan_of_x p) | Err => Err | Fuel => Fuel end)).
Proof. intros f sp hp a H1 H2 H3. exact (contract_backend_ok _ _ _ _ (vmdk_sparse_contract f sp hp a H1 H2 H3)). Qed.
Print Assumptions C08_vmdk_backend.

(* 7. Byte level, per format: for every well-formed image, every stream buffer size the format allows, every
      content of the backing files and every finite history of seek/read/peek/readoffset/tell, the stream
      returns exactly the slices of the immutable guest array (the format's pointwise specification). *)
Section PerFormatBytes.
  Context {B : Type}.
  Variable zero : B.
  Variables file data parent : Z -> B.
  Variable infl : Z -> Z -> B.
  Notation G := (guest zero file data parent infl).
  Notation BK := (bytes_backend zero file data parent infl).

  Theorem C08_vhd_dynamic_stream_bytes : forall d align,
    wf_dyn d -> 0 < align -> align mod 512 = 0 ->
    forall ops, exists st',
      brun (d_size d) align
        (BK (fun off len => dyn_read d (fuel_for (cdiv (Z.min len (d_size d - off)) SECTOR)) off len)) binit ops =
      Ok (st', map (array_out (G (Vhd.guest_src d))) (spec_run (d_size d) 0 ops)).
  Proof. exact (vhd_dyn_stream_bytes zero file data parent infl). Qed.

  Theorem C08_vhd_fixed_stream_bytes : forall size align,
    0 <= size -> 0 < align -> align mod 512 = 0 ->
    forall ops, exists st',
      brun size align (BK (fun off len => Ok (fixed_read size off len))) binit ops =
      Ok (st', map (array_out (G fixed_src)) (spec_run size 0 ops)).
  Proof. exact (vhd_fixed_stream_bytes zero file data parent infl). Qed.

  Theorem C08_vhdx_stream_bytes : forall x align,
    geom_ok x -> states_ok x -> vhdx_wf_nodiff x -> 0 < align -> align mod x_ss x = 0 ->
    forall ops, exists st',
      brun (x_size x) align
        (BK (fun off len => vhdx_read x (vhdx_fuel (cdiv (Z.min len (x_size x - off)) (x_ss x))) off len)) binit ops =
      Ok (st', map (array_out (G (vhdx_src x))) (spec_run (x_size x) 0 ops)).
  Proof. exact (vhdx_stream_bytes zero file data parent infl). Qed.

  Theorem C08_hds_stream_bytes : forall h align,
    0 < h_cs h -> hds_wf h -> 0 < align ->
    forall ops, exists st',
      brun (h_size h) align (BK (fun off len => hds_read h (hds_fuel len) off len)) binit ops =
      Ok (st', map (array_out (G (hds_src h))) (spec_run (h_size h) 0 ops)).
  Proof. exact (hds_stream_bytes zero file data parent infl). Qed.

  Theorem C08_qcow2_stream_bytes : forall (im : Model.Qcow2.image) align,
    Proofs.Qcow2.wf_image im -> Spec.Qcow2.conformant (Model.Qcow2.spec_of im) (Model.Qcow2.size_of im) ->
    0 <= Model.Qcow2.size_of im -> 0 < align ->
    forall ops, exists st',
      brun (Model.Qcow2.size_of im) align
        (BK (fun off len => Model.Qcow2.qcow2_read im (S (Z.to_nat (Z.min len (Model.Qcow2.size_of im - off)))) off len))
        binit ops =
      Ok (st', map (array_out (G (Model.Qcow2.guest_src im))) (spec_run (Model.Qcow2.size_of im) 0 ops)).
  Proof. exact (qcow2_stream_bytes zero file data parent infl). Qed.

  Theorem C08_vmdk_stream_bytes : forall (f : Model.Vmdk.vfile) (sp : Model.Vmdk.sparse) hp align,
    Proofs.Vmdk.wf_sparse f sp -> 0 < align -> align mod 512 = 0 ->
    forall ops, exists st',
      brun (Model.Vmdk.sp_capacity sp * 512) align
        (BK (fun off len => match Model.Vmdk.vmdk_read (Model.Vmdk.mk_vmdk [Model.Vmdk.XSparse f sp hp]) off len with
                            | Ok p => Ok (Model.Vmdk.plan_of_x p) | Err => Err | Fuel => Fuel end)) binit ops =
      Ok (st', map (array_out (G (Model.Vmdk.guest_src f sp 0 hp))) (spec_run (Model.Vmdk.sp_capacity sp * 512) 0 ops)).
  Proof. exact (vmdk_sparse_stream_bytes zero file data parent infl). Qed.
End PerFormatBytes.
Print Assumptions C08_vhd_dynamic_stream_bytes.
Print Assumptions C08_vhd_fixed_stream_bytes.
Print Assumptions C08_vhdx_stream_bytes.
Print Assumptions C08_hds_stream_bytes.
Print Assumptions C08_qcow2_stream_bytes.
Print Assumptions C08_vmdk_stream_bytes.
