(* Props/C09.v — Parsing never modifies evidence: the static half.
   Statements over the inventory regenerated from the CURRENT source of every module under
   dissect/hypervisor (Gen/Effects.v); each closed by [exact] of a lemma proved by vm_compute.
   What the kernel checks is the inventory; that the inventory is complete is the translator's
   syntactic completeness (trusted base) and the dynamic audit of harness/props/c09.py. *)
From Coq Require Import String ZArith List Bool.
From DH Require Import Gen.Effects Model.Effects Proofs.Effects.
Import ListNotations.
Open Scope string_scope.

(* every open call either forwards the caller's own mode (vmtar.open / VisorTarFile, default "r"),
   or has a literal mode that is read-only, or is the CLI's output file *)
Theorem C09_opens_readonly :
  Forall (fun o =>
    forwards_callers_mode o = true \/
    exists m, o_mode o = MLit m /\ (mode_readonly m = true \/ cli_output_open o = true)) opens.
Proof. exact opens_readonly. Qed.
Print Assumptions C09_opens_readonly.

(* exactly one site opens for writing: tools/envelope.py main, on args.output *)
Theorem C09_single_writer :
  map (fun o => (o_module o, o_func o, o_target o))
      (filter (fun o => negb (forwards_callers_mode o || open_readonly o)) opens)
  = [(CLI_MODULE, CLI_FUNC, CLI_TARGET)].
Proof. exact single_writer. Qed.
Print Assumptions C09_single_writer.

Theorem C09_pass_through_only_vmtar :
  Forall (fun o => forwards_callers_mode o = true -> o_module o = "dissect/hypervisor/util/vmtar.py") opens.
Proof. exact pass_through_only_vmtar. Qed.
Print Assumptions C09_pass_through_only_vmtar.

(* every call of a mutating method name modifies a private BytesIO buffer, or is str/bytes.replace,
   or is the CLI writing its output *)
Theorem C09_mutators_private :
  Forall (fun c =>
    m_recv c = PrivateBuffer \/ m_recv c = PureValue \/
    (m_recv c = CliOutput /\ m_module c = CLI_MODULE /\ m_func c = CLI_FUNC)) mutator_calls.
Proof. exact mutators_private. Qed.
Print Assumptions C09_mutators_private.

Theorem C09_cli_writes_once :
  map m_method (filter (fun c => recv_eqb (m_recv c) CliOutput) mutator_calls) = ["write"].
Proof. exact cli_writes_once. Qed.
Print Assumptions C09_cli_writes_once.

Theorem C09_no_fs_modules :
  Forall (fun i => let '(_, imp, _) := i in ~ In (root_of imp) ["shutil"; "subprocess"; "tempfile"]) runtime_imports.
Proof. exact no_fs_modules. Qed.
Print Assumptions C09_no_fs_modules.

Theorem C09_os_only_getenv : Forall (fun u => snd u = "getenv") os_uses.
Proof. exact os_only_getenv. Qed.
Print Assumptions C09_os_only_getenv.

(* the property's anchor files are all in the inventoried module list *)
Theorem C09_anchors_inventoried : Forall (fun a => In a modules) anchors.
Proof. exact anchors_inventoried. Qed.
Print Assumptions C09_anchors_inventoried.

(* non-vacuity: the inventory is not empty and the decision procedures reject what they should *)
Example C09_inventory_nonempty : (10 <= length opens)%nat /\ (10 <= length mutator_calls)%nat /\ (20 <= length modules)%nat.
Proof. vm_compute. repeat split; repeat constructor. Qed.
Example C09_modes : mode_readonly "rb" = true /\ mode_readonly "r" = true /\ mode_readonly "r+b" = false /\
                    mode_readonly "wb" = false /\ mode_readonly "ab" = false /\ mode_readonly "x" = false.
Proof. vm_compute. repeat split. Qed.
Example C09_rejects_rw_open :
  open_okb (mko "dissect/hypervisor/disk/vmdk.py" "VMDK.__init__" 51 PathOpen "path" (MLit "r+b")) = false.
Proof. reflexivity. Qed.
Example C09_rejects_unknown_write :
  mut_okb (mkm "dissect/hypervisor/disk/vmdk.py" "VMDK.__init__" 52 "truncate" "fh" Unknown) = false.
Proof. reflexivity. Qed.
