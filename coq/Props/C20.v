(* Props/C20.v — placeholder while the proofs are written *)
From Coq Require Import ZArith List.
From DH Require Import Spec.VmTar Model.VmTar.
Open Scope Z_scope.
Theorem C20_placeholder : BLOCK = 512.
Proof. reflexivity. Qed.
Print Assumptions C20_placeholder.
