(* Props/C20.v — vmtar: every member extracts to the bytes stored at its recorded data offset.
   Only statements; each is closed by [exact] of a lemma from Proofs/VmTar.v.

   Reading guide.  [render a] is the byte image an independent vmtar writer (Spec/VmTar.v)
   produces for the abstract archive [a]: one 512-byte header per member (ustar layout, octal
   numbers, checksum; visor members carry the magic, a 151-byte prefix and the little-endian data
   offset / textPgs / fixUpPgs words), followed, for standard members with content, by the padded
   content.  [rest] is whatever follows the header area: terminator blocks, the data areas of
   the visor members in any order, alignment and overlap, trailing padding.  [members true f]
   is the model of vmtar.open(f).getmembers(), [members false f] of tarfile.open(f).getmembers(),
   [extract f t] of extractfile(t).read(). *)
From Coq Require Import ZArith List Bool.
From DH Require Import Base.Layout Spec.VmTar Model.VmTar Proofs.VmTar.
From DH Require Gen.VmTar.
Import ListNotations.
Open Scope Z_scope.

(* The reader lists exactly the members that were written, each with the name, type, size, header
   position and data position the format gives it: iteration stays in step with the header area
   for any mix of visor members with a recorded data offset, visor members without one and
   standard members with inline data, in any order, whatever [rest] holds. *)
Theorem C20_members_in_step :
  forall a rest, wf_archiveb a = true -> stops a rest ->
  exists ms, members true (render a ++ rest) = Done ms /\ map entry_of_t ms = listing 0 a.
Proof. exact members_in_step. Qed.
Print Assumptions C20_members_in_step.

(* The same with GNU long name / long link records (type L / K, with or without the visor magic) in
   front of any member: the record renames the member that follows and iteration stays in step. *)
Theorem C20_members_in_step_long :
  forall l rest, wf_itemsb l = true -> stops l rest ->
  exists ms, members true (render_items l ++ rest) = Done ms /\ map entry_of_t ms = listing_items 0 l.
Proof. exact members_in_step_items. Qed.
Print Assumptions C20_members_in_step_long.

(* Whatever was listed: a member that carries data extracts to file[offset_data, offset_data + size)
   (with C20_members_in_step(_long): offset_data is the recorded offset of a stored-away member and
   the position after the header otherwise). *)
Theorem C20_extract_listed :
  forall f t, has_data (t_type t) = true -> 0 <= t_size t -> t_data t + t_size t <= blen f ->
  extract f t = Done (Some (t_data t, t_size t)) /\
  plan_bytes f (t_data t, t_size t) = slice f (t_data t) (t_size t).
Proof. exact extract_listed. Qed.
Print Assumptions C20_extract_listed.

(* ... and is refused (ReadError), never returned short, when the archive ends before that range does. *)
Theorem C20_extract_short :
  forall f t, has_data (t_type t) = true -> 0 < t_size t -> blen f < t_data t + t_size t -> extract f t = Raises.
Proof. exact extract_short. Qed.
Print Assumptions C20_extract_short.

(* A member with a recorded data offset extracts to file[offset, offset + size), wherever that is. *)
Theorem C20_extract_stored_away :
  forall a1 m a2 rest,
  let a := a1 ++ m :: a2 in
  let f := render a ++ rest in
  wf_archiveb a = true -> stops a rest ->
  stored_away m = true -> s_has_data (spec_type m) = true ->
  a_voff m + a_size m <= zlen f ->
  exists ms t,
    members true f = Done ms /\ nth_error ms (length a1) = Some t /\
    entry_of_t t = entry_of (zlen (render a1)) m /\
    extract f t = Done (Some (a_voff m, a_size m)) /\
    plan_bytes f (a_voff m, a_size m) = slice f (a_voff m) (a_size m).
Proof. exact extract_stored_away. Qed.
Print Assumptions C20_extract_stored_away.

(* A member without one (standard members; empty visor files) extracts to the content that
   follows its header, exactly as a standard tar reader does. *)
Theorem C20_extract_inline :
  forall a1 m a2 rest,
  let a := a1 ++ m :: a2 in
  let f := render a ++ rest in
  wf_archiveb a = true -> stops a rest ->
  stored_away m = false -> s_has_data (spec_type m) = true ->
  exists ms t,
    members true f = Done ms /\ nth_error ms (length a1) = Some t /\
    entry_of_t t = entry_of (zlen (render a1)) m /\
    extract f t = Done (Some (zlen (render a1) + 512, a_size m)) /\
    plan_bytes f (zlen (render a1) + 512, a_size m) = firstn (Z.to_nat (a_size m)) (a_data m).
Proof. exact extract_inline. Qed.
Print Assumptions C20_extract_inline.

(* VisorTarInfo.frombuf decodes every field of a rendered header (generated magic, slice bounds
   and struct formats of vmtar.py against the format's layout). *)
Theorem C20_header_roundtrip :
  forall m, wf_hdrb m = true ->
  frombuf true (header m) =
  HOk (mkhdr (spec_name m) (a_link m) (a_size m) (spec_type m) (a_visor m)
             (if a_visor m then a_voff m else 0) (if a_visor m then a_text m else 0)
             (if a_visor m then a_fix m else 0)).
Proof. exact header_roundtrip. Qed.
Print Assumptions C20_header_roundtrip.

(* The type tables and the block size of the hand-written tarfile model are those of the tarfile
   module the implementation runs on (regenerated from the interpreter on every run). *)
Theorem C20_tarfile_tables :
  SUPPORTED_TYPES = Gen.VmTar.tarfile_SUPPORTED_TYPES /\ REGULAR_TYPES = Gen.VmTar.tarfile_REGULAR_TYPES /\
  GNU_TYPES = Gen.VmTar.tarfile_GNU_TYPES /\ [XHDTYPE; XGLTYPE; SOLARIS_XHDTYPE] = Gen.VmTar.tarfile_PAX_TYPES /\
  BLOCK = Gen.VmTar.tarfile_BLOCKSIZE /\ DIRTYPE = Gen.VmTar.tarfile_DIRTYPE /\ AREGTYPE = Gen.VmTar.tarfile_AREGTYPE /\
  GNUTYPE_LONGNAME = Gen.VmTar.tarfile_GNUTYPE_LONGNAME /\ GNUTYPE_LONGLINK = Gen.VmTar.tarfile_GNUTYPE_LONGLINK /\
  GNUTYPE_SPARSE = Gen.VmTar.tarfile_GNUTYPE_SPARSE /\ LNKTYPE = Gen.VmTar.tarfile_LNKTYPE /\ SYMTYPE = Gen.VmTar.tarfile_SYMTYPE.
Proof. exact tarfile_tables. Qed.
Print Assumptions C20_tarfile_tables.

(* On ANY byte string in which no block carries the visor magic, the vmtar reader is the
   standard reader: same members, same outcome (extraction is the same function of a member). *)
Theorem C20_plain_tar_unchanged :
  forall f, no_visor_magic f -> members true f = members false f.
Proof. exact plain_tar_unchanged. Qed.
Print Assumptions C20_plain_tar_unchanged.

(* Listing terminates on every byte string, for both readers (the fuel is never exhausted). *)
Theorem C20_members_terminate :
  forall va f, members va f <> NoFuel.
Proof. exact members_terminate. Qed.
Print Assumptions C20_members_terminate.

(* non-vacuity: a four-member archive (visor directory, two visor files whose data areas are
   stored in the opposite order of their headers, one of them unaligned and with a prefix, and a
   standard member with inline data between them) is well-formed, and the model run on its
   rendering gives the expected listing and extraction plans *)
Example C20_example_wf : wf_archiveb ex_archive = true.
Proof. exact ex_wf. Qed.
Example C20_example_stops : stops ex_archive ex_rest.
Proof. exact ex_stops. Qed.
Example C20_example_run :
  run true (render ex_archive ++ ex_rest) =
  Done [ (([116], [], (53, 0, 0, 512), (true, 0, 0)), Done None);
         (([112; 47; 116; 47; 98], [], (48, 5, 512, 2055), (true, 1, 2)), Done (Some (2055, 5)));
         (([115], [], (48, 3, 1024, 1536), (false, 0, 0)), Done (Some (1536, 3)));
         (([116; 47; 97], [], (48, 7, 2048, 2048), (true, 0, 0)), Done (Some (2048, 7))) ].
Proof. exact ex_run. Qed.
(* a 122-byte GNU long name (record with the visor magic) on a visor file whose data is stored away *)
Example C20_example_long_wf : wf_itemsb ex_items = true.
Proof. exact ex_items_wf. Qed.
Example C20_example_long_stops : stops ex_items ex_items_rest.
Proof. exact ex_items_stops. Qed.
Example C20_example_long_run :
  match members true (render_items ex_items ++ ex_items_rest) with
  | Done ms => map (fun t => (length (t_name t), t_off t, t_data t)) ms
  | _ => []
  end = [(1%nat, 0, 512); (122%nat, 512, 2055); (1%nat, 2048, 2560); (3%nat, 3072, 2048)].
Proof. exact ex_items_names. Qed.
