(* Props/C12.v — foreign or unsupported inputs are refused, not misread:
   for every validating constructor, accepted implies inside the supported set. *)
From Coq Require Import ZArith List Bool String.
From DH Require Import Base.Plan Model.Gates Proofs.Gates.
From DH Require Gen.Consts Gen.Gates.
Import ListNotations.
Open Scope Z_scope.

Theorem C12_qcow2_accepts : forall h, qcow2_gate h = Ok tt ->
  q_magic h = 1363560955 /\ 2 <= q_version h <= 3 /\ 9 <= q_cluster_bits h <= 21 /\ q_crypt h = 0 /\
  512 <= qcow2_subcluster_size h /\
  (q_compression h = 1 -> q_has_zstd h = true) /\
  Z.land (q_incompat h) (Z.lnot 31) = 0 /\
  (Z.land (q_incompat h) 4 <> 0 -> q_data_file_given h = true) /\
  (q_backing_offset h <> 0 -> q_backing_given h = true).
Proof. exact qcow2_accepts. Qed.
Print Assumptions C12_qcow2_accepts.

Theorem C12_vhdx_accepts : forall h, vhdx_gate h = Ok tt ->
  xf_sig h = SIG_vhdxfile /\ vhdx_active_sig h = SIG_head /\ xrt1_sig h = SIG_regi /\ xrt2_sig h = SIG_regi /\
  xm_sig h = SIG_metadata /\ x_has_meta_region h = true /\ x_has_bat_region h = true /\
  x_items_known h = true /\ x_has_size h = true /\ x_has_fp h = true /\ x_has_lss h = true /\ x_has_id h = true /\
  (x_hp h = true -> x_has_locator h = true /\ x_loc_type_ok h = true /\ x_parent_opens h = true).
Proof. exact vhdx_accepts. Qed.
Print Assumptions C12_vhdx_accepts.

Theorem C12_vdi_accepts : forall s, vdi_gate s = Ok tt -> s = 3201962111.
Proof. exact vdi_accepts. Qed.
Print Assumptions C12_vdi_accepts.

Theorem C12_hds_accepts : forall s, hds_gate s = Ok tt ->
  s = Gen.Consts.hdd_SIGNATURE_STRUCTURED_DISK_V1 \/ s = Gen.Consts.hdd_SIGNATURE_STRUCTURED_DISK_V2.
Proof. exact hds_accepts. Qed.
Print Assumptions C12_hds_accepts.

Theorem C12_hdd_accepts : forall d ts, hdd_gate d ts = Ok tt -> d = true /\ Forall (fun t => t = 0 \/ t = 1) ts.
Proof. exact hdd_accepts. Qed.
Print Assumptions C12_hdd_accepts.

Theorem C12_vmdk_sparse_accepts : forall m, vmdk_sparse_gate m = Ok tt ->
  m = Gen.Consts.vmdk_VMDK_MAGIC \/ m = Gen.Consts.vmdk_SESPARSE_MAGIC \/ m = Gen.Consts.vmdk_COWD_MAGIC.
Proof. exact vmdk_sparse_accepts. Qed.
Print Assumptions C12_vmdk_sparse_accepts.

Theorem C12_vmdk_layout_accepts : forall m m64, vmdk_layout_gate m m64 = Ok tt ->
  m = Gen.Consts.vmdk_VMDK_MAGIC \/ m = Gen.Consts.vmdk_COWD_MAGIC \/
  (m = Gen.Consts.vmdk_SESPARSE_MAGIC /\ m64 = Gen.Consts.vmdk_SESPARSE_CONST_HEADER_MAGIC).
Proof. exact vmdk_layout_accepts. Qed.
Print Assumptions C12_vmdk_layout_accepts.

Theorem C12_vmdk_footer_accepts : forall hm uf fm, vmdk_footer_gate hm uf fm = Ok tt ->
  (hm = Gen.Consts.vmdk_VMDK_MAGIC \/ hm = Gen.Consts.vmdk_SESPARSE_MAGIC \/ hm = Gen.Consts.vmdk_COWD_MAGIC) /\
  (uf = true -> fm = Gen.Consts.vmdk_VMDK_MAGIC \/ fm = Gen.Consts.vmdk_COWD_MAGIC).
Proof. exact vmdk_footer_accepts. Qed.
Print Assumptions C12_vmdk_footer_accepts.

Theorem C12_vmx_pairs_accepts : forall ps, vmx_pairs_gate ps = Ok tt ->
  exists pre post, ps = (pre ++ (true, true) :: post)%list /\ Forall (fun q => fst q = true) pre.
Proof. exact vmx_pairs_accepts. Qed.
Print Assumptions C12_vmx_pairs_accepts.

Example C12_vmx_pairs_nonvacuous :
  vmx_pairs_gate [(true, false); (true, true); (false, true)] = Ok tt /\
  vmx_pairs_gate [(true, false); (false, true); (true, true)] = Err /\
  vmx_pairs_gate [(true, false)] = Err.
Proof. repeat split; reflexivity. Qed.

Theorem C12_hyperv_accepts : forall h, hyperv_gate h = Ok tt ->
  (if hv2_seq h <? hv1_seq h then hv1_sig h else hv2_sig h) = 19406868 /\
  (if hv2_seq h <? hv1_seq h then hv1_ver h else hv2_ver h) = 1024 /\
  hv_replay_sig h = 17891331 /\
  (forall s, In s (hv_objtab_sigs h) -> s = 17891329) /\ (forall s, In s (hv_keytab_sigs h) -> s = 2).
Proof. exact hyperv_accepts. Qed.
Print Assumptions C12_hyperv_accepts.

Theorem C12_envelope_accepts : forall h, envelope_gate h = Ok tt ->
  e_magic h = Gen.Consts.envelope_FILE_HEADER_MAGIC /\ e_version h = 2 /\ e_has_keyinfo h = true /\
  e_has_cipher h = true /\ e_has_keyhash h = true /\ e_cipher_is_gcm h = true /\ e_footer_version h = 1.
Proof. exact envelope_accepts. Qed.
Print Assumptions C12_envelope_accepts.

Theorem C12_keystore_accepts : forall m, keystore_gate m = Ok tt -> m = 1.
Proof. exact keystore_accepts. Qed.
Print Assumptions C12_keystore_accepts.

Theorem C12_keysafe_accepts : forall i k, keysafe_gate i k = Ok tt -> i = true /\ k = true.
Proof. exact keysafe_accepts. Qed.
Print Assumptions C12_keysafe_accepts.

(* the source's raise inventory (regenerated on every run) is the one the gate models were written from *)
Theorem C12_raise_inventory_pinned :
  List.length Gen.Gates.qcow2_QCow2_init_raises = 9%nat /\ List.length Gen.Gates.vhdx_VHDX_init_raises = 3%nat /\
  List.length Gen.Gates.envelope_Envelope_init_raises = 5%nat /\ List.length Gen.Gates.hyperv_HyperVFile_init_raises = 2%nat.
Proof. destruct raises_pinned as (A & _). repeat split. Qed.
Print Assumptions C12_raise_inventory_pinned.
