(* Props/C17.v — Hyper-V VMCX/VMRS: the decoded tree equals the stored key/value tree.
   Only statements; each is closed by [exact] of a lemma from Proofs/HyperV.v.

   Reading guide.  Model.HyperV is hyperv.py (reader); Spec.HyperV is the writer's side.
   The chain  bytes -> entries -> key tables -> linked tree  is proved link by link:
     packed records and values     C17_fields_roundtrip, C17_value_roundtrip, C17_entry_fields
     key table                     C17_table_walk_roundtrip (+ C17_walk_progress on arbitrary bytes), C17_entry_decodes
     tree                          C17_link_entries_roundtrip, C17_link_roundtrip (any tree, any layout, any order)
     bytes of key tables -> tree   C17_key_tables_roundtrip (the composition of the above),
                                   C17_registry_roundtrip (with competing lower-sequence tables, any order)
     whole file, one object table  C17_simple_file_roundtrip
     selection rules               C17_free_ignored, C17_active_header, C17_active_key_table
     tie to the source             C17_layouts_and_literals (generated layouts / enums / literals)
   and the object-table worklist of HyperVFile.__init__ (property C11, repaired code):
                                   C11_hyperv_worklist_terminates, C11_hyperv_open_terminates. *)
From Coq Require Import String.
From Coq Require Import ZArith List Permutation.
From DH Require Import Base.Plan Base.Layout Base.Table Model.HyperV Spec.HyperV Proofs.HyperV.
Import ListNotations.
Open Scope Z_scope.

(* the generated struct layouts are the packed records of the format (21-byte entry header, ...),
   and the literals of hyperv.py are the ones the format defines *)
Theorem C17_layouts_and_literals :
  (fhdr_widths = W_fhdr /\ rlog_widths = W_rlog /\ otab_widths = W_otab /\ oent_widths = W_oent /\
   ktab_widths = W_ktab /\ kent_widths = W_kent /\ K.fop_widths = W_fop /\ K.fop_size_first = true) /\
  (fhdr_size = 46 /\ otab_size = 8 /\ oent_size = 18 /\ ktab_hsize = 10 /\ kent_hsize = 21 /\
   L.hyperv_big_endian = false) /\
  (K.supported_version = 1024 /\ K.flags_mask = 65280 /\ K.flags_shift = 8 /\ K.type_mask = 255 /\
   K.key_terminator = 1 /\ K.skipped_type = 1 /\ K.node_type = 9 /\ K.blob_types = [6; 7] /\
   K.value_formats = [(3, (K.fmt_q, 8)); (4, (K.fmt_Q, 8)); (5, (K.fmt_d, 8)); (8, (K.fmt_I, 4))]).
Proof.
  pose proof struct_sizes as S. pose proof literals as T. pose proof fop_widths_eq as F.
  repeat split; try reflexivity.
Qed.
Print Assumptions C17_layouts_and_literals.

(* packed little-endian records: decoding what was encoded gives the fields back, for every
   list of widths and every field values that fit *)
Theorem C17_fields_roundtrip :
  forall ws vs rest, Forall2 fits ws vs -> parse_fields ws (enc_fields ws vs ++ rest) = Some vs.
Proof. exact parse_fields_enc. Qed.
Print Assumptions C17_fields_roundtrip.

(* every value comes back with its stored type: signed / unsigned 64-bit integers over their whole
   range, doubles bit for bit, booleans, strings and byte arrays of any length below 2^32, stored
   inline (with any padding) or in a separate file object *)
Theorem C17_value_roundtrip :
  forall f fo r v, stored_as f fo r v -> e_value f fo r = Ok v.
Proof. exact value_roundtrip. Qed.
Print Assumptions C17_value_roundtrip.

(* key, value bytes, type and flags of a stored entry as the reader sees them *)
Theorem C17_entry_fields :
  forall off e, let r := rentry_of off e in
  key_bytes r = se_key e /\ e_data_inline r = se_body e /\
  e_typ r = se_type e mod 256 /\ e_flags r = (se_type e / 256) mod 256.
Proof. exact entry_fields. Qed.
Print Assumptions C17_entry_fields.

(* a key table of any number of entries of any sizes is walked entry by entry, each found at its
   offset, until the table is full or an entry header of size 0 follows *)
Theorem C17_table_walk_roundtrip :
  forall idx seq ck es tail size,
  0 <= idx < 2 ^ 16 -> 0 <= seq < 2 ^ 16 -> 0 <= ck < 2 ^ 32 -> Forall sentry_ok es ->
  ((tail = [] /\ size = 10 + total_size es) \/
   (21 <= zlen tail /\ firstn 4 (skipn 2 tail) = [0; 0; 0; 0] /\ 10 + total_size es < size)) ->
  parse_ktab (enc_ktable idx seq ck es tail) size
  = Ok {| kt_index := idx; kt_seq := seq; kt_entries := place 10 es |}.
Proof. exact table_walk_roundtrip. Qed.
Print Assumptions C17_table_walk_roundtrip.

(* on arbitrary bytes the entry walk terminates *)
Theorem C17_walk_progress :
  forall raw size, bytes_ok raw -> parse_ktab raw size <> Fuel.
Proof. exact parse_ktab_progress. Qed.
Print Assumptions C17_walk_progress.

(* THE TREE.  F is any forest (any depth and fan-out) whose entries carry pairwise different
   identities (table index, offset) — i.e. any distribution over key tables and any offsets;
   es is ANY permutation of the entries it stores.  Linking gives the forest back (as a
   dictionary: equal up to the order of siblings). *)
Theorem C17_link_entries_roundtrip :
  forall F es,
  Permutation es (flat_forest root_id F) ->
  NoDup (root_id :: flat_map aids F) ->
  forest_keys_unique F ->
  exists r, as_dict (S (length es)) es root_id = Ok r /\ tree_equiv (Node r) (Node (map erase F)).
Proof. exact link_entries_roundtrip. Qed.
Print Assumptions C17_link_entries_roundtrip.

(* the same through the key tables: the live entries of the active tables, in table order, with
   free entries anywhere in between *)
Theorem C17_link_roundtrip :
  forall ts F,
  tables_wf ts ->
  Permutation (live_entries ts) (flat_forest root_id F) ->
  NoDup (root_id :: flat_map aids F) ->
  forest_keys_unique F ->
  exists t, link ts = Ok t /\ tree_equiv t (Node (map erase F)).
Proof. exact link_roundtrip. Qed.
Print Assumptions C17_link_roundtrip.

(* a stored entry is seen by the linker as the node it stores: identity (table index, offset), parent
   (root whenever the parent index is 0), key, node-ness, value *)
Theorem C17_entry_decodes :
  forall f fo idx off e p a,
  entry_stores f fo idx off e p a -> lentry_of f fo idx (rentry_of off e) = top p a.
Proof. exact entry_decodes. Qed.
Print Assumptions C17_entry_decodes.

(* FROM BYTES TO TREE.  Ts are the active key tables as stored (bytes = st_bytes T): any number of
   tables with pairwise different indices, any entries with any padding, free entries in any slots,
   values inline or in file objects, tables full or zero-terminated.  If what their slots hold is, in
   any order, the entries of forest F (pairwise different identities, unique sibling keys), then every
   table parses and linking the parsed tables (Model.active_tables has this shape) gives F. *)
Theorem C17_key_tables_roundtrip :
  forall f fo (Ts : list stable) F,
  Forall (stable_ok f fo) Ts -> NoDup (map st_idx Ts) ->
  Permutation (flat_map (fun T => live_of (st_slots T)) Ts) (flat_forest root_id F) ->
  NoDup (root_id :: flat_map aids F) -> forest_keys_unique F ->
  exists kts,
    Forall2 (fun T kt => parse_ktab (st_bytes T) (st_size T) = Ok kt) Ts kts /\
    exists t, link (tables_of f fo kts) = Ok t /\ tree_equiv t (Node (map erase F)).
Proof. exact key_tables_roundtrip. Qed.
Print Assumptions C17_key_tables_roundtrip.

(* ... WITH COMPETING TABLES.  All = every key table the object tables list, parsed, in the order met
   (any order); Ts = the stored tables that should win: for every table in All there is one in Ts
   with the same index which is that table or has a strictly higher sequence number.  The registry
   HyperVFile.__init__ builds from All selects exactly Ts, and linking gives F.
   (Model.active_tables f st = active_of f (s_fobjs st) (s_kts st), by definition.) *)
Theorem C17_registry_roundtrip :
  forall f fo (All : list ktable) (Ts : list stable) F,
  Forall (stable_ok f fo) Ts -> NoDup (map st_idx Ts) ->
  (forall T, In T Ts -> In (kt_of T) All) ->
  (forall kt, In kt All -> exists T, In T Ts /\ st_idx T = kt_index kt /\ (kt = kt_of T \/ kt_seq kt < st_seq T)) ->
  Permutation (flat_map (fun T => live_of (st_slots T)) Ts) (flat_forest root_id F) ->
  NoDup (root_id :: flat_map aids F) -> forest_keys_unique F ->
  exists t, link (active_of f fo (registry All)) = Ok t /\ tree_equiv t (Node (map erase F)).
Proof. exact registry_roundtrip. Qed.
Print Assumptions C17_registry_roundtrip.

(* A WHOLE FILE with one object table (the shape of both real samples): two headers (the one with
   the higher sequence number valid), its replay log, an object table at 0x2000 listing — in any
   order, among unallocated and ignored entries — key tables (competing ones included), file
   objects and further replay logs.  HyperVFile(f) opens it and as_dict() is the stored forest.
   (Files with several object tables: C11_hyperv_worklist_terminates + correspondence.) *)
Theorem C17_simple_file_roundtrip :
  forall f h1 h2 oes (All : list ktable) (Ts : list stable) F,
  parse_fhdr (fread f 0 46) = Some h1 -> parse_fhdr (fread f 4096 46) = Some h2 ->
  h_sig (active_header h1 h2) = 19406868 -> h_ver (active_header h1 h2) = 1024 ->
  load_rlog f (h_rlo (active_header h1 h2)) = Ok tt ->
  load_otab f 8192 = Ok oes ->
  (forall e, In e oes -> o_alloc e <> 0 -> o_type e <> 1 /\ (o_type e = 6 -> load_rlog f (o_off e) = Ok tt)) ->
  Forall2 (fun e kt => load_ktab f (o_off e) (o_size e) = Ok kt) (filter is_ktab oes) All ->
  Forall (stable_ok f (fobjs_of oes)) Ts -> NoDup (map st_idx Ts) ->
  (forall T, In T Ts -> In (kt_of T) All) ->
  (forall kt, In kt All -> exists T, In T Ts /\ st_idx T = kt_index kt /\ (kt = kt_of T \/ kt_seq kt < st_seq T)) ->
  Permutation (flat_map (fun T => live_of (st_slots T)) Ts) (flat_forest root_id F) ->
  NoDup (root_id :: flat_map aids F) -> forest_keys_unique F ->
  exists p t, open_file f = Ok p /\ p_first p = (h_seq h1 >? h_seq h2) /\ p_ntables p = 1 /\
              link (p_tables p) = Ok t /\ tree_equiv t (Node (map erase F)).
Proof. exact simple_file_roundtrip. Qed.
Print Assumptions C17_simple_file_roundtrip.

(* free entries are ignored: a file decodes to what it decodes to without them *)
Theorem C17_free_ignored :
  forall ts t, link (strip_free ts) = Ok t -> link ts = Ok t.
Proof. exact free_ignored. Qed.
Print Assumptions C17_free_ignored.

(* the file header with the highest sequence number is the active one *)
Theorem C17_active_header :
  forall h1 h2,
  h_seq (active_header h1 h2) = Z.max (h_seq h1) (h_seq h2) /\
  (h_seq h2 < h_seq h1 -> active_header h1 h2 = h1) /\ (h_seq h1 < h_seq h2 -> active_header h1 h2 = h2).
Proof. exact active_header_max. Qed.
Print Assumptions C17_active_header.

(* among key tables sharing an index the one with the highest sequence number is used, in
   whatever order the object tables list them *)
Theorem C17_active_key_table :
  forall ts idx l, In (idx, l) (registry ts) ->
  exists h r, l = h :: r /\ In h ts /\ kt_index h = idx /\
              forall x, In x ts -> kt_index x = idx -> kt_seq x <= kt_seq h.
Proof. exact active_key_table. Qed.
Print Assumptions C17_active_key_table.

(* C11 (repaired code): whatever the object tables contain — entries pointing at themselves, at
   earlier tables, anywhere — the loop of HyperVFile.__init__ ends, every offset is loaded at most
   once, and the number of object tables is bounded by the number of loadable offsets.  The three
   loaders are arbitrary functions. *)
Theorem C11_hyperv_worklist_terminates :
  forall (ld_otab : Z -> res (list oentry)) (ld_ktab : Z -> Z -> res ktable) (ld_rlog : Z -> res unit)
         (U : list Z),
  (forall o t, ld_otab o = Ok t -> In o U) ->
  (forall o s, ld_ktab o s <> Fuel) -> (forall o, ld_rlog o <> Fuel) -> (forall o, ld_otab o <> Fuel) ->
  forall k start, (length U < 2 ^ k)%nat ->
  run_worklist ld_otab ld_ktab ld_rlog k start <> Fuel /\
  forall st, run_worklist ld_otab ld_ktab ld_rlog k start = Ok st ->
             NoDup (s_visited st) /\ (length (s_visited st) <= length U)%nat.
Proof. exact run_worklist_terminates. Qed.
Print Assumptions C11_hyperv_worklist_terminates.

(* ... and for concrete files: HyperVFile.__init__ (repaired) terminates on every file, whatever its
   bytes (headers, replay log, object-table worklist, every key-table walk) *)
Theorem C11_hyperv_open_terminates :
  forall f, file_ok f -> open_file f <> Fuel.
Proof. exact open_file_terminates. Qed.
Print Assumptions C11_hyperv_open_terminates.

(* ... and so does as_dict(): on every file the model never runs out of fuel (the identities of the
   entries of the active tables are pairwise different, so the parent chains cannot loop) *)
Theorem C11_hyperv_decoding_terminates :
  forall f, file_ok f ->
  open_file f <> Fuel /\ forall p, open_file f = Ok p -> link (p_tables p) <> Fuel.
Proof. exact decoding_terminates. Qed.
Print Assumptions C11_hyperv_decoding_terminates.

(* as_dict on ANY list of entries with pairwise different identities, none of them the root *)
Theorem C17_as_dict_terminates :
  forall es, NoDup (map l_id es) -> ~ In root_id (map l_id es) -> (forall e, In e es -> l_val e <> Fuel) ->
  as_dict (S (length es)) es root_id <> Fuel.
Proof. exact as_dict_terminates. Qed.
Print Assumptions C17_as_dict_terminates.

(* ---------- non-vacuity ---------- *)
(* configuration/{version = 2304, name = "A", sub/{flag = true}} with entries spread over tables 1, 2
   and 7, stored in an order in which children precede parents, plus a free entry *)
(* ex_forest, ex_tables (with the free entry ex_free) are defined at the end of Proofs/HyperV.v *)
Example C17_nonvacuous :
  tables_wf ex_tables /\ Permutation (live_entries ex_tables) (flat_forest root_id ex_forest) /\
  NoDup (root_id :: flat_map aids ex_forest) /\ forest_keys_unique ex_forest /\
  link ex_tables = Ok (Node [([99], Node [([118], Leaf (VInt 2304)); ([115], Node [([102], Leaf (VBool true))]);
                                         ([110], Leaf (VString [65]))])]).
Proof. exact ex_nonvacuous. Qed.

(* a concrete stored key table (bytes included) meets every hypothesis of C17_key_tables_roundtrip *)
Example C17_key_tables_nonvacuous :
  Forall (stable_ok ex_file []) [ex_stable] /\ NoDup (map st_idx [ex_stable]) /\
  Permutation (flat_map (fun T => live_of (st_slots T)) [ex_stable]) (flat_forest root_id [ex_root]) /\
  NoDup (root_id :: flat_map aids [ex_root]) /\ forest_keys_unique [ex_root].
Proof. exact ex_key_tables. Qed.

(* a concrete whole file (ex_whole: 9000 bytes, header 2 zeros, an unallocated and an ignored object
   entry) meets every hypothesis of C17_simple_file_roundtrip, and decodes to {"c": {"v": -5}} *)
Example C17_whole_file_nonvacuous :
  parse_fhdr (fread ex_whole 0 46) = Some ex_h1 /\ parse_fhdr (fread ex_whole 4096 46) = Some ex_h2 /\
  h_sig (active_header ex_h1 ex_h2) = 19406868 /\ h_ver (active_header ex_h1 ex_h2) = 1024 /\
  load_rlog ex_whole (h_rlo (active_header ex_h1 ex_h2)) = Ok tt /\
  load_otab ex_whole 8192 = Ok ex_oes /\
  (forall e, In e ex_oes -> o_alloc e <> 0 ->
             o_type e <> 1 /\ (o_type e = 6 -> load_rlog ex_whole (o_off e) = Ok tt)) /\
  Forall2 (fun e kt => load_ktab ex_whole (o_off e) (o_size e) = Ok kt) (filter is_ktab ex_oes) [kt_of ex_stable] /\
  Forall (stable_ok ex_whole (fobjs_of ex_oes)) [ex_stable] /\
  (forall T, In T [ex_stable] -> In (kt_of T) [kt_of ex_stable]) /\
  (forall kt, In kt [kt_of ex_stable] ->
     exists T, In T [ex_stable] /\ st_idx T = kt_index kt /\ (kt = kt_of T \/ kt_seq kt < st_seq T)) /\
  (exists p, open_file ex_whole = Ok p /\
             link (p_tables p) = Ok (Node [([99], Node [([118], Leaf (VInt (-5)))])])).
Proof. exact ex_whole_file. Qed.

(* a stored string entry with flags and padding, decoded from its bytes *)
Example C17_entry_example :
  let e := {| se_type := 6 + 256 * 2; se_pidx := 1; se_poff := 10; se_ck := 7; se_ins := 3; se_key := [107];
              se_body := enc_inline (VString [72; 105]) ++ [255; 255] |} in
  parse_ktab (enc_ktable 5 9 0 [e] []) (10 + se_size e) = Ok {| kt_index := 5; kt_seq := 9; kt_entries := place 10 [e] |} /\
  e_value {| fl_size := 0; fl_chunks := [] |} [] (rentry_of 10 e) = Ok (VString [72; 105]) /\
  stored_as {| fl_size := 0; fl_chunks := [] |} [] (rentry_of 10 e) (VString [72; 105]).
Proof. exact ex_entry. Qed.
