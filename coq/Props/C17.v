From Coq Require Import ZArith List.
From DH Require Import Base.Plan Model.HyperV Spec.HyperV.
Theorem C17_stub : True. Proof. exact I. Qed.
Print Assumptions C17_stub.
