(* Props/C11.v — termination and bounded work on arbitrary input (the logic half; the runtime
   half — CPU time, allocator behaviour — is fault enumeration under resource limits). *)
From Coq Require Import ZArith List Bool.
From DH Require Import Base.Plan Base.Table Model.Vhd Proofs.Vhd Model.Vdi Proofs.Vdi Model.Vhdx Proofs.Vhdx
  Model.Hds Proofs.Hds Model.SnapChain Proofs.SnapChain.
Import ListNotations.
Open Scope Z_scope.

(* Reader loops: for ARBITRARY table contents (no well-formedness assumed) every iteration
   consumes at least one unit or raises, so a request of [count] units ends within [count] iterations. *)
Theorem C11_vhd_progress :
  forall d : vhd_dyn, 0 < Vhd.spb d -> forall fuel sector count, 0 <= sector -> count < Z.of_nat fuel ->
  dyn_read_sectors d fuel sector count <> Fuel.
Proof. intros d H fuel. exact (dyn_read_sectors_fuel d H fuel). Qed.
Print Assumptions C11_vhd_progress.

Theorem C11_vdi_progress :
  forall v, 0 < v_bs v -> forall fuel off len, 0 <= off -> len < Z.of_nat fuel -> vdi_read v fuel off len <> Fuel.
Proof. exact vdi_read_progress. Qed.
Print Assumptions C11_vdi_progress.

Theorem C11_vhdx_progress :
  forall x, geom_ok x -> forall fuel sector count, 0 <= sector -> count < Z.of_nat fuel ->
  vhdx_read_sectors x fuel sector count <> Fuel.
Proof. exact vhdx_read_sectors_progress. Qed.
Print Assumptions C11_vhdx_progress.

Theorem C11_hds_progress :
  forall h, 0 < h_cs h -> forall fuel off len, 0 <= off -> len < Z.of_nat fuel -> hds_read h fuel off len <> Fuel.
Proof. exact hds_read_progress. Qed.
Print Assumptions C11_hds_progress.

(* Reference walks: the Parallels snapshot chain ends for EVERY shot list — cyclic parent links are
   refused — and a chain never has more elements than there are shots. *)
Theorem C11_snapshot_chain_terminates : forall shots guid, get_snapshot_chain shots guid <> Fuel.
Proof. exact get_snapshot_chain_terminates. Qed.
Print Assumptions C11_snapshot_chain_terminates.

Theorem C11_snapshot_chain_bounded :
  forall shots guid r, get_snapshot_chain shots guid = Ok r -> (length r <= length shots)%nat.
Proof. exact get_snapshot_chain_bounded. Qed.
Print Assumptions C11_snapshot_chain_bounded.

Example C11_cycle_refused : get_snapshot_chain [(1, 2); (2, 1)] 1 = Err.
Proof. reflexivity. Qed.
