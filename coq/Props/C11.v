(* Props/C11.v — termination and bounded work on arbitrary input (the logic half; the runtime
   half — CPU time, allocator behaviour — is fault enumeration under resource limits). *)
From Coq Require Import ZArith List Bool.
From DH Require Model.Qcow2 Proofs.Qcow2 Model.Vmdk Proofs.Vmdk.
From DH Require Import Base.Plan Base.Table Model.Vhd Proofs.Vhd Model.Vdi Proofs.Vdi Model.Vhdx Proofs.Vhdx
  Model.Hds Proofs.Hds Model.SnapChain Proofs.SnapChain Model.HyperV Proofs.HyperV.
Import ListNotations.
Open Scope Z_scope.

(* Reader loops: for ARBITRARY table contents (no well-formedness assumed) every iteration
   consumes at least one unit or raises, so a request of [count] units ends within [count] iterations. *)
Theorem C11_vhd_progress :
  forall d : vhd_dyn, 0 < Vhd.spb d -> forall fuel sector count, 0 <= sector -> count < Z.of_nat fuel ->
  dyn_read_sectors d fuel sector count <> Fuel.
Proof. intros d H fuel. exact (dyn_read_sectors_fuel d H fuel). Qed.
Print Assumptions C11_vhd_progress.

Theorem C11_vdi_progress :
  forall v, 0 < v_bs v -> forall fuel off len, 0 <= off -> len < Z.of_nat fuel -> vdi_read v fuel off len <> Fuel.
Proof. exact vdi_read_progress. Qed.
Print Assumptions C11_vdi_progress.

Theorem C11_vhdx_progress :
  forall x, geom_ok x -> forall fuel sector count, 0 <= sector -> count < Z.of_nat fuel ->
  vhdx_read_sectors x fuel sector count <> Fuel.
Proof. exact vhdx_read_sectors_progress. Qed.
Print Assumptions C11_vhdx_progress.

Theorem C11_hds_progress :
  forall h, 0 < h_cs h -> forall fuel off len, 0 <= off -> len < Z.of_nat fuel -> hds_read h fuel off len <> Fuel.
Proof. exact hds_read_progress. Qed.
Print Assumptions C11_hds_progress.

(* QCOW2 and VMDK sparse extents: the same, for arbitrary L1/L2 tables and grain directories/tables *)
Theorem C11_qcow2_progress :
  forall (im : Model.Qcow2.image) fuel off len,
  Proofs.Qcow2.wf_image im -> Z.min len (Model.Qcow2.size_of im - off) < Z.of_nat fuel ->
  Model.Qcow2.qcow2_read im fuel off len <> Fuel.
Proof. exact Proofs.Qcow2.qcow2_read_progress. Qed.
Print Assumptions C11_qcow2_progress.

Theorem C11_vmdk_progress :
  forall f sp soff hp, Proofs.Vmdk.wf_words f -> Proofs.Vmdk.wf_geom sp ->
  forall fuel sector count, soff <= sector -> count < Z.of_nat fuel ->
  Model.Vmdk.sparse_read_sectors f sp soff hp fuel sector count <> Fuel.
Proof. intros f sp soff hp Hw Hg fuel sector count. exact (Proofs.Vmdk.sparse_read_sectors_fuel f sp soff hp Hw Hg fuel sector count). Qed.
Print Assumptions C11_vmdk_progress.

(* Reference walks: the Parallels snapshot chain ends for EVERY shot list — cyclic parent links are
   refused — and a chain never has more elements than there are shots. *)
Theorem C11_snapshot_chain_terminates : forall shots guid, get_snapshot_chain shots guid <> Fuel.
Proof. exact get_snapshot_chain_terminates. Qed.
Print Assumptions C11_snapshot_chain_terminates.

Theorem C11_snapshot_chain_bounded :
  forall shots guid r, get_snapshot_chain shots guid = Ok r -> (length r <= length shots)%nat.
Proof. exact get_snapshot_chain_bounded. Qed.
Print Assumptions C11_snapshot_chain_bounded.

(* Hyper-V: the object-table worklist visits each offset at most once and ends on every input
   (arbitrary loaders); opening and decoding never run out of fuel on any file. *)
Theorem C11_hyperv_worklist :
  forall (ld_otab : Z -> res (list oentry)) (ld_ktab : Z -> Z -> res ktable) (ld_rlog : Z -> res unit)
         (U : list Z),
  (forall o t, ld_otab o = Ok t -> In o U) ->
  (forall o s, ld_ktab o s <> Fuel) -> (forall o, ld_rlog o <> Fuel) -> (forall o, ld_otab o <> Fuel) ->
  forall k start, (length U < 2 ^ k)%nat ->
  run_worklist ld_otab ld_ktab ld_rlog k start <> Fuel /\
  forall st, run_worklist ld_otab ld_ktab ld_rlog k start = Ok st ->
             NoDup (s_visited st) /\ (length (s_visited st) <= length U)%nat.
Proof. exact run_worklist_terminates. Qed.
Print Assumptions C11_hyperv_worklist.

Theorem C11_hyperv_open : forall f, file_ok f -> open_file f <> Fuel.
Proof. exact open_file_terminates. Qed.
Print Assumptions C11_hyperv_open.

Example C11_cycle_refused : get_snapshot_chain [(1, 2); (2, 1)] 1 = Err.
Proof. reflexivity. Qed.
