(* Props/C05.v — VDI: every byte range reads as the guest-visible content. *)
From Coq Require Import ZArith List.
From DH Require Import Base.Plan Base.Table Model.Vdi Proofs.Vdi.
Open Scope Z_scope.

Theorem C05_vdi_read_sound :
  forall v, 0 < v_bs v -> forall fuel off len p,
  0 <= off -> vdi_read v fuel off len = Ok p ->
  srcs_of p = map (vdi_src v) (zseq off (Z.min len (v_size v - off))).
Proof. exact vdi_read_sound. Qed.
Print Assumptions C05_vdi_read_sound.

Theorem C05_vdi_read_correct :
  forall v, 0 < v_bs v -> forall off len,
  vdi_wf v -> 0 <= off < v_size v -> 0 < len ->
  exists p, vdi_read v (vdi_fuel len) off len = Ok p /\
    srcs_of p = map (vdi_src v) (zseq off (Z.min len (v_size v - off))).
Proof. exact vdi_read_correct. Qed.
Print Assumptions C05_vdi_read_correct.

Theorem C05_progress :
  forall v, 0 < v_bs v -> forall fuel off len,
  0 <= off -> len < Z.of_nat fuel -> vdi_read v fuel off len <> Fuel.
Proof. exact vdi_read_progress. Qed.
Print Assumptions C05_progress.

Example C05_nonvacuous : vdi_wf ex_vdi.
Proof. exact ex_vdi_wf. Qed.
