(* Props/C14.v — Exposed image metadata and parent references equal what the file stores.
   Only statements; each is closed by [exact] of a lemma from Proofs/Meta*.v.
   Oracles (text codecs, int(), UUID()) are explicit universally quantified arguments. *)
From Coq Require Import String ZArith List Bool Lia.
From DH Require Import Base.Plan Base.Layout Gen.Consts Gen.Layouts Gen.MetaVmdkTables
     Model.MetaCodec Model.MetaQcow2 Model.MetaVhdx Model.MetaVmdk Model.MetaHdrs Model.MetaHdd
     Proofs.MetaCodec Proofs.MetaQcow2 Proofs.MetaVhdx Proofs.MetaVmdk Proofs.MetaVmdkExt Proofs.MetaHdd
     Proofs.MetaHdrs Proofs.MetaText.
Import ListNotations.
Open Scope list_scope.
Open Scope Z_scope.

(* ---- structures: decode (encode r) = r for every plain layout, any field values in range,
        any trailing bytes; instantiated for every generated layout the readers use ---- *)
Theorem C14_struct_roundtrip :
  forall big L r post, contig 0 L = true -> wf_vals L r ->
  decode_struct big L (layout_size L) (encode_struct big L r ++ post) = Some r.
Proof. exact struct_roundtrip. Qed.
Print Assumptions C14_struct_roundtrip.

Theorem C14_generated_struct_roundtrip :
  forall big L size r post, In (L, size) plain_layouts -> wf_vals L r ->
  decode_struct big L size (encode_struct big L r ++ post) = Some r.
Proof. exact generated_struct_roundtrip. Qed.
Print Assumptions C14_generated_struct_roundtrip.

(* the generated sizes / offsets are the constants the code relies on *)
Theorem C14_layout_sizes :
  qcow2_QCowHeader_size = 112 /\ qcow2_QCowExtension_size = 8 /\ qcow2_QCowSnapshotHeader_size = 40 /\
  qcow2_QCowSnapshotExtraData_size = 24 /\ qcow2_Qcow2CryptoHeaderExtension_size = 16 /\
  qcow2_Qcow2BitmapHeaderExt_size = 24 /\
  field_off qcow2_QCowHeader_layout "incompatible_features" = 72 /\
  field_off qcow2_QCowHeader_layout "header_length" = 100 /\
  field_off qcow2_QCowHeader_layout "compression_type" = 104 /\
  vhd_footer_size = 511 /\ vhd_dynamic_header_size = 1024 /\ vhd_parent_locator_size = 24 /\
  vdi_HeaderDescriptor_size = 456 /\ hdd_pvd_header_size = 64 /\
  field_off hdd_pvd_header_layout "m_SizeInSectors_v1" = 36 /\
  field_off hdd_pvd_header_layout "m_SizeInSectors_v2" = 36 /\
  vhdx_file_identifier_size = 520 /\ vhdx_header_size = 4176 /\ vhdx_region_table_header_size = 16 /\
  vhdx_region_table_entry_size = 32 /\ vhdx_metadata_table_header_size = 32 /\
  vhdx_metadata_table_entry_size = 32 /\ vhdx_file_parameters_size = 8 /\
  vhdx_parent_locator_header_size = 20 /\ vhdx_parent_locator_entry_size = 12 /\
  vhdx_ALIGNMENT = 65536 /\
  vmdk_VMDKSparseExtentHeader_size = 512 /\ vmdk_COWDSparseExtentHeader_size = 32 /\
  vmdk_VMDKSESparseConstHeader_size = 512 /\ vmdk_SECTOR_SIZE = 512.
Proof. exact layout_sizes. Qed.
Print Assumptions C14_layout_sizes.

(* the HDS v1 / v2 size union: both views are plain 64-byte layouts *)
Theorem C14_hds_union_views :
  contig 0 hdd_v1_layout = true /\ layout_size hdd_v1_layout = hdd_pvd_header_size /\
  contig 0 hdd_v2_layout = true /\ layout_size hdd_v2_layout = hdd_pvd_header_size.
Proof. repeat split; reflexivity. Qed.
Print Assumptions C14_hds_union_views.

(* VHDX file_parameters bit-fields (has_parent) *)
Theorem C14_file_parameters_roundtrip :
  forall bs la hp rs post,
  0 <= bs < 2 ^ 32 -> 0 <= la < 2 -> 0 <= hp < 2 -> 0 <= rs < 2 ^ 30 ->
  decode_struct false vhdx_file_parameters_layout vhdx_file_parameters_size
    (le_bytes 4 bs ++ le_bytes 4 (la + 2 * hp + 4 * rs) ++ post)
  = Some [("block_size"%string, VInt bs); ("leave_block_allocated"%string, VInt la);
          ("has_parent"%string, VInt hp); ("reserved"%string, VInt rs)].
Proof. exact file_parameters_roundtrip. Qed.
Print Assumptions C14_file_parameters_roundtrip.

(* ---- QCOW2 header extensions: walk (render exts) = exts, any count, any payload length
        below 2^32 - 7, end marker or exact fill, with the fuel the model computes ---- *)
Theorem C14_qcow2_ext_roundtrip :
  forall xs pre tail end_,
  let start := zlen pre in
  let rd := buf_reader (pre ++ ext_render xs ++ tail) in
  Forall ext_ok xs ->
  area_closed tail (start + zlen (ext_render xs)) end_ ->
  exists ps, ext_walk (ext_fuel start end_) rd start end_ = Ok ps /\
             map (fun x => let '(m, l, o) := x in (m, rd o l)) ps = xs.
Proof. exact qcow2_ext_roundtrip. Qed.
Print Assumptions C14_qcow2_ext_roundtrip.

Theorem C14_qcow2_ext_walk_progress :
  forall rd fuel offset end_, (end_ - offset) / 8 + 1 < Z.of_nat fuel -> ext_walk fuel rd offset end_ <> Fuel.
Proof. exact ext_walk_fuel. Qed.
Print Assumptions C14_qcow2_ext_walk_progress.

Theorem C14_qcow2_padding :
  forall len, 0 <= len < 2 ^ 32 - 7 -> pad8 len = (len + 7) / 8 * 8.
Proof. exact pad8_align. Qed.
Print Assumptions C14_qcow2_padding.

(* a version-2 image: the extension area starts at byte 72, no feature bits, zlib *)
Theorem C14_qcow2_v2_ext_start :
  forall dec8 z d b rd m, q_open dec8 z d b rd = Ok m -> qm_version m = 2 ->
  qm_header_length m = 72 /\ qm_incompat m = 0 /\ qm_compression m = 0.
Proof. exact qcow2_v2_defaults. Qed.
Print Assumptions C14_qcow2_v2_ext_start.

(* ---- QCOW2 snapshot table: any number of entries, any extra-data / id / name lengths ---- *)
Theorem C14_snapshot_table_roundtrip :
  forall dec8 l es, Forall snap_wf l -> Forall2 (snap_decodes dec8) l es ->
  forall pre post o, o = zlen pre ->
  snaps_read dec8 (length l) (buf_reader (pre ++ snaps_render l ++ post)) o = Ok es.
Proof. exact snapshot_table_roundtrip. Qed.
Print Assumptions C14_snapshot_table_roundtrip.

(* ---- VHDX: where a structure is stored twice with sequence numbers, the highest is used ---- *)
Theorem C14_highest_sequence_wins :
  forall h1 h2,
  (xh_sequence h1 > xh_sequence h2 -> select_header h1 h2 = h1) /\
  (xh_sequence h1 <= xh_sequence h2 -> select_header h1 h2 = h2).
Proof. exact highest_sequence_wins. Qed.
Print Assumptions C14_highest_sequence_wins.

Theorem C14_vhdx_active_header :
  forall dec16 po rd m, x_open dec16 po rd = Ok m ->
  read_header rd (1 * vhdx_ALIGNMENT) = Ok (fst (xm_headers m)) /\
  read_header rd (2 * vhdx_ALIGNMENT) = Ok (snd (xm_headers m)) /\
  xm_header m = select_header (fst (xm_headers m)) (snd (xm_headers m)).
Proof. exact x_open_active_header. Qed.
Print Assumptions C14_vhdx_active_header.

Theorem C14_vhdx_region_lookup :
  forall es e, In e es -> NoDup (map rg_guid es) -> region_get es (rg_guid e) = Ok e.
Proof. exact region_get_unique. Qed.
Print Assumptions C14_vhdx_region_lookup.

(* VHDX parent locator: UTF-16-LE keys and values at their stored offsets, any number of entries,
   Python dict semantics; enc16 / dec16 are the codec oracle *)
Theorem C14_locator_roundtrip :
  forall (enc16 : list Z -> list Z) (dec16 : list Z -> option (list Z)) (ok : list Z -> Prop),
  (forall s, ok s -> dec16 (enc16 s) = Some s) ->
  forall type_le kvs pre post o,
  o = zlen pre -> zlen type_le = 16 -> zlen kvs < 2 ^ 16 -> Forall (kv_texts_ok ok) kvs ->
  kvs_ok enc16 (vhdx_parent_locator_header_size + zlen kvs * vhdx_parent_locator_entry_size) kvs ->
  parent_locator dec16 (buf_reader (pre ++ locator_render enc16 type_le kvs ++ post)) o
  = Ok {| pl_type := uuid_of_bytes_le type_le; pl_entries := dict_of kvs |}.
Proof. exact locator_roundtrip. Qed.
Print Assumptions C14_locator_roundtrip.

(* the same with the model's executable UTF-16-LE codec: no codec hypothesis left *)
Theorem C14_locator_roundtrip_utf16 :
  forall type_le kvs pre post o,
  o = zlen pre -> zlen type_le = 16 -> zlen kvs < 2 ^ 16 ->
  Forall (fun kv => Forall (fun c => scalar c = true) (fst kv) /\ Forall (fun c => scalar c = true) (snd kv)) kvs ->
  kvs_ok utf16le_encode (vhdx_parent_locator_header_size + zlen kvs * vhdx_parent_locator_entry_size) kvs ->
  parent_locator utf16le_decode (buf_reader (pre ++ locator_render utf16le_encode type_le kvs ++ post)) o
  = Ok {| pl_type := uuid_of_bytes_le type_le; pl_entries := dict_of kvs |}.
Proof. exact locator_roundtrip_utf16. Qed.
Print Assumptions C14_locator_roundtrip_utf16.

(* the executable codecs are inverse on strings of Unicode scalar values (BMP, astral, combining alike) *)
Theorem C14_utf16le_roundtrip :
  forall s, Forall (fun c => scalar c = true) s -> utf16le_decode (utf16le_encode s) = Some s.
Proof. exact utf16le_roundtrip. Qed.
Print Assumptions C14_utf16le_roundtrip.

Theorem C14_utf8_roundtrip :
  forall s, Forall (fun c => scalar c = true) s -> utf8_decode (utf8_encode s) = Some s.
Proof. exact utf8_roundtrip. Qed.
Print Assumptions C14_utf8_roundtrip.

(* ---- Parallels HDS header: the v1 / v2 size union ---- *)
Theorem C14_hds_open_v2 :
  forall r post,
  wf_vals hdd_v2_layout r -> vbytes r "m_Sig" = hdd_SIGNATURE_STRUCTURED_DISK_V2 ->
  exists m, hds_open (buf_reader (encode_struct hdd_big_endian hdd_v2_layout r ++ post)) = Ok m /\
            hm_v2 m = true /\
            hm_size m = vint r "m_SizeInSectors_v2" * hdd_SECTOR_SIZE /\
            hm_cluster_size m = vint r "m_Sectors" * hdd_SECTOR_SIZE /\
            hm_data_offset m = vint r "m_FirstBlockOffset" /\
            hm_in_use m = (vint r "m_DiskInUse" =? hdd_SIGNATURE_DISK_IN_USE).
Proof. exact hds_open_v2. Qed.
Print Assumptions C14_hds_open_v2.

Theorem C14_hds_open_v1 :
  forall r post,
  wf_vals hdd_v1_layout r -> vbytes r "m_Sig" = hdd_SIGNATURE_STRUCTURED_DISK_V1 ->
  exists m, hds_open (buf_reader (encode_struct hdd_big_endian hdd_v1_layout r ++ post)) = Ok m /\
            hm_v2 m = false /\
            hm_size m = vint r "m_SizeInSectors_v1" * hdd_SECTOR_SIZE /\
            hm_cluster_size m = vint r "m_Sectors" * hdd_SECTOR_SIZE /\
            hm_data_offset m = vint r "m_FirstBlockOffset" /\
            hm_in_use m = (vint r "m_DiskInUse" =? hdd_SIGNATURE_DISK_IN_USE).
Proof. exact hds_open_v1. Qed.
Print Assumptions C14_hds_open_v1.

(* ---- VMDK descriptor: key/value lines (quoted values with spaces, '=' and any characters) ---- *)
Theorem C14_descriptor_kv_roundtrip :
  forall kvs d,
  Forall kv_ok kvs -> Forall (fun kv => not_extent_line (render_kv kv)) kvs ->
  parse_lines d (map render_kv kvs) = Ok (fold_left (fun d kv => d_put d (fst kv) (snd kv)) kvs d).
Proof. exact descriptor_kv_roundtrip. Qed.
Print Assumptions C14_descriptor_kv_roundtrip.

(* extent lines: every access mode x every type of the generated grammar, any digits, any file name
   (spaces, inner quotes, any code point but newline), with and without a start sector *)
Theorem C14_extent_line_roundtrip :
  forall am ty d0 ds f0 fn,
  In am ACCESS_MODES -> In ty EXTENT_TYPES ->
  is_digit d0 = true -> forallb is_digit ds = true ->
  (f0 =? 10) = false -> forallb (in_cls CAny) fn = true ->
  ext_fields (am ++ 32 :: (d0 :: ds) ++ 32 :: ty ++ 32 :: 34 :: (f0 :: fn) ++ [34])
  = Some (am, dec_value 0 (d0 :: ds), ty, Some (strip is_quote (34 :: (f0 :: fn) ++ [34])), None, None, None).
Proof. exact extent_line_roundtrip. Qed.
Print Assumptions C14_extent_line_roundtrip.

Theorem C14_extent_line_start_roundtrip :
  forall am ty d0 ds f0 fn e0 es,
  In am ACCESS_MODES -> In ty EXTENT_TYPES ->
  is_digit d0 = true -> forallb is_digit ds = true ->
  (f0 =? 10) = false -> forallb (in_cls CAny) fn = true ->
  is_digit e0 = true -> forallb is_digit es = true ->
  ext_fields (am ++ 32 :: (d0 :: ds) ++ 32 :: ty ++ 32 :: 34 :: (f0 :: fn) ++ 34 :: 32 :: e0 :: es)
  = Some (am, dec_value 0 (d0 :: ds), ty, Some (strip is_quote (34 :: (f0 :: fn) ++ [34])),
          Some (dec_value 0 (e0 :: es)), None, None).
Proof. exact extent_line_start_roundtrip. Qed.
Print Assumptions C14_extent_line_start_roundtrip.

(* every extent type VMDK.__init__ dispatches on is a type the grammar accepts (both lists generated) *)
Theorem C14_wired_extent_types_in_grammar :
  forallb (fun t => existsb (list_eqb t) EXTENT_TYPES) (meta_wired_sparse_types ++ meta_wired_raw_types) = true.
Proof. exact wired_types_in_grammar. Qed.
Print Assumptions C14_wired_extent_types_in_grammar.

(* the embedded descriptor of a sparse extent ends at the first NUL *)
Theorem C14_embedded_descriptor_terminator :
  forall text rest, forallb (fun c => negb (c =? 0)) text = true -> until_nul (text ++ 0 :: rest) = text.
Proof. exact until_nul_text. Qed.
Print Assumptions C14_embedded_descriptor_terminator.

(* every extent type of the grammar is accepted with a quoted file name *)
Theorem C14_extent_types_accepted :
  forallb (fun t => match ext_fields (lit "RW 1 " ++ t ++ lit " ""f""") with
                    | Some (_, _, t', Some fn, None, None, None) => list_eqb t t' && list_eqb fn (lit "f")
                    | _ => false
                    end) EXTENT_TYPES = true.
Proof. exact every_type_accepted. Qed.
Print Assumptions C14_extent_types_accepted.

(* ---- Parallels DiskDescriptor.xml: Descriptor (render d) = d, TopGUID honoured ---- *)
Theorem C14_hdd_descriptor_roundtrip :
  forall (int_of uuid_of : list Z -> option Z) (int_text uuid_text : Z -> list Z),
  (forall n, int_of (int_text n) = Some n) -> (forall g, uuid_of (uuid_text g) = Some g) ->
  forall d, desc_of int_of uuid_of (desc_x int_text uuid_text d) = Ok d.
Proof. exact hdd_descriptor_roundtrip. Qed.
Print Assumptions C14_hdd_descriptor_roundtrip.

Theorem C14_top_guid_exposed :
  forall (int_of uuid_of : list Z -> option Z) (int_text uuid_text : Z -> list Z),
  (forall n, int_of (int_text n) = Some n) -> (forall g, uuid_of (uuid_text g) = Some g) ->
  forall d m, desc_of int_of uuid_of (desc_x int_text uuid_text d) = Ok m -> pd_top m = pd_top d.
Proof. exact top_guid_exposed. Qed.
Print Assumptions C14_top_guid_exposed.

(* ---- non-vacuity ---- *)
Example C14_ext_nonvacuous :
  Forall ext_ok [(3799591626, [113; 99; 111; 119; 50]); (305419896, repeat 7 13)] /\
  area_closed (ext_end_marker ++ [1; 2; 3]) (72 + zlen (ext_render [(3799591626, [113; 99; 111; 119; 50]); (305419896, repeat 7 13)])) 512.
Proof.
  split.
  - repeat constructor; cbn; try reflexivity.
  - left. exists [1; 2; 3]. split; [reflexivity|]. vm_compute. discriminate.
Qed.

Example C14_snap_nonvacuous :
  snap_wf {| ss_l1_table_offset := 196608; ss_l1_size := 1; ss_date_sec := 1; ss_date_nsec := 2;
             ss_vm_clock_nsec := 3; ss_vm_state_size := 0; ss_extra := repeat 0 40; ss_id := [49];
             ss_name := [115; 110; 97; 112] |}.
Proof. repeat split; cbn; try lia; try reflexivity; discriminate. Qed.

Example C14_kv_nonvacuous :
  kv_ok (lit "ddb.uuid", lit "60 00 C2 9b = x") /\ not_extent_line (render_kv (lit "ddb.uuid", lit "60 00 C2 9b = x")).
Proof. split; [constructor; cbn; try reflexivity; discriminate|reflexivity]. Qed.
