(* Props/C14.v — placeholder while the proofs are being written *)
From Coq Require Import ZArith List.
From DH Require Import Base.Layout Gen.Layouts Model.MetaCodec.
Open Scope Z_scope.

Theorem C14_placeholder : layout_size qcow2_QCowHeader_layout = qcow2_QCowHeader_size.
Proof. reflexivity. Qed.
Print Assumptions C14_placeholder.
