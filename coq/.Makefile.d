Base/Arith.vo Base/Arith.glob Base/Arith.v.beautified Base/Arith.required_vo: Base/Arith.v 
Base/Arith.vio: Base/Arith.v 
Base/Arith.vos Base/Arith.vok Base/Arith.required_vos: Base/Arith.v 
Base/Layout.vo Base/Layout.glob Base/Layout.v.beautified Base/Layout.required_vo: Base/Layout.v Base/Arith.vo
Base/Layout.vio: Base/Layout.v Base/Arith.vio
Base/Layout.vos Base/Layout.vok Base/Layout.required_vos: Base/Layout.v Base/Arith.vos
Base/Plan.vo Base/Plan.glob Base/Plan.v.beautified Base/Plan.required_vo: Base/Plan.v 
Base/Plan.vio: Base/Plan.v 
Base/Plan.vos Base/Plan.vok Base/Plan.required_vos: Base/Plan.v 
Base/Table.vo Base/Table.glob Base/Table.v.beautified Base/Table.required_vo: Base/Table.v 
Base/Table.vio: Base/Table.v 
Base/Table.vos Base/Table.vok Base/Table.required_vos: Base/Table.v 
Gen/Consts.vo Gen/Consts.glob Gen/Consts.v.beautified Gen/Consts.required_vo: Gen/Consts.v 
Gen/Consts.vio: Gen/Consts.v 
Gen/Consts.vos Gen/Consts.vok Gen/Consts.required_vos: Gen/Consts.v 
Gen/DescTables.vo Gen/DescTables.glob Gen/DescTables.v.beautified Gen/DescTables.required_vo: Gen/DescTables.v Model/Text.vo Model/XmlTree.vo
Gen/DescTables.vio: Gen/DescTables.v Model/Text.vio Model/XmlTree.vio
Gen/DescTables.vos Gen/DescTables.vok Gen/DescTables.required_vos: Gen/DescTables.v Model/Text.vos Model/XmlTree.vos
Gen/Effects.vo Gen/Effects.glob Gen/Effects.v.beautified Gen/Effects.required_vo: Gen/Effects.v 
Gen/Effects.vio: Gen/Effects.v 
Gen/Effects.vos Gen/Effects.vok Gen/Effects.required_vos: Gen/Effects.v 
Gen/Enums.vo Gen/Enums.glob Gen/Enums.v.beautified Gen/Enums.required_vo: Gen/Enums.v 
Gen/Enums.vio: Gen/Enums.v 
Gen/Enums.vos Gen/Enums.vok Gen/Enums.required_vos: Gen/Enums.v 
Gen/EnvelopeTables.vo Gen/EnvelopeTables.glob Gen/EnvelopeTables.v.beautified Gen/EnvelopeTables.required_vo: Gen/EnvelopeTables.v 
Gen/EnvelopeTables.vio: Gen/EnvelopeTables.v 
Gen/EnvelopeTables.vos Gen/EnvelopeTables.vok Gen/EnvelopeTables.required_vos: Gen/EnvelopeTables.v 
Gen/Gates.vo Gen/Gates.glob Gen/Gates.v.beautified Gen/Gates.required_vo: Gen/Gates.v 
Gen/Gates.vio: Gen/Gates.v 
Gen/Gates.vos Gen/Gates.vok Gen/Gates.required_vos: Gen/Gates.v 
Gen/HyperVLits.vo Gen/HyperVLits.glob Gen/HyperVLits.v.beautified Gen/HyperVLits.required_vo: Gen/HyperVLits.v 
Gen/HyperVLits.vio: Gen/HyperVLits.v 
Gen/HyperVLits.vos Gen/HyperVLits.vok Gen/HyperVLits.required_vos: Gen/HyperVLits.v 
Gen/Layouts.vo Gen/Layouts.glob Gen/Layouts.v.beautified Gen/Layouts.required_vo: Gen/Layouts.v Base/Layout.vo
Gen/Layouts.vio: Gen/Layouts.v Base/Layout.vio
Gen/Layouts.vos Gen/Layouts.vok Gen/Layouts.required_vos: Gen/Layouts.v Base/Layout.vos
Gen/MetaHddTables.vo Gen/MetaHddTables.glob Gen/MetaHddTables.v.beautified Gen/MetaHddTables.required_vo: Gen/MetaHddTables.v 
Gen/MetaHddTables.vio: Gen/MetaHddTables.v 
Gen/MetaHddTables.vos Gen/MetaHddTables.vok Gen/MetaHddTables.required_vos: Gen/MetaHddTables.v 
Gen/MetaQcow2Tables.vo Gen/MetaQcow2Tables.glob Gen/MetaQcow2Tables.v.beautified Gen/MetaQcow2Tables.required_vo: Gen/MetaQcow2Tables.v 
Gen/MetaQcow2Tables.vio: Gen/MetaQcow2Tables.v 
Gen/MetaQcow2Tables.vos Gen/MetaQcow2Tables.vok Gen/MetaQcow2Tables.required_vos: Gen/MetaQcow2Tables.v 
Gen/MetaVmdkTables.vo Gen/MetaVmdkTables.glob Gen/MetaVmdkTables.v.beautified Gen/MetaVmdkTables.required_vo: Gen/MetaVmdkTables.v 
Gen/MetaVmdkTables.vio: Gen/MetaVmdkTables.v 
Gen/MetaVmdkTables.vos Gen/MetaVmdkTables.vok Gen/MetaVmdkTables.required_vos: Gen/MetaVmdkTables.v 
Gen/Qcow2Fun.vo Gen/Qcow2Fun.glob Gen/Qcow2Fun.v.beautified Gen/Qcow2Fun.required_vo: Gen/Qcow2Fun.v Base/Plan.vo Base/Table.vo Gen/Consts.vo Gen/Enums.vo
Gen/Qcow2Fun.vio: Gen/Qcow2Fun.v Base/Plan.vio Base/Table.vio Gen/Consts.vio Gen/Enums.vio
Gen/Qcow2Fun.vos Gen/Qcow2Fun.vok Gen/Qcow2Fun.required_vos: Gen/Qcow2Fun.v Base/Plan.vos Base/Table.vos Gen/Consts.vos Gen/Enums.vos
Gen/VmTar.vo Gen/VmTar.glob Gen/VmTar.v.beautified Gen/VmTar.required_vo: Gen/VmTar.v 
Gen/VmTar.vio: Gen/VmTar.v 
Gen/VmTar.vos Gen/VmTar.vok Gen/VmTar.required_vos: Gen/VmTar.v 
Gen/VmdkTables.vo Gen/VmdkTables.glob Gen/VmdkTables.v.beautified Gen/VmdkTables.required_vo: Gen/VmdkTables.v 
Gen/VmdkTables.vio: Gen/VmdkTables.v 
Gen/VmdkTables.vos Gen/VmdkTables.vok Gen/VmdkTables.required_vos: Gen/VmdkTables.v 
Gen/XmlSites.vo Gen/XmlSites.glob Gen/XmlSites.v.beautified Gen/XmlSites.required_vo: Gen/XmlSites.v Model/XmlEntry.vo
Gen/XmlSites.vio: Gen/XmlSites.v Model/XmlEntry.vio
Gen/XmlSites.vos Gen/XmlSites.vok Gen/XmlSites.required_vos: Gen/XmlSites.v Model/XmlEntry.vos
Spec/HyperV.vo Spec/HyperV.glob Spec/HyperV.v.beautified Spec/HyperV.required_vo: Spec/HyperV.v Base/Plan.vo Base/Layout.vo Base/Table.vo Model/HyperV.vo
Spec/HyperV.vio: Spec/HyperV.v Base/Plan.vio Base/Layout.vio Base/Table.vio Model/HyperV.vio
Spec/HyperV.vos Spec/HyperV.vok Spec/HyperV.required_vos: Spec/HyperV.v Base/Plan.vos Base/Layout.vos Base/Table.vos Model/HyperV.vos
Spec/Qcow2.vo Spec/Qcow2.glob Spec/Qcow2.v.beautified Spec/Qcow2.required_vo: Spec/Qcow2.v Base/Plan.vo
Spec/Qcow2.vio: Spec/Qcow2.v Base/Plan.vio
Spec/Qcow2.vos Spec/Qcow2.vok Spec/Qcow2.required_vos: Spec/Qcow2.v Base/Plan.vos
Spec/VmTar.vo Spec/VmTar.glob Spec/VmTar.v.beautified Spec/VmTar.required_vo: Spec/VmTar.v Base/Layout.vo
Spec/VmTar.vio: Spec/VmTar.v Base/Layout.vio
Spec/VmTar.vos Spec/VmTar.vok Spec/VmTar.required_vos: Spec/VmTar.v Base/Layout.vos
Model/AlignedStream.vo Model/AlignedStream.glob Model/AlignedStream.v.beautified Model/AlignedStream.required_vo: Model/AlignedStream.v Base/Plan.vo
Model/AlignedStream.vio: Model/AlignedStream.v Base/Plan.vio
Model/AlignedStream.vos Model/AlignedStream.vok Model/AlignedStream.required_vos: Model/AlignedStream.v Base/Plan.vos
Model/AlignedStreamB.vo Model/AlignedStreamB.glob Model/AlignedStreamB.v.beautified Model/AlignedStreamB.required_vo: Model/AlignedStreamB.v Base/Plan.vo Model/AlignedStream.vo
Model/AlignedStreamB.vio: Model/AlignedStreamB.v Base/Plan.vio Model/AlignedStream.vio
Model/AlignedStreamB.vos Model/AlignedStreamB.vok Model/AlignedStreamB.required_vos: Model/AlignedStreamB.v Base/Plan.vos Model/AlignedStream.vos
Model/Chain.vo Model/Chain.glob Model/Chain.v.beautified Model/Chain.required_vo: Model/Chain.v Base/Plan.vo
Model/Chain.vio: Model/Chain.v Base/Plan.vio
Model/Chain.vos Model/Chain.vok Model/Chain.required_vos: Model/Chain.v Base/Plan.vos
Model/Effects.vo Model/Effects.glob Model/Effects.v.beautified Model/Effects.required_vo: Model/Effects.v Gen/Effects.vo
Model/Effects.vio: Model/Effects.v Gen/Effects.vio
Model/Effects.vos Model/Effects.vok Model/Effects.required_vos: Model/Effects.v Gen/Effects.vos
Model/EnvKeystore.vo Model/EnvKeystore.glob Model/EnvKeystore.v.beautified Model/EnvKeystore.required_vo: Model/EnvKeystore.v Base/Plan.vo Model/Envelope.vo Gen/Consts.vo Gen/EnvelopeTables.vo
Model/EnvKeystore.vio: Model/EnvKeystore.v Base/Plan.vio Model/Envelope.vio Gen/Consts.vio Gen/EnvelopeTables.vio
Model/EnvKeystore.vos Model/EnvKeystore.vok Model/EnvKeystore.required_vos: Model/EnvKeystore.v Base/Plan.vos Model/Envelope.vos Gen/Consts.vos Gen/EnvelopeTables.vos
Model/Envelope.vo Model/Envelope.glob Model/Envelope.v.beautified Model/Envelope.required_vo: Model/Envelope.v Base/Plan.vo Base/Table.vo Base/Layout.vo Gen/Consts.vo Gen/Layouts.vo Gen/Enums.vo Gen/EnvelopeTables.vo
Model/Envelope.vio: Model/Envelope.v Base/Plan.vio Base/Table.vio Base/Layout.vio Gen/Consts.vio Gen/Layouts.vio Gen/Enums.vio Gen/EnvelopeTables.vio
Model/Envelope.vos Model/Envelope.vok Model/Envelope.required_vos: Model/Envelope.v Base/Plan.vos Base/Table.vos Base/Layout.vos Gen/Consts.vos Gen/Layouts.vos Gen/Enums.vos Gen/EnvelopeTables.vos
Model/Gates.vo Model/Gates.glob Model/Gates.v.beautified Model/Gates.required_vo: Model/Gates.v Base/Plan.vo Gen/Consts.vo
Model/Gates.vio: Model/Gates.v Base/Plan.vio Gen/Consts.vio
Model/Gates.vos Model/Gates.vok Model/Gates.required_vos: Model/Gates.v Base/Plan.vos Gen/Consts.vos
Model/Hdd.vo Model/Hdd.glob Model/Hdd.v.beautified Model/Hdd.required_vo: Model/Hdd.v Base/Plan.vo Model/Chain.vo Model/Vmdk.vo
Model/Hdd.vio: Model/Hdd.v Base/Plan.vio Model/Chain.vio Model/Vmdk.vio
Model/Hdd.vos Model/Hdd.vok Model/Hdd.required_vos: Model/Hdd.v Base/Plan.vos Model/Chain.vos Model/Vmdk.vos
Model/Hds.vo Model/Hds.glob Model/Hds.v.beautified Model/Hds.required_vo: Model/Hds.v Base/Plan.vo Base/Table.vo Gen/Consts.vo
Model/Hds.vio: Model/Hds.v Base/Plan.vio Base/Table.vio Gen/Consts.vio
Model/Hds.vos Model/Hds.vok Model/Hds.required_vos: Model/Hds.v Base/Plan.vos Base/Table.vos Gen/Consts.vos
Model/HyperV.vo Model/HyperV.glob Model/HyperV.v.beautified Model/HyperV.required_vo: Model/HyperV.v Base/Plan.vo Base/Layout.vo Base/Table.vo Gen/Consts.vo Gen/Layouts.vo Gen/Enums.vo Gen/HyperVLits.vo
Model/HyperV.vio: Model/HyperV.v Base/Plan.vio Base/Layout.vio Base/Table.vio Gen/Consts.vio Gen/Layouts.vio Gen/Enums.vio Gen/HyperVLits.vio
Model/HyperV.vos Model/HyperV.vok Model/HyperV.required_vos: Model/HyperV.v Base/Plan.vos Base/Layout.vos Base/Table.vos Gen/Consts.vos Gen/Layouts.vos Gen/Enums.vos Gen/HyperVLits.vos
Model/Io.vo Model/Io.glob Model/Io.v.beautified Model/Io.required_vo: Model/Io.v Base/Plan.vo Model/Walk.vo
Model/Io.vio: Model/Io.v Base/Plan.vio Model/Walk.vio
Model/Io.vos Model/Io.vok Model/Io.required_vos: Model/Io.v Base/Plan.vos Model/Walk.vos
Model/Lru.vo Model/Lru.glob Model/Lru.v.beautified Model/Lru.required_vo: Model/Lru.v 
Model/Lru.vio: Model/Lru.v 
Model/Lru.vos Model/Lru.vok Model/Lru.required_vos: Model/Lru.v 
Model/MetaCodec.vo Model/MetaCodec.glob Model/MetaCodec.v.beautified Model/MetaCodec.required_vo: Model/MetaCodec.v Base/Plan.vo Base/Layout.vo
Model/MetaCodec.vio: Model/MetaCodec.v Base/Plan.vio Base/Layout.vio
Model/MetaCodec.vos Model/MetaCodec.vok Model/MetaCodec.required_vos: Model/MetaCodec.v Base/Plan.vos Base/Layout.vos
Model/MetaHdd.vo Model/MetaHdd.glob Model/MetaHdd.v.beautified Model/MetaHdd.required_vo: Model/MetaHdd.v Base/Plan.vo Model/MetaCodec.vo
Model/MetaHdd.vio: Model/MetaHdd.v Base/Plan.vio Model/MetaCodec.vio
Model/MetaHdd.vos Model/MetaHdd.vok Model/MetaHdd.required_vos: Model/MetaHdd.v Base/Plan.vos Model/MetaCodec.vos
Model/MetaHdrs.vo Model/MetaHdrs.glob Model/MetaHdrs.v.beautified Model/MetaHdrs.required_vo: Model/MetaHdrs.v Base/Plan.vo Base/Layout.vo Gen/Consts.vo Gen/Layouts.vo Model/MetaCodec.vo
Model/MetaHdrs.vio: Model/MetaHdrs.v Base/Plan.vio Base/Layout.vio Gen/Consts.vio Gen/Layouts.vio Model/MetaCodec.vio
Model/MetaHdrs.vos Model/MetaHdrs.vok Model/MetaHdrs.required_vos: Model/MetaHdrs.v Base/Plan.vos Base/Layout.vos Gen/Consts.vos Gen/Layouts.vos Model/MetaCodec.vos
Model/MetaQcow2.vo Model/MetaQcow2.glob Model/MetaQcow2.v.beautified Model/MetaQcow2.required_vo: Model/MetaQcow2.v Base/Plan.vo Base/Layout.vo Gen/Consts.vo Gen/Layouts.vo Gen/MetaQcow2Tables.vo Model/MetaCodec.vo
Model/MetaQcow2.vio: Model/MetaQcow2.v Base/Plan.vio Base/Layout.vio Gen/Consts.vio Gen/Layouts.vio Gen/MetaQcow2Tables.vio Model/MetaCodec.vio
Model/MetaQcow2.vos Model/MetaQcow2.vok Model/MetaQcow2.required_vos: Model/MetaQcow2.v Base/Plan.vos Base/Layout.vos Gen/Consts.vos Gen/Layouts.vos Gen/MetaQcow2Tables.vos Model/MetaCodec.vos
Model/MetaVhdx.vo Model/MetaVhdx.glob Model/MetaVhdx.v.beautified Model/MetaVhdx.required_vo: Model/MetaVhdx.v Base/Plan.vo Base/Layout.vo Gen/Consts.vo Gen/Layouts.vo Model/MetaCodec.vo
Model/MetaVhdx.vio: Model/MetaVhdx.v Base/Plan.vio Base/Layout.vio Gen/Consts.vio Gen/Layouts.vio Model/MetaCodec.vio
Model/MetaVhdx.vos Model/MetaVhdx.vok Model/MetaVhdx.required_vos: Model/MetaVhdx.v Base/Plan.vos Base/Layout.vos Gen/Consts.vos Gen/Layouts.vos Model/MetaCodec.vos
Model/MetaView.vo Model/MetaView.glob Model/MetaView.v.beautified Model/MetaView.required_vo: Model/MetaView.v Base/Plan.vo Base/Layout.vo Gen/Consts.vo Gen/Layouts.vo Model/MetaCodec.vo Model/MetaQcow2.vo Model/MetaVhdx.vo Model/MetaVmdk.vo Model/MetaHdrs.vo Model/MetaHdd.vo
Model/MetaView.vio: Model/MetaView.v Base/Plan.vio Base/Layout.vio Gen/Consts.vio Gen/Layouts.vio Model/MetaCodec.vio Model/MetaQcow2.vio Model/MetaVhdx.vio Model/MetaVmdk.vio Model/MetaHdrs.vio Model/MetaHdd.vio
Model/MetaView.vos Model/MetaView.vok Model/MetaView.required_vos: Model/MetaView.v Base/Plan.vos Base/Layout.vos Gen/Consts.vos Gen/Layouts.vos Model/MetaCodec.vos Model/MetaQcow2.vos Model/MetaVhdx.vos Model/MetaVmdk.vos Model/MetaHdrs.vos Model/MetaHdd.vos
Model/MetaVmdk.vo Model/MetaVmdk.glob Model/MetaVmdk.v.beautified Model/MetaVmdk.required_vo: Model/MetaVmdk.v Base/Plan.vo Base/Layout.vo Gen/Consts.vo Gen/Layouts.vo Gen/MetaVmdkTables.vo Model/MetaCodec.vo
Model/MetaVmdk.vio: Model/MetaVmdk.v Base/Plan.vio Base/Layout.vio Gen/Consts.vio Gen/Layouts.vio Gen/MetaVmdkTables.vio Model/MetaCodec.vio
Model/MetaVmdk.vos Model/MetaVmdk.vok Model/MetaVmdk.required_vos: Model/MetaVmdk.v Base/Plan.vos Base/Layout.vos Gen/Consts.vos Gen/Layouts.vos Gen/MetaVmdkTables.vos Model/MetaCodec.vos
Model/OpenParent.vo Model/OpenParent.glob Model/OpenParent.v.beautified Model/OpenParent.required_vo: Model/OpenParent.v Base/Plan.vo
Model/OpenParent.vio: Model/OpenParent.v Base/Plan.vio
Model/OpenParent.vos Model/OpenParent.vok Model/OpenParent.required_vos: Model/OpenParent.v Base/Plan.vos
Model/Qcow2.vo Model/Qcow2.glob Model/Qcow2.v.beautified Model/Qcow2.required_vo: Model/Qcow2.v Base/Arith.vo Base/Plan.vo Base/Table.vo Gen/Consts.vo Gen/Enums.vo Gen/Qcow2Fun.vo Spec/Qcow2.vo
Model/Qcow2.vio: Model/Qcow2.v Base/Arith.vio Base/Plan.vio Base/Table.vio Gen/Consts.vio Gen/Enums.vio Gen/Qcow2Fun.vio Spec/Qcow2.vio
Model/Qcow2.vos Model/Qcow2.vok Model/Qcow2.required_vos: Model/Qcow2.v Base/Arith.vos Base/Plan.vos Base/Table.vos Gen/Consts.vos Gen/Enums.vos Gen/Qcow2Fun.vos Spec/Qcow2.vos
Model/SnapChain.vo Model/SnapChain.glob Model/SnapChain.v.beautified Model/SnapChain.required_vo: Model/SnapChain.v Base/Plan.vo
Model/SnapChain.vio: Model/SnapChain.v Base/Plan.vio
Model/SnapChain.vos Model/SnapChain.vok Model/SnapChain.required_vos: Model/SnapChain.v Base/Plan.vos
Model/Text.vo Model/Text.glob Model/Text.v.beautified Model/Text.required_vo: Model/Text.v 
Model/Text.vio: Model/Text.v 
Model/Text.vos Model/Text.vok Model/Text.required_vos: Model/Text.v 
Model/Vdi.vo Model/Vdi.glob Model/Vdi.v.beautified Model/Vdi.required_vo: Model/Vdi.v Base/Plan.vo Base/Table.vo Model/Walk.vo Gen/Consts.vo
Model/Vdi.vio: Model/Vdi.v Base/Plan.vio Base/Table.vio Model/Walk.vio Gen/Consts.vio
Model/Vdi.vos Model/Vdi.vok Model/Vdi.required_vos: Model/Vdi.v Base/Plan.vos Base/Table.vos Model/Walk.vos Gen/Consts.vos
Model/Vhd.vo Model/Vhd.glob Model/Vhd.v.beautified Model/Vhd.required_vo: Model/Vhd.v Base/Arith.vo Base/Plan.vo Base/Table.vo Gen/Consts.vo
Model/Vhd.vio: Model/Vhd.v Base/Arith.vio Base/Plan.vio Base/Table.vio Gen/Consts.vio
Model/Vhd.vos Model/Vhd.vok Model/Vhd.required_vos: Model/Vhd.v Base/Arith.vos Base/Plan.vos Base/Table.vos Gen/Consts.vos
Model/Vhdx.vo Model/Vhdx.glob Model/Vhdx.v.beautified Model/Vhdx.required_vo: Model/Vhdx.v Base/Plan.vo Base/Table.vo Model/Walk.vo Gen/Consts.vo
Model/Vhdx.vio: Model/Vhdx.v Base/Plan.vio Base/Table.vio Model/Walk.vio Gen/Consts.vio
Model/Vhdx.vos Model/Vhdx.vok Model/Vhdx.required_vos: Model/Vhdx.v Base/Plan.vos Base/Table.vos Model/Walk.vos Gen/Consts.vos
Model/VmTar.vo Model/VmTar.glob Model/VmTar.v.beautified Model/VmTar.required_vo: Model/VmTar.v Base/Layout.vo Spec/VmTar.vo Gen/VmTar.vo
Model/VmTar.vio: Model/VmTar.v Base/Layout.vio Spec/VmTar.vio Gen/VmTar.vio
Model/VmTar.vos Model/VmTar.vok Model/VmTar.required_vos: Model/VmTar.v Base/Layout.vos Spec/VmTar.vos Gen/VmTar.vos
Model/Vmdk.vo Model/Vmdk.glob Model/Vmdk.v.beautified Model/Vmdk.required_vo: Model/Vmdk.v Base/Arith.vo Base/Plan.vo Base/Table.vo Base/Layout.vo Gen/Consts.vo Gen/Layouts.vo Gen/VmdkTables.vo
Model/Vmdk.vio: Model/Vmdk.v Base/Arith.vio Base/Plan.vio Base/Table.vio Base/Layout.vio Gen/Consts.vio Gen/Layouts.vio Gen/VmdkTables.vio
Model/Vmdk.vos Model/Vmdk.vok Model/Vmdk.required_vos: Model/Vmdk.v Base/Arith.vos Base/Plan.vos Base/Table.vos Base/Layout.vos Gen/Consts.vos Gen/Layouts.vos Gen/VmdkTables.vos
Model/VmdkDesc.vo Model/VmdkDesc.glob Model/VmdkDesc.v.beautified Model/VmdkDesc.required_vo: Model/VmdkDesc.v Base/Arith.vo Base/Plan.vo Base/Table.vo Model/Vmdk.vo Gen/VmdkTables.vo
Model/VmdkDesc.vio: Model/VmdkDesc.v Base/Arith.vio Base/Plan.vio Base/Table.vio Model/Vmdk.vio Gen/VmdkTables.vio
Model/VmdkDesc.vos Model/VmdkDesc.vok Model/VmdkDesc.required_vos: Model/VmdkDesc.v Base/Arith.vos Base/Plan.vos Base/Table.vos Model/Vmdk.vos Gen/VmdkTables.vos
Model/Vmx.vo Model/Vmx.glob Model/Vmx.v.beautified Model/Vmx.required_vo: Model/Vmx.v Model/Text.vo Model/XmlTree.vo Gen/DescTables.vo
Model/Vmx.vio: Model/Vmx.v Model/Text.vio Model/XmlTree.vio Gen/DescTables.vio
Model/Vmx.vos Model/Vmx.vok Model/Vmx.required_vos: Model/Vmx.v Model/Text.vos Model/XmlTree.vos Gen/DescTables.vos
Model/VmxCrypto.vo Model/VmxCrypto.glob Model/VmxCrypto.v.beautified Model/VmxCrypto.required_vo: Model/VmxCrypto.v Gen/Consts.vo
Model/VmxCrypto.vio: Model/VmxCrypto.v Gen/Consts.vio
Model/VmxCrypto.vos Model/VmxCrypto.vok Model/VmxCrypto.required_vos: Model/VmxCrypto.v Gen/Consts.vos
Model/Walk.vo Model/Walk.glob Model/Walk.v.beautified Model/Walk.required_vo: Model/Walk.v Base/Plan.vo
Model/Walk.vio: Model/Walk.v Base/Plan.vio
Model/Walk.vos Model/Walk.vok Model/Walk.required_vos: Model/Walk.v Base/Plan.vos
Model/XmlDesc.vo Model/XmlDesc.glob Model/XmlDesc.v.beautified Model/XmlDesc.required_vo: Model/XmlDesc.v Base/Plan.vo Model/Text.vo Model/XmlTree.vo Gen/DescTables.vo
Model/XmlDesc.vio: Model/XmlDesc.v Base/Plan.vio Model/Text.vio Model/XmlTree.vio Gen/DescTables.vio
Model/XmlDesc.vos Model/XmlDesc.vok Model/XmlDesc.required_vos: Model/XmlDesc.v Base/Plan.vos Model/Text.vos Model/XmlTree.vos Gen/DescTables.vos
Model/XmlEntry.vo Model/XmlEntry.glob Model/XmlEntry.v.beautified Model/XmlEntry.required_vo: Model/XmlEntry.v 
Model/XmlEntry.vio: Model/XmlEntry.v 
Model/XmlEntry.vos Model/XmlEntry.vok Model/XmlEntry.required_vos: Model/XmlEntry.v 
Model/XmlPredict.vo Model/XmlPredict.glob Model/XmlPredict.v.beautified Model/XmlPredict.required_vo: Model/XmlPredict.v Model/XmlEntry.vo Gen/XmlSites.vo
Model/XmlPredict.vio: Model/XmlPredict.v Model/XmlEntry.vio Gen/XmlSites.vio
Model/XmlPredict.vos Model/XmlPredict.vok Model/XmlPredict.required_vos: Model/XmlPredict.v Model/XmlEntry.vos Gen/XmlSites.vos
Model/XmlTree.vo Model/XmlTree.glob Model/XmlTree.v.beautified Model/XmlTree.required_vo: Model/XmlTree.v Model/Text.vo
Model/XmlTree.vio: Model/XmlTree.v Model/Text.vio
Model/XmlTree.vos Model/XmlTree.vok Model/XmlTree.required_vos: Model/XmlTree.v Model/Text.vos
Proofs/AlignedStream.vo Proofs/AlignedStream.glob Proofs/AlignedStream.v.beautified Proofs/AlignedStream.required_vo: Proofs/AlignedStream.v Base/Arith.vo Base/Plan.vo Model/AlignedStream.vo
Proofs/AlignedStream.vio: Proofs/AlignedStream.v Base/Arith.vio Base/Plan.vio Model/AlignedStream.vio
Proofs/AlignedStream.vos Proofs/AlignedStream.vok Proofs/AlignedStream.required_vos: Proofs/AlignedStream.v Base/Arith.vos Base/Plan.vos Model/AlignedStream.vos
Proofs/AlignedStreamB.vo Proofs/AlignedStreamB.glob Proofs/AlignedStreamB.v.beautified Proofs/AlignedStreamB.required_vo: Proofs/AlignedStreamB.v Base/Arith.vo Base/Plan.vo Model/AlignedStream.vo Model/AlignedStreamB.vo Proofs/AlignedStream.vo Proofs/BlockMapped.vo
Proofs/AlignedStreamB.vio: Proofs/AlignedStreamB.v Base/Arith.vio Base/Plan.vio Model/AlignedStream.vio Model/AlignedStreamB.vio Proofs/AlignedStream.vio Proofs/BlockMapped.vio
Proofs/AlignedStreamB.vos Proofs/AlignedStreamB.vok Proofs/AlignedStreamB.required_vos: Proofs/AlignedStreamB.v Base/Arith.vos Base/Plan.vos Model/AlignedStream.vos Model/AlignedStreamB.vos Proofs/AlignedStream.vos Proofs/BlockMapped.vos
Proofs/BlockMapped.vo Proofs/BlockMapped.glob Proofs/BlockMapped.v.beautified Proofs/BlockMapped.required_vo: Proofs/BlockMapped.v Base/Arith.vo Base/Plan.vo Model/Walk.vo
Proofs/BlockMapped.vio: Proofs/BlockMapped.v Base/Arith.vio Base/Plan.vio Model/Walk.vio
Proofs/BlockMapped.vos Proofs/BlockMapped.vok Proofs/BlockMapped.required_vos: Proofs/BlockMapped.v Base/Arith.vos Base/Plan.vos Model/Walk.vos
Proofs/Chain.vo Proofs/Chain.glob Proofs/Chain.v.beautified Proofs/Chain.required_vo: Proofs/Chain.v Base/Plan.vo Model/Chain.vo
Proofs/Chain.vio: Proofs/Chain.v Base/Plan.vio Model/Chain.vio
Proofs/Chain.vos Proofs/Chain.vok Proofs/Chain.required_vos: Proofs/Chain.v Base/Plan.vos Model/Chain.vos
Proofs/Effects.vo Proofs/Effects.glob Proofs/Effects.v.beautified Proofs/Effects.required_vo: Proofs/Effects.v Gen/Effects.vo Model/Effects.vo
Proofs/Effects.vio: Proofs/Effects.v Gen/Effects.vio Model/Effects.vio
Proofs/Effects.vos Proofs/Effects.vok Proofs/Effects.required_vos: Proofs/Effects.v Gen/Effects.vos Model/Effects.vos
Proofs/EnvKeystore.vo Proofs/EnvKeystore.glob Proofs/EnvKeystore.v.beautified Proofs/EnvKeystore.required_vo: Proofs/EnvKeystore.v Base/Plan.vo Model/Envelope.vo Model/EnvKeystore.vo Proofs/Envelope.vo
Proofs/EnvKeystore.vio: Proofs/EnvKeystore.v Base/Plan.vio Model/Envelope.vio Model/EnvKeystore.vio Proofs/Envelope.vio
Proofs/EnvKeystore.vos Proofs/EnvKeystore.vok Proofs/EnvKeystore.required_vos: Proofs/EnvKeystore.v Base/Plan.vos Model/Envelope.vos Model/EnvKeystore.vos Proofs/Envelope.vos
Proofs/Envelope.vo Proofs/Envelope.glob Proofs/Envelope.v.beautified Proofs/Envelope.required_vo: Proofs/Envelope.v Base/Plan.vo Base/Table.vo Base/Layout.vo Model/Envelope.vo Gen/Consts.vo Gen/Layouts.vo Gen/Enums.vo Gen/EnvelopeTables.vo
Proofs/Envelope.vio: Proofs/Envelope.v Base/Plan.vio Base/Table.vio Base/Layout.vio Model/Envelope.vio Gen/Consts.vio Gen/Layouts.vio Gen/Enums.vio Gen/EnvelopeTables.vio
Proofs/Envelope.vos Proofs/Envelope.vok Proofs/Envelope.required_vos: Proofs/Envelope.v Base/Plan.vos Base/Table.vos Base/Layout.vos Model/Envelope.vos Gen/Consts.vos Gen/Layouts.vos Gen/Enums.vos Gen/EnvelopeTables.vos
Proofs/Gates.vo Proofs/Gates.glob Proofs/Gates.v.beautified Proofs/Gates.required_vo: Proofs/Gates.v Base/Plan.vo Model/Gates.vo Gen/Consts.vo Gen/Gates.vo
Proofs/Gates.vio: Proofs/Gates.v Base/Plan.vio Model/Gates.vio Gen/Consts.vio Gen/Gates.vio
Proofs/Gates.vos Proofs/Gates.vok Proofs/Gates.required_vos: Proofs/Gates.v Base/Plan.vos Model/Gates.vos Gen/Consts.vos Gen/Gates.vos
Proofs/Hdd.vo Proofs/Hdd.glob Proofs/Hdd.v.beautified Proofs/Hdd.required_vo: Proofs/Hdd.v Base/Arith.vo Base/Plan.vo Model/Chain.vo Proofs/Chain.vo Model/Vmdk.vo Model/VmdkDesc.vo Proofs/Storage.vo Model/Hdd.vo
Proofs/Hdd.vio: Proofs/Hdd.v Base/Arith.vio Base/Plan.vio Model/Chain.vio Proofs/Chain.vio Model/Vmdk.vio Model/VmdkDesc.vio Proofs/Storage.vio Model/Hdd.vio
Proofs/Hdd.vos Proofs/Hdd.vok Proofs/Hdd.required_vos: Proofs/Hdd.v Base/Arith.vos Base/Plan.vos Model/Chain.vos Proofs/Chain.vos Model/Vmdk.vos Model/VmdkDesc.vos Proofs/Storage.vos Model/Hdd.vos
Proofs/Hds.vo Proofs/Hds.glob Proofs/Hds.v.beautified Proofs/Hds.required_vo: Proofs/Hds.v Base/Arith.vo Base/Plan.vo Base/Table.vo Model/Hds.vo Proofs/BlockMapped.vo
Proofs/Hds.vio: Proofs/Hds.v Base/Arith.vio Base/Plan.vio Base/Table.vio Model/Hds.vio Proofs/BlockMapped.vio
Proofs/Hds.vos Proofs/Hds.vok Proofs/Hds.required_vos: Proofs/Hds.v Base/Arith.vos Base/Plan.vos Base/Table.vos Model/Hds.vos Proofs/BlockMapped.vos
Proofs/HyperV.vo Proofs/HyperV.glob Proofs/HyperV.v.beautified Proofs/HyperV.required_vo: Proofs/HyperV.v Base/Arith.vo Base/Plan.vo Base/Layout.vo Base/Table.vo Model/HyperV.vo Spec/HyperV.vo
Proofs/HyperV.vio: Proofs/HyperV.v Base/Arith.vio Base/Plan.vio Base/Layout.vio Base/Table.vio Model/HyperV.vio Spec/HyperV.vio
Proofs/HyperV.vos Proofs/HyperV.vok Proofs/HyperV.required_vos: Proofs/HyperV.v Base/Arith.vos Base/Plan.vos Base/Layout.vos Base/Table.vos Model/HyperV.vos Spec/HyperV.vos
Proofs/Io.vo Proofs/Io.glob Proofs/Io.v.beautified Proofs/Io.required_vo: Proofs/Io.v Base/Arith.vo Base/Plan.vo Base/Table.vo Model/Walk.vo Model/Io.vo Proofs/BlockMapped.vo Model/Vhd.vo Proofs/Vhd.vo Model/Vdi.vo Proofs/Vdi.vo Model/Vhdx.vo Proofs/Vhdx.vo Model/Hds.vo Proofs/Hds.vo Proofs/StreamReaders.vo
Proofs/Io.vio: Proofs/Io.v Base/Arith.vio Base/Plan.vio Base/Table.vio Model/Walk.vio Model/Io.vio Proofs/BlockMapped.vio Model/Vhd.vio Proofs/Vhd.vio Model/Vdi.vio Proofs/Vdi.vio Model/Vhdx.vio Proofs/Vhdx.vio Model/Hds.vio Proofs/Hds.vio Proofs/StreamReaders.vio
Proofs/Io.vos Proofs/Io.vok Proofs/Io.required_vos: Proofs/Io.v Base/Arith.vos Base/Plan.vos Base/Table.vos Model/Walk.vos Model/Io.vos Proofs/BlockMapped.vos Model/Vhd.vos Proofs/Vhd.vos Model/Vdi.vos Proofs/Vdi.vos Model/Vhdx.vos Proofs/Vhdx.vos Model/Hds.vos Proofs/Hds.vos Proofs/StreamReaders.vos
Proofs/Layers.vo Proofs/Layers.glob Proofs/Layers.v.beautified Proofs/Layers.required_vo: Proofs/Layers.v Base/Arith.vo Base/Plan.vo Base/Table.vo Model/Walk.vo Proofs/BlockMapped.vo Model/Chain.vo Proofs/Chain.vo Model/Vdi.vo Proofs/Vdi.vo Model/Hds.vo Proofs/Hds.vo Model/Vhdx.vo Proofs/Vhdx.vo Proofs/VhdxPartial.vo Proofs/VhdxLayer.vo Model/Qcow2.vo Proofs/Qcow2.vo Proofs/Qcow2Total.vo Spec/Qcow2.vo
Proofs/Layers.vio: Proofs/Layers.v Base/Arith.vio Base/Plan.vio Base/Table.vio Model/Walk.vio Proofs/BlockMapped.vio Model/Chain.vio Proofs/Chain.vio Model/Vdi.vio Proofs/Vdi.vio Model/Hds.vio Proofs/Hds.vio Model/Vhdx.vio Proofs/Vhdx.vio Proofs/VhdxPartial.vio Proofs/VhdxLayer.vio Model/Qcow2.vio Proofs/Qcow2.vio Proofs/Qcow2Total.vio Spec/Qcow2.vio
Proofs/Layers.vos Proofs/Layers.vok Proofs/Layers.required_vos: Proofs/Layers.v Base/Arith.vos Base/Plan.vos Base/Table.vos Model/Walk.vos Proofs/BlockMapped.vos Model/Chain.vos Proofs/Chain.vos Model/Vdi.vos Proofs/Vdi.vos Model/Hds.vos Proofs/Hds.vos Model/Vhdx.vos Proofs/Vhdx.vos Proofs/VhdxPartial.vos Proofs/VhdxLayer.vos Model/Qcow2.vos Proofs/Qcow2.vos Proofs/Qcow2Total.vos Spec/Qcow2.vos
Proofs/Lru.vo Proofs/Lru.glob Proofs/Lru.v.beautified Proofs/Lru.required_vo: Proofs/Lru.v Model/Lru.vo
Proofs/Lru.vio: Proofs/Lru.v Model/Lru.vio
Proofs/Lru.vos Proofs/Lru.vok Proofs/Lru.required_vos: Proofs/Lru.v Model/Lru.vos
Proofs/LruCost.vo Proofs/LruCost.glob Proofs/LruCost.v.beautified Proofs/LruCost.required_vo: Proofs/LruCost.v Model/Lru.vo Proofs/Lru.vo
Proofs/LruCost.vio: Proofs/LruCost.v Model/Lru.vio Proofs/Lru.vio
Proofs/LruCost.vos Proofs/LruCost.vok Proofs/LruCost.required_vos: Proofs/LruCost.v Model/Lru.vos Proofs/Lru.vos
Proofs/LruMulti.vo Proofs/LruMulti.glob Proofs/LruMulti.v.beautified Proofs/LruMulti.required_vo: Proofs/LruMulti.v Model/Lru.vo Proofs/Lru.vo Proofs/LruCost.vo
Proofs/LruMulti.vio: Proofs/LruMulti.v Model/Lru.vio Proofs/Lru.vio Proofs/LruCost.vio
Proofs/LruMulti.vos Proofs/LruMulti.vok Proofs/LruMulti.required_vos: Proofs/LruMulti.v Model/Lru.vos Proofs/Lru.vos Proofs/LruCost.vos
Proofs/MetaCodec.vo Proofs/MetaCodec.glob Proofs/MetaCodec.v.beautified Proofs/MetaCodec.required_vo: Proofs/MetaCodec.v Base/Arith.vo Base/Plan.vo Base/Layout.vo Gen/Consts.vo Gen/Layouts.vo Model/MetaCodec.vo Model/MetaHdrs.vo
Proofs/MetaCodec.vio: Proofs/MetaCodec.v Base/Arith.vio Base/Plan.vio Base/Layout.vio Gen/Consts.vio Gen/Layouts.vio Model/MetaCodec.vio Model/MetaHdrs.vio
Proofs/MetaCodec.vos Proofs/MetaCodec.vok Proofs/MetaCodec.required_vos: Proofs/MetaCodec.v Base/Arith.vos Base/Plan.vos Base/Layout.vos Gen/Consts.vos Gen/Layouts.vos Model/MetaCodec.vos Model/MetaHdrs.vos
Proofs/MetaHdd.vo Proofs/MetaHdd.glob Proofs/MetaHdd.v.beautified Proofs/MetaHdd.required_vo: Proofs/MetaHdd.v Base/Plan.vo Gen/MetaHddTables.vo Model/MetaCodec.vo Model/MetaHdd.vo
Proofs/MetaHdd.vio: Proofs/MetaHdd.v Base/Plan.vio Gen/MetaHddTables.vio Model/MetaCodec.vio Model/MetaHdd.vio
Proofs/MetaHdd.vos Proofs/MetaHdd.vok Proofs/MetaHdd.required_vos: Proofs/MetaHdd.v Base/Plan.vos Gen/MetaHddTables.vos Model/MetaCodec.vos Model/MetaHdd.vos
Proofs/MetaHdrs.vo Proofs/MetaHdrs.glob Proofs/MetaHdrs.v.beautified Proofs/MetaHdrs.required_vo: Proofs/MetaHdrs.v Base/Arith.vo Base/Plan.vo Base/Layout.vo Gen/Consts.vo Gen/Layouts.vo Model/MetaCodec.vo Model/MetaHdrs.vo Model/MetaVmdk.vo Proofs/MetaCodec.vo
Proofs/MetaHdrs.vio: Proofs/MetaHdrs.v Base/Arith.vio Base/Plan.vio Base/Layout.vio Gen/Consts.vio Gen/Layouts.vio Model/MetaCodec.vio Model/MetaHdrs.vio Model/MetaVmdk.vio Proofs/MetaCodec.vio
Proofs/MetaHdrs.vos Proofs/MetaHdrs.vok Proofs/MetaHdrs.required_vos: Proofs/MetaHdrs.v Base/Arith.vos Base/Plan.vos Base/Layout.vos Gen/Consts.vos Gen/Layouts.vos Model/MetaCodec.vos Model/MetaHdrs.vos Model/MetaVmdk.vos Proofs/MetaCodec.vos
Proofs/MetaQcow2.vo Proofs/MetaQcow2.glob Proofs/MetaQcow2.v.beautified Proofs/MetaQcow2.required_vo: Proofs/MetaQcow2.v Base/Arith.vo Base/Plan.vo Base/Layout.vo Gen/Consts.vo Gen/Layouts.vo Gen/MetaQcow2Tables.vo Model/MetaCodec.vo Model/MetaQcow2.vo Proofs/MetaCodec.vo
Proofs/MetaQcow2.vio: Proofs/MetaQcow2.v Base/Arith.vio Base/Plan.vio Base/Layout.vio Gen/Consts.vio Gen/Layouts.vio Gen/MetaQcow2Tables.vio Model/MetaCodec.vio Model/MetaQcow2.vio Proofs/MetaCodec.vio
Proofs/MetaQcow2.vos Proofs/MetaQcow2.vok Proofs/MetaQcow2.required_vos: Proofs/MetaQcow2.v Base/Arith.vos Base/Plan.vos Base/Layout.vos Gen/Consts.vos Gen/Layouts.vos Gen/MetaQcow2Tables.vos Model/MetaCodec.vos Model/MetaQcow2.vos Proofs/MetaCodec.vos
Proofs/MetaText.vo Proofs/MetaText.glob Proofs/MetaText.v.beautified Proofs/MetaText.required_vo: Proofs/MetaText.v Base/Plan.vo Model/MetaCodec.vo
Proofs/MetaText.vio: Proofs/MetaText.v Base/Plan.vio Model/MetaCodec.vio
Proofs/MetaText.vos Proofs/MetaText.vok Proofs/MetaText.required_vos: Proofs/MetaText.v Base/Plan.vos Model/MetaCodec.vos
Proofs/MetaVhdx.vo Proofs/MetaVhdx.glob Proofs/MetaVhdx.v.beautified Proofs/MetaVhdx.required_vo: Proofs/MetaVhdx.v Base/Arith.vo Base/Plan.vo Base/Layout.vo Gen/Consts.vo Gen/Layouts.vo Model/MetaCodec.vo Model/MetaVhdx.vo Proofs/MetaCodec.vo Proofs/MetaText.vo
Proofs/MetaVhdx.vio: Proofs/MetaVhdx.v Base/Arith.vio Base/Plan.vio Base/Layout.vio Gen/Consts.vio Gen/Layouts.vio Model/MetaCodec.vio Model/MetaVhdx.vio Proofs/MetaCodec.vio Proofs/MetaText.vio
Proofs/MetaVhdx.vos Proofs/MetaVhdx.vok Proofs/MetaVhdx.required_vos: Proofs/MetaVhdx.v Base/Arith.vos Base/Plan.vos Base/Layout.vos Gen/Consts.vos Gen/Layouts.vos Model/MetaCodec.vos Model/MetaVhdx.vos Proofs/MetaCodec.vos Proofs/MetaText.vos
Proofs/MetaVmdk.vo Proofs/MetaVmdk.glob Proofs/MetaVmdk.v.beautified Proofs/MetaVmdk.required_vo: Proofs/MetaVmdk.v Base/Plan.vo Gen/MetaVmdkTables.vo Model/MetaCodec.vo Model/MetaVmdk.vo
Proofs/MetaVmdk.vio: Proofs/MetaVmdk.v Base/Plan.vio Gen/MetaVmdkTables.vio Model/MetaCodec.vio Model/MetaVmdk.vio
Proofs/MetaVmdk.vos Proofs/MetaVmdk.vok Proofs/MetaVmdk.required_vos: Proofs/MetaVmdk.v Base/Plan.vos Gen/MetaVmdkTables.vos Model/MetaCodec.vos Model/MetaVmdk.vos
Proofs/MetaVmdkExt.vo Proofs/MetaVmdkExt.glob Proofs/MetaVmdkExt.v.beautified Proofs/MetaVmdkExt.required_vo: Proofs/MetaVmdkExt.v Base/Plan.vo Gen/MetaVmdkTables.vo Model/MetaCodec.vo Model/MetaVmdk.vo Proofs/MetaVmdk.vo
Proofs/MetaVmdkExt.vio: Proofs/MetaVmdkExt.v Base/Plan.vio Gen/MetaVmdkTables.vio Model/MetaCodec.vio Model/MetaVmdk.vio Proofs/MetaVmdk.vio
Proofs/MetaVmdkExt.vos Proofs/MetaVmdkExt.vok Proofs/MetaVmdkExt.required_vos: Proofs/MetaVmdkExt.v Base/Plan.vos Gen/MetaVmdkTables.vos Model/MetaCodec.vos Model/MetaVmdk.vos Proofs/MetaVmdk.vos
Proofs/OpenParent.vo Proofs/OpenParent.glob Proofs/OpenParent.v.beautified Proofs/OpenParent.required_vo: Proofs/OpenParent.v Base/Plan.vo Model/OpenParent.vo
Proofs/OpenParent.vio: Proofs/OpenParent.v Base/Plan.vio Model/OpenParent.vio
Proofs/OpenParent.vos Proofs/OpenParent.vok Proofs/OpenParent.required_vos: Proofs/OpenParent.v Base/Plan.vos Model/OpenParent.vos
Proofs/Qcow2.vo Proofs/Qcow2.glob Proofs/Qcow2.v.beautified Proofs/Qcow2.required_vo: Proofs/Qcow2.v Base/Arith.vo Base/Plan.vo Base/Table.vo Gen/Consts.vo Gen/Enums.vo Gen/Qcow2Fun.vo Spec/Qcow2.vo Model/Qcow2.vo Proofs/Qcow2Bits.vo Proofs/Qcow2Class.vo
Proofs/Qcow2.vio: Proofs/Qcow2.v Base/Arith.vio Base/Plan.vio Base/Table.vio Gen/Consts.vio Gen/Enums.vio Gen/Qcow2Fun.vio Spec/Qcow2.vio Model/Qcow2.vio Proofs/Qcow2Bits.vio Proofs/Qcow2Class.vio
Proofs/Qcow2.vos Proofs/Qcow2.vok Proofs/Qcow2.required_vos: Proofs/Qcow2.v Base/Arith.vos Base/Plan.vos Base/Table.vos Gen/Consts.vos Gen/Enums.vos Gen/Qcow2Fun.vos Spec/Qcow2.vos Model/Qcow2.vos Proofs/Qcow2Bits.vos Proofs/Qcow2Class.vos
Proofs/Qcow2Bits.vo Proofs/Qcow2Bits.glob Proofs/Qcow2Bits.v.beautified Proofs/Qcow2Bits.required_vo: Proofs/Qcow2Bits.v Base/Arith.vo Base/Plan.vo Base/Table.vo Gen/Consts.vo Gen/Enums.vo Gen/Qcow2Fun.vo Spec/Qcow2.vo Model/Qcow2.vo
Proofs/Qcow2Bits.vio: Proofs/Qcow2Bits.v Base/Arith.vio Base/Plan.vio Base/Table.vio Gen/Consts.vio Gen/Enums.vio Gen/Qcow2Fun.vio Spec/Qcow2.vio Model/Qcow2.vio
Proofs/Qcow2Bits.vos Proofs/Qcow2Bits.vok Proofs/Qcow2Bits.required_vos: Proofs/Qcow2Bits.v Base/Arith.vos Base/Plan.vos Base/Table.vos Gen/Consts.vos Gen/Enums.vos Gen/Qcow2Fun.vos Spec/Qcow2.vos Model/Qcow2.vos
Proofs/Qcow2Class.vo Proofs/Qcow2Class.glob Proofs/Qcow2Class.v.beautified Proofs/Qcow2Class.required_vo: Proofs/Qcow2Class.v Base/Arith.vo Base/Plan.vo Base/Table.vo Gen/Consts.vo Gen/Enums.vo Gen/Qcow2Fun.vo Spec/Qcow2.vo Model/Qcow2.vo Proofs/Qcow2Bits.vo
Proofs/Qcow2Class.vio: Proofs/Qcow2Class.v Base/Arith.vio Base/Plan.vio Base/Table.vio Gen/Consts.vio Gen/Enums.vio Gen/Qcow2Fun.vio Spec/Qcow2.vio Model/Qcow2.vio Proofs/Qcow2Bits.vio
Proofs/Qcow2Class.vos Proofs/Qcow2Class.vok Proofs/Qcow2Class.required_vos: Proofs/Qcow2Class.v Base/Arith.vos Base/Plan.vos Base/Table.vos Gen/Consts.vos Gen/Enums.vos Gen/Qcow2Fun.vos Spec/Qcow2.vos Model/Qcow2.vos Proofs/Qcow2Bits.vos
Proofs/Qcow2Total.vo Proofs/Qcow2Total.glob Proofs/Qcow2Total.v.beautified Proofs/Qcow2Total.required_vo: Proofs/Qcow2Total.v Base/Arith.vo Base/Plan.vo Base/Table.vo Gen/Consts.vo Gen/Enums.vo Gen/Qcow2Fun.vo Spec/Qcow2.vo Model/Qcow2.vo Proofs/Qcow2Bits.vo Proofs/Qcow2Class.vo Proofs/Qcow2.vo
Proofs/Qcow2Total.vio: Proofs/Qcow2Total.v Base/Arith.vio Base/Plan.vio Base/Table.vio Gen/Consts.vio Gen/Enums.vio Gen/Qcow2Fun.vio Spec/Qcow2.vio Model/Qcow2.vio Proofs/Qcow2Bits.vio Proofs/Qcow2Class.vio Proofs/Qcow2.vio
Proofs/Qcow2Total.vos Proofs/Qcow2Total.vok Proofs/Qcow2Total.required_vos: Proofs/Qcow2Total.v Base/Arith.vos Base/Plan.vos Base/Table.vos Gen/Consts.vos Gen/Enums.vos Gen/Qcow2Fun.vos Spec/Qcow2.vos Model/Qcow2.vos Proofs/Qcow2Bits.vos Proofs/Qcow2Class.vos Proofs/Qcow2.vos
Proofs/SnapChain.vo Proofs/SnapChain.glob Proofs/SnapChain.v.beautified Proofs/SnapChain.required_vo: Proofs/SnapChain.v Base/Plan.vo Model/SnapChain.vo
Proofs/SnapChain.vio: Proofs/SnapChain.v Base/Plan.vio Model/SnapChain.vio
Proofs/SnapChain.vos Proofs/SnapChain.vok Proofs/SnapChain.required_vos: Proofs/SnapChain.v Base/Plan.vos Model/SnapChain.vos
Proofs/Storage.vo Proofs/Storage.glob Proofs/Storage.v.beautified Proofs/Storage.required_vo: Proofs/Storage.v Base/Arith.vo Base/Plan.vo Base/Table.vo Model/Vmdk.vo Model/VmdkDesc.vo Proofs/VmdkDesc.vo
Proofs/Storage.vio: Proofs/Storage.v Base/Arith.vio Base/Plan.vio Base/Table.vio Model/Vmdk.vio Model/VmdkDesc.vio Proofs/VmdkDesc.vio
Proofs/Storage.vos Proofs/Storage.vok Proofs/Storage.required_vos: Proofs/Storage.v Base/Arith.vos Base/Plan.vos Base/Table.vos Model/Vmdk.vos Model/VmdkDesc.vos Proofs/VmdkDesc.vos
Proofs/StreamBytes.vo Proofs/StreamBytes.glob Proofs/StreamBytes.v.beautified Proofs/StreamBytes.required_vo: Proofs/StreamBytes.v Base/Arith.vo Base/Plan.vo Model/AlignedStream.vo Model/AlignedStreamB.vo Proofs/AlignedStream.vo Proofs/AlignedStreamB.vo Proofs/BlockMapped.vo Proofs/StreamReaders.vo Base/Table.vo Model/Vhd.vo Proofs/Vhd.vo Model/Vdi.vo Proofs/Vdi.vo Model/Vhdx.vo Proofs/Vhdx.vo Model/Hds.vo Proofs/Hds.vo Model/Qcow2.vo Proofs/Qcow2.vo Spec/Qcow2.vo Model/Vmdk.vo Proofs/Vmdk.vo
Proofs/StreamBytes.vio: Proofs/StreamBytes.v Base/Arith.vio Base/Plan.vio Model/AlignedStream.vio Model/AlignedStreamB.vio Proofs/AlignedStream.vio Proofs/AlignedStreamB.vio Proofs/BlockMapped.vio Proofs/StreamReaders.vio Base/Table.vio Model/Vhd.vio Proofs/Vhd.vio Model/Vdi.vio Proofs/Vdi.vio Model/Vhdx.vio Proofs/Vhdx.vio Model/Hds.vio Proofs/Hds.vio Model/Qcow2.vio Proofs/Qcow2.vio Spec/Qcow2.vio Model/Vmdk.vio Proofs/Vmdk.vio
Proofs/StreamBytes.vos Proofs/StreamBytes.vok Proofs/StreamBytes.required_vos: Proofs/StreamBytes.v Base/Arith.vos Base/Plan.vos Model/AlignedStream.vos Model/AlignedStreamB.vos Proofs/AlignedStream.vos Proofs/AlignedStreamB.vos Proofs/BlockMapped.vos Proofs/StreamReaders.vos Base/Table.vos Model/Vhd.vos Proofs/Vhd.vos Model/Vdi.vos Proofs/Vdi.vos Model/Vhdx.vos Proofs/Vhdx.vos Model/Hds.vos Proofs/Hds.vos Model/Qcow2.vos Proofs/Qcow2.vos Spec/Qcow2.vos Model/Vmdk.vos Proofs/Vmdk.vos
Proofs/StreamReaders.vo Proofs/StreamReaders.glob Proofs/StreamReaders.v.beautified Proofs/StreamReaders.required_vo: Proofs/StreamReaders.v Base/Arith.vo Base/Plan.vo Base/Table.vo Model/AlignedStream.vo Proofs/AlignedStream.vo Model/Walk.vo Proofs/BlockMapped.vo Model/Vhd.vo Proofs/Vhd.vo Model/Vdi.vo Proofs/Vdi.vo Model/Vhdx.vo Proofs/Vhdx.vo Model/Hds.vo Proofs/Hds.vo Model/Qcow2.vo Proofs/Qcow2.vo Proofs/Qcow2Total.vo Spec/Qcow2.vo Model/Vmdk.vo Proofs/Vmdk.vo
Proofs/StreamReaders.vio: Proofs/StreamReaders.v Base/Arith.vio Base/Plan.vio Base/Table.vio Model/AlignedStream.vio Proofs/AlignedStream.vio Model/Walk.vio Proofs/BlockMapped.vio Model/Vhd.vio Proofs/Vhd.vio Model/Vdi.vio Proofs/Vdi.vio Model/Vhdx.vio Proofs/Vhdx.vio Model/Hds.vio Proofs/Hds.vio Model/Qcow2.vio Proofs/Qcow2.vio Proofs/Qcow2Total.vio Spec/Qcow2.vio Model/Vmdk.vio Proofs/Vmdk.vio
Proofs/StreamReaders.vos Proofs/StreamReaders.vok Proofs/StreamReaders.required_vos: Proofs/StreamReaders.v Base/Arith.vos Base/Plan.vos Base/Table.vos Model/AlignedStream.vos Proofs/AlignedStream.vos Model/Walk.vos Proofs/BlockMapped.vos Model/Vhd.vos Proofs/Vhd.vos Model/Vdi.vos Proofs/Vdi.vos Model/Vhdx.vos Proofs/Vhdx.vos Model/Hds.vos Proofs/Hds.vos Model/Qcow2.vos Proofs/Qcow2.vos Proofs/Qcow2Total.vos Spec/Qcow2.vos Model/Vmdk.vos Proofs/Vmdk.vos
Proofs/Text.vo Proofs/Text.glob Proofs/Text.v.beautified Proofs/Text.required_vo: Proofs/Text.v Model/Text.vo
Proofs/Text.vio: Proofs/Text.v Model/Text.vio
Proofs/Text.vos Proofs/Text.vok Proofs/Text.required_vos: Proofs/Text.v Model/Text.vos
Proofs/Vdi.vo Proofs/Vdi.glob Proofs/Vdi.v.beautified Proofs/Vdi.required_vo: Proofs/Vdi.v Base/Arith.vo Base/Plan.vo Base/Table.vo Model/Walk.vo Model/Vdi.vo Proofs/BlockMapped.vo
Proofs/Vdi.vio: Proofs/Vdi.v Base/Arith.vio Base/Plan.vio Base/Table.vio Model/Walk.vio Model/Vdi.vio Proofs/BlockMapped.vio
Proofs/Vdi.vos Proofs/Vdi.vok Proofs/Vdi.required_vos: Proofs/Vdi.v Base/Arith.vos Base/Plan.vos Base/Table.vos Model/Walk.vos Model/Vdi.vos Proofs/BlockMapped.vos
Proofs/Vhd.vo Proofs/Vhd.glob Proofs/Vhd.v.beautified Proofs/Vhd.required_vo: Proofs/Vhd.v Base/Arith.vo Base/Plan.vo Base/Table.vo Model/Vhd.vo
Proofs/Vhd.vio: Proofs/Vhd.v Base/Arith.vio Base/Plan.vio Base/Table.vio Model/Vhd.vio
Proofs/Vhd.vos Proofs/Vhd.vok Proofs/Vhd.required_vos: Proofs/Vhd.v Base/Arith.vos Base/Plan.vos Base/Table.vos Model/Vhd.vos
Proofs/Vhdx.vo Proofs/Vhdx.glob Proofs/Vhdx.v.beautified Proofs/Vhdx.required_vo: Proofs/Vhdx.v Base/Arith.vo Base/Plan.vo Base/Table.vo Base/Layout.vo Model/Walk.vo Model/Vhdx.vo Proofs/BlockMapped.vo Gen/Layouts.vo
Proofs/Vhdx.vio: Proofs/Vhdx.v Base/Arith.vio Base/Plan.vio Base/Table.vio Base/Layout.vio Model/Walk.vio Model/Vhdx.vio Proofs/BlockMapped.vio Gen/Layouts.vio
Proofs/Vhdx.vos Proofs/Vhdx.vok Proofs/Vhdx.required_vos: Proofs/Vhdx.v Base/Arith.vos Base/Plan.vos Base/Table.vos Base/Layout.vos Model/Walk.vos Model/Vhdx.vos Proofs/BlockMapped.vos Gen/Layouts.vos
Proofs/VhdxLayer.vo Proofs/VhdxLayer.glob Proofs/VhdxLayer.v.beautified Proofs/VhdxLayer.required_vo: Proofs/VhdxLayer.v Base/Arith.vo Base/Plan.vo Base/Table.vo Model/Walk.vo Proofs/BlockMapped.vo Model/Vhdx.vo Proofs/Vhdx.vo Proofs/VhdxPartial.vo Model/Chain.vo Proofs/Chain.vo
Proofs/VhdxLayer.vio: Proofs/VhdxLayer.v Base/Arith.vio Base/Plan.vio Base/Table.vio Model/Walk.vio Proofs/BlockMapped.vio Model/Vhdx.vio Proofs/Vhdx.vio Proofs/VhdxPartial.vio Model/Chain.vio Proofs/Chain.vio
Proofs/VhdxLayer.vos Proofs/VhdxLayer.vok Proofs/VhdxLayer.required_vos: Proofs/VhdxLayer.v Base/Arith.vos Base/Plan.vos Base/Table.vos Model/Walk.vos Proofs/BlockMapped.vos Model/Vhdx.vos Proofs/Vhdx.vos Proofs/VhdxPartial.vos Model/Chain.vos Proofs/Chain.vos
Proofs/VhdxPartial.vo Proofs/VhdxPartial.glob Proofs/VhdxPartial.v.beautified Proofs/VhdxPartial.required_vo: Proofs/VhdxPartial.v Base/Arith.vo Base/Plan.vo Base/Table.vo Model/Vhdx.vo
Proofs/VhdxPartial.vio: Proofs/VhdxPartial.v Base/Arith.vio Base/Plan.vio Base/Table.vio Model/Vhdx.vio
Proofs/VhdxPartial.vos Proofs/VhdxPartial.vok Proofs/VhdxPartial.required_vos: Proofs/VhdxPartial.v Base/Arith.vos Base/Plan.vos Base/Table.vos Model/Vhdx.vos
Proofs/VmTar.vo Proofs/VmTar.glob Proofs/VmTar.v.beautified Proofs/VmTar.required_vo: Proofs/VmTar.v Base/Layout.vo Spec/VmTar.vo Model/VmTar.vo Gen/VmTar.vo Base/Arith.vo
Proofs/VmTar.vio: Proofs/VmTar.v Base/Layout.vio Spec/VmTar.vio Model/VmTar.vio Gen/VmTar.vio Base/Arith.vio
Proofs/VmTar.vos Proofs/VmTar.vok Proofs/VmTar.required_vos: Proofs/VmTar.v Base/Layout.vos Spec/VmTar.vos Model/VmTar.vos Gen/VmTar.vos Base/Arith.vos
Proofs/Vmdk.vo Proofs/Vmdk.glob Proofs/Vmdk.v.beautified Proofs/Vmdk.required_vo: Proofs/Vmdk.v Base/Arith.vo Base/Plan.vo Base/Table.vo Base/Layout.vo Model/Vmdk.vo
Proofs/Vmdk.vio: Proofs/Vmdk.v Base/Arith.vio Base/Plan.vio Base/Table.vio Base/Layout.vio Model/Vmdk.vio
Proofs/Vmdk.vos Proofs/Vmdk.vok Proofs/Vmdk.required_vos: Proofs/Vmdk.v Base/Arith.vos Base/Plan.vos Base/Table.vos Base/Layout.vos Model/Vmdk.vos
Proofs/VmdkDesc.vo Proofs/VmdkDesc.glob Proofs/VmdkDesc.v.beautified Proofs/VmdkDesc.required_vo: Proofs/VmdkDesc.v Base/Arith.vo Base/Plan.vo Base/Table.vo Model/Vmdk.vo Model/VmdkDesc.vo Proofs/Vmdk.vo
Proofs/VmdkDesc.vio: Proofs/VmdkDesc.v Base/Arith.vio Base/Plan.vio Base/Table.vio Model/Vmdk.vio Model/VmdkDesc.vio Proofs/Vmdk.vio
Proofs/VmdkDesc.vos Proofs/VmdkDesc.vok Proofs/VmdkDesc.required_vos: Proofs/VmdkDesc.v Base/Arith.vos Base/Plan.vos Base/Table.vos Model/Vmdk.vos Model/VmdkDesc.vos Proofs/Vmdk.vos
Proofs/VmdkLayer.vo Proofs/VmdkLayer.glob Proofs/VmdkLayer.v.beautified Proofs/VmdkLayer.required_vo: Proofs/VmdkLayer.v Base/Arith.vo Base/Plan.vo Base/Table.vo Model/Chain.vo Proofs/Chain.vo Model/Vmdk.vo Proofs/Vmdk.vo
Proofs/VmdkLayer.vio: Proofs/VmdkLayer.v Base/Arith.vio Base/Plan.vio Base/Table.vio Model/Chain.vio Proofs/Chain.vio Model/Vmdk.vio Proofs/Vmdk.vio
Proofs/VmdkLayer.vos Proofs/VmdkLayer.vok Proofs/VmdkLayer.required_vos: Proofs/VmdkLayer.v Base/Arith.vos Base/Plan.vos Base/Table.vos Model/Chain.vos Proofs/Chain.vos Model/Vmdk.vos Proofs/Vmdk.vos
Proofs/VmdkTotal.vo Proofs/VmdkTotal.glob Proofs/VmdkTotal.v.beautified Proofs/VmdkTotal.required_vo: Proofs/VmdkTotal.v Base/Arith.vo Base/Plan.vo Base/Table.vo Model/Vmdk.vo Model/VmdkDesc.vo Proofs/Vmdk.vo Proofs/VmdkDesc.vo
Proofs/VmdkTotal.vio: Proofs/VmdkTotal.v Base/Arith.vio Base/Plan.vio Base/Table.vio Model/Vmdk.vio Model/VmdkDesc.vio Proofs/Vmdk.vio Proofs/VmdkDesc.vio
Proofs/VmdkTotal.vos Proofs/VmdkTotal.vok Proofs/VmdkTotal.required_vos: Proofs/VmdkTotal.v Base/Arith.vos Base/Plan.vos Base/Table.vos Model/Vmdk.vos Model/VmdkDesc.vos Proofs/Vmdk.vos Proofs/VmdkDesc.vos
Proofs/Vmx.vo Proofs/Vmx.glob Proofs/Vmx.v.beautified Proofs/Vmx.required_vo: Proofs/Vmx.v Model/Text.vo Model/XmlTree.vo Gen/DescTables.vo Model/Vmx.vo Proofs/Text.vo
Proofs/Vmx.vio: Proofs/Vmx.v Model/Text.vio Model/XmlTree.vio Gen/DescTables.vio Model/Vmx.vio Proofs/Text.vio
Proofs/Vmx.vos Proofs/Vmx.vok Proofs/Vmx.required_vos: Proofs/Vmx.v Model/Text.vos Model/XmlTree.vos Gen/DescTables.vos Model/Vmx.vos Proofs/Text.vos
Proofs/VmxCodec.vo Proofs/VmxCodec.glob Proofs/VmxCodec.v.beautified Proofs/VmxCodec.required_vo: Proofs/VmxCodec.v Base/Plan.vo Model/VmxCrypto.vo Proofs/VmxCrypto.vo
Proofs/VmxCodec.vio: Proofs/VmxCodec.v Base/Plan.vio Model/VmxCrypto.vio Proofs/VmxCrypto.vio
Proofs/VmxCodec.vos Proofs/VmxCodec.vok Proofs/VmxCodec.required_vos: Proofs/VmxCodec.v Base/Plan.vos Model/VmxCrypto.vos Proofs/VmxCrypto.vos
Proofs/VmxCrypto.vo Proofs/VmxCrypto.glob Proofs/VmxCrypto.v.beautified Proofs/VmxCrypto.required_vo: Proofs/VmxCrypto.v Model/VmxCrypto.vo
Proofs/VmxCrypto.vio: Proofs/VmxCrypto.v Model/VmxCrypto.vio
Proofs/VmxCrypto.vos Proofs/VmxCrypto.vok Proofs/VmxCrypto.required_vos: Proofs/VmxCrypto.v Model/VmxCrypto.vos
Proofs/XmlDesc.vo Proofs/XmlDesc.glob Proofs/XmlDesc.v.beautified Proofs/XmlDesc.required_vo: Proofs/XmlDesc.v Base/Plan.vo Model/Text.vo Model/XmlTree.vo Gen/DescTables.vo Model/XmlDesc.vo Proofs/Text.vo
Proofs/XmlDesc.vio: Proofs/XmlDesc.v Base/Plan.vio Model/Text.vio Model/XmlTree.vio Gen/DescTables.vio Model/XmlDesc.vio Proofs/Text.vio
Proofs/XmlDesc.vos Proofs/XmlDesc.vok Proofs/XmlDesc.required_vos: Proofs/XmlDesc.v Base/Plan.vos Model/Text.vos Model/XmlTree.vos Gen/DescTables.vos Model/XmlDesc.vos Proofs/Text.vos
Proofs/XmlEntry.vo Proofs/XmlEntry.glob Proofs/XmlEntry.v.beautified Proofs/XmlEntry.required_vo: Proofs/XmlEntry.v Model/XmlEntry.vo Gen/XmlSites.vo
Proofs/XmlEntry.vio: Proofs/XmlEntry.v Model/XmlEntry.vio Gen/XmlSites.vio
Proofs/XmlEntry.vos Proofs/XmlEntry.vok Proofs/XmlEntry.required_vos: Proofs/XmlEntry.v Model/XmlEntry.vos Gen/XmlSites.vos
Props/C01.vo Props/C01.glob Props/C01.v.beautified Props/C01.required_vo: Props/C01.v Base/Plan.vo Base/Table.vo Gen/Consts.vo Gen/Qcow2Fun.vo Spec/Qcow2.vo Model/Qcow2.vo Proofs/Qcow2Bits.vo Proofs/Qcow2Class.vo Proofs/Qcow2.vo Proofs/Qcow2Total.vo
Props/C01.vio: Props/C01.v Base/Plan.vio Base/Table.vio Gen/Consts.vio Gen/Qcow2Fun.vio Spec/Qcow2.vio Model/Qcow2.vio Proofs/Qcow2Bits.vio Proofs/Qcow2Class.vio Proofs/Qcow2.vio Proofs/Qcow2Total.vio
Props/C01.vos Props/C01.vok Props/C01.required_vos: Props/C01.v Base/Plan.vos Base/Table.vos Gen/Consts.vos Gen/Qcow2Fun.vos Spec/Qcow2.vos Model/Qcow2.vos Proofs/Qcow2Bits.vos Proofs/Qcow2Class.vos Proofs/Qcow2.vos Proofs/Qcow2Total.vos
Props/C02.vo Props/C02.glob Props/C02.v.beautified Props/C02.required_vo: Props/C02.v Base/Plan.vo Base/Table.vo Model/Vmdk.vo Proofs/Vmdk.vo
Props/C02.vio: Props/C02.v Base/Plan.vio Base/Table.vio Model/Vmdk.vio Proofs/Vmdk.vio
Props/C02.vos Props/C02.vok Props/C02.required_vos: Props/C02.v Base/Plan.vos Base/Table.vos Model/Vmdk.vos Proofs/Vmdk.vos
Props/C03.vo Props/C03.glob Props/C03.v.beautified Props/C03.required_vo: Props/C03.v Base/Plan.vo Base/Table.vo Model/Vhdx.vo Proofs/Vhdx.vo
Props/C03.vio: Props/C03.v Base/Plan.vio Base/Table.vio Model/Vhdx.vio Proofs/Vhdx.vio
Props/C03.vos Props/C03.vok Props/C03.required_vos: Props/C03.v Base/Plan.vos Base/Table.vos Model/Vhdx.vos Proofs/Vhdx.vos
Props/C04.vo Props/C04.glob Props/C04.v.beautified Props/C04.required_vo: Props/C04.v Base/Plan.vo Base/Table.vo Model/Vhd.vo Proofs/Vhd.vo
Props/C04.vio: Props/C04.v Base/Plan.vio Base/Table.vio Model/Vhd.vio Proofs/Vhd.vio
Props/C04.vos Props/C04.vok Props/C04.required_vos: Props/C04.v Base/Plan.vos Base/Table.vos Model/Vhd.vos Proofs/Vhd.vos
Props/C05.vo Props/C05.glob Props/C05.v.beautified Props/C05.required_vo: Props/C05.v Base/Plan.vo Base/Table.vo Model/Vdi.vo Proofs/Vdi.vo
Props/C05.vio: Props/C05.v Base/Plan.vio Base/Table.vio Model/Vdi.vio Proofs/Vdi.vio
Props/C05.vos Props/C05.vok Props/C05.required_vos: Props/C05.v Base/Plan.vos Base/Table.vos Model/Vdi.vos Proofs/Vdi.vos
Props/C06.vo Props/C06.glob Props/C06.v.beautified Props/C06.required_vo: Props/C06.v Base/Plan.vo Base/Table.vo Model/Hds.vo Proofs/Hds.vo Model/Chain.vo Proofs/Chain.vo Proofs/Layers.vo Proofs/Storage.vo Model/Hdd.vo Proofs/Hdd.vo
Props/C06.vio: Props/C06.v Base/Plan.vio Base/Table.vio Model/Hds.vio Proofs/Hds.vio Model/Chain.vio Proofs/Chain.vio Proofs/Layers.vio Proofs/Storage.vio Model/Hdd.vio Proofs/Hdd.vio
Props/C06.vos Props/C06.vok Props/C06.required_vos: Props/C06.v Base/Plan.vos Base/Table.vos Model/Hds.vos Proofs/Hds.vos Model/Chain.vos Proofs/Chain.vos Proofs/Layers.vos Proofs/Storage.vos Model/Hdd.vos Proofs/Hdd.vos
Props/C07.vo Props/C07.glob Props/C07.v.beautified Props/C07.required_vo: Props/C07.v Model/Qcow2.vo Proofs/Qcow2.vo Spec/Qcow2.vo Base/Plan.vo Base/Table.vo Model/Chain.vo Proofs/Chain.vo Proofs/Layers.vo Model/Vdi.vo Proofs/Vdi.vo Model/Hds.vo Proofs/Hds.vo Model/Vhdx.vo Proofs/Vhdx.vo Proofs/VhdxPartial.vo Proofs/VhdxLayer.vo Model/OpenParent.vo Proofs/OpenParent.vo Model/Vmdk.vo Proofs/Vmdk.vo Proofs/VmdkLayer.vo Proofs/Storage.vo Model/Hdd.vo Proofs/Hdd.vo
Props/C07.vio: Props/C07.v Model/Qcow2.vio Proofs/Qcow2.vio Spec/Qcow2.vio Base/Plan.vio Base/Table.vio Model/Chain.vio Proofs/Chain.vio Proofs/Layers.vio Model/Vdi.vio Proofs/Vdi.vio Model/Hds.vio Proofs/Hds.vio Model/Vhdx.vio Proofs/Vhdx.vio Proofs/VhdxPartial.vio Proofs/VhdxLayer.vio Model/OpenParent.vio Proofs/OpenParent.vio Model/Vmdk.vio Proofs/Vmdk.vio Proofs/VmdkLayer.vio Proofs/Storage.vio Model/Hdd.vio Proofs/Hdd.vio
Props/C07.vos Props/C07.vok Props/C07.required_vos: Props/C07.v Model/Qcow2.vos Proofs/Qcow2.vos Spec/Qcow2.vos Base/Plan.vos Base/Table.vos Model/Chain.vos Proofs/Chain.vos Proofs/Layers.vos Model/Vdi.vos Proofs/Vdi.vos Model/Hds.vos Proofs/Hds.vos Model/Vhdx.vos Proofs/Vhdx.vos Proofs/VhdxPartial.vos Proofs/VhdxLayer.vos Model/OpenParent.vos Proofs/OpenParent.vos Model/Vmdk.vos Proofs/Vmdk.vos Proofs/VmdkLayer.vos Proofs/Storage.vos Model/Hdd.vos Proofs/Hdd.vos
Props/C08.vo Props/C08.glob Props/C08.v.beautified Props/C08.required_vo: Props/C08.v Model/Qcow2.vo Proofs/Qcow2.vo Spec/Qcow2.vo Model/Vmdk.vo Proofs/Vmdk.vo Base/Plan.vo Base/Table.vo Model/AlignedStream.vo Proofs/AlignedStream.vo Model/Lru.vo Proofs/Lru.vo Proofs/StreamReaders.vo Model/AlignedStreamB.vo Proofs/AlignedStreamB.vo Proofs/StreamBytes.vo Model/Vhd.vo Proofs/Vhd.vo Model/Vdi.vo Proofs/Vdi.vo Model/Vhdx.vo Proofs/Vhdx.vo Model/Hds.vo Proofs/Hds.vo
Props/C08.vio: Props/C08.v Model/Qcow2.vio Proofs/Qcow2.vio Spec/Qcow2.vio Model/Vmdk.vio Proofs/Vmdk.vio Base/Plan.vio Base/Table.vio Model/AlignedStream.vio Proofs/AlignedStream.vio Model/Lru.vio Proofs/Lru.vio Proofs/StreamReaders.vio Model/AlignedStreamB.vio Proofs/AlignedStreamB.vio Proofs/StreamBytes.vio Model/Vhd.vio Proofs/Vhd.vio Model/Vdi.vio Proofs/Vdi.vio Model/Vhdx.vio Proofs/Vhdx.vio Model/Hds.vio Proofs/Hds.vio
Props/C08.vos Props/C08.vok Props/C08.required_vos: Props/C08.v Model/Qcow2.vos Proofs/Qcow2.vos Spec/Qcow2.vos Model/Vmdk.vos Proofs/Vmdk.vos Base/Plan.vos Base/Table.vos Model/AlignedStream.vos Proofs/AlignedStream.vos Model/Lru.vos Proofs/Lru.vos Proofs/StreamReaders.vos Model/AlignedStreamB.vos Proofs/AlignedStreamB.vos Proofs/StreamBytes.vos Model/Vhd.vos Proofs/Vhd.vos Model/Vdi.vos Proofs/Vdi.vos Model/Vhdx.vos Proofs/Vhdx.vos Model/Hds.vos Proofs/Hds.vos
Props/C09.vo Props/C09.glob Props/C09.v.beautified Props/C09.required_vo: Props/C09.v Gen/Effects.vo Model/Effects.vo Proofs/Effects.vo
Props/C09.vio: Props/C09.v Gen/Effects.vio Model/Effects.vio Proofs/Effects.vio
Props/C09.vos Props/C09.vok Props/C09.required_vos: Props/C09.v Gen/Effects.vos Model/Effects.vos Proofs/Effects.vos
Props/C10.vo Props/C10.glob Props/C10.v.beautified Props/C10.required_vo: Props/C10.v Base/Plan.vo Base/Table.vo Model/Vmdk.vo Model/VmdkDesc.vo Proofs/Vmdk.vo Proofs/VmdkDesc.vo Proofs/Storage.vo Proofs/VmdkTotal.vo Model/Chain.vo Proofs/Chain.vo Model/Hdd.vo Proofs/Hdd.vo
Props/C10.vio: Props/C10.v Base/Plan.vio Base/Table.vio Model/Vmdk.vio Model/VmdkDesc.vio Proofs/Vmdk.vio Proofs/VmdkDesc.vio Proofs/Storage.vio Proofs/VmdkTotal.vio Model/Chain.vio Proofs/Chain.vio Model/Hdd.vio Proofs/Hdd.vio
Props/C10.vos Props/C10.vok Props/C10.required_vos: Props/C10.v Base/Plan.vos Base/Table.vos Model/Vmdk.vos Model/VmdkDesc.vos Proofs/Vmdk.vos Proofs/VmdkDesc.vos Proofs/Storage.vos Proofs/VmdkTotal.vos Model/Chain.vos Proofs/Chain.vos Model/Hdd.vos Proofs/Hdd.vos
Props/C11.vo Props/C11.glob Props/C11.v.beautified Props/C11.required_vo: Props/C11.v Model/Qcow2.vo Proofs/Qcow2.vo Model/Vmdk.vo Proofs/Vmdk.vo Base/Plan.vo Base/Table.vo Model/Vhd.vo Proofs/Vhd.vo Model/Vdi.vo Proofs/Vdi.vo Model/Vhdx.vo Proofs/Vhdx.vo Model/Hds.vo Proofs/Hds.vo Model/SnapChain.vo Proofs/SnapChain.vo Model/HyperV.vo Proofs/HyperV.vo
Props/C11.vio: Props/C11.v Model/Qcow2.vio Proofs/Qcow2.vio Model/Vmdk.vio Proofs/Vmdk.vio Base/Plan.vio Base/Table.vio Model/Vhd.vio Proofs/Vhd.vio Model/Vdi.vio Proofs/Vdi.vio Model/Vhdx.vio Proofs/Vhdx.vio Model/Hds.vio Proofs/Hds.vio Model/SnapChain.vio Proofs/SnapChain.vio Model/HyperV.vio Proofs/HyperV.vio
Props/C11.vos Props/C11.vok Props/C11.required_vos: Props/C11.v Model/Qcow2.vos Proofs/Qcow2.vos Model/Vmdk.vos Proofs/Vmdk.vos Base/Plan.vos Base/Table.vos Model/Vhd.vos Proofs/Vhd.vos Model/Vdi.vos Proofs/Vdi.vos Model/Vhdx.vos Proofs/Vhdx.vos Model/Hds.vos Proofs/Hds.vos Model/SnapChain.vos Proofs/SnapChain.vos Model/HyperV.vos Proofs/HyperV.vos
Props/C12.vo Props/C12.glob Props/C12.v.beautified Props/C12.required_vo: Props/C12.v Base/Plan.vo Model/Gates.vo Proofs/Gates.vo Gen/Consts.vo Gen/Gates.vo
Props/C12.vio: Props/C12.v Base/Plan.vio Model/Gates.vio Proofs/Gates.vio Gen/Consts.vio Gen/Gates.vio
Props/C12.vos Props/C12.vok Props/C12.required_vos: Props/C12.v Base/Plan.vos Model/Gates.vos Proofs/Gates.vos Gen/Consts.vos Gen/Gates.vos
Props/C13.vo Props/C13.glob Props/C13.v.beautified Props/C13.required_vo: Props/C13.v Model/Lru.vo Proofs/Lru.vo Proofs/LruCost.vo Proofs/LruMulti.vo Base/Plan.vo Base/Table.vo Model/Walk.vo Model/Io.vo Proofs/Io.vo Proofs/StreamReaders.vo Model/Vhd.vo Proofs/Vhd.vo Model/Vdi.vo Proofs/Vdi.vo Model/Vhdx.vo Proofs/Vhdx.vo Model/Hds.vo Proofs/Hds.vo
Props/C13.vio: Props/C13.v Model/Lru.vio Proofs/Lru.vio Proofs/LruCost.vio Proofs/LruMulti.vio Base/Plan.vio Base/Table.vio Model/Walk.vio Model/Io.vio Proofs/Io.vio Proofs/StreamReaders.vio Model/Vhd.vio Proofs/Vhd.vio Model/Vdi.vio Proofs/Vdi.vio Model/Vhdx.vio Proofs/Vhdx.vio Model/Hds.vio Proofs/Hds.vio
Props/C13.vos Props/C13.vok Props/C13.required_vos: Props/C13.v Model/Lru.vos Proofs/Lru.vos Proofs/LruCost.vos Proofs/LruMulti.vos Base/Plan.vos Base/Table.vos Model/Walk.vos Model/Io.vos Proofs/Io.vos Proofs/StreamReaders.vos Model/Vhd.vos Proofs/Vhd.vos Model/Vdi.vos Proofs/Vdi.vos Model/Vhdx.vos Proofs/Vhdx.vos Model/Hds.vos Proofs/Hds.vos
Props/C14.vo Props/C14.glob Props/C14.v.beautified Props/C14.required_vo: Props/C14.v Base/Plan.vo Base/Layout.vo Gen/Consts.vo Gen/Layouts.vo Gen/MetaVmdkTables.vo Model/MetaCodec.vo Model/MetaQcow2.vo Model/MetaVhdx.vo Model/MetaVmdk.vo Model/MetaHdrs.vo Model/MetaHdd.vo Proofs/MetaCodec.vo Proofs/MetaQcow2.vo Proofs/MetaVhdx.vo Proofs/MetaVmdk.vo Proofs/MetaVmdkExt.vo Proofs/MetaHdd.vo Proofs/MetaHdrs.vo Proofs/MetaText.vo
Props/C14.vio: Props/C14.v Base/Plan.vio Base/Layout.vio Gen/Consts.vio Gen/Layouts.vio Gen/MetaVmdkTables.vio Model/MetaCodec.vio Model/MetaQcow2.vio Model/MetaVhdx.vio Model/MetaVmdk.vio Model/MetaHdrs.vio Model/MetaHdd.vio Proofs/MetaCodec.vio Proofs/MetaQcow2.vio Proofs/MetaVhdx.vio Proofs/MetaVmdk.vio Proofs/MetaVmdkExt.vio Proofs/MetaHdd.vio Proofs/MetaHdrs.vio Proofs/MetaText.vio
Props/C14.vos Props/C14.vok Props/C14.required_vos: Props/C14.v Base/Plan.vos Base/Layout.vos Gen/Consts.vos Gen/Layouts.vos Gen/MetaVmdkTables.vos Model/MetaCodec.vos Model/MetaQcow2.vos Model/MetaVhdx.vos Model/MetaVmdk.vos Model/MetaHdrs.vos Model/MetaHdd.vos Proofs/MetaCodec.vos Proofs/MetaQcow2.vos Proofs/MetaVhdx.vos Proofs/MetaVmdk.vos Proofs/MetaVmdkExt.vos Proofs/MetaHdd.vos Proofs/MetaHdrs.vos Proofs/MetaText.vos
Props/C15.vo Props/C15.glob Props/C15.v.beautified Props/C15.required_vo: Props/C15.v Model/VmxCrypto.vo Proofs/VmxCrypto.vo Proofs/VmxCodec.vo
Props/C15.vio: Props/C15.v Model/VmxCrypto.vio Proofs/VmxCrypto.vio Proofs/VmxCodec.vio
Props/C15.vos Props/C15.vok Props/C15.required_vos: Props/C15.v Model/VmxCrypto.vos Proofs/VmxCrypto.vos Proofs/VmxCodec.vos
Props/C16.vo Props/C16.glob Props/C16.v.beautified Props/C16.required_vo: Props/C16.v Base/Plan.vo Base/Layout.vo Model/Envelope.vo Model/EnvKeystore.vo Proofs/Envelope.vo Proofs/EnvKeystore.vo Gen/EnvelopeTables.vo
Props/C16.vio: Props/C16.v Base/Plan.vio Base/Layout.vio Model/Envelope.vio Model/EnvKeystore.vio Proofs/Envelope.vio Proofs/EnvKeystore.vio Gen/EnvelopeTables.vio
Props/C16.vos Props/C16.vok Props/C16.required_vos: Props/C16.v Base/Plan.vos Base/Layout.vos Model/Envelope.vos Model/EnvKeystore.vos Proofs/Envelope.vos Proofs/EnvKeystore.vos Gen/EnvelopeTables.vos
Props/C17.vo Props/C17.glob Props/C17.v.beautified Props/C17.required_vo: Props/C17.v Base/Plan.vo Base/Layout.vo Base/Table.vo Model/HyperV.vo Spec/HyperV.vo Proofs/HyperV.vo
Props/C17.vio: Props/C17.v Base/Plan.vio Base/Layout.vio Base/Table.vio Model/HyperV.vio Spec/HyperV.vio Proofs/HyperV.vio
Props/C17.vos Props/C17.vok Props/C17.required_vos: Props/C17.v Base/Plan.vos Base/Layout.vos Base/Table.vos Model/HyperV.vos Spec/HyperV.vos Proofs/HyperV.vos
Props/C18.vo Props/C18.glob Props/C18.v.beautified Props/C18.required_vo: Props/C18.v Base/Plan.vo Model/Text.vo Model/XmlTree.vo Gen/DescTables.vo Model/Vmx.vo Model/XmlDesc.vo Proofs/Text.vo Proofs/Vmx.vo Proofs/XmlDesc.vo
Props/C18.vio: Props/C18.v Base/Plan.vio Model/Text.vio Model/XmlTree.vio Gen/DescTables.vio Model/Vmx.vio Model/XmlDesc.vio Proofs/Text.vio Proofs/Vmx.vio Proofs/XmlDesc.vio
Props/C18.vos Props/C18.vok Props/C18.required_vos: Props/C18.v Base/Plan.vos Model/Text.vos Model/XmlTree.vos Gen/DescTables.vos Model/Vmx.vos Model/XmlDesc.vos Proofs/Text.vos Proofs/Vmx.vos Proofs/XmlDesc.vos
Props/C19.vo Props/C19.glob Props/C19.v.beautified Props/C19.required_vo: Props/C19.v Model/XmlEntry.vo Gen/XmlSites.vo Model/XmlPredict.vo Proofs/XmlEntry.vo
Props/C19.vio: Props/C19.v Model/XmlEntry.vio Gen/XmlSites.vio Model/XmlPredict.vio Proofs/XmlEntry.vio
Props/C19.vos Props/C19.vok Props/C19.required_vos: Props/C19.v Model/XmlEntry.vos Gen/XmlSites.vos Model/XmlPredict.vos Proofs/XmlEntry.vos
Props/C20.vo Props/C20.glob Props/C20.v.beautified Props/C20.required_vo: Props/C20.v Base/Layout.vo Spec/VmTar.vo Model/VmTar.vo Proofs/VmTar.vo Gen/VmTar.vo
Props/C20.vio: Props/C20.v Base/Layout.vio Spec/VmTar.vio Model/VmTar.vio Proofs/VmTar.vio Gen/VmTar.vio
Props/C20.vos Props/C20.vok Props/C20.required_vos: Props/C20.v Base/Layout.vos Spec/VmTar.vos Model/VmTar.vos Proofs/VmTar.vos Gen/VmTar.vos
