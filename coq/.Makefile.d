Base/Arith.vo Base/Arith.glob Base/Arith.v.beautified Base/Arith.required_vo: Base/Arith.v 
Base/Arith.vio: Base/Arith.v 
Base/Arith.vos Base/Arith.vok Base/Arith.required_vos: Base/Arith.v 
Base/Layout.vo Base/Layout.glob Base/Layout.v.beautified Base/Layout.required_vo: Base/Layout.v Base/Arith.vo
Base/Layout.vio: Base/Layout.v Base/Arith.vio
Base/Layout.vos Base/Layout.vok Base/Layout.required_vos: Base/Layout.v Base/Arith.vos
Base/Plan.vo Base/Plan.glob Base/Plan.v.beautified Base/Plan.required_vo: Base/Plan.v 
Base/Plan.vio: Base/Plan.v 
Base/Plan.vos Base/Plan.vok Base/Plan.required_vos: Base/Plan.v 
Base/Table.vo Base/Table.glob Base/Table.v.beautified Base/Table.required_vo: Base/Table.v 
Base/Table.vio: Base/Table.v 
Base/Table.vos Base/Table.vok Base/Table.required_vos: Base/Table.v 
Gen/Consts.vo Gen/Consts.glob Gen/Consts.v.beautified Gen/Consts.required_vo: Gen/Consts.v 
Gen/Consts.vio: Gen/Consts.v 
Gen/Consts.vos Gen/Consts.vok Gen/Consts.required_vos: Gen/Consts.v 
Gen/Enums.vo Gen/Enums.glob Gen/Enums.v.beautified Gen/Enums.required_vo: Gen/Enums.v 
Gen/Enums.vio: Gen/Enums.v 
Gen/Enums.vos Gen/Enums.vok Gen/Enums.required_vos: Gen/Enums.v 
Gen/Layouts.vo Gen/Layouts.glob Gen/Layouts.v.beautified Gen/Layouts.required_vo: Gen/Layouts.v Base/Layout.vo
Gen/Layouts.vio: Gen/Layouts.v Base/Layout.vio
Gen/Layouts.vos Gen/Layouts.vok Gen/Layouts.required_vos: Gen/Layouts.v Base/Layout.vos
Model/Vhd.vo Model/Vhd.glob Model/Vhd.v.beautified Model/Vhd.required_vo: Model/Vhd.v Base/Arith.vo Base/Plan.vo Base/Table.vo Gen/Consts.vo
Model/Vhd.vio: Model/Vhd.v Base/Arith.vio Base/Plan.vio Base/Table.vio Gen/Consts.vio
Model/Vhd.vos Model/Vhd.vok Model/Vhd.required_vos: Model/Vhd.v Base/Arith.vos Base/Plan.vos Base/Table.vos Gen/Consts.vos
Proofs/Vhd.vo Proofs/Vhd.glob Proofs/Vhd.v.beautified Proofs/Vhd.required_vo: Proofs/Vhd.v Base/Arith.vo Base/Plan.vo Base/Table.vo Model/Vhd.vo
Proofs/Vhd.vio: Proofs/Vhd.v Base/Arith.vio Base/Plan.vio Base/Table.vio Model/Vhd.vio
Proofs/Vhd.vos Proofs/Vhd.vok Proofs/Vhd.required_vos: Proofs/Vhd.v Base/Arith.vos Base/Plan.vos Base/Table.vos Model/Vhd.vos
Props/C04.vo Props/C04.glob Props/C04.v.beautified Props/C04.required_vo: Props/C04.v Base/Plan.vo Base/Table.vo Model/Vhd.vo Proofs/Vhd.vo
Props/C04.vio: Props/C04.v Base/Plan.vio Base/Table.vio Model/Vhd.vio Proofs/Vhd.vio
Props/C04.vos Props/C04.vok Props/C04.required_vos: Props/C04.v Base/Plan.vos Base/Table.vos Model/Vhd.vos Proofs/Vhd.vos
