Base/Arith.vo Base/Arith.glob Base/Arith.v.beautified Base/Arith.required_vo: Base/Arith.v 
Base/Arith.vio: Base/Arith.v 
Base/Arith.vos Base/Arith.vok Base/Arith.required_vos: Base/Arith.v 
Base/Layout.vo Base/Layout.glob Base/Layout.v.beautified Base/Layout.required_vo: Base/Layout.v Base/Arith.vo
Base/Layout.vio: Base/Layout.v Base/Arith.vio
Base/Layout.vos Base/Layout.vok Base/Layout.required_vos: Base/Layout.v Base/Arith.vos
Base/Plan.vo Base/Plan.glob Base/Plan.v.beautified Base/Plan.required_vo: Base/Plan.v 
Base/Plan.vio: Base/Plan.v 
Base/Plan.vos Base/Plan.vok Base/Plan.required_vos: Base/Plan.v 
Base/Table.vo Base/Table.glob Base/Table.v.beautified Base/Table.required_vo: Base/Table.v 
Base/Table.vio: Base/Table.v 
Base/Table.vos Base/Table.vok Base/Table.required_vos: Base/Table.v 
Gen/Consts.vo Gen/Consts.glob Gen/Consts.v.beautified Gen/Consts.required_vo: Gen/Consts.v 
Gen/Consts.vio: Gen/Consts.v 
Gen/Consts.vos Gen/Consts.vok Gen/Consts.required_vos: Gen/Consts.v 
Gen/Enums.vo Gen/Enums.glob Gen/Enums.v.beautified Gen/Enums.required_vo: Gen/Enums.v 
Gen/Enums.vio: Gen/Enums.v 
Gen/Enums.vos Gen/Enums.vok Gen/Enums.required_vos: Gen/Enums.v 
Gen/HyperVLits.vo Gen/HyperVLits.glob Gen/HyperVLits.v.beautified Gen/HyperVLits.required_vo: Gen/HyperVLits.v 
Gen/HyperVLits.vio: Gen/HyperVLits.v 
Gen/HyperVLits.vos Gen/HyperVLits.vok Gen/HyperVLits.required_vos: Gen/HyperVLits.v 
Gen/Layouts.vo Gen/Layouts.glob Gen/Layouts.v.beautified Gen/Layouts.required_vo: Gen/Layouts.v Base/Layout.vo
Gen/Layouts.vio: Gen/Layouts.v Base/Layout.vio
Gen/Layouts.vos Gen/Layouts.vok Gen/Layouts.required_vos: Gen/Layouts.v Base/Layout.vos
Spec/HyperV.vo Spec/HyperV.glob Spec/HyperV.v.beautified Spec/HyperV.required_vo: Spec/HyperV.v Base/Plan.vo Base/Layout.vo Base/Table.vo Model/HyperV.vo
Spec/HyperV.vio: Spec/HyperV.v Base/Plan.vio Base/Layout.vio Base/Table.vio Model/HyperV.vio
Spec/HyperV.vos Spec/HyperV.vok Spec/HyperV.required_vos: Spec/HyperV.v Base/Plan.vos Base/Layout.vos Base/Table.vos Model/HyperV.vos
Model/HyperV.vo Model/HyperV.glob Model/HyperV.v.beautified Model/HyperV.required_vo: Model/HyperV.v Base/Plan.vo Base/Layout.vo Base/Table.vo Gen/Consts.vo Gen/Layouts.vo Gen/Enums.vo Gen/HyperVLits.vo
Model/HyperV.vio: Model/HyperV.v Base/Plan.vio Base/Layout.vio Base/Table.vio Gen/Consts.vio Gen/Layouts.vio Gen/Enums.vio Gen/HyperVLits.vio
Model/HyperV.vos Model/HyperV.vok Model/HyperV.required_vos: Model/HyperV.v Base/Plan.vos Base/Layout.vos Base/Table.vos Gen/Consts.vos Gen/Layouts.vos Gen/Enums.vos Gen/HyperVLits.vos
Model/Vhd.vo Model/Vhd.glob Model/Vhd.v.beautified Model/Vhd.required_vo: Model/Vhd.v Base/Arith.vo Base/Plan.vo Base/Table.vo Gen/Consts.vo
Model/Vhd.vio: Model/Vhd.v Base/Arith.vio Base/Plan.vio Base/Table.vio Gen/Consts.vio
Model/Vhd.vos Model/Vhd.vok Model/Vhd.required_vos: Model/Vhd.v Base/Arith.vos Base/Plan.vos Base/Table.vos Gen/Consts.vos
Proofs/HyperV.vo Proofs/HyperV.glob Proofs/HyperV.v.beautified Proofs/HyperV.required_vo: Proofs/HyperV.v Base/Arith.vo Base/Plan.vo Base/Layout.vo Base/Table.vo Model/HyperV.vo Spec/HyperV.vo
Proofs/HyperV.vio: Proofs/HyperV.v Base/Arith.vio Base/Plan.vio Base/Layout.vio Base/Table.vio Model/HyperV.vio Spec/HyperV.vio
Proofs/HyperV.vos Proofs/HyperV.vok Proofs/HyperV.required_vos: Proofs/HyperV.v Base/Arith.vos Base/Plan.vos Base/Layout.vos Base/Table.vos Model/HyperV.vos Spec/HyperV.vos
Proofs/Vhd.vo Proofs/Vhd.glob Proofs/Vhd.v.beautified Proofs/Vhd.required_vo: Proofs/Vhd.v Base/Arith.vo Base/Plan.vo Base/Table.vo Model/Vhd.vo
Proofs/Vhd.vio: Proofs/Vhd.v Base/Arith.vio Base/Plan.vio Base/Table.vio Model/Vhd.vio
Proofs/Vhd.vos Proofs/Vhd.vok Proofs/Vhd.required_vos: Proofs/Vhd.v Base/Arith.vos Base/Plan.vos Base/Table.vos Model/Vhd.vos
Props/C04.vo Props/C04.glob Props/C04.v.beautified Props/C04.required_vo: Props/C04.v Base/Plan.vo Base/Table.vo Model/Vhd.vo Proofs/Vhd.vo
Props/C04.vio: Props/C04.v Base/Plan.vio Base/Table.vio Model/Vhd.vio Proofs/Vhd.vio
Props/C04.vos Props/C04.vok Props/C04.required_vos: Props/C04.v Base/Plan.vos Base/Table.vos Model/Vhd.vos Proofs/Vhd.vos
Props/C17.vo Props/C17.glob Props/C17.v.beautified Props/C17.required_vo: Props/C17.v Base/Plan.vo Base/Layout.vo Base/Table.vo Model/HyperV.vo Spec/HyperV.vo Proofs/HyperV.vo
Props/C17.vio: Props/C17.v Base/Plan.vio Base/Layout.vio Base/Table.vio Model/HyperV.vio Spec/HyperV.vio Proofs/HyperV.vio
Props/C17.vos Props/C17.vok Props/C17.required_vos: Props/C17.v Base/Plan.vos Base/Layout.vos Base/Table.vos Model/HyperV.vos Spec/HyperV.vos Proofs/HyperV.vos
