Base/Arith.vo Base/Arith.glob Base/Arith.v.beautified Base/Arith.required_vo: Base/Arith.v 
Base/Arith.vio: Base/Arith.v 
Base/Arith.vos Base/Arith.vok Base/Arith.required_vos: Base/Arith.v 
Base/Layout.vo Base/Layout.glob Base/Layout.v.beautified Base/Layout.required_vo: Base/Layout.v Base/Arith.vo
Base/Layout.vio: Base/Layout.v Base/Arith.vio
Base/Layout.vos Base/Layout.vok Base/Layout.required_vos: Base/Layout.v Base/Arith.vos
Base/Plan.vo Base/Plan.glob Base/Plan.v.beautified Base/Plan.required_vo: Base/Plan.v 
Base/Plan.vio: Base/Plan.v 
Base/Plan.vos Base/Plan.vok Base/Plan.required_vos: Base/Plan.v 
Base/Table.vo Base/Table.glob Base/Table.v.beautified Base/Table.required_vo: Base/Table.v 
Base/Table.vio: Base/Table.v 
Base/Table.vos Base/Table.vok Base/Table.required_vos: Base/Table.v 
Gen/Consts.vo Gen/Consts.glob Gen/Consts.v.beautified Gen/Consts.required_vo: Gen/Consts.v 
Gen/Consts.vio: Gen/Consts.v 
Gen/Consts.vos Gen/Consts.vok Gen/Consts.required_vos: Gen/Consts.v 
Gen/DescTables.vo Gen/DescTables.glob Gen/DescTables.v.beautified Gen/DescTables.required_vo: Gen/DescTables.v Model/Text.vo Model/XmlTree.vo
Gen/DescTables.vio: Gen/DescTables.v Model/Text.vio Model/XmlTree.vio
Gen/DescTables.vos Gen/DescTables.vok Gen/DescTables.required_vos: Gen/DescTables.v Model/Text.vos Model/XmlTree.vos
Gen/Enums.vo Gen/Enums.glob Gen/Enums.v.beautified Gen/Enums.required_vo: Gen/Enums.v 
Gen/Enums.vio: Gen/Enums.v 
Gen/Enums.vos Gen/Enums.vok Gen/Enums.required_vos: Gen/Enums.v 
Gen/Layouts.vo Gen/Layouts.glob Gen/Layouts.v.beautified Gen/Layouts.required_vo: Gen/Layouts.v Base/Layout.vo
Gen/Layouts.vio: Gen/Layouts.v Base/Layout.vio
Gen/Layouts.vos Gen/Layouts.vok Gen/Layouts.required_vos: Gen/Layouts.v Base/Layout.vos
Gen/XmlSites.vo Gen/XmlSites.glob Gen/XmlSites.v.beautified Gen/XmlSites.required_vo: Gen/XmlSites.v Model/XmlEntry.vo
Gen/XmlSites.vio: Gen/XmlSites.v Model/XmlEntry.vio
Gen/XmlSites.vos Gen/XmlSites.vok Gen/XmlSites.required_vos: Gen/XmlSites.v Model/XmlEntry.vos
Model/Text.vo Model/Text.glob Model/Text.v.beautified Model/Text.required_vo: Model/Text.v 
Model/Text.vio: Model/Text.v 
Model/Text.vos Model/Text.vok Model/Text.required_vos: Model/Text.v 
Model/Vhd.vo Model/Vhd.glob Model/Vhd.v.beautified Model/Vhd.required_vo: Model/Vhd.v Base/Arith.vo Base/Plan.vo Base/Table.vo Gen/Consts.vo
Model/Vhd.vio: Model/Vhd.v Base/Arith.vio Base/Plan.vio Base/Table.vio Gen/Consts.vio
Model/Vhd.vos Model/Vhd.vok Model/Vhd.required_vos: Model/Vhd.v Base/Arith.vos Base/Plan.vos Base/Table.vos Gen/Consts.vos
Model/Vmx.vo Model/Vmx.glob Model/Vmx.v.beautified Model/Vmx.required_vo: Model/Vmx.v Model/Text.vo Model/XmlTree.vo Gen/DescTables.vo
Model/Vmx.vio: Model/Vmx.v Model/Text.vio Model/XmlTree.vio Gen/DescTables.vio
Model/Vmx.vos Model/Vmx.vok Model/Vmx.required_vos: Model/Vmx.v Model/Text.vos Model/XmlTree.vos Gen/DescTables.vos
Model/XmlDesc.vo Model/XmlDesc.glob Model/XmlDesc.v.beautified Model/XmlDesc.required_vo: Model/XmlDesc.v Base/Plan.vo Model/Text.vo Model/XmlTree.vo Gen/DescTables.vo
Model/XmlDesc.vio: Model/XmlDesc.v Base/Plan.vio Model/Text.vio Model/XmlTree.vio Gen/DescTables.vio
Model/XmlDesc.vos Model/XmlDesc.vok Model/XmlDesc.required_vos: Model/XmlDesc.v Base/Plan.vos Model/Text.vos Model/XmlTree.vos Gen/DescTables.vos
Model/XmlEntry.vo Model/XmlEntry.glob Model/XmlEntry.v.beautified Model/XmlEntry.required_vo: Model/XmlEntry.v 
Model/XmlEntry.vio: Model/XmlEntry.v 
Model/XmlEntry.vos Model/XmlEntry.vok Model/XmlEntry.required_vos: Model/XmlEntry.v 
Model/XmlPredict.vo Model/XmlPredict.glob Model/XmlPredict.v.beautified Model/XmlPredict.required_vo: Model/XmlPredict.v Model/XmlEntry.vo Gen/XmlSites.vo
Model/XmlPredict.vio: Model/XmlPredict.v Model/XmlEntry.vio Gen/XmlSites.vio
Model/XmlPredict.vos Model/XmlPredict.vok Model/XmlPredict.required_vos: Model/XmlPredict.v Model/XmlEntry.vos Gen/XmlSites.vos
Model/XmlTree.vo Model/XmlTree.glob Model/XmlTree.v.beautified Model/XmlTree.required_vo: Model/XmlTree.v Model/Text.vo
Model/XmlTree.vio: Model/XmlTree.v Model/Text.vio
Model/XmlTree.vos Model/XmlTree.vok Model/XmlTree.required_vos: Model/XmlTree.v Model/Text.vos
Proofs/Text.vo Proofs/Text.glob Proofs/Text.v.beautified Proofs/Text.required_vo: Proofs/Text.v Model/Text.vo
Proofs/Text.vio: Proofs/Text.v Model/Text.vio
Proofs/Text.vos Proofs/Text.vok Proofs/Text.required_vos: Proofs/Text.v Model/Text.vos
Proofs/Vhd.vo Proofs/Vhd.glob Proofs/Vhd.v.beautified Proofs/Vhd.required_vo: Proofs/Vhd.v Base/Arith.vo Base/Plan.vo Base/Table.vo Model/Vhd.vo
Proofs/Vhd.vio: Proofs/Vhd.v Base/Arith.vio Base/Plan.vio Base/Table.vio Model/Vhd.vio
Proofs/Vhd.vos Proofs/Vhd.vok Proofs/Vhd.required_vos: Proofs/Vhd.v Base/Arith.vos Base/Plan.vos Base/Table.vos Model/Vhd.vos
Proofs/Vmx.vo Proofs/Vmx.glob Proofs/Vmx.v.beautified Proofs/Vmx.required_vo: Proofs/Vmx.v Model/Text.vo Model/XmlTree.vo Gen/DescTables.vo Model/Vmx.vo Proofs/Text.vo
Proofs/Vmx.vio: Proofs/Vmx.v Model/Text.vio Model/XmlTree.vio Gen/DescTables.vio Model/Vmx.vio Proofs/Text.vio
Proofs/Vmx.vos Proofs/Vmx.vok Proofs/Vmx.required_vos: Proofs/Vmx.v Model/Text.vos Model/XmlTree.vos Gen/DescTables.vos Model/Vmx.vos Proofs/Text.vos
Proofs/XmlDesc.vo Proofs/XmlDesc.glob Proofs/XmlDesc.v.beautified Proofs/XmlDesc.required_vo: Proofs/XmlDesc.v Base/Plan.vo Model/Text.vo Model/XmlTree.vo Gen/DescTables.vo Model/XmlDesc.vo Proofs/Text.vo
Proofs/XmlDesc.vio: Proofs/XmlDesc.v Base/Plan.vio Model/Text.vio Model/XmlTree.vio Gen/DescTables.vio Model/XmlDesc.vio Proofs/Text.vio
Proofs/XmlDesc.vos Proofs/XmlDesc.vok Proofs/XmlDesc.required_vos: Proofs/XmlDesc.v Base/Plan.vos Model/Text.vos Model/XmlTree.vos Gen/DescTables.vos Model/XmlDesc.vos Proofs/Text.vos
Proofs/XmlEntry.vo Proofs/XmlEntry.glob Proofs/XmlEntry.v.beautified Proofs/XmlEntry.required_vo: Proofs/XmlEntry.v Model/XmlEntry.vo Gen/XmlSites.vo
Proofs/XmlEntry.vio: Proofs/XmlEntry.v Model/XmlEntry.vio Gen/XmlSites.vio
Proofs/XmlEntry.vos Proofs/XmlEntry.vok Proofs/XmlEntry.required_vos: Proofs/XmlEntry.v Model/XmlEntry.vos Gen/XmlSites.vos
Props/C04.vo Props/C04.glob Props/C04.v.beautified Props/C04.required_vo: Props/C04.v Base/Plan.vo Base/Table.vo Model/Vhd.vo Proofs/Vhd.vo
Props/C04.vio: Props/C04.v Base/Plan.vio Base/Table.vio Model/Vhd.vio Proofs/Vhd.vio
Props/C04.vos Props/C04.vok Props/C04.required_vos: Props/C04.v Base/Plan.vos Base/Table.vos Model/Vhd.vos Proofs/Vhd.vos
Props/C18.vo Props/C18.glob Props/C18.v.beautified Props/C18.required_vo: Props/C18.v Base/Plan.vo Model/Text.vo Model/XmlTree.vo Gen/DescTables.vo Model/Vmx.vo Model/XmlDesc.vo Proofs/Text.vo Proofs/Vmx.vo Proofs/XmlDesc.vo
Props/C18.vio: Props/C18.v Base/Plan.vio Model/Text.vio Model/XmlTree.vio Gen/DescTables.vio Model/Vmx.vio Model/XmlDesc.vio Proofs/Text.vio Proofs/Vmx.vio Proofs/XmlDesc.vio
Props/C18.vos Props/C18.vok Props/C18.required_vos: Props/C18.v Base/Plan.vos Model/Text.vos Model/XmlTree.vos Gen/DescTables.vos Model/Vmx.vos Model/XmlDesc.vos Proofs/Text.vos Proofs/Vmx.vos Proofs/XmlDesc.vos
Props/C19.vo Props/C19.glob Props/C19.v.beautified Props/C19.required_vo: Props/C19.v Model/XmlEntry.vo Gen/XmlSites.vo Model/XmlPredict.vo Proofs/XmlEntry.vo
Props/C19.vio: Props/C19.v Model/XmlEntry.vio Gen/XmlSites.vio Model/XmlPredict.vio Proofs/XmlEntry.vio
Props/C19.vos Props/C19.vok Props/C19.required_vos: Props/C19.v Model/XmlEntry.vos Gen/XmlSites.vos Model/XmlPredict.vos Proofs/XmlEntry.vos
