Base/Arith.vo Base/Arith.glob Base/Arith.v.beautified Base/Arith.required_vo: Base/Arith.v 
Base/Arith.vio: Base/Arith.v 
Base/Arith.vos Base/Arith.vok Base/Arith.required_vos: Base/Arith.v 
Base/Layout.vo Base/Layout.glob Base/Layout.v.beautified Base/Layout.required_vo: Base/Layout.v Base/Arith.vo
Base/Layout.vio: Base/Layout.v Base/Arith.vio
Base/Layout.vos Base/Layout.vok Base/Layout.required_vos: Base/Layout.v Base/Arith.vos
Base/Plan.vo Base/Plan.glob Base/Plan.v.beautified Base/Plan.required_vo: Base/Plan.v 
Base/Plan.vio: Base/Plan.v 
Base/Plan.vos Base/Plan.vok Base/Plan.required_vos: Base/Plan.v 
Base/Table.vo Base/Table.glob Base/Table.v.beautified Base/Table.required_vo: Base/Table.v 
Base/Table.vio: Base/Table.v 
Base/Table.vos Base/Table.vok Base/Table.required_vos: Base/Table.v 
Gen/Consts.vo Gen/Consts.glob Gen/Consts.v.beautified Gen/Consts.required_vo: Gen/Consts.v 
Gen/Consts.vio: Gen/Consts.v 
Gen/Consts.vos Gen/Consts.vok Gen/Consts.required_vos: Gen/Consts.v 
Gen/Enums.vo Gen/Enums.glob Gen/Enums.v.beautified Gen/Enums.required_vo: Gen/Enums.v 
Gen/Enums.vio: Gen/Enums.v 
Gen/Enums.vos Gen/Enums.vok Gen/Enums.required_vos: Gen/Enums.v 
Gen/Layouts.vo Gen/Layouts.glob Gen/Layouts.v.beautified Gen/Layouts.required_vo: Gen/Layouts.v Base/Layout.vo
Gen/Layouts.vio: Gen/Layouts.v Base/Layout.vio
Gen/Layouts.vos Gen/Layouts.vok Gen/Layouts.required_vos: Gen/Layouts.v Base/Layout.vos
Gen/MetaHddTables.vo Gen/MetaHddTables.glob Gen/MetaHddTables.v.beautified Gen/MetaHddTables.required_vo: Gen/MetaHddTables.v 
Gen/MetaHddTables.vio: Gen/MetaHddTables.v 
Gen/MetaHddTables.vos Gen/MetaHddTables.vok Gen/MetaHddTables.required_vos: Gen/MetaHddTables.v 
Gen/MetaQcow2Tables.vo Gen/MetaQcow2Tables.glob Gen/MetaQcow2Tables.v.beautified Gen/MetaQcow2Tables.required_vo: Gen/MetaQcow2Tables.v 
Gen/MetaQcow2Tables.vio: Gen/MetaQcow2Tables.v 
Gen/MetaQcow2Tables.vos Gen/MetaQcow2Tables.vok Gen/MetaQcow2Tables.required_vos: Gen/MetaQcow2Tables.v 
Gen/MetaVmdkTables.vo Gen/MetaVmdkTables.glob Gen/MetaVmdkTables.v.beautified Gen/MetaVmdkTables.required_vo: Gen/MetaVmdkTables.v 
Gen/MetaVmdkTables.vio: Gen/MetaVmdkTables.v 
Gen/MetaVmdkTables.vos Gen/MetaVmdkTables.vok Gen/MetaVmdkTables.required_vos: Gen/MetaVmdkTables.v 
Model/MetaCodec.vo Model/MetaCodec.glob Model/MetaCodec.v.beautified Model/MetaCodec.required_vo: Model/MetaCodec.v Base/Plan.vo Base/Layout.vo
Model/MetaCodec.vio: Model/MetaCodec.v Base/Plan.vio Base/Layout.vio
Model/MetaCodec.vos Model/MetaCodec.vok Model/MetaCodec.required_vos: Model/MetaCodec.v Base/Plan.vos Base/Layout.vos
Model/MetaHdd.vo Model/MetaHdd.glob Model/MetaHdd.v.beautified Model/MetaHdd.required_vo: Model/MetaHdd.v Base/Plan.vo Model/MetaCodec.vo
Model/MetaHdd.vio: Model/MetaHdd.v Base/Plan.vio Model/MetaCodec.vio
Model/MetaHdd.vos Model/MetaHdd.vok Model/MetaHdd.required_vos: Model/MetaHdd.v Base/Plan.vos Model/MetaCodec.vos
Model/MetaHdrs.vo Model/MetaHdrs.glob Model/MetaHdrs.v.beautified Model/MetaHdrs.required_vo: Model/MetaHdrs.v Base/Plan.vo Base/Layout.vo Gen/Consts.vo Gen/Layouts.vo Model/MetaCodec.vo
Model/MetaHdrs.vio: Model/MetaHdrs.v Base/Plan.vio Base/Layout.vio Gen/Consts.vio Gen/Layouts.vio Model/MetaCodec.vio
Model/MetaHdrs.vos Model/MetaHdrs.vok Model/MetaHdrs.required_vos: Model/MetaHdrs.v Base/Plan.vos Base/Layout.vos Gen/Consts.vos Gen/Layouts.vos Model/MetaCodec.vos
Model/MetaQcow2.vo Model/MetaQcow2.glob Model/MetaQcow2.v.beautified Model/MetaQcow2.required_vo: Model/MetaQcow2.v Base/Plan.vo Base/Layout.vo Gen/Consts.vo Gen/Layouts.vo Gen/MetaQcow2Tables.vo Model/MetaCodec.vo
Model/MetaQcow2.vio: Model/MetaQcow2.v Base/Plan.vio Base/Layout.vio Gen/Consts.vio Gen/Layouts.vio Gen/MetaQcow2Tables.vio Model/MetaCodec.vio
Model/MetaQcow2.vos Model/MetaQcow2.vok Model/MetaQcow2.required_vos: Model/MetaQcow2.v Base/Plan.vos Base/Layout.vos Gen/Consts.vos Gen/Layouts.vos Gen/MetaQcow2Tables.vos Model/MetaCodec.vos
Model/MetaVhdx.vo Model/MetaVhdx.glob Model/MetaVhdx.v.beautified Model/MetaVhdx.required_vo: Model/MetaVhdx.v Base/Plan.vo Base/Layout.vo Gen/Consts.vo Gen/Layouts.vo Model/MetaCodec.vo
Model/MetaVhdx.vio: Model/MetaVhdx.v Base/Plan.vio Base/Layout.vio Gen/Consts.vio Gen/Layouts.vio Model/MetaCodec.vio
Model/MetaVhdx.vos Model/MetaVhdx.vok Model/MetaVhdx.required_vos: Model/MetaVhdx.v Base/Plan.vos Base/Layout.vos Gen/Consts.vos Gen/Layouts.vos Model/MetaCodec.vos
Model/MetaView.vo Model/MetaView.glob Model/MetaView.v.beautified Model/MetaView.required_vo: Model/MetaView.v Base/Plan.vo Base/Layout.vo Gen/Consts.vo Gen/Layouts.vo Model/MetaCodec.vo Model/MetaQcow2.vo Model/MetaVhdx.vo Model/MetaVmdk.vo Model/MetaHdrs.vo Model/MetaHdd.vo
Model/MetaView.vio: Model/MetaView.v Base/Plan.vio Base/Layout.vio Gen/Consts.vio Gen/Layouts.vio Model/MetaCodec.vio Model/MetaQcow2.vio Model/MetaVhdx.vio Model/MetaVmdk.vio Model/MetaHdrs.vio Model/MetaHdd.vio
Model/MetaView.vos Model/MetaView.vok Model/MetaView.required_vos: Model/MetaView.v Base/Plan.vos Base/Layout.vos Gen/Consts.vos Gen/Layouts.vos Model/MetaCodec.vos Model/MetaQcow2.vos Model/MetaVhdx.vos Model/MetaVmdk.vos Model/MetaHdrs.vos Model/MetaHdd.vos
Model/MetaVmdk.vo Model/MetaVmdk.glob Model/MetaVmdk.v.beautified Model/MetaVmdk.required_vo: Model/MetaVmdk.v Base/Plan.vo Base/Layout.vo Gen/Consts.vo Gen/Layouts.vo Gen/MetaVmdkTables.vo Model/MetaCodec.vo
Model/MetaVmdk.vio: Model/MetaVmdk.v Base/Plan.vio Base/Layout.vio Gen/Consts.vio Gen/Layouts.vio Gen/MetaVmdkTables.vio Model/MetaCodec.vio
Model/MetaVmdk.vos Model/MetaVmdk.vok Model/MetaVmdk.required_vos: Model/MetaVmdk.v Base/Plan.vos Base/Layout.vos Gen/Consts.vos Gen/Layouts.vos Gen/MetaVmdkTables.vos Model/MetaCodec.vos
Model/Vhd.vo Model/Vhd.glob Model/Vhd.v.beautified Model/Vhd.required_vo: Model/Vhd.v Base/Arith.vo Base/Plan.vo Base/Table.vo Gen/Consts.vo
Model/Vhd.vio: Model/Vhd.v Base/Arith.vio Base/Plan.vio Base/Table.vio Gen/Consts.vio
Model/Vhd.vos Model/Vhd.vok Model/Vhd.required_vos: Model/Vhd.v Base/Arith.vos Base/Plan.vos Base/Table.vos Gen/Consts.vos
Proofs/MetaCodec.vo Proofs/MetaCodec.glob Proofs/MetaCodec.v.beautified Proofs/MetaCodec.required_vo: Proofs/MetaCodec.v Base/Arith.vo Base/Plan.vo Base/Layout.vo Gen/Consts.vo Gen/Layouts.vo Model/MetaCodec.vo Model/MetaHdrs.vo
Proofs/MetaCodec.vio: Proofs/MetaCodec.v Base/Arith.vio Base/Plan.vio Base/Layout.vio Gen/Consts.vio Gen/Layouts.vio Model/MetaCodec.vio Model/MetaHdrs.vio
Proofs/MetaCodec.vos Proofs/MetaCodec.vok Proofs/MetaCodec.required_vos: Proofs/MetaCodec.v Base/Arith.vos Base/Plan.vos Base/Layout.vos Gen/Consts.vos Gen/Layouts.vos Model/MetaCodec.vos Model/MetaHdrs.vos
Proofs/MetaHdd.vo Proofs/MetaHdd.glob Proofs/MetaHdd.v.beautified Proofs/MetaHdd.required_vo: Proofs/MetaHdd.v Base/Plan.vo Gen/MetaHddTables.vo Model/MetaCodec.vo Model/MetaHdd.vo
Proofs/MetaHdd.vio: Proofs/MetaHdd.v Base/Plan.vio Gen/MetaHddTables.vio Model/MetaCodec.vio Model/MetaHdd.vio
Proofs/MetaHdd.vos Proofs/MetaHdd.vok Proofs/MetaHdd.required_vos: Proofs/MetaHdd.v Base/Plan.vos Gen/MetaHddTables.vos Model/MetaCodec.vos Model/MetaHdd.vos
Proofs/MetaHdrs.vo Proofs/MetaHdrs.glob Proofs/MetaHdrs.v.beautified Proofs/MetaHdrs.required_vo: Proofs/MetaHdrs.v Base/Arith.vo Base/Plan.vo Base/Layout.vo Gen/Consts.vo Gen/Layouts.vo Model/MetaCodec.vo Model/MetaHdrs.vo Model/MetaVmdk.vo Proofs/MetaCodec.vo
Proofs/MetaHdrs.vio: Proofs/MetaHdrs.v Base/Arith.vio Base/Plan.vio Base/Layout.vio Gen/Consts.vio Gen/Layouts.vio Model/MetaCodec.vio Model/MetaHdrs.vio Model/MetaVmdk.vio Proofs/MetaCodec.vio
Proofs/MetaHdrs.vos Proofs/MetaHdrs.vok Proofs/MetaHdrs.required_vos: Proofs/MetaHdrs.v Base/Arith.vos Base/Plan.vos Base/Layout.vos Gen/Consts.vos Gen/Layouts.vos Model/MetaCodec.vos Model/MetaHdrs.vos Model/MetaVmdk.vos Proofs/MetaCodec.vos
Proofs/MetaQcow2.vo Proofs/MetaQcow2.glob Proofs/MetaQcow2.v.beautified Proofs/MetaQcow2.required_vo: Proofs/MetaQcow2.v Base/Arith.vo Base/Plan.vo Base/Layout.vo Gen/Consts.vo Gen/Layouts.vo Gen/MetaQcow2Tables.vo Model/MetaCodec.vo Model/MetaQcow2.vo Proofs/MetaCodec.vo
Proofs/MetaQcow2.vio: Proofs/MetaQcow2.v Base/Arith.vio Base/Plan.vio Base/Layout.vio Gen/Consts.vio Gen/Layouts.vio Gen/MetaQcow2Tables.vio Model/MetaCodec.vio Model/MetaQcow2.vio Proofs/MetaCodec.vio
Proofs/MetaQcow2.vos Proofs/MetaQcow2.vok Proofs/MetaQcow2.required_vos: Proofs/MetaQcow2.v Base/Arith.vos Base/Plan.vos Base/Layout.vos Gen/Consts.vos Gen/Layouts.vos Gen/MetaQcow2Tables.vos Model/MetaCodec.vos Model/MetaQcow2.vos Proofs/MetaCodec.vos
Proofs/MetaText.vo Proofs/MetaText.glob Proofs/MetaText.v.beautified Proofs/MetaText.required_vo: Proofs/MetaText.v Base/Plan.vo Model/MetaCodec.vo
Proofs/MetaText.vio: Proofs/MetaText.v Base/Plan.vio Model/MetaCodec.vio
Proofs/MetaText.vos Proofs/MetaText.vok Proofs/MetaText.required_vos: Proofs/MetaText.v Base/Plan.vos Model/MetaCodec.vos
Proofs/MetaVhdx.vo Proofs/MetaVhdx.glob Proofs/MetaVhdx.v.beautified Proofs/MetaVhdx.required_vo: Proofs/MetaVhdx.v Base/Arith.vo Base/Plan.vo Base/Layout.vo Gen/Consts.vo Gen/Layouts.vo Model/MetaCodec.vo Model/MetaVhdx.vo Proofs/MetaCodec.vo Proofs/MetaText.vo
Proofs/MetaVhdx.vio: Proofs/MetaVhdx.v Base/Arith.vio Base/Plan.vio Base/Layout.vio Gen/Consts.vio Gen/Layouts.vio Model/MetaCodec.vio Model/MetaVhdx.vio Proofs/MetaCodec.vio Proofs/MetaText.vio
Proofs/MetaVhdx.vos Proofs/MetaVhdx.vok Proofs/MetaVhdx.required_vos: Proofs/MetaVhdx.v Base/Arith.vos Base/Plan.vos Base/Layout.vos Gen/Consts.vos Gen/Layouts.vos Model/MetaCodec.vos Model/MetaVhdx.vos Proofs/MetaCodec.vos Proofs/MetaText.vos
Proofs/MetaVmdk.vo Proofs/MetaVmdk.glob Proofs/MetaVmdk.v.beautified Proofs/MetaVmdk.required_vo: Proofs/MetaVmdk.v Base/Plan.vo Gen/MetaVmdkTables.vo Model/MetaCodec.vo Model/MetaVmdk.vo
Proofs/MetaVmdk.vio: Proofs/MetaVmdk.v Base/Plan.vio Gen/MetaVmdkTables.vio Model/MetaCodec.vio Model/MetaVmdk.vio
Proofs/MetaVmdk.vos Proofs/MetaVmdk.vok Proofs/MetaVmdk.required_vos: Proofs/MetaVmdk.v Base/Plan.vos Gen/MetaVmdkTables.vos Model/MetaCodec.vos Model/MetaVmdk.vos
Proofs/MetaVmdkExt.vo Proofs/MetaVmdkExt.glob Proofs/MetaVmdkExt.v.beautified Proofs/MetaVmdkExt.required_vo: Proofs/MetaVmdkExt.v Base/Plan.vo Gen/MetaVmdkTables.vo Model/MetaCodec.vo Model/MetaVmdk.vo Proofs/MetaVmdk.vo
Proofs/MetaVmdkExt.vio: Proofs/MetaVmdkExt.v Base/Plan.vio Gen/MetaVmdkTables.vio Model/MetaCodec.vio Model/MetaVmdk.vio Proofs/MetaVmdk.vio
Proofs/MetaVmdkExt.vos Proofs/MetaVmdkExt.vok Proofs/MetaVmdkExt.required_vos: Proofs/MetaVmdkExt.v Base/Plan.vos Gen/MetaVmdkTables.vos Model/MetaCodec.vos Model/MetaVmdk.vos Proofs/MetaVmdk.vos
Proofs/Vhd.vo Proofs/Vhd.glob Proofs/Vhd.v.beautified Proofs/Vhd.required_vo: Proofs/Vhd.v Base/Arith.vo Base/Plan.vo Base/Table.vo Model/Vhd.vo
Proofs/Vhd.vio: Proofs/Vhd.v Base/Arith.vio Base/Plan.vio Base/Table.vio Model/Vhd.vio
Proofs/Vhd.vos Proofs/Vhd.vok Proofs/Vhd.required_vos: Proofs/Vhd.v Base/Arith.vos Base/Plan.vos Base/Table.vos Model/Vhd.vos
Props/C04.vo Props/C04.glob Props/C04.v.beautified Props/C04.required_vo: Props/C04.v Base/Plan.vo Base/Table.vo Model/Vhd.vo Proofs/Vhd.vo
Props/C04.vio: Props/C04.v Base/Plan.vio Base/Table.vio Model/Vhd.vio Proofs/Vhd.vio
Props/C04.vos Props/C04.vok Props/C04.required_vos: Props/C04.v Base/Plan.vos Base/Table.vos Model/Vhd.vos Proofs/Vhd.vos
Props/C14.vo Props/C14.glob Props/C14.v.beautified Props/C14.required_vo: Props/C14.v Base/Plan.vo Base/Layout.vo Gen/Consts.vo Gen/Layouts.vo Gen/MetaVmdkTables.vo Model/MetaCodec.vo Model/MetaQcow2.vo Model/MetaVhdx.vo Model/MetaVmdk.vo Model/MetaHdrs.vo Model/MetaHdd.vo Proofs/MetaCodec.vo Proofs/MetaQcow2.vo Proofs/MetaVhdx.vo Proofs/MetaVmdk.vo Proofs/MetaVmdkExt.vo Proofs/MetaHdd.vo Proofs/MetaHdrs.vo Proofs/MetaText.vo
Props/C14.vio: Props/C14.v Base/Plan.vio Base/Layout.vio Gen/Consts.vio Gen/Layouts.vio Gen/MetaVmdkTables.vio Model/MetaCodec.vio Model/MetaQcow2.vio Model/MetaVhdx.vio Model/MetaVmdk.vio Model/MetaHdrs.vio Model/MetaHdd.vio Proofs/MetaCodec.vio Proofs/MetaQcow2.vio Proofs/MetaVhdx.vio Proofs/MetaVmdk.vio Proofs/MetaVmdkExt.vio Proofs/MetaHdd.vio Proofs/MetaHdrs.vio Proofs/MetaText.vio
Props/C14.vos Props/C14.vok Props/C14.required_vos: Props/C14.v Base/Plan.vos Base/Layout.vos Gen/Consts.vos Gen/Layouts.vos Gen/MetaVmdkTables.vos Model/MetaCodec.vos Model/MetaQcow2.vos Model/MetaVhdx.vos Model/MetaVmdk.vos Model/MetaHdrs.vos Model/MetaHdd.vos Proofs/MetaCodec.vos Proofs/MetaQcow2.vos Proofs/MetaVhdx.vos Proofs/MetaVmdk.vos Proofs/MetaVmdkExt.vos Proofs/MetaHdd.vos Proofs/MetaHdrs.vos Proofs/MetaText.vos
