Base/Arith.vo Base/Arith.glob Base/Arith.v.beautified Base/Arith.required_vo: Base/Arith.v 
Base/Arith.vio: Base/Arith.v 
Base/Arith.vos Base/Arith.vok Base/Arith.required_vos: Base/Arith.v 
Base/Layout.vo Base/Layout.glob Base/Layout.v.beautified Base/Layout.required_vo: Base/Layout.v Base/Arith.vo
Base/Layout.vio: Base/Layout.v Base/Arith.vio
Base/Layout.vos Base/Layout.vok Base/Layout.required_vos: Base/Layout.v Base/Arith.vos
Base/Plan.vo Base/Plan.glob Base/Plan.v.beautified Base/Plan.required_vo: Base/Plan.v 
Base/Plan.vio: Base/Plan.v 
Base/Plan.vos Base/Plan.vok Base/Plan.required_vos: Base/Plan.v 
Base/Table.vo Base/Table.glob Base/Table.v.beautified Base/Table.required_vo: Base/Table.v 
Base/Table.vio: Base/Table.v 
Base/Table.vos Base/Table.vok Base/Table.required_vos: Base/Table.v 
Gen/Consts.vo Gen/Consts.glob Gen/Consts.v.beautified Gen/Consts.required_vo: Gen/Consts.v 
Gen/Consts.vio: Gen/Consts.v 
Gen/Consts.vos Gen/Consts.vok Gen/Consts.required_vos: Gen/Consts.v 
Gen/Enums.vo Gen/Enums.glob Gen/Enums.v.beautified Gen/Enums.required_vo: Gen/Enums.v 
Gen/Enums.vio: Gen/Enums.v 
Gen/Enums.vos Gen/Enums.vok Gen/Enums.required_vos: Gen/Enums.v 
Gen/Gates.vo Gen/Gates.glob Gen/Gates.v.beautified Gen/Gates.required_vo: Gen/Gates.v 
Gen/Gates.vio: Gen/Gates.v 
Gen/Gates.vos Gen/Gates.vok Gen/Gates.required_vos: Gen/Gates.v 
Gen/Layouts.vo Gen/Layouts.glob Gen/Layouts.v.beautified Gen/Layouts.required_vo: Gen/Layouts.v Base/Layout.vo
Gen/Layouts.vio: Gen/Layouts.v Base/Layout.vio
Gen/Layouts.vos Gen/Layouts.vok Gen/Layouts.required_vos: Gen/Layouts.v Base/Layout.vos
Model/AlignedStream.vo Model/AlignedStream.glob Model/AlignedStream.v.beautified Model/AlignedStream.required_vo: Model/AlignedStream.v Base/Plan.vo
Model/AlignedStream.vio: Model/AlignedStream.v Base/Plan.vio
Model/AlignedStream.vos Model/AlignedStream.vok Model/AlignedStream.required_vos: Model/AlignedStream.v Base/Plan.vos
Model/Chain.vo Model/Chain.glob Model/Chain.v.beautified Model/Chain.required_vo: Model/Chain.v Base/Plan.vo
Model/Chain.vio: Model/Chain.v Base/Plan.vio
Model/Chain.vos Model/Chain.vok Model/Chain.required_vos: Model/Chain.v Base/Plan.vos
Model/Gates.vo Model/Gates.glob Model/Gates.v.beautified Model/Gates.required_vo: Model/Gates.v Base/Plan.vo Gen/Consts.vo
Model/Gates.vio: Model/Gates.v Base/Plan.vio Gen/Consts.vio
Model/Gates.vos Model/Gates.vok Model/Gates.required_vos: Model/Gates.v Base/Plan.vos Gen/Consts.vos
Model/Hds.vo Model/Hds.glob Model/Hds.v.beautified Model/Hds.required_vo: Model/Hds.v Base/Plan.vo Base/Table.vo Gen/Consts.vo
Model/Hds.vio: Model/Hds.v Base/Plan.vio Base/Table.vio Gen/Consts.vio
Model/Hds.vos Model/Hds.vok Model/Hds.required_vos: Model/Hds.v Base/Plan.vos Base/Table.vos Gen/Consts.vos
Model/Lru.vo Model/Lru.glob Model/Lru.v.beautified Model/Lru.required_vo: Model/Lru.v 
Model/Lru.vio: Model/Lru.v 
Model/Lru.vos Model/Lru.vok Model/Lru.required_vos: Model/Lru.v 
Model/OpenParent.vo Model/OpenParent.glob Model/OpenParent.v.beautified Model/OpenParent.required_vo: Model/OpenParent.v Base/Plan.vo
Model/OpenParent.vio: Model/OpenParent.v Base/Plan.vio
Model/OpenParent.vos Model/OpenParent.vok Model/OpenParent.required_vos: Model/OpenParent.v Base/Plan.vos
Model/SnapChain.vo Model/SnapChain.glob Model/SnapChain.v.beautified Model/SnapChain.required_vo: Model/SnapChain.v Base/Plan.vo
Model/SnapChain.vio: Model/SnapChain.v Base/Plan.vio
Model/SnapChain.vos Model/SnapChain.vok Model/SnapChain.required_vos: Model/SnapChain.v Base/Plan.vos
Model/Vdi.vo Model/Vdi.glob Model/Vdi.v.beautified Model/Vdi.required_vo: Model/Vdi.v Base/Plan.vo Base/Table.vo Model/Walk.vo Gen/Consts.vo
Model/Vdi.vio: Model/Vdi.v Base/Plan.vio Base/Table.vio Model/Walk.vio Gen/Consts.vio
Model/Vdi.vos Model/Vdi.vok Model/Vdi.required_vos: Model/Vdi.v Base/Plan.vos Base/Table.vos Model/Walk.vos Gen/Consts.vos
Model/Vhd.vo Model/Vhd.glob Model/Vhd.v.beautified Model/Vhd.required_vo: Model/Vhd.v Base/Arith.vo Base/Plan.vo Base/Table.vo Gen/Consts.vo
Model/Vhd.vio: Model/Vhd.v Base/Arith.vio Base/Plan.vio Base/Table.vio Gen/Consts.vio
Model/Vhd.vos Model/Vhd.vok Model/Vhd.required_vos: Model/Vhd.v Base/Arith.vos Base/Plan.vos Base/Table.vos Gen/Consts.vos
Model/Vhdx.vo Model/Vhdx.glob Model/Vhdx.v.beautified Model/Vhdx.required_vo: Model/Vhdx.v Base/Plan.vo Base/Table.vo Model/Walk.vo Gen/Consts.vo
Model/Vhdx.vio: Model/Vhdx.v Base/Plan.vio Base/Table.vio Model/Walk.vio Gen/Consts.vio
Model/Vhdx.vos Model/Vhdx.vok Model/Vhdx.required_vos: Model/Vhdx.v Base/Plan.vos Base/Table.vos Model/Walk.vos Gen/Consts.vos
Model/Walk.vo Model/Walk.glob Model/Walk.v.beautified Model/Walk.required_vo: Model/Walk.v Base/Plan.vo
Model/Walk.vio: Model/Walk.v Base/Plan.vio
Model/Walk.vos Model/Walk.vok Model/Walk.required_vos: Model/Walk.v Base/Plan.vos
Proofs/AlignedStream.vo Proofs/AlignedStream.glob Proofs/AlignedStream.v.beautified Proofs/AlignedStream.required_vo: Proofs/AlignedStream.v Base/Arith.vo Base/Plan.vo Model/AlignedStream.vo
Proofs/AlignedStream.vio: Proofs/AlignedStream.v Base/Arith.vio Base/Plan.vio Model/AlignedStream.vio
Proofs/AlignedStream.vos Proofs/AlignedStream.vok Proofs/AlignedStream.required_vos: Proofs/AlignedStream.v Base/Arith.vos Base/Plan.vos Model/AlignedStream.vos
Proofs/BlockMapped.vo Proofs/BlockMapped.glob Proofs/BlockMapped.v.beautified Proofs/BlockMapped.required_vo: Proofs/BlockMapped.v Base/Arith.vo Base/Plan.vo Model/Walk.vo
Proofs/BlockMapped.vio: Proofs/BlockMapped.v Base/Arith.vio Base/Plan.vio Model/Walk.vio
Proofs/BlockMapped.vos Proofs/BlockMapped.vok Proofs/BlockMapped.required_vos: Proofs/BlockMapped.v Base/Arith.vos Base/Plan.vos Model/Walk.vos
Proofs/Chain.vo Proofs/Chain.glob Proofs/Chain.v.beautified Proofs/Chain.required_vo: Proofs/Chain.v Base/Plan.vo Model/Chain.vo
Proofs/Chain.vio: Proofs/Chain.v Base/Plan.vio Model/Chain.vio
Proofs/Chain.vos Proofs/Chain.vok Proofs/Chain.required_vos: Proofs/Chain.v Base/Plan.vos Model/Chain.vos
Proofs/Gates.vo Proofs/Gates.glob Proofs/Gates.v.beautified Proofs/Gates.required_vo: Proofs/Gates.v Base/Plan.vo Model/Gates.vo Gen/Consts.vo Gen/Gates.vo
Proofs/Gates.vio: Proofs/Gates.v Base/Plan.vio Model/Gates.vio Gen/Consts.vio Gen/Gates.vio
Proofs/Gates.vos Proofs/Gates.vok Proofs/Gates.required_vos: Proofs/Gates.v Base/Plan.vos Model/Gates.vos Gen/Consts.vos Gen/Gates.vos
Proofs/Hds.vo Proofs/Hds.glob Proofs/Hds.v.beautified Proofs/Hds.required_vo: Proofs/Hds.v Base/Arith.vo Base/Plan.vo Base/Table.vo Model/Hds.vo Proofs/BlockMapped.vo
Proofs/Hds.vio: Proofs/Hds.v Base/Arith.vio Base/Plan.vio Base/Table.vio Model/Hds.vio Proofs/BlockMapped.vio
Proofs/Hds.vos Proofs/Hds.vok Proofs/Hds.required_vos: Proofs/Hds.v Base/Arith.vos Base/Plan.vos Base/Table.vos Model/Hds.vos Proofs/BlockMapped.vos
Proofs/Layers.vo Proofs/Layers.glob Proofs/Layers.v.beautified Proofs/Layers.required_vo: Proofs/Layers.v Base/Arith.vo Base/Plan.vo Base/Table.vo Model/Walk.vo Proofs/BlockMapped.vo Model/Chain.vo Proofs/Chain.vo Model/Vdi.vo Proofs/Vdi.vo Model/Hds.vo Proofs/Hds.vo Model/Vhdx.vo Proofs/Vhdx.vo Proofs/VhdxPartial.vo Proofs/VhdxLayer.vo
Proofs/Layers.vio: Proofs/Layers.v Base/Arith.vio Base/Plan.vio Base/Table.vio Model/Walk.vio Proofs/BlockMapped.vio Model/Chain.vio Proofs/Chain.vio Model/Vdi.vio Proofs/Vdi.vio Model/Hds.vio Proofs/Hds.vio Model/Vhdx.vio Proofs/Vhdx.vio Proofs/VhdxPartial.vio Proofs/VhdxLayer.vio
Proofs/Layers.vos Proofs/Layers.vok Proofs/Layers.required_vos: Proofs/Layers.v Base/Arith.vos Base/Plan.vos Base/Table.vos Model/Walk.vos Proofs/BlockMapped.vos Model/Chain.vos Proofs/Chain.vos Model/Vdi.vos Proofs/Vdi.vos Model/Hds.vos Proofs/Hds.vos Model/Vhdx.vos Proofs/Vhdx.vos Proofs/VhdxPartial.vos Proofs/VhdxLayer.vos
Proofs/Lru.vo Proofs/Lru.glob Proofs/Lru.v.beautified Proofs/Lru.required_vo: Proofs/Lru.v Model/Lru.vo
Proofs/Lru.vio: Proofs/Lru.v Model/Lru.vio
Proofs/Lru.vos Proofs/Lru.vok Proofs/Lru.required_vos: Proofs/Lru.v Model/Lru.vos
Proofs/OpenParent.vo Proofs/OpenParent.glob Proofs/OpenParent.v.beautified Proofs/OpenParent.required_vo: Proofs/OpenParent.v Base/Plan.vo Model/OpenParent.vo
Proofs/OpenParent.vio: Proofs/OpenParent.v Base/Plan.vio Model/OpenParent.vio
Proofs/OpenParent.vos Proofs/OpenParent.vok Proofs/OpenParent.required_vos: Proofs/OpenParent.v Base/Plan.vos Model/OpenParent.vos
Proofs/SnapChain.vo Proofs/SnapChain.glob Proofs/SnapChain.v.beautified Proofs/SnapChain.required_vo: Proofs/SnapChain.v Base/Plan.vo Model/SnapChain.vo
Proofs/SnapChain.vio: Proofs/SnapChain.v Base/Plan.vio Model/SnapChain.vio
Proofs/SnapChain.vos Proofs/SnapChain.vok Proofs/SnapChain.required_vos: Proofs/SnapChain.v Base/Plan.vos Model/SnapChain.vos
Proofs/StreamReaders.vo Proofs/StreamReaders.glob Proofs/StreamReaders.v.beautified Proofs/StreamReaders.required_vo: Proofs/StreamReaders.v Base/Arith.vo Base/Plan.vo Base/Table.vo Model/AlignedStream.vo Proofs/AlignedStream.vo Model/Walk.vo Proofs/BlockMapped.vo Model/Vhd.vo Proofs/Vhd.vo Model/Vdi.vo Proofs/Vdi.vo Model/Vhdx.vo Proofs/Vhdx.vo Model/Hds.vo Proofs/Hds.vo
Proofs/StreamReaders.vio: Proofs/StreamReaders.v Base/Arith.vio Base/Plan.vio Base/Table.vio Model/AlignedStream.vio Proofs/AlignedStream.vio Model/Walk.vio Proofs/BlockMapped.vio Model/Vhd.vio Proofs/Vhd.vio Model/Vdi.vio Proofs/Vdi.vio Model/Vhdx.vio Proofs/Vhdx.vio Model/Hds.vio Proofs/Hds.vio
Proofs/StreamReaders.vos Proofs/StreamReaders.vok Proofs/StreamReaders.required_vos: Proofs/StreamReaders.v Base/Arith.vos Base/Plan.vos Base/Table.vos Model/AlignedStream.vos Proofs/AlignedStream.vos Model/Walk.vos Proofs/BlockMapped.vos Model/Vhd.vos Proofs/Vhd.vos Model/Vdi.vos Proofs/Vdi.vos Model/Vhdx.vos Proofs/Vhdx.vos Model/Hds.vos Proofs/Hds.vos
Proofs/Vdi.vo Proofs/Vdi.glob Proofs/Vdi.v.beautified Proofs/Vdi.required_vo: Proofs/Vdi.v Base/Arith.vo Base/Plan.vo Base/Table.vo Model/Walk.vo Model/Vdi.vo Proofs/BlockMapped.vo
Proofs/Vdi.vio: Proofs/Vdi.v Base/Arith.vio Base/Plan.vio Base/Table.vio Model/Walk.vio Model/Vdi.vio Proofs/BlockMapped.vio
Proofs/Vdi.vos Proofs/Vdi.vok Proofs/Vdi.required_vos: Proofs/Vdi.v Base/Arith.vos Base/Plan.vos Base/Table.vos Model/Walk.vos Model/Vdi.vos Proofs/BlockMapped.vos
Proofs/Vhd.vo Proofs/Vhd.glob Proofs/Vhd.v.beautified Proofs/Vhd.required_vo: Proofs/Vhd.v Base/Arith.vo Base/Plan.vo Base/Table.vo Model/Vhd.vo
Proofs/Vhd.vio: Proofs/Vhd.v Base/Arith.vio Base/Plan.vio Base/Table.vio Model/Vhd.vio
Proofs/Vhd.vos Proofs/Vhd.vok Proofs/Vhd.required_vos: Proofs/Vhd.v Base/Arith.vos Base/Plan.vos Base/Table.vos Model/Vhd.vos
Proofs/Vhdx.vo Proofs/Vhdx.glob Proofs/Vhdx.v.beautified Proofs/Vhdx.required_vo: Proofs/Vhdx.v Base/Arith.vo Base/Plan.vo Base/Table.vo Base/Layout.vo Model/Walk.vo Model/Vhdx.vo Proofs/BlockMapped.vo Gen/Layouts.vo
Proofs/Vhdx.vio: Proofs/Vhdx.v Base/Arith.vio Base/Plan.vio Base/Table.vio Base/Layout.vio Model/Walk.vio Model/Vhdx.vio Proofs/BlockMapped.vio Gen/Layouts.vio
Proofs/Vhdx.vos Proofs/Vhdx.vok Proofs/Vhdx.required_vos: Proofs/Vhdx.v Base/Arith.vos Base/Plan.vos Base/Table.vos Base/Layout.vos Model/Walk.vos Model/Vhdx.vos Proofs/BlockMapped.vos Gen/Layouts.vos
Proofs/VhdxLayer.vo Proofs/VhdxLayer.glob Proofs/VhdxLayer.v.beautified Proofs/VhdxLayer.required_vo: Proofs/VhdxLayer.v Base/Arith.vo Base/Plan.vo Base/Table.vo Model/Walk.vo Proofs/BlockMapped.vo Model/Vhdx.vo Proofs/Vhdx.vo Proofs/VhdxPartial.vo Model/Chain.vo Proofs/Chain.vo
Proofs/VhdxLayer.vio: Proofs/VhdxLayer.v Base/Arith.vio Base/Plan.vio Base/Table.vio Model/Walk.vio Proofs/BlockMapped.vio Model/Vhdx.vio Proofs/Vhdx.vio Proofs/VhdxPartial.vio Model/Chain.vio Proofs/Chain.vio
Proofs/VhdxLayer.vos Proofs/VhdxLayer.vok Proofs/VhdxLayer.required_vos: Proofs/VhdxLayer.v Base/Arith.vos Base/Plan.vos Base/Table.vos Model/Walk.vos Proofs/BlockMapped.vos Model/Vhdx.vos Proofs/Vhdx.vos Proofs/VhdxPartial.vos Model/Chain.vos Proofs/Chain.vos
Proofs/VhdxPartial.vo Proofs/VhdxPartial.glob Proofs/VhdxPartial.v.beautified Proofs/VhdxPartial.required_vo: Proofs/VhdxPartial.v Base/Arith.vo Base/Plan.vo Base/Table.vo Model/Vhdx.vo
Proofs/VhdxPartial.vio: Proofs/VhdxPartial.v Base/Arith.vio Base/Plan.vio Base/Table.vio Model/Vhdx.vio
Proofs/VhdxPartial.vos Proofs/VhdxPartial.vok Proofs/VhdxPartial.required_vos: Proofs/VhdxPartial.v Base/Arith.vos Base/Plan.vos Base/Table.vos Model/Vhdx.vos
Props/C03.vo Props/C03.glob Props/C03.v.beautified Props/C03.required_vo: Props/C03.v Base/Plan.vo Base/Table.vo Model/Vhdx.vo Proofs/Vhdx.vo
Props/C03.vio: Props/C03.v Base/Plan.vio Base/Table.vio Model/Vhdx.vio Proofs/Vhdx.vio
Props/C03.vos Props/C03.vok Props/C03.required_vos: Props/C03.v Base/Plan.vos Base/Table.vos Model/Vhdx.vos Proofs/Vhdx.vos
Props/C04.vo Props/C04.glob Props/C04.v.beautified Props/C04.required_vo: Props/C04.v Base/Plan.vo Base/Table.vo Model/Vhd.vo Proofs/Vhd.vo
Props/C04.vio: Props/C04.v Base/Plan.vio Base/Table.vio Model/Vhd.vio Proofs/Vhd.vio
Props/C04.vos Props/C04.vok Props/C04.required_vos: Props/C04.v Base/Plan.vos Base/Table.vos Model/Vhd.vos Proofs/Vhd.vos
Props/C05.vo Props/C05.glob Props/C05.v.beautified Props/C05.required_vo: Props/C05.v Base/Plan.vo Base/Table.vo Model/Vdi.vo Proofs/Vdi.vo
Props/C05.vio: Props/C05.v Base/Plan.vio Base/Table.vio Model/Vdi.vio Proofs/Vdi.vio
Props/C05.vos Props/C05.vok Props/C05.required_vos: Props/C05.v Base/Plan.vos Base/Table.vos Model/Vdi.vos Proofs/Vdi.vos
Props/C06.vo Props/C06.glob Props/C06.v.beautified Props/C06.required_vo: Props/C06.v Base/Plan.vo Base/Table.vo Model/Hds.vo Proofs/Hds.vo
Props/C06.vio: Props/C06.v Base/Plan.vio Base/Table.vio Model/Hds.vio Proofs/Hds.vio
Props/C06.vos Props/C06.vok Props/C06.required_vos: Props/C06.v Base/Plan.vos Base/Table.vos Model/Hds.vos Proofs/Hds.vos
Props/C07.vo Props/C07.glob Props/C07.v.beautified Props/C07.required_vo: Props/C07.v Base/Plan.vo Base/Table.vo Model/Chain.vo Proofs/Chain.vo Proofs/Layers.vo Model/Vdi.vo Proofs/Vdi.vo Model/Hds.vo Proofs/Hds.vo Model/Vhdx.vo Proofs/Vhdx.vo Proofs/VhdxPartial.vo Proofs/VhdxLayer.vo Model/OpenParent.vo Proofs/OpenParent.vo
Props/C07.vio: Props/C07.v Base/Plan.vio Base/Table.vio Model/Chain.vio Proofs/Chain.vio Proofs/Layers.vio Model/Vdi.vio Proofs/Vdi.vio Model/Hds.vio Proofs/Hds.vio Model/Vhdx.vio Proofs/Vhdx.vio Proofs/VhdxPartial.vio Proofs/VhdxLayer.vio Model/OpenParent.vio Proofs/OpenParent.vio
Props/C07.vos Props/C07.vok Props/C07.required_vos: Props/C07.v Base/Plan.vos Base/Table.vos Model/Chain.vos Proofs/Chain.vos Proofs/Layers.vos Model/Vdi.vos Proofs/Vdi.vos Model/Hds.vos Proofs/Hds.vos Model/Vhdx.vos Proofs/Vhdx.vos Proofs/VhdxPartial.vos Proofs/VhdxLayer.vos Model/OpenParent.vos Proofs/OpenParent.vos
Props/C08.vo Props/C08.glob Props/C08.v.beautified Props/C08.required_vo: Props/C08.v Base/Plan.vo Base/Table.vo Model/AlignedStream.vo Proofs/AlignedStream.vo Model/Lru.vo Proofs/Lru.vo Proofs/StreamReaders.vo Model/Vhd.vo Proofs/Vhd.vo Model/Vdi.vo Proofs/Vdi.vo Model/Vhdx.vo Proofs/Vhdx.vo Model/Hds.vo Proofs/Hds.vo
Props/C08.vio: Props/C08.v Base/Plan.vio Base/Table.vio Model/AlignedStream.vio Proofs/AlignedStream.vio Model/Lru.vio Proofs/Lru.vio Proofs/StreamReaders.vio Model/Vhd.vio Proofs/Vhd.vio Model/Vdi.vio Proofs/Vdi.vio Model/Vhdx.vio Proofs/Vhdx.vio Model/Hds.vio Proofs/Hds.vio
Props/C08.vos Props/C08.vok Props/C08.required_vos: Props/C08.v Base/Plan.vos Base/Table.vos Model/AlignedStream.vos Proofs/AlignedStream.vos Model/Lru.vos Proofs/Lru.vos Proofs/StreamReaders.vos Model/Vhd.vos Proofs/Vhd.vos Model/Vdi.vos Proofs/Vdi.vos Model/Vhdx.vos Proofs/Vhdx.vos Model/Hds.vos Proofs/Hds.vos
Props/C11.vo Props/C11.glob Props/C11.v.beautified Props/C11.required_vo: Props/C11.v Base/Plan.vo Base/Table.vo Model/Vhd.vo Proofs/Vhd.vo Model/Vdi.vo Proofs/Vdi.vo Model/Vhdx.vo Proofs/Vhdx.vo Model/Hds.vo Proofs/Hds.vo Model/SnapChain.vo Proofs/SnapChain.vo
Props/C11.vio: Props/C11.v Base/Plan.vio Base/Table.vio Model/Vhd.vio Proofs/Vhd.vio Model/Vdi.vio Proofs/Vdi.vio Model/Vhdx.vio Proofs/Vhdx.vio Model/Hds.vio Proofs/Hds.vio Model/SnapChain.vio Proofs/SnapChain.vio
Props/C11.vos Props/C11.vok Props/C11.required_vos: Props/C11.v Base/Plan.vos Base/Table.vos Model/Vhd.vos Proofs/Vhd.vos Model/Vdi.vos Proofs/Vdi.vos Model/Vhdx.vos Proofs/Vhdx.vos Model/Hds.vos Proofs/Hds.vos Model/SnapChain.vos Proofs/SnapChain.vos
Props/C12.vo Props/C12.glob Props/C12.v.beautified Props/C12.required_vo: Props/C12.v Base/Plan.vo Model/Gates.vo Proofs/Gates.vo Gen/Consts.vo Gen/Gates.vo
Props/C12.vio: Props/C12.v Base/Plan.vio Model/Gates.vio Proofs/Gates.vio Gen/Consts.vio Gen/Gates.vio
Props/C12.vos Props/C12.vok Props/C12.required_vos: Props/C12.v Base/Plan.vos Model/Gates.vos Proofs/Gates.vos Gen/Consts.vos Gen/Gates.vos
