Base/Arith.vo Base/Arith.glob Base/Arith.v.beautified Base/Arith.required_vo: Base/Arith.v 
Base/Arith.vio: Base/Arith.v 
Base/Arith.vos Base/Arith.vok Base/Arith.required_vos: Base/Arith.v 
Base/Layout.vo Base/Layout.glob Base/Layout.v.beautified Base/Layout.required_vo: Base/Layout.v Base/Arith.vo
Base/Layout.vio: Base/Layout.v Base/Arith.vio
Base/Layout.vos Base/Layout.vok Base/Layout.required_vos: Base/Layout.v Base/Arith.vos
Base/Plan.vo Base/Plan.glob Base/Plan.v.beautified Base/Plan.required_vo: Base/Plan.v 
Base/Plan.vio: Base/Plan.v 
Base/Plan.vos Base/Plan.vok Base/Plan.required_vos: Base/Plan.v 
Base/Table.vo Base/Table.glob Base/Table.v.beautified Base/Table.required_vo: Base/Table.v 
Base/Table.vio: Base/Table.v 
Base/Table.vos Base/Table.vok Base/Table.required_vos: Base/Table.v 
Gen/Consts.vo Gen/Consts.glob Gen/Consts.v.beautified Gen/Consts.required_vo: Gen/Consts.v 
Gen/Consts.vio: Gen/Consts.v 
Gen/Consts.vos Gen/Consts.vok Gen/Consts.required_vos: Gen/Consts.v 
Gen/Effects.vo Gen/Effects.glob Gen/Effects.v.beautified Gen/Effects.required_vo: Gen/Effects.v 
Gen/Effects.vio: Gen/Effects.v 
Gen/Effects.vos Gen/Effects.vok Gen/Effects.required_vos: Gen/Effects.v 
Gen/Enums.vo Gen/Enums.glob Gen/Enums.v.beautified Gen/Enums.required_vo: Gen/Enums.v 
Gen/Enums.vio: Gen/Enums.v 
Gen/Enums.vos Gen/Enums.vok Gen/Enums.required_vos: Gen/Enums.v 
Gen/Layouts.vo Gen/Layouts.glob Gen/Layouts.v.beautified Gen/Layouts.required_vo: Gen/Layouts.v Base/Layout.vo
Gen/Layouts.vio: Gen/Layouts.v Base/Layout.vio
Gen/Layouts.vos Gen/Layouts.vok Gen/Layouts.required_vos: Gen/Layouts.v Base/Layout.vos
Gen/VmTar.vo Gen/VmTar.glob Gen/VmTar.v.beautified Gen/VmTar.required_vo: Gen/VmTar.v 
Gen/VmTar.vio: Gen/VmTar.v 
Gen/VmTar.vos Gen/VmTar.vok Gen/VmTar.required_vos: Gen/VmTar.v 
Spec/VmTar.vo Spec/VmTar.glob Spec/VmTar.v.beautified Spec/VmTar.required_vo: Spec/VmTar.v Base/Layout.vo
Spec/VmTar.vio: Spec/VmTar.v Base/Layout.vio
Spec/VmTar.vos Spec/VmTar.vok Spec/VmTar.required_vos: Spec/VmTar.v Base/Layout.vos
Model/Effects.vo Model/Effects.glob Model/Effects.v.beautified Model/Effects.required_vo: Model/Effects.v Gen/Effects.vo
Model/Effects.vio: Model/Effects.v Gen/Effects.vio
Model/Effects.vos Model/Effects.vok Model/Effects.required_vos: Model/Effects.v Gen/Effects.vos
Model/Vhd.vo Model/Vhd.glob Model/Vhd.v.beautified Model/Vhd.required_vo: Model/Vhd.v Base/Arith.vo Base/Plan.vo Base/Table.vo Gen/Consts.vo
Model/Vhd.vio: Model/Vhd.v Base/Arith.vio Base/Plan.vio Base/Table.vio Gen/Consts.vio
Model/Vhd.vos Model/Vhd.vok Model/Vhd.required_vos: Model/Vhd.v Base/Arith.vos Base/Plan.vos Base/Table.vos Gen/Consts.vos
Model/VmTar.vo Model/VmTar.glob Model/VmTar.v.beautified Model/VmTar.required_vo: Model/VmTar.v Base/Layout.vo Spec/VmTar.vo Gen/VmTar.vo
Model/VmTar.vio: Model/VmTar.v Base/Layout.vio Spec/VmTar.vio Gen/VmTar.vio
Model/VmTar.vos Model/VmTar.vok Model/VmTar.required_vos: Model/VmTar.v Base/Layout.vos Spec/VmTar.vos Gen/VmTar.vos
Proofs/Effects.vo Proofs/Effects.glob Proofs/Effects.v.beautified Proofs/Effects.required_vo: Proofs/Effects.v Gen/Effects.vo Model/Effects.vo
Proofs/Effects.vio: Proofs/Effects.v Gen/Effects.vio Model/Effects.vio
Proofs/Effects.vos Proofs/Effects.vok Proofs/Effects.required_vos: Proofs/Effects.v Gen/Effects.vos Model/Effects.vos
Proofs/Vhd.vo Proofs/Vhd.glob Proofs/Vhd.v.beautified Proofs/Vhd.required_vo: Proofs/Vhd.v Base/Arith.vo Base/Plan.vo Base/Table.vo Model/Vhd.vo
Proofs/Vhd.vio: Proofs/Vhd.v Base/Arith.vio Base/Plan.vio Base/Table.vio Model/Vhd.vio
Proofs/Vhd.vos Proofs/Vhd.vok Proofs/Vhd.required_vos: Proofs/Vhd.v Base/Arith.vos Base/Plan.vos Base/Table.vos Model/Vhd.vos
Proofs/VmTar.vo Proofs/VmTar.glob Proofs/VmTar.v.beautified Proofs/VmTar.required_vo: Proofs/VmTar.v Base/Layout.vo Spec/VmTar.vo Model/VmTar.vo Gen/VmTar.vo Base/Arith.vo
Proofs/VmTar.vio: Proofs/VmTar.v Base/Layout.vio Spec/VmTar.vio Model/VmTar.vio Gen/VmTar.vio Base/Arith.vio
Proofs/VmTar.vos Proofs/VmTar.vok Proofs/VmTar.required_vos: Proofs/VmTar.v Base/Layout.vos Spec/VmTar.vos Model/VmTar.vos Gen/VmTar.vos Base/Arith.vos
Props/C04.vo Props/C04.glob Props/C04.v.beautified Props/C04.required_vo: Props/C04.v Base/Plan.vo Base/Table.vo Model/Vhd.vo Proofs/Vhd.vo
Props/C04.vio: Props/C04.v Base/Plan.vio Base/Table.vio Model/Vhd.vio Proofs/Vhd.vio
Props/C04.vos Props/C04.vok Props/C04.required_vos: Props/C04.v Base/Plan.vos Base/Table.vos Model/Vhd.vos Proofs/Vhd.vos
Props/C09.vo Props/C09.glob Props/C09.v.beautified Props/C09.required_vo: Props/C09.v Gen/Effects.vo Model/Effects.vo Proofs/Effects.vo
Props/C09.vio: Props/C09.v Gen/Effects.vio Model/Effects.vio Proofs/Effects.vio
Props/C09.vos Props/C09.vok Props/C09.required_vos: Props/C09.v Gen/Effects.vos Model/Effects.vos Proofs/Effects.vos
Props/C20.vo Props/C20.glob Props/C20.v.beautified Props/C20.required_vo: Props/C20.v Base/Layout.vo Spec/VmTar.vo Model/VmTar.vo Proofs/VmTar.vo Gen/VmTar.vo
Props/C20.vio: Props/C20.v Base/Layout.vio Spec/VmTar.vio Model/VmTar.vio Proofs/VmTar.vio Gen/VmTar.vio
Props/C20.vos Props/C20.vok Props/C20.required_vos: Props/C20.v Base/Layout.vos Spec/VmTar.vos Model/VmTar.vos Proofs/VmTar.vos Gen/VmTar.vos
