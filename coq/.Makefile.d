Base/Arith.vo Base/Arith.glob Base/Arith.v.beautified Base/Arith.required_vo: Base/Arith.v 
Base/Arith.vio: Base/Arith.v 
Base/Arith.vos Base/Arith.vok Base/Arith.required_vos: Base/Arith.v 
Base/Layout.vo Base/Layout.glob Base/Layout.v.beautified Base/Layout.required_vo: Base/Layout.v Base/Arith.vo
Base/Layout.vio: Base/Layout.v Base/Arith.vio
Base/Layout.vos Base/Layout.vok Base/Layout.required_vos: Base/Layout.v Base/Arith.vos
Base/Plan.vo Base/Plan.glob Base/Plan.v.beautified Base/Plan.required_vo: Base/Plan.v 
Base/Plan.vio: Base/Plan.v 
Base/Plan.vos Base/Plan.vok Base/Plan.required_vos: Base/Plan.v 
Base/Table.vo Base/Table.glob Base/Table.v.beautified Base/Table.required_vo: Base/Table.v 
Base/Table.vio: Base/Table.v 
Base/Table.vos Base/Table.vok Base/Table.required_vos: Base/Table.v 
Gen/Consts.vo Gen/Consts.glob Gen/Consts.v.beautified Gen/Consts.required_vo: Gen/Consts.v 
Gen/Consts.vio: Gen/Consts.v 
Gen/Consts.vos Gen/Consts.vok Gen/Consts.required_vos: Gen/Consts.v 
Gen/Enums.vo Gen/Enums.glob Gen/Enums.v.beautified Gen/Enums.required_vo: Gen/Enums.v 
Gen/Enums.vio: Gen/Enums.v 
Gen/Enums.vos Gen/Enums.vok Gen/Enums.required_vos: Gen/Enums.v 
Gen/Layouts.vo Gen/Layouts.glob Gen/Layouts.v.beautified Gen/Layouts.required_vo: Gen/Layouts.v Base/Layout.vo
Gen/Layouts.vio: Gen/Layouts.v Base/Layout.vio
Gen/Layouts.vos Gen/Layouts.vok Gen/Layouts.required_vos: Gen/Layouts.v Base/Layout.vos
Gen/VmdkTables.vo Gen/VmdkTables.glob Gen/VmdkTables.v.beautified Gen/VmdkTables.required_vo: Gen/VmdkTables.v 
Gen/VmdkTables.vio: Gen/VmdkTables.v 
Gen/VmdkTables.vos Gen/VmdkTables.vok Gen/VmdkTables.required_vos: Gen/VmdkTables.v 
Model/Vhd.vo Model/Vhd.glob Model/Vhd.v.beautified Model/Vhd.required_vo: Model/Vhd.v Base/Arith.vo Base/Plan.vo Base/Table.vo Gen/Consts.vo
Model/Vhd.vio: Model/Vhd.v Base/Arith.vio Base/Plan.vio Base/Table.vio Gen/Consts.vio
Model/Vhd.vos Model/Vhd.vok Model/Vhd.required_vos: Model/Vhd.v Base/Arith.vos Base/Plan.vos Base/Table.vos Gen/Consts.vos
Model/Vmdk.vo Model/Vmdk.glob Model/Vmdk.v.beautified Model/Vmdk.required_vo: Model/Vmdk.v Base/Arith.vo Base/Plan.vo Base/Table.vo Base/Layout.vo Gen/Consts.vo Gen/Layouts.vo Gen/VmdkTables.vo
Model/Vmdk.vio: Model/Vmdk.v Base/Arith.vio Base/Plan.vio Base/Table.vio Base/Layout.vio Gen/Consts.vio Gen/Layouts.vio Gen/VmdkTables.vio
Model/Vmdk.vos Model/Vmdk.vok Model/Vmdk.required_vos: Model/Vmdk.v Base/Arith.vos Base/Plan.vos Base/Table.vos Base/Layout.vos Gen/Consts.vos Gen/Layouts.vos Gen/VmdkTables.vos
Model/VmdkDesc.vo Model/VmdkDesc.glob Model/VmdkDesc.v.beautified Model/VmdkDesc.required_vo: Model/VmdkDesc.v Base/Arith.vo Base/Plan.vo Base/Table.vo Model/Vmdk.vo Gen/VmdkTables.vo
Model/VmdkDesc.vio: Model/VmdkDesc.v Base/Arith.vio Base/Plan.vio Base/Table.vio Model/Vmdk.vio Gen/VmdkTables.vio
Model/VmdkDesc.vos Model/VmdkDesc.vok Model/VmdkDesc.required_vos: Model/VmdkDesc.v Base/Arith.vos Base/Plan.vos Base/Table.vos Model/Vmdk.vos Gen/VmdkTables.vos
Proofs/Vhd.vo Proofs/Vhd.glob Proofs/Vhd.v.beautified Proofs/Vhd.required_vo: Proofs/Vhd.v Base/Arith.vo Base/Plan.vo Base/Table.vo Model/Vhd.vo
Proofs/Vhd.vio: Proofs/Vhd.v Base/Arith.vio Base/Plan.vio Base/Table.vio Model/Vhd.vio
Proofs/Vhd.vos Proofs/Vhd.vok Proofs/Vhd.required_vos: Proofs/Vhd.v Base/Arith.vos Base/Plan.vos Base/Table.vos Model/Vhd.vos
Proofs/Vmdk.vo Proofs/Vmdk.glob Proofs/Vmdk.v.beautified Proofs/Vmdk.required_vo: Proofs/Vmdk.v Base/Arith.vo Base/Plan.vo Base/Table.vo Base/Layout.vo Model/Vmdk.vo
Proofs/Vmdk.vio: Proofs/Vmdk.v Base/Arith.vio Base/Plan.vio Base/Table.vio Base/Layout.vio Model/Vmdk.vio
Proofs/Vmdk.vos Proofs/Vmdk.vok Proofs/Vmdk.required_vos: Proofs/Vmdk.v Base/Arith.vos Base/Plan.vos Base/Table.vos Base/Layout.vos Model/Vmdk.vos
Proofs/VmdkDesc.vo Proofs/VmdkDesc.glob Proofs/VmdkDesc.v.beautified Proofs/VmdkDesc.required_vo: Proofs/VmdkDesc.v Base/Arith.vo Base/Plan.vo Base/Table.vo Model/Vmdk.vo Model/VmdkDesc.vo Proofs/Vmdk.vo
Proofs/VmdkDesc.vio: Proofs/VmdkDesc.v Base/Arith.vio Base/Plan.vio Base/Table.vio Model/Vmdk.vio Model/VmdkDesc.vio Proofs/Vmdk.vio
Proofs/VmdkDesc.vos Proofs/VmdkDesc.vok Proofs/VmdkDesc.required_vos: Proofs/VmdkDesc.v Base/Arith.vos Base/Plan.vos Base/Table.vos Model/Vmdk.vos Model/VmdkDesc.vos Proofs/Vmdk.vos
Props/C02.vo Props/C02.glob Props/C02.v.beautified Props/C02.required_vo: Props/C02.v Base/Plan.vo Base/Table.vo Model/Vmdk.vo Proofs/Vmdk.vo
Props/C02.vio: Props/C02.v Base/Plan.vio Base/Table.vio Model/Vmdk.vio Proofs/Vmdk.vio
Props/C02.vos Props/C02.vok Props/C02.required_vos: Props/C02.v Base/Plan.vos Base/Table.vos Model/Vmdk.vos Proofs/Vmdk.vos
Props/C04.vo Props/C04.glob Props/C04.v.beautified Props/C04.required_vo: Props/C04.v Base/Plan.vo Base/Table.vo Model/Vhd.vo Proofs/Vhd.vo
Props/C04.vio: Props/C04.v Base/Plan.vio Base/Table.vio Model/Vhd.vio Proofs/Vhd.vio
Props/C04.vos Props/C04.vok Props/C04.required_vos: Props/C04.v Base/Plan.vos Base/Table.vos Model/Vhd.vos Proofs/Vhd.vos
Props/C10.vo Props/C10.glob Props/C10.v.beautified Props/C10.required_vo: Props/C10.v Base/Plan.vo Base/Table.vo Model/Vmdk.vo Model/VmdkDesc.vo Proofs/Vmdk.vo Proofs/VmdkDesc.vo
Props/C10.vio: Props/C10.v Base/Plan.vio Base/Table.vio Model/Vmdk.vio Model/VmdkDesc.vio Proofs/Vmdk.vio Proofs/VmdkDesc.vio
Props/C10.vos Props/C10.vok Props/C10.required_vos: Props/C10.v Base/Plan.vos Base/Table.vos Model/Vmdk.vos Model/VmdkDesc.vos Proofs/Vmdk.vos Proofs/VmdkDesc.vos
