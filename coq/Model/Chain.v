(* Model/Chain.v — layers over parents.  A layer's reader returns a plan that may contain
   SParent segments; reading a chain resolves each of them by reading the next layer at the
   same guest range, down to zeros below the base. *)
From Coq Require Import ZArith List Bool.
From DH Require Import Base.Plan.
Import ListNotations.
Open Scope Z_scope.

(* a byte's final origin: which layer's file (depth 0 = top), or zero *)
Inductive lsrc : Type :=
| LZero
| LFile (depth : nat) (o : Z)
| LData (depth : nat) (o : Z)
| LInfl (depth : nat) (d k : Z).

Record layer := {
  l_read : Z -> Z -> res (list seg);     (* the layer's reader (fuel already chosen) *)
  l_src : Z -> src;                      (* the layer's own pointwise spec; Parent o = "not held here" *)
}.

Definition lsrcs_of_seg (depth : nat) (s : seg) : list lsrc :=
  match s with
  | SZero n => map (fun _ => LZero) (zseq 0 n)
  | SFile o n => map (LFile depth) (zseq o n)
  | SData o n => map (LData depth) (zseq o n)
  | SInfl d k n => map (LInfl depth d) (zseq k n)
  | SParent o n => []                    (* resolved by the caller *)
  end.

Fixpoint chain_read (ls : list layer) (depth : nat) (off n : Z) : res (list lsrc) :=
  match ls with
  | [] => Ok (map (fun _ => LZero) (zseq off n))          (* below the base *)
  | l :: rest =>
    do p <- l_read l off n;
    (fix go (segs : list seg) : res (list lsrc) :=
       match segs with
       | [] => Ok []
       | s :: t =>
         do a <- (match s with
                  | SParent o m => if m <=? 0 then Ok [] else chain_read rest (S depth) o m
                  | _ => Ok (lsrcs_of_seg depth s)
                  end);
         do b <- go t;
         Ok (a ++ b)
       end) p
  end.

(* a layer whose image is shorter than the chain above it (an overlay created larger than its base): the stream of the
   short image ends at sz, the layer above zero-extends what it gets (`.read(n).ljust(n, b"\0")`) *)
Definition clip_layer (sz : Z) (l : layer) : layer :=
  {| l_read := fun off n =>
       let m := Z.min n (sz - off) in
       if m <=? 0 then Ok [SZero n]
       else do p <- l_read l off m; Ok (if m <? n then p ++ [SZero (n - m)] else p);
     l_src := fun o => if o <? sz then l_src l o else Zero |}.

(* ---------- specification: topmost layer that holds the byte ---------- *)
Fixpoint chain_src (ls : list layer) (depth : nat) (o : Z) : lsrc :=
  match ls with
  | [] => LZero
  | l :: rest =>
    match l_src l o with
    | Zero => LZero
    | File x => LFile depth x
    | Data x => LData depth x
    | Infl d k => LInfl depth d k
    | Parent o' => chain_src rest (S depth) o'
    end
  end.

(* ---------- run-length form of a resolved read, for printing ---------- *)
Inductive lseg : Type :=
| LSZero (n : Z)
| LSFile (depth : nat) (o n : Z)
| LSData (depth : nat) (o n : Z)
| LSInfl (depth : nat) (d k n : Z).

Definition lseg_push (s : lsrc) (acc : list lseg) : list lseg :=
  match s, acc with
  | LZero, LSZero n :: r => LSZero (n + 1) :: r
  | LFile d o, LSFile d' o' n :: r =>
      if Nat.eqb d d' && (o' =? o + 1) then LSFile d o (n + 1) :: r else LSFile d o 1 :: acc
  | LData d o, LSData d' o' n :: r =>
      if Nat.eqb d d' && (o' =? o + 1) then LSData d o (n + 1) :: r else LSData d o 1 :: acc
  | LInfl d a k, LSInfl d' a' k' n :: r =>
      if Nat.eqb d d' && (a' =? a) && (k' =? k + 1) then LSInfl d a k (n + 1) :: r else LSInfl d a k 1 :: acc
  | LZero, _ => LSZero 1 :: acc
  | LFile d o, _ => LSFile d o 1 :: acc
  | LData d o, _ => LSData d o 1 :: acc
  | LInfl d a k, _ => LSInfl d a k 1 :: acc
  end.

Definition compress (l : list lsrc) : list lseg := fold_right lseg_push [] l.

Definition chain_read_c (ls : list layer) (off n : Z) : res (list lseg) :=
  match chain_read ls 0 off n with Ok r => Ok (compress r) | Err => Err | Fuel => Fuel end.

Definition chain_spec_c (ls : list layer) (off n : Z) : list lseg :=
  compress (map (chain_src ls 0) (zseq off n)).
