(* Model/XmlTree.v — the element tree produced by the XML parser (an oracle:
   the harness dumps the tree the real parser built) and an evaluator for
   exactly the ElementPath shapes the descriptor parsers use.  No proofs.

   ElementPath semantics follow CPython 3.12 xml/etree/ElementPath.py:
     tag            children of each context element with that tag
     .              the context elements
     //tag          every descendant (document order, not the element itself) with that tag
     [@k]           keep elements that have attribute k
     [@k='v']       keep elements whose attribute k equals v
     [tag='v']      keep elements with a child <tag> whose itertext() joins to v
   A '/' directly before a predicate is skipped by the path compiler. *)
From Coq Require Import ZArith List Bool.
Import ListNotations.
Open Scope Z_scope.
From DH Require Import Model.Text.

Inductive elem : Type :=
| Elem (tag : str) (attrs : list (str * str)) (text tail : option str) (kids : list elem).

Definition e_tag (e : elem) : str := match e with Elem t _ _ _ _ => t end.
Definition e_attrs (e : elem) : list (str * str) := match e with Elem _ a _ _ _ => a end.
Definition e_text (e : elem) : option str := match e with Elem _ _ t _ _ => t end.
Definition e_tail (e : elem) : option str := match e with Elem _ _ _ t _ => t end.
Definition e_kids (e : elem) : list elem := match e with Elem _ _ _ _ k => k end.

Definition ostr (o : option str) : str := match o with Some s => s | None => [] end.

(* Element.get(k) *)
Definition attr_get (k : str) (e : elem) : option str := dget k (e_attrs e).

Definition tag_is (t : str) (e : elem) : bool := str_eqb (e_tag e) t.

(* "".join(e.itertext()) *)
Fixpoint itertext (e : elem) : str :=
  match e with
  | Elem _ _ tx _ ks => ostr tx ++ flat_map (fun k => itertext k ++ ostr (e_tail k)) ks
  end.

(* list(e.iter()): the element and all descendants, document order *)
Fixpoint iter_all (e : elem) : list elem :=
  match e with
  | Elem _ _ _ _ ks => e :: flat_map iter_all ks
  end.

Definition descendants (e : elem) : list elem := flat_map iter_all (e_kids e).

Inductive step : Type :=
| SSelf
| SChild (t : str)
| SDesc (t : str)
| PAttr (k : str)
| PAttrEq (k v : str)
| PKidText (t v : str).

Definition eval_step (s : step) (r : list elem) : list elem :=
  match s with
  | SSelf => r
  | SChild t => flat_map (fun e => filter (tag_is t) (e_kids e)) r
  | SDesc t => flat_map (fun e => filter (tag_is t) (descendants e)) r
  | PAttr k => filter (fun e => match attr_get k e with Some _ => true | None => false end) r
  | PAttrEq k v => filter (fun e => match attr_get k e with Some x => str_eqb x v | None => false end) r
  | PKidText t v =>
      filter (fun e => existsb (fun k => tag_is t k && str_eqb (itertext k) v) (e_kids e)) r
  end.

(* elem.findall(path) *)
Definition eval_path (p : list step) (e : elem) : list elem :=
  fold_left (fun r s => eval_step s r) p [e].

(* elem.find(tag) for a plain tag *)
Definition find_child (t : str) (e : elem) : option elem := find (tag_is t) (e_kids e).
