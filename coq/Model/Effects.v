(* Model/Effects.v — decision procedures over the generated effect inventory (Gen/Effects.v).
   The inventory itself is the model of C09; nothing here is proved. *)
From Coq Require Import String Ascii ZArith List Bool.
From DH Require Import Gen.Effects.
Import ListNotations.
Open Scope string_scope.

Definition CLI_MODULE : string := "dissect/hypervisor/tools/envelope.py".
Definition CLI_FUNC : string := "main".
Definition CLI_TARGET : string := "args.output".

(* a mode string opens for reading only iff it has none of w a x + *)
Definition write_chars : list ascii := ["w"%char; "a"%char; "x"%char; "+"%char].
Definition mode_readonly (m : string) : bool :=
  negb (existsb (fun c => existsb (Ascii.eqb c) write_chars) (list_ascii_of_string m)).

Definition cli_output_open (o : open_site) : bool :=
  String.eqb (o_module o) CLI_MODULE && String.eqb (o_func o) CLI_FUNC && String.eqb (o_target o) CLI_TARGET.

Definition forwards_callers_mode (o : open_site) : bool :=
  match o_kind o with PassThrough | LocalFunction => true | _ => false end.

Definition open_readonly (o : open_site) : bool :=
  match o_mode o with MLit m => mode_readonly m | _ => false end.

Definition open_okb (o : open_site) : bool :=
  forwards_callers_mode o || open_readonly o || (cli_output_open o && match o_mode o with MLit _ => true | _ => false end).

Definition recv_eqb (a b : recv) : bool :=
  match a, b with
  | PrivateBuffer, PrivateBuffer | CliOutput, CliOutput | PureValue, PureValue | Unknown, Unknown => true
  | _, _ => false
  end.

Definition mut_okb (c : mut_call) : bool :=
  match m_recv c with
  | PrivateBuffer | PureValue => true
  | CliOutput => String.eqb (m_module c) CLI_MODULE && String.eqb (m_func c) CLI_FUNC
  | Unknown => false
  end.

(* "a.b.c" -> "a" *)
Fixpoint root_chars (l : list ascii) : list ascii :=
  match l with
  | [] => []
  | c :: r => if Ascii.eqb c "."%char then [] else c :: root_chars r
  end.
Definition root_of (s : string) : string := string_of_list_ascii (root_chars (list_ascii_of_string s)).

Definition fs_modules : list string := ["shutil"; "subprocess"; "tempfile"].
Definition import_okb (i : string * string * string) : bool :=
  let '(_, imp, _) := i in negb (existsb (String.eqb (root_of imp)) fs_modules).

Definition os_use_okb (u : string * string) : bool := String.eqb (snd u) "getenv".

Definition anchors : list string :=
  ["dissect/hypervisor/disk/vmdk.py"; "dissect/hypervisor/disk/vhdx.py"; "dissect/hypervisor/disk/hdd.py";
   "dissect/hypervisor/util/vmtar.py"; "dissect/hypervisor/util/envelope.py"; "dissect/hypervisor/tools/envelope.py";
   "dissect/hypervisor/descriptor/hyperv.py"].
Definition mem_str (s : string) (l : list string) : bool := existsb (String.eqb s) l.
