(* Model/AlignedStreamB.v — the same AlignedStream state machine as Model/AlignedStream.v, but over
   actual element lists: the back end returns a list of bytes (any type B), buffers hold bytes, reads
   return bytes.  Used for the byte-level refinement theorem; the range model is what the
   correspondence executes (it is this model with every byte list replaced by its extent). *)
From Coq Require Import ZArith List Bool.
From DH Require Import Base.Plan Model.AlignedStream.
Import ListNotations.
Open Scope Z_scope.

Section StreamB.
  Context {B : Type}.
  Variable size : Z.
  Variable align : Z.
  Variable bread : Z -> Z -> res (list B).      (* _read(off, len) *)

  Record bstate := { b_pos : Z; b_pos_align : Z; b_buf : option (list B) }.

  Definition binit : bstate := {| b_pos := 0; b_pos_align := 0; b_buf := None |}.

  Definition bset_pos (st : bstate) (p : Z) : bstate :=
    let npa := p - p mod align in
    if b_pos_align st =? npa then {| b_pos := p; b_pos_align := b_pos_align st; b_buf := b_buf st |}
    else {| b_pos := p; b_pos_align := npa; b_buf := None |}.

  (* python slice l[a:b] for 0 <= a *)
  Definition pyslice (l : list B) (a b : Z) : list B :=
    firstn (Z.to_nat (b - a)) (skipn (Z.to_nat a) l).

  Definition bbuf_nonempty (b : option (list B)) : bool :=
    match b with Some (_ :: _) => true | _ => false end.

  Definition bfill_buf (st : bstate) : res bstate :=
    if bbuf_nonempty (b_buf st) || (size <=? b_pos st) || (size <=? b_pos_align st) then Ok st
    else do l <- bread (b_pos_align st) align;
         Ok {| b_pos := b_pos st; b_pos_align := b_pos_align st; b_buf := Some l |}.

  Definition bbuf_slice (st : bstate) (a b : Z) : res (list B) :=
    match b_buf st with Some l => Ok (pyslice l a b) | None => Err end.

  Definition bpstate := (bstate * list B * Z)%type.

  Definition bphase1 (x : bpstate) : res bpstate :=
    let '(st, out, n) := x in
    if negb (b_pos st =? b_pos_align st) then
      do st1 <- bfill_buf st;
      let buffer_pos := b_pos st1 - b_pos_align st1 in
      let buffer_len := Z.min n (align - buffer_pos) in
      do piece <- bbuf_slice st1 buffer_pos (buffer_pos + buffer_len);
      Ok (bset_pos st1 (b_pos st1 + buffer_len), out ++ piece, n - buffer_len)
    else Ok x.

  Definition bphase2 (x : bpstate) : res bpstate :=
    let '(st, out, n) := x in
    if align <=? n then
      let read_len := n / align * align in
      do l <- bread (b_pos st) read_len;
      Ok (bset_pos st (b_pos st + read_len), out ++ l, n mod align)
    else Ok x.

  Definition bphase3 (x : bpstate) : res (bstate * list B) :=
    let '(st, out, n) := x in
    if 0 <? n then
      do st3 <- bfill_buf st;
      do piece <- bbuf_slice st3 0 n;
      Ok (bset_pos st3 (b_pos st3 + n), out ++ piece)
    else Ok (st, out).

  Definition bread_op (st : bstate) (n : Z) : res (bstate * list B) :=
    if n <? -1 then Err else
    let remaining := size - b_pos st in
    let n := if n =? -1 then remaining else Z.min n remaining in
    if (n =? 0) || (size <=? b_pos st) then Ok (st, []) else
    do x1 <- bphase1 (st, [], n);
    do x2 <- bphase2 x1;
    bphase3 x2.

  Definition bseek (st : bstate) (p : Z) (w : whence) : res (bstate * Z) :=
    match w with
    | SEEK_SET => if p <? 0 then Err else Ok (bset_pos st p, p)
    | SEEK_CUR => let p' := Z.max 0 (b_pos st + p) in Ok (bset_pos st p', p')
    | SEEK_END => let p' := Z.max 0 (size + p) in Ok (bset_pos st p', p')
    end.

  Inductive bout := BBytes (l : list B) | BPos (p : Z) | BErr.

  Definition bstep (st : bstate) (o : sop) : res (bstate * bout) :=
    match o with
    | OpSeek p w => do r <- bseek st p w; Ok (fst r, BPos (snd r))
    | OpRead n => do r <- bread_op st n; Ok (fst r, BBytes (snd r))
    | OpPeek n => do r <- bread_op st n; Ok (bset_pos (fst r) (b_pos st), BBytes (snd r))
    | OpReadOffset off n =>
        do r <- bseek st off SEEK_SET; do r' <- bread_op (fst r) n; Ok (fst r', BBytes (snd r'))
    | OpTell => Ok (st, BPos (b_pos st))
    end.

  Fixpoint brun (st : bstate) (ops : list sop) : res (bstate * list bout) :=
    match ops with
    | [] => Ok (st, [])
    | o :: rest =>
      match bstep st o with
      | Ok r => do r' <- brun (fst r) rest; Ok (fst r', snd r :: snd r')
      | Err => do r' <- brun st rest; Ok (fst r', BErr :: snd r')
      | Fuel => Fuel
      end
    end.

  (* the immutable byte array with a cursor *)
  Variable content : Z -> B.
  Definition array_out (o : sout) : bout :=
    match o with
    | OutBytes rs => BBytes (map content (flat rs))
    | OutPos p => BPos p
    | OutErr => BErr
    end.
End StreamB.
