(* Model/VmxCrypto.v — the encrypted-VMX path of dissect/hypervisor/descriptor/vmx.py
   as executable Gallina (NO proofs here), followed by the specification (the writer).

   Text is [list Z] of code points, bytes are [list Z] with 0 <= b < 256.

   AES-CBC, HMAC and PBKDF2 are NOT modelled: the code that uses them is written as a
   *call plan* ([plan]): a tree whose nodes name a primitive call and whose continuation
   receives the primitive's answer.  [run o p] interprets a plan with arbitrary oracle
   functions [o] (the theorems quantify over them); [run_tbl] interprets it with a finite
   table of recorded answers (used by the correspondence, which fills the table with the
   answers of hashlib / pycryptodome) and reports the sequence of calls made.

   [_decrypt_hmac] is modelled for the REPAIRED code:
   - fixes/C15-hmac-truncation.diff: the computed digest is truncated to the size the
     HMAC_MAP entry names before it is compared with the stored MAC;
   - fixes/C15-pkcs7-padding.diff: PKCS#7 padding bytes are validated, not just counted. *)
From Coq Require Import String Ascii ZArith List Bool Lia.
From DH Require Gen.Consts.
Import ListNotations.
Open Scope Z_scope.

Definition str := list Z.
Definition bytes := list Z.

Definition len {A} (l : list A) : Z := Z.of_nat (length l).

Fixpoint list_eqb (a b : list Z) : bool :=
  match a, b with
  | [], [] => true
  | x :: a', y :: b' => (x =? y) && list_eqb a' b'
  | _, _ => false
  end.

(* code points of an ASCII Coq string literal *)
Fixpoint cps (s : string) : str :=
  match s with
  | EmptyString => []
  | String a r => Z.of_N (N_of_ascii a) :: cps r
  end.

(* ---------- outcomes: which exception class the implementation raises ---------- *)
Inductive exc := EValue | EKey | EType | EIndex | ENotImpl | EAttr | EOverflow.

Inductive xres (A : Type) : Type :=
| XOk (a : A)
| XExc (e : exc)
| XFuel.
Arguments XOk {A} a.
Arguments XExc {A} e.
Arguments XFuel {A}.

Definition xbind {A B} (r : xres A) (f : A -> xres B) : xres B :=
  match r with XOk a => f a | XExc e => XExc e | XFuel => XFuel end.
Notation "'dox' x <- r ; k" := (xbind r (fun x => k))
  (at level 200, x name, r at level 100, k at level 200).

Definition of_opt {A} (e : exc) (o : option A) : xres A :=
  match o with Some a => XOk a | None => XExc e end.

Fixpoint mapx {A B} (f : A -> xres B) (l : list A) : xres (list B) :=
  match l with
  | [] => XOk []
  | a :: r => dox b <- f a; dox bs <- mapx f r; XOk (b :: bs)
  end.

(* ---------- Python str helpers ---------- *)
(* s.partition(sep) for a one-character sep: (before, after); after = "" when absent *)
Fixpoint partition_on (sep : Z) (s : str) : str * str :=
  match s with
  | [] => ([], [])
  | c :: r => if c =? sep then ([], r)
              else let '(a, b) := partition_on sep r in (c :: a, b)
  end.

(* s.split(sep) for a one-character sep: always at least one element *)
Fixpoint split_on (sep : Z) (s : str) : list str :=
  match s with
  | [] => [[]]
  | c :: r =>
      if c =? sep then [] :: split_on sep r
      else match split_on sep r with
           | h :: t => (c :: h) :: t
           | [] => [[c]]
           end
  end.

Fixpoint dropwhile {A} (f : A -> bool) (l : list A) : list A :=
  match l with
  | [] => []
  | a :: r => if f a then dropwhile f r else l
  end.

Fixpoint takewhile {A} (f : A -> bool) (l : list A) : list A :=
  match l with
  | [] => []
  | a :: r => if f a then a :: takewhile f r else []
  end.

Definition strip_set (f : Z -> bool) (s : str) : str :=
  rev (dropwhile f (rev (dropwhile f s))).

(* str.isspace() code points (CPython 3.12 Unicode database) *)
Definition is_space (c : Z) : bool :=
  ((9 <=? c) && (c <=? 13)) || ((28 <=? c) && (c <=? 32)) || (c =? 133) || (c =? 160) ||
  (c =? 5760) || ((8192 <=? c) && (c <=? 8202)) || (c =? 8232) || (c =? 8233) ||
  (c =? 8239) || (c =? 8287) || (c =? 12288).

Definition strip_ws := strip_set is_space.
Definition strip_sq := strip_set (fun c => (c =? 32) || (c =? 34)).    (* .strip(space, double quote) *)

(* str.lower(): ASCII only (other code points unchanged; see notes/C15.md) *)
Definition lower_cp (c : Z) : Z := if (65 <=? c) && (c <=? 90) then c + 32 else c.

(* ---------- Python dict with insertion order ---------- *)
Definition dict := list (str * str).

Fixpoint dict_get (d : dict) (k : str) : option str :=
  match d with
  | [] => None
  | (k', v) :: r => if list_eqb k' k then Some v else dict_get r k
  end.

Fixpoint dict_set (d : dict) (k v : str) : dict :=
  match d with
  | [] => [(k, v)]
  | (k', v') :: r => if list_eqb k' k then (k', v) :: r else (k', v') :: dict_set r k v
  end.

Definition dict_update (d d2 : dict) : dict :=
  fold_left (fun acc kv => dict_set acc (fst kv) (snd kv)) d2 d.

(* _parse_dictionary *)
Definition parse_line (d : dict) (line : str) : dict :=
  let line := strip_ws line in
  match line with
  | [] => d
  | c :: _ =>
      if c =? 35 then d else
      let '(k, v) := partition_on 61 line in
      dict_set d (map lower_cp (strip_ws k)) (strip_sq v)
  end.

Definition parse_dictionary (text : str) : dict :=
  fold_left parse_line (split_on 10 text) [].

(* ---------- codecs the code calls: UTF-8, base64, urllib unquote, int() ---------- *)
Definition is_cont (b : Z) : bool := (128 <=? b) && (b <=? 191).

(* bytes.decode("utf-8", errors = strict | replace) as CPython does it: an invalid
   sequence is the longest valid prefix of a sequence (at least one byte). *)
Fixpoint utf8_dec (rep : bool) (bs : bytes) : option str :=
  match bs with
  | [] => Some []
  | b0 :: r =>
    let bad (rest : option str) : option str :=
      if rep then option_map (cons 65533) rest else None in
    if b0 <? 128 then option_map (cons b0) (utf8_dec rep r)
    else if (b0 <? 194) || (244 <? b0) then bad (utf8_dec rep r)
    else if b0 <? 224 then
      match r with
      | b1 :: r1 =>
          if is_cont b1 then option_map (cons ((b0 - 192) * 64 + (b1 - 128))) (utf8_dec rep r1)
          else bad (utf8_dec rep r)
      | [] => bad (Some [])
      end
    else if b0 <? 240 then
      let lo := if b0 =? 224 then 160 else 128 in
      let hi := if b0 =? 237 then 159 else 191 in
      match r with
      | b1 :: r1 =>
          if (lo <=? b1) && (b1 <=? hi) then
            match r1 with
            | b2 :: r2 =>
                if is_cont b2
                then option_map (cons (((b0 - 224) * 64 + (b1 - 128)) * 64 + (b2 - 128))) (utf8_dec rep r2)
                else bad (utf8_dec rep r1)
            | [] => bad (Some [])
            end
          else bad (utf8_dec rep r)
      | [] => bad (Some [])
      end
    else
      let lo := if b0 =? 240 then 144 else 128 in
      let hi := if b0 =? 244 then 143 else 191 in
      match r with
      | b1 :: r1 =>
          if (lo <=? b1) && (b1 <=? hi) then
            match r1 with
            | b2 :: r2 =>
                if is_cont b2 then
                  match r2 with
                  | b3 :: r3 =>
                      if is_cont b3
                      then option_map
                             (cons ((((b0 - 240) * 64 + (b1 - 128)) * 64 + (b2 - 128)) * 64 + (b3 - 128)))
                             (utf8_dec rep r3)
                      else bad (utf8_dec rep r2)
                  | [] => bad (Some [])
                  end
                else bad (utf8_dec rep r1)
            | [] => bad (Some [])
            end
          else bad (utf8_dec rep r)
      | [] => bad (Some [])
      end
  end.

Definition utf8_strict (bs : bytes) : xres str := of_opt EValue (utf8_dec false bs).
Definition utf8_replace (bs : bytes) : str :=
  match utf8_dec true bs with Some s => s | None => [] end.

(* base64 alphabet *)
Definition b64val (c : Z) : option Z :=
  if (65 <=? c) && (c <=? 90) then Some (c - 65)
  else if (97 <=? c) && (c <=? 122) then Some (c - 71)
  else if (48 <=? c) && (c <=? 57) then Some (c + 4)
  else if c =? 43 then Some 62
  else if c =? 47 then Some 63
  else None.

(* binascii.a2b_base64(s, strict_mode=False): characters outside the alphabet are
   skipped; decoding stops at a complete pad sequence; a dangling quad is an error. *)
Fixpoint a2b_go (s : str) (quad left pads : Z) : option bytes :=
  match s with
  | [] => if quad =? 0 then Some [] else None
  | c :: r =>
      if c =? 61 then
        if (2 <=? quad) && (4 <=? quad + pads + 1) then Some []
        else a2b_go r quad left (if 2 <=? quad then pads + 1 else pads)
      else
        match b64val c with
        | None => a2b_go r quad left pads
        | Some v =>
            if quad =? 0 then a2b_go r 1 v 0
            else if quad =? 1 then option_map (cons (left * 4 + v / 16)) (a2b_go r 2 (v mod 16) 0)
            else if quad =? 2 then option_map (cons (left * 16 + v / 4)) (a2b_go r 3 (v mod 4) 0)
            else option_map (cons (left * 64 + v)) (a2b_go r 0 0 0)
        end
  end.

(* base64.b64decode(str): non-ASCII text is a ValueError, bad padding a binascii.Error (ValueError) *)
Definition b64decode_str (s : str) : xres bytes :=
  if existsb (fun c => 128 <=? c) s then XExc EValue
  else of_opt EValue (a2b_go s 0 0 0).

Definition hexval (c : Z) : option Z :=
  if (48 <=? c) && (c <=? 57) then Some (c - 48)
  else if (97 <=? c) && (c <=? 102) then Some (c - 87)
  else if (65 <=? c) && (c <=? 70) then Some (c - 55)
  else None.

(* urllib.parse.unquote(s) (utf-8, errors="replace"): every maximal ASCII run is
   percent-decoded to bytes and decoded as UTF-8 with replacement; [pend] holds the bytes of
   the current run in reverse. *)
Fixpoint unq_walk (s : str) (pend : bytes) : str :=
  match s with
  | [] => utf8_replace (rev pend)
  | c :: r =>
      if 128 <=? c then utf8_replace (rev pend) ++ c :: unq_walk r []
      else if c =? 37 then
        match r with
        | h1 :: h2 :: r' =>
            match hexval h1, hexval h2 with
            | Some a, Some b => unq_walk r' ((a * 16 + b) :: pend)
            | _, _ => unq_walk r (c :: pend)
            end
        | _ => unq_walk r (c :: pend)
        end
      else unq_walk r (c :: pend)
  end.

Definition unquote (s : str) : str := unq_walk s [].

(* int(str): surrounding whitespace, optional sign, decimal digits with single
   underscores between digits (ASCII digits only; see notes/C15.md) *)
Fixpoint digits_go (s : str) (acc : Z) (prev_us : bool) : option Z :=
  match s with
  | [] => if prev_us then None else Some acc
  | c :: r =>
      if c =? 95 then (if prev_us then None else digits_go r acc true)
      else if (48 <=? c) && (c <=? 57) then digits_go r (acc * 10 + (c - 48)) false
      else None
  end.

Definition parse_int (s : str) : option Z :=
  match strip_ws s with
  | [] => None
  | c :: r =>
      if c =? 45 then option_map Z.opp (digits_go r 0 true)
      else if c =? 43 then digits_go r 0 true
      else digits_go (c :: r) 0 true
  end.

(* ---------- _split_list ---------- *)
(* index of the last occurrence of c *)
Fixpoint last_index (c : Z) (s : str) (i : Z) (found : option Z) : option Z :=
  match s with
  | [] => found
  | x :: r => last_index c r (i + 1) (if x =? c then Some i else found)
  end.

(* the character loop: returns the members with the (possibly empty) last buffer last *)
Fixpoint members_go (s : str) (level : Z) : list str :=
  match s with
  | [] => [[]]
  | c :: r =>
      if (c =? 44) && (level =? 0) then [] :: members_go r level
      else
        let level' := if c =? 40 then level + 1 else if c =? 41 then level - 1 else level in
        match members_go r level' with
        | h :: t => (c :: h) :: t
        | [] => [[c]]
        end
  end.

(* "if buf: members.append(buf)" *)
Fixpoint drop_empty_last (l : list str) : list str :=
  match l with
  | [] => []
  | [x] => match x with [] => [] | _ => [x] end
  | x :: r => x :: drop_empty_last r
  end.

(* re.match(r"\((.+)\)", value): '(' then as much as possible of the first line, up to its last ')' *)
Definition split_list (v : str) : xres (list str) :=
  match v with
  | 40 :: rest =>
      let line := takewhile (fun c => negb (c =? 10)) rest in
      match last_index 41 line 0 None with
      | Some i => if 1 <=? i then XOk (drop_empty_last (members_go (firstn (Z.to_nat i) line) 0))
                  else XExc EValue
      | None => XExc EValue
      end
  | _ => XExc EValue
  end.

(* _parse_crypto_dict: key=value parts separated by ':' ; values URL-unquoted; last wins *)
Definition parse_crypto_dict (s : str) : dict :=
  fold_left (fun d part => let '(k, v) := partition_on 61 part in dict_set d k (unquote v))
            (split_on 58 s) [].

(* ---------- key locators ---------- *)
Inductive locator :=
| LList (l : list locator)
| LPair (w : locator) (mac : str) (data : bytes)
| LPhrase (id p2k cipher : str) (rounds : Z) (salt : bytes).

(* _parse_key_locator (fuel bounds the nesting depth) *)
Fixpoint parse_key_locator (fuel : nat) (s : str) : xres locator :=
  match fuel with
  | O => XFuel
  | S f =>
    let '(ident, rem) := partition_on 47 s in
    if list_eqb ident (cps "list") then
      dox ms <- split_list rem;
      dox ls <- mapx (parse_key_locator f) ms;
      XOk (LList ls)
    else if list_eqb ident (cps "pair") then
      dox ms <- split_list rem;
      match ms with
      | [] => XExc EIndex
      | m0 :: t =>
          dox w <- parse_key_locator f m0;
          match t with
          | [] => XExc EIndex
          | m1 :: t' =>
              match t' with
              | [] => XExc EIndex
              | m2 :: _ => dox d <- b64decode_str (unquote m2); XOk (LPair w (unquote m1) d)
              end
          end
      end
    else if list_eqb ident (cps "phrase") then
      let '(pid, pdata) := partition_on 47 rem in
      let cd := parse_crypto_dict (unquote pdata) in
      dox p2k <- of_opt EKey (dict_get cd (cps "pass2key"));
      dox cipher <- of_opt EKey (dict_get cd (cps "cipher"));
      dox rs <- of_opt EKey (dict_get cd (cps "rounds"));
      dox rounds <- of_opt EValue (parse_int rs);
      dox ss <- of_opt EKey (dict_get cd (cps "salt"));
      dox salt <- b64decode_str ss;
      XOk (LPhrase (unquote pid) p2k cipher rounds salt)
    else XExc ENotImpl
  end.

(* KeySafe.from_text *)
Definition keysafe_from_text (t : str) : xres (list locator) :=
  let '(ident, rem) := partition_on 47 t in
  if negb (list_eqb ident (cps "vmware:key")) then XExc EValue else
  dox l <- parse_key_locator (S (length rem)) rem;
  match l with
  | LList ls => XOk ls
  | _ => XExc EType        (* all(... for member in <Pair|Phrase>) : not iterable *)
  end.

(* ---------- primitive calls and plans ---------- *)
Inductive call :=
| CPbkdf2 (h : str) (pw salt : bytes) (rounds dklen : Z)   (* hashlib.pbkdf2_hmac *)
| CAesDec (key iv ct : bytes)                              (* AES.new(key, MODE_CBC, iv).decrypt(ct) *)
| CHmac (h : str) (key msg : bytes).                       (* hmac.digest(key, msg, h) *)

Inductive plan (A : Type) : Type :=
| Ret (r : xres A)
| Call (c : call) (k : bytes -> plan A).
Arguments Ret {A} r.
Arguments Call {A} c k.

(* continue a plan with its outcome (used for try/except) *)
Fixpoint pcatch {A B} (p : plan A) (f : xres A -> plan B) : plan B :=
  match p with
  | Ret r => f r
  | Call c k => Call c (fun x => pcatch (k x) f)
  end.

Definition pbind {A B} (p : plan A) (f : A -> plan B) : plan B :=
  pcatch p (fun r => match r with XOk a => f a | XExc e => Ret (XExc e) | XFuel => Ret XFuel end).
Notation "'dop' x <- p ; k" := (pbind p (fun x => k))
  (at level 200, x name, p at level 100, k at level 200).

Definition lift {A} (r : xres A) : plan A := Ret r.

Record oracles := {
  o_pbkdf2 : str -> bytes -> bytes -> Z -> Z -> bytes;
  o_aes_dec : bytes -> bytes -> bytes -> bytes;
  o_hmac : str -> bytes -> bytes -> bytes;
}.

Definition answer (o : oracles) (c : call) : bytes :=
  match c with
  | CPbkdf2 h pw salt r n => o_pbkdf2 o h pw salt r n
  | CAesDec k iv ct => o_aes_dec o k iv ct
  | CHmac h k m => o_hmac o h k m
  end.

Fixpoint run {A} (o : oracles) (p : plan A) : xres A :=
  match p with
  | Ret r => r
  | Call c k => run o (k (answer o c))
  end.

(* ---------- table lookups in the GENERATED tables (Gen/Consts.v) ---------- *)
Fixpoint lookup_str {A} (tbl : list (string * A)) (k : str) : option A :=
  match tbl with
  | [] => None
  | (s, v) :: r => if list_eqb (cps s) k then Some v else lookup_str r k
  end.

Definition CIPHER_KEY_SIZES := Gen.Consts.vmx_CIPHER_KEY_SIZES.
Definition HMAC_MAP := Gen.Consts.vmx_HMAC_MAP.
Definition PASS2KEY_MAP := Gen.Consts.vmx_PASS2KEY_MAP.

(* ---------- Phrase.unwrap ---------- *)
Definition phrase_unwrap (p2k cipher : str) (rounds : Z) (salt pw : bytes) : plan bytes :=
  match lookup_str PASS2KEY_MAP p2k with
  | None => Ret (XExc EKey)
  | Some h =>
    match lookup_str CIPHER_KEY_SIZES cipher with
    | None => Ret (XExc EKey)
    | Some klen =>
        (* hashlib.pbkdf2_hmac argument checks *)
        if (rounds <? - 9223372036854775808) || (9223372036854775807 <? rounds) then Ret (XExc EOverflow)
        else if rounds <? 1 then Ret (XExc EValue)
        else if 2147483647 <? rounds then Ret (XExc EOverflow)
        else if klen <? 1 then Ret (XExc EValue)
        else Call (CPbkdf2 (cps h) pw salt rounds klen) (fun k => Ret (XOk k))
    end
  end.

(* ---------- _decrypt_hmac / _create_cipher ---------- *)
Definition valid_keylen (n : Z) : bool := (n =? 16) || (n =? 24) || (n =? 32).

(* data[16:-n] and data[-n:] with Python's slice clamping *)
Definition slice_enc (data : bytes) (n : Z) : bytes :=
  if n =? 0 then [] else firstn (Z.to_nat (len data - n - 16)) (skipn 16 data).
Definition slice_mac (data : bytes) (n : Z) : bytes :=
  if n =? 0 then data else skipn (Z.to_nat (len data - n)) data.

(* "if decrypted[-1] <= 16:" PKCS#7 padding.  REPAIRED code (fixes/C15-pkcs7-padding.diff):
   when the last byte announces padding, all padding bytes are checked before they are
   removed; a last byte above 16 still means "no padding" as in the original. *)
Definition pkcs7_strip (dec : bytes) (lastb : Z) : xres bytes :=
  if 16 <? lastb then XOk dec
  else if (lastb =? 0)
          || negb (list_eqb (skipn (Z.to_nat (len dec - lastb)) dec) (repeat lastb (Z.to_nat lastb)))
       then XExc EValue
  else XOk (firstn (Z.to_nat (len dec - lastb)) dec).

Definition decrypt_hmac (key data : bytes) (macname : str) : plan bytes :=
  match lookup_str HMAC_MAP macname with
  | None => Ret (XExc EKey)
  | Some (h, n) =>
      let iv := firstn 16 data in
      let enc := slice_enc data n in
      let mac := slice_mac data n in
      if negb (valid_keylen (len key)) then Ret (XExc EValue)        (* AES.new: key length *)
      else if negb (len iv =? 16) then Ret (XExc EValue)             (* AES.new: IV length *)
      else if negb (len enc mod 16 =? 0) then Ret (XExc EValue)      (* decrypt: block multiple *)
      else
        Call (CAesDec key iv enc) (fun dec =>
          match rev dec with
          | [] => Ret (XExc EIndex)                                  (* decrypted[-1] on b"" *)
          | lastb :: _ =>
              match pkcs7_strip dec lastb with
              | XOk dec' =>
                  Call (CHmac (cps h) key dec') (fun d =>
                    if list_eqb (firstn (Z.to_nat n) d) mac then Ret (XOk dec')
                    else Ret (XExc EValue))
              | XExc e => Ret (XExc e)
              | XFuel => Ret XFuel
              end
          end)
  end.

(* ---------- KeySafe.unseal_with_phrase ---------- *)
(* the body of the try block for one Phrase pair *)
Definition attempt (p2k cipher : str) (rounds : Z) (salt : bytes) (mac : str) (data pw : bytes)
  : plan (bytes * str) :=
  dop key <- phrase_unwrap p2k cipher rounds salt pw;
  dop dec <- decrypt_hmac key data mac;
  dop text <- lift (utf8_strict dec);
  let cd := parse_crypto_dict text in
  dop k64 <- lift (of_opt EKey (dict_get cd (cps "key")));
  dop k <- lift (b64decode_str k64);
  Ret (XOk (k, mac)).

Fixpoint unseal (locs : list locator) (pw : bytes) : plan (bytes * str) :=
  match locs with
  | [] => Ret (XExc EValue)                       (* "No compatible locator" *)
  | l :: rest =>
      match l with
      | LPair (LPhrase _ p2k cipher rounds salt) mac data =>
          pcatch (attempt p2k cipher rounds salt mac data pw)
                 (fun r => match r with
                           | XExc EValue => unseal rest pw      (* except ValueError: pass *)
                           | _ => Ret r
                           end)
      | LPair _ _ _ => unseal rest pw             (* not has_phrase(): continue *)
      | _ => Ret (XExc EAttr)                     (* list / Phrase object has no has_phrase *)
      end
  end.

(* ---------- VMX.parse / VMX.unlock_with_phrase ---------- *)
Definition K_KEYSAFE := cps "encryption.keysafe".
Definition K_DATA := cps "encryption.data".

Definition unlock (attr : dict) (pw : bytes) : plan dict :=
  match dict_get attr K_KEYSAFE with
  | None => Ret (XExc EType)                      (* "VMX is not encrypted" *)
  | Some ks =>
      dop safe <- lift (keysafe_from_text ks);
      dop km <- unseal safe pw;
      dop d64 <- lift (of_opt EKey (dict_get attr K_DATA));
      dop enc <- lift (b64decode_str d64);
      dop dec <- decrypt_hmac (fst km) enc (snd km);
      dop text <- lift (utf8_strict dec);
      Ret (XOk (dict_update attr (parse_dictionary text)))
  end.

(* the observable state after the call: self.attr is only assigned on success *)
Definition unlock_state (o : oracles) (attr : dict) (pw : bytes) : xres unit * dict :=
  match run o (unlock attr pw) with
  | XOk a => (XOk tt, a)
  | XExc e => (XExc e, attr)
  | XFuel => (XFuel, attr)
  end.

(* ---------- table-driven interpretation, for the correspondence ---------- *)
Definition call_eqb (a b : call) : bool :=
  match a, b with
  | CPbkdf2 h pw s r n, CPbkdf2 h' pw' s' r' n' =>
      list_eqb h h' && list_eqb pw pw' && list_eqb s s' && (r =? r') && (n =? n')
  | CAesDec k iv c, CAesDec k' iv' c' => list_eqb k k' && list_eqb iv iv' && list_eqb c c'
  | CHmac h k m, CHmac h' k' m' => list_eqb h h' && list_eqb k k' && list_eqb m m'
  | _, _ => false
  end.

Fixpoint tbl_find (tbl : list (call * bytes)) (c : call) (i : Z) : option (Z * bytes) :=
  match tbl with
  | [] => None
  | (c', r) :: t => if call_eqb c' c then Some (i, r) else tbl_find t c (i + 1)
  end.

Inductive tres (A : Type) : Type :=
| TDone (r : xres A) (trace : list Z)        (* outcome and the table indices of the calls made, in order *)
| TNeed (c : call) (trace : list Z).         (* the table has no answer for c *)
Arguments TDone {A} r trace.
Arguments TNeed {A} c trace.

Fixpoint run_tbl {A} (tbl : list (call * bytes)) (p : plan A) (trace_rev : list Z) : tres A :=
  match p with
  | Ret r => TDone r (rev trace_rev)
  | Call c k =>
      match tbl_find tbl c 0 with
      | Some (i, r) => run_tbl tbl (k r) (i :: trace_rev)
      | None => TNeed c (rev trace_rev)
      end
  end.

(* what the correspondence evaluates: parse the file, unlock, final attr (or the unchanged one) *)
Definition check_unlock (tbl : list (call * bytes)) (vmx_text : str) (pw : bytes)
  : tres dict * dict :=
  let attr := parse_dictionary vmx_text in
  (run_tbl tbl (unlock attr pw) [], attr).

(* ====================================================================== *)
(* Specification: the writer.  Nothing here is used by the model above.   *)
(* ====================================================================== *)
Definition pkcs7_pad (p : bytes) : bytes :=
  let n := 16 - (len p) mod 16 in p ++ repeat n (Z.to_nat n).

Section Seal.
  Variable aes_enc : bytes -> bytes -> bytes -> bytes.     (* key iv plaintext *)
  Variable hmac : str -> bytes -> bytes -> bytes.          (* hash key msg *)

  (* IV ‖ AES-CBC(key, IV, pad(plain)) ‖ first n bytes of HMAC_h(key, plain) *)
  Definition seal_blob (h : str) (n : Z) (key iv plain : bytes) : bytes :=
    iv ++ aes_enc key iv (pkcs7_pad plain) ++ firstn (Z.to_nat n) (hmac h key plain).
End Seal.

(* base64 encoder (RFC 4648 with padding) *)
Definition b64chr (v : Z) : Z :=
  if v <? 26 then v + 65 else if v <? 52 then v + 71 else if v <? 62 then v - 4
  else if v =? 62 then 43 else 47.

Fixpoint b64encode (bs : bytes) : str :=
  match bs with
  | [] => []
  | [a] => [b64chr (a / 4); b64chr ((a mod 4) * 16); 61; 61]
  | [a; b] => [b64chr (a / 4); b64chr ((a mod 4) * 16 + b / 16); b64chr ((b mod 16) * 4); 61]
  | a :: b :: c :: r =>
      b64chr (a / 4) :: b64chr ((a mod 4) * 16 + b / 16) :: b64chr ((b mod 16) * 4 + c / 64)
      :: b64chr (c mod 64) :: b64encode r
  end.

Definition hexchr (v : Z) : Z := if v <? 10 then v + 48 else v + 87.

(* VMware's quoting: everything except ASCII letters and digits becomes %xx (lower-case hex) *)
Definition is_alnum (c : Z) : bool :=
  ((48 <=? c) && (c <=? 57)) || ((65 <=? c) && (c <=? 90)) || ((97 <=? c) && (c <=? 122)).

Definition quote (s : str) : str :=
  flat_map (fun c => if is_alnum c then [c] else [37; hexchr (c / 16); hexchr (c mod 16)]) s.

(* decimal rendering of a positive number *)
Fixpoint dec_digits (fuel : nat) (n : Z) (acc : str) : str :=
  match fuel with
  | O => acc
  | S f => let acc' := (48 + n mod 10) :: acc in
           if n <? 10 then acc' else dec_digits f (n / 10) acc'
  end.
Definition render_int (n : Z) : str := dec_digits (S (Z.to_nat (Z.log2 n))) n [].

(* type=key:cipher=...:key=<quoted base64> *)
Definition render_keydict (cipher_name : str) (k : bytes) : str :=
  cps "type=key:cipher=" ++ quote cipher_name ++ cps ":key=" ++ quote (b64encode k).

Definition render_phrase_dict (p2k cipher : str) (rounds : Z) (salt : bytes) : str :=
  cps "pass2key=" ++ quote p2k ++ cps ":cipher=" ++ quote cipher ++ cps ":rounds=" ++ render_int rounds
  ++ cps ":salt=" ++ quote (b64encode salt).

Fixpoint join_comma (l : list str) : str :=
  match l with
  | [] => []
  | [x] => x
  | x :: r => x ++ 44 :: join_comma r
  end.

(* a key safe whose members are Phrase pairs *)
Record ppair := {
  pp_id : str; pp_p2k : str; pp_cipher : str; pp_rounds : Z; pp_salt : bytes;
  pp_mac : str; pp_data : bytes;
}.

Definition loc_of_ppair (p : ppair) : locator :=
  LPair (LPhrase (pp_id p) (pp_p2k p) (pp_cipher p) (pp_rounds p) (pp_salt p)) (pp_mac p) (pp_data p).

Definition render_ppair (p : ppair) : str :=
  cps "pair/(phrase/" ++ quote (pp_id p) ++ 47 ::
  quote (render_phrase_dict (pp_p2k p) (pp_cipher p) (pp_rounds p) (pp_salt p)) ++ 44 ::
  quote (pp_mac p) ++ 44 :: quote (b64encode (pp_data p)) ++ [41].

Definition render_keysafe (ps : list ppair) : str :=
  cps "vmware:key/list/(" ++ join_comma (map render_ppair ps) ++ [41].
