(* Model/Envelope.v — dissect/hypervisor/util/envelope.py (Envelope, attribute codec, header
   packer) and tools/envelope.py as executable Gallina.  No proofs here.

   AES-GCM and SHA-256 are explicit function arguments ([sha], [gcm_dec], [gcm_ok]).
   The model describes the code WITH fixes/C16-*.diff applied:
     - the associated data is the stored header block (not its re-serialisation);
     - the command-line tool has an --aad option.
   Constants, struct offsets, the attribute type table and the gate literals are taken from
   coq/Gen (regenerated from the source on every run). *)
From Coq Require Import ZArith List Bool Lia String.
From DH Require Import Base.Plan Base.Table Base.Layout.
From DH Require Gen.Consts Gen.Layouts Gen.Enums Gen.EnvelopeTables.
Import ListNotations.
Open Scope Z_scope.

(* ------------------------------------------------------------------ bytes *)
Definition len {A} (l : list A) : Z := Z.of_nat (List.length l).

Fixpoint beq (a b : list Z) : bool :=
  match a, b with
  | [], [] => true
  | x :: a', y :: b' => (x =? y) && beq a' b'
  | _, _ => false
  end.

(* l[:n] and l[n:] for a non-negative n (a non-positive n gives [] / l), by recursion on the
   list so that huge n cost nothing under vm_compute *)
Fixpoint takez (l : list Z) (n : Z) : list Z :=
  match l with
  | [] => []
  | x :: r => if n <=? 0 then [] else x :: takez r (n - 1)
  end.
Fixpoint dropz (l : list Z) (n : Z) : list Z :=
  match l with
  | [] => []
  | x :: r => if n <=? 0 then l else dropz r (n - 1)
  end.

Definition repz (b n : Z) : list Z := repeat b (Z.to_nat n).

(* read exactly n bytes: None = short read (cstruct raises EOFError) *)
Definition take (n : Z) (buf : list Z) : option (list Z * list Z) :=
  if len buf <? n then None else Some (takez buf n, dropz buf n).

(* char[None]: bytes up to the first NUL; None = no NUL before the end (EOFError) *)
Fixpoint cstring (buf : list Z) : option (list Z * list Z) :=
  match buf with
  | [] => None
  | b :: r => if b =? 0 then Some ([], r) else
              match cstring r with Some (s, r') => Some (b :: s, r') | None => None end
  end.

(* compact literals for generated cases / compact printing of results *)
Inductive chunk := Lit (l : list Z) | Rep (b n : Z).
Definition unchunk (cs : list chunk) : list Z :=
  flat_map (fun c => match c with Lit l => l | Rep b n => repz b n end) cs.

Fixpoint rle (l : list Z) : list (Z * Z) :=
  match l with
  | [] => []
  | x :: r => match rle r with
              | (y, n) :: t => if x =? y then (y, n + 1) :: t else (x, 1) :: (y, n) :: t
              | [] => [(x, 1)]
              end
  end.

(* ------------------------------------------------------------------ UTF-8 (bytes.decode(), strict) *)
Definition cont (b : Z) : bool := (128 <=? b) && (b <=? 191).
Definition inr (lo hi b : Z) : bool := (lo <=? b) && (b <=? hi).

Fixpoint utf8_valid (l : list Z) : bool :=
  match l with
  | [] => true
  | b0 :: r =>
    if (0 <=? b0) && (b0 <? 128) then utf8_valid r
    else if inr 194 223 b0 then
      match r with b1 :: r' => cont b1 && utf8_valid r' | _ => false end
    else if inr 224 239 b0 then
      match r with
      | b1 :: b2 :: r' =>
          (if b0 =? 224 then inr 160 191 b1 else if b0 =? 237 then inr 128 159 b1 else cont b1)
          && cont b2 && utf8_valid r'
      | _ => false
      end
    else if inr 240 244 b0 then
      match r with
      | b1 :: b2 :: b3 :: r' =>
          (if b0 =? 240 then inr 144 191 b1 else if b0 =? 244 then inr 128 143 b1 else cont b1)
          && cont b2 && cont b3 && utf8_valid r'
      | _ => false
      end
    else false
  end.

(* ------------------------------------------------------------------ attributes *)
Definition T_Invalid := Gen.Enums.envelope_AttributeType_Invalid.
Definition T_String := Gen.Enums.envelope_AttributeType_String.
Definition T_Bytes := Gen.Enums.envelope_AttributeType_Bytes.
Definition type_map := Gen.EnvelopeTables.envelope_ATTRIBUTE_TYPE_MAP.

Inductive aval :=
| VInt (v : Z)            (* integer types: the Python int *)
| VF32 (bits : Z)         (* Float: the 32-bit pattern struct.pack("<f", value) emits *)
| VF64 (bits : Z)         (* Double: the 64-bit pattern *)
| VStr (s : list Z)       (* String: UTF-8 bytes of the str *)
| VBytes (b : list Z).    (* Bytes *)

Record attr := mk_attr { a_name : list Z; a_type : Z; a_flag : Z; a_val : aval }.

(* struct.unpack("<f") widens to a C double and struct.pack("<f") narrows again: exact for every
   pattern except signalling NaNs, whose quiet bit (bit 22) gets set *)
Definition quiet32 (bits : Z) : Z :=
  if ((bits / 8388608) mod 256 =? 255) && negb (bits mod 8388608 =? 0) && ((bits / 4194304) mod 2 =? 0)
  then bits + 4194304 else bits.

(* Ok None = EOFError (the caller's loop breaks); Err = another exception propagates *)
Definition read_value (ty : Z) (buf : list Z) : res (option (aval * list Z)) :=
  match assoc_z type_map ty with
  | None => Err                                        (* NotImplementedError: unknown type *)
  | Some (cls, w) =>
    if ty =? T_String then
      match cstring buf with
      | None => Ok None
      | Some (s, r) => if utf8_valid s then Ok (Some (VStr s, r)) else Err
      end
    else if ty =? T_Bytes then
      match take 8 buf with
      | None => Ok None
      | Some (lb, r) =>
          let n := le_uint lb in
          if n >? 9223372036854775807 then Err          (* OverflowError in BytesIO.read *)
          else Ok (Some (VBytes (takez r n), dropz r n))
      end
    else if cls =? 0 then Err                           (* None(buf): TypeError *)
    else
      match take w buf with
      | None => Ok None
      | Some (vb, r) =>
          let u := le_uint vb in
          Ok (Some ((if cls =? 1 then VInt u
                     else if cls =? 2 then VInt (signed w u)
                     else if w =? 4 then VF32 (quiet32 u) else VF64 u), r))
      end
  end.

(* attributes[name] = ... on an insertion-ordered dict *)
Fixpoint dict_set (d : list attr) (a : attr) : list attr :=
  match d with
  | [] => [a]
  | x :: d' => if beq (a_name x) (a_name a) then a :: d' else x :: dict_set d' a
  end.

Fixpoint dict_get (d : list attr) (name : list Z) : option attr :=
  match d with
  | [] => None
  | x :: d' => if beq (a_name x) name then Some x else dict_get d' name
  end.

(* _read_envelope_attributes *)
Fixpoint read_attrs (fuel : nat) (buf : list Z) (acc : list attr) : res (list attr) :=
  match fuel with
  | O => Fuel
  | S fuel' =>
    match buf with
    | [] => Ok acc                                     (* EOFError -> break *)
    | ty :: r1 =>
      if ty =? T_Invalid then Ok acc else
      match r1 with
      | [] => Ok acc
      | flag :: r2 =>
        match cstring (dropz r2 2) with
        | None => Ok acc
        | Some (name, r4) =>
          if negb (utf8_valid name) then Err else       (* UnicodeDecodeError *)
          match read_value ty r4 with
          | Err => Err
          | Fuel => Fuel
          | Ok None => Ok acc
          | Ok (Some (v, r5)) => read_attrs fuel' r5 (dict_set acc (mk_attr name ty flag v))
          end
        end
      end
    end
  end.

Definition read_attributes (buf : list Z) : res (list attr) :=
  read_attrs (S (List.length buf)) buf [].

(* _pack_attributes: Err = the cstruct writer would raise (value does not fit the type) *)
Definition pack_value (ty : Z) (v : aval) : res (list Z) :=
  match assoc_z type_map ty with
  | None => Err
  | Some (cls, w) =>
    if ty =? T_String then match v with VStr s => Ok (s ++ [0]) | _ => Err end
    else if ty =? T_Bytes then match v with VBytes b => Ok (le_bytes 8 (len b) ++ b) | _ => Err end
    else match v with
         | VInt x =>
             if cls =? 1 then (if (0 <=? x) && (x <? 2 ^ (8 * w)) then Ok (le_bytes (Z.to_nat w) x) else Err)
             else if cls =? 2 then
               (if (- 2 ^ (8 * w - 1) <=? x) && (x <? 2 ^ (8 * w - 1))
                then Ok (le_bytes (Z.to_nat w) (x mod 2 ^ (8 * w))) else Err)
             else Err
         | VF32 b => if (cls =? 3) && (w =? 4) then Ok (le_bytes 4 b) else Err
         | VF64 b => if (cls =? 3) && (w =? 8) then Ok (le_bytes 8 b) else Err
         | _ => Err
         end
  end.

Definition pack_attr (a : attr) : res (list Z) :=
  do v <- pack_value (a_type a) (a_val a);
  Ok ([a_type a; a_flag a; 0; 0] ++ a_name a ++ [0] ++ v).

Fixpoint pack_attr_list (l : list attr) : res (list Z) :=
  match l with
  | [] => Ok []
  | a :: r => do x <- pack_attr a; do y <- pack_attr_list r; Ok (x ++ y)
  end.

Definition pack_attrs (l : list attr) : res (list Z) :=
  do x <- pack_attr_list l; Ok (x ++ [0; 0; 0; 0]).

Definition BLOCK := Gen.Consts.envelope_ENVELOPE_BLOCK_SIZE.
Definition HDR := Gen.Layouts.envelope_EnvelopeFileHeader_size.
Definition MAGIC := Gen.Consts.envelope_FILE_HEADER_MAGIC.
Definition hdr_layout := Gen.Layouts.envelope_EnvelopeFileHeader_layout.
Definition aead_layout := Gen.Layouts.envelope_DataTransformAeadFooter_layout.
Definition cf_layout := Gen.Layouts.envelope_DataTransformCryptoFooter_layout.

Definition field_off (l : list field) (n : string) : Z :=
  match find_field l n with Some f => f_off f | None => 0 end.

(* EnvelopeFileHeader(magic=.., size=.., version=..).dumps() *)
Definition header_struct (size version : Z) : list Z :=
  MAGIC ++ repz 0 (field_off hdr_layout "size" - len MAGIC) ++ le_bytes 4 size ++ le_bytes 4 version.

(* _pack_envelope_header *)
Definition pack_header (attrs : list attr) (version : Z) : res (list Z) :=
  do pa <- pack_attrs attrs;
  let size := HDR + len pa in
  let rem := size mod BLOCK in
  let padn := if rem =? 0 then 0 else BLOCK - rem in
  let total := size + padn in
  Ok (header_struct (total - HDR) version ++ pa ++ repz 0 padn).

(* ------------------------------------------------------------------ Envelope.__init__ *)
Record envelope := mk_env {
  e_version : Z;
  e_attrs : list attr;
  e_cipher : list Z;            (* the str self.cipher_name, as UTF-8 (only AES-256-GCM gets here) *)
  e_key_hash : aval;
  e_iv : option aval;
  e_digest : list Z;
  e_size : Z;
  e_hdr : list Z;               (* the stored header block *)
  e_data : list Z;              (* RangeStream(fh, BLOCK, size) *)
}.

Definition N_keyInfo := nth 0 Gen.EnvelopeTables.envelope_required_attributes [].
Definition N_cipherName := nth 1 Gen.EnvelopeTables.envelope_required_attributes [].
Definition N_keyHash := nth 2 Gen.EnvelopeTables.envelope_required_attributes [].
Definition N_iv : list Z := [118; 109; 119; 97; 114; 101; 46; 105; 118].     (* "vmware.iv" *)
Definition CIPHER := Gen.EnvelopeTables.envelope_cipher_name.

Definition has_all (attrs : list attr) (names : list (list Z)) : bool :=
  forallb (fun n => match dict_get attrs n with Some _ => true | None => false end) names.

Definition env_open (file : list Z) : res envelope :=
  let hb := takez file BLOCK in
  if len hb <? HDR then Err else                                     (* EOFError *)
  if negb (beq (takez hb (len MAGIC)) MAGIC) then Err else            (* Invalid envelope file *)
  do version <- of_option (get_uint false hdr_layout hb "version");
  if negb (version =? Gen.EnvelopeTables.envelope_header_version) then Err else
  do attrs <- read_attributes (dropz hb HDR);
  if negb (has_all attrs Gen.EnvelopeTables.envelope_required_attributes) then Err else
  do cn <- of_option (dict_get attrs N_cipherName);
  do kh <- of_option (dict_get attrs N_keyHash);
  match a_val cn with
  | VStr c =>
    if negb (beq c CIPHER) then Err else                              (* NotImplementedError *)
    if len file <? BLOCK then Err else                                (* seek / short footer read *)
    let fb := dropz file (len file - BLOCK) in
    do fver <- of_option (get_uint false aead_layout fb "version");
    do fsize <- of_option (get_uint false aead_layout fb "size");
    do fdata <- of_option (get_bytes aead_layout fb "data");
    if negb (fver =? Gen.EnvelopeTables.envelope_aead_footer_version) then Err else
    let size := len file - 2 * BLOCK in
    Ok (mk_env version attrs c (a_val kh)
               (match dict_get attrs N_iv with Some a => Some (a_val a) | None => None end)
               (takez fdata fsize) size hb (takez (dropz file BLOCK) size))
  | _ => Err                                                          (* a non-str never equals the literal *)
  end.

(* ------------------------------------------------------------------ Envelope.decrypt *)
Definition CHUNK := Gen.Consts.envelope_DECRYPT_CHUNK_SIZE.

(* the read loop over self.data *)
Fixpoint read_chunks (fuel : nat) (data : list Z) : res (list (list Z)) :=
  match data with
  | [] => Ok []
  | _ => match fuel with
         | O => Fuel
         | S f => do r <- read_chunks f (dropz data CHUNK); Ok (takez data CHUNK :: r)
         end
  end.

Definition sha_input (e : envelope) (key : list Z) : list Z := e_cipher e ++ key.

(* `not self.iv`, then AES.new(..., nonce=self.iv) accepts only a non-empty bytes object *)
Definition iv_of (e : envelope) : option (list Z) :=
  match e_iv e with
  | Some (VBytes (b :: r)) => Some (b :: r)
  | _ => None
  end.

Definition key_len_ok (key : list Z) : bool :=
  (len key =? 16) || (len key =? 24) || (len key =? 32).

Definition aad_of (e : envelope) (aad : list Z) : list Z := e_hdr e ++ aad.

Definition hash_matches (h : list Z) (stored : aval) : bool :=
  match stored with VBytes s => beq h s | _ => false end.

Definition TAIL := Gen.EnvelopeTables.envelope_footer_tail.
Definition STRIP := Gen.EnvelopeTables.envelope_strip_block.

(* footer = DataTransformCryptoFooter(decrypted[-512:]); decrypted[: -4096 - footer.padding] *)
Definition strip (pt : list Z) : res (list Z) :=
  let tail := dropz pt (len pt - TAIL) in
  do padding <- of_option (get_uint false cf_layout tail "padding");
  Ok (takez pt (len pt - STRIP - padding)).

Section Crypto.
  Variable sha : list Z -> list Z.                                   (* hashlib.sha256(x).digest() *)
  Variable gcm_dec : list Z -> list Z -> list Z -> list Z.           (* key iv ciphertext -> plaintext *)
  Variable gcm_ok : list Z -> list Z -> list Z -> list Z -> list Z -> bool.   (* key iv aad ct tag: verify() accepts *)

  Definition decrypt (verify : bool) (e : envelope) (key aad : list Z) : res (list Z) :=
    if negb (hash_matches (sha (sha_input e key)) (e_key_hash e)) then Err else
    match iv_of e with
    | None => Err
    | Some iv =>
      if negb (key_len_ok key) then Err else
      if e_size e <? 0 then Err else                                  (* bytearray(negative) *)
      do cs <- read_chunks (S (List.length (e_data e))) (e_data e);
      let ct := List.concat cs in
      let pt := gcm_dec key iv ct in
      do out <- strip pt;
      if verify && negb (gcm_ok key iv (aad_of e aad) ct (e_digest e)) then Err else Ok out
    end.

  Definition open_decrypt (verify : bool) (file key aad : list Z) : res (list Z) :=
    do e <- env_open file; decrypt verify e key aad.
End Crypto.

(* what decrypt asks the primitives (the call plan executed by the correspondence) *)
Record queries := mk_q {
  q_sha_in : list Z; q_hash : aval; q_iv : option (list Z); q_keyok : bool;
  q_aad : list Z; q_ct_len : Z; q_tag : list Z }.

Definition decrypt_queries (e : envelope) (key aad : list Z) : queries :=
  mk_q (sha_input e key) (e_key_hash e) (iv_of e) (key_len_ok key)
       (aad_of e aad) (len (e_data e)) (e_digest e).

(* ------------------------------------------------------------------ well-formed attribute sets
   (what a writer can store: the value fits the declared type, names and strings are NUL-free UTF-8,
   names are pairwise distinct; a Float holds a bit pattern that survives float -> double -> float) *)
Definition nonul (s : list Z) : Prop := Forall (fun c => c <> 0) s.

Definition wf_val (ty : Z) (v : aval) : Prop :=
  match v with
  | VInt x => (ty = 1 /\ 0 <= x < 2 ^ 8) \/ (ty = 2 /\ 0 <= x < 2 ^ 16) \/ (ty = 3 /\ 0 <= x < 2 ^ 32)
              \/ (ty = 4 /\ 0 <= x < 2 ^ 64) \/ (ty = 5 /\ - 2 ^ 7 <= x < 2 ^ 7) \/ (ty = 6 /\ - 2 ^ 15 <= x < 2 ^ 15)
              \/ (ty = 7 /\ - 2 ^ 31 <= x < 2 ^ 31) \/ (ty = 8 /\ - 2 ^ 63 <= x < 2 ^ 63)
  | VF32 b => ty = 9 /\ 0 <= b < 2 ^ 32 /\ quiet32 b = b
  | VF64 b => ty = 10 /\ 0 <= b < 2 ^ 64
  | VStr s => ty = 11 /\ nonul s /\ utf8_valid s = true
  | VBytes b => ty = 12 /\ len b < 2 ^ 63
  end.

Definition wf_attr (a : attr) : Prop :=
  nonul (a_name a) /\ utf8_valid (a_name a) = true /\ wf_val (a_type a) (a_val a).

Definition wf_attrs (l : list attr) : Prop := Forall wf_attr l /\ NoDup (map a_name l).

(* the attribute set fits the header block together with its 4-byte terminator *)
Definition fits (attrs : list attr) : Prop :=
  exists packed, pack_attr_list attrs = Ok packed /\ HDR + len packed + 4 <= BLOCK.

(* a stored header block that Envelope.__init__ opens to [attrs] *)
Definition header_opens (hdr : list Z) (attrs : list attr) : Prop :=
  len hdr = BLOCK /\ takez hdr (len MAGIC) = MAGIC /\
  get_uint false hdr_layout hdr "version" = Some Gen.EnvelopeTables.envelope_header_version /\
  read_attributes (dropz hdr HDR) = Ok attrs.

(* ------------------------------------------------------------------ the writer (specification side) *)
Definition CF_MAGIC := Gen.Consts.envelope_FOOTER_CRYPTO_MAGIC.
Definition AEAD_MAGIC := Gen.Consts.envelope_FOOTER_AEAD_MAGIC.

Definition crypto_footer (padding version : Z) : list Z :=
  CF_MAGIC ++ repz 0 (field_off cf_layout "padding" - len CF_MAGIC) ++ le_bytes 4 padding ++ le_bytes 4 version.

(* payload ‖ padding bytes ‖ filler up to the footer struct ‖ footer struct *)
Definition plaintext (payload padbytes fill : list Z) : list Z :=
  payload ++ padbytes ++ fill ++ crypto_footer (len padbytes) 1.

Definition aead_footer (tag : list Z) : list Z :=
  AEAD_MAGIC ++ repz 0 (field_off aead_layout "data" - len AEAD_MAGIC) ++ tag
  ++ repz 0 (field_off aead_layout "size" - field_off aead_layout "data" - len tag)
  ++ le_bytes 4 (len tag) ++ le_bytes 4 Gen.EnvelopeTables.envelope_aead_footer_version.

(* the three stored regions an alteration can hit *)
Definition stored_header (file : list Z) : list Z := takez file BLOCK.
Definition stored_ct (file : list Z) : list Z := takez (dropz file BLOCK) (len file - 2 * BLOCK).
Definition stored_tag (file : list Z) : option (list Z) :=
  let fb := dropz file (len file - BLOCK) in
  match get_bytes aead_layout fb "data", get_uint false aead_layout fb "size" with
  | Some d, Some n => Some (takez d n)
  | _, _ => None
  end.

(* the attributes a writer stores for (key, iv): key info, cipher name, key hash, IV *)
Definition sealed_attrs (sha : list Z -> list Z) (attrs : list attr) (key iv : list Z) : Prop :=
  (exists a, dict_get attrs N_keyInfo = Some a) /\
  (exists a, dict_get attrs N_cipherName = Some a /\ a_val a = VStr CIPHER) /\
  (exists a, dict_get attrs N_keyHash = Some a /\ a_val a = VBytes (sha (CIPHER ++ key))) /\
  (exists a, dict_get attrs N_iv = Some a /\ a_val a = VBytes iv).

Section Seal.
  Variable gcm_enc : list Z -> list Z -> list Z -> list Z.            (* key iv plaintext -> ciphertext *)
  Variable gcm_tag : list Z -> list Z -> list Z -> list Z -> list Z.  (* key iv aad ct -> tag *)

  Definition seal (hdr key iv aad payload padbytes fill : list Z) : list Z :=
    let ct := gcm_enc key iv (plaintext payload padbytes fill) in
    hdr ++ ct ++ aead_footer (gcm_tag key iv (hdr ++ aad) ct).
End Seal.

(* ------------------------------------------------------------------ tools/envelope.py main *)
Inductive outfile := Absent | Written (b : list Z).     (* the -o file after the run *)

Section Cli.
  Variable sha : list Z -> list Z.
  Variable gcm_dec : list Z -> list Z -> list Z -> list Z.
  Variable gcm_ok : list Z -> list Z -> list Z -> list Z -> list Z -> bool.

  (* [ks_key]: result of KeyStore.from_text(text).key (Model/EnvKeystore.v).  The envelope is parsed
     first, then the keystore, then the output is opened "wb" (created empty), then decrypt runs. *)
  Definition cli (file : list Z) (ks_key : res (list Z)) (aad : list Z) : res unit * outfile :=
    match env_open file with
    | Ok e =>
      match ks_key with
      | Ok key =>
        match decrypt sha gcm_dec gcm_ok true e key aad with
        | Ok p => (Ok tt, Written p)
        | Err => (Err, Written [])
        | Fuel => (Fuel, Absent)
        end
      | Err => (Err, Absent)
      | Fuel => (Fuel, Absent)
      end
    | Err => (Err, Absent)
    | Fuel => (Fuel, Absent)
    end.
End Cli.

(* ------------------------------------------------------------------ views printed by the correspondence
   (printing thousands of numbers is slow, so a byte string that is expected to equal a known one is
   printed as [Same] and in full (run-length coded) only when it differs) *)
Inductive cmpview := Same | Differs (l : list (Z * Z)).
Definition cmp_view (got expected : list Z) : cmpview := if beq got expected then Same else Differs (rle got).

Definition attr_view (a : attr) := (a_name a, a_type a, a_flag a, a_val a).
Definition res_map {A B} (f : A -> B) (r : res A) : res B :=
  match r with Ok a => Ok (f a) | Err => Err | Fuel => Fuel end.

Definition env_report (file key aad : list Z) :=
  res_map (fun e =>
    let q := decrypt_queries e key aad in
    (e_version e,
     (q_sha_in q, q_hash q, q_iv q, q_keyok q),
     (cmp_view (q_aad q) (takez file BLOCK ++ aad), q_ct_len q, q_tag q),
     (map attr_view (e_attrs e), e_size e),
     res_map (fun p => cmp_view p (takez file BLOCK)) (pack_header (e_attrs e) (e_version e)))) (env_open file).

Definition out_view (o : outfile) : res (list (Z * Z)) :=
  match o with Absent => Err | Written b => Ok (rle b) end.
