(* Model/Vmx.v — dissect/hypervisor/descriptor/vmx.py: `_parse_dictionary` and
   `VMX.disks` as executable Gallina (no proofs), plus the specification of the
   property for VMX configurations.

   The model follows the REPAIRED code (fixes/C18-vmx-dotless-key.diff): a
   setting whose name begins with a device class but has no '.' is skipped
   (the unrepaired code raises ValueError on it).  Every constant comes from
   Gen/DescTables.v, i.e. from the current source. *)
From Coq Require Import ZArith List Bool.
Import ListNotations.
Open Scope Z_scope.
From DH Require Import Model.Text Model.XmlTree Gen.DescTables.

(* ------------------------------------------------------------------ model *)

(* one iteration of the loop in _parse_dictionary *)
Definition parse_line (d : dict str) (raw : str) : dict str :=
  let line := strip raw in
  if negb (nonempty line) || startswith vmx_comment_prefix line then d
  else let '(k, _, v) := partition vmx_kv_sep line in
       dset (lower (strip k)) (strip_chars vmx_value_strip v) d.

Definition parse_lines (ls : list str) : dict str := fold_left parse_line ls [].

Definition parse_dictionary (s : str) : dict str := parse_lines (split_on vmx_line_sep s).

(* device.lstrip(dev_class) *)
Definition strip_id (c device : str) : str :=
  if vmx_strip_is_charset then lstrip_chars c device else removeprefix c device.

(* the body of the two nested loops for one setting: which (class, id, property)
   the setting is filed under; None = not filed *)
Definition classify (k : str) : option (str * str * str) :=
  match find (fun c => startswith c k) vmx_dev_classes with
  | None => None
  | Some c =>
      let '(device, found, prop) := partition vmx_dev_sep k in
      if found then Some (c, strip_id c device, prop) else None
  end.

Definition devices := dict (dict (dict str)).

Definition sub {V} (k : str) (d : dict (dict V)) : dict V :=
  match dget k d with Some x => x | None => [] end.

(* devices.setdefault(c, {}).setdefault(id, {})[p] = v *)
Definition upd3 (D : devices) (c id p v : str) : devices :=
  let ids := sub c D in
  let props := sub id ids in
  dset c (dset id (dset p v props) ids) D.

Definition collect_step (D : devices) (kv : str * str) : devices :=
  match classify (fst kv) with
  | Some (c, id, p) => upd3 D c id p (snd kv)
  | None => D
  end.

Definition collect (attr : dict str) : devices := fold_left collect_step attr [].

Definition emit (props : dict str) : list str :=
  match dget vmx_key_filename props with
  | Some f =>
      if nonempty f then
        match dget vmx_key_devicetype props with
        | Some t => if negb (nonempty t) || contains vmx_disk_marker (lower t) then [f] else []
        | None => [f]
        end
      else []
  | None => []
  end.

Definition disk_files (D : devices) : list str :=
  flat_map (fun ci => flat_map (fun ip => emit (snd ip)) (snd ci)) D.

Definition vmx_disks (attr : dict str) : list str := sort_strs (disk_files (collect attr)).

(* VMX.parse(text).disks() *)
Definition vmx_disks_of_text (s : str) : list str := vmx_disks (parse_dictionary s).

(* ------------------------------------------------------------------ spec *)
(* written from the VMX conventions, not from the code: a hard-disk device is
   named <class><bus>:<unit> with class in {scsi, sata, ide, nvme} and decimal
   bus / unit; its backing file is the value of <device>.filename; it is a hard
   disk unless <device>.devicetype names something without "disk" in it
   (cdrom-image, cdrom-raw, atapi-cdrom, ...). *)
Definition spec_classes : list str :=
  [[115; 99; 115; 105]; [115; 97; 116; 97]; [105; 100; 101]; [110; 118; 109; 101]].
Definition s_filename : str := [102; 105; 108; 101; 110; 97; 109; 101].
Definition s_devicetype : str := [100; 101; 118; 105; 99; 101; 116; 121; 112; 101].
Definition s_disk : str := [100; 105; 115; 107].
Definition c_dot : Z := 46.
Definition c_colon : Z := 58.

(* <bus>:<unit> *)
Definition strict_id (id : str) : bool :=
  let '(b, f, u) := partition c_colon id in f && all_digits b && all_digits u.

(* dev = <class><bus>:<unit> *)
Definition strict_device (dev : str) : bool :=
  existsb (fun c => startswith c dev && strict_id (skipn (length c) dev)) spec_classes.

(* Some dev when k = dev ++ ".filename" for a hard-disk-capable device name *)
Definition filename_key (k : str) : option str :=
  let '(dev, f, prop) := partition c_dot k in
  if f && str_eqb prop s_filename && strict_device dev then Some dev else None.

Definition is_hard_disk (attr : dict str) (dev : str) : bool :=
  match dget (dev ++ c_dot :: s_devicetype) attr with
  | None => true
  | Some t => negb (nonempty t) || contains s_disk (lower t)
  end.

Definition spec_entry (attr : dict str) (kv : str * str) : list str :=
  match filename_key (fst kv) with
  | Some dev => if nonempty (snd kv) && is_hard_disk attr dev then [snd kv] else []
  | None => []
  end.

Definition spec_disks (attr : dict str) : list str := sort_strs (flat_map (spec_entry attr) attr).

(* the case-folded, last-wins meaning of a list of assignments *)
Fixpoint last_assoc (k : str) (kvs : list (str * str)) : option str :=
  match kvs with
  | [] => None
  | (k', v) :: r => match last_assoc k r with
                    | Some x => Some x
                    | None => if str_eqb k k' then Some v else None
                    end
  end.

(* ------------------------------------------------------------------ well-formedness *)
(* A configuration is in scope when (a) its dictionary has one entry per key
   (always true of a parsed dictionary), (b) a setting name that begins with a
   device-class name and has a '.' continues, after the class name, with a
   character that is not a letter of that class name (in practice: the bus
   number) — this is what makes lstrip's character-set stripping a prefix
   removal — and (c) only <class><bus>:<unit> devices carry a non-empty
   file name.  Names without '.' are unrestricted. *)
Fixpoint nodup_keys {V} (d : dict V) : bool :=
  match d with
  | [] => true
  | (k, _) :: d' => negb (existsb (fun kv => str_eqb k (fst kv)) d') && nodup_keys d'
  end.

Definition wf_entry (kv : str * str) : bool :=
  match find (fun c => startswith c (fst kv)) spec_classes with
  | None => true
  | Some c =>
      let '(device, found, prop) := partition c_dot (fst kv) in
      if found then
        let id := skipn (length c) device in
        negb (match id with [] => false | ch :: _ => memz c ch end)
        && (if str_eqb prop s_filename then strict_id id || negb (nonempty (snd kv)) else true)
      else true
  end.

Definition wf_vmx (attr : dict str) : bool := nodup_keys attr && forallb wf_entry attr.
