(* Model/Hds.v — dissect/hypervisor/disk/hdd.py: HDS._iter_runs (run coalescer with an
   explicit sparse sentinel) and HDS._read, as executable Gallina. *)
From Coq Require Import ZArith List Bool.
From DH Require Import Base.Plan Base.Table.
From DH Require Gen.Consts.
Import ListNotations.
Open Scope Z_scope.

Definition HSECTOR := Gen.Consts.hdd_SECTOR_SIZE.

Record hds := {
  h_size : Z;                 (* size in bytes (m_SizeInSectors * 512) *)
  h_cs : Z;                   (* cluster size in bytes (m_Sectors * 512) *)
  h_mult : Z;                 (* _bat_multiplier: 1 (v1, entries in sectors) or m_Sectors (v2, in clusters) *)
  h_bat : Z -> option Z;      (* uint32 entries; None = IndexError *)
  h_parent : bool;
}.

Definition run := (option Z * Z)%type.     (* (file offset | None = sparse, size) *)

Definition mergeable (po : option Z) (ps : Z) (ro : option Z) : bool :=
  match po, ro with
  | None, None => true
  | Some p, Some r => r =? p + ps
  | _, _ => false
  end.

Fixpoint iter_runs (h : hds) (fuel : nat) (off len : Z) (cur : option run) : res (list run) :=
  if (off <? h_size h) && (0 <? len) then
    match fuel with
    | O => Fuel
    | S fuel' =>
      let idx := off / h_cs h in
      let oic := off mod h_cs h in
      let rs := Z.min (h_cs h - oic) len in
      do e <- of_option (h_bat h idx);
      let ro := if e =? 0 then None else Some (e * h_mult h * HSECTOR + oic) in
      match cur with
      | None => iter_runs h fuel' (off + rs) (len - rs) (Some (ro, rs))
      | Some (po, ps) =>
        if mergeable po ps ro then iter_runs h fuel' (off + rs) (len - rs) (Some (po, ps + rs))
        else do rest <- iter_runs h fuel' (off + rs) (len - rs) (Some (ro, rs));
             Ok ((po, ps) :: rest)
      end
    end
  else Ok (match cur with None => [] | Some r => [r] end).

Definition seg_of_run (h : hds) (g : Z) (r : run) : seg :=
  match fst r with
  | None => if h_parent h then SParent g (snd r) else SZero (snd r)
  | Some o => SFile o (snd r)
  end.

(* HDS._read: the guest offset advances by each run's size *)
Fixpoint segs_of_runs (h : hds) (g : Z) (rs : list run) : list seg :=
  match rs with
  | [] => []
  | r :: rest => seg_of_run h g r :: segs_of_runs h (g + snd r) rest
  end.

Definition hds_read (h : hds) (fuel : nat) (offset length : Z) : res (list seg) :=
  do rs <- iter_runs h fuel offset length None;
  Ok (segs_of_runs h offset rs).

(* ---------- specification ---------- *)
Definition hds_src (h : hds) (o : Z) : src :=
  match h_bat h (o / h_cs h) with
  | Some e => if e =? 0 then (if h_parent h then Parent o else Zero)
              else File (e * h_mult h * 512 + o mod h_cs h)
  | None => Zero
  end.

Definition hds_fuel (len : Z) : nat := S (Z.to_nat len).
