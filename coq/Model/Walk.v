(* Model/Walk.v — the generic unit walker shared by the block-mapped reader models
   (definition only; its correctness is Proofs/BlockMapped.v). *)
From Coq Require Import ZArith List Bool.
From DH Require Import Base.Plan.
Import ListNotations.
Open Scope Z_scope.

Section Walk.
  Context {A : Type}.
  Variable U : Z.                       (* cells per unit *)
  Variable lookup : Z -> res A.         (* unit index -> table entry, Err = the code raises *)
  Variable emit : A -> Z -> Z -> Z -> res (list seg).   (* entry, unit idx, cell offset in unit, cell count *)

  Fixpoint walk (fuel : nat) (off len : Z) : res (list seg) :=
    if len <=? 0 then Ok [] else
    match fuel with
    | O => Fuel
    | S fuel' =>
      let idx := off / U in
      let io := off mod U in
      let n := Z.min len (U - io) in
      do a <- lookup idx;
      do segs <- emit a idx io n;
      do rest <- walk fuel' (off + n) (len - n);
      Ok (segs ++ rest)
    end.

End Walk.
