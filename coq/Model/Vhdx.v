(* Model/Vhdx.v — dissect/hypervisor/disk/vhdx.py: BlockAllocationTable.pb/sb/get,
   VHDX.read_sectors (all payload states, incl. the partially-present path with
   _iter_partial_runs) and VHDX._read, as executable Gallina. *)
From Coq Require Import ZArith List Bool.
From DH Require Import Base.Plan Base.Table Model.Walk.
From DH Require Gen.Consts.
Import ListNotations.
Open Scope Z_scope.

Definition MB := Gen.Consts.vhdx_MB.
Definition PB_NOT_PRESENT := Gen.Consts.vhdx_PAYLOAD_BLOCK_NOT_PRESENT.
Definition PB_UNDEFINED := Gen.Consts.vhdx_PAYLOAD_BLOCK_UNDEFINED.
Definition PB_ZERO := Gen.Consts.vhdx_PAYLOAD_BLOCK_ZERO.
Definition PB_UNMAPPED := Gen.Consts.vhdx_PAYLOAD_BLOCK_UNMAPPED.
Definition PB_FULLY_PRESENT := Gen.Consts.vhdx_PAYLOAD_BLOCK_FULLY_PRESENT.
Definition PB_PARTIALLY_PRESENT := Gen.Consts.vhdx_PAYLOAD_BLOCK_PARTIALLY_PRESENT.

Record vhdx := {
  x_size : Z;                 (* virtual disk size (metadata) *)
  x_bs : Z;                   (* file_parameters.block_size *)
  x_ss : Z;                   (* logical sector size *)
  x_has_parent : bool;        (* file_parameters.has_parent (a parent is then open) *)
  x_bat : Z -> option Z;      (* raw little-endian uint64 BAT entry; None = short read *)
  x_fbyte : Z -> Z;           (* file byte at an offset (sector bitmaps are read from the file) *)
}.

(* VHDX.__init__ / BlockAllocationTable.__init__ *)
Definition spb (x : vhdx) : Z := x_bs x / x_ss x.
Definition chunk_ratio (x : vhdx) : Z := (2 ^ 23 * x_ss x) / x_bs x.
Definition pb_count (x : vhdx) : Z := (x_size x + x_bs x - 1) / x_bs x.
Definition sb_count (x : vhdx) : Z := (pb_count x + chunk_ratio x - 1) / chunk_ratio x.
Definition entry_count (x : vhdx) : Z :=
  if x_has_parent x then sb_count x * (chunk_ratio x + 1)
  else pb_count x + (pb_count x - 1) / chunk_ratio x.

(* bat_entry bit-fields (layout pinned in Proofs/Vhdx.v against Gen/Layouts.v) *)
Definition be_state (raw : Z) : Z := raw mod 8.
Definition be_mb (raw : Z) : Z := raw / 2 ^ 20.

Definition bat_get (x : vhdx) (e : Z) : res Z :=
  if e + 1 >? entry_count x then Err else of_option (x_bat x e).
Definition bat_pb (x : vhdx) (block : Z) : res Z :=
  bat_get x (block + block / chunk_ratio x).
Definition bat_sb (x : vhdx) (block : Z) : res Z :=
  let num_sb := block / chunk_ratio x in
  bat_get x ((num_sb + 1) * chunk_ratio x + num_sb).

(* ---------- _iter_partial_runs ---------- *)
Definition bit_of (byte i : Z) : Z := (byte / 2 ^ i) mod 2.

Record ipr_state := { ip_type : Z; ip_count : Z; ip_len : Z; ip_out : list (Z * Z) (* reversed *) }.

Definition ipr_bit (byte : Z) (st : ipr_state) (i : Z) : ipr_state :=
  let t := bit_of byte i in
  if t =? ip_type st then
    {| ip_type := ip_type st; ip_count := ip_count st + 1; ip_len := ip_len st - 1; ip_out := ip_out st |}
  else
    {| ip_type := t; ip_count := 1; ip_len := ip_len st - 1;
       ip_out := (ip_type st, ip_count st) :: ip_out st |}.

Definition ipr_byte (start : Z) (st : ipr_state) (byte : Z) : ipr_state :=
  if ((ip_type st =? 0) && (byte =? 0)) || ((ip_type st =? 1) && (byte =? 255)) then
    let mc := Z.min (ip_len st) (8 - start) in
    {| ip_type := ip_type st; ip_count := ip_count st + mc; ip_len := ip_len st - mc; ip_out := ip_out st |}
  else
    fold_left (ipr_bit byte) (zseq start (Z.min (start + ip_len st) 8 - start)) st.

(* the first byte starts at bit start_idx, every following byte at bit 0 *)
Fixpoint ipr_bytes (start : Z) (st : ipr_state) (bitmap : list Z) : ipr_state :=
  match bitmap with
  | [] => st
  | b :: r => ipr_bytes 0 (ipr_byte start st b) r
  end.

Definition iter_partial_runs (bitmap : list Z) (start len : Z) : res (list (Z * Z)) :=
  match bitmap with
  | [] => Err                                        (* bitmap[0] -> IndexError *)
  | b0 :: _ =>
    let st := ipr_bytes start {| ip_type := bit_of b0 start; ip_count := 0; ip_len := len; ip_out := [] |} bitmap in
    Ok (rev (if ip_count st =? 0 then ip_out st else (ip_type st, ip_count st) :: ip_out st))
  end.

(* segments of the partially-present path *)
Fixpoint partial_segs (x : vhdx) (file_base parent_base : Z) (rel : Z) (runs : list (Z * Z)) : list seg :=
  match runs with
  | [] => []
  | (t, c) :: r =>
    (if t =? 0 then SParent (parent_base + rel * x_ss x) (c * x_ss x)
     else SFile (file_base + rel * x_ss x) (c * x_ss x))
    :: partial_segs x file_base parent_base (rel + c) r
  end.

(* ---------- VHDX.read_sectors ---------- *)
Definition vhdx_lookup (x : vhdx) (block : Z) : res (Z * Z) :=
  do e <- bat_pb x block;
  if be_state e =? PB_PARTIALLY_PRESENT then
    do s <- bat_sb x block; Ok (e, s)
  else Ok (e, 0).

Definition vhdx_emit (x : vhdx) (es : Z * Z) (block sib n : Z) : res (list seg) :=
  let '(e, s) := es in
  let st := be_state e in
  let gbyte := (block * spb x + sib) * x_ss x in
  if st =? PB_NOT_PRESENT then
    Ok [if x_has_parent x then SParent gbyte (n * x_ss x) else SZero (n * x_ss x)]
  else if (st =? PB_UNDEFINED) || (st =? PB_ZERO) || (st =? PB_UNMAPPED) then
    Ok [SZero (n * x_ss x)]
  else if st =? PB_FULLY_PRESENT then
    Ok [SFile (be_mb e * MB + sib * x_ss x) (n * x_ss x)]
  else if st =? PB_PARTIALLY_PRESENT then
    if negb (x_has_parent x) then Err                (* self.parent is None -> AttributeError *)
    else
      let block_in_chunk := block mod chunk_ratio x in
      let sector_in_chunk := block_in_chunk * spb x + sib in
      let byte_idx := sector_in_chunk / 8 in
      let bit_idx := sector_in_chunk mod 8 in
      let nbytes := (bit_idx + n + 7) / 8 in
      let bitmap := map (x_fbyte x) (zseq (be_mb s * MB + byte_idx) nbytes) in
      do runs <- iter_partial_runs bitmap bit_idx n;
      Ok (partial_segs x (be_mb e * MB + sib * x_ss x) gbyte 0 runs)
  else Ok [].                                          (* states 4, 5: nothing is appended *)

Definition vhdx_read_sectors (x : vhdx) (fuel : nat) (sector count : Z) : res (list seg) :=
  walk (spb x) (vhdx_lookup x) (vhdx_emit x) fuel sector count.

(* VHDX._read, clamped to the disk size *)
Definition vhdx_read (x : vhdx) (fuel : nat) (offset length : Z) : res (list seg) :=
  let length := Z.min length (x_size x - offset) in
  vhdx_read_sectors x fuel (offset / x_ss x) ((length + x_ss x - 1) / x_ss x).

(* ---------- specification (MS-VHDX), one layer ---------- *)
Definition sector_present (x : vhdx) (sb_raw : Z) (block sib : Z) : bool :=
  let sic := (block mod chunk_ratio x) * spb x + sib in
  bit_of (x_fbyte x (be_mb sb_raw * MB + sic / 8)) (sic mod 8) =? 1.

Definition vhdx_src (x : vhdx) (o : Z) : src :=
  let block := o / x_bs x in
  let cr := chunk_ratio x in
  match x_bat x (block + block / cr) with
  | None => Zero
  | Some e =>
    let st := be_state e in
    if st =? 6 then File (be_mb e * MB + o mod x_bs x)
    else if st =? 7 then
      match x_bat x ((block / cr + 1) * cr + block / cr) with
      | None => Zero
      | Some s => if sector_present x s block ((o mod x_bs x) / x_ss x)
                  then File (be_mb e * MB + o mod x_bs x) else Parent o
      end
    else if (st =? 0) && x_has_parent x then Parent o
    else Zero
  end.

Definition vhdx_fuel (count : Z) : nat := S (Z.to_nat count).
