(* Model/Text.v — Python str operations used by the descriptor parsers, on
   strings represented as lists of code points.  Executable; no proofs.

   Each function is the exact behaviour of the CPython 3.12 method for the
   argument shapes the code uses (single-character separators for split /
   partition; arbitrary prefixes for startswith / removeprefix; character-SET
   semantics for strip(chars) / lstrip(chars)).  [lower] is exact for every code
   point below 256 and for every caseless code point (see notes/C18.md). *)
From Coq Require Import ZArith List Bool.
Import ListNotations.
Open Scope Z_scope.

Definition str := list Z.

Fixpoint str_eqb (a b : str) : bool :=
  match a, b with
  | [], [] => true
  | x :: a', y :: b' => (x =? y) && str_eqb a' b'
  | _, _ => false
  end.

Definition nonempty (s : str) : bool := match s with [] => false | _ => true end.

(* str.isspace() per character, CPython 3.12 (Py_UNICODE_ISSPACE) *)
Definition is_space (c : Z) : bool :=
  ((9 <=? c) && (c <=? 13)) || ((28 <=? c) && (c <=? 32)) || (c =? 133) || (c =? 160) ||
  (c =? 5760) || ((8192 <=? c) && (c <=? 8202)) || (c =? 8232) || (c =? 8233) ||
  (c =? 8239) || (c =? 8287) || (c =? 12288).

Definition memz (cs : str) (c : Z) : bool := existsb (Z.eqb c) cs.

Fixpoint dropwhile (p : Z -> bool) (s : str) : str :=
  match s with
  | [] => []
  | c :: s' => if p c then dropwhile p s' else s
  end.

Definition lstrip_p (p : Z -> bool) (s : str) : str := dropwhile p s.
Definition rstrip_p (p : Z -> bool) (s : str) : str := rev (dropwhile p (rev s)).
Definition strip_p (p : Z -> bool) (s : str) : str := rstrip_p p (lstrip_p p s).

Definition strip (s : str) : str := strip_p is_space s.                  (* s.strip() *)
Definition strip_chars (cs s : str) : str := strip_p (memz cs) s.        (* s.strip(cs) *)
Definition lstrip_chars (cs s : str) : str := lstrip_p (memz cs) s.      (* s.lstrip(cs): a SET of characters *)

Fixpoint startswith (p s : str) : bool :=
  match p, s with
  | [], _ => true
  | a :: p', b :: s' => (a =? b) && startswith p' s'
  | _ :: _, [] => false
  end.

Definition removeprefix (p s : str) : str :=
  if startswith p s then skipn (length p) s else s.

Definition lower_c (c : Z) : Z :=
  if ((65 <=? c) && (c <=? 90)) || ((192 <=? c) && (c <=? 214)) || ((216 <=? c) && (c <=? 222))
  then c + 32 else c.
Definition lower (s : str) : str := map lower_c s.

(* s.split(sep) for a one-character sep: always at least one piece *)
Fixpoint split_on (sep : Z) (s : str) : list str :=
  match s with
  | [] => [[]]
  | c :: s' =>
      if c =? sep then [] :: split_on sep s'
      else match split_on sep s' with
           | [] => [[c]]
           | h :: t => (c :: h) :: t
           end
  end.

(* s.partition(sep) for a one-character sep: (before, found?, after) *)
Fixpoint partition (sep : Z) (s : str) : str * bool * str :=
  match s with
  | [] => ([], false, [])
  | c :: s' =>
      if c =? sep then ([], true, s')
      else let '(a, f, b) := partition sep s' in (c :: a, f, b)
  end.

(* s.split(sep)[-1] *)
Definition last_piece (sep : Z) (s : str) : str := last (split_on sep s) [].

(* sub in s *)
Fixpoint contains (sub s : str) : bool :=
  startswith sub s || match s with [] => false | _ :: s' => contains sub s' end.

(* sorted(list of str): code-point lexicographic order, insertion sort *)
Fixpoint str_leb (a b : str) : bool :=
  match a, b with
  | [], _ => true
  | _ :: _, [] => false
  | x :: a', y :: b' => if x <? y then true else if x =? y then str_leb a' b' else false
  end.

Fixpoint insert_sorted (x : str) (l : list str) : list str :=
  match l with
  | [] => [x]
  | y :: l' => if str_leb x y then x :: l else y :: insert_sorted x l'
  end.

Definition sort_strs (l : list str) : list str := fold_right insert_sorted [] l.

(* insertion-ordered dictionaries with str keys (Python dict): assignment keeps
   the position of an existing key, a new key goes to the end *)
Definition dict (V : Type) := list (str * V).

Fixpoint dget {V} (k : str) (d : dict V) : option V :=
  match d with
  | [] => None
  | (k', v) :: d' => if str_eqb k k' then Some v else dget k d'
  end.

Fixpoint dset {V} (k : str) (v : V) (d : dict V) : dict V :=
  match d with
  | [] => [(k, v)]
  | (k', v') :: d' => if str_eqb k k' then (k', v) :: d' else (k', v') :: dset k v d'
  end.

Definition is_digit (c : Z) : bool := (48 <=? c) && (c <=? 57).
Definition all_digits (s : str) : bool := nonempty s && forallb is_digit s.
