(* Model/MetaVmdk.v — VMDK metadata: DiskDescriptor.parse (key/values, extent lines through a
   backtracking matcher for RE_EXTENT_DESCRIPTOR), the sparse extent header variants and the
   embedded descriptor of SparseDisk.__init__.  No proofs here. *)
From Coq Require Import String ZArith List Bool Lia.
From DH Require Import Base.Plan Base.Layout Gen.Consts Gen.Layouts Gen.MetaVmdkTables Model.MetaCodec.
Import ListNotations.
Open Scope list_scope.
Open Scope Z_scope.

(* ---------- a small backtracking regular-expression matcher (Python re semantics:
   leftmost alternative first, greedy quantifiers, captures restored on backtracking) ---------- *)
Inductive cls := CSpace | CDigit | CNonSpace | CAny.
Inductive re :=
| REps
| RLit (s : list Z)
| RCls (c : cls)
| RPlus (c : cls)                (* c+ , greedy *)
| RSeq (a b : re)
| RAlt (a b : re)
| ROpt (a : re)                  (* a? , greedy *)
| RGrp (n : nat) (a : re)        (* capture group *)
| REnd.                          (* $ on a string without newlines *)

Definition in_cls (c : cls) (x : Z) : bool :=
  match c with
  | CSpace => is_space x
  | CDigit => is_digit x
  | CNonSpace => negb (is_space x)
  | CAny => negb (x =? 10)
  end.

Definition caps := list (nat * list Z).

Fixpoint cap_get (c : caps) (n : nat) : option (list Z) :=
  match c with
  | [] => None
  | (m, v) :: r => if Nat.eqb m n then Some v else cap_get r n
  end.

(* the text consumed between two positions of the input (s' is a suffix of s) *)
Definition taken (s s' : list Z) : list Z := firstn (length s - length s') s.
Arguments taken : simpl never.

Fixpoint star_match (cl : cls) (s : list Z) (c : caps) (k : list Z -> caps -> option caps) : option caps :=
  match s with
  | x :: s' => if in_cls cl x
               then match star_match cl s' c k with Some r => Some r | None => k s c end
               else k s c
  | [] => k s c
  end.

Fixpoint rmatch (r : re) (s : list Z) (c : caps) (k : list Z -> caps -> option caps) : option caps :=
  match r with
  | REps => k s c
  | RLit l => if starts_with l s then k (skipn (length l) s) c else None
  | RCls cl => match s with x :: s' => if in_cls cl x then k s' c else None | [] => None end
  | RPlus cl => match s with x :: s' => if in_cls cl x then star_match cl s' c k else None | [] => None end
  | RSeq a b => rmatch a s c (fun s' c' => rmatch b s' c' k)
  | RAlt a b => match rmatch a s c k with Some x => Some x | None => rmatch b s c k end
  | ROpt a => match rmatch a s c k with Some x => Some x | None => k s c end
  | RGrp n a => rmatch a s c (fun s' c' => k s' ((n, taken s s') :: c'))
  | REnd => match s with [] => k s c | _ => None end
  end.

(* re.search of a pattern anchored with ^ *)
Definition re_search (r : re) (s : list Z) : option caps := rmatch r s [] (fun _ c => Some c).

Definition lit (s : string) : list Z := map (fun a => Z.of_N (Ascii.N_of_ascii a)) (list_ascii_of_string s).

Fixpoint alts (l : list re) : re :=
  match l with [] => REps | [a] => a | a :: r => RAlt a (alts r) end.
Fixpoint seqs (l : list re) : re :=
  match l with [] => REps | [a] => a | a :: r => RSeq a (seqs r) end.

(* RE_EXTENT_DESCRIPTOR; groups: 1 access_mode 2 sectors 3 type 5 filename 7 start_sector
   9 partition_uuid 11 device_identifier.  The lists of alternatives and the line prefixes are
   generated from the source (Gen/MetaTables.v, tools/translate_meta.py, which also checks that
   the pattern still has the shape [re_extent_of] implements). *)
Definition ACCESS_MODES : list (list Z) := meta_extent_access.
Definition EXTENT_TYPES : list (list Z) := meta_extent_types.

Definition re_extent_of (access types : list (list Z)) : re :=
  seqs [RGrp 1 (alts (map RLit access)); RCls CSpace;
        RGrp 2 (RPlus CDigit); RCls CSpace;
        RGrp 3 (alts (map RLit types));
        ROpt (RGrp 4 (RSeq (RCls CSpace) (RGrp 5 (seqs [RLit [34]; RPlus CAny; RLit [34]]))));
        ROpt (RGrp 6 (RSeq (RCls CSpace) (RGrp 7 (RPlus CDigit))));
        ROpt (RGrp 8 (RSeq (RCls CSpace) (RGrp 9 (RPlus CNonSpace))));
        ROpt (RGrp 10 (RSeq (RCls CSpace) (RGrp 11 (RPlus CNonSpace))));
        REnd].
Definition re_extent : re := re_extent_of ACCESS_MODES EXTENT_TYPES.

(* ---------- ExtentDescriptor / DiskDescriptor.parse ---------- *)
Record extent := {
  x_raw : list Z; x_access : list Z; x_sectors : Z; x_type : list Z;
  x_filename : option (list Z);
  x_start : option Z;
  x_partition : option (list Z); x_device : option (list Z);
}.

Definition is_quote (c : Z) : bool := c =? 34.
Definition is_space_or_quote (c : Z) : bool := (c =? 32) || (c =? 34).

Definition extent_of (line : list Z) (c : caps) : res extent :=
  match cap_get c 1, cap_get c 2, cap_get c 3 with
  | Some am, Some sec, Some ty =>
    do n <- of_option (parse_dec sec);
    do st <- match cap_get c 7 with
             | None => Ok None
             | Some t => do v <- of_option (parse_dec t); Ok (Some v)
             end;
    Ok {| x_raw := line; x_access := am; x_sectors := n; x_type := ty;
          x_filename := option_map (strip is_quote) (cap_get c 5);
          x_start := st; x_partition := cap_get c 9; x_device := cap_get c 11 |}
  | _, _, _ => Err
  end.

Record descriptor := {
  dd_attr : list (list Z * list Z);
  dd_extents : list extent;
  dd_ddb : list (list Z * list Z);
  dd_sectors : Z;
}.

Definition dd0 : descriptor := {| dd_attr := []; dd_extents := []; dd_ddb := []; dd_sectors := 0 |}.

Definition extent_prefixes : list (list Z) := meta_extent_prefixes.

Definition parse_line (d : descriptor) (raw : list Z) : res descriptor :=
  let line := strip is_space raw in
  match line with
  | [] => Ok d
  | c0 :: _ =>
    if c0 =? 35 then Ok d
    else if existsb (fun p => starts_with p line) extent_prefixes then
      match re_search re_extent line with
      | None => Ok d                                   (* logged and ignored *)
      | Some c =>
        do e <- extent_of line c;
        Ok {| dd_attr := dd_attr d; dd_extents := dd_extents d ++ [e]; dd_ddb := dd_ddb d;
              dd_sectors := dd_sectors d + x_sectors e |}
      end
    else
      let '(a, _, b) := partition_on 61 line in
      let setting := strip is_space a in
      let value := strip is_space_or_quote b in
      if starts_with (lit "ddb.") setting
      then Ok {| dd_attr := dd_attr d; dd_extents := dd_extents d; dd_ddb := dict_put setting value (dd_ddb d);
                 dd_sectors := dd_sectors d |}
      else Ok {| dd_attr := dict_put setting value (dd_attr d); dd_extents := dd_extents d; dd_ddb := dd_ddb d;
                 dd_sectors := dd_sectors d |}
  end.

Fixpoint parse_lines (d : descriptor) (ls : list (list Z)) : res descriptor :=
  match ls with
  | [] => Ok d
  | l :: r => do d' <- parse_line d l; parse_lines d' r
  end.

Definition dd_parse (text : list Z) : res descriptor := parse_lines dd0 (split_on 10 text).

(* ---------- sparse extent header + embedded descriptor (SparseDisk.__init__) ---------- *)
Definition VBIG := vmdk_big_endian.

Inductive hkind := HVmdk | HSesparse | HCowd.

Definition read_sparse_header (rd : reader) (o : Z) : res (hkind * record) :=
  let magic := rd o 4 in
  if list_eqb magic vmdk_VMDK_MAGIC then
    do r <- read_struct rd VBIG vmdk_VMDKSparseExtentHeader_layout vmdk_VMDKSparseExtentHeader_size o;
    Ok (HVmdk, r)
  else if list_eqb magic vmdk_SESPARSE_MAGIC then
    do r <- read_struct rd VBIG vmdk_VMDKSESparseConstHeader_layout vmdk_VMDKSESparseConstHeader_size o;
    Ok (HSesparse, r)
  else if list_eqb magic vmdk_COWD_MAGIC then
    do r <- read_struct rd VBIG vmdk_COWDSparseExtentHeader_layout vmdk_COWDSparseExtentHeader_size o;
    Ok (HCowd, r)
  else Err.

Definition header_bytes (k : hkind) : Z :=
  match k with
  | HVmdk => vmdk_VMDKSparseExtentHeader_size
  | HSesparse => vmdk_VMDKSESparseConstHeader_size
  | HCowd => vmdk_COWDSparseExtentHeader_size
  end.

Fixpoint until_nul (b : list Z) : list Z :=
  match b with [] => [] | x :: r => if x =? 0 then [] else x :: until_nul r end.

Record sparse_meta := {
  sm_kind : hkind;
  sm_header : record;
  sm_size : Z; sm_sector_count : Z;
  sm_gd_size : Z; sm_gt_size : Z;
  sm_descriptor : option descriptor;
}.

Section Codec.
  Variable dec8 : list Z -> option (list Z).

  Definition sparse_open (rd : reader) (filesize : Z) : res sparse_meta :=
    do kh <- read_sparse_header rd 0;
    let '(k0, h0) := kh in
    match k0 with
    | HSesparse =>
      (* the magic at offset 0 of an SE-sparse extent is the low half of the 64-bit header magic *)
      if negb (vint h0 "magic" =? vmdk_SESPARSE_CONST_HEADER_MAGIC) then Err else
      let gd_size := vint h0 "grain_directory_size" * vmdk_SECTOR_SIZE / 8 in
      let gt_size := vint h0 "grain_table_size" * vmdk_SECTOR_SIZE / 8 in
      do _gd <- read_exact rd (vint h0 "grain_directory_offset" * vmdk_SECTOR_SIZE) (gd_size * 8);
      Ok {| sm_kind := k0; sm_header := h0; sm_size := vint h0 "capacity" * vmdk_SECTOR_SIZE;
            sm_sector_count := vint h0 "capacity"; sm_gd_size := gd_size; sm_gt_size := gt_size;
            sm_descriptor := None |}
    | _ =>
      (* footer at -1024 when the primary grain directory offset is -1 as int64 *)
      do kh1 <- (if vint h0 "primary_grain_directory_offset" =? vmdk_SPARSE_GD_AT_END
                 then do x <- read_sparse_header rd (Z.max 0 (filesize - 1024));
                      Ok (x, Z.max 0 (filesize - 1024) + header_bytes (fst x))
                 else Ok (kh, header_bytes k0));
      let '((k, h), pos0) := kh1 in
      match k with
      | HSesparse => Err      (* AttributeError: no primary_grain_directory_offset ... *)
      | HVmdk =>
        let cov := vint h "num_grain_table_entries" * vint h "grain_size" in
        if cov =? 0 then Err else
        let gd_size := (vint h "capacity" + cov - 1) / cov in
        do dp <- (if vint h "descriptor_size" >? 0 then
                    let o := vint h "descriptor_offset" * vmdk_SECTOR_SIZE in
                    let b := rd o (vint h "descriptor_size" * vmdk_SECTOR_SIZE) in
                    do t <- of_option (dec8 (until_nul b));
                    do d <- dd_parse t;
                    Ok (Some d, o + zlen b)
                  else Ok (None, pos0));
        let '(desc, pos) := dp in
        do _gd <- read_exact rd (vint h "primary_grain_directory_offset" * vmdk_SECTOR_SIZE) (gd_size * 4);
        Ok {| sm_kind := k; sm_header := h; sm_size := vint h "capacity" * vmdk_SECTOR_SIZE;
              sm_sector_count := vint h "capacity"; sm_gd_size := gd_size;
              sm_gt_size := vint h "num_grain_table_entries"; sm_descriptor := desc |}
      | HCowd =>
        let gd_size := vint h "num_grain_directory_entries" in
        do _gd <- read_exact rd (vint h "primary_grain_directory_offset" * vmdk_SECTOR_SIZE) (gd_size * 4);
        Ok {| sm_kind := k; sm_header := h; sm_size := vint h "capacity" * vmdk_SECTOR_SIZE;
              sm_sector_count := vint h "capacity"; sm_gd_size := gd_size; sm_gt_size := 4096;
              sm_descriptor := None |}
      end
    end.
End Codec.

(* ---------- the descriptor writer (specification side) ---------- *)
Definition render_kv (kv : list Z * list Z) : list Z := fst kv ++ [61] ++ [34] ++ snd kv ++ [34].
Definition render_ddb (kv : list Z * list Z) : list Z := fst kv ++ [32; 61; 32; 34] ++ snd kv ++ [34].
