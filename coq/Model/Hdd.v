(* Model/Hdd.v — a Parallels .hdd disk as HDD.open() assembles it: storages [start, end) (sectors), each with
   its own chain of image layers (snapshot chain, top first); StorageStream._read walks the storages from the
   one found by bisect, and reads each storage's stream at the storage-relative offset. *)
From Coq Require Import ZArith List Bool.
From DH Require Import Base.Plan Model.Chain Model.Vmdk.
Import ListNotations.
Open Scope Z_scope.

Definition hstorage := (Z * Z * list layer)%type.       (* start, end, the storage's own chain *)

Definition h_start (h : hstorage) : Z := fst (fst h).
Definition h_end (h : hstorage) : Z := snd (fst h).

Fixpoint hdd_loop (hs : list hstorage) (idx sector count : Z) : res (list (Z * lsrc)) :=
  if count <=? 0 then Ok [] else
  match hs with
  | [] => Ok []                                              (* stream_idx < len(self.streams) fails *)
  | (st, en, ls) :: hs' =>
      let n := Z.min (en - sector) count in
      do a <- chain_read ls 0 ((sector - st) * 512) (n * 512);
      do b <- hdd_loop hs' (idx + 1) (sector + n) (count - n);
      Ok (map (fun s => (idx, s)) a ++ b)
  end.

Definition hdd_read (hs : list hstorage) (offset length : Z) : res (list (Z * lsrc)) :=
  let sector := offset / 512 in
  let count := (length + 512 - 1) / 512 in
  let i := (bisect_right (map h_start hs) sector - 1)%nat in
  hdd_loop (skipn i hs) (Z.of_nat i) sector count.

(* specification: the storage that holds the sector, then the topmost layer of THAT storage's chain *)
Fixpoint hdd_src (hs : list hstorage) (idx : Z) (o : Z) : Z * lsrc :=
  match hs with
  | [] => (idx, LZero)
  | (st, en, ls) :: hs' =>
      if o / 512 <? en then (idx, chain_src ls 0 (o - st * 512)) else hdd_src hs' (idx + 1) o
  end.

(* ---------- run-length form for printing (tagged with the storage index) ---------- *)
Definition hpush (x : Z * lsrc) (acc : list (Z * lseg)) : list (Z * lseg) :=
  let '(i, s) := x in
  match acc with
  | (j, g) :: r => if i =? j then map (fun t => (i, t)) (lseg_push s [g]) ++ r
                   else map (fun t => (i, t)) (lseg_push s []) ++ acc
  | [] => map (fun t => (i, t)) (lseg_push s [])
  end.

Definition hdd_read_c (hs : list hstorage) (off n : Z) : res (list (Z * lseg)) :=
  match hdd_read hs off n with Ok r => Ok (fold_right hpush [] r) | Err => Err | Fuel => Fuel end.

Definition hdd_spec_c (hs : list hstorage) (off n : Z) : list (Z * lseg) :=
  fold_right hpush [] (map (hdd_src hs 0) (zseq off n)).
