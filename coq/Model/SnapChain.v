(* Model/SnapChain.v — hdd.Descriptor.get_snapshot_chain: walk ParentGUID links from a shot
   to the root, refusing a GUID that was already visited. GUIDs are integers here. *)
From Coq Require Import ZArith List Bool.
From DH Require Import Base.Plan.
Import ListNotations.
Open Scope Z_scope.

Definition shot := (Z * Z)%type.                 (* (guid, parent guid) *)
Definition NULL_GUID : Z := 0.

Fixpoint find_shot (shots : list shot) (g : Z) : option shot :=
  match shots with
  | [] => None
  | (g', p) :: r => if g' =? g then Some (g', p) else find_shot r g
  end.

(* chain is kept newest-last in the code; here reversed (head = last appended) *)
Fixpoint walk_chain (shots : list shot) (fuel : nat) (parent : Z) (chain : list Z) : res (list Z) :=
  if parent =? NULL_GUID then Ok (rev chain) else
  match fuel with
  | O => Fuel
  | S fuel' =>
    if existsb (Z.eqb parent) chain then Err               (* cyclic chain: ValueError *)
    else match find_shot shots parent with
         | None => Err                                      (* KeyError *)
         | Some (g, p) => walk_chain shots fuel' p (g :: chain)
         end
  end.

Definition get_snapshot_chain (shots : list shot) (guid : Z) : res (list Z) :=
  match find_shot shots guid with
  | None => Err
  | Some (g, p) => walk_chain shots (S (length shots)) p [g]
  end.
