(* Model/HyperV.v — dissect/hypervisor/descriptor/hyperv.py as executable Gallina.
   No proofs here (the model must still run when a proof breaks).

   Scope: HyperVFile.__init__ (header pair, gates, replay log, object-table
   worklist, key-table registry, file objects, linking), HyperVStorageKeyTable
   (entry walk), HyperVStorageKeyTableEntry (flags/type/key/raw/data/value,
   file-object pointer), HyperVStorageFileObject.read, as_dict and item access.

   The model describes the REPAIRED code for two defects (see fixes/):
     C11-hyperv-objtable-cycle : an ObjectTable entry whose offset is already
        loaded is skipped (the unfixed code appends it again and never ends);
     C17-hyperv-root-leaf      : HyperVFile.as_dict dumps a root-level value
        as a value (the unfixed code raises TypeError on it).

   Struct layouts, signatures, offsets and enum values come from Gen/*.v. *)
From Coq Require Import ZArith List Bool Lia.
From DH Require Import Base.Plan Base.Layout Base.Table.
From DH Require Gen.Consts Gen.Layouts Gen.Enums Gen.HyperVLits.
Import ListNotations.
Open Scope Z_scope.

Module C := Gen.Consts.
Module L := Gen.Layouts.
Module E := Gen.Enums.
Module K := Gen.HyperVLits.

(* ---------- files: sorted non-overlapping chunks, zeros in the gaps ---------- *)
Record file := { fl_size : Z; fl_chunks : list (Z * list Z) }.

Definition zlen {A} (l : list A) : Z := Z.of_nat (length l).

Fixpoint read_chunks (cs : list (Z * list Z)) (off n : Z) : list Z :=
  if n <=? 0 then [] else
  match cs with
  | [] => repeat 0 (Z.to_nat n)
  | (co, bs) :: r =>
      let ce := co + zlen bs in
      if off + n <=? co then repeat 0 (Z.to_nat n)
      else if ce <=? off then read_chunks r off n
      else
        let s := Z.max off co in
        let take := Z.min (off + n) ce - s in
        repeat 0 (Z.to_nat (s - off)) ++ slice bs (s - co) take
          ++ read_chunks r (s + take) (off + n - (s + take))
  end.

(* fh.seek(off); fh.read(n) : clipped at the end of the file; seeking to a negative offset raises,
   which every caller turns into Err through the short read *)
Definition fread (f : file) (off n : Z) : list Z :=
  if off <? 0 then [] else read_chunks (fl_chunks f) off (Z.min n (fl_size f - off)).

(* firstn / skipn with a Z count, never materialising a count larger than the list
   (image-derived sizes go up to 2^32 and 2^64; these are equal to firstn / skipn, see Proofs) *)
Definition zfirstn {A} (n : Z) (l : list A) : list A := firstn (Z.to_nat (Z.min n (zlen l))) l.
Definition zskipn {A} (n : Z) (l : list A) : list A := skipn (Z.to_nat (Z.min n (zlen l))) l.

(* ---------- packed little-endian structs, field by field ---------- *)
Definition widths (l : list field) : list Z := map Base.Layout.f_size l.

(* None = cstruct's EOFError on a short buffer *)
Fixpoint parse_fields (ws : list Z) (buf : list Z) : option (list Z) :=
  match ws with
  | [] => Some []
  | w :: ws' =>
      let raw := firstn (Z.to_nat w) buf in
      if zlen raw <? w then None else
      match parse_fields ws' (skipn (Z.to_nat w) buf) with
      | Some vs => Some (le_uint raw :: vs)
      | None => None
      end
  end.

(* ---------- file header ---------- *)
Record fhdr := { h_sig : Z; h_seq : Z; h_ver : Z; h_align : Z; h_rlo : Z; h_rls : Z; h_hsize : Z }.

Definition fhdr_widths := widths L.hyperv_HyperVStorageHeader_layout.
Definition fhdr_size := L.hyperv_HyperVStorageHeader_size.

Definition parse_fhdr (buf : list Z) : option fhdr :=
  match parse_fields fhdr_widths buf with
  | Some [sig; _; seq; ver; _; al; rlo; rls; hs] =>
      Some {| h_sig := sig; h_seq := seq; h_ver := ver; h_align := al; h_rlo := rlo; h_rls := rls; h_hsize := hs |}
  | _ => None
  end.

(* header1 if header1.sequence_number > header2.sequence_number else header2 *)
Definition active_is_first (h1 h2 : fhdr) : bool := h_seq h1 >? h_seq h2.
Definition active_header (h1 h2 : fhdr) : fhdr := if active_is_first h1 h2 then h1 else h2.

(* ---------- replay log: only success / failure is observable ---------- *)
Definition rlog_widths := widths L.hyperv_HyperVStorageReplayLog_layout.

Definition load_rlog (f : file) (off : Z) : res unit :=
  match parse_fields rlog_widths (fread f off L.hyperv_HyperVStorageReplayLog_size) with
  | Some (sig :: _ :: n :: _) =>
      if negb (sig =? C.hyperv_SIGNATURE_REPLAY_LOG_HEADER) then Err
      else if (0 <? n) && (fl_size f <? off + L.hyperv_HyperVStorageReplayLog_size
                                        + n * L.hyperv_HyperVStorageReplayLogEntry_size)
           then Err else Ok tt
  | _ => Err
  end.

(* ---------- object tables ---------- *)
Record oentry := { o_type : Z; o_off : Z; o_size : Z; o_alloc : Z }.

Definition otab_widths := widths L.hyperv_HyperVStorageObjectTable_layout.
Definition oent_widths := widths L.hyperv_HyperVStorageObjectTableEntry_layout.
Definition otab_size := L.hyperv_HyperVStorageObjectTable_size.
Definition oent_size := L.hyperv_HyperVStorageObjectTableEntry_size.

Definition parse_oentry (buf : list Z) : option oentry :=
  match parse_fields oent_widths buf with
  | Some [t; _; o; s; a] => Some {| o_type := t; o_off := o; o_size := s; o_alloc := a |}
  | _ => None
  end.

Fixpoint all_some {A} (l : list (option A)) : option (list A) :=
  match l with
  | [] => Some []
  | None :: _ => None
  | Some a :: r => match all_some r with Some r' => Some (a :: r') | None => None end
  end.

Definition load_otab (f : file) (off : Z) : res (list oentry) :=
  match parse_fields otab_widths (fread f off otab_size) with
  | Some [sig; n] =>
      if negb (sig =? C.hyperv_SIGNATURE_OBJECT_TABLE_HEADER) then Err
      else if (0 <? n) && (fl_size f <? off + otab_size + n * oent_size) then Err
      else of_option (all_some (map (fun i => parse_oentry (fread f (off + otab_size + i * oent_size) oent_size))
                                    (zseq 0 n)))
  | _ => Err
  end.

(* ---------- key tables ---------- *)
Record khdr := { kh_type : Z; kh_size : Z; kh_pidx : Z; kh_poff : Z; kh_ins : Z; kh_doff : Z }.

Definition ktab_widths := widths L.hyperv_HyperVStorageKeyTable_layout.
Definition kent_widths := widths L.hyperv_HyperVStorageKeyTableEntryHeader_layout.
Definition ktab_hsize := L.hyperv_HyperVStorageKeyTable_size.
Definition kent_hsize := L.hyperv_HyperVStorageKeyTableEntryHeader_size.

Definition parse_khdr (buf : list Z) : option khdr :=
  match parse_fields kent_widths buf with
  | Some [t; s; pi; po; _; ins; d] =>
      Some {| kh_type := t; kh_size := s; kh_pidx := pi; kh_poff := po; kh_ins := ins; kh_doff := d |}
  | _ => None
  end.

(* an entry as stored: its offset in the table, its header, and
   table.raw[offset + 21 : offset + size] *)
Record rentry := { r_off : Z; r_hdr : khdr; r_raw : list Z }.

Fixpoint walk (fuel : nat) (raw : list Z) (size eoff : Z) : res (list rentry) :=
  if eoff <? size then
    match fuel with
    | O => Fuel
    | S fuel' =>
        match parse_khdr (zskipn eoff raw) with
        | None => Err
        | Some h =>
            if kh_size h =? 0 then Ok [] else
            do rest <- walk fuel' raw size (eoff + kh_size h);
            Ok ({| r_off := eoff; r_hdr := h;
                   r_raw := zfirstn (kh_size h - kent_hsize) (zskipn (eoff + kent_hsize) raw) |} :: rest)
        end
    end
  else Ok [].


Record ktable := { kt_index : Z; kt_seq : Z; kt_entries : list rentry }.

(* HyperVStorageKeyTable.__init__ on raw = fh.read(size) *)
Definition parse_ktab (raw : list Z) (size : Z) : res ktable :=
  match parse_fields ktab_widths raw with
  | Some [sig; idx; seq; _] =>
      if negb (sig =? C.hyperv_SIGNATURE_KEY_TABLE_HEADER) then Err else
      do es <- walk (S (length raw)) raw size ktab_hsize;
      Ok {| kt_index := idx; kt_seq := seq; kt_entries := es |}
  | _ => Err
  end.

Definition load_ktab (f : file) (off size : Z) : res ktable := parse_ktab (fread f off size) size.

(* ---------- entry accessors ---------- *)
Definition e_flags (r : rentry) : Z := Z.shiftr (Z.land (kh_type (r_hdr r)) K.flags_mask) K.flags_shift.
Definition e_typ (r : rentry) : Z := Z.land (kh_type (r_hdr r)) K.type_mask.
Definition e_is_fop (r : rentry) : bool :=
  negb (Z.land (e_flags r) E.hyperv_KeyDataFlag_FileObjectPointer =? 0).

(* Python l[:n] *)
Definition py_prefix {A} (l : list A) (n : Z) : list A :=
  if n <? 0 then firstn (length l - Z.to_nat (- n)) l else firstn (Z.to_nat n) l.

Definition key_bytes (r : rentry) : list Z := py_prefix (r_raw r) (kh_doff (r_hdr r) - K.key_terminator).

Definition in_rng (a x b : Z) : bool := (a <=? x) && (x <=? b).
Definition cont (x : Z) : bool := in_rng 128 x 191.

(* bytes.decode("utf-8") succeeds (strict: no overlongs, no surrogates, <= U+10FFFF) *)
Fixpoint utf8_valid (l : list Z) : bool :=
  match l with
  | [] => true
  | b0 :: r0 =>
      if b0 <? 128 then utf8_valid r0
      else if in_rng 194 b0 223 then
        match r0 with b1 :: r1 => cont b1 && utf8_valid r1 | _ => false end
      else if in_rng 224 b0 239 then
        match r0 with
        | b1 :: b2 :: r2 =>
            (if b0 =? 224 then in_rng 160 b1 191 else if b0 =? 237 then in_rng 128 b1 159 else cont b1)
            && cont b2 && utf8_valid r2
        | _ => false
        end
      else if in_rng 240 b0 244 then
        match r0 with
        | b1 :: b2 :: b3 :: r3 =>
            (if b0 =? 240 then in_rng 144 b1 191 else if b0 =? 244 then in_rng 128 b1 143 else cont b1)
            && cont b2 && cont b3 && utf8_valid r3
        | _ => false
        end
      else false
  end.

(* little-endian 16-bit code units; None on an odd number of bytes *)
Fixpoint units_of (l : list Z) : option (list Z) :=
  match l with
  | [] => Some []
  | [_] => None
  | a :: b :: r => match units_of r with Some u => Some (a + 256 * b :: u) | None => None end
  end.

(* bytes.decode("utf-16-le") succeeds: surrogates properly paired *)
Fixpoint utf16_valid (u : list Z) : bool :=
  match u with
  | [] => true
  | x :: r =>
      if in_rng 55296 x 56319 then
        match r with y :: r' => in_rng 56320 y 57343 && utf16_valid r' | [] => false end
      else if in_rng 56320 x 57343 then false
      else utf16_valid r
  end.

Definition zmem (x : Z) (l : list Z) : bool := existsb (Z.eqb x) l.

(* ---------- values ---------- *)
Inductive value :=
| VInt (z : Z) | VUInt (z : Z) | VDouble (bits : Z)
| VString (units : list Z) | VArray (bs : list Z) | VBool (b : bool).

Inductive tree := Leaf (v : value) | Node (cs : list (list Z * tree)).

(* file_objects : dict offset -> size; the newest binding is first *)
Definition fobjs := list (Z * Z).

Definition e_data_inline (r : rentry) : list Z := skipn (Z.to_nat (kh_doff (r_hdr r))) (r_raw r).

(* file_object_pointer: struct.unpack("<IQ", data[:12]) -> (offset, size) *)
Definition fop_of (d : list Z) : option (Z * Z) :=
  match parse_fields K.fop_widths d with
  | Some [a; b] => if K.fop_size_first then Some (b, a) else Some (a, b)
  | _ => None
  end.

(* HyperVStorageKeyTableEntry.data *)
Definition e_data (f : file) (fo : fobjs) (r : rentry) : res (list Z) :=
  if e_is_fop r then
    match fop_of (e_data_inline r) with
    | None => Err
    | Some (offset, size) =>
        match assoc_z fo offset with
        | None => Err
        | Some osz => Ok (fread f offset (Z.min size osz))
        end
    end
  else Ok (e_data_inline r).

Definition take_uint (n : Z) (d : list Z) : res Z :=
  let raw := firstn (Z.to_nat n) d in
  if zlen raw <? n then Err else Ok (le_uint raw).

(* HyperVStorageKeyTableEntry.value *)
Definition e_value (f : file) (fo : fobjs) (r : rentry) : res value :=
  do data <- e_data f fo r;
  let t := e_typ r in
  match assoc_z K.value_formats t with
  | Some (fmt, n) =>
      do v <- take_uint n data;
      let z := if fmt =? K.fmt_q then signed n v else v in
      if t =? E.hyperv_KeyDataType_Int then Ok (VInt z)
      else if t =? E.hyperv_KeyDataType_UInt then Ok (VUInt z)
      else if t =? E.hyperv_KeyDataType_Double then Ok (VDouble z)
      else if t =? E.hyperv_KeyDataType_Bool then Ok (VBool (negb (z =? 0)))
      else Err
  | None =>
      if zmem t K.blob_types then
        do payload <- (if e_is_fop r then Ok data
                       else do n <- take_uint K.len_width data;
                            Ok (zfirstn n (skipn (Z.to_nat K.len_width) data)));
        if t =? E.hyperv_KeyDataType_String then
          match units_of payload with
          | Some u => if utf16_valid u then Ok (VString u) else Err
          | None => Err
          end
        else Ok (VArray payload)
      else Err
  end.

(* ---------- what linking sees of an entry ---------- *)
Definition ident := (Z * Z)%type.          (* (table index, offset in that table) *)
Definition id_eqb (a b : ident) : bool := (fst a =? fst b) && (snd a =? snd b).
Definition root_id : ident := (0, 0).
(* "if not self.header.parent_table_idx: return None" — the offset is ignored for the root *)
Definition norm_par (p : ident) : ident := if fst p =? 0 then root_id else p.

(* l_par is normalised: (0, 0) for every root entry *)
Record lentry := {
  l_id : ident; l_par : ident; l_key : list Z; l_keyok : bool;
  l_free : bool; l_isnode : bool; l_val : res value }.

Definition lentry_of (f : file) (fo : fobjs) (tidx : Z) (r : rentry) : lentry :=
  {| l_id := (tidx, r_off r);
     l_par := norm_par (kh_pidx (r_hdr r), kh_poff (r_hdr r));
     l_key := key_bytes r;
     l_keyok := utf8_valid (key_bytes r);
     l_free := e_typ r =? K.skipped_type;
     l_isnode := e_typ r =? K.node_type;
     l_val := e_value f fo r |}.

(* ---------- linking ---------- *)
Definition tables := list (Z * list lentry).      (* active table per index, in dict order *)

Definition live_entries (ts : tables) : list lentry :=
  filter (fun e => negb (l_free e)) (concat (map snd ts)).

(* key_tables[idx][0]._lookup[off] : free entries are in _lookup too *)
Definition lookup_id (ts : tables) (p : ident) : option lentry :=
  match assoc_z ts (fst p) with
  | Some es => find (fun e => snd (l_id e) =? snd p) es
  | None => None
  end.

Definition list_eqb (a b : list Z) : bool :=
  (length a =? length b)%nat && forallb (fun xy => fst xy =? snd xy) (combine a b).

(* d[k] = e : replace in place, else append *)
Fixpoint dict_set {A} (d : list (list Z * A)) (k : list Z) (v : A) : list (list Z * A) :=
  match d with
  | [] => [(k, v)]
  | (k', v') :: r => if list_eqb k' k then (k', v) :: r else (k', v') :: dict_set r k v
  end.

Definition dict_of (es : list lentry) : list (list Z * lentry) :=
  fold_left (fun d e => dict_set d (l_key e) e) es [].

Definition children_of (es : list lentry) (pid : ident) : list (list Z * lentry) :=
  dict_of (filter (fun e => id_eqb (l_par e) pid) es).

Fixpoint mapM {A B} (g : A -> res B) (l : list A) : res (list B) :=
  match l with
  | [] => Ok []
  | a :: r => do b <- g a; do r' <- mapM g r; Ok (b :: r')
  end.

(* as_dict: entries whose type is Node are dumped recursively, others by value *)
Fixpoint as_dict (fuel : nat) (es : list lentry) (pid : ident) : res (list (list Z * tree)) :=
  match fuel with
  | O => Fuel
  | S fuel' =>
      mapM (fun ke : list Z * lentry =>
              let (k, e) := ke in
              if l_isnode e then do cs <- as_dict fuel' es (l_id e); Ok (k, Node cs)
              else do v <- l_val e; Ok (k, Leaf v))
           (children_of es pid)
  end.

(* the linking loop of __init__ can raise: undecodable key, unknown parent *)
Definition link_check (ts : tables) (e : lentry) : bool :=
  l_keyok e && ((fst (l_par e) =? 0) || match lookup_id ts (l_par e) with Some _ => true | None => false end).

Definition link (ts : tables) : res tree :=
  let es := live_entries ts in
  if forallb (link_check ts) es then
    do cs <- as_dict (S (length es)) es root_id; Ok (Node cs)
  else Err.

(* item access hf[k1][k2]...[kn] followed by .value / node-ness *)
Inductive shape := SNone | SNode | SLeaf (v : res value).

Definition find_child (es : list lentry) (pid : ident) (k : list Z) : option lentry :=
  match find (fun ke : list Z * lentry => list_eqb (fst ke) k) (children_of es pid) with
  | Some ke => Some (snd ke)
  | None => None
  end.

Fixpoint eget (es : list lentry) (pid : ident) (path : list (list Z)) : shape :=
  match path with
  | [] => SNone
  | k :: rest =>
      match find_child es pid k with
      | None => SNone
      | Some e =>
          match rest with
          | [] => if l_isnode e then SNode else SLeaf (l_val e)
          | _ => eget es (l_id e) rest
          end
      end
  end.

(* ---------- the object-table worklist (generic in the loaders) ---------- *)
Record state := {
  s_kts : list (Z * list ktable);     (* key_tables: dict index -> tables sorted by sequence, descending *)
  s_fobjs : fobjs;
  s_visited : list Z;                 (* offsets of all object tables loaded so far *)
  s_pending : list (list oentry) }.   (* loaded, not yet iterated *)

(* append + stable sort(reverse=True) on an already sorted list *)
Fixpoint insert_seq (t : ktable) (l : list ktable) : list ktable :=
  match l with
  | [] => [t]
  | h :: r => if kt_seq t <=? kt_seq h then h :: insert_seq t r else t :: l
  end.

Fixpoint register (t : ktable) (reg : list (Z * list ktable)) : list (Z * list ktable) :=
  match reg with
  | [] => [(kt_index t, [t])]
  | (i, l) :: r => if i =? kt_index t then (i, insert_seq t l) :: r else (i, l) :: register t r
  end.

Section Worklist.
  Variable ld_otab : Z -> res (list oentry).
  Variable ld_ktab : Z -> Z -> res ktable.
  Variable ld_rlog : Z -> res unit.

  Definition proc_entry (e : oentry) (st : state) : res state :=
    if o_alloc e =? 0 then Ok st
    else if o_type e =? E.hyperv_ObjectEntryType_ObjectTable then
      if zmem (o_off e) (s_visited st) then Ok st          (* repaired: already loaded *)
      else do t <- ld_otab (o_off e);
           Ok {| s_kts := s_kts st; s_fobjs := s_fobjs st;
                 s_visited := s_visited st ++ [o_off e]; s_pending := s_pending st ++ [t] |}
    else if o_type e =? E.hyperv_ObjectEntryType_KeyTable then
      do kt <- ld_ktab (o_off e) (o_size e);
      Ok {| s_kts := register kt (s_kts st); s_fobjs := s_fobjs st;
            s_visited := s_visited st; s_pending := s_pending st |}
    else if o_type e =? E.hyperv_ObjectEntryType_File then
      Ok {| s_kts := s_kts st; s_fobjs := (o_off e, o_size e) :: s_fobjs st;
            s_visited := s_visited st; s_pending := s_pending st |}
    else if o_type e =? E.hyperv_ObjectEntryType_ReplayLog then
      do _ <- ld_rlog (o_off e); Ok st
    else Ok st.

  Fixpoint proc_entries (es : list oentry) (st : state) : res state :=
    match es with
    | [] => Ok st
    | e :: r => do st' <- proc_entry e st; proc_entries r st'
    end.

  (* one iteration of `for object_table in self.object_tables` *)
  Inductive wl := WDone (st : state) | WErr | WFuel | WMore (st : state).

  Definition wl_step (st : state) : wl :=
    match s_pending st with
    | [] => WDone st
    | t :: rest =>
        match proc_entries t {| s_kts := s_kts st; s_fobjs := s_fobjs st;
                                s_visited := s_visited st; s_pending := rest |} with
        | Ok st' => WMore st'
        | Err => WErr
        | Fuel => WFuel
        end
    end.

  (* at most n iterations *)
  Fixpoint wl_steps (n : nat) (st : state) : wl :=
    match n with
    | O => WMore st
    | S n' => match wl_step st with WMore st' => wl_steps n' st' | r => r end
    end.

  (* at most 2^k iterations (so that the fuel never has to be materialised in unary) *)
  Fixpoint wl_iter (k : nat) (st : state) : wl :=
    match k with
    | O => match wl_step st with WMore st' => WMore st' | r => r end
    | S k' => match wl_iter k' st with WMore st' => wl_iter k' st' | r => r end
    end.

  Definition init_state (start : Z) (t0 : list oentry) : state :=
    {| s_kts := []; s_fobjs := []; s_visited := [start]; s_pending := [t0] |}.

  Definition run_worklist (k : nat) (start : Z) : res state :=
    do t0 <- ld_otab start;
    match wl_iter k (init_state start t0) with
    | WDone st => Ok st
    | WErr => Err
    | WFuel | WMore _ => Fuel
    end.
End Worklist.

(* ---------- HyperVFile ---------- *)
Definition active_tables (f : file) (st : state) : tables :=
  flat_map (fun il : Z * list ktable =>
              match snd il with
              | [] => []
              | t :: _ => [(fst il, map (lentry_of f (s_fobjs st) (fst il)) (kt_entries t))]
              end) (s_kts st).

(* 2^(file_fuel f) > fl_size f + 1 >= number of distinct loadable object-table offsets + 1 *)
Definition file_fuel (f : file) : nat := S (Z.to_nat (Z.log2 (Z.max 1 (fl_size f + 1)))).

Record parsed := { p_first : bool; p_hdr : fhdr; p_tables : tables; p_ntables : Z }.

Definition open_file (f : file) : res parsed :=
  do h1 <- of_option (parse_fhdr (fread f C.hyperv_FIRST_HEADER_OFFSET fhdr_size));
  do h2 <- of_option (parse_fhdr (fread f C.hyperv_SECOND_HEADER_OFFSET fhdr_size));
  let h := active_header h1 h2 in
  if negb (h_sig h =? C.hyperv_SIGNATURE_STORAGE_HEADER) then Err
  else if negb (h_ver h =? K.supported_version) then Err
  else
    do _ <- load_rlog f (h_rlo h);
    do st <- run_worklist (load_otab f) (load_ktab f) (load_rlog f) (file_fuel f) C.hyperv_OBJECT_TABLE_OFFSET;
    Ok {| p_first := active_is_first h1 h2; p_hdr := h; p_tables := active_tables f st;
          p_ntables := zlen (s_visited st) |}.

(* ---------- what the correspondence prints ----------
   long strings / arrays are printed as (length, checksum) *)
Definition csum (l : list Z) : Z :=
  fold_left (fun a b => (a * 257 + b + 1) mod 2305843009213693951) l 0.

Inductive pvalue := PV (v : value) | PBig (is_string : bool) (len : Z) (sum : Z).
Inductive ptree := PLeaf (v : pvalue) | PNode (cs : list (list Z * ptree)).
Inductive pshape := PNone | PIsNode | PIsLeaf (v : res pvalue).

Definition squeeze_val (v : value) : pvalue :=
  match v with
  | VString u => if 32 <? zlen u then PBig true (zlen u) (csum u) else PV v
  | VArray b => if 32 <? zlen b then PBig false (zlen b) (csum b) else PV v
  | _ => PV v
  end.

Fixpoint squeeze (t : tree) : ptree :=
  match t with
  | Leaf v => PLeaf (squeeze_val v)
  | Node cs => PNode (map (fun kt : list Z * tree => (fst kt, squeeze (snd kt))) cs)
  end.

Definition squeeze_shape (s : shape) : pshape :=
  match s with
  | SNone => PNone
  | SNode => PIsNode
  | SLeaf (Ok v) => PIsLeaf (Ok (squeeze_val v))
  | SLeaf Err => PIsLeaf Err
  | SLeaf Fuel => PIsLeaf Fuel
  end.

(* which header is active, its version, the number of object tables loaded, as_dict(),
   and the shapes found by item access on the given paths *)
Definition decode (f : file) (paths : list (list (list Z))) :=
  match open_file f with
  | Ok p =>
      let es := live_entries (p_tables p) in
      (* the linking loop runs inside HyperVFile.__init__: a failure there is a failure to open *)
      if forallb (link_check (p_tables p)) es then
        Ok (p_first p, h_ver (p_hdr p), p_ntables p,
            match link (p_tables p) with Ok t => Ok (squeeze t) | Err => Err | Fuel => Fuel end,
            map (fun pa => squeeze_shape (eget es root_id pa)) paths)
      else Err
  | Err => Err
  | Fuel => Fuel
  end.
