(* Model/XmlDesc.v — OVF.__init__/disks, VBox.disks, PVS.disks over the element
   tree the XML parser produced (executable, no proofs), and the specification
   of the property for the three XML configuration formats.

   OVF follows the REPAIRED code (fixes/C18-ovf-empty-disk.diff): a <Disk>
   without ovf:fileRef is an empty disk, recorded without a backing file and
   not reported (the unrepaired constructor raises KeyError).  Paths, tags,
   attribute names and prefixes come from Gen/DescTables.v. *)
From Coq Require Import ZArith List Bool.
Import ListNotations.
Open Scope Z_scope.
From DH Require Import Base.Plan Model.Text Model.XmlTree Gen.DescTables.

(* dictionaries keyed by `str | None` (Element.get returns None for a missing attribute) *)
Definition okey := option str.
Definition okey_eqb (a b : okey) : bool :=
  match a, b with
  | None, None => true
  | Some x, Some y => str_eqb x y
  | _, _ => false
  end.
Definition odict (V : Type) := list (okey * V).
Fixpoint oget {V} (k : okey) (d : odict V) : option V :=
  match d with
  | [] => None
  | (k', v) :: d' => if okey_eqb k k' then Some v else oget k d'
  end.
Fixpoint oset {V} (k : okey) (v : V) (d : odict V) : odict V :=
  match d with
  | [] => [(k, v)]
  | (k', v') :: d' => if okey_eqb k k' then (k', v) :: d' else (k', v') :: oset k v d'
  end.

(* ------------------------------------------------------------------ OVF model *)
Definition ovf_references (root : elem) : odict (option str) :=
  fold_left (fun d f => oset (attr_get ovf_attr_id f) (attr_get ovf_attr_href f) d)
            (eval_path ovf_file_xpath root) [].

Fixpoint ovf_disk_table (refs : odict (option str)) (ds : list elem) (acc : odict (option str))
  : res (odict (option str)) :=
  match ds with
  | [] => Ok acc
  | d :: ds' =>
      let id := attr_get ovf_attr_diskid d in
      match attr_get ovf_attr_fileref d with
      | None => ovf_disk_table refs ds' (oset id None acc)            (* repaired: empty disk *)
      | Some r => match oget (Some r) refs with
                  | Some href => ovf_disk_table refs ds' (oset id href acc)
                  | None => Err                                         (* KeyError *)
                  end
      end
  end.

(* one iteration of the loop in OVF.disks *)
Definition ovf_item (refs disks : odict (option str)) (item : elem) : res (list (option str)) :=
  match find_child ovf_tag_hostresource item with
  | None => Err                                                          (* AttributeError: None.text *)
  | Some r =>
      match e_text r with
      | None => Err                                                      (* AttributeError: None.removeprefix *)
      | Some x0 =>
          let x := removeprefix ovf_res_prefix x0 in
          if startswith ovf_disk_prefix x then
            match oget (Some (last_piece ovf_ref_sep x)) disks with
            | Some (Some h) => Ok [Some h]
            | Some None => Ok []                                         (* repaired: no backing file *)
            | None => Err                                                (* KeyError *)
            end
          else if startswith ovf_file_prefix x then
            match oget (Some (last_piece ovf_ref_sep x)) refs with
            | Some h => Ok [h]
            | None => Err
            end
          else Err                                                       (* NotImplementedError *)
      end
  end.

Fixpoint ovf_items (refs disks : odict (option str)) (items : list elem) : res (list (option str)) :=
  match items with
  | [] => Ok []
  | i :: r => do a <- ovf_item refs disks i ; do b <- ovf_items refs disks r ; Ok (a ++ b)
  end.

(* list(OVF(fh).disks()) on the tree of fh's document *)
Definition ovf_disks (root : elem) : res (list (option str)) :=
  let refs := ovf_references root in
  do disks <- ovf_disk_table refs (eval_path ovf_disk_xpath root) [] ;
  ovf_items refs disks (eval_path ovf_drive_xpath root).

(* ------------------------------------------------------------------ VBox / PVS model *)
Definition vbox_one (e : elem) : res (list str) :=
  match attr_get vbox_attr_format e with
  | Some f =>
      if nonempty f && str_eqb (lower f) vbox_format_accepted then
        match attr_get vbox_attr_location e with
        | Some l => Ok [l]
        | None => Err                                                    (* KeyError: attrib[...] *)
        end
      else Ok []
  | None => Ok []
  end.

Fixpoint concat_res {A} (l : list (res (list A))) : res (list A) :=
  match l with
  | [] => Ok []
  | x :: r => do a <- x ; do b <- concat_res r ; Ok (a ++ b)
  end.

Definition vbox_disks (root : elem) : res (list str) :=
  concat_res (map vbox_one (eval_path vbox_disk_xpath root)).

Definition pvs_one (e : elem) : list (option str) :=
  match find_child pvs_tag_systemname e with
  | Some sn => [e_text sn]
  | None => []
  end.

Definition pvs_disks (root : elem) : list (option str) :=
  flat_map pvs_one (eval_path pvs_hdd_xpath root).

(* ------------------------------------------------------------------ specifications *)
(* Written from the formats (DSP0243 for OVF; the VirtualBox and Parallels
   settings files), with their own constants. *)
Definition s_ovf_ns : str :=   (* {http://schemas.dmtf.org/ovf/envelope/1} *)
  [123; 104; 116; 116; 112; 58; 47; 47; 115; 99; 104; 101; 109; 97; 115; 46; 100; 109; 116; 102; 46; 111; 114; 103; 47;
   111; 118; 102; 47; 101; 110; 118; 101; 108; 111; 112; 101; 47; 49; 125].
Definition s_rasd_ns : str :=  (* {http://schemas.dmtf.org/wbem/wscim/1/cim-schema/2/CIM_ResourceAllocationSettingData} *)
  [123; 104; 116; 116; 112; 58; 47; 47; 115; 99; 104; 101; 109; 97; 115; 46; 100; 109; 116; 102; 46; 111; 114; 103; 47;
   119; 98; 101; 109; 47; 119; 115; 99; 105; 109; 47; 49; 47; 99; 105; 109; 45; 115; 99; 104; 101; 109; 97; 47; 50; 47;
   67; 73; 77; 95; 82; 101; 115; 111; 117; 114; 99; 101; 65; 108; 108; 111; 99; 97; 116; 105; 111; 110; 83; 101; 116;
   116; 105; 110; 103; 68; 97; 116; 97; 125].
Definition s_vbox_ns : str :=  (* {http://www.virtualbox.org/} *)
  [123; 104; 116; 116; 112; 58; 47; 47; 119; 119; 119; 46; 118; 105; 114; 116; 117; 97; 108; 98; 111; 120; 46; 111;
   114; 103; 47; 125].
Definition ovf_n (local : str) : str := s_ovf_ns ++ local.
Definition rasd_n (local : str) : str := s_rasd_ns ++ local.

Definition n_References : str := [82; 101; 102; 101; 114; 101; 110; 99; 101; 115].
Definition n_File : str := [70; 105; 108; 101].
Definition n_DiskSection : str := [68; 105; 115; 107; 83; 101; 99; 116; 105; 111; 110].
Definition n_Disk : str := [68; 105; 115; 107].
Definition n_VirtualSystem : str := [86; 105; 114; 116; 117; 97; 108; 83; 121; 115; 116; 101; 109].
Definition n_VirtualHardwareSection : str :=
  [86; 105; 114; 116; 117; 97; 108; 72; 97; 114; 100; 119; 97; 114; 101; 83; 101; 99; 116; 105; 111; 110].
Definition n_Item : str := [73; 116; 101; 109].
Definition n_ResourceType : str := [82; 101; 115; 111; 117; 114; 99; 101; 84; 121; 112; 101].
Definition n_HostResource : str := [72; 111; 115; 116; 82; 101; 115; 111; 117; 114; 99; 101].
Definition n_id : str := [105; 100].
Definition n_href : str := [104; 114; 101; 102].
Definition n_diskId : str := [100; 105; 115; 107; 73; 100].
Definition n_fileRef : str := [102; 105; 108; 101; 82; 101; 102].
Definition s_17 : str := [49; 55].
Definition s_ovf_colon : str := [111; 118; 102; 58].
Definition s_slash_disk : str := [47; 100; 105; 115; 107; 47].
Definition s_slash_file : str := [47; 102; 105; 108; 101; 47].

Definition kids_named (t : str) (e : elem) : list elem := filter (tag_is t) (e_kids e).

(* (id, href) of every File of every References section *)
Definition spec_files (root : elem) : list (okey * option str) :=
  flat_map (fun r => map (fun f => (attr_get (ovf_n n_id) f, attr_get (ovf_n n_href) f))
                         (kids_named (ovf_n n_File) r))
           (kids_named (ovf_n n_References) root).

(* (diskId, fileRef) of every Disk of every DiskSection *)
Definition spec_disk_decls (root : elem) : list (okey * option str) :=
  flat_map (fun s => map (fun d => (attr_get (ovf_n n_diskId) d, attr_get (ovf_n n_fileRef) d))
                         (kids_named (ovf_n n_Disk) s))
           (kids_named (ovf_n n_DiskSection) root).

Definition is_disk_drive (item : elem) : bool :=
  existsb (fun k => str_eqb (itertext k) s_17) (kids_named (rasd_n n_ResourceType) item).

(* the disk-drive items (ResourceType 17) of the virtual system's hardware section *)
Definition spec_drives (root : elem) : list elem :=
  flat_map (fun vs => flat_map (fun hw => filter is_disk_drive (kids_named (ovf_n n_Item) hw))
                               (kids_named (ovf_n n_VirtualHardwareSection) vs))
           (kids_named (ovf_n n_VirtualSystem) root).

Fixpoint assoc_o {V} (k : okey) (l : list (okey * V)) : option V :=
  match l with
  | [] => None
  | (k', v) :: r => if okey_eqb k k' then Some v else assoc_o k r
  end.

(* the reference after an optional "ovf:": /disk/<diskId> or /file/<fileId> *)
Inductive hostref := HDisk (id : str) | HFile (id : str) | HBad.
Definition parse_hostref (x0 : str) : hostref :=
  let x := if startswith s_ovf_colon x0 then skipn 4 x0 else x0 in
  if startswith s_slash_disk x then HDisk (skipn 6 x)
  else if startswith s_slash_file x then HFile (skipn 6 x)
  else HBad.

Definition host_resource (item : elem) : option str :=
  match kids_named (rasd_n n_HostResource) item with
  | r :: _ => e_text r
  | [] => None
  end.

(* backing file of one disk drive: None = malformed reference; Some [] = empty disk *)
Definition spec_drive_file (root : elem) (item : elem) : option (list str) :=
  match host_resource item with
  | None => None
  | Some x =>
      match parse_hostref x with
      | HDisk id => match assoc_o (Some id) (spec_disk_decls root) with
                    | Some None => Some []                               (* empty disk: no backing file *)
                    | Some (Some fr) => match assoc_o (Some fr) (spec_files root) with
                                        | Some (Some h) => Some [h]
                                        | _ => None
                                        end
                    | None => None
                    end
      | HFile id => match assoc_o (Some id) (spec_files root) with
                    | Some (Some h) => Some [h]
                    | _ => None
                    end
      | HBad => None
      end
  end.

Definition spec_ovf_disks (root : elem) : list str :=
  flat_map (fun i => match spec_drive_file root i with Some l => l | None => [] end) (spec_drives root).

Fixpoint nodup_okeys {V} (l : list (okey * V)) : bool :=
  match l with
  | [] => true
  | (k, _) :: r => negb (existsb (fun kv => okey_eqb k (fst kv)) r) && nodup_okeys r
  end.

Definition is_some {A} (o : option A) : bool := match o with Some _ => true | None => false end.

(* in scope: identifiers are present, unique and '/'-free, every fileRef names a
   File, every disk drive has a resolvable host resource *)
Definition slash_free (o : okey) : bool :=
  match o with Some s => negb (memz s 47) | None => false end.

Definition wf_ovf (root : elem) : bool :=
  let files := spec_files root in
  let decls := spec_disk_decls root in
  nodup_okeys files && nodup_okeys decls
  && forallb (fun f => slash_free (fst f) && is_some (snd f)) files
  && forallb (fun d => slash_free (fst d)
                       && match snd d with None => true | Some fr => is_some (assoc_o (Some fr) files) end) decls
  && forallb (fun i => is_some (spec_drive_file root i)) (spec_drives root).

(* --- VirtualBox: every HardDisk of the media registry (at any depth; children
   are differencing images) that has a location, is of type Normal and is a VDI *)
Definition n_HardDisk : str := [72; 97; 114; 100; 68; 105; 115; 107].
Definition n_location : str := [108; 111; 99; 97; 116; 105; 111; 110].
Definition n_type : str := [116; 121; 112; 101].
Definition n_format : str := [102; 111; 114; 109; 97; 116].
Definition s_Normal : str := [78; 111; 114; 109; 97; 108].
Definition s_vdi : str := [118; 100; 105].

Definition spec_vbox_one (e : elem) : list str :=
  if tag_is (s_vbox_ns ++ n_HardDisk) e then
    match attr_get n_location e, attr_get n_type e, attr_get n_format e with
    | Some l, Some t, Some f => if str_eqb t s_Normal && str_eqb (lower f) s_vdi then [l] else []
    | _, _, _ => []
    end
  else [].

Fixpoint spec_vbox_under (e : elem) : list str :=     (* strictly below e, document order *)
  match e with
  | Elem _ _ _ _ ks => flat_map (fun k => spec_vbox_one k ++ spec_vbox_under k) ks
  end.
Definition spec_vbox_disks (root : elem) : list str := spec_vbox_under root.

(* --- Parallels PVS: the SystemName of every Hdd device below the root *)
Definition n_Hdd : str := [72; 100; 100].
Definition n_SystemName : str := [83; 121; 115; 116; 101; 109; 78; 97; 109; 101].

Definition spec_pvs_one (e : elem) : list (option str) :=
  if tag_is n_Hdd e then
    match kids_named n_SystemName e with
    | sn :: _ => [e_text sn]
    | [] => []
    end
  else [].

Fixpoint spec_pvs_under (e : elem) : list (option str) :=
  match e with
  | Elem _ _ _ _ ks => flat_map (fun k => spec_pvs_one k ++ spec_pvs_under k) ks
  end.

(* in scope: every Hdd that names an image names a non-empty one *)
Definition wf_pvs (root : elem) : bool :=
  forallb (fun o => match o with Some (_ :: _) => true | _ => false end) (spec_pvs_under root).

Definition somes {A} (l : list (option A)) : list A :=
  flat_map (fun o => match o with Some a => [a] | None => [] end) l.

Definition spec_pvs_disks (root : elem) : list str := somes (spec_pvs_under root).
