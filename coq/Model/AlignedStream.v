(* Model/AlignedStream.v — dissect.util.stream.AlignedStream (the external base class of
   every disk stream) as an executable state machine.

   Bytes are not modelled: a buffer or a read result is a *range* of stream positions
   (start, length) — the bytes a back end returned for that range.  What a back end
   returns is abstracted to the number of bytes it yields for a call ([blen off len]);
   each reader's own theorem says those bytes are the guest bytes of that range. *)
From Coq Require Import ZArith List Bool.
From DH Require Import Base.Plan.
Import ListNotations.
Open Scope Z_scope.

Definition range := (Z * Z)%type.             (* (start, length) *)

Record sstate := { s_pos : Z; s_pos_align : Z; s_buf : option range }.

Inductive whence := SEEK_SET | SEEK_CUR | SEEK_END.

Inductive sop :=
| OpSeek (pos : Z) (w : whence)
| OpRead (n : Z)                 (* read(n); n = -1 reads to the end; readinto(len n buffer) is the same *)
| OpPeek (n : Z)
| OpReadOffset (off n : Z)
| OpTell.

Inductive sout :=
| OutBytes (rs : list range)
| OutPos (p : Z)
| OutErr.                          (* ValueError on a bad argument; the state is unchanged *)

Section Stream.
  Variable size : Z.
  Variable align : Z.
  Variable blen : Z -> Z -> res Z.        (* bytes the back end _read(off, len) returns *)

  Definition init : sstate := {| s_pos := 0; s_pos_align := 0; s_buf := None |}.

  (* _set_pos *)
  Definition set_pos (st : sstate) (p : Z) : sstate :=
    let npa := p - p mod align in
    if s_pos_align st =? npa then {| s_pos := p; s_pos_align := s_pos_align st; s_buf := s_buf st |}
    else {| s_pos := p; s_pos_align := npa; s_buf := None |}.

  (* python slice buf[a:b] of a buffered range, for 0 <= a *)
  Definition slice_range (r : range) (a b : Z) : range :=
    let '(s, l) := r in
    let a' := Z.min a l in
    let b' := Z.min (Z.max b a') l in
    (s + a', b' - a').

  Definition buf_nonempty (b : option range) : bool :=
    match b with Some (_, l) => 0 <? l | None => false end.

  (* _fill_buf *)
  Definition fill_buf (st : sstate) : res sstate :=
    if buf_nonempty (s_buf st) || (size <=? s_pos st) || (size <=? s_pos_align st) then Ok st
    else do l <- blen (s_pos_align st) align;
         Ok {| s_pos := s_pos st; s_pos_align := s_pos_align st; s_buf := Some (s_pos_align st, l) |}.

  (* self._buf[a:b] — None is not subscriptable *)
  Definition buf_slice (st : sstate) (a b : Z) : res range :=
    match s_buf st with Some r => Ok (slice_range r a b) | None => Err end.

  (* read(n) for a stream of known size, in its three phases; a phase state is
     (stream state, ranges read so far, bytes still wanted) *)
  Definition pstate := (sstate * list range * Z)%type.

  (* misaligned start: serve from the alignment buffer *)
  Definition phase1 (x : pstate) : res pstate :=
    let '(st, out, n) := x in
    if negb (s_pos st =? s_pos_align st) then
      do st1 <- fill_buf st;
      let buffer_pos := s_pos st1 - s_pos_align st1 in
      let buffer_len := Z.min n (align - buffer_pos) in
      do piece <- buf_slice st1 buffer_pos (buffer_pos + buffer_len);
      Ok (set_pos st1 (s_pos st1 + buffer_len), out ++ [piece], n - buffer_len)
    else Ok x.

  (* aligned blocks: one back-end call *)
  Definition phase2 (x : pstate) : res pstate :=
    let '(st, out, n) := x in
    if align <=? n then
      let count := n / align in
      let read_len := count * align in
      do l <- blen (s_pos st) read_len;
      Ok (set_pos st (s_pos st + read_len), out ++ [(s_pos st, l)], n mod align)
    else Ok x.

  (* misaligned tail: fill the buffer and serve its head *)
  Definition phase3 (x : pstate) : res (sstate * list range) :=
    let '(st, out, n) := x in
    if 0 <? n then
      do st3 <- fill_buf st;
      do piece <- buf_slice st3 0 n;
      Ok (set_pos st3 (s_pos st3 + n), out ++ [piece])
    else Ok (st, out).

  Definition read (st : sstate) (n : Z) : res (sstate * list range) :=
    if n <? -1 then Err else
    let remaining := size - s_pos st in
    let n := if n =? -1 then remaining else Z.min n remaining in
    if (n =? 0) || (size <=? s_pos st) then Ok (st, []) else
    do x1 <- phase1 (st, [], n);
    do x2 <- phase2 x1;
    phase3 x2.

  (* _seek + _set_pos *)
  Definition seek (st : sstate) (p : Z) (w : whence) : res (sstate * Z) :=
    match w with
    | SEEK_SET => if p <? 0 then Err else Ok (set_pos st p, p)
    | SEEK_CUR => let p' := Z.max 0 (s_pos st + p) in Ok (set_pos st p', p')
    | SEEK_END => let p' := Z.max 0 (size + p) in Ok (set_pos st p', p')
    end.

  Definition step (st : sstate) (o : sop) : res (sstate * sout) :=
    match o with
    | OpSeek p w => do r <- seek st p w; Ok (fst r, OutPos (snd r))
    | OpRead n => do r <- read st n; Ok (fst r, OutBytes (snd r))
    | OpPeek n => do r <- read st n; Ok (set_pos (fst r) (s_pos st), OutBytes (snd r))
    | OpReadOffset off n =>
        do r <- seek st off SEEK_SET; do r' <- read (fst r) n; Ok (fst r', OutBytes (snd r'))
    | OpTell => Ok (st, OutPos (s_pos st))
    end.

  Fixpoint run (st : sstate) (ops : list sop) : res (sstate * list sout) :=
    match ops with
    | [] => Ok (st, [])
    | o :: rest =>
      match step st o with
      | Ok r => do r' <- run (fst r) rest; Ok (fst r', snd r :: snd r')
      | Err => do r' <- run st rest; Ok (fst r', OutErr :: snd r')
      | Fuel => Fuel
      end
    end.

  (* ---------- specification: an immutable byte array of [size] bytes with a cursor ---------- *)
  Definition spec_read_len (pos n : Z) : Z :=
    if n =? -1 then Z.max 0 (size - pos) else Z.max 0 (Z.min n (size - pos)).

  Definition spec_step (pos : Z) (o : sop) : option (Z * sout) :=
    match o with
    | OpSeek p SEEK_SET => if p <? 0 then None else Some (p, OutPos p)
    | OpSeek p SEEK_CUR => let p' := Z.max 0 (pos + p) in Some (p', OutPos p')
    | OpSeek p SEEK_END => let p' := Z.max 0 (size + p) in Some (p', OutPos p')
    | OpRead n => if n <? -1 then None else
                  let m := spec_read_len pos n in Some (pos + m, OutBytes [(pos, m)])
    | OpPeek n => if n <? -1 then None else Some (pos, OutBytes [(pos, spec_read_len pos n)])
    | OpReadOffset off n => if (off <? 0) || (n <? -1) then None else
                  let m := spec_read_len off n in Some (off + m, OutBytes [(off, m)])
    | OpTell => Some (pos, OutPos pos)
    end.
End Stream.

(* the stream positions a list of ranges stands for *)
Definition flat (rs : list range) : list Z := flat_map (fun r => zseq (fst r) (snd r)) rs.

(* outputs only (what the correspondence prints) *)
Definition run_outs (size align : Z) (blen : Z -> Z -> res Z) (ops : list sop) : res (list sout) :=
  match run size align blen init ops with Ok r => Ok (snd r) | Err => Err | Fuel => Fuel end.

(* the abstract array with a cursor, run over a history *)
Fixpoint spec_run (size : Z) (pos : Z) (ops : list sop) : list sout :=
  match ops with
  | [] => []
  | o :: rest =>
    match spec_step size pos o with
    | Some (pos', so) => so :: spec_run size pos' rest
    | None => OutErr :: spec_run size pos rest
    end
  end.

(* length of what a reader's _read model returns, for driving [run] in the correspondence *)
Definition blen_plan (bread : Z -> Z -> res (list seg)) (off len : Z) : res Z :=
  do p <- bread off len; Ok (plan_len p).
