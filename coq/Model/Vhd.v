(* Model/Vhd.v — dissect/hypervisor/disk/vhd.py as executable Gallina.
   No proofs here (the model must still run when a proof breaks). *)
From Coq Require Import ZArith List Bool Lia.
From DH Require Import Base.Arith Base.Plan Base.Table.
From DH Require Gen.Consts.
Import ListNotations.
Open Scope Z_scope.

Definition SECTOR := Gen.Consts.vhd_SECTOR_SIZE.

Record vhd_dyn := {
  d_size : Z;                  (* footer.current_size *)
  d_block_size : Z;            (* dynamic_header.block_size *)
  d_max_entries : Z;           (* dynamic_header.max_table_entries *)
  d_bat : Z -> option Z;       (* raw uint32 at table_offset + 4*i; None = short read *)
}.

(* DynamicDisk.__init__ *)
Definition spb (d : vhd_dyn) : Z := d_block_size d / SECTOR.
Definition bitmap_sectors (d : vhd_dyn) : Z := (spb d / 8 + SECTOR - 1) / SECTOR.

(* BlockAllocationTable.get : 0xFFFFFFFF -> None; the caller tests truthiness,
   so None and 0 both mean "sparse" (returned here as 0). *)
Definition bat_get (d : vhd_dyn) (block : Z) : res Z :=
  if block + 1 >? d_max_entries d then Err else
  match d_bat d block with
  | None => Err                                  (* struct.error on a short read *)
  | Some v => Ok (if v =? 4294967295 then 0 else v)
  end.

(* DynamicDisk.read_sectors *)
Fixpoint dyn_read_sectors (d : vhd_dyn) (fuel : nat) (sector count : Z) : res (list seg) :=
  if count <=? 0 then Ok [] else
  match fuel with
  | O => Fuel
  | S fuel' =>
    let block := sector / spb d in
    let offset := sector mod spb d in
    let block_remaining := spb d - offset in
    let read_count := Z.min count block_remaining in
    do so <- bat_get d block;
    let s := if so =? 0 then SZero (read_count * SECTOR)
             else SFile ((so + bitmap_sectors d + offset) * SECTOR) (read_count * SECTOR) in
    do rest <- dyn_read_sectors d fuel' (sector + read_count) (count - read_count);
    Ok (s :: rest)
  end.

(* VHD._read over a dynamic disk (with the clamp to the disk size) *)
Definition dyn_read (d : vhd_dyn) (fuel : nat) (offset length : Z) : res (list seg) :=
  let length := Z.min length (d_size d - offset) in
  let sector := offset / SECTOR in
  let count := (length + SECTOR - 1) / SECTOR in
  dyn_read_sectors d fuel sector count.

(* FixedDisk.read_sectors / VHD._read over a fixed disk *)
Definition fixed_read_sectors (sector count : Z) : list seg :=
  [SFile (sector * SECTOR) (count * SECTOR)].
Definition fixed_read (size offset length : Z) : list seg :=
  let length := Z.min length (size - offset) in
  fixed_read_sectors (offset / SECTOR) ((length + SECTOR - 1) / SECTOR).

(* read_footer: which of the two candidate footers is used *)
Definition footer_offset (file_size features_at_512 : Z) : Z :=
  if Z.land features_at_512 2 =? 0 then file_size - 511 else file_size - 512.

(* VHD.__init__: fixed iff data_offset = 2^64-1 *)
Definition is_fixed (data_offset : Z) : bool := data_offset =? 18446744073709551615.

(* ---------- specification (written from the VHD spec, not from the code) ---------- *)
Definition guest_src (d : vhd_dyn) (o : Z) : src :=
  let bs := spb d * SECTOR in
  match d_bat d (o / bs) with
  | Some v => if (v =? 4294967295) || (v =? 0) then Zero
              else File ((v + bitmap_sectors d) * SECTOR + o mod bs)
  | None => Zero
  end.

Definition fixed_src (o : Z) : src := File o.

Definition fuel_for (count : Z) : nat := S (Z.to_nat count).
