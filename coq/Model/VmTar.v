(* Model/VmTar.v — dissect/hypervisor/util/vmtar.py on top of CPython 3.12 tarfile, as
   executable Gallina.  No proofs here.

   Modelled (tarfile.py, external dependency): nts, nti, calc_chksums, TarInfo.frombuf,
   TarInfo.fromtarfile, _proc_member / _proc_builtin / _proc_gnulong, _block, TarFile.next,
   TarFile.getmembers (_load), TarFile.extractfile + _FileInFile.read for members read whole.
   Modelled (vmtar.py): VisorTarInfo.frombuf (magic slice and field slices from Gen/VmTar.v),
   VisorTarInfo._proc_member (skip condition from Gen/VmTar.v).
   Flagged as unmodelled (the model answers [Unmod], never a guess): pax headers (x, g, X),
   GNU sparse members (S), negative sizes (base-256 number fields with a 0o377 lead byte),
   number fields that use int()'s extended grammar (sign, underscore, 0o prefix), link members
   as extraction targets.

   The flag [va] selects the TarInfo class: true = VisorTarInfo, false = tarfile.TarInfo
   (what a standard reader does with the same bytes). *)
From Coq Require Import ZArith List Bool Lia.
From DH Require Import Base.Layout.
From DH Require Spec.VmTar.
From DH Require Gen.VmTar.
Import ListNotations.
Open Scope Z_scope.

Definition BLOCK : Z := 512.
Definition blen (l : list Z) : Z := Z.of_nat (length l).

(* fileobj.seek(off); fileobj.read(n)   (0 <= off, 0 <= n; clipped at EOF) *)
Definition rd (f : list Z) (off n : Z) : list Z := slice f off n.

(* ---------- tarfile helpers ---------- *)
Fixpoint nts (s : list Z) : list Z :=
  match s with [] => [] | b :: r => if b =? 0 then [] else b :: nts r end.

Inductive nres := NOk (v : Z) | NInvalid | NUnmod.

Definition is_space (b : Z) : bool :=
  ((9 <=? b) && (b <=? 13)) || ((28 <=? b) && (b <=? 32)).
Fixpoint lstrip (s : list Z) : list Z :=
  match s with [] => [] | b :: r => if is_space b then lstrip r else s end.
Definition strip (s : list Z) : list Z := rev (lstrip (rev (lstrip s))).
Definition is_oct (b : Z) : bool := (48 <=? b) && (b <=? 55).
Fixpoint oct_val (acc : Z) (s : list Z) : Z :=
  match s with [] => acc | b :: r => oct_val (acc * 8 + (b - 48)) r end.
(* characters with which int(s, 8) accepts more than plain octal digits: + - _ o O *)
Definition int_grammar_char (b : Z) : bool :=
  (b =? 43) || (b =? 45) || (b =? 95) || (b =? 111) || (b =? 79).

Definition nti (s : list Z) : nres :=
  match s with
  | [] => NInvalid
  | b0 :: r =>
    if (b0 =? 128) || (b0 =? 255) then
      let n := be_uint r in
      NOk (if b0 =? 255 then - (256 ^ blen r - n) else n)
    else
      let t := nts s in
      if existsb (fun b => 128 <=? b) t then NInvalid       (* ascii/strict decode fails: ValueError *)
      else
        let u := strip t in
        match u with
        | [] => NOk 0
        | _ => if forallb is_oct u then NOk (oct_val 0 u)
               else if existsb int_grammar_char u then NUnmod else NInvalid
        end
  end.

Definition zsum (l : list Z) : Z := fold_right Z.add 0 l.
Definition sbyte (b : Z) : Z := if b <? 128 then b else b - 256.
Definition chksum_unsigned (buf : list Z) : Z := 256 + zsum (slice buf 0 148) + zsum (slice buf 156 356).
Definition chksum_signed (buf : list Z) : Z :=
  256 + zsum (map sbyte (slice buf 0 148)) + zsum (map sbyte (slice buf 156 356)).

Definition count0 (l : list Z) : Z := blen (filter (fun b => b =? 0) l).

(* TarInfo._block *)
Definition block (n : Z) : Z :=
  let q := n / BLOCK in let r := n mod BLOCK in (if r =? 0 then q else q + 1) * BLOCK.

(* member types *)
Definition REGTYPE := 48.  Definition AREGTYPE := 0.  Definition LNKTYPE := 49.
Definition SYMTYPE := 50.  Definition CHRTYPE := 51.  Definition BLKTYPE := 52.
Definition DIRTYPE := 53.  Definition FIFOTYPE := 54. Definition CONTTYPE := 55.
Definition GNUTYPE_LONGNAME := 76.  Definition GNUTYPE_LONGLINK := 75.  Definition GNUTYPE_SPARSE := 83.
Definition XHDTYPE := 120.  Definition XGLTYPE := 103.  Definition SOLARIS_XHDTYPE := 88.

Definition mem (x : Z) (l : list Z) : bool := existsb (Z.eqb x) l.
Definition SUPPORTED_TYPES := [REGTYPE; AREGTYPE; LNKTYPE; SYMTYPE; DIRTYPE; FIFOTYPE; CONTTYPE; CHRTYPE; BLKTYPE;
                               GNUTYPE_LONGNAME; GNUTYPE_LONGLINK; GNUTYPE_SPARSE].
Definition REGULAR_TYPES := [REGTYPE; AREGTYPE; CONTTYPE; GNUTYPE_SPARSE].
Definition GNU_TYPES := [GNUTYPE_LONGNAME; GNUTYPE_LONGLINK; GNUTYPE_SPARSE].
Definition isreg (t : Z) : bool := mem t REGULAR_TYPES.
(* the test `self.isreg() or self.type not in SUPPORTED_TYPES` of _proc_builtin and extractfile *)
Definition has_data (t : Z) : bool := isreg t || negb (mem t SUPPORTED_TYPES).

Definition SLASH := 47.
Definition ends_slash (s : list Z) : bool := match rev s with b :: _ => b =? SLASH | [] => false end.
Fixpoint lstrip_slash (s : list Z) : list Z :=
  match s with [] => [] | b :: r => if b =? SLASH then lstrip_slash r else s end.
Definition rstrip_slash (s : list Z) : list Z := rev (lstrip_slash (rev s)).
Definition removesuffix_slash (s : list Z) : list Z :=
  match rev s with b :: r => if b =? SLASH then rev r else s | [] => s end.

Fixpoint list_eqb (a b : list Z) : bool :=
  match a, b with
  | [], [] => true
  | x :: a', y :: b' => (x =? y) && list_eqb a' b'
  | _, _ => false
  end.

(* ---------- headers ---------- *)
Inductive herr := EEmpty | ETrunc | EEof | EInvalid.

Record hdr := mkhdr {
  h_name : list Z; h_link : list Z; h_size : Z; h_type : Z;
  h_visor : bool; h_voff : Z; h_text : Z; h_fix : Z }.

Inductive hres :=
| HOk (h : hdr)
| HErr (e : herr)        (* a tarfile.HeaderError subclass *)
| HRaise                 (* any other exception (struct.error) *)
| HUnmod.

(* first failing number field decides (they are all InvalidHeaderError) *)
Fixpoint nti_all (fs : list (list Z)) : nres :=
  match fs with
  | [] => NOk 0
  | f :: r => match nti f with NOk _ => nti_all r | e => e end
  end.

(* struct.unpack(fmt, buf[lo:hi])[0] *)
Definition unpack_field (buf : list Z) (lo hi width : Z) (sgn big : bool) : option Z :=
  let raw := slice buf lo (hi - lo) in
  if blen raw =? width then
    let v := uint_of big raw in Some (if sgn then signed width v else v)
  else None.

(* tarfile.TarInfo.frombuf *)
Definition frombuf_std (buf : list Z) : hres :=
  if blen buf =? 0 then HErr EEmpty else
  if negb (blen buf =? BLOCK) then HErr ETrunc else
  if count0 buf =? BLOCK then HErr EEof else
  match nti (slice buf 148 8) with
  | NInvalid => HErr EInvalid
  | NUnmod => HUnmod
  | NOk chk =>
    if negb ((chk =? chksum_unsigned buf) || (chk =? chksum_signed buf)) then HErr EInvalid else
    match nti_all [slice buf 100 8; slice buf 108 8; slice buf 116 8] with
    | NInvalid => HErr EInvalid | NUnmod => HUnmod
    | NOk _ =>
    match nti (slice buf 124 12) with
    | NInvalid => HErr EInvalid | NUnmod => HUnmod
    | NOk size =>
    match nti_all [slice buf 136 12; slice buf 329 8; slice buf 337 8] with
    | NInvalid => HErr EInvalid | NUnmod => HUnmod
    | NOk _ =>
      let name0 := nts (slice buf 0 100) in
      let ty0 := match slice buf 156 1 with [t] => t | _ => 0 end in
      let link := nts (slice buf 157 100) in
      let prefix := nts (slice buf 345 155) in
      let ty := if (ty0 =? AREGTYPE) && ends_slash name0 then DIRTYPE else ty0 in
      if ty =? GNUTYPE_SPARSE then HUnmod else
      let name1 := if ty =? DIRTYPE then rstrip_slash name0 else name0 in
      let name2 := match prefix with
                   | [] => name1
                   | _ => if mem ty GNU_TYPES then name1 else prefix ++ [SLASH] ++ name1
                   end in
      HOk (mkhdr name2 link size ty false 0 0 0)
    end end end
  end.

(* VisorTarInfo.frombuf *)
Definition frombuf_visor (buf : list Z) : hres :=
  match frombuf_std buf with
  | HOk h =>
    let is_visor := list_eqb (slice buf Gen.VmTar.vmtar_magic_lo (Gen.VmTar.vmtar_magic_hi - Gen.VmTar.vmtar_magic_lo))
                             Gen.VmTar.vmtar_magic in
    if is_visor then
      match unpack_field buf Gen.VmTar.vmtar_offset_data_lo Gen.VmTar.vmtar_offset_data_hi
                         Gen.VmTar.vmtar_offset_data_width Gen.VmTar.vmtar_offset_data_signed Gen.VmTar.vmtar_offset_data_big,
            unpack_field buf Gen.VmTar.vmtar_textPgs_lo Gen.VmTar.vmtar_textPgs_hi
                         Gen.VmTar.vmtar_textPgs_width Gen.VmTar.vmtar_textPgs_signed Gen.VmTar.vmtar_textPgs_big,
            unpack_field buf Gen.VmTar.vmtar_fixUpPgs_lo Gen.VmTar.vmtar_fixUpPgs_hi
                         Gen.VmTar.vmtar_fixUpPgs_width Gen.VmTar.vmtar_fixUpPgs_signed Gen.VmTar.vmtar_fixUpPgs_big with
      | Some o, Some t, Some x => HOk (mkhdr (h_name h) (h_link h) (h_size h) (h_type h) true o t x)
      | _, _, _ => HRaise
      end
    else HOk h
  | r => r
  end.

Definition frombuf (va : bool) (buf : list Z) : hres := if va then frombuf_visor buf else frombuf_std buf.

(* ---------- members ---------- *)
Record tinfo := mkt {
  t_name : list Z; t_link : list Z; t_size : Z; t_type : Z;
  t_off : Z;            (* TarInfo.offset: where the (first) header of the member starts *)
  t_data : Z;           (* TarInfo.offset_data after _proc_member *)
  t_visor : bool; t_text : Z; t_fix : Z }.

Inductive pres :=
| POk (t : tinfo) (tell offset : Z)    (* member, fileobj position, TarFile.offset *)
| PHdr (e : herr)
| PSubseq                              (* SubsequentHeaderError *)
| PRaise
| PUnmod
| PFuel.

Section File.
  Variable va : bool.
  Variable f : list Z.

  (* VisorTarInfo._proc_member's condition; tarfile.TarInfo has no such branch *)
  Definition skip_cond (h : hdr) : bool :=
    va && Gen.VmTar.vmtar_skip_cond (h_visor h) (h_fix h) (h_voff h) (h_size h) (h_text h).

  (* TarInfo.fromtarfile with the fileobj at [tell] *)
  Fixpoint fromtarfile (fuel : nat) (tell : Z) : pres :=
    match fuel with
    | O => PFuel
    | S fuel' =>
      let buf := rd f tell BLOCK in
      let tell1 := tell + blen buf in
      match frombuf va buf with
      | HErr e => PHdr e
      | HRaise => PRaise
      | HUnmod => PUnmod
      | HOk h =>
        let off := tell1 - BLOCK in
        let ty := h_type h in
        if skip_cond h then
          POk (mkt (h_name h) (h_link h) (h_size h) ty off (h_voff h) (h_visor h) (h_text h) (h_fix h)) tell1 tell1
        else if (ty =? GNUTYPE_LONGNAME) || (ty =? GNUTYPE_LONGLINK) then
          if h_size h <? 0 then PUnmod else
          (* fileobj.read(n) returns at most what is left: the request is clipped before it is turned into a
             unary count, so that an absurd size field costs nothing to evaluate *)
          let buf2 := rd f tell1 (Z.min (block (h_size h)) (blen f)) in
          let tell2 := tell1 + blen buf2 in
          match fromtarfile fuel' tell2 with
          | POk t tl o =>
            let name := if ty =? GNUTYPE_LONGNAME then nts buf2 else t_name t in
            let link := if ty =? GNUTYPE_LONGLINK then nts buf2 else t_link t in
            let name' := if t_type t =? DIRTYPE then removesuffix_slash name else name in
            POk (mkt name' link (t_size t) (t_type t) off (t_data t) (t_visor t) (t_text t) (t_fix t)) tl o
          | PHdr _ => PSubseq
          | r => r
          end
        else if mem ty [XHDTYPE; XGLTYPE; SOLARIS_XHDTYPE] then PUnmod
        else
          (* _proc_builtin *)
          if (h_size h <? 0) && has_data ty then PUnmod else
          let name := if ty =? DIRTYPE then rstrip_slash (h_name h) else h_name h in
          POk (mkt name (h_link h) (h_size h) ty off tell1 (h_visor h) (h_text h) (h_fix h))
              tell1 (tell1 + (if has_data ty then block (h_size h) else 0))
      end
    end.

  Inductive nxt :=
  | NMember (t : tinfo) (offset tell : Z)
  | NEnd
  | NReadError           (* tarfile.ReadError *)
  | NRaise
  | NUnmodelled
  | NFuel.

  (* TarFile.next with TarFile.offset = [offset] and the fileobj at [tell] *)
  Definition next (fuel : nat) (offset tell : Z) : nxt :=
    let go (tl : Z) :=
      match fromtarfile fuel tl with
      | POk t tl' o' => NMember t o' tl'
      | PHdr EEof => NEnd
      | PHdr _ => if offset =? 0 then NReadError else NEnd
      | PSubseq => NReadError
      | PRaise => NRaise
      | PUnmod => NUnmodelled
      | PFuel => NFuel
      end in
    if offset =? tell then go tell
    else if offset =? 0 then NEnd
    else if blen f <=? offset - 1 then NReadError     (* seek(offset-1); read(1) is empty *)
    else go offset.

  Inductive out (A : Type) :=
  | Done (a : A)
  | Raises             (* ReadError or another exception reaches the caller *)
  | Unmod
  | NoFuel.
  Arguments Done {A} a.  Arguments Raises {A}.  Arguments Unmod {A}.  Arguments NoFuel {A}.

  (* TarFile.__init__ (mode r) + getmembers: the whole member list *)
  Fixpoint load (fuel : nat) (offset tell : Z) : out (list tinfo) :=
    match fuel with
    | O => NoFuel
    | S fuel' =>
      match next fuel offset tell with
      | NMember t o tl =>
        match load fuel' o tl with
        | Done ms => Done (t :: ms)
        | r => r
        end
      | NEnd => Done []
      | NReadError | NRaise => Raises
      | NUnmodelled => Unmod
      | NFuel => NoFuel
      end
    end.

  Definition fuel_for : nat := S (S (Z.to_nat (blen f / BLOCK))).
  Definition members : out (list tinfo) := load fuel_for 0 0.

  (* TarFile.extractfile(m).read(): Some plan (offset, length) / None for members without a file object *)
  Definition extract (t : tinfo) : out (option (Z * Z)) :=
    if has_data (t_type t) then
      if t_size t <? 0 then Unmod
      else if t_size t =? 0 then Done (Some (t_data t, 0))
      else if t_data t + t_size t <=? blen f then Done (Some (t_data t, t_size t))
      else Raises                                         (* ReadError("unexpected end of data") *)
    else if (t_type t =? LNKTYPE) || (t_type t =? SYMTYPE) then Unmod
    else Done None.

  (* the bytes a plan denotes *)
  Definition plan_bytes (p : Z * Z) : list Z := slice f (fst p) (snd p).
End File.

Arguments Done {A} a.  Arguments Raises {A}.  Arguments Unmod {A}.  Arguments NoFuel {A}.

(* ---------- compact file literals for generated cases ---------- *)
Inductive chunk := CLit (l : list Z) | CRep (b n : Z) | CPat (seed start n : Z).

(* byte i of the pattern with seed s: (s + 7 i + 13 (i / 256) + 101 (i / 65536)) mod 256, as the harness computes it *)
Definition pat (seed i : Z) : Z := Z.land (seed + 7 * i + 13 * (Z.shiftr i 8) + 101 * (Z.shiftr i 16)) 255.

(* k pattern bytes from position i on, v being byte i: inside a 256-byte row the next byte is v + 7 *)
Fixpoint pat_run (seed v i : Z) (k : nat) : list Z :=
  match k with
  | O => []
  | S k' =>
    let i' := i + 1 in
    v :: pat_run seed (if Z.land i' 255 =? 0 then pat seed i' else Z.land (v + 7) 255) i' k'
  end.

Definition expand1 (c : chunk) : list Z :=
  match c with
  | CLit l => l
  | CRep b n => repeat b (Z.to_nat n)
  | CPat s st n => pat_run s (pat s st) st (Z.to_nat n)
  end.
Definition expand (cs : list chunk) : list Z := flat_map expand1 cs.

(* what the correspondence prints per member *)
Definition show (t : tinfo) : list Z * list Z * (Z * Z * Z * Z) * (bool * Z * Z) :=
  (t_name t, t_link t, (t_type t, t_size t, t_off t, t_data t), (t_visor t, t_text t, t_fix t)).

Definition run (va : bool) (f : list Z) :=
  match members va f with
  | Done ms => Done (map (fun t => (show t, extract f t)) ms)
  | Raises => Raises | Unmod => Unmod | NoFuel => NoFuel
  end.

(* ---------- vocabulary of the theorem statements (Props/C20.v) ---------- *)
(* a listed member as an entry of the specification *)
Definition entry_of_t (t : tinfo) : Spec.VmTar.entry :=
  Spec.VmTar.mke (t_name t) (t_link t) (t_type t) (t_size t) (t_off t) (t_data t) (t_visor t) (t_text t) (t_fix t).

(* what ends the header area after the last member: the next block is not a header (a zero block,
   a short block, the end of the file, bytes whose checksum does not match); an archive without
   members must end with a zero block (an empty file is not an archive) *)
Definition stops {A : Type} (a : list A) (rest : list Z) : Prop :=
  exists e, frombuf true (rd rest 0 BLOCK) = HErr e /\ (a = [] -> e = EEof).

(* no block of the file, at any offset, carries the visor magic where VisorTarInfo.frombuf looks *)
Definition no_visor_magic (f : list Z) : Prop :=
  forall off, list_eqb (slice (rd f off BLOCK) Gen.VmTar.vmtar_magic_lo
                              (Gen.VmTar.vmtar_magic_hi - Gen.VmTar.vmtar_magic_lo))
                       Gen.VmTar.vmtar_magic = false.

(* placeholder printed by the correspondence when the standard-reader run is not evaluated for a case *)
Definition skip_run := if true then Unmod else run true [].
