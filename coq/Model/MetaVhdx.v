(* Model/MetaVhdx.v — what dissect/hypervisor/disk/vhdx.py exposes after opening:
   VHDX.__init__ (file identifier, header pair selection by sequence number, region tables,
   metadata table, parent locator).  No proofs here. *)
From Coq Require Import String Ascii ZArith List Bool Lia.
From DH Require Import Base.Plan Base.Layout Gen.Consts Gen.Layouts Model.MetaCodec.
Import ListNotations.
Open Scope list_scope.
Open Scope Z_scope.

Definition XBIG := vhdx_big_endian.

(* GUID constants are generated as their canonical text; their 128-bit value *)
Definition hex_of_ascii (a : ascii) : option Z := hex_digit (Z.of_N (N_of_ascii a)).
Fixpoint guid_acc (s : string) (acc : Z) : Z :=
  match s with
  | EmptyString => acc
  | String a r => match hex_of_ascii a with Some d => guid_acc r (acc * 16 + d) | None => guid_acc r acc end
  end.
Definition guid_of_string (s : string) : Z := guid_acc s 0.

Definition G_BAT := guid_of_string vhdx_BAT_REGION_GUID.
Definition G_METADATA := guid_of_string vhdx_METADATA_REGION_GUID.
Definition G_FILE_PARAMETERS := guid_of_string vhdx_FILE_PARAMETERS_GUID.
Definition G_DISK_SIZE := guid_of_string vhdx_VIRTUAL_DISK_SIZE_GUID.
Definition G_DISK_ID := guid_of_string vhdx_VIRTUAL_DISK_ID_GUID.
Definition G_LOGICAL := guid_of_string vhdx_LOGICAL_SECTOR_SIZE_GUID.
Definition G_PHYSICAL := guid_of_string vhdx_PHYSICAL_SECTOR_SIZE_GUID.
Definition G_LOCATOR := guid_of_string vhdx_PARENT_LOCATOR_GUID.
Definition G_VHDX_LOCATOR_TYPE := guid_of_string vhdx_VHDX_PARENT_LOCATOR_GUID.

Definition SIG_FILE : list Z := [118; 104; 100; 120; 102; 105; 108; 101].      (* b"vhdxfile" *)
Definition SIG_HEAD : list Z := [104; 101; 97; 100].                             (* b"head" *)
Definition SIG_REGI : list Z := [114; 101; 103; 105].                            (* b"regi" *)
Definition SIG_META : list Z := [109; 101; 116; 97; 100; 97; 116; 97].          (* b"metadata" *)

(* fixed-size array of structures read sequentially (cstruct array read) *)
Fixpoint chunks_of (n : nat) (sz : Z) (b : list Z) : list (list Z) :=
  match n with
  | O => []
  | S n' => firstn (Z.to_nat sz) b :: chunks_of n' sz (skipn (Z.to_nat sz) b)
  end.

Fixpoint all_ok {A} (l : list (option A)) : option (list A) :=
  match l with
  | [] => Some []
  | Some a :: r => option_map (cons a) (all_ok r)
  | None :: _ => None
  end.

Definition read_array (rd : reader) (L : list field) (sz : Z) (o count : Z) : res (list record) :=
  do b <- read_exact rd o (count * sz);
  of_option (all_ok (map (decode_struct XBIG L sz) (chunks_of (Z.to_nat count) sz b))).

(* ---------- header pair ---------- *)
Record x_header := { xh_signature : list Z; xh_sequence : Z; xh_file_write_guid : list Z;
                     xh_data_write_guid : list Z; xh_log_guid : list Z; xh_log_version : Z;
                     xh_version : Z; xh_log_length : Z; xh_log_offset : Z }.

Definition header_of (r : record) : x_header :=
  {| xh_signature := vbytes r "signature"; xh_sequence := vint r "sequence_number";
     xh_file_write_guid := vbytes r "file_write_guid"; xh_data_write_guid := vbytes r "data_write_guid";
     xh_log_guid := vbytes r "log_guid"; xh_log_version := vint r "log_version";
     xh_version := vint r "version"; xh_log_length := vint r "log_length"; xh_log_offset := vint r "log_offset" |}.

Definition read_header (rd : reader) (o : Z) : res x_header :=
  do r <- read_struct rd XBIG vhdx_header_layout vhdx_header_size o; Ok (header_of r).

(* self.header = header1 if header1.sequence_number > header2.sequence_number else header2 *)
Definition select_header (h1 h2 : x_header) : x_header :=
  if xh_sequence h1 >? xh_sequence h2 then h1 else h2.

(* ---------- region table ---------- *)
Record x_region := { rg_guid : Z; rg_offset : Z; rg_length : Z; rg_required : Z }.

Definition region_of (r : record) : x_region :=
  {| rg_guid := uuid_of_bytes_le (vbytes r "guid"); rg_offset := vint r "file_offset";
     rg_length := vint r "length"; rg_required := vint r "required" |}.

Definition region_lookup (es : list x_region) : list (Z * x_region) :=
  fold_left (fun d e => zdict_put (rg_guid e) e d) es [].

Definition region_table (rd : reader) (o : Z) : res (list x_region) :=
  do h <- read_struct rd XBIG vhdx_region_table_header_layout vhdx_region_table_header_size o;
  if negb (list_eqb (vbytes h "signature") SIG_REGI) then Err else
  do rs <- read_array rd vhdx_region_table_entry_layout vhdx_region_table_entry_size
             (o + vhdx_region_table_header_size) (vint h "entry_count");
  Ok (map region_of rs).

(* RegionTable.get(guid) with required=True: an entry object is always truthy *)
Definition region_get (es : list x_region) (g : Z) : res x_region :=
  of_option (zdict_get g (region_lookup es)).

(* ---------- parent locator ---------- *)
Record x_locator := { pl_type : Z; pl_entries : list (list Z * list Z) }.

Section Codec.
  Variable dec16 : list Z -> option (list Z).    (* bytes.decode("utf-16-le") *)

  Fixpoint locator_entries (rd : reader) (base : Z) (es : list record)
           (d : list (list Z * list Z)) : res (list (list Z * list Z)) :=
    match es with
    | [] => Ok d
    | e :: r =>
      do k <- of_option (dec16 (rd (base + vint e "key_offset") (vint e "key_length")));
      do v <- of_option (dec16 (rd (base + vint e "value_offset") (vint e "value_length")));
      locator_entries rd base r (dict_put k v d)
    end.

  Definition parent_locator (rd : reader) (o : Z) : res x_locator :=
    do h <- read_struct rd XBIG vhdx_parent_locator_header_layout vhdx_parent_locator_header_size o;
    do es <- read_array rd vhdx_parent_locator_entry_layout vhdx_parent_locator_entry_size
               (o + vhdx_parent_locator_header_size) (vint h "key_value_count");
    do d <- locator_entries rd o es [];
    Ok {| pl_type := uuid_of_bytes_le (vbytes h "locator_type"); pl_entries := d |}.

  (* ---------- metadata table ---------- *)
  Inductive mval :=
  | MFileParams (block_size leave_allocated has_parent reserved : Z)
  | MSize (z : Z) | MId (b : list Z) | MLogical (z : Z) | MPhysical (z : Z)
  | MLocator (l : x_locator).

  Definition truthy (v : mval) : bool :=
    match v with
    | MFileParams a b c d => negb ((a =? 0) && (b =? 0) && (c =? 0) && (d =? 0))
    | MSize z | MLogical z | MPhysical z => negb (z =? 0)
    | MId b => negb (zlen b =? 0)
    | MLocator _ => true
    end.

  (* METADATA_MAP[item_id](fh) — KeyError for an item the map does not know *)
  Definition read_item (rd : reader) (g : Z) (o : Z) : res mval :=
    if g =? G_FILE_PARAMETERS then
      do r <- read_struct rd XBIG vhdx_file_parameters_layout vhdx_file_parameters_size o;
      Ok (MFileParams (vint r "block_size") (vint r "leave_block_allocated") (vint r "has_parent")
                      (vint r "reserved"))
    else if g =? G_DISK_SIZE then do b <- read_exact rd o 8; Ok (MSize (le_uint b))
    else if g =? G_DISK_ID then
      do r <- read_struct rd XBIG vhdx_virtual_disk_id_layout vhdx_virtual_disk_id_size o;
      Ok (MId (vbytes r "virtual_disk_id"))
    else if g =? G_LOGICAL then do b <- read_exact rd o 4; Ok (MLogical (le_uint b))
    else if g =? G_PHYSICAL then do b <- read_exact rd o 4; Ok (MPhysical (le_uint b))
    else if g =? G_LOCATOR then do l <- parent_locator rd o; Ok (MLocator l)
    else Err.

  Record x_mentry := { me_item : Z; me_offset : Z; me_length : Z;
                       me_is_user : Z; me_is_virtual_disk : Z; me_is_required : Z }.
  Definition mentry_of (r : record) : x_mentry :=
    {| me_item := uuid_of_bytes_le (vbytes r "item_id"); me_offset := vint r "offset";
       me_length := vint r "length"; me_is_user := vint r "is_user";
       me_is_virtual_disk := vint r "is_virtual_disk"; me_is_required := vint r "is_required" |}.

  Fixpoint items_read (rd : reader) (base : Z) (es : list x_mentry) (d : list (Z * mval))
    : res (list (Z * mval)) :=
    match es with
    | [] => Ok d
    | e :: r => do v <- read_item rd (me_item e) (base + me_offset e);
                items_read rd base r (zdict_put (me_item e) v d)
    end.

  Definition metadata_table (rd : reader) (o : Z) : res (list x_mentry * list (Z * mval)) :=
    do h <- read_struct rd XBIG vhdx_metadata_table_header_layout vhdx_metadata_table_header_size o;
    if negb (list_eqb (vbytes h "signature") SIG_META) then Err else
    do rs <- read_array rd vhdx_metadata_table_entry_layout vhdx_metadata_table_entry_size
               (o + vhdx_metadata_table_header_size) (vint h "entry_count");
    let es := map mentry_of rs in
    do d <- items_read rd o es [];
    Ok (es, d).

  (* MetadataTable.get(guid) with required=True: a falsy value counts as missing *)
  Definition meta_get (d : list (Z * mval)) (g : Z) : res mval :=
    match zdict_get g d with
    | Some v => if truthy v then Ok v else Err
    | None => Err
    end.

  (* ---------- VHDX.__init__ ---------- *)
  Record x_meta := {
    xm_header : x_header;                       (* the active header *)
    xm_headers : x_header * x_header;
    xm_regions1 : list x_region; xm_regions2 : list x_region;
    xm_mentries : list x_mentry;
    xm_size : Z; xm_block_size : Z; xm_has_parent : Z; xm_sector_size : Z;
    xm_id : Z;                                  (* UUID(bytes_le=...).int *)
    xm_locator : option x_locator;
    xm_bat_offset : Z;
    xm_chunk_ratio : Z;
  }.

  Variable parent_opens : list (list Z * list Z) -> bool.   (* open_parent succeeds (external) *)

  Definition x_open (rd : reader) : res x_meta :=
    do fi <- read_struct rd XBIG vhdx_file_identifier_layout vhdx_file_identifier_size 0;
    if negb (list_eqb (vbytes fi "signature") SIG_FILE) then Err else
    do h1 <- read_header rd (1 * vhdx_ALIGNMENT);
    do h2 <- read_header rd (2 * vhdx_ALIGNMENT);
    let h := select_header h1 h2 in
    if negb (list_eqb (xh_signature h) SIG_HEAD) then Err else
    do rt1 <- region_table rd (3 * vhdx_ALIGNMENT);
    do rt2 <- region_table rd (4 * vhdx_ALIGNMENT);
    do me <- region_get rt1 G_METADATA;
    do mt <- metadata_table rd (rg_offset me);
    let '(mes, d) := mt in
    do vsz <- meta_get d G_DISK_SIZE;
    do vfp <- meta_get d G_FILE_PARAMETERS;
    do vss <- meta_get d G_LOGICAL;
    do vid <- meta_get d G_DISK_ID;
    match vsz, vfp, vss, vid with
    | MSize size, MFileParams bs _ hp _, MLogical ss, MId idb =>
      if bs =? 0 then Err else              (* ZeroDivisionError in _chunk_ratio *)
      let chunk_ratio := (8388608 * ss) / bs in
      do loc <- (if hp =? 0 then Ok None
                 else do vl <- meta_get d G_LOCATOR;
                      match vl with
                      | MLocator l =>
                        if negb (pl_type l =? G_VHDX_LOCATOR_TYPE) then Err
                        else if parent_opens (pl_entries l) then Ok (Some l) else Err
                      | _ => Err
                      end);
      do be <- region_get rt1 G_BAT;
      if chunk_ratio =? 0 then Err else     (* ZeroDivisionError in BlockAllocationTable *)
      Ok {| xm_header := h; xm_headers := (h1, h2); xm_regions1 := rt1; xm_regions2 := rt2;
            xm_mentries := mes; xm_size := size; xm_block_size := bs; xm_has_parent := hp;
            xm_sector_size := ss; xm_id := uuid_of_bytes_le idb; xm_locator := loc;
            xm_bat_offset := rg_offset be; xm_chunk_ratio := chunk_ratio |}
    | _, _, _, _ => Err
    end.
End Codec.

(* ---------- the format's writer for the parent locator (specification side) ---------- *)
Section Render.
  Variable enc16 : list Z -> list Z.

  (* header, entry table, then the key/value strings back to back *)
  Fixpoint locator_strings (kvs : list (list Z * list Z)) : list Z :=
    match kvs with
    | [] => []
    | (k, v) :: r => enc16 k ++ enc16 v ++ locator_strings r
    end.

  Fixpoint locator_table (pos : Z) (kvs : list (list Z * list Z)) : list Z :=
    match kvs with
    | [] => []
    | (k, v) :: r =>
      let kl := zlen (enc16 k) in
      let vl := zlen (enc16 v) in
      le_bytes 4 pos ++ le_bytes 4 (pos + kl) ++ le_bytes 2 kl ++ le_bytes 2 vl ++
      locator_table (pos + kl + vl) r
    end.

  Definition locator_render (type_le : list Z) (kvs : list (list Z * list Z)) : list Z :=
    let n := zlen kvs in
    type_le ++ le_bytes 2 0 ++ le_bytes 2 n ++
    locator_table (vhdx_parent_locator_header_size + n * vhdx_parent_locator_entry_size) kvs ++
    locator_strings kvs.
End Render.
