(* Model/OpenParent.v — how a required parent is located; the file system is an oracle
   [fs : path -> bool] (exists). *)
From Coq Require Import ZArith List Bool.
From DH Require Import Base.Plan.
Import ListNotations.

Section Open.
  Context {P : Type}.
  Variable fs : P -> bool.

  (* vhdx.open_parent: relative_path in the child's directory, else absolute_win32_path; the
     chosen file is then opened (a missing file raises, wrapped into IOError). VHDX.__init__ calls it
     iff file_parameters.has_parent, after checking the locator type. *)
  Definition vhdx_open_parent (has_parent loc_type_ok : bool) (rel abs : P) : res (option P) :=
    if negb has_parent then Ok None
    else if negb loc_type_ok then Err
    else if fs rel then Ok (Some rel)
    else if fs abs then Ok (Some abs) else Err.

  (* vmdk.open_parent: the file name of parentFileNameHint in the child's own directory, else in the directory named by
     the last directory of the hint next to the child's directory; the chosen file is then opened (a missing file raises,
     wrapped into IOError).  Called iff the descriptor's parentCID is not ffffffff. *)
  Definition vmdk_open_parent (has_parent : bool) (same up : P) : res (option P) :=
    if negb has_parent then Ok None
    else if fs same then Ok (Some same)
    else if fs up then Ok (Some up) else Err.

  (* HDD._open_image for an absolute image path: the path itself, else same HDD directory, else
     sibling .hdd directory, else .pvm directory two levels up; the last candidate is opened whether
     or not it exists. Relative paths are always relative to the HDD root. *)
  Definition hdd_open_image (is_abs : bool) (p c1 c2 c3 rel : P) : res P :=
    if is_abs then
      if fs p then Ok p
      else if fs c1 then Ok c1
      else if fs c2 then Ok c2
      else if fs c3 then Ok c3 else Err
    else if fs rel then Ok rel else Err.
End Open.
