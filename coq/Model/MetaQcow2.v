(* Model/MetaQcow2.v — what dissect/hypervisor/disk/qcow2.py exposes after opening:
   QCow2.__init__ (header, v2 defaults, gates, extension walk, backing file name) and the
   snapshot table (QCow2.snapshots / QCow2Snapshot.__init__).  Model of the REPAIRED code
   (fixes/C14-qcow2-v2-header.diff, fixes/C14-qcow2-snapshot-entry.diff).  No proofs here. *)
From Coq Require Import String ZArith List Bool Lia.
From DH Require Import Base.Plan Base.Layout Gen.Consts Gen.Layouts Gen.MetaQcow2Tables Model.MetaCodec.
Import ListNotations.
Open Scope list_scope.
Open Scope Z_scope.

Definition QBIG := qcow2_big_endian.

(* the byte offsets the code hard-wires; pinned to the generated layout in Proofs/MetaQcow2.v *)
Definition Q_V2_HEADER_LENGTH : Z := 72.
Definition Q_COMPRESSION_OFFSET : Z := meta_qcow2_compression_offset.   (* the literal in qcow2.py *)

Definition read_qhdr (rd : reader) : res record :=
  read_struct rd QBIG qcow2_QCowHeader_layout qcow2_QCowHeader_size 0.

(* ---------- header extensions ---------- *)
Definition pad8 (len : Z) : Z := Z.land (len + 7) meta_qcow2_pad_mask.   (* (ext.len + 7) & 0xFFFFFFF8 *)

Definition ext_hdr (rd : reader) (o : Z) : res (Z * Z) :=
  do r <- read_struct rd QBIG qcow2_QCowExtension_layout qcow2_QCowExtension_size o;
  Ok (vint r "magic"%string, vint r "len"%string).

(* the walk of _read_extensions: (magic, len, payload offset) of every extension visited *)
Fixpoint ext_walk (fuel : nat) (rd : reader) (offset end_ : Z) : res (list (Z * Z * Z)) :=
  if offset <? end_ then
    match fuel with
    | O => Fuel
    | S fuel' =>
      do h <- ext_hdr rd offset;
      let '(magic, len) := h in
      let offset1 := offset + qcow2_QCowExtension_size in
      if (offset1 >? end_) || (len >? end_ - offset1) then Ok []
      else if magic =? qcow2_QCOW2_EXT_MAGIC_END then Ok []
      else
        do rest <- ext_walk fuel' rd (offset1 + pad8 len) end_;
        Ok ((magic, len, offset1) :: rest)
    end
  else Ok [].

Definition ext_fuel (start end_ : Z) : nat := S (Z.to_nat ((end_ - start) / 8 + 1)).

Record q_exts := {
  e_backing_format : option (list Z);          (* code points, before .upper() *)
  e_feature_table : option (list Z);           (* raw bytes *)
  e_crypto : option (Z * Z);                   (* offset, length *)
  e_bitmaps : option (Z * Z * Z * Z);          (* nb_bitmaps, reserved32, directory_size, directory_offset *)
  e_data_file : option (list Z);               (* code points *)
  e_unknown : list (Z * Z * list Z);           (* magic, len, payload *)
}.

Definition exts0 : q_exts :=
  {| e_backing_format := None; e_feature_table := None; e_crypto := None; e_bitmaps := None;
     e_data_file := None; e_unknown := [] |}.

Section Codec.
  Variable dec8 : list Z -> option (list Z).     (* bytes.decode() *)

  Definition ext_apply (rd : reader) (e : q_exts) (x : Z * Z * Z) : res q_exts :=
    let '(magic, len, o) := x in
    if magic =? qcow2_QCOW2_EXT_MAGIC_BACKING_FORMAT then
      do s <- of_option (dec8 (rd o len));
      Ok {| e_backing_format := Some s; e_feature_table := e_feature_table e; e_crypto := e_crypto e;
            e_bitmaps := e_bitmaps e; e_data_file := e_data_file e; e_unknown := e_unknown e |}
    else if magic =? qcow2_QCOW2_EXT_MAGIC_FEATURE_TABLE then
      Ok {| e_backing_format := e_backing_format e; e_feature_table := Some (rd o len); e_crypto := e_crypto e;
            e_bitmaps := e_bitmaps e; e_data_file := e_data_file e; e_unknown := e_unknown e |}
    else if magic =? qcow2_QCOW2_EXT_MAGIC_CRYPTO_HEADER then
      do r <- read_struct rd QBIG qcow2_Qcow2CryptoHeaderExtension_layout qcow2_Qcow2CryptoHeaderExtension_size o;
      Ok {| e_backing_format := e_backing_format e; e_feature_table := e_feature_table e;
            e_crypto := Some (vint r "offset"%string, vint r "length"%string);
            e_bitmaps := e_bitmaps e; e_data_file := e_data_file e; e_unknown := e_unknown e |}
    else if magic =? qcow2_QCOW2_EXT_MAGIC_BITMAPS then
      do r <- read_struct rd QBIG qcow2_Qcow2BitmapHeaderExt_layout qcow2_Qcow2BitmapHeaderExt_size o;
      Ok {| e_backing_format := e_backing_format e; e_feature_table := e_feature_table e; e_crypto := e_crypto e;
            e_bitmaps := Some (vint r "nb_bitmaps"%string, vint r "reserved32"%string,
                               vint r "bitmap_directory_size"%string, vint r "bitmap_directory_offset"%string);
            e_data_file := e_data_file e; e_unknown := e_unknown e |}
    else if magic =? qcow2_QCOW2_EXT_MAGIC_DATA_FILE then
      do s <- of_option (dec8 (rd o len));
      Ok {| e_backing_format := e_backing_format e; e_feature_table := e_feature_table e; e_crypto := e_crypto e;
            e_bitmaps := e_bitmaps e; e_data_file := Some s; e_unknown := e_unknown e |}
    else
      Ok {| e_backing_format := e_backing_format e; e_feature_table := e_feature_table e; e_crypto := e_crypto e;
            e_bitmaps := e_bitmaps e; e_data_file := e_data_file e;
            e_unknown := e_unknown e ++ [(magic, len, rd o len)] |}.

  Fixpoint ext_fold (rd : reader) (e : q_exts) (xs : list (Z * Z * Z)) : res q_exts :=
    match xs with
    | [] => Ok e
    | x :: r => do e' <- ext_apply rd e x; ext_fold rd e' r
    end.

  (* ---------- QCow2.__init__ ---------- *)
  Record q_meta := {
    qm_version : Z;
    qm_cluster_bits : Z;
    qm_size : Z;
    qm_header_length : Z;
    qm_incompat : Z;
    qm_compression : Z;
    qm_l1_size : Z;
    qm_l1_table_offset : Z;
    qm_nb_snapshots : Z;
    qm_snapshots_offset : Z;
    qm_exts : q_exts;
    qm_backing_file : option (list Z);           (* auto_backing_file, code points *)
  }.

  Definition q_open (has_zstd data_file_given backing_given : bool) (rd : reader) : res q_meta :=
    do h <- read_qhdr rd;
    let f := vint h in
    if negb (f "magic"%string =? qcow2_QCOW2_MAGIC) then Err else
    let version := f "version"%string in
    if (version <? 2) || (version >? 3) then Err else
    let cb := f "cluster_bits"%string in
    if (cb <? qcow2_MIN_CLUSTER_BITS) || (cb >? qcow2_MAX_CLUSTER_BITS) then Err else
    (* a version-2 header ends at byte 72: the later fields take their defaults *)
    let v2 := version =? 2 in
    let incompat := if v2 then 0 else f "incompatible_features"%string in
    let header_length := if v2 then Q_V2_HEADER_LENGTH else f "header_length"%string in
    let ctype_field := if v2 then 0 else f "compression_type"%string in
    let has_sub := negb (Z.land incompat qcow2_QCOW2_INCOMPAT_EXTL2 =? 0) in
    let cluster_size := Z.shiftl 1 cb in
    let sub_size := cluster_size / (if has_sub then qcow2_QCOW_EXTL2_SUBCLUSTERS_PER_CLUSTER else 1) in
    let ctype := if header_length >? Q_COMPRESSION_OFFSET then ctype_field
                 else qcow2_QCOW2_COMPRESSION_TYPE_ZLIB in
    if (ctype =? qcow2_QCOW2_COMPRESSION_TYPE_ZSTD) && negb has_zstd then Err else
    if sub_size <? Z.shiftl 1 qcow2_MIN_CLUSTER_BITS then Err else
    if negb (f "crypt_method"%string =? 0) then Err else
    (* unknown incompatible feature bits are refused (fix: QCOW2 unknown incompat mask) *)
    if negb (Z.land incompat (Z.lnot qcow2_QCOW2_INCOMPAT_MASK) =? 0) then Err else
    let bfo := f "backing_file_offset"%string in
    let end_ := if bfo =? 0 then cluster_size else bfo in
    do xs <- ext_walk (ext_fuel header_length end_) rd header_length end_;
    do e <- ext_fold rd exts0 xs;
    if negb (Z.land incompat qcow2_QCOW2_INCOMPAT_DATA_FILE =? 0) && negb data_file_given then Err else
    do bf <- (if bfo =? 0 then Ok None
              else do s <- of_option (dec8 (rd bfo (f "backing_file_size"%string)));
                   if backing_given then Ok (Some s) else Err);
    Ok {| qm_version := version; qm_cluster_bits := cb; qm_size := f "size"%string;
          qm_header_length := header_length; qm_incompat := incompat; qm_compression := ctype;
          qm_l1_size := f "l1_size"%string; qm_l1_table_offset := f "l1_table_offset"%string;
          qm_nb_snapshots := f "nb_snapshots"%string; qm_snapshots_offset := f "snapshots_offset"%string;
          qm_exts := e; qm_backing_file := bf |}.

  (* ---------- snapshot table ---------- *)
  Record q_snap := {
    s_l1_table_offset : Z; s_l1_size : Z;
    s_date_sec : Z; s_date_nsec : Z; s_vm_clock_nsec : Z; s_vm_state_size : Z;
    s_extra_size : Z;
    s_vm_state_size_large : Z; s_disk_size : Z; s_icount : Z;     (* extra data, zero-padded to 24 *)
    s_unknown_extra : option (list Z);
    s_id : list Z; s_name : list Z;                                (* code points *)
    s_entry_size : Z;
  }.

  Definition XSZ := qcow2_QCowSnapshotExtraData_size.

  Definition align8 (n : Z) : Z := (n + 7) / 8 * 8.

  Definition snap_read (rd : reader) (o : Z) : res q_snap :=
    do h <- read_struct rd QBIG qcow2_QCowSnapshotHeader_layout qcow2_QCowSnapshotHeader_size o;
    let f := vint h in
    let xs := f "extra_data_size"%string in
    let p0 := o + qcow2_QCowSnapshotHeader_size in
    let known := Z.min xs XSZ in
    let extra := rd p0 known in
    let p1 := p0 + zlen extra in
    do x <- of_option (decode_struct QBIG qcow2_QCowSnapshotExtraData_layout XSZ (ljust extra XSZ));
    let unk_n := xs - XSZ in
    let unk := if unk_n >? 0 then Some (rd p1 unk_n) else None in
    let p2 := p1 + match unk with Some u => zlen u | None => 0 end in
    let idb := rd p2 (f "id_str_size"%string) in
    do ids <- of_option (dec8 idb);
    let p3 := p2 + zlen idb in
    let nb := rd p3 (f "name_size"%string) in
    do nm <- of_option (dec8 nb);
    let p4 := p3 + zlen nb in
    Ok {| s_l1_table_offset := f "l1_table_offset"%string; s_l1_size := f "l1_size"%string;
          s_date_sec := f "date_sec"%string; s_date_nsec := f "date_nsec"%string;
          s_vm_clock_nsec := f "vm_clock_nsec"%string; s_vm_state_size := f "vm_state_size"%string;
          s_extra_size := xs;
          s_vm_state_size_large := vint x "vm_state_size_large"%string;
          s_disk_size := vint x "disk_size"%string; s_icount := vint x "icount"%string;
          s_unknown_extra := unk; s_id := ids; s_name := nm;
          s_entry_size := align8 (p4 - o) |}.

  (* QCow2.snapshots : for _ in range(nb_snapshots) — structural on the count *)
  Fixpoint snaps_read (n : nat) (rd : reader) (o : Z) : res (list q_snap) :=
    match n with
    | O => Ok []
    | S n' => do s <- snap_read rd o;
              do r <- snaps_read n' rd (o + s_entry_size s);
              Ok (s :: r)
    end.

  Definition q_snapshots (rd : reader) (m : q_meta) : res (list q_snap) :=
    snaps_read (Z.to_nat (qm_nb_snapshots m)) rd (qm_snapshots_offset m).
End Codec.

(* ---------- the format's writer (specification side) ---------- *)
Definition ext_render1 (x : Z * list Z) : list Z :=
  let '(magic, payload) := x in
  be_bytes 4 magic ++ be_bytes 4 (zlen payload) ++ payload ++
  repeat 0 (Z.to_nat (align8 (zlen payload) - zlen payload)).
Definition ext_render (xs : list (Z * list Z)) : list Z := flat_map ext_render1 xs.
Definition ext_end_marker : list Z := repeat 0 8.

Record snap_spec := {
  ss_l1_table_offset : Z; ss_l1_size : Z; ss_date_sec : Z; ss_date_nsec : Z;
  ss_vm_clock_nsec : Z; ss_vm_state_size : Z;
  ss_extra : list Z;                 (* the stored extra data, any length *)
  ss_id : list Z; ss_name : list Z;  (* stored bytes *)
}.

Definition snap_render (s : snap_spec) : list Z :=
  let body :=
    be_bytes 8 (ss_l1_table_offset s) ++ be_bytes 4 (ss_l1_size s) ++
    be_bytes 2 (zlen (ss_id s)) ++ be_bytes 2 (zlen (ss_name s)) ++
    be_bytes 4 (ss_date_sec s) ++ be_bytes 4 (ss_date_nsec s) ++ be_bytes 8 (ss_vm_clock_nsec s) ++
    be_bytes 4 (ss_vm_state_size s) ++ be_bytes 4 (zlen (ss_extra s)) ++
    ss_extra s ++ ss_id s ++ ss_name s in
  body ++ repeat 0 (Z.to_nat (align8 (zlen body) - zlen body)).
Definition snaps_render (l : list snap_spec) : list Z := flat_map snap_render l.
