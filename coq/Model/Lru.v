(* Model/Lru.v — functools.lru_cache(maxsize) around a one-argument loader, as an
   MRU-first association list with eviction of the least recently used entry. *)
From Coq Require Import ZArith List Bool.
Import ListNotations.
Open Scope Z_scope.

Section Lru.
  Context {V : Type}.
  Variable cap : nat.
  Variable load : Z -> V.               (* the memoised function (a table loader) *)

  Definition cache := list (Z * V).

  Fixpoint remove_key (k : Z) (c : cache) : cache :=
    match c with
    | [] => []
    | (k', v) :: r => if k' =? k then r else (k', v) :: remove_key k r
    end.

  Fixpoint lookup (k : Z) (c : cache) : option V :=
    match c with
    | [] => None
    | (k', v) :: r => if k' =? k then Some v else lookup k r
    end.

  (* a call through the cache: value and new cache *)
  Definition lru_get (c : cache) (k : Z) : V * cache :=
    match lookup k c with
    | Some v => (v, (k, v) :: remove_key k c)                 (* hit: move to front *)
    | None => let v := load k in (v, firstn cap ((k, v) :: c)) (* miss: load, insert, evict *)
    end.

  (* a whole history of keys *)
  Fixpoint lru_run (c : cache) (ks : list Z) : list V * cache :=
    match ks with
    | [] => ([], c)
    | k :: r => let '(v, c1) := lru_get c k in
                let '(vs, c2) := lru_run c1 r in (v :: vs, c2)
    end.
End Lru.
