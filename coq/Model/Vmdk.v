(* Model/Vmdk.v — dissect/hypervisor/disk/vmdk.py (SparseDisk, RawDisk, VMDK) as executable Gallina,
   and the pointwise specification of what a VMDK extent shows to the guest.
   No proofs here (the model must still run when a proof breaks).

   The model is the code WITH the repairs of fixes/C02-*.diff applied:
     - VMDK._read clamps the request to the disk size (tail read),
     - SparseDisk.__init__ no longer reads a grain directory from the position left behind by the
       header read (stray read that fails for footer-located directories of more than 128 entries). *)
From Coq Require Import ZArith List Bool Lia String.
From DH Require Import Base.Arith Base.Plan Base.Table Base.Layout.
From DH Require Gen.Consts Gen.Layouts Gen.VmdkTables.
Import ListNotations.
Open Scope Z_scope.

Module C := Gen.Consts.
Module L := Gen.Layouts.
Module T := Gen.VmdkTables.

Definition SECTOR : Z := C.vmdk_SECTOR_SIZE.

(* ---------- the extent file as the reader sees it ---------- *)
Record vfile := {
  f_size : Z;              (* file size in bytes *)
  f_hdr : Z -> list Z;     (* the bytes a 512-byte read at that byte offset returns (fewer at EOF) *)
  f_u32 : Z -> Z;          (* little-endian uint32 stored at a byte offset *)
  f_u64 : Z -> Z;          (* little-endian uint64 stored at a byte offset *)
}.

Fixpoint zlist_eqb (a b : list Z) : bool :=
  match a, b with
  | [], [] => true
  | x :: a', y :: b' => (x =? y) && zlist_eqb a' b'
  | _, _ => false
  end.

(* ---------- SparseExtentHeader ---------- *)
Inductive hkind := KHosted | KCowd | KSe.

Record header := {
  h_kind : hkind;
  h_flags : Z;
  h_capacity : Z;
  h_grain_size : Z;
  h_desc_off : Z;          (* hosted: descriptor_offset *)
  h_desc_size : Z;         (* hosted: descriptor_size *)
  h_num_gte : Z;           (* hosted: num_grain_table_entries *)
  h_gd_off : Z;            (* primary_grain_directory_offset / grain_directory_offset *)
  h_num_gde : Z;           (* COWD: num_grain_directory_entries *)
  h_gd_sectors : Z;        (* SE: grain_directory_size *)
  h_gt_sectors : Z;        (* SE: grain_table_size *)
  h_gts_off : Z;           (* SE: grain_tables_offset *)
  h_grains_off : Z;        (* SE: grains_offset *)
  h_magic64 : Z;           (* SE: the 8-byte magic field *)
}.

Definition fld (lay : list field) (buf : list Z) (n : string) : Z :=
  match get_uint L.vmdk_big_endian lay buf n with Some v => v | None => 0 end.

(* SparseExtentHeader.__init__: dispatch on the first four bytes, then a cstruct read
   (EOFError when the file is too short for the structure) *)
Definition read_header (f : vfile) (off : Z) : res header :=
  let buf := f_hdr f off in
  let magic := firstn 4 buf in
  let have := Z.of_nat (List.length buf) in
  if zlist_eqb magic C.vmdk_VMDK_MAGIC then
    if have <? L.vmdk_VMDKSparseExtentHeader_size then Err else
    let g := fld L.vmdk_VMDKSparseExtentHeader_layout buf in
    Ok {| h_kind := KHosted; h_flags := g "flags"%string; h_capacity := g "capacity"%string;
          h_grain_size := g "grain_size"%string; h_desc_off := g "descriptor_offset"%string;
          h_desc_size := g "descriptor_size"%string; h_num_gte := g "num_grain_table_entries"%string;
          h_gd_off := g "primary_grain_directory_offset"%string; h_num_gde := 0;
          h_gd_sectors := 0; h_gt_sectors := 0; h_gts_off := 0; h_grains_off := 0; h_magic64 := 0 |}
  else if zlist_eqb magic C.vmdk_SESPARSE_MAGIC then
    if have <? L.vmdk_VMDKSESparseConstHeader_size then Err else
    let g := fld L.vmdk_VMDKSESparseConstHeader_layout buf in
    Ok {| h_kind := KSe; h_flags := g "flags"%string; h_capacity := g "capacity"%string;
          h_grain_size := g "grain_size"%string; h_desc_off := 0; h_desc_size := 0; h_num_gte := 0;
          h_gd_off := g "grain_directory_offset"%string; h_num_gde := 0;
          h_gd_sectors := g "grain_directory_size"%string; h_gt_sectors := g "grain_table_size"%string;
          h_gts_off := g "grain_tables_offset"%string; h_grains_off := g "grains_offset"%string;
          h_magic64 := g "magic"%string |}
  else if zlist_eqb magic C.vmdk_COWD_MAGIC then
    if have <? L.vmdk_COWDSparseExtentHeader_size then Err else
    let g := fld L.vmdk_COWDSparseExtentHeader_layout buf in
    Ok {| h_kind := KCowd; h_flags := g "flags"%string; h_capacity := g "capacity"%string;
          h_grain_size := g "grain_size"%string; h_desc_off := 0; h_desc_size := 0; h_num_gte := 0;
          h_gd_off := g "primary_grain_directory_offset"%string;
          h_num_gde := g "num_grain_directory_entries"%string;
          h_gd_sectors := 0; h_gt_sectors := 0; h_gts_off := 0; h_grains_off := 0; h_magic64 := 0 |}
  else Err.                                     (* NotImplementedError("Unsupported sparse extent") *)

(* ---------- SparseDisk.__init__ ---------- *)
Record sparse := {
  sp_se : bool;            (* is_sesparse *)
  sp_flags : Z;
  sp_capacity : Z;
  sp_grain_size : Z;
  sp_gd_size : Z;          (* _grain_directory_size (entries) *)
  sp_gt_size : Z;          (* _grain_table_size (entries) *)
  sp_gd_off : Z;           (* grain_directory_offset (sectors) *)
  sp_gts_off : Z;          (* SE: header.grain_tables_offset *)
  sp_grains_off : Z;       (* SE: header.grains_offset *)
}.

Definition entry_width (sp : sparse) : Z := if sp_se sp then 8 else 4.
Definition rd (f : vfile) (sp : sparse) (o : Z) : Z := if sp_se sp then f_u64 f o else f_u32 f o.

(* ctypes.c_int64(v).value == -1 *)
Definition int64_is_m1 (v : Z) : bool := v mod 2 ^ 64 =? 2 ^ 64 - 1.

(* the array read  entry_type[n](fh)  after seek(sector * SECTOR): EOFError unless all n entries are in the file *)
Definition array_in_file (f : vfile) (w sector n : Z) : bool :=
  (n <=? 0) || (sector * SECTOR + w * n <=? f_size f).

Definition open_sparse (f : vfile) : res sparse :=
  do h0 <- read_header f 0;
  do sp <-
    match h_kind h0 with
    | KSe =>
        if negb (h_magic64 h0 =? C.vmdk_SESPARSE_CONST_HEADER_MAGIC) then Err else
        Ok {| sp_se := true; sp_flags := h_flags h0; sp_capacity := h_capacity h0;
              sp_grain_size := h_grain_size h0;
              sp_gd_size := h_gd_sectors h0 * SECTOR / 8; sp_gt_size := h_gt_sectors h0 * SECTOR / 8;
              sp_gd_off := h_gd_off h0; sp_gts_off := h_gts_off h0; sp_grains_off := h_grains_off h0 |}
    | _ =>
        do h <- (if int64_is_m1 (h_gd_off h0)
                 then read_header f (Z.max 0 (f_size f + T.vmdk_footer_seek)) else Ok h0);
        match h_kind h with
        | KHosted =>
            let cov := h_num_gte h * h_grain_size h in
            if cov =? 0 then Err else                       (* ZeroDivisionError *)
            Ok {| sp_se := false; sp_flags := h_flags h; sp_capacity := h_capacity h;
                  sp_grain_size := h_grain_size h;
                  sp_gd_size := (h_capacity h + cov - 1) / cov; sp_gt_size := h_num_gte h;
                  sp_gd_off := h_gd_off h; sp_gts_off := 0; sp_grains_off := 0 |}
        | KCowd =>
            Ok {| sp_se := false; sp_flags := h_flags h; sp_capacity := h_capacity h;
                  sp_grain_size := h_grain_size h;
                  sp_gd_size := h_num_gde h; sp_gt_size := T.vmdk_cowd_grain_table_size;
                  sp_gd_off := h_gd_off h; sp_gts_off := 0; sp_grains_off := 0 |}
        | KSe => Err                                        (* neither branch binds grain_directory_offset *)
        end
    end;
  if array_in_file f (entry_width sp) (sp_gd_off sp) (sp_gd_size sp) then Ok sp else Err.

(* ---------- grain lookup ---------- *)
(* self._grain_directory[i] for i >= 0 *)
Definition gd_entry (f : vfile) (sp : sparse) (i : Z) : option Z :=
  if (0 <=? i) && (i <? sp_gd_size sp)
  then Some (rd f sp (sp_gd_off sp * SECTOR + entry_width sp * i)) else None.

(* SparseDisk._lookup_grain_table: None = no table; Some b = the table starts at byte b *)
Definition table_at (f : vfile) (sp : sparse) (sector : Z) : res (option Z) :=
  if array_in_file f (entry_width sp) sector (sp_gt_size sp) then Ok (Some (sector * SECTOR)) else Err.

Definition lookup_grain_table (f : vfile) (sp : sparse) (dir : Z) : res (option Z) :=
  match gd_entry f sp dir with
  | None => Err                                              (* IndexError *)
  | Some e =>
      if sp_se sp then
        if (e =? 0) || negb (Z.land e T.vmdk_gde_check_mask =? T.vmdk_gde_check_value) then Ok None
        else
          let idx := Z.land e T.vmdk_gde_index_mask in
          table_at f sp (sp_gts_off sp + idx * (sp_gt_size sp * 8) / SECTOR)
      else if e =? 0 then Ok None else table_at f sp e
  end.

(* SparseDisk._lookup_grain: 0 = not present, 1 = zero grain, s > 1 = data at sector s *)
Definition se_cluster (e : Z) : Z :=
  Z.lor (Z.shiftr (Z.land e T.vmdk_gte_hi_mask) T.vmdk_gte_hi_shift)
        (Z.shiftl (Z.land e T.vmdk_gte_lo_mask) T.vmdk_gte_lo_shift).

Definition lookup_grain (f : vfile) (sp : sparse) (grain : Z) : res Z :=
  if sp_gt_size sp =? 0 then Err else                        (* divmod by zero *)
  let dir := grain / sp_gt_size sp in
  let idx := grain mod sp_gt_size sp in
  do t <- lookup_grain_table f sp dir;
  match t with
  | None => Ok 0
  | Some base =>
      let e := rd f sp (base + entry_width sp * idx) in
      if sp_se sp then
        let ty := Z.land e C.vmdk_SESPARSE_GRAIN_TYPE_MASK in
        if (ty =? C.vmdk_SESPARSE_GRAIN_TYPE_UNALLOCATED) || (ty =? C.vmdk_SESPARSE_GRAIN_TYPE_FALLTHROUGH)
        then Ok 0
        else if ty =? C.vmdk_SESPARSE_GRAIN_TYPE_ZERO then Ok 1
        else if ty =? C.vmdk_SESPARSE_GRAIN_TYPE_ALLOCATED
        then Ok (sp_grains_off sp + se_cluster e * sp_grain_size sp)
        else Err                                             (* ValueError("Unknown grain type") *)
      else Ok e
  end.

(* ---------- SparseDisk.get_runs ---------- *)
(* a run: (run_type, run_offset, run_count, run_parent); run_parent None is written -1 *)
Definition run := (Z * Z * Z * Z)%type.

Section Runs.
  Variable gs : Z.                   (* header.grain_size *)
  Variable soff : Z.                 (* self.sector_offset *)
  Variable look : Z -> res Z.        (* _lookup_grain *)

  (* the while loop; rt = None is run_type None.  Emitted runs are consed in front of the
     runs the rest of the loop emits (the code appends to a list). *)
  Fixpoint runs_loop (fuel : nat) (rt : option Z) (ro rc rp ngs rs cnt : Z) : res (list run) :=
    if cnt <=? 0 then
      match rt with
      | None => Err                                          (* assert run_type is not None *)
      | Some t => Ok [(t, ro, rc, rp)]
      end
    else
    match fuel with
    | O => Fuel
    | S fuel' =>
      let grain := rs / gs in
      let go := rs mod gs in
      do gsec <- look grain;
      let n := Z.min cnt (gs - go) in
      let same :=
        match rt with
        | Some t => ((t =? 0) && (gsec =? 0)) || ((t =? 1) && (gsec =? 1))
        | None => false
        end in
      let adjacent :=
        match rt with
        | Some t => negb (t =? 0) && (t >? 1) && (gsec =? ngs)
        | None => false
        end in
      if same then runs_loop fuel' rt ro (rc + n) rp ngs (rs + n) (cnt - n)
      else if adjacent then runs_loop fuel' rt ro (rc + n) rp (ngs + gs) (rs + n) (cnt - n)
      else
        let flushed := match rt with Some t => [(t, ro, rc, rp)] | None => [] end in
        do rest <-
          (if gsec =? 0 then runs_loop fuel' (Some 0) ro n (soff + rs) ngs (rs + n) (cnt - n)
           else if gsec =? 1 then runs_loop fuel' (Some 1) ro n (-1) ngs (rs + n) (cnt - n)
           else runs_loop fuel' (Some gsec) go n (-1) (gsec + gs) (rs + n) (cnt - n));
        Ok (flushed ++ rest)
    end.

  Definition get_runs (fuel : nat) (sector count : Z) : res (list run) :=
    if count =? 0 then Ok [] else
    if count <? 0 then Err else                              (* the loop is skipped, the assert fails *)
    if gs =? 0 then Err else                                 (* divmod by zero *)
    runs_loop fuel None 0 0 (-1) 0 (sector - soff) count.

  (* ---------- SparseDisk.read_sectors ---------- *)
  Variable compressed : bool.        (* header.flags & SPARSEFLAG_COMPRESSED != 0 *)
  Variable has_parent : bool.        (* bool(self.parent) *)

  (* the inner loop over the grains of a consolidated compressed run; the inflated grain stored
     at sector t is the unit [Infl t] *)
  Fixpoint comp_loop (fuel : nat) (t ro rc : Z) : res (list seg) :=
    if rc <=? 0 then Ok [] else
    match fuel with
    | O => Fuel
    | S fuel' =>
      let n := Z.min rc (gs - ro) in
      do rest <- comp_loop fuel' (t + gs) 0 (rc - n);
      Ok (SInfl t (ro * SECTOR) (n * SECTOR) :: rest)
    end.

  Definition exec_run (r : run) : res (list seg) :=
    let '(t, ro, rc, rp) := r in
    if t =? 0 then Ok [if has_parent then SParent (rp * SECTOR) (rc * SECTOR) else SZero (rc * SECTOR)]
    else if t =? 1 then Ok [SZero (rc * SECTOR)]
    else if negb compressed then Ok [SFile ((t + ro) * SECTOR) (rc * SECTOR)]
    else comp_loop (S (Z.to_nat rc)) t ro rc.

  Fixpoint exec_runs (rs : list run) : res (list seg) :=
    match rs with
    | [] => Ok []
    | r :: rs' => do a <- exec_run r; do b <- exec_runs rs'; Ok (a ++ b)
    end.

  Definition read_sectors_gen (fuel : nat) (sector count : Z) : res (list seg) :=
    do runs <- get_runs fuel sector count; exec_runs runs.
End Runs.

Definition is_compressed (sp : sparse) : bool := negb (Z.land (sp_flags sp) C.vmdk_SPARSEFLAG_COMPRESSED =? 0).
Definition has_lba (sp : sparse) : bool := negb (Z.land (sp_flags sp) C.vmdk_SPARSEFLAG_EMBEDDED_LBA =? 0).

Definition sparse_get_runs (f : vfile) (sp : sparse) (soff : Z) (fuel : nat) (sector count : Z) : res (list run) :=
  get_runs (sp_grain_size sp) soff (lookup_grain f sp) fuel sector count.

Definition sparse_read_sectors (f : vfile) (sp : sparse) (soff : Z) (has_parent : bool)
    (fuel : nat) (sector count : Z) : res (list seg) :=
  read_sectors_gen (sp_grain_size sp) soff (lookup_grain f sp) (is_compressed sp) has_parent fuel sector count.

(* SparseDisk._read_compressed_grain: the byte range handed to zlib for the grain stored at [sector]:
   (offset of the deflate stream, its length); the second read (header + data > one sector) continues at sector+1 *)
Definition cgrain_range (f : vfile) (sp : sparse) (sector : Z) : Z * Z :=
  if has_lba sp
  then (sector * SECTOR + T.vmdk_grain_header_len_lba,
        f_u32 f (sector * SECTOR + (L.vmdk_SparseGrainLBAHeaderOnDisk_size - 4)))
  else (sector * SECTOR + T.vmdk_grain_header_len_plain, f_u32 f (sector * SECTOR)).

Definition fuel_for (count : Z) : nat := S (Z.to_nat count).

(* ---------- RawDisk ---------- *)
(* [start]: the extent's start sector inside its file (the last number of a FLAT/VMFS extent line;
   honoured since fixes/C10-vmdk-flat-start-sector.diff, 0 for a bare file) *)
Definition raw_read_sectors (soff start sector count : Z) : list seg :=
  [SFile ((sector - soff + start) * SECTOR) (count * SECTOR)].

(* ---------- VMDK: a list of extents ---------- *)
Inductive extent :=
| XSparse (f : vfile) (sp : sparse) (has_parent : bool)
| XRaw (size start : Z).                                      (* RawDisk.size, RawDisk.start_sector *)

Definition x_size (x : extent) : Z :=
  match x with XSparse _ sp _ => sp_capacity sp * SECTOR | XRaw size _ => size end.
Definition x_sectors (x : extent) : Z :=
  match x with XSparse _ sp _ => sp_capacity sp | XRaw size _ => size / SECTOR end.
Definition x_read (x : extent) (soff : Z) (sector count : Z) : res (list seg) :=
  match x with
  | XSparse f sp hp => sparse_read_sectors f sp soff hp (fuel_for count) sector count
  | XRaw _ start => Ok (raw_read_sectors soff start sector count)
  end.

(* VMDK.__init__, the bookkeeping loop: returns (_disk_offsets, [(disk, sector_offset)], size, sector_count) *)
Fixpoint layout_loop (xs : list extent) (size sc : Z) : list Z * list (extent * Z) * Z * Z :=
  match xs with
  | [] => ([], [], size, sc)
  | x :: xs' =>
      let '(offs, ds, size', sc') := layout_loop xs' (size + x_size x) (sc + x_sectors x) in
      ((if size =? 0 then offs else sc :: offs), (x, sc) :: ds, size', sc')
  end.

Record vmdk := {
  v_offsets : list Z;               (* _disk_offsets *)
  v_disks : list (extent * Z);      (* disks with their sector_offset *)
  v_size : Z;
  v_sector_count : Z;
}.

Definition mk_vmdk (xs : list extent) : vmdk :=
  let '(offs, ds, size, sc) := layout_loop xs 0 0 in
  {| v_offsets := offs; v_disks := ds; v_size := size; v_sector_count := sc |}.

(* bisect.bisect_right on a sorted list: the number of elements <= x *)
Fixpoint bisect_right (l : list Z) (x : Z) : nat :=
  match l with
  | [] => O
  | a :: l' => if a <=? x then S (bisect_right l' x) else O
  end.

(* plans of a multi-extent disk carry the index of the extent file *)
Definition xplan := list (Z * seg).

(* VMDK.read_sectors: the walk over self.disks[disk_idx:], IndexError past the last disk *)
Fixpoint walk (ds : list (extent * Z)) (idx sector count : Z) : res xplan :=
  if count <=? 0 then Ok [] else
  match ds with
  | [] => Err
  | (x, soff) :: ds' =>
      let remaining := x_sectors x - (sector - soff) in
      let n := Z.min remaining count in
      do p <- x_read x soff sector n;
      do rest <- walk ds' (idx + 1) (sector + n) (count - n);
      Ok (map (fun s => (idx, s)) p ++ rest)
  end.

Definition vmdk_read_sectors (v : vmdk) (sector count : Z) : res xplan :=
  let i := bisect_right (v_offsets v) sector in
  walk (skipn i (v_disks v)) (Z.of_nat i) sector count.

(* VMDK._read (with the clamp to the disk size, fixes/C02-vmdk-tail-read.diff) *)
Definition vmdk_read (v : vmdk) (offset length : Z) : res xplan :=
  let length := Z.min length (v_size v - offset) in
  vmdk_read_sectors v (offset / SECTOR) ((length + SECTOR - 1) / SECTOR).

(* the code before the repair, kept to exhibit the failing tail read as a theorem *)
Definition vmdk_read_unclamped (v : vmdk) (offset length : Z) : res xplan :=
  vmdk_read_sectors v (offset / SECTOR) ((length + SECTOR - 1) / SECTOR).

Definition plan_of_x (p : xplan) : list seg := map snd p.

(* ---------- specification: the guest-visible source of byte o of an extent ----------
   written from the VMDK format description (hosted sparse / COWD: 32-bit tables of sector numbers,
   0 = not present, 1 = zero grain; SE-sparse: 64-bit entries typed by their top nibble), with
   arithmetic (div / mod / testbit), not with the masks of the code. *)
Definition se_gde_table (e : Z) : option Z :=
  if e / 2 ^ 32 =? 2 ^ 28 then Some (e mod 2 ^ 32) else None.

Inductive gstate := GAbsent | GZero | GData (sector : Z) | GBad.

Definition se_gte_state (grains_off gsz e : Z) : gstate :=
  let ty := e / 2 ^ 60 in
  if ty <=? 1 then GAbsent
  else if ty =? 2 then GZero
  else if ty =? 3 then GData (grains_off + ((e / 2 ^ 48) mod 2 ^ 12 + (e mod 2 ^ 48) * 2 ^ 12) * gsz)
  else GBad.

Definition hosted_gte_state (e : Z) : gstate :=
  if e =? 0 then GAbsent else if e =? 1 then GZero else GData e.

Definition grain_state (f : vfile) (sp : sparse) (grain : Z) : gstate :=
  let dir := grain / sp_gt_size sp in
  let idx := grain mod sp_gt_size sp in
  match gd_entry f sp dir with
  | None => GBad
  | Some e =>
      if sp_se sp then
        match se_gde_table e with
        | None => GAbsent
        | Some i =>
            se_gte_state (sp_grains_off sp) (sp_grain_size sp)
              (f_u64 f (sp_gts_off sp * 512 + i * (sp_gt_size sp * 8) + 8 * idx))
        end
      else if e =? 0 then GAbsent
      else hosted_gte_state (f_u32 f (e * 512 + 4 * idx))
  end.

Definition stream_optimized (sp : sparse) : bool := Z.testbit (sp_flags sp) 16.

(* o is the byte offset inside the extent; soff the first sector of the extent in the whole disk
   (a parent is addressed in whole-disk coordinates) *)
Definition guest_src (f : vfile) (sp : sparse) (soff : Z) (has_parent : bool) (o : Z) : src :=
  let gbytes := sp_grain_size sp * 512 in
  match grain_state f sp (o / gbytes) with
  | GAbsent => if has_parent then Parent (soff * 512 + o) else Zero
  | GZero => Zero
  | GData s => if stream_optimized sp then Infl s (o mod gbytes) else File (s * 512 + o mod gbytes)
  | GBad => Zero
  end.

Definition flat_src (o : Z) : src := File o.
