(* Model/XmlPredict.v — the entry-point model instantiated with an abstract document
   (does it declare an entity? is it well-formed?) so that the correspondence can ask the
   model, for the CURRENT inventory Gen/XmlSites.v, what an entry point does with a document. *)
From Coq Require Import String ZArith List Bool.
Import ListNotations.
Open Scope Z_scope.
From DH Require Import Model.XmlEntry Gen.XmlSites.

Record adoc := { declares : bool; wellformed : bool }.

(* the contract of the two parsers on abstract documents: xml.etree expands internal entities
   (the tree then depends on them: tag 1), defusedxml refuses any entity declaration *)
Definition a_stdlib (d : adoc) : option Z :=
  if wellformed d then Some (if declares d then 1 else 0) else None.
Definition a_defused (d : adoc) : outcome Z :=
  if negb (wellformed d) then Malformed else if declares d then Refused else Parsed 0.
Definition a_other (_ : xml_site) (d : adoc) : outcome Z :=
  if wellformed d then Parsed (if declares d then 1 else 0) else Malformed.

(* 0 = parsed without expansion, 1 = parsed with entities honoured, 2 = refused, 3 = malformed, 4 = no such entry point *)
Definition code (o : outcome Z) : Z :=
  match o with Parsed t => t | Refused => 2 | Malformed => 3 end.

Definition predict (module : string) (decl wf : bool) : Z :=
  match filter (fun s => String.eqb (site_module s) module) xml_sites with
  | [s] => code (entry adoc Z a_stdlib a_defused a_other s {| declares := decl; wellformed := wf |})
  | _ => 4
  end.
