(* Model/MetaCodec.v — shared vocabulary of the C14 models (no proofs here).

   * readers      a file is a function  off len -> bytes  (short at EOF, like fh.seek; fh.read)
   * struct codec generic decoder / encoder over the generated layouts of Gen/Layouts.v
   * text         UTF-8 / UTF-16-LE decoders and encoders over code-point lists (the executable
                  stand-ins for Python's codecs; theorems quantify over arbitrary codecs),
                  GUID conversion, str.split / strip / partition / startswith
   * dict         Python dict insertion semantics over association lists *)
From Coq Require Import String ZArith List Bool Lia.
From DH Require Import Base.Plan Base.Layout.
Import ListNotations.
Open Scope Z_scope.

(* ---------- files ---------- *)
Definition reader := Z -> Z -> list Z.

Definition buf_reader (buf : list Z) : reader :=
  fun o n => if o <? 0 then [] else slice buf o n.

Definition zlen {A} (l : list A) : Z := Z.of_nat (length l).

(* cstruct reading a fixed-size structure: EOFError on a short read *)
Definition read_exact (rd : reader) (o n : Z) : res (list Z) :=
  let b := rd o n in if zlen b <? n then Err else Ok b.

(* a sparse file for generated cases: zero everywhere except the listed chunks *)
Definition patch (acc : list Z) (r : Z) (cb : list Z) : list Z :=
  let n := zlen acc in
  let lo := Z.max r 0 in
  let hi := Z.min (r + zlen cb) n in
  if hi <=? lo then acc
  else firstn (Z.to_nat lo) acc ++ slice cb (lo - r) (hi - lo) ++ skipn (Z.to_nat hi) acc.

Definition sparse_rd (chunks : list (Z * list Z)) (size : Z) : reader :=
  fun o n =>
    let n' := Z.max 0 (Z.min n (size - o)) in
    fold_left (fun acc c => patch acc (fst c - o) (snd c)) chunks (repeat 0 (Z.to_nat n')).

(* ---------- struct values ---------- *)
Inductive val := VInt (z : Z) | VBytes (bs : list Z).

Definition is_scalar (f : field) : bool :=
  match f_kind f with
  | KUInt | KInt => f_count f =? 1
  | _ => false
  end.

Definition decode_field (big : bool) (f : field) (buf : list Z) : val :=
  if negb (f_bitw f =? 0)
  then VInt (bits (uint_of big (slice buf (f_off f) (f_elem f))) (f_bitoff f) (f_bitw f))
  else if is_scalar f
  then match f_kind f with
       | KInt => VInt (signed (f_size f) (uint_of big (slice buf (f_off f) (f_size f))))
       | _ => VInt (uint_of big (slice buf (f_off f) (f_size f)))
       end
  else VBytes (slice buf (f_off f) (f_size f)).

Definition record := list (string * val).

Definition decode_struct (big : bool) (L : list field) (size : Z) (buf : list Z) : option record :=
  if zlen buf <? size then None
  else Some (map (fun f => (f_name f, decode_field big f buf)) L).

Definition encode_field (big : bool) (f : field) (v : val) : list Z :=
  match v with
  | VInt z => bytes_of big (Z.to_nat (f_size f)) z
  | VBytes bs => bs
  end.

Fixpoint encode_struct (big : bool) (L : list field) (r : record) : list Z :=
  match L, r with
  | f :: L', (_, v) :: r' => encode_field big f v ++ encode_struct big L' r'
  | _, _ => []
  end.

Fixpoint rget (r : record) (n : string) : option val :=
  match r with
  | [] => None
  | (k, v) :: r' => if String.eqb k n then Some v else rget r' n
  end.

Definition vint (r : record) (n : string) : Z :=
  match rget r n with Some (VInt z) => z | _ => 0 end.
Definition vbytes (r : record) (n : string) : list Z :=
  match rget r n with Some (VBytes b) => b | _ => [] end.

(* read + decode one structure at a file offset *)
Definition read_struct (rd : reader) (big : bool) (L : list field) (size : Z) (o : Z) : res record :=
  do b <- read_exact rd o size;
  of_option (decode_struct big L size b).

(* well-formed plain layouts: contiguous from offset 0, no bit-fields, no signed/float *)
Definition plain_field (f : field) : bool :=
  (f_bitw f =? 0) && (0 <=? f_size f) &&
  match f_kind f with KInt | KFloat => false | _ => true end.

Fixpoint contig (off : Z) (L : list field) : bool :=
  match L with
  | [] => true
  | f :: r => (f_off f =? off) && plain_field f && contig (off + f_size f) r
  end.

Fixpoint layout_size (L : list field) : Z :=
  match L with [] => 0 | f :: r => f_size f + layout_size r end.

Fixpoint remove_fields (names : list string) (L : list field) : list field :=
  match L with
  | [] => []
  | f :: r => if existsb (String.eqb (f_name f)) names then remove_fields names r
              else f :: remove_fields names r
  end.

Definition field_off (L : list field) (n : string) : Z :=
  match find_field L n with Some f => f_off f | None => -1 end.

(* ---------- list helpers ---------- *)
Fixpoint list_eqb (a b : list Z) : bool :=
  match a, b with
  | [], [] => true
  | x :: a', y :: b' => (x =? y) && list_eqb a' b'
  | _, _ => false
  end.

Fixpoint starts_with (p s : list Z) : bool :=
  match p, s with
  | [], _ => true
  | x :: p', y :: s' => (x =? y) && starts_with p' s'
  | _ :: _, [] => false
  end.

Definition ljust (bs : list Z) (n : Z) : list Z :=
  bs ++ repeat 0 (Z.to_nat (n - zlen bs)).

(* ---------- UTF-8 (strict, as Python's bytes.decode()) ---------- *)
Definition cont (b : Z) : bool := (128 <=? b) && (b <? 192).

Fixpoint utf8_decode (bs : list Z) : option (list Z) :=
  match bs with
  | [] => Some []
  | b0 :: r0 =>
    if b0 <? 128 then option_map (cons b0) (utf8_decode r0)
    else if b0 <? 194 then None
    else if b0 <? 224 then
      match r0 with
      | b1 :: r1 => if cont b1 then option_map (cons ((b0 - 192) * 64 + (b1 - 128))) (utf8_decode r1) else None
      | _ => None
      end
    else if b0 <? 240 then
      match r0 with
      | b1 :: b2 :: r2 =>
        let lo := if b0 =? 224 then 160 else 128 in
        let hi := if b0 =? 237 then 160 else 192 in
        if (lo <=? b1) && (b1 <? hi) && cont b2
        then option_map (cons ((b0 - 224) * 4096 + (b1 - 128) * 64 + (b2 - 128))) (utf8_decode r2)
        else None
      | _ => None
      end
    else if b0 <? 245 then
      match r0 with
      | b1 :: b2 :: b3 :: r3 =>
        let lo := if b0 =? 240 then 144 else 128 in
        let hi := if b0 =? 244 then 144 else 192 in
        if (lo <=? b1) && (b1 <? hi) && cont b2 && cont b3
        then option_map (cons ((b0 - 240) * 262144 + (b1 - 128) * 4096 + (b2 - 128) * 64 + (b3 - 128)))
                        (utf8_decode r3)
        else None
      | _ => None
      end
    else None
  end.

Definition utf8_enc1 (c : Z) : list Z :=
  if c <? 128 then [c]
  else if c <? 2048 then [192 + c / 64; 128 + c mod 64]
  else if c <? 65536 then [224 + c / 4096; 128 + (c / 64) mod 64; 128 + c mod 64]
  else [240 + c / 262144; 128 + (c / 4096) mod 64; 128 + (c / 64) mod 64; 128 + c mod 64].
Definition utf8_encode (s : list Z) : list Z := flat_map utf8_enc1 s.

(* a Unicode scalar value: what a Python str can hold and encode *)
Definition scalar (c : Z) : bool := ((0 <=? c) && (c <? 55296)) || ((57344 <=? c) && (c <? 1114112)).

(* ---------- UTF-16-LE (strict) ---------- *)
Fixpoint utf16_units (bs : list Z) : option (list Z) :=
  match bs with
  | [] => Some []
  | lo :: hi :: r => option_map (cons (lo + 256 * hi)) (utf16_units r)
  | _ => None
  end.

Fixpoint utf16_join (us : list Z) : option (list Z) :=
  match us with
  | [] => Some []
  | u :: r =>
    if (u <? 55296) || (57344 <=? u) then option_map (cons u) (utf16_join r)
    else if u <? 56320 then
      match r with
      | u2 :: r2 => if (56320 <=? u2) && (u2 <? 57344)
                    then option_map (cons (65536 + (u - 55296) * 1024 + (u2 - 56320))) (utf16_join r2)
                    else None
      | [] => None
      end
    else None
  end.

Definition utf16le_decode (bs : list Z) : option (list Z) :=
  match utf16_units bs with Some us => utf16_join us | None => None end.

Definition utf16_enc1 (c : Z) : list Z :=
  if c <? 65536 then [c mod 256; c / 256]
  else let v := c - 65536 in
       let h := 55296 + v / 1024 in
       let l := 56320 + v mod 1024 in
       [h mod 256; h / 256; l mod 256; l / 256].
Definition utf16le_encode (s : list Z) : list Z := flat_map utf16_enc1 s.

(* ---------- GUIDs ---------- *)
(* uuid.UUID(bytes_le=b).int : first three groups little-endian, the rest big-endian *)
Definition uuid_of_bytes_le (b : list Z) : Z :=
  be_uint (rev (firstn 4 b) ++ rev (slice b 4 2) ++ rev (slice b 6 2) ++ slice b 8 8).
Definition uuid_to_bytes_le (u : Z) : list Z :=
  let b := be_bytes 16 u in
  rev (firstn 4 b) ++ rev (slice b 4 2) ++ rev (slice b 6 2) ++ slice b 8 8.

(* ---------- str helpers (code-point lists) ---------- *)
Fixpoint split_on (c : Z) (s : list Z) : list (list Z) :=
  match s with
  | [] => [[]]
  | x :: r => if x =? c then [] :: split_on c r
              else match split_on c r with
                   | h :: t => (x :: h) :: t
                   | [] => [[x]]
                   end
  end.

Fixpoint lstrip (p : Z -> bool) (s : list Z) : list Z :=
  match s with
  | [] => []
  | x :: r => if p x then lstrip p r else s
  end.
Definition rstrip (p : Z -> bool) (s : list Z) : list Z := rev (lstrip p (rev s)).
Definition strip (p : Z -> bool) (s : list Z) : list Z := rstrip p (lstrip p s).

(* str.partition(c) : (before, found, after) *)
Fixpoint partition_on (c : Z) (s : list Z) : list Z * bool * list Z :=
  match s with
  | [] => ([], false, [])
  | x :: r => if x =? c then ([], true, r)
              else match partition_on c r with (a, f, b) => (x :: a, f, b) end
  end.

(* str.isspace() per character (Python 3.12 / Unicode 15: White_Space or bidi WS/B/S) *)
Definition is_space (c : Z) : bool :=
  ((9 <=? c) && (c <=? 13)) || ((28 <=? c) && (c <=? 32)) || (c =? 133) || (c =? 160) ||
  (c =? 5760) || ((8192 <=? c) && (c <=? 8202)) || (c =? 8232) || (c =? 8233) ||
  (c =? 8239) || (c =? 8287) || (c =? 12288).

(* decimal text -> number (ASCII digits only; the generators stay inside that alphabet) *)
Definition is_digit (c : Z) : bool := (48 <=? c) && (c <=? 57).
Fixpoint dec_value (acc : Z) (s : list Z) : Z :=
  match s with [] => acc | c :: r => dec_value (acc * 10 + (c - 48)) r end.
Definition parse_dec (s : list Z) : option Z :=
  match s with
  | [] => None
  | _ => if forallb is_digit s then Some (dec_value 0 s) else None
  end.

Definition hex_digit (c : Z) : option Z :=
  if (48 <=? c) && (c <=? 57) then Some (c - 48)
  else if (97 <=? c) && (c <=? 102) then Some (c - 87)
  else if (65 <=? c) && (c <=? 70) then Some (c - 55)
  else None.
Fixpoint hex_value (acc : Z) (s : list Z) : option Z :=
  match s with
  | [] => Some acc
  | c :: r => match hex_digit c with Some d => hex_value (acc * 16 + d) r | None => None end
  end.

(* ---------- Python dict over association lists ---------- *)
Fixpoint dict_put {V} (k : list Z) (v : V) (d : list (list Z * V)) : list (list Z * V) :=
  match d with
  | [] => [(k, v)]
  | (k', v') :: d' => if list_eqb k' k then (k', v) :: d' else (k', v') :: dict_put k v d'
  end.
Fixpoint dict_get {V} (k : list Z) (d : list (list Z * V)) : option V :=
  match d with
  | [] => None
  | (k', v') :: d' => if list_eqb k' k then Some v' else dict_get k d'
  end.
Definition dict_of {V} (kvs : list (list Z * V)) : list (list Z * V) :=
  fold_left (fun d kv => dict_put (fst kv) (snd kv) d) kvs [].

(* integer-keyed variant (GUIDs as 128-bit numbers) *)
Fixpoint zdict_put {V} (k : Z) (v : V) (d : list (Z * V)) : list (Z * V) :=
  match d with
  | [] => [(k, v)]
  | (k', v') :: d' => if k' =? k then (k', v) :: d' else (k', v') :: zdict_put k v d'
  end.
Fixpoint zdict_get {V} (k : Z) (d : list (Z * V)) : option V :=
  match d with
  | [] => None
  | (k', v') :: d' => if k' =? k then Some v' else zdict_get k d'
  end.
