(* Model/MetaHdrs.v — single-structure headers exposed after opening:
   VHD (footer choice, dynamic header), VDI (header + block map), Parallels HDS (v1/v2 size
   union).  No proofs here. *)
From Coq Require Import String ZArith List Bool Lia.
From DH Require Import Base.Plan Base.Layout Gen.Consts Gen.Layouts Model.MetaCodec.
Import ListNotations.
Open Scope list_scope.
Open Scope Z_scope.

(* ---------- VHD ---------- *)
Definition read_vhd_footer_at (rd : reader) (o : Z) : res record :=
  read_struct rd vhd_big_endian vhd_footer_layout vhd_footer_size o.

(* read_footer: 512 bytes from the end; the 511-byte legacy footer when bit 1 of features is clear *)
Definition vhd_read_footer (rd : reader) (fsize : Z) : res record :=
  do f <- read_vhd_footer_at rd (fsize - 512);
  if Z.land (vint f "features") 2 =? 0 then read_vhd_footer_at rd (fsize - 511) else Ok f.

Record vhd_meta := {
  vm_fixed : bool;
  vm_size : Z;
  vm_footer : record;
  vm_header : option record;
  vm_locators : list record;           (* dynamic_header.parent_locators[8] *)
}.

Definition vhd_locators (h : record) : list record :=
  let b := vbytes h "parent_locators" in
  flat_map (fun i => match decode_struct vhd_big_endian vhd_parent_locator_layout vhd_parent_locator_size
                             (slice b (i * vhd_parent_locator_size) vhd_parent_locator_size) with
                     | Some r => [r] | None => [] end)
           (zseq 0 8).

Definition vhd_open (rd : reader) (fsize : Z) : res vhd_meta :=
  do f <- vhd_read_footer rd fsize;
  if vint f "data_offset" =? 18446744073709551615 then
    Ok {| vm_fixed := true; vm_size := vint f "current_size"; vm_footer := f; vm_header := None;
          vm_locators := [] |}
  else
    do h <- read_struct rd vhd_big_endian vhd_dynamic_header_layout vhd_dynamic_header_size
              (vint f "data_offset");
    Ok {| vm_fixed := false; vm_size := vint f "current_size"; vm_footer := f; vm_header := Some h;
          vm_locators := vhd_locators h |}.

(* ---------- VDI ---------- *)
Fixpoint le_i32s (b : list Z) : option (list Z) :=
  match b with
  | [] => Some []
  | b0 :: b1 :: b2 :: b3 :: r => option_map (cons (signed 4 (le_uint [b0; b1; b2; b3]))) (le_i32s r)
  | _ => None                                  (* array.frombytes: length not a multiple of 4 *)
  end.

Record vdi_meta := {
  vd_header : record;
  vd_size : Z; vd_block_size : Z; vd_sector_size : Z; vd_data_offset : Z;
  vd_map : list Z;
}.

Definition vdi_open (rd : reader) : res vdi_meta :=
  do h <- read_struct rd vdi_big_endian vdi_HeaderDescriptor_layout vdi_HeaderDescriptor_size 0;
  if negb (vint h "Signature" =? vdi_VDI_SIGNATURE) then Err else
  do m <- of_option (le_i32s (rd (vint h "BlocksOffset") (4 * vint h "BlocksInHDD")));
  Ok {| vd_header := h; vd_size := vint h "DiskSize"; vd_block_size := vint h "BlockSize";
        vd_sector_size := vint h "SectorSize"; vd_data_offset := vint h "DataOffset"; vd_map := m |}.

(* ---------- Parallels HDS ---------- *)
Record hds_meta := {
  hm_header : record;
  hm_v2 : bool;
  hm_size : Z;                 (* bytes *)
  hm_cluster_size : Z;
  hm_data_offset : Z;
  hm_in_use : bool;
  hm_bat_step : Z; hm_bat_multiplier : Z;
}.

Definition hds_open (rd : reader) : res hds_meta :=
  do h <- read_struct rd hdd_big_endian hdd_pvd_header_layout hdd_pvd_header_size 0;
  let sig := vbytes h "m_Sig" in
  let v1 := list_eqb sig hdd_SIGNATURE_STRUCTURED_DISK_V1 in
  let v2 := list_eqb sig hdd_SIGNATURE_STRUCTURED_DISK_V2 in
  if negb (v1 || v2) then Err else
  let sectors := if v1 then vint h "m_SizeInSectors_v1" else vint h "m_SizeInSectors_v2" in
  Ok {| hm_header := h; hm_v2 := negb v1; hm_size := sectors * hdd_SECTOR_SIZE;
        hm_cluster_size := vint h "m_Sectors" * hdd_SECTOR_SIZE;
        hm_data_offset := vint h "m_FirstBlockOffset";
        hm_in_use := vint h "m_DiskInUse" =? hdd_SIGNATURE_DISK_IN_USE;
        hm_bat_step := if v1 then vint h "m_Sectors" else 1;
        hm_bat_multiplier := if v1 then 1 else vint h "m_Sectors" |}.

(* the two views of the pvd_header union as plain layouts *)
Definition hdd_v1_layout : list field := remove_fields ["m_SizeInSectors_v2"] hdd_pvd_header_layout.
Definition hdd_v2_layout : list field := remove_fields ["m_SizeInSectors_v1"; "Unused"] hdd_pvd_header_layout.
