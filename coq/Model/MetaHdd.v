(* Model/MetaHdd.v — Parallels DiskDescriptor.xml as exposed by hdd.Descriptor
   (StorageData / Storage / Image / Snapshots / Shot / TopGUID) over a parsed element tree.
   Model of the REPAIRED code (fixes/C14-hdd-topguid.diff).  No proofs here. *)
From Coq Require Import String ZArith List Bool Lia.
From DH Require Import Base.Plan Model.MetaCodec.
Import ListNotations.
Open Scope list_scope.
Open Scope Z_scope.

(* xml.etree Element: tag, text (None when empty), children *)
Inductive xml := El (tag : list Z) (text : option (list Z)) (kids : list xml).

Definition x_tag (e : xml) : list Z := match e with El t _ _ => t end.
Definition x_text (e : xml) : option (list Z) := match e with El _ t _ => t end.
Definition x_kids (e : xml) : list xml := match e with El _ _ k => k end.

(* Element.find(tag) / Element.iterfind(tag) for a plain tag path: direct children *)
Fixpoint x_find (t : list Z) (ks : list xml) : option xml :=
  match ks with
  | [] => None
  | k :: r => if list_eqb (x_tag k) t then Some k else x_find t r
  end.
Definition x_iterfind (t : list Z) (ks : list xml) : list xml :=
  filter (fun k => list_eqb (x_tag k) t) ks.

Definition tag (s : string) : list Z :=
  map (fun a => Z.of_N (Ascii.N_of_ascii a)) (list_ascii_of_string s).

(* ---------- text -> values (executable stand-ins for int() and uuid.UUID()) ---------- *)
(* int(text): surrounding whitespace, optional sign, ASCII decimal digits *)
Definition py_int (s : list Z) : option Z :=
  match strip is_space s with
  | 43 :: r => parse_dec r
  | 45 :: r => option_map Z.opp (parse_dec r)
  | r => parse_dec r
  end.

Fixpoint remove_all (fuel : nat) (p s : list Z) : list Z :=
  match fuel with
  | O => s
  | S f =>
    match s with
    | [] => []
    | x :: r => if starts_with p s then remove_all f p (skipn (length p) s) else x :: remove_all f p r
    end
  end.
Definition str_remove (p s : list Z) : list Z := remove_all (S (length s)) p s.

Definition is_brace (c : Z) : bool := (c =? 123) || (c =? 125).

(* uuid.UUID(hex).int *)
Definition py_uuid (s : list Z) : option Z :=
  let h := str_remove (tag "uuid:") (str_remove (tag "urn:") s) in
  let h := str_remove [45] (strip is_brace h) in
  if negb (Z.of_nat (length h) =? 32) then None else hex_value 0 h.

(* ---------- records ---------- *)
Record p_image := { pi_guid : Z; pi_type : option (list Z); pi_file : option (list Z) }.
Record p_storage := { ps_start : Z; ps_end : Z; ps_images : list p_image }.
Record p_shot := { sh_guid : Z; sh_parent : Z }.
Record p_desc := { pd_storages : list p_storage; pd_top : option Z; pd_shots : list p_shot }.

Section Codec.
  Variable int_of : list Z -> option Z.      (* int(text) *)
  Variable uuid_of : list Z -> option Z.     (* UUID(text).int *)

  (* element.find(t).text fed to a converter: a missing element or an empty text raises *)
  Definition child_val {A} (conv : list Z -> option A) (t : string) (ks : list xml) : res A :=
    match x_find (tag t) ks with
    | None => Err
    | Some k => match x_text k with None => Err | Some s => of_option (conv s) end
    end.

  Definition child_text (t : string) (ks : list xml) : res (option (list Z)) :=
    match x_find (tag t) ks with
    | None => Err
    | Some k => Ok (x_text k)
    end.

  Fixpoint mapM {A B} (f : A -> res B) (l : list A) : res (list B) :=
    match l with
    | [] => Ok []
    | a :: r => do b <- f a; do bs <- mapM f r; Ok (b :: bs)
    end.

  Definition image_of (e : xml) : res p_image :=
    let ks := x_kids e in
    do g <- child_val uuid_of "GUID" ks;
    do t <- child_text "Type" ks;
    do f <- child_text "File" ks;
    Ok {| pi_guid := g; pi_type := t; pi_file := f |}.

  Definition storage_of (e : xml) : res p_storage :=
    let ks := x_kids e in
    do s <- child_val int_of "Start" ks;
    do n <- child_val int_of "End" ks;
    do im <- mapM image_of (x_iterfind (tag "Image") ks);
    Ok {| ps_start := s; ps_end := n; ps_images := im |}.

  Definition shot_of (e : xml) : res p_shot :=
    let ks := x_kids e in
    do g <- child_val uuid_of "GUID" ks;
    do p <- child_val uuid_of "ParentGUID" ks;
    Ok {| sh_guid := g; sh_parent := p |}.

  (* Snapshots._from_xml, with `if top_guid is not None` *)
  Definition top_of (ks : list xml) : res (option Z) :=
    match x_find (tag "TopGUID") ks with
    | None => Ok None
    | Some k => match x_text k with
                | None => Err
                | Some s => do g <- of_option (uuid_of s); Ok (Some g)
                end
    end.

  (* Descriptor.__init__ on the root element *)
  Definition desc_of (root : xml) : res p_desc :=
    let ks := x_kids root in
    match x_find (tag "StorageData") ks, x_find (tag "Snapshots") ks with
    | Some sd, Some sn =>
      do st <- mapM storage_of (x_iterfind (tag "Storage") (x_kids sd));
      do top <- top_of (x_kids sn);
      do sh <- mapM shot_of (x_iterfind (tag "Shot") (x_kids sn));
      Ok {| pd_storages := st; pd_top := top; pd_shots := sh |}
    | _, _ => Err
    end.
End Codec.


(* ---------- the document writer (specification side) ---------- *)
Section Render.
  Variable int_text : Z -> list Z.
  Variable uuid_text : Z -> list Z.

  Definition leaf (t : string) (s : option (list Z)) : xml := El (tag t) s [].

  Definition image_x (i : p_image) : xml :=
    El (tag "Image") None [leaf "GUID" (Some (uuid_text (pi_guid i))); leaf "Type" (pi_type i);
                           leaf "File" (pi_file i)].
  Definition storage_x (s : p_storage) : xml :=
    El (tag "Storage") None
       ([leaf "Start" (Some (int_text (ps_start s))); leaf "End" (Some (int_text (ps_end s)));
         leaf "Blocksize" (Some (int_text 2048))] ++ map image_x (ps_images s)).
  Definition shot_x (s : p_shot) : xml :=
    El (tag "Shot") None [leaf "GUID" (Some (uuid_text (sh_guid s)));
                          leaf "ParentGUID" (Some (uuid_text (sh_parent s)))].
  Definition desc_x (d : p_desc) : xml :=
    El (tag "Parallels_disk_image") None
       [El (tag "Disk_Parameters") None [];
        El (tag "StorageData") None (map storage_x (pd_storages d));
        El (tag "Snapshots") None
           (match pd_top d with Some g => [leaf "TopGUID" (Some (uuid_text g))] | None => [] end
            ++ map shot_x (pd_shots d))].
End Render.
