(* Model/MetaView.v — printable views of the C14 model results for the correspondence harness
   (records flattened to tuples / lists; nothing here is used by a theorem). *)
From Coq Require Import String ZArith List Bool.
From DH Require Import Base.Plan Base.Layout Gen.Consts Gen.Layouts
     Model.MetaCodec Model.MetaQcow2 Model.MetaVhdx Model.MetaVmdk Model.MetaHdrs Model.MetaHdd.
Import ListNotations.
Open Scope list_scope.
Open Scope Z_scope.

Definition rmap {A B} (f : A -> B) (r : res A) : res B :=
  match r with Ok a => Ok (f a) | Err => Err | Fuel => Fuel end.

(* ---------- qcow2 ---------- *)
Definition q_exts_view (e : q_exts) :=
  (e_backing_format e, e_feature_table e, e_crypto e, e_bitmaps e, e_data_file e, e_unknown e).
Definition q_meta_view (m : q_meta) :=
  (qm_version m, qm_cluster_bits m, qm_size m, qm_header_length m, qm_incompat m, qm_compression m,
   q_exts_view (qm_exts m), qm_backing_file m).
Definition q_snap_view (s : q_snap) :=
  (s_l1_table_offset s, s_l1_size s, s_date_sec s, s_date_nsec s, s_vm_clock_nsec s, s_vm_state_size s,
   s_extra_size s, s_vm_state_size_large s, s_disk_size s, s_icount s, s_unknown_extra s, s_id s, s_name s,
   s_entry_size s).
Definition q_case (has_zstd dfg bg : bool) (rd : reader) :=
  let m := q_open utf8_decode has_zstd dfg bg rd in
  (rmap q_meta_view m,
   match m with
   | Ok mm => rmap (map q_snap_view) (q_snapshots utf8_decode rd mm)
   | Err => Err | Fuel => Fuel
   end).

(* the harness serialiser against the Coq writers of the theorems (ext_render, snaps_render) *)
Definition q_render_check (xs : list (Z * list Z)) (area : list Z) (snaps : list snap_spec) (sb : list Z) : bool :=
  list_eqb (ext_render xs) area && list_eqb (snaps_render snaps) sb.

(* ---------- vhdx ---------- *)
Definition xh_view (h : x_header) :=
  (xh_signature h, xh_sequence h, xh_file_write_guid h, xh_data_write_guid h, xh_log_guid h,
   xh_log_version h, xh_version h, xh_log_length h, xh_log_offset h).
Definition rg_view (r : x_region) := (rg_guid r, rg_offset r, rg_length r, rg_required r).
Definition me_view (e : x_mentry) :=
  (me_item e, me_offset e, me_length e, me_is_user e, me_is_virtual_disk e, me_is_required e).
Definition pl_view (l : x_locator) := (pl_type l, pl_entries l).
Definition x_meta_view (m : x_meta) :=
  (0, xh_view (xm_header m), xh_view (fst (xm_headers m)), xh_view (snd (xm_headers m)),
   map rg_view (xm_regions1 m), map rg_view (xm_regions2 m), map me_view (xm_mentries m),
   (xm_size m, xm_block_size m, xm_has_parent m, xm_sector_size m, xm_id m),
   option_map pl_view (xm_locator m), xm_bat_offset m).
(* open_parent (external): the scratch directory of a case holds parent.vhdx only, so the parent resolves
   exactly when "relative_path" names it; otherwise the lookup ends in IOError *)
Definition parent_resolves (es : list (list Z * list Z)) : bool :=
  match dict_get (tag "relative_path") es with
  | Some v => list_eqb v (tag "parent.vhdx") || list_eqb v (tag ".\parent.vhdx")   (* the two forms the generator writes *)
  | None => false
  end.
Definition x_case (rd : reader) := rmap x_meta_view (x_open utf16le_decode parent_resolves rd).

Definition x_render_check (type_le : list Z) (kvs : list (list Z * list Z)) (bytes : list Z) : bool :=
  list_eqb (locator_render utf16le_encode type_le kvs) bytes.

(* ---------- vmdk ---------- *)
Definition ext_view (e : extent) :=
  (x_raw e, x_access e, x_sectors e, x_type e, x_filename e, x_start e, x_partition e, x_device e).
Definition dd_view (d : descriptor) :=
  (dd_attr d, map ext_view (dd_extents d), dd_ddb d, dd_sectors d).
Definition dd_case (text : list Z) := rmap dd_view (dd_parse text).
Definition hkind_z (k : hkind) : Z := match k with HVmdk => 0 | HSesparse => 1 | HCowd => 2 end.
Definition sm_view (m : sparse_meta) :=
  (hkind_z (sm_kind m), sm_header m, sm_size m, sm_sector_count m, sm_gd_size m, sm_gt_size m,
   option_map dd_view (sm_descriptor m)).
Definition sm_case (rd : reader) (filesize : Z) := rmap sm_view (sparse_open utf8_decode rd filesize).

(* ---------- single headers ---------- *)
Definition vhd_view (m : vhd_meta) := (vm_fixed m, vm_size m, vm_footer m, vm_header m, vm_locators m).
Definition vhd_case (rd : reader) (fsize : Z) := rmap vhd_view (vhd_open rd fsize).
Definition vdi_view (m : vdi_meta) :=
  (vd_header m, vd_size m, vd_block_size m, vd_sector_size m, vd_data_offset m, vd_map m).
Definition vdi_case (rd : reader) := rmap vdi_view (vdi_open rd).
Definition hds_view (m : hds_meta) :=
  (hm_header m, hm_v2 m, hm_size m, hm_cluster_size m, hm_data_offset m, hm_in_use m, hm_bat_step m,
   hm_bat_multiplier m).
Definition hds_case (rd : reader) := rmap hds_view (hds_open rd).

(* ---------- Parallels descriptor ---------- *)
Definition pi_view (i : p_image) := (pi_guid i, pi_type i, pi_file i).
Definition ps_view (s : p_storage) := (ps_start s, ps_end s, map pi_view (ps_images s)).
Definition sh_view (s : p_shot) := (sh_guid s, sh_parent s).
Definition pd_view (d : p_desc) := (map ps_view (pd_storages d), pd_top d, map sh_view (pd_shots d)).
Definition pd_case (root : xml) := rmap pd_view (desc_of py_int py_uuid root).

(* byte strings with long runs, as written by the harness *)
Definition zs (n : Z) : list Z := repeat 0 (Z.to_nat n).
Definition rp (b n : Z) : list Z := repeat b (Z.to_nat n).
