(* Model/XmlEntry.v — routing of XML documents through the parser each entry
   point resolves to (C19).  The parsers themselves (expat, xml.etree,
   defusedxml) are outside any Gallina model: they are Section variables. *)
From Coq Require Import String ZArith List Bool.
Import ListNotations.
Open Scope Z_scope.

Inductive xml_parser : Type := Defused | Stdlib | OtherParser.

(* one call into an XML library found in the source *)
Record xml_site : Type := mk_site {
  site_module : string;        (* dotted module name *)
  site_fn : string;            (* enclosing Class.function *)
  site_line : Z;
  site_call : string;          (* the callee, resolved through the module's imports *)
  site_parser : xml_parser;    (* by the package the callee lives in *)
  site_nargs : Z;              (* positional arguments; -1 when a *args is passed *)
  site_kwargs : list string    (* keyword names; "**" for a **kwargs *)
}.

Definition parser_is_defused (p : xml_parser) : bool :=
  match p with Defused => true | _ => false end.

(* defusedxml.ElementTree.fromstring(text): exactly one positional argument and no
   keyword, so forbid_dtd / forbid_entities / forbid_external keep their defaults *)
Definition site_ok (s : xml_site) : bool :=
  parser_is_defused (site_parser s)
  && String.eqb (site_call s) "defusedxml.ElementTree.fromstring"
  && (site_nargs s =? 1)
  && match site_kwargs s with [] => true | _ => false end.

Inductive outcome (T : Type) : Type :=
| Parsed (t : T)
| Refused              (* the parser raised a defusedxml exception before building a tree *)
| Malformed.           (* not well-formed XML *)
Arguments Parsed {T} t.
Arguments Refused {T}.
Arguments Malformed {T}.

Section Entry.
  Variables doc tree : Type.
  Variable stdlib_parse : doc -> option tree.          (* xml.etree: None = not well-formed *)
  Variable defused_parse : doc -> outcome tree.        (* defusedxml with default arguments *)
  Variable other_parse : xml_site -> doc -> outcome tree.   (* anything else: unconstrained *)

  Definition of_stdlib (d : doc) : outcome tree :=
    match stdlib_parse d with Some t => Parsed t | None => Malformed end.

  (* what the entry point's constructor obtains for a document *)
  Definition entry (s : xml_site) (d : doc) : outcome tree :=
    if site_ok s then defused_parse d
    else match site_parser s with
         | Stdlib => of_stdlib d
         | _ => other_parse s d
         end.
End Entry.
