(* Model/Vdi.v — dissect/hypervisor/disk/vdi.py (VDI._read) as executable Gallina. *)
From Coq Require Import ZArith List Bool.
From DH Require Import Base.Plan Base.Table Model.Walk.
From DH Require Gen.Consts.
Import ListNotations.
Open Scope Z_scope.

Definition UNALLOCATED := Gen.Consts.vdi_UNALLOCATED.
Definition SPARSE := Gen.Consts.vdi_SPARSE.

Record vdi := {
  v_size : Z;                 (* header.DiskSize *)
  v_bs : Z;                   (* header.BlockSize *)
  v_data : Z;                 (* header.DataOffset *)
  v_map : Z -> option Z;      (* signed 32-bit block map; None = IndexError *)
  v_parent : bool;            (* a parent was given *)
}.

Definition vdi_lookup (v : vdi) (idx : Z) : res Z := of_option (v_map v idx).

(* one block's worth of a request: block value e, block idx, offset io, n bytes *)
Definition vdi_emit (v : vdi) (e idx io n : Z) : res (list seg) :=
  Ok (if e =? UNALLOCATED then
        (if v_parent v then [SParent (idx * v_bs v + io) n] else [SZero n])
      else if e =? SPARSE then [SZero n]
      else [SFile (v_data v + e * v_bs v + io) n]).

(* VDI._read: clamp to the disk size, then walk block by block *)
Definition vdi_read (v : vdi) (fuel : nat) (offset length : Z) : res (list seg) :=
  walk (v_bs v) (vdi_lookup v) (vdi_emit v) fuel offset (Z.min length (v_size v - offset)).

(* ---------- specification ---------- *)
Definition vdi_src (v : vdi) (o : Z) : src :=
  match v_map v (o / v_bs v) with
  | Some e =>
      if e =? -1 then (if v_parent v then Parent o else Zero)
      else if e =? -2 then Zero
      else File (v_data v + e * v_bs v + o mod v_bs v)
  | None => Zero
  end.

Definition vdi_fuel (len : Z) : nat := S (Z.to_nat len).
