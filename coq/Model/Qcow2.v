(* Model/Qcow2.v — dissect/hypervisor/disk/qcow2.py as executable Gallina (the REPAIRED code:
   fixes/C01-*.diff).  No proofs here.

   Everything that is a pure helper in the source — index arithmetic, cluster / sub-cluster
   classification, the range-type computation, ctz, the derived geometry of __init__, the
   version-2 header defaults — is NOT written here: it is imported from Gen/Qcow2Fun.v, which
   tools/translate_qcow2.py regenerates from the Python source on every run.  Hand-written are
   the loops and methods: L2Table.entry/bitmap, count_contiguous_subclusters, _yield_runs,
   _read, _read_compressed. *)
From Coq Require Import ZArith List Bool Lia.
From DH Require Import Base.Arith Base.Plan Base.Table.
From DH Require Import Gen.Consts Gen.Enums Gen.Qcow2Fun.
From DH Require Spec.Qcow2.
Import ListNotations.
Open Scope Z_scope.

Record image := {
  i_hdr : hdr;                   (* QCowHeader as stored (all 112 bytes decoded, whatever the version) *)
  i_backing : bool;              (* self.backing_file is not None *)
  i_l1 : Z -> option Z;          (* self.l1_table[i]; None = IndexError *)
  i_l2 : Z -> Z -> option Z;     (* uint64 word w of the table read at host offset; None = EOFError/IndexError *)
}.

(* QCow2.__init__: version-2 defaults, then the derived geometry *)
Definition hd (im : image) : hdr := v2_fix (i_hdr im).
Definition geo (im : image) : geom := open_geom (hd im).
Definition size_of (im : image) : Z := h_size (hd im).

Definition T_UNALLOC_PLAIN := qcow2_QCow2SubclusterType_QCOW2_SUBCLUSTER_UNALLOCATED_PLAIN.
Definition T_UNALLOC_ALLOC := qcow2_QCow2SubclusterType_QCOW2_SUBCLUSTER_UNALLOCATED_ALLOC.
Definition T_ZERO_PLAIN := qcow2_QCow2SubclusterType_QCOW2_SUBCLUSTER_ZERO_PLAIN.
Definition T_ZERO_ALLOC := qcow2_QCow2SubclusterType_QCOW2_SUBCLUSTER_ZERO_ALLOC.
Definition T_NORMAL := qcow2_QCow2SubclusterType_QCOW2_SUBCLUSTER_NORMAL.
Definition T_COMPRESSED := qcow2_QCow2SubclusterType_QCOW2_SUBCLUSTER_COMPRESSED.
Definition T_INVALID := qcow2_QCow2SubclusterType_QCOW2_SUBCLUSTER_INVALID.

Definition is_in (x : Z) (l : list Z) : bool := existsb (Z.eqb x) l.

(* ---------- L2Table.entry / L2Table.bitmap ---------- *)
Definition l2_entry (q : geom) (t : Z -> option Z) (idx : Z) : res Z :=
  of_option (t (idx * g_l2_entry_size q / 8)).
Definition l2_bitmap (q : geom) (t : Z -> option Z) (idx : Z) : res Z :=
  if g_has_subclusters q then of_option (t (idx * g_l2_entry_size q / 8 + 1)) else Ok 0.

(* ---------- count_contiguous_subclusters ---------- *)
(* the local tuple check_offset_types *)
Definition check_offset_types : list Z := [T_NORMAL; T_ZERO_ALLOC; T_UNALLOC_ALLOC].

(* iterations i >= 1 of `for i in range(nb_clusters)`; k = iterations left *)
Fixpoint ccs_loop (q : geom) (t : Z -> option Z) (l2_index : Z) (k : nat) (i : Z)
         (count etype eoff : Z) (chk : bool) : res Z :=
  match k with
  | O => Ok count
  | S k' =>
    do e <- l2_entry q t (l2_index + i);
    do bm <- l2_bitmap q t (l2_index + i);
    do tn <- get_subcluster_range_type q e bm 0;
    let '(ty, n) := tn in
    if negb (ty =? etype) then Ok count else
    let eoff' := if chk then eoff + g_cluster_size q else eoff in
    if chk && negb (eoff' =? Z.land e qcow2_L2E_OFFSET_MASK) then Ok count else
    let count' := count + n in
    if 0 + n <? g_subclusters_per_cluster q then Ok count'
    else ccs_loop q t l2_index k' (i + 1) count' etype eoff' chk
  end.

Definition count_contiguous_subclusters (q : geom) (nb_clusters sc_index : Z) (t : Z -> option Z)
           (l2_index : Z) : res Z :=
  if nb_clusters <=? 0 then Ok 0 else
  do e <- l2_entry q t l2_index;
  do bm <- l2_bitmap q t l2_index;
  do tn <- get_subcluster_range_type q e bm sc_index;
  let '(ty, n) := tn in
  if ty =? T_COMPRESSED then Ok n else
  let eoff := Z.land e qcow2_L2E_OFFSET_MASK in
  let chk := is_in ty check_offset_types in
  if sc_index + n <? g_subclusters_per_cluster q then Ok n
  else ccs_loop q t l2_index (Z.to_nat (nb_clusters - 1)) 1 n ty eoff chk.

(* ---------- _yield_runs ---------- *)
(* a run: (sc_type, read_offset (guest), run_offset (host / descriptor), run_length) *)
Definition run := (Z * Z * Z * Z)%type.

Fixpoint yield_runs (im : image) (fuel : nat) (offset length : Z) : res (list run) :=
  if length <=? 0 then Ok [] else
  match fuel with
  | O => Fuel
  | S fuel' =>
    let q := geo im in
    let l1_index := offset_to_l1_index q offset in
    let l2_index := offset_to_l2_index q offset in
    let sc_index := offset_to_sc_index q offset in
    let offset_in_cluster := offset_into_cluster q offset in
    let bytes_needed := length + offset_in_cluster in
    let bytes_available := Z.shiftl (g_l2_size q - l2_index) (g_cluster_bits q) in
    let bytes_needed := Z.min bytes_needed bytes_available in
    let emit (r : run) (read_count : Z) :=
      do rest <- yield_runs im fuel' (offset + read_count) (length - read_count);
      Ok (r :: rest) in
    (* a thunk: vm_compute is call-by-value, a let-bound recursive call would be evaluated eagerly *)
    let unallocated (_ : unit) :=
      let read_count := bytes_needed - offset_in_cluster in
      emit (T_UNALLOC_PLAIN, offset, 0, read_count) read_count in
    if l1_index >? h_l1_size (hd im) then unallocated tt else
    do l1e <- of_option (i_l1 im l1_index);
    let l2_offset := Z.land l1e qcow2_L1E_OFFSET_MASK in
    if l2_offset =? 0 then unallocated tt else
    let t := i_l2 im l2_offset in
    do e <- l2_entry q t l2_index;
    do bm <- l2_bitmap q t l2_index;
    do sc_type <- get_subcluster_type q e bm sc_index;
    let host_offset :=
      if sc_type =? T_COMPRESSED then Z.land e qcow2_L2E_COMPRESSED_OFFSET_SIZE_MASK
      else if is_in sc_type qcow2_NORMAL_SUBCLUSTER_TYPES
           then Z.land e qcow2_L2E_OFFSET_MASK + offset_in_cluster
           else 0 in
    let nb_clusters := size_to_clusters q bytes_needed in
    do sc_count <- count_contiguous_subclusters q nb_clusters sc_index t l2_index;
    let bytes_available := Z.shiftl (sc_count + sc_index) (g_subcluster_bits q) in
    let read_count := Z.min bytes_available bytes_needed - offset_in_cluster in
    emit (sc_type, offset, host_offset, read_count) read_count
  end.

(* ---------- _read_compressed: which file range is inflated ---------- *)
Definition comp_coffset (q : geom) (d : Z) : Z := Z.land d (g_cluster_offset_mask q).
Definition comp_csize (q : geom) (d : Z) : Z :=
  let nb_csectors := Z.land (Z.shiftr d (g_csize_shift q)) (g_csize_mask q) + 1 in
  nb_csectors * qcow2_QCOW2_COMPRESSED_SECTOR_SIZE - Z.land (comp_coffset q d) 511.

(* ---------- _read ---------- *)
Definition seg_of_run (im : image) (r : run) : list seg :=
  let '(sc_type, read_offset, run_offset, run_length) := r in
  let q := geo im in
  let unalloc := is_in sc_type qcow2_UNALLOCATED_SUBCLUSTER_TYPES in
  if is_in sc_type qcow2_ZERO_SUBCLUSTER_TYPES || (unalloc && negb (i_backing im)) then [SZero run_length]
  else if unalloc && i_backing im then [SParent read_offset run_length]   (* zero-extended: .ljust *)
  else if sc_type =? T_COMPRESSED then [SInfl run_offset (offset_into_cluster q read_offset) run_length]
  else if sc_type =? T_NORMAL then
    [if g_has_data_file q then SData run_offset run_length else SFile run_offset run_length]
  else [].

(* the loop of _read over the runs *)
Definition read_runs (im : image) (fuel : nat) (offset length : Z) : res (list seg) :=
  do runs <- yield_runs im fuel offset length;
  Ok (flat_map (seg_of_run im) runs).

(* QCow2._read (with the clamp to the disk size) *)
Definition qcow2_read (im : image) (fuel : nat) (offset length : Z) : res (list seg) :=
  read_runs im fuel offset (Z.min length (size_of im - offset)).

(* fuel used by the correspondence: every iteration reaches the next sub-cluster boundary or the end of
   the request (the theorems hold for every fuel > length; this tighter value keeps a spinning model cheap) *)
Definition fuel_for (im : image) (length : Z) : nat :=
  S (Z.to_nat (length / g_subcluster_size (geo im) + 2)).

(* ---------- the image as the specification sees it ---------- *)
Definition spec_of (im : image) : Spec.Qcow2.simage :=
  {| Spec.Qcow2.s_version := h_version (i_hdr im);
     Spec.Qcow2.s_cluster_bits := h_cluster_bits (i_hdr im);
     Spec.Qcow2.s_features := h_incompatible_features (i_hdr im);
     Spec.Qcow2.s_backing := i_backing im;
     Spec.Qcow2.s_l1 := i_l1 im;
     Spec.Qcow2.s_l2 := i_l2 im |}.

Definition guest_src (im : image) : Z -> src := Spec.Qcow2.guest_src (spec_of im).

(* the opened parameters the correspondence compares with the implementation's attributes *)
Definition open_params (im : image) : list Z :=
  let q := geo im in
  [g_cluster_size q; g_subclusters_per_cluster q; g_subcluster_size q; g_subcluster_bits q; g_l2_bits q; g_l2_size q;
   g_compression_type q; g_csize_shift q; g_csize_mask q; g_cluster_offset_mask q;
   if g_has_subclusters q then 1 else 0; if g_has_data_file q then 1 else 0; h_header_length (hd im);
   size_of im].
