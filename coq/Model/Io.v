(* Model/Io.v — I/O accounting on plans: the bytes a read fetches from backing files are the
   file/data/inflate-source segments of its plan; table look-ups are the walker's iterations. *)
From Coq Require Import ZArith List Bool.
From DH Require Import Base.Plan Model.Walk.
Import ListNotations.
Open Scope Z_scope.

Definition is_file_src (s : src) : bool :=
  match s with File _ | Data _ | Infl _ _ => true | _ => false end.

(* bytes of the result that came out of a backing file *)
Definition io_bytes (p : list seg) : Z := Z.of_nat (length (filter is_file_src (srcs_of p))).

(* file segments of a plan = the data-region reads the implementation must issue *)
Definition file_segs (p : list seg) : list (Z * Z) :=
  flat_map (fun s => match s with SFile o n => [(o, n)] | _ => [] end) p.

(* number of iterations (= table look-ups) of the generic walker *)
Fixpoint walk_steps (U : Z) (fuel : nat) (off len : Z) : Z :=
  if len <=? 0 then 0 else
  match fuel with
  | O => 0
  | S fuel' => let n := Z.min len (U - off mod U) in 1 + walk_steps U fuel' (off + n) (len - n)
  end.
