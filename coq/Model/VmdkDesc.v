(* Model/VmdkDesc.v — the descriptor side of dissect/hypervisor/disk/vmdk.py (DiskDescriptor.parse,
   RE_EXTENT_DESCRIPTOR, ExtentDescriptor.__post_init__, the extent wiring of VMDK.__init__) and
   StorageStream of disk/hdd.py, as executable Gallina.  Text is a list of code points.
   No proofs here.

   The model is the code WITH fixes/C10-*.diff applied (the extent grammar itself is not in the model:
   its alternatives are read from Gen/VmdkTables.v, i.e. from the source as it is now). *)
From Coq Require Import ZArith List Bool Lia.
From DH Require Import Base.Arith Base.Plan Base.Table Model.Vmdk.
From DH Require Gen.VmdkTables.
Import ListNotations.
Open Scope Z_scope.

Module T := Gen.VmdkTables.

Definition str := list Z.

(* ---------- character classes (Python str patterns: Unicode aware) ---------- *)
(* str.isspace / \s : the complete set *)
Definition is_space (c : Z) : bool :=
  ((9 <=? c) && (c <=? 13)) || ((28 <=? c) && (c <=? 32)) || (c =? 133) || (c =? 160) || (c =? 5760) ||
  ((8192 <=? c) && (c <=? 8202)) || (c =? 8232) || (c =? 8233) || (c =? 8239) || (c =? 8287) || (c =? 12288).

(* \d : ASCII digits plus the two non-ASCII decimal ranges the generator uses (Arabic-Indic, fullwidth);
   other Nd characters are outside the model (DESIGN section 8) *)
Definition digit_val (c : Z) : option Z :=
  if (48 <=? c) && (c <=? 57) then Some (c - 48)
  else if (1632 <=? c) && (c <=? 1641) then Some (c - 1632)
  else if (65296 <=? c) && (c <=? 65305) then Some (c - 65296)
  else None.
Definition is_digit (c : Z) : bool := match digit_val c with Some _ => true | None => false end.
Definition is_nonspace (c : Z) : bool := negb (is_space c).
Definition is_dot (c : Z) : bool := negb (c =? 10).            (* '.' without DOTALL *)

(* ---------- a backtracking matcher for the regex subset of RE_EXTENT_DESCRIPTOR ---------- *)
Inductive re :=
| RLit (l : str)                      (* literal text *)
| RClass (p : Z -> bool)              (* one character of a class *)
| RPlus (p : Z -> bool)               (* class+  (greedy) *)
| RSeq (a b : re)
| RAlt (a b : re)                     (* a|b, a first *)
| ROpt (a : re)                       (* (a)?  (greedy) *)
| RGroup (n : nat) (a : re)           (* capturing group number n *)
| RFail.

Definition caps := list (nat * str).
Fixpoint cap_get (c : caps) (n : nat) : option str :=
  match c with [] => None | (k, v) :: c' => if Nat.eqb k n then Some v else cap_get c' n end.

Fixpoint strip_prefix (l s : str) : option str :=
  match l, s with
  | [], _ => Some s
  | a :: l', b :: s' => if a =? b then strip_prefix l' s' else None
  | _ :: _, [] => None
  end.

Section Match.
  Context {R : Type}.
  (* greedy class*: longest first, then shorter on failure of the continuation *)
  Fixpoint star (p : Z -> bool) (s : str) (k : str -> option R) : option R :=
    match s with
    | c :: s' => if p c then match star p s' k with Some r => Some r | None => k s end else k s
    | [] => k []
    end.

  Fixpoint mre (r : re) (s : str) (c : caps) (k : str -> caps -> option R) : option R :=
    match r with
    | RLit l => match strip_prefix l s with Some s' => k s' c | None => None end
    | RClass p => match s with x :: s' => if p x then k s' c else None | [] => None end
    | RPlus p => match s with x :: s' => if p x then star p s' (fun t => k t c) else None | [] => None end
    | RSeq a b => mre a s c (fun s' c' => mre b s' c' k)
    | RAlt a b => match mre a s c k with Some r => Some r | None => mre b s c k end
    | ROpt a => match mre a s c k with Some r => Some r | None => k s c end
    | RGroup n a =>
        mre a s c (fun s' c' => k s' ((n, firstn (length s - length s') s) :: c'))
    | RFail => None
    end.
End Match.

Definition alts (l : list str) : re := fold_right (fun a r => RAlt (RLit a) r) RFail l.

(* groups: 1 access_mode, 2 sectors, 3 type, 4 filename, 5 start_sector, 6 partition_uuid, 7 device_identifier *)
Definition extent_re (modes types : list str) : re :=
  RSeq (RGroup 1 (alts modes)) (RSeq (RClass is_space)
  (RSeq (RGroup 2 (RPlus is_digit)) (RSeq (RClass is_space)
  (RSeq (RGroup 3 (alts types))
  (RSeq (ROpt (RSeq (RClass is_space) (RGroup 4 (RSeq (RLit [34]) (RSeq (RPlus is_dot) (RLit [34]))))))
  (RSeq (ROpt (RSeq (RClass is_space) (RGroup 5 (RPlus is_digit))))
  (RSeq (ROpt (RSeq (RClass is_space) (RGroup 6 (RPlus is_nonspace))))
        (ROpt (RSeq (RClass is_space) (RGroup 7 (RPlus is_nonspace))))))))))).

(* the pattern this model implements, in the normal form tools/translate_vmdk.py produces (whitespace
   removed, the two alternations replaced by '@'); Proofs/VmdkDesc.v checks it against the source *)
Definition expected_skeleton : str :=
  [94;40;63;80;60;97;99;99;101;115;115;95;109;111;100;101;62;64;41;92;115;40;63;80;60;115;101;99;116;111;114;115;62;
   92;100;43;41;92;115;40;63;80;60;116;121;112;101;62;64;41;40;92;115;40;63;80;60;102;105;108;101;110;97;109;101;62;
   92;34;46;43;92;34;41;41;63;40;92;115;40;63;80;60;115;116;97;114;116;95;115;101;99;116;111;114;62;92;100;43;41;41;
   63;40;92;115;40;63;80;60;112;97;114;116;105;116;105;111;110;95;117;117;105;100;62;92;83;43;41;41;63;40;92;115;40;
   63;80;60;100;101;118;105;99;101;95;105;100;101;110;116;105;102;105;101;114;62;92;83;43;41;41;63;36].

(* RE_EXTENT_DESCRIPTOR.search(line) with the anchors ^ and $ (the line holds no newline) *)
Definition match_extent_with (modes types : list str) (line : str) : option caps :=
  mre (extent_re modes types) line [] (fun s c => match s with [] => Some c | _ => None end).
Definition match_extent : str -> option caps := match_extent_with T.vmdk_re_access_modes T.vmdk_re_types.

(* ---------- ExtentDescriptor ---------- *)
Fixpoint int_of_digits (acc : Z) (s : str) : Z :=
  match s with
  | [] => acc
  | c :: s' => int_of_digits (acc * 10 + match digit_val c with Some d => d | None => 0 end) s'
  end.

Fixpoint lstrip (p : Z -> bool) (s : str) : str :=
  match s with c :: s' => if p c then lstrip p s' else s | [] => [] end.
Definition strip (p : Z -> bool) (s : str) : str := rev (lstrip p (rev (lstrip p s))).

Record extent_desc := {
  e_access : str;
  e_sectors : Z;
  e_type : str;
  e_filename : option str;           (* after stripping the quotes; None = group absent *)
  e_start : option Z;                (* None = group absent *)
  e_partition : option str;
  e_device : option str;
}.

Definition is_quote (c : Z) : bool := c =? 34.

Definition extent_of_caps (c : caps) : option extent_desc :=
  match cap_get c 1, cap_get c 2, cap_get c 3 with
  | Some a, Some n, Some t =>
      Some {| e_access := a; e_sectors := int_of_digits 0 n; e_type := t;
              e_filename := option_map (strip is_quote) (cap_get c 4);
              e_start := option_map (int_of_digits 0) (cap_get c 5);
              e_partition := cap_get c 6; e_device := cap_get c 7 |}
  | _, _, _ => None
  end.

Definition parse_extent (line : str) : option extent_desc :=
  match match_extent line with Some c => extent_of_caps c | None => None end.

(* ---------- DiskDescriptor.parse ---------- *)
Fixpoint split_nl (s : str) (cur : str) : list str :=
  match s with
  | [] => [rev cur]
  | c :: s' => if c =? 10 then rev cur :: split_nl s' [] else split_nl s' (c :: cur)
  end.

Definition starts_with (l s : str) : bool :=
  match strip_prefix l s with Some _ => true | None => false end.

Fixpoint partition_eq (s : str) (acc : str) : str * str :=      (* line.partition on the first equals sign *)
  match s with
  | [] => (rev acc, [])
  | c :: s' => if c =? 61 then (rev acc, s') else partition_eq s' (c :: acc)
  end.

Fixpoint str_eqb (a b : str) : bool :=
  match a, b with
  | [], [] => true
  | x :: a', y :: b' => (x =? y) && str_eqb a' b'
  | _, _ => false
  end.

Fixpoint dict_set (d : list (str * str)) (k v : str) : list (str * str) :=
  match d with
  | [] => [(k, v)]
  | (k', v') :: d' => if str_eqb k' k then (k', v) :: d' else (k', v') :: dict_set d' k v
  end.

Record descriptor := {
  d_attr : list (str * str);
  d_extents : list extent_desc;
  d_ddb : list (str * str);
  d_sectors : Z;
}.

Definition is_sp_or_quote (c : Z) : bool := (c =? 32) || (c =? 34).

Definition parse_line (d : descriptor) (raw : str) : descriptor :=
  let line := strip is_space raw in
  match line with
  | [] => d
  | c0 :: _ =>
    if c0 =? 35 then d else
    if existsb (fun p => starts_with p line) T.vmdk_extent_prefixes then
      match parse_extent line with
      | None => d                                           (* logged and ignored *)
      | Some e => {| d_attr := d_attr d; d_extents := d_extents d ++ [e]; d_ddb := d_ddb d;
                     d_sectors := d_sectors d + e_sectors e |}
      end
    else
      let '(k, v) := partition_eq line [] in
      let k := strip is_space k in
      let v := strip is_sp_or_quote v in
      if starts_with [100; 100; 98; 46] k                    (* the prefix ddb. *)
      then {| d_attr := d_attr d; d_extents := d_extents d; d_ddb := dict_set (d_ddb d) k v; d_sectors := d_sectors d |}
      else {| d_attr := dict_set (d_attr d) k v; d_extents := d_extents d; d_ddb := d_ddb d; d_sectors := d_sectors d |}
  end.

Definition parse_descriptor (text : str) : descriptor :=
  fold_left parse_line (split_nl text [])
            {| d_attr := []; d_extents := []; d_ddb := []; d_sectors := 0 |}.

(* ---------- VMDK.__init__: which extents become disks ---------- *)
Inductive wkind := WSparse | WRaw.
Definition mem_str (t : str) (l : list str) : bool := existsb (str_eqb t) l.

Definition wire_with (sparse raw : list str) (e : extent_desc) : option (wkind * str * Z * Z) :=
  match e_filename e with
  | None => None                          (* path.with_name(None) raises; not generated *)
  | Some fn =>
      if mem_str (e_type e) sparse then Some (WSparse, fn, e_sectors e, 0)
      else if mem_str (e_type e) raw
      then Some (WRaw, fn, e_sectors e, match e_start e with Some s => s | None => 0 end)
      else None
  end.
Definition wire : extent_desc -> option (wkind * str * Z * Z) := wire_with T.vmdk_sparse_wired T.vmdk_raw_wired.

Fixpoint filter_some {A} (l : list (option A)) : list A :=
  match l with [] => [] | Some a :: l' => a :: filter_some l' | None :: l' => filter_some l' end.

Definition wired (d : descriptor) : list (wkind * str * Z * Z) := filter_some (map wire (d_extents d)).

Fixpoint assoc_str {A} (l : list (str * A)) (k : str) : option A :=
  match l with [] => None | (k', v) :: l' => if str_eqb k' k then Some v else assoc_str l' k end.

(* open the files the wired extents name: files maps a file name to the model of that file *)
Definition open_wired (files : list (str * vfile)) (w : wkind * str * Z * Z) : res extent :=
  let '(k, fn, sectors, start) := w in
  match assoc_str files fn with
  | None => Err                                              (* FileNotFoundError *)
  | Some f =>
      match k with
      | WSparse => do sp <- open_sparse f; Ok (XSparse f sp false)
      | WRaw => Ok (XRaw (if sectors * SECTOR =? 0 then f_size f else sectors * SECTOR) start)
      end
  end.

Fixpoint all_ok {A} (l : list (res A)) : res (list A) :=
  match l with
  | [] => Ok []
  | r :: l' => do a <- r; do rest <- all_ok l'; Ok (a :: rest)
  end.

Definition assemble (files : list (str * vfile)) (text : str) : res vmdk :=
  do xs <- all_ok (map (open_wired files) (wired (parse_descriptor text))); Ok (mk_vmdk xs).

(* a descriptor that names a parent (parentCID other than ffffffff): every sparse extent is opened with that parent, and a
   grain an extent does not hold is read from the parent at the ABSOLUTE sector of the disk (extent offset + sector) *)
Definition str_parentCID : str := [112; 97; 114; 101; 110; 116; 67; 73; 68].
Definition str_ffffffff : str := [102; 102; 102; 102; 102; 102; 102; 102].
Definition desc_has_parent (d : descriptor) : res bool :=
  match assoc_str (d_attr d) str_parentCID with
  | None => Err                                              (* KeyError *)
  | Some v => Ok (negb (str_eqb v str_ffffffff))
  end.

Definition open_wired_p (hp : bool) (files : list (str * vfile)) (w : wkind * str * Z * Z) : res extent :=
  let '(k, fn, sectors, start) := w in
  match assoc_str files fn with
  | None => Err
  | Some f =>
      match k with
      | WSparse => do sp <- open_sparse f; Ok (XSparse f sp hp)
      | WRaw => Ok (XRaw (if sectors * SECTOR =? 0 then f_size f else sectors * SECTOR) start)
      end
  end.

Definition assemble_p (files : list (str * vfile)) (text : str) : res vmdk :=
  let d := parse_descriptor text in
  do hp <- desc_has_parent d;
  do xs <- all_ok (map (open_wired_p hp files) (wired d)); Ok (mk_vmdk xs).

(* ---------- specification of a multi-extent disk ---------- *)
Definition x_src (x : extent) (soff : Z) (o : Z) : src :=       (* o relative to the extent *)
  match x with
  | XSparse f sp hp => guest_src f sp soff hp o
  | XRaw _ start => File (start * 512 + o)
  end.

(* the extent holding byte o of the disk and the source of that byte, tagged with the extent's index *)
Fixpoint concat_src (ds : list (extent * Z)) (idx : Z) (o : Z) : Z * src :=
  match ds with
  | [] => (idx, Zero)
  | (x, soff) :: ds' =>
      if o / 512 <? soff + x_sectors x then (idx, x_src x soff (o - soff * 512))
      else concat_src ds' (idx + 1) o
  end.

Definition xsrcs_of (p : xplan) : list (Z * src) :=
  flat_map (fun it => map (fun s => (fst it, s)) (srcs_of_seg (snd it))) p.

(* printing helper: the specification as a plan, sector by sector *)
Definition xpush (i : Z) (s : seg) (p : xplan) : xplan :=
  if seg_len s <=? 0 then p else
  match p with
  | (j, t) :: p' => if i =? j then match merge2 s t with Some u => (i, u) :: p' | None => (i, s) :: p end
                    else (i, s) :: p
  | [] => [(i, s)]
  end.
Definition xspec_plan (ds : list (extent * Z)) (off cnt : Z) : xplan :=
  fold_right (fun k acc => let '(i, s) := concat_src ds 0 (off + k * 512) in xpush i (seg_of_src s 512) acc)
             [] (zseq 0 cnt).

(* ---------- Parallels StorageStream (disk/hdd.py) ---------- *)
(* streams: (start, end) in sectors, already sorted by start; _lookup = the starts *)
Fixpoint storage_loop (ss : list (Z * Z)) (idx sector count : Z) : xplan :=
  if count <=? 0 then [] else
  match ss with
  | [] => []                                                   (* stream_idx < len(self.streams) fails *)
  | (st, en) :: ss' =>
      let n := Z.min (en - sector) count in
      (idx, SFile ((sector - st) * 512) (n * 512)) :: storage_loop ss' (idx + 1) (sector + n) (count - n)
  end.

Definition storage_size (ss : list (Z * Z)) : Z := fold_left (fun _ s => snd s * 512) ss 0.

(* StorageStream._read; sector >= the first start (bisect_right(...) - 1 >= 0) *)
Definition storage_read (ss : list (Z * Z)) (offset length : Z) : xplan :=
  let sector := offset / 512 in
  let count := (length + 512 - 1) / 512 in
  let i := (bisect_right (map fst ss) sector - 1)%nat in
  storage_loop (skipn i ss) (Z.of_nat i) sector count.

Fixpoint storage_src (ss : list (Z * Z)) (idx : Z) (o : Z) : Z * src :=
  match ss with
  | [] => (idx, Zero)
  | (st, en) :: ss' => if o / 512 <? en then (idx, File (o - st * 512)) else storage_src ss' (idx + 1) o
  end.
