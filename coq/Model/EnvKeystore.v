(* Model/EnvKeystore.v — KeyStore.from_text and KeyStore.__init__ of
   dissect/hypervisor/util/envelope.py as executable Gallina.  No proofs here.

   Text is a list of code points.  PBKDF2 is an explicit function argument.
   External functions modelled (validated by correspondence, not proved against CPython):
   str.split/strip/partition/startswith, urllib.parse.unquote, base64.b64decode
   (binascii.a2b_base64, non-strict), uuid.UUID(bytes=...). *)
From Coq Require Import ZArith List Bool Lia.
From DH Require Import Base.Plan Model.Envelope.
From DH Require Gen.Consts Gen.EnvelopeTables.
Import ListNotations.
Open Scope Z_scope.

(* ------------------------------------------------------------------ str helpers *)
(* the characters str.strip() removes *)
Definition is_space (c : Z) : bool :=
  inr 9 13 c || inr 28 32 c || (c =? 133) || (c =? 160) || (c =? 5760) || inr 8192 8202 c
  || (c =? 8232) || (c =? 8233) || (c =? 8239) || (c =? 8287) || (c =? 12288).

Fixpoint lstrip (p : Z -> bool) (s : list Z) : list Z :=
  match s with
  | [] => []
  | c :: r => if p c then lstrip p r else s
  end.
Definition rstrip (p : Z -> bool) (s : list Z) : list Z := rev (lstrip p (rev s)).
Definition strip_by (p : Z -> bool) (s : list Z) : list Z := rstrip p (lstrip p s).
Definition strip_ws := strip_by is_space.
Definition strip_sq := strip_by (fun c => (c =? 32) || (c =? 34)).      (* strip of space and double quote *)

(* s.split(sep) for a one-character separator: never empty *)
Fixpoint split_on (sep : Z) (s : list Z) : list (list Z) :=
  match s with
  | [] => [[]]
  | c :: r =>
    match split_on sep r with
    | cur :: rest => if c =? sep then [] :: cur :: rest else (c :: cur) :: rest
    | [] => [[c]]                                      (* unreachable *)
    end
  end.

(* s.partition(sep) -> (before, after); after = "" when sep is absent *)
Fixpoint partition_on (sep : Z) (s : list Z) : list Z * list Z :=
  match s with
  | [] => ([], [])
  | c :: r => if c =? sep then ([], r) else let (a, b) := partition_on sep r in (c :: a, b)
  end.

(* ------------------------------------------------------------------ from_text *)
Inductive node := Leaf (v : list Z) | Dict (kvs : list (list Z * node)).

Fixpoint kv_get (kvs : list (list Z * node)) (k : list Z) : option node :=
  match kvs with
  | [] => None
  | (k', v) :: r => if beq k' k then Some v else kv_get r k
  end.

Fixpoint kv_set (kvs : list (list Z * node)) (k : list Z) (v : node) : list (list Z * node) :=
  match kvs with
  | [] => [(k, v)]
  | (k', v') :: r => if beq k' k then (k, v) :: r else (k', v') :: kv_set r k v
  end.

(* walk/creates the intermediate dicts, then node[parts[-1]] = value;
   Err = TypeError when the walk meets a str where a dict is needed *)
Fixpoint set_path (kvs : list (list Z * node)) (parts : list (list Z)) (v : list Z)
  : res (list (list Z * node)) :=
  match parts with
  | [] => Err
  | p :: rest =>
    match rest with
    | [] => Ok (kv_set kvs p (Leaf v))
    | _ :: _ =>
      match kv_get kvs p with
      | None => do sub <- set_path [] rest v; Ok (kv_set kvs p (Dict sub))
      | Some (Dict sub) => do sub' <- set_path sub rest v; Ok (kv_set kvs p (Dict sub'))
      | Some (Leaf _) => Err
      end
    end
  end.

Definition add_line (store : list (list Z * node)) (line0 : list Z) : res (list (list Z * node)) :=
  let line := strip_ws line0 in
  match line with
  | [] => Ok store
  | c :: _ =>
    if c =? 35 then Ok store else                                  (* '#' *)
    let (n0, v0) := partition_on 61 line in                         (* '=' *)
    let name := strip_ws n0 in
    let value := strip_sq v0 in
    match name with
    | 46 :: _ => Ok (kv_set store name (Leaf value))                 (* '.'-prefixed: flat *)
    | _ => set_path store (split_on 46 name) (strip_sq value)
    end
  end.

Fixpoint add_lines (store : list (list Z * node)) (lines : list (list Z)) : res (list (list Z * node)) :=
  match lines with
  | [] => Ok store
  | l :: r => do s <- add_line store l; add_lines s r
  end.

Definition from_text (text : list Z) : res (list (list Z * node)) :=
  add_lines [] (split_on 10 text).

(* ------------------------------------------------------------------ unquote, b64decode *)
Definition hexval (c : Z) : option Z :=
  if inr 48 57 c then Some (c - 48)
  else if inr 65 70 c then Some (c - 55)
  else if inr 97 102 c then Some (c - 87)
  else None.

(* urllib.parse.unquote; None = the result contains a non-ASCII character (it can then only make
   b64decode raise) *)
Fixpoint unquote (s : list Z) : option (list Z) :=
  match s with
  | [] => Some []
  | c :: r =>
    if negb (inr 0 127 c) then None
    else if c =? 37 then
      match r with
      | h1 :: h2 :: r' =>
        match hexval h1, hexval h2 with
        | Some a, Some b =>
            if 16 * a + b >=? 128 then None else option_map (cons (16 * a + b)) (unquote r')
        | _, _ => option_map (cons 37) (unquote r)
        end
      | _ => option_map (cons 37) (unquote r)
      end
    else option_map (cons c) (unquote r)
  end.

Definition b64val (c : Z) : option Z :=
  if inr 65 90 c then Some (c - 65)
  else if inr 97 122 c then Some (c - 71)
  else if inr 48 57 c then Some (c + 4)
  else if c =? 43 then Some 62
  else if c =? 47 then Some 63
  else None.

(* binascii.a2b_base64(strict_mode=False): state (quad_pos, leftchar, pads), output reversed *)
Fixpoint a2b (s : list Z) (quad left pads : Z) (out : list Z) : res (list Z) :=
  match s with
  | [] => if quad =? 0 then Ok (rev out) else Err
  | c :: r =>
    if c =? 61 then
      if (quad >=? 2) && (quad + (pads + 1) >=? 4) then Ok (rev out)
      else a2b r quad left (if quad >=? 2 then pads + 1 else pads) out
    else
      match b64val c with
      | None => a2b r quad left pads out
      | Some v =>
        if quad =? 0 then a2b r 1 v 0 out
        else if quad =? 1 then a2b r 2 (v mod 16) 0 ((left * 4 + v / 16) :: out)
        else if quad =? 2 then a2b r 3 (v mod 4) 0 ((left * 16 + v / 4) :: out)
        else a2b r 0 0 0 ((left * 64 + v) :: out)
      end
  end.

Definition b64decode (s : option (list Z)) : res (list Z) :=
  match s with
  | None => Err                                         (* non-ASCII str: ValueError *)
  | Some l => a2b l 0 0 0 []
  end.

(* ------------------------------------------------------------------ KeyStore.__init__ *)
Definition N_mode : list Z := [109; 111; 100; 101].
Definition N_ConfigEncData : list Z := [67; 111; 110; 102; 105; 103; 69; 110; 99; 68; 97; 116; 97].
Definition MODE_NONE := Gen.EnvelopeTables.envelope_keystore_mode.
Definition F_keyId := nth 0 Gen.EnvelopeTables.envelope_config_fields [].
Definition F_data1 := nth 1 Gen.EnvelopeTables.envelope_config_fields [].
Definition F_data2 := nth 2 Gen.EnvelopeTables.envelope_config_fields [].
Definition SALT := Gen.Consts.envelope_PBKDF2_SALT.
Definition KDF_HASH := Gen.EnvelopeTables.envelope_pbkdf2_hash.
Definition KDF_ITER := Gen.EnvelopeTables.envelope_pbkdf2_iterations.

(* obj: name -> unquoted value, last assignment wins *)
Fixpoint obj_set (o : list (list Z * option (list Z))) (k : list Z) (v : option (list Z)) :=
  match o with
  | [] => [(k, v)]
  | (k', v') :: r => if beq k' k then (k, v) :: r else (k', v') :: obj_set r k v
  end.
Fixpoint obj_get (o : list (list Z * option (list Z))) (k : list Z) : option (option (list Z)) :=
  match o with
  | [] => None
  | (k', v) :: r => if beq k' k then Some v else obj_get r k
  end.

Definition parse_config (data : list Z) : list (list Z * option (list Z)) :=
  fold_left (fun o opt => let (n, v) := partition_on 61 opt in obj_set o (strip_ws n) (unquote (strip_ws v)))
            (split_on 58 data) [].

Record kdf_call := mk_kdf { k_id : list Z; k_password : list Z; k_salt : list Z }.

Definition keystore_init (store : list (list Z * node)) : res kdf_call :=
  match kv_get store N_mode with
  | Some (Leaf m) =>
    if negb (beq m MODE_NONE) then Err else            (* "" -> ValueError, other -> NotImplementedError *)
    match kv_get store N_ConfigEncData with
    | Some (Leaf data) =>
      let obj := parse_config data in
      do kid <- of_option (obj_get obj F_keyId);       (* KeyError *)
      do id <- b64decode kid;
      if negb (len id =? 16) then Err else             (* UUID(bytes=...) needs 16 bytes *)
      do d1s <- of_option (obj_get obj F_data1);
      do d1 <- b64decode d1s;
      do d2s <- of_option (obj_get obj F_data2);
      do d2 <- b64decode d2s;
      Ok (mk_kdf id (d1 ++ SALT) d2)
    | _ => Err                                          (* KeyError / AttributeError on a dict *)
    end
  | _ => Err                                            (* no mode / empty / a dict *)
  end.

Definition keystore_plan (text : list Z) : res kdf_call :=
  do store <- from_text text; keystore_init store.

Section Kdf.
  (* hashlib.pbkdf2_hmac(hash_name, password, salt, iterations) *)
  Variable pbkdf2 : list Z -> list Z -> list Z -> Z -> list Z.
  Definition keystore_key (text : list Z) : res (list Z) :=
    do c <- keystore_plan text; Ok (pbkdf2 KDF_HASH (k_password c) (k_salt c) KDF_ITER).
End Kdf.

(* view printed by the correspondence *)
Definition keystore_plan_view (text : list Z) :=
  res_map (fun c => (k_id c, k_password c, k_salt c)) (keystore_plan text).
