(* Model/Gates.v — what each validating constructor accepts, in the order the source checks it.
   Fields are the decoded header values; byte-string signatures are lists of bytes. *)
From Coq Require Import ZArith List Bool.
From DH Require Import Base.Plan.
From DH Require Gen.Consts.
Import ListNotations.
Open Scope Z_scope.

Fixpoint zlist_eqb (a b : list Z) : bool :=
  match a, b with
  | [], [] => true
  | x :: a', y :: b' => (x =? y) && zlist_eqb a' b'
  | _, _ => false
  end.

Definition gate (bad : bool) : res unit := if bad then Err else Ok tt.

(* ---------- QCOW2 (QCow2.__init__) ---------- *)
Record qcow2_hdr := {
  q_magic : Z; q_version : Z; q_cluster_bits : Z; q_crypt : Z;
  q_incompat : Z;              (* incompatible_features as the constructor sees it *)
  q_compression : Z;           (* compression_type as the constructor derives it *)
  q_has_zstd : bool;           (* the zstandard module is importable *)
  q_backing_offset : Z;
  q_data_file_given : bool; q_backing_given : bool;
}.
Definition qcow2_subcluster_size (h : qcow2_hdr) : Z :=
  2 ^ q_cluster_bits h / (if Z.land (q_incompat h) Gen.Consts.qcow2_QCOW2_INCOMPAT_EXTL2 =? 0 then 1
                          else Gen.Consts.qcow2_QCOW_EXTL2_SUBCLUSTERS_PER_CLUSTER).
Definition qcow2_gate (h : qcow2_hdr) : res unit :=
  do _ <- gate (negb (q_magic h =? Gen.Consts.qcow2_QCOW2_MAGIC));
  do _ <- gate ((q_version h <? 2) || (3 <? q_version h));
  do _ <- gate ((q_cluster_bits h <? Gen.Consts.qcow2_MIN_CLUSTER_BITS) ||
                (Gen.Consts.qcow2_MAX_CLUSTER_BITS <? q_cluster_bits h));
  do _ <- gate ((q_compression h =? Gen.Consts.qcow2_QCOW2_COMPRESSION_TYPE_ZSTD) && negb (q_has_zstd h));
  do _ <- gate (qcow2_subcluster_size h <? 2 ^ Gen.Consts.qcow2_MIN_CLUSTER_BITS);
  do _ <- gate (negb (q_crypt h =? 0));
  do _ <- gate (negb (Z.land (q_incompat h) (Z.lnot Gen.Consts.qcow2_QCOW2_INCOMPAT_MASK) =? 0));
  do _ <- gate (negb (Z.land (q_incompat h) Gen.Consts.qcow2_QCOW2_INCOMPAT_DATA_FILE =? 0) && negb (q_data_file_given h));
  do _ <- gate (negb (q_backing_offset h =? 0) && negb (q_backing_given h));
  Ok tt.

(* ---------- VHDX ---------- *)
Definition SIG_vhdxfile : list Z := [118; 104; 100; 120; 102; 105; 108; 101].
Definition SIG_head : list Z := [104; 101; 97; 100].
Definition SIG_regi : list Z := [114; 101; 103; 105].
Definition SIG_metadata : list Z := [109; 101; 116; 97; 100; 97; 116; 97].

Record vhdx_hdr := {
  xf_sig : list Z;
  xh1_seq : Z; xh2_seq : Z; xh1_sig : list Z; xh2_sig : list Z;
  xrt1_sig : list Z; xrt2_sig : list Z;
  x_has_meta_region : bool; x_has_bat_region : bool;       (* in the first region table *)
  xm_sig : list Z;
  x_items_known : bool;                                     (* every metadata item id is a known one *)
  x_has_size : bool; x_has_fp : bool; x_has_lss : bool; x_has_id : bool;   (* present and truthy *)
  x_hp : bool; x_has_locator : bool; x_loc_type_ok : bool; x_parent_opens : bool;
}.
Definition vhdx_active_sig (h : vhdx_hdr) : list Z := if xh2_seq h <? xh1_seq h then xh1_sig h else xh2_sig h.
Definition vhdx_gate (h : vhdx_hdr) : res unit :=
  do _ <- gate (negb (zlist_eqb (xf_sig h) SIG_vhdxfile));
  do _ <- gate (negb (zlist_eqb (vhdx_active_sig h) SIG_head));
  do _ <- gate (negb (zlist_eqb (xrt1_sig h) SIG_regi));
  do _ <- gate (negb (zlist_eqb (xrt2_sig h) SIG_regi));
  do _ <- gate (negb (x_has_meta_region h));
  do _ <- gate (negb (zlist_eqb (xm_sig h) SIG_metadata));
  do _ <- gate (negb (x_items_known h));
  do _ <- gate (negb (x_has_size h));
  do _ <- gate (negb (x_has_fp h));
  do _ <- gate (negb (x_has_lss h));
  do _ <- gate (negb (x_has_id h));
  do _ <- gate (x_hp h && negb (x_has_locator h));
  do _ <- gate (x_hp h && negb (x_loc_type_ok h));
  do _ <- gate (x_hp h && negb (x_parent_opens h));
  do _ <- gate (negb (x_has_bat_region h));
  Ok tt.

(* ---------- VDI, HDS, HDD, VMDK sparse header ---------- *)
Definition vdi_gate (sig : Z) : res unit := gate (negb (sig =? Gen.Consts.vdi_VDI_SIGNATURE)).
Definition hds_gate (sig : list Z) : res unit :=
  gate (negb (zlist_eqb sig Gen.Consts.hdd_SIGNATURE_STRUCTURED_DISK_V1 ||
              zlist_eqb sig Gen.Consts.hdd_SIGNATURE_STRUCTURED_DISK_V2)).
(* image types: 0 = "Compressed", 1 = "Plain", anything else = other *)
Definition hdd_gate (descriptor_exists : bool) (image_types : list Z) : res unit :=
  do _ <- gate (negb descriptor_exists);
  gate (existsb (fun t => negb ((t =? 0) || (t =? 1))) image_types).
Definition vmdk_sparse_gate (magic : list Z) : res unit :=
  gate (negb (zlist_eqb magic Gen.Consts.vmdk_VMDK_MAGIC || zlist_eqb magic Gen.Consts.vmdk_SESPARSE_MAGIC ||
              zlist_eqb magic Gen.Consts.vmdk_COWD_MAGIC)).

(* SparseDisk picks its layout from the parsed header: hosted/COWD by the 4-byte magic, SESparse by the 64-bit magic
   field of the constant header (whose low half is the 4 bytes sniffed before); no other layout exists *)
Definition vmdk_layout_gate (magic : list Z) (magic64 : Z) : res unit :=
  do _ <- vmdk_sparse_gate magic;
  if zlist_eqb magic Gen.Consts.vmdk_VMDK_MAGIC || zlist_eqb magic Gen.Consts.vmdk_COWD_MAGIC then Ok tt
  else gate (negb (magic64 =? Gen.Consts.vmdk_SESPARSE_CONST_HEADER_MAGIC)).

(* hosted/COWD extents whose header says "grain directory at end" are re-read from the footer copy,
   through the same magic-checking constructor *)
Definition vmdk_footer_gate (hdr_magic : list Z) (uses_footer : bool) (footer_magic : list Z) : res unit :=
  do _ <- vmdk_sparse_gate hdr_magic;
  if uses_footer then
    gate (negb (zlist_eqb footer_magic Gen.Consts.vmdk_VMDK_MAGIC || zlist_eqb footer_magic Gen.Consts.vmdk_COWD_MAGIC))
  else Ok tt.

(* ---------- Hyper-V VMCX/VMRS ---------- *)
Record hyperv_hdr := {
  hv1_seq : Z; hv2_seq : Z; hv1_sig : Z; hv2_sig : Z; hv1_ver : Z; hv2_ver : Z;
  hv_replay_sig : Z; hv_objtab_sigs : list Z; hv_keytab_sigs : list Z;
}.
Definition hyperv_gate (h : hyperv_hdr) : res unit :=
  let first := hv2_seq h <? hv1_seq h in
  do _ <- gate (negb ((if first then hv1_sig h else hv2_sig h) =? Gen.Consts.hyperv_SIGNATURE_STORAGE_HEADER));
  do _ <- gate (negb ((if first then hv1_ver h else hv2_ver h) =? 1024));
  do _ <- gate (negb (hv_replay_sig h =? Gen.Consts.hyperv_SIGNATURE_REPLAY_LOG_HEADER));
  do _ <- gate (existsb (fun s => negb (s =? Gen.Consts.hyperv_SIGNATURE_OBJECT_TABLE_HEADER)) (hv_objtab_sigs h));
  do _ <- gate (existsb (fun s => negb (s =? Gen.Consts.hyperv_SIGNATURE_KEY_TABLE_HEADER)) (hv_keytab_sigs h));
  Ok tt.

(* ---------- ESXi envelope, keystore, VMX key safe ---------- *)
Record envelope_hdr := {
  e_magic : list Z; e_version : Z;
  e_has_keyinfo : bool; e_has_cipher : bool; e_has_keyhash : bool;
  e_cipher_is_gcm : bool; e_footer_version : Z;
}.
Definition envelope_gate (h : envelope_hdr) : res unit :=
  do _ <- gate (negb (zlist_eqb (e_magic h) Gen.Consts.envelope_FILE_HEADER_MAGIC));
  do _ <- gate (negb (e_version h =? 2));
  do _ <- gate (negb (e_has_keyinfo h));
  do _ <- gate (negb (e_has_cipher h));
  do _ <- gate (negb (e_has_keyhash h));
  do _ <- gate (negb (e_cipher_is_gcm h));
  do _ <- gate (negb (e_footer_version h =? 1));
  Ok tt.
(* keystore mode: 0 = missing/empty, 1 = "NONE", 2 = anything else *)
Definition keystore_gate (mode : Z) : res unit := gate (negb (mode =? 1)).
(* key safe: identifier ok, and every locator kind in {list, pair, phrase} *)
(* KeySafe.unseal_with_phrase: the locator pairs are tried in order; a pair whose pass2key / cipher name is not in the
   tables of the module stops the walk with an error (it is not skipped), a supported pair the passphrase does not open is
   skipped, the first supported pair it opens ends the walk *)
Fixpoint vmx_pairs_gate (pairs : list (bool * bool)) : res unit :=      (* (names supported, passphrase opens it) *)
  match pairs with
  | [] => Err
  | (supported, opens) :: rest =>
      if negb supported then Err else if opens then Ok tt else vmx_pairs_gate rest
  end.

Definition keysafe_gate (ident_ok : bool) (kinds_ok : bool) : res unit :=
  do _ <- gate (negb ident_ok); gate (negb kinds_ok).
