(* Spec/HyperV.v — what a VMCX/VMRS file STORES: the writer's side.

   Written from the format description (docstrings of hyperv.py, c_hyperv.py comments,
   the two real samples), independent of Gen/*.v: field widths are literal here, and
   Proofs/HyperV.v shows that the generated layouts agree with them.

   - packed little-endian records: [enc_fields]
   - a stored key-table entry [sentry] and its bytes [enc_sentry]; a key table [enc_ktable]
   - how a value is stored in an entry, inline or through a file object: [stored_as]
     (a relation: the mapping from trees to bytes is many-to-one)
   - a key/value tree with a layout: [atree] = every entry annotated with the identity
     (table index, offset) the layout gave it; [flat] = the entries it stores; any
     permutation of them, spread over any tables, with free entries in between, is a
     serialisation
   - equality of trees up to the order of siblings: [tree_equiv]. *)
From Coq Require Import ZArith List Bool Lia Permutation.
From DH Require Import Base.Plan Base.Layout Base.Table Model.HyperV.
Import ListNotations.
Open Scope Z_scope.

(* ---------- packed records ---------- *)
Fixpoint enc_fields (ws vs : list Z) : list Z :=
  match ws, vs with
  | w :: ws', v :: vs' => le_bytes (Z.to_nat w) v ++ enc_fields ws' vs'
  | _, _ => []
  end.

Definition fits (w v : Z) : Prop := 0 <= w /\ 0 <= v < 256 ^ w.

(* widths as the format defines them *)
Definition W_fhdr : list Z := [4; 4; 2; 4; 8; 4; 8; 8; 4].
Definition W_rlog : list Z := [4; 4; 4; 1; 4; 4; 4; 4; 4; 1].
Definition W_rlog_entry : list Z := [8; 4; 4; 4; 4; 4].
Definition W_otab : list Z := [4; 4].
Definition W_oent : list Z := [1; 4; 8; 4; 1].
Definition W_ktab : list Z := [2; 2; 2; 4].
Definition W_kent : list Z := [2; 4; 2; 4; 4; 4; 1].
Definition W_fop : list Z := [4; 8].

(* ---------- values ---------- *)
Fixpoint units_bytes (u : list Z) : list Z :=
  match u with [] => [] | x :: r => x mod 256 :: x / 256 :: units_bytes r end.

Definition units_ok (u : list Z) : Prop := Forall (fun x => 0 <= x < 65536) u.

(* the value bytes of an inline value *)
Definition enc_inline (v : value) : list Z :=
  match v with
  | VInt z => le_bytes 8 (z mod 2 ^ 64)
  | VUInt z => le_bytes 8 z
  | VDouble b => le_bytes 8 b
  | VString u => le_bytes 4 (2 * zlen u) ++ units_bytes u
  | VArray b => le_bytes 4 (zlen b) ++ b
  | VBool b => le_bytes 4 (if b then 1 else 0)
  end.

Definition type_of (v : value) : Z :=
  match v with
  | VInt _ => 3 | VUInt _ => 4 | VDouble _ => 5 | VString _ => 6 | VArray _ => 7 | VBool _ => 8
  end.

Definition value_ok (v : value) : Prop :=
  match v with
  | VInt z => - 2 ^ 63 <= z < 2 ^ 63
  | VUInt z => 0 <= z < 2 ^ 64
  | VDouble b => 0 <= b < 2 ^ 64
  | VString u => units_ok u /\ utf16_valid u = true /\ 2 * zlen u < 2 ^ 32
  | VArray b => bytes_ok b /\ zlen b < 2 ^ 32
  | VBool _ => True
  end.

(* the payload of a string / array (what a file object holds) *)
Definition blob_of (v : value) : option (list Z) :=
  match v with
  | VString u => Some (units_bytes u)
  | VArray b => Some b
  | _ => None
  end.

(* "entry r stores value v": by type, inline (any trailing padding) or through a
   file-object pointer (size, offset) into a registered file object *)
Inductive stored_as (f : file) (fo : fobjs) (r : rentry) : value -> Prop :=
| st_int z pad : e_typ r = 3 -> e_is_fop r = false -> value_ok (VInt z) ->
    e_data_inline r = enc_inline (VInt z) ++ pad -> stored_as f fo r (VInt z)
| st_uint z pad : e_typ r = 4 -> e_is_fop r = false -> value_ok (VUInt z) ->
    e_data_inline r = enc_inline (VUInt z) ++ pad -> stored_as f fo r (VUInt z)
| st_double b pad : e_typ r = 5 -> e_is_fop r = false -> value_ok (VDouble b) ->
    e_data_inline r = enc_inline (VDouble b) ++ pad -> stored_as f fo r (VDouble b)
| st_bool w pad : e_typ r = 8 -> e_is_fop r = false -> 0 <= w < 2 ^ 32 ->
    e_data_inline r = le_bytes 4 w ++ pad -> stored_as f fo r (VBool (negb (w =? 0)))
| st_inline v pad : (type_of v = 6 \/ type_of v = 7) -> e_typ r = type_of v -> e_is_fop r = false ->
    value_ok v -> e_data_inline r = enc_inline v ++ pad -> stored_as f fo r v
| st_pointer v blob off size osz pad : (type_of v = 6 \/ type_of v = 7) -> e_typ r = type_of v ->
    e_is_fop r = true -> value_ok v -> blob_of v = Some blob ->
    0 <= size < 2 ^ 32 -> 0 <= off < 2 ^ 64 ->
    e_data_inline r = le_bytes 4 size ++ le_bytes 8 off ++ pad ->
    assoc_z fo off = Some osz -> size <= osz -> fread f off size = blob ->
    stored_as f fo r v.

(* ---------- stored entries and key tables ---------- *)
Record sentry := {
  se_type : Z;          (* low byte: KeyDataType, high byte: flags *)
  se_pidx : Z; se_poff : Z; se_ck : Z; se_ins : Z;
  se_key : list Z;      (* UTF-8, no terminator *)
  se_body : list Z      (* value bytes and padding *) }.

Definition se_size (e : sentry) : Z := 21 + zlen (se_key e) + 1 + zlen (se_body e).

Definition enc_sentry (e : sentry) : list Z :=
  enc_fields W_kent [se_type e; se_size e; se_pidx e; se_poff e; se_ck e; se_ins e; zlen (se_key e) + 1]
  ++ se_key e ++ [0] ++ se_body e.

Definition sentry_ok (e : sentry) : Prop :=
  0 <= se_type e < 2 ^ 16 /\ se_size e < 2 ^ 32 /\ 0 <= se_pidx e < 2 ^ 16 /\ 0 <= se_poff e < 2 ^ 32 /\
  0 <= se_ck e < 2 ^ 32 /\ 0 <= se_ins e < 2 ^ 32 /\ zlen (se_key e) < 255.

(* the entry the reader should find for e at offset off *)
Definition rentry_of (off : Z) (e : sentry) : rentry :=
  {| r_off := off;
     r_hdr := {| kh_type := se_type e; kh_size := se_size e; kh_pidx := se_pidx e; kh_poff := se_poff e;
                 kh_ins := se_ins e; kh_doff := zlen (se_key e) + 1 |};
     r_raw := se_key e ++ [0] ++ se_body e |}.

Fixpoint place (off : Z) (es : list sentry) : list rentry :=
  match es with
  | [] => []
  | e :: r => rentry_of off e :: place (off + se_size e) r
  end.

Definition total_size (es : list sentry) : Z := fold_right (fun e a => se_size e + a) 0 es.

Definition enc_ktable (index seq ck : Z) (es : list sentry) (tail : list Z) : list Z :=
  enc_fields W_ktab [2; index; seq; ck] ++ concat (map enc_sentry es) ++ tail.

(* a tail is either empty (the table is full) or begins with an entry header of size 0 *)
Definition tail_ok (tail : list Z) : Prop :=
  tail = [] \/ (21 <= zlen tail /\ firstn 4 (skipn 2 tail) = [0; 0; 0; 0]).

(* ---------- trees with a layout ---------- *)
Inductive payload := PNode | PLeaf (v : value).

Inductive atree := AT (id : ident) (k : list Z) (p : payload) (cs : list atree).

Definition at_id (a : atree) : ident := match a with AT i _ _ _ => i end.
Definition at_key (a : atree) : list Z := match a with AT _ k _ _ => k end.
Definition at_kids (a : atree) : list atree := match a with AT _ _ _ cs => cs end.
Definition at_payload (a : atree) : payload := match a with AT _ _ p _ => p end.

(* the entry a node stores, under parent p *)
Definition top (p : ident) (a : atree) : lentry :=
  {| l_id := at_id a; l_par := p; l_key := at_key a; l_keyok := true; l_free := false;
     l_isnode := match at_payload a with PNode => true | PLeaf _ => false end;
     l_val := match at_payload a with PNode => Err | PLeaf v => Ok v end |}.

Fixpoint flat (p : ident) (a : atree) : list lentry :=
  match a with
  | AT i k pl cs => top p a :: flat_map (flat i) cs
  end.

Definition flat_forest (p : ident) (F : list atree) : list lentry := flat_map (flat p) F.

Fixpoint erase (a : atree) : list Z * tree :=
  match a with
  | AT _ k PNode cs => (k, Node (map erase cs))
  | AT _ k (PLeaf v) _ => (k, Leaf v)
  end.

Fixpoint depth (a : atree) : nat :=
  match a with
  | AT _ _ PNode cs => S (fold_right (fun c m => Nat.max (depth c) m) O cs)
  | AT _ _ (PLeaf _) _ => 1%nat
  end.

Definition forest_depth (F : list atree) : nat := fold_right (fun c m => Nat.max (depth c) m) O F.

(* sibling keys are pairwise different, at every level *)
Fixpoint keys_unique (a : atree) : Prop :=
  match a with
  | AT _ _ _ cs => NoDup (map at_key cs) /\ fold_right (fun c P => keys_unique c /\ P) True cs
  end.

Definition forest_keys_unique (F : list atree) : Prop :=
  NoDup (map at_key F) /\ fold_right (fun c P => keys_unique c /\ P) True F.

(* ---------- a stored entry holds a node of the tree ----------
   entry e at offset off of the key table with index idx stores node a, child of p *)
Definition entry_stores (f : file) (fo : fobjs) (idx off : Z) (e : sentry) (p : ident) (a : atree) : Prop :=
  at_id a = (idx, off) /\ se_key e = at_key a /\ utf8_valid (at_key a) = true /\
  norm_par (se_pidx e, se_poff e) = p /\
  match at_payload a with
  | PNode => se_type e mod 256 = 9
  | PLeaf v => stored_as f fo (rentry_of off e) v
  end.

(* what a slot of a key table holds: a free entry (any size, any content) or a node *)
Inductive slot := SlotFree | SlotNode (p : ident) (a : atree).

Fixpoint slots_ok (f : file) (fo : fobjs) (idx off : Z) (es : list sentry) (ss : list slot) : Prop :=
  match es, ss with
  | [], [] => True
  | e :: es', s :: ss' =>
      match s with
      | SlotFree => se_type e mod 256 = 1
      | SlotNode p a => entry_stores f fo idx off e p a
      end /\ slots_ok f fo idx (off + se_size e) es' ss'
  | _, _ => False
  end.

Definition live_of (ss : list slot) : list lentry :=
  flat_map (fun s => match s with SlotFree => [] | SlotNode p a => [top p a] end) ss.

(* a stored key table: header fields, entries, tail, the size the object table records, and what the
   slots hold *)
Record stable := {
  st_idx : Z; st_seq : Z; st_ck : Z; st_entries : list sentry; st_tail : list Z; st_size : Z;
  st_slots : list slot }.

Definition st_bytes (T : stable) : list Z := enc_ktable (st_idx T) (st_seq T) (st_ck T) (st_entries T) (st_tail T).

Definition stable_ok (f : file) (fo : fobjs) (T : stable) : Prop :=
  0 <= st_idx T < 2 ^ 16 /\ 0 <= st_seq T < 2 ^ 16 /\ 0 <= st_ck T < 2 ^ 32 /\
  Forall sentry_ok (st_entries T) /\
  ((st_tail T = [] /\ st_size T = 10 + total_size (st_entries T)) \/
   (21 <= zlen (st_tail T) /\ firstn 4 (skipn 2 (st_tail T)) = [0; 0; 0; 0] /\
    10 + total_size (st_entries T) < st_size T)) /\
  slots_ok f fo (st_idx T) 10 (st_entries T) (st_slots T).

(* what HyperVFile builds from the active key tables (Model.active_tables) *)
Definition tables_of (f : file) (fo : fobjs) (kts : list ktable) : tables :=
  map (fun kt => (kt_index kt, map (lentry_of f fo (kt_index kt)) (kt_entries kt))) kts.

(* the parsed form of a stored table *)
Definition kt_of (T : stable) : ktable :=
  {| kt_index := st_idx T; kt_seq := st_seq T; kt_entries := place 10 (st_entries T) |}.

(* Model.active_tables as a function of the registry: active_tables f st = active_of f (s_fobjs st) (s_kts st) *)
Definition active_of (f : file) (fo : fobjs) (reg : list (Z * list ktable)) : tables :=
  flat_map (fun il : Z * list ktable =>
              match snd il with
              | [] => []
              | t :: _ => [(fst il, map (lentry_of f fo (fst il)) (kt_entries t))]
              end) reg.

(* ---------- object-table entries that matter ---------- *)
Definition is_ktab (e : oentry) : bool := negb (o_alloc e =? 0) && (o_type e =? 2).
Definition is_fobj (e : oentry) : bool := negb (o_alloc e =? 0) && (o_type e =? 3).
(* file_objects after the object table has been walked (later entries override earlier ones) *)
Definition fobjs_of (oes : list oentry) : fobjs := rev (map (fun e => (o_off e, o_size e)) (filter is_fobj oes)).

(* ---------- trees as dictionaries: equal up to the order of siblings ---------- *)
Inductive tree_equiv : tree -> tree -> Prop :=
| te_leaf v : tree_equiv (Leaf v) (Leaf v)
| te_node cs cs' cs'' :
    Permutation cs cs' ->
    Forall2 (fun a b => fst a = fst b /\ tree_equiv (snd a) (snd b)) cs' cs'' ->
    tree_equiv (Node cs) (Node cs'').

(* ---------- key tables as the linker sees them ---------- *)
(* every index names one table, and an entry's identity carries the index of its table *)
Definition tables_wf (ts : tables) : Prop :=
  NoDup (map fst ts) /\ forall idx l e, In (idx, l) ts -> In e l -> fst (l_id e) = idx.

Definition strip_free (ts : tables) : tables :=
  map (fun il : Z * list lentry => (fst il, filter (fun e => negb (l_free e)) (snd il))) ts.

(* the registry HyperVFile.__init__ builds from the key tables in the order it meets them *)
Definition registry (ts : list ktable) : list (Z * list ktable) :=
  fold_left (fun reg t => register t reg) ts [].
