(* stub *)
From Coq Require Import ZArith.
