(* Spec/VmTar.v — what a vmtar archive is and what its members are, written from the
   format (ustar header layout, octal number fields, checksum; the visor variant: magic
   "visor  " at 257, prefix shortened to 151 bytes, little-endian 32-bit data offset at 496,
   reserved word at 500, textPgs at 504, fixUpPgs at 508; file data stored away from the
   header at the recorded offset).  Independent of Model/VmTar.v and of Gen/. *)
From Coq Require Import ZArith List Bool Lia.
From DH Require Import Base.Layout.
Import ListNotations.
Open Scope Z_scope.

Definition zlen (l : list Z) : Z := Z.of_nat (length l).

(* ---------- an archive, abstractly ---------- *)
Record amember := mkam {
  a_visor : bool;
  a_name : list Z;            (* bytes of the name field, without NULs *)
  a_prefix : list Z;          (* bytes of the prefix field *)
  a_type : Z;                 (* type flag byte *)
  a_size : Z;
  a_link : list Z;
  a_mode : Z; a_uid : Z; a_gid : Z; a_mtime : Z; a_devmajor : Z; a_devminor : Z;
  a_magic : list Z;           (* the 8 bytes at 257: magic + version *)
  a_uname : list Z; a_gname : list Z;
  a_voff : Z;                 (* visor: recorded data offset (absolute, bytes) *)
  a_vres : Z; a_text : Z; a_fix : Z;
  a_data : list Z;            (* standard members with data: the blocks following the header *)
}.

Definition visor7 : list Z := [118; 105; 115; 111; 114; 32; 32].

(* ---------- the writer ---------- *)
Definition padz (n : nat) (s : list Z) : list Z := s ++ repeat 0 (n - length s).

(* k octal digits, most significant first *)
Fixpoint odig (k : nat) (v : Z) : list Z :=
  match k with O => [] | S k' => odig k' (v / 8) ++ [48 + v mod 8] end.
Definition octf (w : nat) (v : Z) : list Z := odig (w - 1) v ++ [0].
Definition chkf (c : Z) : list Z := odig 6 c ++ [0; 32].
Definition le4 (v : Z) : list Z := le_bytes 4 v.

Definition pre_fields (m : amember) : list (list Z) :=
  [padz 100 (a_name m); octf 8 (a_mode m); octf 8 (a_uid m); octf 8 (a_gid m);
   octf 12 (a_size m); octf 12 (a_mtime m)].
Definition post_fields (m : amember) : list (list Z) :=
  [[a_type m]; padz 100 (a_link m); a_magic m; padz 32 (a_uname m); padz 32 (a_gname m);
   octf 8 (a_devmajor m); octf 8 (a_devminor m)] ++
  (if a_visor m
   then [padz 151 (a_prefix m); le4 (a_voff m); le4 (a_vres m); le4 (a_text m); le4 (a_fix m)]
   else [padz 155 (a_prefix m); repeat 0 4; repeat 0 4; repeat 0 4]).

Definition zsum' (l : list Z) : Z := fold_right Z.add 0 l.
Definition hdr_chksum (m : amember) : Z :=
  256 + zsum' (concat (pre_fields m)) + zsum' (concat (post_fields m)).
Definition hfields (m : amember) : list (list Z) :=
  pre_fields m ++ [chkf (hdr_chksum m)] ++ post_fields m.
Definition header (m : amember) : list Z := concat (hfields m).

Definition member_bytes (m : amember) : list Z := header m ++ a_data m.
Definition render (a : list amember) : list Z := flat_map member_bytes a.

(* ---------- what the members are ---------- *)
Definition s_mem (x : Z) (l : list Z) : bool := existsb (Z.eqb x) l.
(* types that carry file data: regular ('0', NUL, '7') and every type flag a reader does not know *)
Definition s_known := [48; 0; 49; 50; 53; 54; 55; 51; 52; 76; 75; 83].
Definition s_has_data (t : Z) : bool := s_mem t [48; 0; 55; 83] || negb (s_mem t s_known).

Definition s_ends_slash (s : list Z) : bool := match rev s with b :: _ => b =? 47 | [] => false end.
Fixpoint s_lstrip_slash (s : list Z) : list Z :=
  match s with [] => [] | b :: r => if b =? 47 then s_lstrip_slash r else s end.
Definition s_rstrip_slash (s : list Z) : list Z := rev (s_lstrip_slash (rev s)).

(* V7 convention: a NUL-typed member whose name ends with a slash is a directory *)
Definition spec_type (m : amember) : Z :=
  if (a_type m =? 0) && s_ends_slash (a_name m) then 53 else a_type m.
Definition spec_name (m : amember) : list Z :=
  let n := if spec_type m =? 53 then s_rstrip_slash (a_name m) else a_name m in
  match a_prefix m with
  | [] => n
  | p => if s_mem (spec_type m) [76; 75; 83] then n else p ++ [47] ++ n     (* GNU types do not use the prefix *)
  end.

Definition stored_away (m : amember) : bool := a_visor m && negb (a_voff m =? 0).
Definition inline (m : amember) : bool := negb (stored_away m) && s_has_data (spec_type m).
Definition s_block (n : Z) : Z := (n + 511) / 512 * 512.

Record entry := mke {
  e_name : list Z; e_link : list Z; e_type : Z; e_size : Z;
  e_off : Z;             (* where the member's header is *)
  e_data : Z;            (* where its data is *)
  e_visor : bool; e_text : Z; e_fix : Z }.

Definition entry_of (pos : Z) (m : amember) : entry :=
  mke (spec_name m) (a_link m) (spec_type m) (a_size m) pos
      (if stored_away m then a_voff m else pos + 512)
      (a_visor m) (if a_visor m then a_text m else 0) (if a_visor m then a_fix m else 0).

Fixpoint listing (pos : Z) (a : list amember) : list entry :=
  match a with
  | [] => []
  | m :: r => entry_of pos m :: listing (pos + 512 + zlen (a_data m)) r
  end.

(* the content of a member: (offset, length) in the archive file; None = no file object *)
Definition spec_extract (e : entry) : option (Z * Z) :=
  if s_has_data (e_type e) then Some (e_data e, e_size e) else None.

(* ---------- well-formedness (decidable) ---------- *)
Definition no_nul (s : list Z) : bool := forallb (fun b => negb (b =? 0)) s.
Definition bytes_okb (s : list Z) : bool := forallb (fun b => (0 <=? b) && (b <? 256)) s.
Fixpoint s_list_eqb (a b : list Z) : bool :=
  match a, b with
  | [], [] => true
  | x :: a', y :: b' => (x =? y) && s_list_eqb a' b'
  | _, _ => false
  end.
Definition field_ok (n : Z) (s : list Z) : bool := (zlen s <=? n) && no_nul s && bytes_okb s.
Definition oct_ok (w : Z) (v : Z) : bool := (0 <=? v) && (v <? 8 ^ (w - 1)).
Definition u32_ok (v : Z) : bool := (0 <=? v) && (v <? 4294967296).

(* what every header must satisfy *)
Definition wf_hdrb (m : amember) : bool :=
  field_ok 100 (a_name m) && field_ok 100 (a_link m) && field_ok 32 (a_uname m) && field_ok 32 (a_gname m)
  && field_ok (if a_visor m then 150 else 155) (a_prefix m)
  && oct_ok 8 (a_mode m) && oct_ok 8 (a_uid m) && oct_ok 8 (a_gid m) && oct_ok 12 (a_size m)
  && oct_ok 12 (a_mtime m) && oct_ok 8 (a_devmajor m) && oct_ok 8 (a_devminor m)
  && (0 <=? a_type m) && (a_type m <? 256)
  && negb (s_mem (a_type m) [83; 120; 103; 88])                  (* S x g X: sparse and pax are not covered *)
  && (zlen (a_magic m) =? 8) && bytes_okb (a_magic m)
  && Bool.eqb (s_list_eqb (firstn 7 (a_magic m)) visor7) (a_visor m)
  && u32_ok (a_voff m) && u32_ok (a_vres m) && u32_ok (a_text m) && u32_ok (a_fix m)
  && bytes_okb (a_data m).

(* a member proper *)
Definition wf_memberb (m : amember) : bool :=
  wf_hdrb m
  && negb (s_mem (a_type m) [76; 75])                            (* L K are records, not members *)
  (* a visor member that has content records where it is *)
  && (negb (a_visor m && s_has_data (spec_type m) && (0 <? a_size m)) || negb (a_voff m =? 0))
  (* a visor member never has blocks after its header; a standard one has its padded content *)
  && (if a_visor m then zlen (a_data m) =? 0
      else zlen (a_data m) =? (if s_has_data (spec_type m) then s_block (a_size m) else 0))
  (* a directory has a name besides its trailing slashes *)
  && (negb (spec_type m =? 53) || match s_rstrip_slash (a_name m) with [] => false | _ => true end).

Definition wf_archiveb (a : list amember) : bool := forallb wf_memberb a.

(* ---------- GNU long name / long link records ---------- *)
(* An item is a member, possibly preceded by records of type L (long name) or K (long link name):
   a header like any other followed by the NUL-terminated string in padded blocks; the string
   replaces the name / link name of the member the item ends with.  In a vmtar archive such a
   record may carry the visor magic (with no data offset). *)
Inductive item :=
| IMember (m : amember)
| ILong (r : amember) (next : item).

Fixpoint s_nts (s : list Z) : list Z :=
  match s with [] => [] | b :: r => if b =? 0 then [] else b :: s_nts r end.
Definition s_removesuffix_slash (s : list Z) : list Z :=
  match rev s with b :: r => if b =? 47 then rev r else s | [] => s end.

Fixpoint render_item (it : item) : list Z :=
  match it with
  | IMember m => member_bytes m
  | ILong r next => member_bytes r ++ render_item next
  end.
Definition render_items (l : list item) : list Z := flat_map render_item l.

Fixpoint item_len (it : item) : Z :=
  match it with
  | IMember m => 512 + zlen (a_data m)
  | ILong r next => 512 + zlen (a_data r) + item_len next
  end.

(* the entry of an item whose first header is at [pos]: the entry of its member, found under the
   position of the first record, renamed by the records (outermost record of a kind wins) *)
Fixpoint entry_item (pos : Z) (it : item) : entry :=
  match it with
  | IMember m => entry_of pos m
  | ILong r next =>
    let e := entry_item (pos + 512 + zlen (a_data r)) next in
    let str := s_nts (a_data r) in
    let name := if a_type r =? 76 then str else e_name e in
    let link := if a_type r =? 75 then str else e_link e in
    let name' := if e_type e =? 53 then s_removesuffix_slash name else name in
    mke name' link (e_type e) (e_size e) pos (e_data e) (e_visor e) (e_text e) (e_fix e)
  end.

Fixpoint listing_items (pos : Z) (l : list item) : list entry :=
  match l with
  | [] => []
  | it :: r => entry_item pos it :: listing_items (pos + item_len it) r
  end.

Definition wf_recordb (r : amember) : bool :=
  wf_hdrb r && s_mem (a_type r) [76; 75] && negb (stored_away r)
  && (zlen (a_data r) =? s_block (a_size r)).

Fixpoint wf_itemb (it : item) : bool :=
  match it with
  | IMember m => wf_memberb m
  | ILong r next => wf_recordb r && wf_itemb next
  end.
Definition wf_itemsb (l : list item) : bool := forallb wf_itemb l.
