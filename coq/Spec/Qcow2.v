(* Spec/Qcow2.v — what a guest sees at byte o of a QCOW2 (version 2 / 3) image.

   Written from the QCOW2 specification (docs/interop/qcow2.txt), NOT from the
   code: it imports nothing generated from /repo and uses none of the reader's
   masks or helper functions.  Fields are read as "bits lo..lo+n-1 of a 64-bit
   big-endian word" exactly as the specification tabulates them.

   Header:  version 2 has no feature bits (the header ends at byte 72).
            incompatible_features bit 2 = external data file, bit 4 = extended L2.
   L1 entry: bits 9-55 = offset of the L2 table (0 = unallocated).
   L2 entry (standard): bit 62 compressed; bit 0 reads-as-zero; bits 9-55 host
            cluster offset (0 = unallocated, except with an external data file
            where bit 63 tells whether the cluster is allocated).
   L2 entry (extended, 128 bit): first word as above but bit 0 is reserved;
            second word: bit s = sub-cluster s allocated, bit 32+s = reads as zero.
   Compressed descriptor: the low 62 bits (host offset in the low 70-cluster_bits
            bits, then the sector count minus one). *)
From Coq Require Import ZArith List Bool.
From DH Require Import Base.Plan.
Import ListNotations.
Open Scope Z_scope.

Record simage := {
  s_version : Z;
  s_cluster_bits : Z;
  s_features : Z;                (* incompatible_features as stored at byte 72 (meaningful for version >= 3) *)
  s_backing : bool;              (* a backing image is attached *)
  s_l1 : Z -> option Z;          (* the L1 table: index -> 64-bit entry *)
  s_l2 : Z -> Z -> option Z;     (* host offset of an L2 table -> 64-bit word index -> word *)
}.

(* bits lo .. lo+n-1 of e *)
Definition field (e lo n : Z) : Z := (e / 2 ^ lo) mod 2 ^ n.

Definition feature (im : simage) (bit : Z) : bool :=
  (3 <=? s_version im) && Z.testbit (s_features im) bit.

Definition ext_l2 (im : simage) : bool := feature im 4.
Definition ext_data (im : simage) : bool := feature im 2.

Definition cluster_size (im : simage) : Z := 2 ^ s_cluster_bits im.
(* number of entries of one L2 table: a table is one cluster; entries are 8 or 16 bytes *)
Definition l2_entries (im : simage) : Z := cluster_size im / (if ext_l2 im then 16 else 8).
Definition subcluster_size (im : simage) : Z := cluster_size im / 32.

(* an unallocated byte: the backing image at the same offset (which reads as zero beyond
   its end — the [Parent] source is zero-extended), or zero without a backing image *)
Definition unallocated (im : simage) (o : Z) : src := if s_backing im then Parent o else Zero.

(* a byte stored at host offset h *)
Definition stored (im : simage) (h : Z) : src := if ext_data im then Data h else File h.

(* the compressed-cluster descriptor of an L2 entry and its decoding *)
Definition descriptor (e : Z) : Z := e mod 2 ^ 62.
Definition desc_offset (cluster_bits d : Z) : Z := d mod 2 ^ (70 - cluster_bits).
Definition desc_size (cluster_bits d : Z) : Z :=
  let x := 70 - cluster_bits in
  ((d / 2 ^ x) mod 2 ^ (cluster_bits - 8) + 1) * 512 - (d mod 2 ^ x) mod 512.

Definition guest_src (im : simage) (o : Z) : src :=
  let cs := cluster_size im in
  let c := o / cs in                         (* guest cluster number *)
  let within := o mod cs in
  match s_l1 im (c / l2_entries im) with
  | None => unallocated im o                 (* beyond the L1 table *)
  | Some l1e =>
    let l2_off := field l1e 9 47 * 512 in
    if l2_off =? 0 then unallocated im o else
    let idx := c mod l2_entries im in
    if ext_l2 im then
      match s_l2 im l2_off (2 * idx), s_l2 im l2_off (2 * idx + 1) with
      | Some e, Some bm =>
        if Z.testbit e 62 then Infl (descriptor e) within else
        let s := within / subcluster_size im in
        if Z.testbit bm (32 + s) then Zero
        else if Z.testbit bm s then stored im (field e 9 47 * 512 + within)
        else unallocated im o
      | _, _ => Zero                         (* table outside the file: excluded by conformance *)
      end
    else
      match s_l2 im l2_off idx with
      | Some e =>
        if Z.testbit e 62 then Infl (descriptor e) within else
        if Z.testbit e 0 then Zero else
        let h := field e 9 47 * 512 in
        if (h =? 0) && negb (ext_data im && Z.testbit e 63) then unallocated im o
        else stored im (h + within)
      | None => Zero
      end
  end.

(* ---------- conformance (the quantifier of the property) ---------- *)
(* an extended entry pair is well formed: no sub-cluster both allocated and zero; allocation bits only
   on an entry that has a host cluster (or, with a data file, the allocated flag); compressed entries
   carry no bitmap *)
Definition ext_entry_ok (im : simage) (e bm : Z) : Prop :=
  0 <= e < 2 ^ 64 /\ 0 <= bm < 2 ^ 64 /\
  (Z.testbit e 62 = true -> bm = 0) /\
  (forall s, 0 <= s < 32 -> Z.testbit bm s = true -> Z.testbit bm (32 + s) = false) /\
  (Z.testbit e 62 = false -> field e 9 47 = 0 -> (ext_data im && Z.testbit e 63) = false ->
     forall s, 0 <= s < 32 -> Z.testbit bm s = false).

Definition conformant (im : simage) (size : Z) : Prop :=
  (s_version im = 2 \/ s_version im = 3) /\
  9 <= s_cluster_bits im <= 21 /\
  (ext_l2 im = true -> 14 <= s_cluster_bits im) /\
  0 <= size /\
  (* the L1 table covers the virtual disk *)
  (forall c, 0 <= c -> c * cluster_size im < size -> exists l1e, s_l1 im (c / l2_entries im) = Some l1e) /\
  (* every referenced L2 table lies inside the file and, with extended L2, is well formed *)
  (forall i l1e, s_l1 im i = Some l1e -> field l1e 9 47 <> 0 ->
     forall w, 0 <= w < cluster_size im / 8 -> exists v, s_l2 im (field l1e 9 47 * 512) w = Some v) /\
  (ext_l2 im = true ->
     forall i l1e, s_l1 im i = Some l1e -> field l1e 9 47 <> 0 ->
     forall idx e bm, 0 <= idx < l2_entries im ->
       s_l2 im (field l1e 9 47 * 512) (2 * idx) = Some e ->
       s_l2 im (field l1e 9 47 * 512) (2 * idx + 1) = Some bm -> ext_entry_ok im e bm).
