(* Proofs/EnvKeystore.v — lemmas about Model/EnvKeystore.v (property C16, keystore half). *)
From Coq Require Import ZArith List Bool Lia.
From DH Require Import Base.Plan Model.Envelope Model.EnvKeystore Proofs.Envelope.
Import ListNotations.
Open Scope Z_scope.

(* the derived key is PBKDF2 over exactly the values the plan extracted from the text *)
Theorem keystore_key_spec pbkdf2 text k :
  keystore_key pbkdf2 text = Ok k <->
  exists c, keystore_plan text = Ok c /\ k = pbkdf2 KDF_HASH (k_password c) (k_salt c) KDF_ITER.
Proof.
  unfold keystore_key. split.
  - destruct (keystore_plan text) as [c| |]; cbn [bind]; try discriminate. intros [= <-]. now exists c.
  - intros (c & -> & ->). reflexivity.
Qed.

(* what KeyStore.__init__ accepts, and which stored values enter the derivation *)
Theorem keystore_init_values store c :
  keystore_init store = Ok c ->
  kv_get store N_mode = Some (Leaf MODE_NONE) /\
  exists data kid s1 s2 d1,
    kv_get store N_ConfigEncData = Some (Leaf data) /\
    obj_get (parse_config data) F_keyId = Some kid /\ b64decode kid = Ok (k_id c) /\ len (k_id c) = 16 /\
    obj_get (parse_config data) F_data1 = Some s1 /\ b64decode s1 = Ok d1 /\ k_password c = d1 ++ SALT /\
    obj_get (parse_config data) F_data2 = Some s2 /\ b64decode s2 = Ok (k_salt c).
Proof.
  unfold keystore_init.
  destruct (kv_get store N_mode) as [[m|?]|]; try discriminate.
  destruct (beq m MODE_NONE) eqn:Hm; cbn [negb]; [|discriminate]. apply beq_eq in Hm. subst m.
  destruct (kv_get store N_ConfigEncData) as [[data|?]|]; try discriminate.
  destruct (obj_get (parse_config data) F_keyId) as [kid|] eqn:E1; cbn [of_option bind]; [|discriminate].
  destruct (b64decode kid) as [id| |] eqn:E2; cbn [bind]; try discriminate.
  destruct (len id =? 16) eqn:Hl; cbn [negb]; [|discriminate]. apply Z.eqb_eq in Hl.
  destruct (obj_get (parse_config data) F_data1) as [s1|] eqn:E3; cbn [of_option bind]; [|discriminate].
  destruct (b64decode s1) as [d1| |] eqn:E4; cbn [bind]; try discriminate.
  destruct (obj_get (parse_config data) F_data2) as [s2|] eqn:E5; cbn [of_option bind]; [|discriminate].
  destruct (b64decode s2) as [d2| |] eqn:E6; cbn [bind]; try discriminate.
  intros [= <-]. cbn [k_id k_password k_salt]. split; [reflexivity|].
  exists data, kid, s1, s2, d1. repeat split; assumption || reflexivity.
Qed.

(* determinism in the sense of the property: the outcome depends on the store only through the two
   stored values "mode" and "ConfigEncData" (comments, other keys, order, nesting elsewhere are irrelevant) *)
Theorem keystore_depends_only_on_stored s1 s2 :
  kv_get s1 N_mode = kv_get s2 N_mode -> kv_get s1 N_ConfigEncData = kv_get s2 N_ConfigEncData ->
  keystore_init s1 = keystore_init s2.
Proof. intros H1 H2. unfold keystore_init. now rewrite H1, H2. Qed.

Corollary keystore_key_deterministic pbkdf2 t1 t2 s1 s2 :
  from_text t1 = Ok s1 -> from_text t2 = Ok s2 ->
  kv_get s1 N_mode = kv_get s2 N_mode -> kv_get s1 N_ConfigEncData = kv_get s2 N_ConfigEncData ->
  keystore_key pbkdf2 t1 = keystore_key pbkdf2 t2.
Proof.
  intros H1 H2 Hm Hc. unfold keystore_key, keystore_plan. rewrite H1, H2. cbn [bind].
  now rewrite (keystore_depends_only_on_stored s1 s2 Hm Hc).
Qed.

(* the model has no fuel: from_text / __init__ always return or raise *)
Lemma set_path_no_fuel parts : forall kvs v, set_path kvs parts v <> Fuel.
Proof.
  induction parts as [|p rest IH]; intros kvs v; cbn [set_path]; [discriminate|].
  destruct rest as [|q rest']; [discriminate|].
  destruct (kv_get kvs p) as [[?|sub]|].
  - discriminate.
  - specialize (IH sub v). destruct (set_path sub (q :: rest') v); cbn [bind]; congruence.
  - specialize (IH [] v). destruct (set_path [] (q :: rest') v); cbn [bind]; congruence.
Qed.

Lemma add_lines_no_fuel lines : forall store, add_lines store lines <> Fuel.
Proof.
  induction lines as [|l r IH]; intros store; cbn [add_lines]; [discriminate|].
  assert (H : add_line store l <> Fuel).
  { unfold add_line. destruct (strip_ws l) as [|c rest]; [discriminate|].
    destruct (c =? 35); [discriminate|].
    destruct (partition_on 61 (c :: rest)) as [n0 v0].
    destruct (strip_ws n0) as [|d name]; [apply set_path_no_fuel|].
    destruct d; try apply set_path_no_fuel.
    repeat (destruct p; try apply set_path_no_fuel). discriminate. }
  destruct (add_line store l); cbn [bind]; [apply IH|discriminate|congruence].
Qed.

Lemma a2b_no_fuel s : forall q l p out, a2b s q l p out <> Fuel.
Proof.
  induction s as [|c r IH]; intros q l p out; cbn [a2b].
  - destruct (q =? 0); discriminate.
  - destruct (c =? 61).
    + destruct ((q >=? 2) && (q + (p + 1) >=? 4)); [discriminate|apply IH].
    + destruct (b64val c); [|apply IH].
      destruct (q =? 0); [apply IH|]. destruct (q =? 1); [apply IH|]. destruct (q =? 2); apply IH.
Qed.

Lemma b64decode_no_fuel s : b64decode s <> Fuel.
Proof. destruct s; cbn [b64decode]; [apply a2b_no_fuel|discriminate]. Qed.

Theorem keystore_plan_no_fuel text : keystore_plan text <> Fuel.
Proof.
  unfold keystore_plan, from_text.
  pose proof (add_lines_no_fuel (split_on 10 text) []) as H.
  destruct (add_lines [] (split_on 10 text)) as [store| |]; cbn [bind]; [|discriminate|congruence].
  unfold keystore_init.
  destruct (kv_get store N_mode) as [[m|?]|]; try discriminate.
  destruct (negb (beq m MODE_NONE)); [discriminate|].
  destruct (kv_get store N_ConfigEncData) as [[data|?]|]; try discriminate.
  pose proof b64decode_no_fuel as Hb.
  destruct (obj_get (parse_config data) F_keyId) as [kid|]; cbn [of_option bind]; [|discriminate].
  destruct (b64decode kid) as [id| |] eqn:E1; cbn [bind]; [|discriminate|now apply Hb in E1].
  destruct (negb (len id =? 16)); [discriminate|].
  destruct (obj_get (parse_config data) F_data1) as [s1|]; cbn [of_option bind]; [|discriminate].
  destruct (b64decode s1) as [d1| |] eqn:E2; cbn [bind]; [|discriminate|now apply Hb in E2].
  destruct (obj_get (parse_config data) F_data2) as [s2|]; cbn [of_option bind]; [|discriminate].
  destruct (b64decode s2) as [d2| |] eqn:E3; cbn [bind]; [discriminate|discriminate|now apply Hb in E3].
Qed.
