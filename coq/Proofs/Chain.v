(* Proofs/Chain.v — reading a chain of layers of any depth yields, for every byte, the
   topmost layer that holds it and zeros below the base. *)
From Coq Require Import ZArith List Bool Lia.
From DH Require Import Base.Plan Model.Chain.
Import ListNotations.
Open Scope Z_scope.

(* what each layer's own theorem provides, for requests inside [0, size) *)
Definition layer_ok (size g : Z) (l : layer) : Prop :=
  forall off n, 0 <= off -> 0 <= n -> off + n <= size -> off mod g = 0 -> n mod g = 0 ->
    exists p, l_read l off n = Ok p /\ srcs_of p = map (l_src l) (zseq off n) /\
      (forall o m, In (SParent o m) p -> 0 < m -> 0 <= o /\ o + m <= size /\ o mod g = 0 /\ m mod g = 0).

(* parent references point at the same guest offset *)
Definition parent_same (l : layer) : Prop := forall o o', l_src l o = Parent o' -> o' = o.

Definition conv (rest : list layer) (depth : nat) (s : src) : lsrc :=
  match s with
  | Zero => LZero
  | File x => LFile depth x
  | Data x => LData depth x
  | Infl d k => LInfl depth d k
  | Parent o' => chain_src rest (S depth) o'
  end.

Lemma chain_src_cons l rest depth o : chain_src (l :: rest) depth o = conv rest depth (l_src l o).
Proof. reflexivity. Qed.

Lemma lsrcs_conv rest depth s :
  (forall o m, s <> SParent o m) ->
  lsrcs_of_seg depth s = map (conv rest depth) (srcs_of_seg s).
Proof.
  intros Hnp. destruct s; cbn [lsrcs_of_seg srcs_of_seg]; rewrite ?map_map; try reflexivity.
  exfalso. eapply Hnp. reflexivity.
Qed.

Theorem chain_read_correct size g : forall ls depth off n,
  Forall (layer_ok size g) ls ->
  0 <= off -> 0 <= n -> off + n <= size -> off mod g = 0 -> n mod g = 0 ->
  chain_read ls depth off n = Ok (map (chain_src ls depth) (zseq off n)).
Proof.
  induction ls as [|l rest IH]; intros depth off n Hall Hoff Hn Hfit Hog Hng.
  - reflexivity.
  - inversion Hall as [|? ? Hl Hrest]; subst.
    destruct (Hl off n Hoff Hn Hfit Hog Hng) as (p & Hp & Hsrcs & Hpar).
    cbn [chain_read]. rewrite Hp. cbn [bind].
    (* the inner loop converts the plan segment by segment *)
    assert (Hgo : forall segs, (forall o m, In (SParent o m) segs -> 0 < m -> 0 <= o /\ o + m <= size /\ o mod g = 0 /\ m mod g = 0) ->
      (fix go (segs : list seg) : res (list lsrc) :=
         match segs with
         | [] => Ok []
         | s :: t =>
           do a <- (match s with
                    | SParent o m => if m <=? 0 then Ok [] else chain_read rest (S depth) o m
                    | _ => Ok (lsrcs_of_seg depth s)
                    end);
           do b <- go t; Ok (a ++ b)
         end) segs = Ok (map (conv rest depth) (srcs_of segs))).
    { induction segs as [|s t IHs]; intros Hin; [reflexivity|].
      rewrite IHs by (intros o m Hi Hm; apply Hin; [now right|exact Hm]).
      rewrite srcs_of_cons, map_app.
      destruct s as [z|o z|o z|o m|d k z];
        try (rewrite (lsrcs_conv rest depth) by (intros; discriminate); reflexivity).
      destruct (Z.leb_spec m 0) as [Hm0|Hm0].
      { cbn [bind srcs_of_seg]. rewrite zseq_nonpos by exact Hm0. reflexivity. }
      destruct (Hin o m ltac:(now left) Hm0) as (Ho & Hf & Hg1 & Hg2).
      rewrite (IH (S depth) o m Hrest Ho ltac:(lia) Hf Hg1 Hg2). cbn [bind srcs_of_seg]. rewrite map_map. reflexivity. }
    rewrite (Hgo p Hpar), Hsrcs, map_map. reflexivity.
Qed.

(* ---------- any byte-granular reader with an exact pointwise theorem is a layer ---------- *)
Lemma app_eq_map_zseq {A} (g : Z -> A) (l1 l2 : list A) off n k :
  0 <= k -> Z.of_nat (length l1) = k -> l1 ++ l2 = map g (zseq off n) -> 0 <= n ->
  k <= n /\ l1 = map g (zseq off k) /\ l2 = map g (zseq (off + k) (n - k)).
Proof.
  intros Hk Hl Heq Hn.
  assert (Hkn : k <= n).
  { apply (f_equal (@length A)) in Heq. rewrite app_length, map_length in Heq.
    pose proof (zseq_length off n Hn). lia. }
  split; [exact Hkn|].
  replace n with (k + (n - k)) in Heq by lia. rewrite zseq_app, map_app in Heq by lia.
  assert (Hl' : length l1 = length (map g (zseq off k))).
  { rewrite map_length. pose proof (zseq_length off k Hk). lia. }
  destruct (app_eq_app _ _ _ _ Heq) as [l [[H1 H2]|[H1 H2]]].
  - assert (l = []). { apply (f_equal (@length A)) in H1. rewrite app_length in H1. destruct l; [reflexivity|cbn in H1; lia]. }
    subst l. rewrite app_nil_r in H1. cbn [app] in H2. now subst.
  - assert (l = []). { apply (f_equal (@length A)) in H1. rewrite app_length in H1. destruct l; [reflexivity|cbn in H1; lia]. }
    subst l. rewrite app_nil_r in H1. cbn [app] in H2. now subst.
Qed.

Lemma sparent_in_range (g : Z -> src) :
  (forall o o', g o = Parent o' -> o' = o) ->
  forall p off n, 0 <= n -> srcs_of p = map g (zseq off n) ->
  forall o m, In (SParent o m) p -> 0 < m -> off <= o /\ o + m <= off + n.
Proof.
  intros Hsame. induction p as [|s p IH]; intros off n Hn Hs o m Hin Hm; [destruct Hin|].
  rewrite srcs_of_cons in Hs.
  set (k := Z.max 0 (seg_len s)).
  assert (Hlen : Z.of_nat (length (srcs_of_seg s)) = k).
  { subst k. destruct (Z.leb_spec (seg_len s) 0) as [Hneg|Hpos].
    - rewrite srcs_of_seg_nonpos by exact Hneg. cbn. lia.
    - rewrite srcs_of_seg_length by lia. lia. }
  destruct (app_eq_map_zseq g _ _ off n k ltac:(subst k; lia) Hlen Hs Hn) as (Hkn & H1 & H2).
  destruct Hin as [->|Hin].
  - cbn [seg_len] in *. assert (k = m) by (subst k; lia). subst k.
    cbn [srcs_of_seg] in H1. rewrite H in H1.
    rewrite (zseq_cons o m Hm), (zseq_cons off m Hm) in H1. cbn [map] in H1.
    injection H1 as Hhd _. symmetry in Hhd. apply Hsame in Hhd. subst o. lia.
  - destruct (IH (off + k) (n - k) ltac:(lia) H2 o m Hin Hm) as [A B]. subst k. lia.
Qed.

Theorem exact_reader_layer_ok size (l : layer) :
  (forall o o', l_src l o = Parent o' -> o' = o) ->
  (forall off n, 0 <= off -> 0 <= n -> off + n <= size ->
     exists p, l_read l off n = Ok p /\ srcs_of p = map (l_src l) (zseq off n)) ->
  layer_ok size 1 l.
Proof.
  intros Hsame Hex off n Hoff Hn Hfit _ _.
  destruct (Hex off n Hoff Hn Hfit) as (p & Hp & Hs).
  exists p. split; [exact Hp|]. split; [exact Hs|].
  intros o m Hin Hm. destruct (sparent_in_range (l_src l) Hsame p off n Hn Hs o m Hin Hm) as [A B].
  rewrite !Z.mod_1_r. repeat split; lia.
Qed.

(* non-vacuity / reading guide: a two-layer chain where the top holds even positions *)

(* a short image under a longer chain: if the image is a layer of its own size sz, the zero-extended view of it is a
   layer of every size >= sz (granule g dividing sz) *)
Theorem clip_layer_ok sz size g (l : layer) :
  0 < g -> 0 <= sz <= size -> sz mod g = 0 -> layer_ok sz g l -> layer_ok size g (clip_layer sz l).
Proof.
  intros Hg Hsz Hszg Hl off n Hoff Hn Hfit Hog Hng. cbn [clip_layer l_read l_src].
  set (m := Z.min n (sz - off)).
  destruct (Z.leb_spec m 0) as [Hm|Hm].
  - (* nothing of the request lies inside the image *)
    exists [SZero n]. split; [reflexivity|]. split.
    + cbn [srcs_of flat_map srcs_of_seg]. rewrite app_nil_r.
      rewrite <- (map_const_zseq Zero off n).
      apply map_ext_zseq. intros o Ho.
      destruct (Z.ltb_spec o sz); [|reflexivity]. subst m. lia.
    + intros o k [Hin|[]]. discriminate.
  - assert (Hmg : m mod g = 0).
    { subst m. destruct (Z.min_spec n (sz - off)) as [[_ ->]|[_ ->]]; [assumption|].
      rewrite Zminus_mod, Hszg, Hog. now rewrite Z.mod_0_l by lia. }
    assert (Hmfit : off + m <= sz) by (subst m; lia).
    destruct (Hl off m Hoff ltac:(lia) Hmfit Hog Hmg) as (p & Hp & Hs & Hpar).
    rewrite Hp. cbn [bind].
    assert (Hin : map (fun o => if o <? sz then l_src l o else Zero) (zseq off m) = map (l_src l) (zseq off m)).
    { apply map_ext_zseq. intros o Ho. destruct (Z.ltb_spec o sz); [reflexivity|lia]. }
    destruct (Z.ltb_spec m n) as [Hlt|Hge].
    + exists (p ++ [SZero (n - m)]). split; [reflexivity|]. split.
      * rewrite srcs_of_app, Hs. cbn [srcs_of flat_map srcs_of_seg]. rewrite app_nil_r.
        replace n with (m + (n - m)) at 2 by lia. rewrite zseq_app by lia. rewrite map_app, Hin. f_equal.
        rewrite <- (map_const_zseq Zero (off + m) (n - m)).
        apply map_ext_zseq. intros o Ho. destruct (Z.ltb_spec o sz); [|reflexivity]. subst m. lia.
      * intros o k Hin' Hk. apply in_app_or in Hin'. destruct Hin' as [Hin'|[Hin'|[]]]; [|discriminate].
        destruct (Hpar o k Hin' Hk) as (A & B & C & D). repeat split; try assumption. lia.
    + exists p. split; [reflexivity|]. assert (E : m = n) by (subst m; lia). split.
      * rewrite Hs, <- Hin. rewrite E. reflexivity.
      * intros o k Hin' Hk. destruct (Hpar o k Hin' Hk) as (A & B & C & D). repeat split; try assumption. lia.
Qed.

Lemma clip_parent_same sz l : parent_same l -> parent_same (clip_layer sz l).
Proof.
  intros H o o'. cbn [clip_layer l_src]. destruct (o <? sz); [apply H|discriminate].
Qed.
