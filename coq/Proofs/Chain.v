(* Proofs/Chain.v — reading a chain of layers of any depth yields, for every byte, the
   topmost layer that holds it and zeros below the base. *)
From Coq Require Import ZArith List Bool Lia.
From DH Require Import Base.Plan Model.Chain.
Import ListNotations.
Open Scope Z_scope.

(* what each layer's own theorem provides, for requests inside [0, size) *)
Definition layer_ok (size g : Z) (l : layer) : Prop :=
  forall off n, 0 <= off -> 0 <= n -> off + n <= size -> off mod g = 0 -> n mod g = 0 ->
    exists p, l_read l off n = Ok p /\ srcs_of p = map (l_src l) (zseq off n) /\
      (forall o m, In (SParent o m) p -> 0 <= o /\ 0 <= m /\ o + m <= size /\ o mod g = 0 /\ m mod g = 0).

(* parent references point at the same guest offset *)
Definition parent_same (l : layer) : Prop := forall o o', l_src l o = Parent o' -> o' = o.

Definition conv (rest : list layer) (depth : nat) (s : src) : lsrc :=
  match s with
  | Zero => LZero
  | File x => LFile depth x
  | Data x => LData depth x
  | Infl d k => LInfl depth d k
  | Parent o' => chain_src rest (S depth) o'
  end.

Lemma chain_src_cons l rest depth o : chain_src (l :: rest) depth o = conv rest depth (l_src l o).
Proof. reflexivity. Qed.

Lemma lsrcs_conv rest depth s :
  (forall o m, s <> SParent o m) ->
  lsrcs_of_seg depth s = map (conv rest depth) (srcs_of_seg s).
Proof.
  intros Hnp. destruct s; cbn [lsrcs_of_seg srcs_of_seg]; rewrite ?map_map; try reflexivity.
  exfalso. eapply Hnp. reflexivity.
Qed.

Theorem chain_read_correct size g : forall ls depth off n,
  Forall (layer_ok size g) ls ->
  0 <= off -> 0 <= n -> off + n <= size -> off mod g = 0 -> n mod g = 0 ->
  chain_read ls depth off n = Ok (map (chain_src ls depth) (zseq off n)).
Proof.
  induction ls as [|l rest IH]; intros depth off n Hall Hoff Hn Hfit Hog Hng.
  - reflexivity.
  - inversion Hall as [|? ? Hl Hrest]; subst.
    destruct (Hl off n Hoff Hn Hfit Hog Hng) as (p & Hp & Hsrcs & Hpar).
    cbn [chain_read]. rewrite Hp. cbn [bind].
    (* the inner loop converts the plan segment by segment *)
    assert (Hgo : forall segs, (forall o m, In (SParent o m) segs -> 0 <= o /\ 0 <= m /\ o + m <= size /\ o mod g = 0 /\ m mod g = 0) ->
      (fix go (segs : list seg) : res (list lsrc) :=
         match segs with
         | [] => Ok []
         | s :: t =>
           do a <- (match s with
                    | SParent o m => chain_read rest (S depth) o m
                    | _ => Ok (lsrcs_of_seg depth s)
                    end);
           do b <- go t; Ok (a ++ b)
         end) segs = Ok (map (conv rest depth) (srcs_of segs))).
    { induction segs as [|s t IHs]; intros Hin; [reflexivity|].
      rewrite IHs by (intros o m Hi; apply Hin; now right).
      rewrite srcs_of_cons, map_app.
      destruct s as [z|o z|o z|o m|d k z];
        try (rewrite (lsrcs_conv rest depth) by (intros; discriminate); reflexivity).
      destruct (Hin o m ltac:(now left)) as (Ho & Hm & Hf & Hg1 & Hg2).
      rewrite (IH (S depth) o m Hrest Ho Hm Hf Hg1 Hg2). cbn [bind srcs_of_seg]. rewrite map_map. reflexivity. }
    rewrite (Hgo p Hpar), Hsrcs, map_map. reflexivity.
Qed.

(* non-vacuity / reading guide: a two-layer chain where the top holds even positions *)
