(* Proofs/BlockMapped.v — the generic block-mapped reader.

   A reader that walks units of [U] cells (a cell is [ss] bytes: 1 for
   byte-granular readers, the sector size for sector-granular ones), looks
   each unit up, emits the segments for [min(remaining, U - offset_in_unit)]
   cells and advances, is correct against any pointwise spec its per-unit
   emitter is correct for.  VDI, VHDX and HDS instantiate it. *)
From Coq Require Import ZArith List Bool Lia.
From DH Require Import Base.Arith Base.Plan Model.Walk.
Import ListNotations.
Open Scope Z_scope.

Section BlockMapped.
  Context {A : Type}.
  Variable U : Z.                       (* cells per unit *)
  Variable ss : Z.                      (* bytes per cell *)
  Variable lookup : Z -> res A.         (* unit index -> table entry, Err = the code raises *)
  Variable emit : A -> Z -> Z -> Z -> res (list seg).   (* entry, unit idx, cell offset in unit, cell count *)
  Variable gsrc : Z -> src.             (* the specification: source of guest byte o *)
  Notation walk := (walk U lookup emit).

  Hypothesis HU : 0 < U.
  Hypothesis Hss : 0 < ss.
  Hypothesis emit_ok : forall idx a io n segs,
    lookup idx = Ok a -> emit a idx io n = Ok segs -> 0 <= idx -> 0 <= io -> 0 < n -> io + n <= U ->
    srcs_of segs = map gsrc (zseq ((idx * U + io) * ss) (n * ss)).

  Theorem walk_correct fuel : forall off len p,
    0 <= off -> walk fuel off len = Ok p ->
    srcs_of p = map gsrc (zseq (off * ss) (len * ss)).
  Proof.
    induction fuel as [|fuel IH]; intros off len p Hoff Hrun.
    - simpl in Hrun. destruct (Z.leb_spec len 0); [|discriminate].
      injection Hrun as <-. rewrite zseq_nonpos by (apply Z.mul_nonpos_nonneg; lia). reflexivity.
    - cbn [walk] in Hrun.
      destruct (Z.leb_spec len 0) as [Hl|Hl].
      { injection Hrun as <-. rewrite zseq_nonpos by (apply Z.mul_nonpos_nonneg; lia). reflexivity. }
      pose proof (Z.mod_pos_bound off U HU) as Hm.
      pose proof (Z.div_mod off U ltac:(lia)) as Hdm.
      set (n := Z.min len (U - off mod U)) in *.
      assert (Hn : 0 < n <= len /\ off mod U + n <= U) by (subst n; lia).
      destruct (lookup (off / U)) as [a| |] eqn:Hlk; try discriminate.
      cbn [bind] in Hrun.
      destruct (emit a (off / U) (off mod U) n) as [segs| |] eqn:Hem; try discriminate.
      cbn [bind] in Hrun.
      destruct (walk fuel (off + n) (len - n)) as [rest| |] eqn:Hrest; try discriminate.
      cbn [bind] in Hrun. injection Hrun as <-.
      rewrite srcs_of_app.
      assert (Hidx : 0 <= off / U) by (apply Z.div_pos; lia).
      rewrite (emit_ok (off / U) a (off mod U) n segs Hlk Hem Hidx ltac:(lia) ltac:(lia) ltac:(lia)).
      rewrite (IH (off + n) (len - n) rest ltac:(lia) Hrest).
      replace (off / U * U + off mod U) with off by lia.
      replace (len * ss) with (n * ss + (len - n) * ss) by lia.
      rewrite zseq_app by nia. rewrite map_app.
      do 3 f_equal. lia.
  Qed.

  Hypothesis lookup_not_fuel : forall i, lookup i <> Fuel.
  Hypothesis emit_not_fuel : forall a i io n, emit a i io n <> Fuel.

  Theorem walk_fuel fuel : forall off len,
    0 <= off -> len < Z.of_nat fuel -> walk fuel off len <> Fuel.
  Proof.
    induction fuel as [|fuel IH]; intros off len Hoff Hf.
    - simpl. destruct (Z.leb_spec len 0); [discriminate|lia].
    - cbn [walk]. destruct (Z.leb_spec len 0) as [Hl|Hl]; [discriminate|].
      pose proof (Z.mod_pos_bound off U HU) as Hm.
      set (n := Z.min len (U - off mod U)).
      assert (Hn : 0 < n <= len) by (subst n; lia).
      pose proof (lookup_not_fuel (off / U)) as Hnf.
      destruct (lookup (off / U)) as [a| |]; cbn [bind]; try discriminate; try congruence.
      pose proof (emit_not_fuel a (off / U) (off mod U) n) as Hef.
      destruct (emit a (off / U) (off mod U) n) as [segs| |]; cbn [bind]; try discriminate; try congruence.
      specialize (IH (off + n) (len - n) ltac:(lia) ltac:(lia)).
      destruct (walk fuel (off + n) (len - n)); cbn [bind]; try discriminate. congruence.
  Qed.

  (* every unit touched by a request inside [0, total) has an entry *)
  Definition covers (total : Z) : Prop :=
    forall i, 0 <= i -> i * U < total ->
      exists a, lookup i = Ok a /\
        forall io n, 0 <= io -> 0 < n -> io + n <= U -> exists segs, emit a i io n = Ok segs.

  Theorem walk_ok fuel : forall off len total,
    covers total -> 0 <= off -> off + len <= total -> len < Z.of_nat fuel ->
    exists p, walk fuel off len = Ok p.
  Proof.
    induction fuel as [|fuel IH]; intros off len total Hcov Hoff Hend Hf.
    - simpl. destruct (Z.leb_spec len 0); [eauto|lia].
    - cbn [walk]. destruct (Z.leb_spec len 0) as [Hl|Hl]; [eauto|].
      pose proof (Z.mod_pos_bound off U HU) as Hm.
      pose proof (Z.div_mod off U ltac:(lia)) as Hdm.
      set (n := Z.min len (U - off mod U)).
      assert (Hn : 0 < n <= len) by (subst n; lia).
      assert (Hidx : 0 <= off / U) by (apply Z.div_pos; lia).
      destruct (Hcov (off / U) Hidx ltac:(nia)) as [a [Ha Hem]]. rewrite Ha. cbn [bind].
      destruct (Hem (off mod U) n ltac:(lia) ltac:(lia) ltac:(lia)) as [segs ->]. cbn [bind].
      destruct (IH (off + n) (len - n) total Hcov ltac:(lia) ltac:(lia) ltac:(lia)) as [rest ->].
      cbn [bind]. eauto.
  Qed.
End BlockMapped.

(* parent references emitted by a walk stay inside the requested range *)
Section ParentRange.
  Context {A : Type}.
  Variable U ss : Z.
  Variable lookup : Z -> res A.
  Variable emit : A -> Z -> Z -> Z -> res (list seg).
  Hypothesis HU : 0 < U.
  Hypothesis Hss : 0 < ss.
  Hypothesis emit_parent_range : forall idx a io n segs o m,
    emit a idx io n = Ok segs -> In (SParent o m) segs ->
    0 <= idx -> 0 <= io -> 0 < n -> io + n <= U ->
    (idx * U + io) * ss <= o /\ 0 <= m /\ o + m <= (idx * U + io + n) * ss /\ o mod ss = 0 /\ m mod ss = 0.

  Theorem walk_parent_range fuel : forall off len p o m,
    0 <= off -> walk U lookup emit fuel off len = Ok p -> In (SParent o m) p ->
    off * ss <= o /\ 0 <= m /\ o + m <= (off + Z.max 0 len) * ss /\ o mod ss = 0 /\ m mod ss = 0.
  Proof.
    induction fuel as [|fuel IH]; intros off len p o m Hoff Hrun Hin.
    - simpl in Hrun. destruct (Z.leb_spec len 0); [|discriminate]. injection Hrun as <-. destruct Hin.
    - cbn [walk] in Hrun. destruct (Z.leb_spec len 0) as [Hl|Hl].
      { injection Hrun as <-. destruct Hin. }
      pose proof (Z.mod_pos_bound off U HU) as Hm.
      pose proof (Z.div_mod off U ltac:(lia)) as Hdm.
      set (n := Z.min len (U - off mod U)) in *.
      assert (Hn : 0 < n <= len /\ off mod U + n <= U) by (subst n; lia).
      destruct (lookup (off / U)) as [a| |] eqn:Hlk; try discriminate. cbn [bind] in Hrun.
      destruct (emit a (off / U) (off mod U) n) as [segs| |] eqn:Hem; try discriminate. cbn [bind] in Hrun.
      destruct (walk U lookup emit fuel (off + n) (len - n)) as [rest| |] eqn:Hrest; try discriminate.
      cbn [bind] in Hrun. injection Hrun as <-.
      apply in_app_or in Hin. destruct Hin as [Hin|Hin].
      + assert (Hidx : 0 <= off / U) by (apply Z.div_pos; lia).
        destruct (emit_parent_range (off / U) a (off mod U) n segs o m Hem Hin Hidx ltac:(lia) ltac:(lia) ltac:(lia))
          as (H1 & H2 & H3 & H4 & H5).
        replace (off / U * U + off mod U) with off in * by lia. repeat split; try assumption; nia.
      + destruct (IH (off + n) (len - n) rest o m ltac:(lia) Hrest Hin) as (H1 & H2 & H3 & H4 & H5).
        repeat split; try assumption; nia.
  Qed.
End ParentRange.

(* the first m sources of a plan covering [off, off+n) *)
Lemma firstn_map_zseq {A} (f : Z -> A) o n m :
  0 <= m <= n -> firstn (Z.to_nat m) (map f (zseq o n)) = map f (zseq o m).
Proof.
  intros H. replace n with (m + (n - m)) by lia.
  rewrite zseq_app, map_app by lia.
  rewrite firstn_app.
  replace (Z.to_nat m - length (map f (zseq o m)))%nat with 0%nat.
  2:{ rewrite map_length. pose proof (zseq_length o m ltac:(lia)). lia. }
  rewrite firstn_O, app_nil_r. apply firstn_all2.
  rewrite map_length. pose proof (zseq_length o m ltac:(lia)). lia.
Qed.
