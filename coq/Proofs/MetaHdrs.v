(* Proofs/MetaHdrs.v — HDS header (v1 / v2 size union), VMDK embedded descriptor terminator. *)
From Coq Require Import String ZArith List Bool Lia.
From DH Require Import Base.Arith Base.Plan Base.Layout Gen.Consts Gen.Layouts
     Model.MetaCodec Model.MetaHdrs Model.MetaVmdk Proofs.MetaCodec.
Import ListNotations.
Open Scope list_scope.
Open Scope Z_scope.

(* decoding a name through the full (union) layout or through one of its plain views reads the same bytes *)
Lemma hds_views_agree buf :
  let full := map (fun f => (f_name f, decode_field hdd_big_endian f buf)) hdd_pvd_header_layout in
  let v1 := map (fun f => (f_name f, decode_field hdd_big_endian f buf)) hdd_v1_layout in
  let v2 := map (fun f => (f_name f, decode_field hdd_big_endian f buf)) hdd_v2_layout in
  vbytes full "m_Sig" = vbytes v1 "m_Sig" /\ vbytes full "m_Sig" = vbytes v2 "m_Sig" /\
  vint full "m_Sectors" = vint v1 "m_Sectors" /\ vint full "m_Sectors" = vint v2 "m_Sectors" /\
  vint full "m_FirstBlockOffset" = vint v1 "m_FirstBlockOffset" /\
  vint full "m_FirstBlockOffset" = vint v2 "m_FirstBlockOffset" /\
  vint full "m_DiskInUse" = vint v1 "m_DiskInUse" /\ vint full "m_DiskInUse" = vint v2 "m_DiskInUse" /\
  vint full "m_SizeInSectors_v1" = vint v1 "m_SizeInSectors_v1" /\
  vint full "m_SizeInSectors_v2" = vint v2 "m_SizeInSectors_v2".
Proof. cbv zeta. repeat split; reflexivity. Qed.

(* a version-2 header: the 64-bit size field is the one exposed (in bytes), whatever its value *)
Theorem hds_open_v2 r post :
  wf_vals hdd_v2_layout r -> vbytes r "m_Sig" = hdd_SIGNATURE_STRUCTURED_DISK_V2 ->
  exists m, hds_open (buf_reader (encode_struct hdd_big_endian hdd_v2_layout r ++ post)) = Ok m /\
            hm_v2 m = true /\
            hm_size m = vint r "m_SizeInSectors_v2" * hdd_SECTOR_SIZE /\
            hm_cluster_size m = vint r "m_Sectors" * hdd_SECTOR_SIZE /\
            hm_data_offset m = vint r "m_FirstBlockOffset" /\
            hm_in_use m = (vint r "m_DiskInUse" =? hdd_SIGNATURE_DISK_IN_USE).
Proof.
  intros Hw Hsig.
  pose proof (struct_roundtrip hdd_big_endian hdd_v2_layout r post eq_refl Hw) as Hrt.
  pose proof (encode_struct_len hdd_big_endian hdd_v2_layout 0 r eq_refl Hw) as Hl.
  change (layout_size hdd_v2_layout) with 64 in *.
  set (enc := encode_struct hdd_big_endian hdd_v2_layout r) in *.
  unfold hds_open, read_struct, read_exact.
  change hdd_pvd_header_size with 64.
  assert (Hrd : buf_reader (enc ++ post) 0 64 = enc).
  { apply (buf_reader_mid [] enc post); [reflexivity|now rewrite Hl]. }
  rewrite Hrd, Hl. cbn [Z.ltb Z.compare Pos.compare Pos.compare_cont bind].
  unfold decode_struct in Hrt |- *. rewrite zlen_app, Hl in Hrt. rewrite Hl.
  destruct (Z.ltb_spec (64 + zlen post) 64) as [H|_]; [pose proof (zlen_nonneg post); lia|].
  cbn [Z.ltb Z.compare Pos.compare Pos.compare_cont of_option bind].
  injection Hrt as Hrt.
  (* the view decoded from enc ++ post reads the same bytes as the view decoded from enc *)
  assert (Hv : map (fun f => (f_name f, decode_field hdd_big_endian f enc)) hdd_v2_layout = r).
  { rewrite <- (app_nil_r enc). unfold enc.
    pose proof (struct_roundtrip hdd_big_endian hdd_v2_layout r [] eq_refl Hw) as H0.
    unfold decode_struct in H0. rewrite zlen_app in H0. fold enc in H0. rewrite Hl in H0.
    cbn in H0. now injection H0. }
  destruct (hds_views_agree enc) as (_ & Hs & _ & Hsec & _ & Hfb & _ & Hiu & _ & Hsz).
  cbv zeta in Hs, Hsec, Hfb, Hiu, Hsz. rewrite Hv in Hs, Hsec, Hfb, Hiu, Hsz.
  rewrite Hs, Hsig.
  change (list_eqb hdd_SIGNATURE_STRUCTURED_DISK_V2 hdd_SIGNATURE_STRUCTURED_DISK_V1) with false.
  change (list_eqb hdd_SIGNATURE_STRUCTURED_DISK_V2 hdd_SIGNATURE_STRUCTURED_DISK_V2) with true.
  cbn [orb negb]. eexists. split; [reflexivity|].
  cbn [hm_v2 hm_size hm_cluster_size hm_data_offset hm_in_use negb].
  rewrite Hsz, Hsec, Hfb, Hiu. repeat split; reflexivity.
Qed.

(* a version-1 header: the 32-bit size field is the one exposed *)
Theorem hds_open_v1 r post :
  wf_vals hdd_v1_layout r -> vbytes r "m_Sig" = hdd_SIGNATURE_STRUCTURED_DISK_V1 ->
  exists m, hds_open (buf_reader (encode_struct hdd_big_endian hdd_v1_layout r ++ post)) = Ok m /\
            hm_v2 m = false /\
            hm_size m = vint r "m_SizeInSectors_v1" * hdd_SECTOR_SIZE /\
            hm_cluster_size m = vint r "m_Sectors" * hdd_SECTOR_SIZE /\
            hm_data_offset m = vint r "m_FirstBlockOffset" /\
            hm_in_use m = (vint r "m_DiskInUse" =? hdd_SIGNATURE_DISK_IN_USE).
Proof.
  intros Hw Hsig.
  pose proof (encode_struct_len hdd_big_endian hdd_v1_layout 0 r eq_refl Hw) as Hl.
  change (layout_size hdd_v1_layout) with 64 in *.
  set (enc := encode_struct hdd_big_endian hdd_v1_layout r) in *.
  unfold hds_open, read_struct, read_exact.
  change hdd_pvd_header_size with 64.
  assert (Hrd : buf_reader (enc ++ post) 0 64 = enc).
  { apply (buf_reader_mid [] enc post); [reflexivity|now rewrite Hl]. }
  rewrite Hrd, Hl. cbn [Z.ltb Z.compare Pos.compare Pos.compare_cont bind].
  unfold decode_struct. rewrite Hl.
  cbn [Z.ltb Z.compare Pos.compare Pos.compare_cont of_option bind].
  assert (Hv : map (fun f => (f_name f, decode_field hdd_big_endian f enc)) hdd_v1_layout = r).
  { rewrite <- (app_nil_r enc). unfold enc.
    pose proof (struct_roundtrip hdd_big_endian hdd_v1_layout r [] eq_refl Hw) as H0.
    unfold decode_struct in H0. rewrite zlen_app in H0. fold enc in H0. rewrite Hl in H0.
    cbn in H0. now injection H0. }
  destruct (hds_views_agree enc) as (Hs & _ & Hsec & _ & Hfb & _ & Hiu & _ & Hsz & _).
  cbv zeta in Hs, Hsec, Hfb, Hiu, Hsz. rewrite Hv in Hs, Hsec, Hfb, Hiu, Hsz.
  rewrite Hs, Hsig.
  change (list_eqb hdd_SIGNATURE_STRUCTURED_DISK_V1 hdd_SIGNATURE_STRUCTURED_DISK_V1) with true.
  cbn [orb negb]. eexists. split; [reflexivity|].
  cbn [hm_v2 hm_size hm_cluster_size hm_data_offset hm_in_use negb].
  rewrite Hsz, Hsec, Hfb, Hiu. repeat split; reflexivity.
Qed.

(* ---------- VMDK embedded descriptor: the text ends at the first NUL ---------- *)
Lemma until_nul_text text rest :
  forallb (fun c => negb (c =? 0)) text = true -> until_nul (text ++ 0 :: rest) = text.
Proof.
  induction text as [|c text IH]; intros H; cbn [app until_nul].
  - reflexivity.
  - cbn [forallb] in H. apply andb_prop in H as [Hc Ht].
    destruct (c =? 0); [discriminate|]. now rewrite (IH Ht).
Qed.

Lemma until_nul_full text :
  forallb (fun c => negb (c =? 0)) text = true -> until_nul text = text.
Proof.
  induction text as [|c text IH]; intros H; cbn [until_nul]; [reflexivity|].
  cbn [forallb] in H. apply andb_prop in H as [Hc Ht].
  destruct (c =? 0); [discriminate|]. now rewrite (IH Ht).
Qed.
