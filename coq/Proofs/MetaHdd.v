(* Proofs/MetaHdd.v — Parallels DiskDescriptor.xml: what Descriptor exposes for a rendered
   document is the stored record (storages, images, shots, and TopGUID when present). *)
From Coq Require Import String ZArith List Bool Lia.
From DH Require Import Base.Plan Gen.MetaHddTables Model.MetaCodec Model.MetaHdd.
Import ListNotations.
Open Scope list_scope.
Open Scope Z_scope.

Lemma list_eqb_refl l : list_eqb l l = true.
Proof. induction l as [|x l IH]; cbn; [reflexivity|]. now rewrite Z.eqb_refl. Qed.

Lemma x_find_hd t s k r : x_find t (El t s k :: r) = Some (El t s k).
Proof. cbn [x_find x_tag]. now rewrite list_eqb_refl. Qed.

Lemma x_find_skip t e r : list_eqb (x_tag e) t = false -> x_find t (e :: r) = x_find t r.
Proof. intros H. cbn [x_find]. now rewrite H. Qed.

Lemma filter_skip t e r : list_eqb (x_tag e) t = false -> x_iterfind t (e :: r) = x_iterfind t r.
Proof. intros H. unfold x_iterfind. cbn [filter]. now rewrite H. Qed.

Ltac xf := repeat first [rewrite x_find_hd | rewrite x_find_skip by reflexivity
                        | rewrite filter_skip by reflexivity].

Section Roundtrip.
  Variables (int_of uuid_of : list Z -> option Z) (int_text uuid_text : Z -> list Z).
  Hypothesis int_rt : forall n, int_of (int_text n) = Some n.
  Hypothesis uuid_rt : forall g, uuid_of (uuid_text g) = Some g.

  Let image_x := image_x uuid_text.
  Let storage_x := storage_x int_text uuid_text.
  Let shot_x := shot_x uuid_text.

  Lemma image_rt i : image_of uuid_of (image_x i) = Ok i.
  Proof.
    destruct i as [g t f]. unfold image_of, image_x, MetaHdd.image_x. cbn [x_kids pi_guid pi_type pi_file].
    unfold child_val, child_text, leaf. xf. cbn [x_text].
    rewrite uuid_rt. reflexivity.
  Qed.

  Lemma mapM_map {A B} (f : A -> res B) (g : B -> A) l :
    (forall b, f (g b) = Ok b) -> mapM f (map g l) = Ok l.
  Proof.
    intros H. induction l as [|b l IH]; [reflexivity|]. cbn [map mapM]. rewrite H, IH. reflexivity.
  Qed.

  Lemma iterfind_all t (g : xml -> bool) l :
    (forall e, In e l -> list_eqb (x_tag e) t = true) -> x_iterfind t l = l.
  Proof.
    intros H. unfold x_iterfind. induction l as [|e l IH]; [reflexivity|].
    cbn [filter]. rewrite (H e (or_introl eq_refl)). f_equal. apply IH. intros e' He'. apply H. now right.
  Qed.

  Lemma iterfind_images l : x_iterfind (tag "Image") (map image_x l) = map image_x l.
  Proof.
    apply (iterfind_all _ (fun _ => true)). intros e He. apply in_map_iff in He as (i & <- & _). reflexivity.
  Qed.

  Lemma storage_rt s : storage_of int_of uuid_of (storage_x s) = Ok s.
  Proof.
    destruct s as [a b ims]. unfold storage_of, storage_x, MetaHdd.storage_x.
    cbn [x_kids ps_start ps_end ps_images app].
    unfold child_val, leaf. xf. cbn [x_text].
    rewrite !int_rt. cbn [of_option bind].
    fold image_x.
    rewrite iterfind_images, (mapM_map _ _ _ image_rt). reflexivity.
  Qed.

  Lemma shot_rt s : shot_of uuid_of (shot_x s) = Ok s.
  Proof.
    destruct s as [g p]. unfold shot_of, shot_x, MetaHdd.shot_x. cbn [x_kids sh_guid sh_parent].
    unfold child_val, leaf. xf. cbn [x_text].
    rewrite !uuid_rt. reflexivity.
  Qed.

  Lemma iterfind_storages l : x_iterfind (tag "Storage") (map storage_x l) = map storage_x l.
  Proof.
    apply (iterfind_all _ (fun _ => true)). intros e He. apply in_map_iff in He as (i & <- & _). reflexivity.
  Qed.

  Lemma iterfind_shots l : x_iterfind (tag "Shot") (map shot_x l) = map shot_x l.
  Proof.
    apply (iterfind_all _ (fun _ => true)). intros e He. apply in_map_iff in He as (i & <- & _). reflexivity.
  Qed.

  Lemma find_top_shots l : x_find (tag "TopGUID") (map shot_x l) = None.
  Proof.
    induction l as [|s l IH]; [reflexivity|]. cbn [map x_find]. unfold shot_x at 1, MetaHdd.shot_x. cbn [x_tag].
    replace (list_eqb (tag "Shot") (tag "TopGUID")) with false by reflexivity. exact IH.
  Qed.

  (* the document writer followed by Descriptor.__init__ is the identity on records:
     any number of storages, images and shots, any texts, TopGUID present or absent *)
  Theorem hdd_descriptor_roundtrip d :
    desc_of int_of uuid_of (desc_x int_text uuid_text d) = Ok d.
  Proof.
    destruct d as [sts top shots]. unfold desc_of, desc_x. cbn [x_kids pd_storages pd_top pd_shots].
    xf. cbn [x_kids].
    fold storage_x. rewrite iterfind_storages, (mapM_map _ _ _ storage_rt). cbn [bind].
    fold shot_x.
    destruct top as [g|]; cbn [app].
    - unfold top_of, leaf. xf. cbn [x_text]. rewrite uuid_rt. cbn [of_option bind].
      rewrite iterfind_shots, (mapM_map _ _ _ shot_rt). reflexivity.
    - unfold top_of. rewrite find_top_shots. cbn [bind].
      rewrite iterfind_shots, (mapM_map _ _ _ shot_rt). reflexivity.
  Qed.

  (* TopGUID is exposed exactly when the document stores one *)
  Corollary top_guid_exposed d m :
    desc_of int_of uuid_of (desc_x int_text uuid_text d) = Ok m -> pd_top m = pd_top d.
  Proof. rewrite hdd_descriptor_roundtrip. now intros [= <-]. Qed.
End Roundtrip.

(* the executable text codecs of the model meet the hypotheses on concrete values *)
Example py_uuid_example :
  py_uuid (tag "{5fbaabe3-6958-40ff-92a7-860e329aab41}") = Some 127245913124692219487724996241204620097 /\
  py_uuid (tag "5FBAABE3695840FF92A7860E329AAB41") = Some 127245913124692219487724996241204620097 /\
  py_int (tag " +0012 ") = Some 12.
Proof. repeat split; vm_compute; reflexivity. Qed.

(* the element names the model looks up are exactly those hdd.py looks up (generated list) *)
Lemma hdd_tags_tied :
  let used := [tag "StorageData"; tag "Snapshots"; tag "Storage"; tag "Start"; tag "End"; tag "Image"; tag "GUID";
               tag "Type"; tag "File"; tag "TopGUID"; tag "Shot"; tag "ParentGUID"] in
  forallb (fun t => existsb (list_eqb t) meta_hdd_tags) used = true /\
  forallb (fun t => existsb (list_eqb t) used) meta_hdd_tags = true.
Proof. split; vm_compute; reflexivity. Qed.
