(* Proofs/Qcow2.v — count_contiguous_subclusters, _yield_runs and _read refine Spec/Qcow2.v. *)
From Coq Require Import ZArith List Bool Lia.
From DH Require Import Base.Arith Base.Plan Base.Table.
From DH Require Import Gen.Consts Gen.Enums Gen.Qcow2Fun.
From DH Require Import Spec.Qcow2 Model.Qcow2 Proofs.Qcow2Bits Proofs.Qcow2Class.
Import ListNotations.
Open Scope Z_scope.

Lemma bind_ok {A B} (r : res A) (f : A -> res B) b :
  bind r f = Ok b -> exists a, r = Ok a /\ f a = Ok b.
Proof. destruct r; cbn [bind]; try discriminate. eauto. Qed.

Lemma ok_inj_gen {A} (a b : A) : Ok a = Ok b -> a = b.
Proof. intros H. injection H. auto. Qed.

Lemma pos_split p S i : 0 < S -> i * S <= p < i * S + S -> p / S = i /\ p mod S = p - i * S.
Proof.
  intros HS Hp. replace p with (i * S + (p - i * S)) at 1 2 by lia.
  split; [apply div_mul_add | apply mod_mul_add]; lia.
Qed.

Lemma mul16_div8 x : x * 16 / 8 = 2 * x.
Proof. replace (x * 16) with (2 * x * 8) by lia. apply Z.div_mul. lia. Qed.
Lemma mul8_div8 x : x * 8 / 8 = x.
Proof. apply Z.div_mul. lia. Qed.

(* ================================================================== *)
(* G. count_contiguous_subclusters                                    *)
(* ================================================================== *)
Section Count.
  Variables (q : geom) (cb : Z) (ext df : bool).
  Hypothesis G : geom_ok q cb ext df.
  Hypothesis Hcb : 9 <= cb <= 21.
  Variable t : Z -> option Z.
  Variable l2_index : Z.

  Let S := if ext then 32 else 1.
  Lemma S_pos : 0 < S. Proof. unfold S; destruct ext; lia. Qed.
  Lemma spc_S : g_subclusters_per_cluster q = S. Proof. apply (gk_spc _ _ _ _ G). Qed.

  (* sub-cluster position p (counted from the first cluster of the run) has type ty, and for
     host-backed types its cluster continues the host range that starts at m0 *)
  Definition at_pos (ty m0 p : Z) : Prop :=
    exists e bm,
      l2_entry q t (l2_index + p / S) = Ok e /\ l2_bitmap q t (l2_index + p / S) = Ok bm /\
      get_subcluster_type q e bm (p mod S) = Ok ty /\
      (is_in ty check_offset_types = true ->
       Z.land e qcow2_L2E_OFFSET_MASK = m0 + (p / S) * g_cluster_size q).

  Variables (sc_index ety m0 : Z).
  Hypothesis Hsc : 0 <= sc_index < S.

  Lemma ccs_loop_sound k : forall i count eoff chk r,
    1 <= i -> count = i * S - sc_index ->
    chk = is_in ety check_offset_types ->
    (chk = true -> eoff = m0 + (i - 1) * g_cluster_size q) ->
    ccs_loop q t l2_index k i count ety eoff chk = Ok r ->
    count <= r /\ r + sc_index <= (i + Z.of_nat k) * S /\
    forall p, count + sc_index <= p < r + sc_index -> at_pos ety m0 p.
  Proof.
    pose proof S_pos as HS.
    induction k as [|k IH]; intros i count eoff chk r Hi Hcount Hchk Heoff Hrun.
    - cbn [ccs_loop] in Hrun. injection Hrun as <-. split; [lia|]. split; [nia|]. intros; lia.
    - cbn [ccs_loop] in Hrun.
      apply bind_ok in Hrun. destruct Hrun as (e & He & Hrun).
      apply bind_ok in Hrun. destruct Hrun as (bm & Hbm & Hrun).
      apply bind_ok in Hrun. destruct Hrun as ([ty n] & Hgrt & Hrun).
      destruct (grt_sound q cb ext df e bm 0 ty n G ltac:(fold S; lia) Hgrt) as (Hv & Hn1 & HnS & _ & Hall).
      fold S in HnS.
      destruct (Z.eqb_spec ty ety) as [->|Hne]; cbn [negb] in Hrun.
      2:{ injection Hrun as <-. split; [lia|]. split; [nia|]. intros; lia. }
      set (eoff' := if chk then eoff + g_cluster_size q else eoff) in *.
      destruct (chk && negb (eoff' =? Z.land e qcow2_L2E_OFFSET_MASK)) eqn:Hoff.
      { injection Hrun as <-. split; [lia|]. split; [nia|]. intros; lia. }
      assert (Hm : chk = true -> Z.land e qcow2_L2E_OFFSET_MASK = m0 + i * g_cluster_size q).
      { intros Hc. rewrite Hc in Hoff. cbn [andb] in Hoff. apply negb_false_iff, Z.eqb_eq in Hoff.
        rewrite <- Hoff. unfold eoff'. rewrite Hc. rewrite (Heoff Hc). lia. }
      (* the sub-clusters of this cluster *)
      assert (Hhere : forall p, i * S <= p < i * S + n -> at_pos ety m0 p).
      { intros p Hp. destruct (pos_split p S i HS ltac:(lia)) as [Hd Hr].
        exists e, bm. rewrite Hd, Hr. repeat split; try assumption.
        - apply Hall. lia.
        - intros Hc. apply Hm. congruence. }
      rewrite spc_S in Hrun.
      destruct (Z.ltb_spec (0 + n) S) as [Hlt|Hge].
      + injection Hrun as <-. split; [lia|]. split; [nia|].
        intros p Hp. apply Hhere. lia.
      + assert (n = S) by lia. subst n.
        specialize (IH (i + 1) (count + S) eoff' chk r ltac:(lia) ltac:(lia) Hchk).
        destruct IH as (Hr1 & Hr2 & Hr3); [|exact Hrun|].
        { intros Hc. unfold eoff'. rewrite Hc. rewrite (Heoff Hc). lia. }
        split; [lia|]. split; [lia|].
        intros p Hp. destruct (Z.lt_ge_cases p (count + S + sc_index)) as [Hl|Hg].
        * apply Hhere. lia.
        * apply Hr3. lia.
  Qed.

  Lemma ccs_sound nb e0 bm0 count :
    l2_entry q t l2_index = Ok e0 -> l2_bitmap q t l2_index = Ok bm0 ->
    get_subcluster_type q e0 bm0 sc_index = Ok ety ->
    m0 = Z.land e0 qcow2_L2E_OFFSET_MASK ->
    0 < nb ->
    count_contiguous_subclusters q nb sc_index t l2_index = Ok count ->
    valid_type ety /\ 1 <= count /\ count + sc_index <= nb * S /\
    (ety = T_COMPRESSED -> count + sc_index = S) /\
    forall p, sc_index <= p < count + sc_index -> at_pos ety m0 p.
  Proof.
    pose proof S_pos as HS.
    intros He0 Hbm0 Hty Hm0 Hnb Hrun. unfold count_contiguous_subclusters in Hrun.
    destruct (Z.leb_spec nb 0); [lia|].
    rewrite He0, Hbm0 in Hrun. cbn [bind] in Hrun.
    apply bind_ok in Hrun. destruct Hrun as ([ty n] & Hgrt & Hrun).
    destruct (grt_sound q cb ext df e0 bm0 sc_index ty n G ltac:(fold S; lia) Hgrt)
      as (Hv & Hn1 & HnS & Hcomp & Hall).
    fold S in HnS, Hcomp.
    assert (ty = ety).
    { specialize (Hall sc_index ltac:(lia)). rewrite Hty in Hall. now injection Hall. }
    subst ty.
    assert (Hhere : forall p, sc_index <= p < sc_index + n -> at_pos ety m0 p).
    { intros p Hp. destruct (pos_split p S 0 HS ltac:(lia)) as [Hd Hr].
      exists e0, bm0. rewrite Hd, Hr, Z.add_0_r, Z.sub_0_r. repeat split; try assumption.
      - apply Hall. lia.
      - intros _. lia. }
    destruct (Z.eqb_spec ety T_COMPRESSED) as [Hc|Hnc].
    { injection Hrun as <-. split; [exact Hv|]. split; [lia|]. split; [nia|]. split; [intros; lia|].
      intros p Hp. apply Hhere. lia. }
    rewrite spc_S in Hrun.
    destruct (Z.ltb_spec (sc_index + n) S) as [Hlt|Hge].
    { injection Hrun as <-. split; [exact Hv|]. split; [lia|]. split; [nia|]. split; [intros; contradiction|].
      intros p Hp. apply Hhere. lia. }
    destruct (ccs_loop_sound (Z.to_nat (nb - 1)) 1 n (Z.land e0 qcow2_L2E_OFFSET_MASK)
                (is_in ety check_offset_types) count ltac:(lia) ltac:(lia) eq_refl ltac:(intros; lia) Hrun)
      as (Hr1 & Hr2 & Hr3).
    split; [exact Hv|]. split; [lia|]. split; [rewrite Z2Nat.id in Hr2 by lia; lia|].
    split; [intros; contradiction|].
    intros p Hp. destruct (Z.lt_ge_cases p (sc_index + n)) as [Hl|Hg].
    - apply Hhere. lia.
    - apply Hr3. lia.
  Qed.
End Count.

(* ---------- the helper functions never run out of fuel (they have none) ---------- *)
Lemma of_option_not_fuel {A} (o : option A) : of_option o <> Fuel.
Proof. destruct o; discriminate. Qed.

Lemma l2_entry_not_fuel q t i : l2_entry q t i <> Fuel.
Proof. apply of_option_not_fuel. Qed.

Lemma l2_bitmap_not_fuel q t i : l2_bitmap q t i <> Fuel.
Proof. unfold l2_bitmap. destruct (g_has_subclusters q); [apply of_option_not_fuel|discriminate]. Qed.

Lemma gst_not_fuel q e bm s : get_subcluster_type q e bm s <> Fuel.
Proof.
  unfold get_subcluster_type. cbv zeta.
  repeat match goal with |- context [if ?c then _ else _] => destruct c end; discriminate.
Qed.

Lemma grt_not_fuel q e bm s : get_subcluster_range_type q e bm s <> Fuel.
Proof.
  unfold get_subcluster_range_type. pose proof (gst_not_fuel q e bm s) as H.
  destruct (get_subcluster_type q e bm s); cbn [bind]; try discriminate; try congruence.
  cbv zeta. repeat match goal with |- context [if ?c then _ else _] => destruct c end; discriminate.
Qed.

Lemma ccs_loop_not_fuel q t l2i k : forall i count ety eoff chk,
  ccs_loop q t l2i k i count ety eoff chk <> Fuel.
Proof.
  induction k as [|k IH]; intros; cbn [ccs_loop]; [discriminate|].
  pose proof (l2_entry_not_fuel q t (l2i + i)) as H1.
  destruct (l2_entry q t (l2i + i)) as [e| |]; cbn [bind]; try discriminate; try congruence.
  pose proof (l2_bitmap_not_fuel q t (l2i + i)) as H2.
  destruct (l2_bitmap q t (l2i + i)) as [bm| |]; cbn [bind]; try discriminate; try congruence.
  pose proof (grt_not_fuel q e bm 0) as H3.
  destruct (get_subcluster_range_type q e bm 0) as [[ty n]| |]; cbn [bind]; try discriminate; try congruence.
  destruct (negb (ty =? ety)); [discriminate|].
  destruct (chk && _); [discriminate|].
  destruct (0 + n <? g_subclusters_per_cluster q); [discriminate|]. apply IH.
Qed.

Lemma ccs_not_fuel q nb sc t l2i : count_contiguous_subclusters q nb sc t l2i <> Fuel.
Proof.
  unfold count_contiguous_subclusters. destruct (nb <=? 0); [discriminate|].
  pose proof (l2_entry_not_fuel q t l2i) as H1.
  destruct (l2_entry q t l2i) as [e| |]; cbn [bind]; try discriminate; try congruence.
  pose proof (l2_bitmap_not_fuel q t l2i) as H2.
  destruct (l2_bitmap q t l2i) as [bm| |]; cbn [bind]; try discriminate; try congruence.
  pose proof (grt_not_fuel q e bm sc) as H3.
  destruct (get_subcluster_range_type q e bm sc) as [[ty n]| |]; cbn [bind]; try discriminate; try congruence.
  destruct (ty =? T_COMPRESSED); [discriminate|].
  destruct (sc + n <? g_subclusters_per_cluster q); [discriminate|]. apply ccs_loop_not_fuel.
Qed.

(* ================================================================== *)
(* H. the opened image and the specification's view of it             *)
(* ================================================================== *)
Section Image.
  Variable im : image.
  Let sim := spec_of im.
  Let cb := h_cluster_bits (i_hdr im).
  Let q := geo im.
  Let ext := ext_l2 sim.
  Let df := ext_data sim.

  Hypothesis Hver : h_version (i_hdr im) = 2 \/ h_version (i_hdr im) = 3.
  Hypothesis Hcb : 9 <= cb <= 21.
  (* the L1 list has l1_size entries *)
  Hypothesis Hl1 : forall i, h_l1_size (i_hdr im) <= i -> i_l1 im i = None.

  (* QCow2.__init__ on a version-2 header ignores the bytes after byte 72 (fixes/C01-v2-header) *)
  Lemma hd_fields :
    h_cluster_bits (hd im) = cb /\ h_l1_size (hd im) = h_l1_size (i_hdr im) /\
    h_size (hd im) = h_size (i_hdr im) /\
    has_subclusters (hd im) = ext /\ has_data_file (hd im) = df.
  Proof.
    unfold hd, v2_fix, ext, df, ext_l2, ext_data, feature, sim, spec_of. cbn [s_version s_features].
    destruct (Z.eqb_spec (h_version (i_hdr im)) 2) as [H2|H2].
    - rewrite H2. cbn. repeat split; reflexivity.
    - assert (H3 : h_version (i_hdr im) = 3) by (destruct Hver; congruence).
      rewrite H3. cbn [Z.leb Z.compare Pos.compare Pos.compare_cont andb].
      unfold has_subclusters, has_data_file.
      change qcow2_QCOW2_INCOMPAT_EXTL2 with (2 ^ 4). change qcow2_QCOW2_INCOMPAT_DATA_FILE with (2 ^ 2).
      rewrite !land_pow2_eqb, !negb_involutive by lia. repeat split; reflexivity.
  Qed.

  Lemma geo_ok : geom_ok q cb ext df.
  Proof.
    destruct hd_fields as (H1 & _ & _ & H4 & H5).
    unfold q, geo. rewrite <- H1, <- H4, <- H5. apply open_geom_ok. rewrite H1. exact Hcb.
  Qed.

  Let L := l2b cb ext.      (* log2 of the number of entries of an L2 table *)
  Let S := if ext then 32 else 1.
  Let B := scb cb ext.      (* log2 of the sub-cluster size *)

  Lemma L_pos : 0 <= L. Proof. unfold L, l2b. destruct ext; lia. Qed.
  Lemma B_pos : 0 <= B. Proof. unfold B, scb. destruct ext; lia. Qed.
  Lemma S_B : 2 ^ B * S = 2 ^ cb.
  Proof.
    unfold B, scb, S. destruct ext; [|lia].
    change 32 with (2 ^ 5). rewrite <- Z.pow_add_r by lia. f_equal. lia.
  Qed.

  Lemma spec_cluster_size : cluster_size sim = 2 ^ cb.
  Proof. reflexivity. Qed.

  Lemma spec_l2_entries : l2_entries sim = 2 ^ L.
  Proof.
    unfold l2_entries. rewrite spec_cluster_size. fold ext. unfold L, l2b. destruct ext.
    - change 16 with (2 ^ 4). replace (2 ^ cb) with (2 ^ (cb - 4) * 2 ^ 4) by (rewrite <- Z.pow_add_r by lia; f_equal; lia).
      apply Z.div_mul. lia.
    - change 8 with (2 ^ 3). replace (2 ^ cb) with (2 ^ (cb - 3) * 2 ^ 3) by (rewrite <- Z.pow_add_r by lia; f_equal; lia).
      apply Z.div_mul. lia.
  Qed.

  Lemma spec_subcluster_size : subcluster_size sim = 2 ^ (cb - 5).
  Proof.
    unfold subcluster_size. rewrite spec_cluster_size.
    change 32 with (2 ^ 5). replace (2 ^ cb) with (2 ^ (cb - 5) * 2 ^ 5) by (rewrite <- Z.pow_add_r by lia; f_equal; lia).
    apply Z.div_mul. lia.
  Qed.

  (* Spec.guest_src, split at the table lookups *)
  Lemma guest_src_no_l2 o :
    (i_l1 im (o / 2 ^ cb / 2 ^ L) = None \/
     exists l1e, i_l1 im (o / 2 ^ cb / 2 ^ L) = Some l1e /\ Z.land l1e qcow2_L1E_OFFSET_MASK = 0) ->
    guest_src im o = unallocated sim o.
  Proof.
    intros H. unfold guest_src, Spec.Qcow2.guest_src. fold sim. cbv zeta.
    rewrite spec_l2_entries, spec_cluster_size.
    change (s_l1 sim) with (i_l1 im).
    destruct H as [-> | (l1e & -> & Hz)]; [reflexivity|].
    rewrite l1e_offset in Hz. rewrite Hz. reflexivity.
  Qed.

  Lemma guest_src_l2 o l1e :
    i_l1 im (o / 2 ^ cb / 2 ^ L) = Some l1e -> Z.land l1e qcow2_L1E_OFFSET_MASK <> 0 ->
    let t := i_l2 im (Z.land l1e qcow2_L1E_OFFSET_MASK) in
    let idx := (o / 2 ^ cb) mod 2 ^ L in
    guest_src im o =
    if ext then match t (2 * idx), t (2 * idx + 1) with
                | Some e, Some bm => ext_entry_src sim e bm o
                | _, _ => Zero
                end
    else match t idx with Some e => std_entry_src sim e o | None => Zero end.
  Proof.
    intros H1 Hnz t idx. unfold guest_src, Spec.Qcow2.guest_src. fold sim. cbv zeta.
    rewrite spec_l2_entries, spec_cluster_size.
    change (s_l1 sim) with (i_l1 im). change (s_l2 sim) with (i_l2 im). rewrite H1.
    rewrite l1e_offset in Hnz. destruct (Z.eqb_spec (field l1e 9 47 * 512) 0) as [|_]; [contradiction|].
    fold ext. unfold t, idx. rewrite l1e_offset. reflexivity.
  Qed.

  (* the sub-cluster index the reader computes is the one the specification uses *)
  Lemma sc_index_spec o : ext = true ->
    (o / 2 ^ B) mod S = (o mod 2 ^ cb) / 2 ^ (cb - 5).
  Proof.
    intros Hx. unfold B, scb, S. rewrite Hx.
    assert (Hp : 0 < 2 ^ (cb - 5)) by (apply pow2_pos; lia).
    replace (2 ^ cb) with (2 ^ (cb - 5) * 32).
    2:{ change 32 with (2 ^ 5). rewrite <- Z.pow_add_r by lia. f_equal. lia. }
    rewrite Z.rem_mul_r by lia.
    rewrite (Z.mul_comm (2 ^ (cb - 5))). rewrite Z.add_comm.
    rewrite div_mul_add; [reflexivity|lia|]. apply Z.mod_pos_bound. lia.
  Qed.

  (* one guest byte: from the reader's lookups and classification to the specification *)
  Lemma byte_src o l1e e bm ty :
    i_l1 im (o / 2 ^ cb / 2 ^ L) = Some l1e -> Z.land l1e qcow2_L1E_OFFSET_MASK <> 0 ->
    let t := i_l2 im (Z.land l1e qcow2_L1E_OFFSET_MASK) in
    let idx := (o / 2 ^ cb) mod 2 ^ L in
    l2_entry q t idx = Ok e -> l2_bitmap q t idx = Ok bm ->
    get_subcluster_type q e bm ((o / 2 ^ B) mod S) = Ok ty -> valid_type ty ->
    guest_src im o = src_of_type sim ty e o.
  Proof.
    intros H1 Hnz t idx He Hbm Hty Hv.
    rewrite (guest_src_l2 o l1e H1 Hnz). fold t idx.
    pose proof geo_ok as G.
    unfold l2_entry in He. unfold l2_bitmap in Hbm.
    rewrite (gk_es _ _ _ _ G) in He, Hbm. rewrite (gk_ext _ _ _ _ G) in Hbm.
    pose proof spec_subcluster_size as Hss. pose proof (sc_index_spec o) as Hsi.
    pose proof spec_cluster_size as Hcs.
    assert (HS : 0 < S) by (unfold S; destruct ext; lia).
    destruct ext eqn:Hx.
    - rewrite mul16_div8 in He, Hbm.
      destruct (t (2 * idx)) as [e'|]; [|discriminate]. injection He as ->.
      destruct (t (2 * idx + 1)) as [bm'|]; [|discriminate]. injection Hbm as ->.
      eapply ext_type_src with (q := q) (s := (o / 2 ^ B) mod S).
      + apply (gk_ext _ _ _ _ G).
      + apply (gk_df _ _ _ _ G).
      + rewrite Hcs, Hss. apply Hsi. reflexivity.
      + apply Z.mod_pos_bound. exact HS.
      + exact Hty.
      + intros ->. destruct Hv as [_ Hv]. vm_compute in Hv. contradiction.
    - rewrite mul8_div8 in He.
      destruct (t idx) as [e'|]; [|discriminate]. injection He as ->.
      eapply std_type_src with (q := q).
      + apply (gk_ext _ _ _ _ G).
      + apply (gk_df _ _ _ _ G).
      + exact Hty.
  Qed.

  (* ================================================================ *)
  (* I. one iteration of _yield_runs                                  *)
  (* ================================================================ *)
  Lemma split_off offset j :
    (offset + j) / 2 ^ cb = offset / 2 ^ cb + (offset mod 2 ^ cb + j) / 2 ^ cb /\
    (offset + j) mod 2 ^ cb = (offset mod 2 ^ cb + j) mod 2 ^ cb.
  Proof.
    assert (Hp : 0 < 2 ^ cb) by (apply pow2_pos; lia).
    pose proof (Z.div_mod offset (2 ^ cb) ltac:(lia)) as Hdm.
    replace (offset + j) with (offset / 2 ^ cb * 2 ^ cb + (offset mod 2 ^ cb + j)) by lia.
    split.
    - rewrite Z.div_add_l by lia. reflexivity.
    - rewrite Z.add_comm, Z.mod_add by lia. reflexivity.
  Qed.

  Lemma same_table c0 x :
    0 <= x -> x < (2 ^ L - c0 mod 2 ^ L) * 2 ^ cb ->
    (c0 + x / 2 ^ cb) / 2 ^ L = c0 / 2 ^ L /\
    (c0 + x / 2 ^ cb) mod 2 ^ L = c0 mod 2 ^ L + x / 2 ^ cb.
  Proof.
    intros Hx Hlt. pose proof L_pos.
    assert (Hp : 0 < 2 ^ cb) by (apply pow2_pos; lia).
    assert (HpL : 0 < 2 ^ L) by (apply pow2_pos; lia).
    apply unit_step; [lia| apply Z.div_pos; lia |].
    apply Z.div_lt_upper_bound; [lia|]. lia.
  Qed.

  Lemma mod_div_swap o b s : 0 < b -> 0 < s -> (o mod (b * s)) / b = (o / b) mod s.
  Proof.
    intros Hb Hs. rewrite Z.rem_mul_r by lia.
    rewrite (Z.mul_comm b), Z.add_comm. apply div_mul_add; [lia|]. apply Z.mod_pos_bound. lia.
  Qed.

  Lemma srcs_single s : srcs_of [s] = srcs_of_seg s.
  Proof. unfold srcs_of. cbn [flat_map]. apply app_nil_r. Qed.

  Section Step.
    Variables (offset length : Z).
    Hypothesis Hoff : 0 <= offset.
    Hypothesis Hlen : 0 < length.
    Let cs := 2 ^ cb.
    Let oic := offset mod cs.
    Let c0 := offset / cs.
    Let l2i := c0 mod 2 ^ L.
    Let bn := Z.min (length + oic) ((2 ^ L - l2i) * cs).

    Lemma step_bounds : 0 < cs /\ 0 <= oic < cs /\ 0 <= l2i < 2 ^ L /\ oic < bn /\ bn - oic <= length /\
                        bn <= (2 ^ L - l2i) * cs.
    Proof.
      pose proof L_pos.
      assert (Hp : 0 < cs) by (apply pow2_pos; lia).
      assert (HpL : 0 < 2 ^ L) by (apply pow2_pos; lia).
      pose proof (Z.mod_pos_bound offset cs Hp). pose proof (Z.mod_pos_bound c0 (2 ^ L) HpL).
      fold oic in H0. fold l2i in H1.
      assert (cs <= (2 ^ L - l2i) * cs) by nia.
      unfold bn. repeat split; lia.
    Qed.

    (* what the translated index helpers compute for this offset *)
    Lemma step_indices :
      offset_into_cluster q offset = oic /\ offset_to_l2_index q offset = l2i /\
      offset_to_l1_index q offset = c0 / 2 ^ L /\
      offset_to_sc_index q offset = (offset / 2 ^ B) mod S /\
      Z.shiftl (g_l2_size q - offset_to_l2_index q offset) (g_cluster_bits q) = (2 ^ L - l2i) * cs.
    Proof.
      pose proof geo_ok as G. pose proof L_pos.
      rewrite (into_cluster_eq q cb ext df G Hcb), (l2_index_eq q cb ext df G Hcb),
              (l1_index_eq q cb ext df G Hcb), (sc_index_eq q cb ext df G Hcb).
      repeat split; try reflexivity.
      rewrite (gk_l2s _ _ _ _ G), (gk_cb _ _ _ _ G). rewrite Z.shiftl_mul_pow2 by lia. reflexivity.
    Qed.

    (* every byte of the step lies in the L2 table of the first one *)
    Lemma step_table j : 0 <= j -> oic + j < (2 ^ L - l2i) * cs ->
      (offset + j) / cs / 2 ^ L = c0 / 2 ^ L /\
      ((offset + j) / cs) mod 2 ^ L = l2i + (oic + j) / cs /\
      (offset + j) mod cs = (oic + j) mod cs.
    Proof.
      intros Hj Hlt. destruct (split_off offset j) as [Hd Hm]. fold cs oic c0 in Hd, Hm.
      destruct step_bounds as (Hcs & Hoic & _).
      destruct (same_table c0 (oic + j) ltac:(lia) Hlt) as [H1 H2]. fold cs in H1, H2.
      rewrite Hd, H1, H2, Hm. repeat split; reflexivity.
    Qed.

    Lemma unalloc_step :
      (i_l1 im (c0 / 2 ^ L) = None \/
       exists l1e, i_l1 im (c0 / 2 ^ L) = Some l1e /\ Z.land l1e qcow2_L1E_OFFSET_MASK = 0) ->
      let rc := bn - oic in
      0 < rc <= length /\
      srcs_of (seg_of_run im (T_UNALLOC_PLAIN, offset, 0, rc)) = map (guest_src im) (zseq offset rc).
    Proof.
      intros Hl rc. destruct step_bounds as (Hcs & Hoic & Hl2i & Hbn & Hrc & Hbn2).
      split; [unfold rc; lia|].
      assert (Hpt : forall o, offset <= o < offset + rc -> guest_src im o = unallocated sim o).
      { intros o Ho. apply guest_src_no_l2.
        destruct (step_table (o - offset) ltac:(lia) ltac:(unfold rc in Ho; lia)) as (H1 & _ & _).
        replace (offset + (o - offset)) with o in H1 by lia. fold cs. rewrite H1. exact Hl. }
      rewrite (map_ext_zseq _ _ _ _ Hpt).
      unfold seg_of_run.
      change (is_in T_UNALLOC_PLAIN qcow2_ZERO_SUBCLUSTER_TYPES) with false.
      change (is_in T_UNALLOC_PLAIN qcow2_UNALLOCATED_SUBCLUSTER_TYPES) with true.
      unfold unallocated. change (s_backing sim) with (i_backing im).
      destruct (i_backing im); cbn [negb andb orb]; rewrite srcs_single; cbn [srcs_of_seg].
      - reflexivity.
      - symmetry. apply map_const_zseq.
    Qed.

    Section Entry.
      Variables (l1e e0 bm0 ty count : Z).
      Hypothesis Hl1e : i_l1 im (c0 / 2 ^ L) = Some l1e.
      Hypothesis Hnz : Z.land l1e qcow2_L1E_OFFSET_MASK <> 0.
      Let t := i_l2 im (Z.land l1e qcow2_L1E_OFFSET_MASK).
      Let sc := (offset / 2 ^ B) mod S.
      Hypothesis He0 : l2_entry q t l2i = Ok e0.
      Hypothesis Hbm0 : l2_bitmap q t l2i = Ok bm0.
      Hypothesis Hty : get_subcluster_type q e0 bm0 sc = Ok ty.
      Hypothesis Hcount : count_contiguous_subclusters q (size_to_clusters q bn) sc t l2i = Ok count.
      Let m0 := Z.land e0 qcow2_L2E_OFFSET_MASK.
      Let rc := Z.min ((count + sc) * 2 ^ B) bn - oic.

      Lemma S_pos' : 0 < S. Proof. unfold S. destruct ext; lia. Qed.

      Lemma sc_oic : sc = oic / 2 ^ B /\ 0 <= sc < S.
      Proof.
        pose proof B_pos. pose proof S_pos'.
        assert (Hp : 0 < 2 ^ B) by (apply pow2_pos; lia).
        split; [|apply Z.mod_pos_bound; lia].
        unfold sc, oic, cs. rewrite <- S_B. symmetry. apply mod_div_swap; lia.
      Qed.

      Lemma entry_facts :
        valid_type ty /\ 1 <= count /\ (ty = T_COMPRESSED -> count + sc = S) /\
        (forall p, sc <= p < count + sc -> at_pos q ext t l2i ty m0 p) /\ 0 < rc <= length.
      Proof.
        pose proof geo_ok as G. pose proof B_pos. pose proof S_pos' as HS.
        destruct step_bounds as (Hcs & Hoic & Hl2i & Hbn & Hrc & Hbn2).
        destruct sc_oic as [Hsc Hscr].
        assert (Hp : 0 < 2 ^ B) by (apply pow2_pos; lia).
        assert (Hnb : 0 < size_to_clusters q bn).
        { rewrite (size_to_clusters_eq q cb ext df G Hcb). fold cs.
          apply Z.lt_le_trans with 1; [lia|]. apply Z.div_le_lower_bound; lia. }
        destruct (ccs_sound q cb ext df G Hcb t l2i sc ty m0 Hscr (size_to_clusters q bn) e0 bm0 count
                    He0 Hbm0 Hty eq_refl Hnb Hcount) as (Hv & Hc1 & _ & Hcomp & Hpos).
        split; [exact Hv|]. split; [exact Hc1|]. split; [exact Hcomp|]. split; [exact Hpos|].
        pose proof (Z.div_mod oic (2 ^ B) ltac:(lia)) as Hdm.
        pose proof (Z.mod_pos_bound oic (2 ^ B) Hp) as Hmb.
        rewrite <- Hsc in Hdm.
        assert (oic < (count + sc) * 2 ^ B) by nia.
        unfold rc. lia.
      Qed.

      (* the expected source of the j-th byte of the run *)
      Definition expected (j : Z) : src :=
        if is_in ty qcow2_ZERO_SUBCLUSTER_TYPES then Zero
        else if is_in ty qcow2_UNALLOCATED_SUBCLUSTER_TYPES then unallocated sim (offset + j)
        else if ty =? T_COMPRESSED then Infl (descriptor e0) (oic + j)
        else stored sim (m0 + oic + j).

      Lemma entry_byte j : 0 <= j < rc -> guest_src im (offset + j) = expected j.
      Proof.
        intros Hj. pose proof geo_ok as G. pose proof B_pos. pose proof S_pos' as HS.
        destruct step_bounds as (Hcs & Hoic & Hl2i & Hbn & Hrc & Hbn2).
        destruct sc_oic as [Hsc Hscr].
        destruct entry_facts as (Hv & Hc1 & Hcomp & Hpos & Hrcb).
        assert (Hp : 0 < 2 ^ B) by (apply pow2_pos; lia).
        set (x := oic + j).
        assert (Hx1 : x < (count + sc) * 2 ^ B) by (unfold x, rc in *; lia).
        assert (Hx2 : x < (2 ^ L - l2i) * cs) by (unfold x, rc in *; lia).
        destruct (step_table j ltac:(lia) Hx2) as (Ht1 & Ht2 & Ht3). fold x in Ht2, Ht3.
        set (p := x / 2 ^ B).
        assert (Hp1 : sc <= p < count + sc).
        { unfold p. split.
          - rewrite Hsc. apply Z.div_le_mono; unfold x; lia.
          - apply Z.div_lt_upper_bound; lia. }
        assert (Hp2 : p / S = x / cs).
        { unfold p. rewrite Z.div_div by lia. unfold cs. rewrite <- S_B. reflexivity. }
        assert (Hp3 : p mod S = ((offset + j) / 2 ^ B) mod S).
        { unfold p. pose proof (Z.div_mod offset cs ltac:(lia)) as Hdm. fold c0 oic in Hdm.
          replace (offset + j) with (c0 * S * 2 ^ B + x).
          2:{ unfold x. unfold cs in Hdm. rewrite <- S_B in Hdm. lia. }
          rewrite Z.div_add_l by lia. rewrite Z.add_comm, Z.mod_add by lia. reflexivity. }
        destruct (Hpos p Hp1) as (e & bm & He & Hbm & Hgst & Hmask).
        change (if ext then 32 else 1) with S in He, Hbm, Hgst, Hmask.
        rewrite Hp2 in He, Hbm, Hmask. rewrite Hp3 in Hgst.
        assert (Hsrc : guest_src im (offset + j) = src_of_type sim ty e (offset + j)).
        { apply byte_src with (l1e := l1e) (bm := bm).
          - fold cs. rewrite Ht1. exact Hl1e.
          - exact Hnz.
          - fold cs t. rewrite Ht2. exact He.
          - fold cs t. rewrite Ht2. exact Hbm.
          - exact Hgst.
          - exact Hv. }
        rewrite Hsrc. unfold src_of_type, expected. cbv zeta. rewrite spec_cluster_size. fold cs. rewrite Ht3.
        destruct (is_in ty qcow2_ZERO_SUBCLUSTER_TYPES) eqn:Hze; [reflexivity|].
        destruct (is_in ty qcow2_UNALLOCATED_SUBCLUSTER_TYPES) eqn:Hun; [reflexivity|].
        destruct (Z.eqb_spec ty T_COMPRESSED) as [Hc|Hnc].
        - (* compressed: the run stays inside the cluster *)
          specialize (Hcomp Hc).
          assert (Hxc : x < cs) by (unfold cs; rewrite <- S_B; rewrite Hcomp in Hx1; lia).
          assert (Hx0 : x / cs = 0) by (apply Z.div_small; unfold x; lia).
          rewrite Hx0, Z.add_0_r in He. rewrite He0 in He. injection He as <-.
          rewrite Z.mod_small by (unfold x; lia). reflexivity.
        - (* normal: host offsets of the clusters of the run are contiguous *)
          assert (Hty4 : ty = 4).
          { destruct Hv as [Hv1 Hv2].
            assert (Hcases : ty = 0 \/ ty = 1 \/ ty = 2 \/ ty = 3 \/ ty = 4 \/ ty = 5) by lia.
            destruct Hcases as [-> | [-> | [-> | [-> | [-> | ->]]]]]; try reflexivity;
              first [ vm_compute in Hze; discriminate Hze | vm_compute in Hun; discriminate Hun
                    | exfalso; apply Hnc; reflexivity ]. }
          assert (Hchk : is_in ty check_offset_types = true) by (rewrite Hty4; reflexivity).
          specialize (Hmask Hchk). rewrite l2e_offset in Hmask.
          rewrite (gk_cs _ _ _ _ G) in Hmask. fold cs in Hmask.
          f_equal. rewrite Hmask.
          pose proof (Z.div_mod x cs ltac:(lia)). unfold x in *. lia.
      Qed.

      Definition host_of : Z :=
        if ty =? T_COMPRESSED then Z.land e0 qcow2_L2E_COMPRESSED_OFFSET_SIZE_MASK
        else if is_in ty qcow2_NORMAL_SUBCLUSTER_TYPES then m0 + oic else 0.

      Lemma entry_step :
        0 < rc <= length /\
        srcs_of (seg_of_run im (ty, offset, host_of, rc)) = map (guest_src im) (zseq offset rc).
      Proof.
        pose proof geo_ok as G.
        destruct entry_facts as (Hv & Hc1 & Hcomp & Hpos & Hrcb). split; [exact Hrcb|].
        rewrite (zseq_rel (guest_src im)).
        rewrite (map_ext_zseq _ expected 0 rc) by (intros j Hj; apply entry_byte; lia).
        destruct (step_indices) as (Hi1 & _).
        unfold seg_of_run, host_of, expected. fold q. rewrite Hi1.
        unfold unallocated, stored. change (s_backing sim) with (i_backing im).
        rewrite (gk_df _ _ _ _ G). fold df.
        destruct Hv as [Hv1 Hv2].
        assert (Hcases : ty = 0 \/ ty = 1 \/ ty = 2 \/ ty = 3 \/ ty = 4 \/ ty = 5) by lia.
        destruct Hcases as [-> | [-> | [-> | [-> | [-> | ->]]]]].
        - change (is_in 0 qcow2_ZERO_SUBCLUSTER_TYPES) with false.
          change (is_in 0 qcow2_UNALLOCATED_SUBCLUSTER_TYPES) with true.
          destruct (i_backing im); cbn [negb andb orb]; rewrite srcs_single; cbn [srcs_of_seg].
          + apply zseq_rel.
          + reflexivity.
        - change (is_in 1 qcow2_ZERO_SUBCLUSTER_TYPES) with false.
          change (is_in 1 qcow2_UNALLOCATED_SUBCLUSTER_TYPES) with true.
          destruct (i_backing im); cbn [negb andb orb]; rewrite srcs_single; cbn [srcs_of_seg].
          + apply zseq_rel.
          + reflexivity.
        - change (is_in 2 qcow2_ZERO_SUBCLUSTER_TYPES) with true. cbn [orb].
          rewrite srcs_single. reflexivity.
        - change (is_in 3 qcow2_ZERO_SUBCLUSTER_TYPES) with true. cbn [orb].
          rewrite srcs_single. reflexivity.
        - change (is_in 4 qcow2_ZERO_SUBCLUSTER_TYPES) with false.
          change (is_in 4 qcow2_UNALLOCATED_SUBCLUSTER_TYPES) with false.
          change (is_in 4 qcow2_NORMAL_SUBCLUSTER_TYPES) with true.
          change (4 =? T_COMPRESSED) with false. change (4 =? T_NORMAL) with true.
          cbn [negb andb orb]. rewrite srcs_single.
          destruct df; cbn [srcs_of_seg]; rewrite zseq_rel; apply map_ext; intros j; f_equal; lia.
        - change (is_in 5 qcow2_ZERO_SUBCLUSTER_TYPES) with false.
          change (is_in 5 qcow2_UNALLOCATED_SUBCLUSTER_TYPES) with false.
          change (5 =? T_COMPRESSED) with true.
          cbn [negb andb orb]. rewrite srcs_single. cbn [srcs_of_seg].
          rewrite l2e_descriptor. apply zseq_rel.
      Qed.
    End Entry.
  End Step.

  Lemma emit_combine (g : Z -> src) r rest offset length rc :
    0 < rc <= length ->
    srcs_of (seg_of_run im r) = map g (zseq offset rc) ->
    srcs_of (flat_map (seg_of_run im) rest) = map g (zseq (offset + rc) (length - rc)) ->
    srcs_of (flat_map (seg_of_run im) (r :: rest)) = map g (zseq offset length).
  Proof.
    intros Hrc H1 H2. cbn [flat_map]. rewrite srcs_of_app, H1, H2.
    replace length with (rc + (length - rc)) at 2 by lia.
    rewrite zseq_app by lia. rewrite map_app. reflexivity.
  Qed.

  (* ================================================================ *)
  (* J. the loop                                                      *)
  (* ================================================================ *)
  Theorem yield_runs_correct fuel : forall offset length runs,
    yield_runs im fuel offset length = Ok runs ->
    srcs_of (flat_map (seg_of_run im) runs) = map (guest_src im) (zseq offset length).
  Proof.
    pose proof geo_ok as G. pose proof B_pos as HB.
    induction fuel as [|fuel IH]; intros offset length runs Hrun.
    - cbn [yield_runs] in Hrun. destruct (Z.leb_spec length 0); [|discriminate].
      injection Hrun as <-. rewrite zseq_nonpos by lia. reflexivity.
    - cbn [yield_runs] in Hrun. destruct (Z.leb_spec length 0) as [|Hlen].
      { injection Hrun as <-. rewrite zseq_nonpos by lia. reflexivity. }
      cbv zeta in Hrun. fold q in Hrun.
      destruct (step_indices offset length) as (Hi1 & Hi2 & Hi3 & Hi4 & Hi5).
      rewrite Hi5 in Hrun. rewrite ?Hi1, ?Hi2, ?Hi3, ?Hi4 in Hrun.
      destruct hd_fields as (_ & Hl1s & _).
      rewrite Hl1s in Hrun.
      set (oic := offset mod 2 ^ cb) in *.
      set (l2i := (offset / 2 ^ cb) mod 2 ^ L) in *.
      set (l1i := offset / 2 ^ cb / 2 ^ L) in *.
      set (bn := Z.min (length + oic) ((2 ^ L - l2i) * 2 ^ cb)) in *.
      destruct (Z.gtb_spec l1i (h_l1_size (i_hdr im))) as [Hgt|Hle].
      { (* beyond the L1 table *)
        apply bind_ok in Hrun. destruct Hrun as (rest & Hrest & Hrun). apply ok_inj_gen in Hrun. subst runs.
        destruct (unalloc_step offset length Hlen (or_introl (Hl1 l1i ltac:(lia)))) as [Hrc Hseg].
        eapply emit_combine; [exact Hrc|exact Hseg|]. apply IH. exact Hrest. }
      destruct (i_l1 im l1i) as [l1e|] eqn:Hl1e; cbn [of_option bind] in Hrun; [|discriminate].
      destruct (Z.eqb_spec (Z.land l1e qcow2_L1E_OFFSET_MASK) 0) as [Hz|Hnz].
      { (* no L2 table *)
        apply bind_ok in Hrun. destruct Hrun as (rest & Hrest & Hrun). apply ok_inj_gen in Hrun. subst runs.
        destruct (unalloc_step offset length Hlen
                    (or_intror (ex_intro _ l1e (conj Hl1e Hz)))) as [Hrc Hseg].
        eapply emit_combine; [exact Hrc|exact Hseg|]. apply IH. exact Hrest. }
      apply bind_ok in Hrun. destruct Hrun as (e0 & He0 & Hrun).
      apply bind_ok in Hrun. destruct Hrun as (bm0 & Hbm0 & Hrun).
      apply bind_ok in Hrun. destruct Hrun as (ty & Hty & Hrun).
      apply bind_ok in Hrun. destruct Hrun as (count & Hcount & Hrun).
      apply bind_ok in Hrun. destruct Hrun as (rest & Hrest & Hrun). apply ok_inj_gen in Hrun. subst runs.
      rewrite (gk_scb _ _ _ _ G) in Hrest. fold B in Hrest.
      rewrite Z.shiftl_mul_pow2 in Hrest by exact HB.
      destruct (entry_step offset length Hlen l1e e0 bm0 ty count Hl1e Hnz He0 Hbm0 Hty Hcount) as [Hrc Hseg].
      eapply emit_combine; [exact Hrc| |apply IH; exact Hrest].
      rewrite (gk_scb _ _ _ _ G). fold B. rewrite Z.shiftl_mul_pow2 by exact HB.
      exact Hseg.
  Qed.

  (* progress: whatever the tables hold, every iteration consumes at least one byte or raises *)
  Theorem yield_runs_fuel fuel : forall offset length,
    length < Z.of_nat fuel -> yield_runs im fuel offset length <> Fuel.
  Proof.
    pose proof geo_ok as G. pose proof B_pos as HB.
    induction fuel as [|fuel IH]; intros offset length Hf.
    - cbn [yield_runs]. destruct (Z.leb_spec length 0); [discriminate|lia].
    - cbn [yield_runs]. destruct (Z.leb_spec length 0) as [|Hlen]; [discriminate|].
      cbv zeta. fold q.
      destruct (step_indices offset length) as (Hi1 & Hi2 & Hi3 & Hi4 & Hi5).
      rewrite Hi5. rewrite ?Hi1, ?Hi2, ?Hi3, ?Hi4.
      destruct hd_fields as (_ & Hl1s & _). rewrite Hl1s.
      set (oic := offset mod 2 ^ cb) in *.
      set (l2i := (offset / 2 ^ cb) mod 2 ^ L) in *.
      set (l1i := offset / 2 ^ cb / 2 ^ L) in *.
      set (bn := Z.min (length + oic) ((2 ^ L - l2i) * 2 ^ cb)) in *.
      assert (Hemit : forall (r : run) rc, 0 < rc ->
                (do rest <- yield_runs im fuel (offset + rc) (length - rc); Ok (r :: rest)) <> Fuel).
      { intros r rc Hrc. specialize (IH (offset + rc) (length - rc) ltac:(lia)).
        destruct (yield_runs im fuel (offset + rc) (length - rc)); cbn [bind]; try discriminate; congruence. }
      destruct (Z.gtb_spec l1i (h_l1_size (i_hdr im))) as [Hgt|Hle].
      { apply Hemit. destruct (unalloc_step offset length Hlen (or_introl (Hl1 l1i ltac:(lia)))) as [Hrc _].
        fold oic l2i bn in Hrc. lia. }
      destruct (i_l1 im l1i) as [l1e|] eqn:Hl1e; cbn [of_option bind]; [|discriminate].
      destruct (Z.eqb_spec (Z.land l1e qcow2_L1E_OFFSET_MASK) 0) as [Hz|Hnz].
      { apply Hemit. destruct (unalloc_step offset length Hlen
                    (or_intror (ex_intro _ l1e (conj Hl1e Hz)))) as [Hrc _].
        fold oic l2i bn in Hrc. lia. }
      set (t := i_l2 im (Z.land l1e qcow2_L1E_OFFSET_MASK)).
      pose proof (l2_entry_not_fuel q t l2i) as H1.
      destruct (l2_entry q t l2i) as [e0| |] eqn:He0; cbn [bind]; try discriminate; try congruence.
      pose proof (l2_bitmap_not_fuel q t l2i) as H2.
      destruct (l2_bitmap q t l2i) as [bm0| |] eqn:Hbm0; cbn [bind]; try discriminate; try congruence.
      pose proof (gst_not_fuel q e0 bm0 ((offset / 2 ^ B) mod S)) as H3.
      destruct (get_subcluster_type q e0 bm0 ((offset / 2 ^ B) mod S)) as [ty| |] eqn:Hty; cbn [bind];
        try discriminate; try congruence.
      pose proof (ccs_not_fuel q (size_to_clusters q bn) ((offset / 2 ^ B) mod S) t l2i) as H4.
      destruct (count_contiguous_subclusters q (size_to_clusters q bn) ((offset / 2 ^ B) mod S) t l2i)
        as [count| |] eqn:Hcount; cbn [bind]; try discriminate; try congruence.
      apply Hemit.
      destruct (entry_step offset length Hlen l1e e0 bm0 ty count Hl1e Hnz He0 Hbm0 Hty Hcount) as [Hrc _].
      rewrite (gk_scb _ _ _ _ G). rewrite Z.shiftl_mul_pow2 by exact HB.
      fold oic l2i bn in Hrc. change (scb cb ext) with B. apply Hrc.
  Qed.
End Image.

(* ================================================================== *)
(* K. top-level statements                                            *)
(* ================================================================== *)
(* what the reader needs of the in-memory image: a supported header and an L1 list of l1_size
   entries.  Nothing is assumed about table CONTENTS here. *)
Definition wf_image (im : image) : Prop :=
  (h_version (i_hdr im) = 2 \/ h_version (i_hdr im) = 3) /\
  9 <= h_cluster_bits (i_hdr im) <= 21 /\
  (forall i, h_l1_size (i_hdr im) <= i -> i_l1 im i = None).

Theorem read_runs_correct im fuel off len p :
  wf_image im -> read_runs im fuel off len = Ok p ->
  srcs_of p = map (guest_src im) (zseq off len).
Proof.
  intros (Hv & Hcb & Hl1) Hrun. unfold read_runs in Hrun.
  apply bind_ok in Hrun. destruct Hrun as (runs & Hruns & Hrun). apply ok_inj_gen in Hrun. subst p.
  exact (yield_runs_correct im Hv Hcb Hl1 fuel off len runs Hruns).
Qed.

Theorem read_runs_progress im fuel off len :
  wf_image im -> len < Z.of_nat fuel -> read_runs im fuel off len <> Fuel.
Proof.
  intros (Hv & Hcb & Hl1) Hf. unfold read_runs.
  pose proof (yield_runs_fuel im Hv Hcb Hl1 fuel off len Hf) as H.
  destruct (yield_runs im fuel off len); cbn [bind]; try discriminate; congruence.
Qed.

(* QCow2._read: the clamped back end of the stream *)
Theorem qcow2_read_correct im fuel off len p :
  wf_image im -> qcow2_read im fuel off len = Ok p ->
  srcs_of p = map (guest_src im) (zseq off (Z.min len (size_of im - off))).
Proof. intros Hwf. unfold qcow2_read. apply read_runs_correct. exact Hwf. Qed.

Theorem qcow2_read_progress im fuel off len :
  wf_image im -> Z.min len (size_of im - off) < Z.of_nat fuel -> qcow2_read im fuel off len <> Fuel.
Proof. intros Hwf Hf. unfold qcow2_read. apply read_runs_progress; assumption. Qed.

(* bytes, for every content of image file, data file, backing image and every inflate function *)
Theorem qcow2_read_bytes {Bt} (zero : Bt) file data parent infl im fuel off len p :
  wf_image im -> qcow2_read im fuel off len = Ok p ->
  denote zero file data parent infl p =
  map (fun o => byte_of zero file data parent infl (guest_src im o)) (zseq off (Z.min len (size_of im - off))).
Proof. intros Hwf Hrun. apply denote_of_srcs. eapply qcow2_read_correct; eassumption. Qed.

(* ---------- _read_compressed: the descriptor is decoded as the specification says ---------- *)
Theorem comp_decode_spec q cb ext df d :
  geom_ok q cb ext df -> 9 <= cb <= 21 ->
  comp_coffset q d = desc_offset cb d /\ comp_csize q d = desc_size cb d /\
  g_csize_shift q + (cb - 8) = 62.
Proof.
  intros G Hcb. unfold comp_csize, comp_coffset, desc_offset, desc_size.
  rewrite (gk_com _ _ _ _ G), (gk_csh _ _ _ _ G), (gk_csm _ _ _ _ G).
  rewrite !land_ones_mod by lia. rewrite shiftr_div by lia.
  change 511 with (2 ^ 9 - 1). rewrite land_ones_mod by lia.
  change qcow2_QCOW2_COMPRESSED_SECTOR_SIZE with 512. change (2 ^ 9) with 512. cbv zeta.
  split; [reflexivity|]. split; [reflexivity|lia].
Qed.

(* descriptor encode/decode round trip: offset below 2^(70-cb), sector count below 2^(cb-8) *)
Theorem desc_roundtrip cb coff nsec :
  9 <= cb <= 21 -> 0 <= coff < 2 ^ (70 - cb) -> 0 <= nsec < 2 ^ (cb - 8) ->
  let d := coff + nsec * 2 ^ (70 - cb) in
  0 <= d < 2 ^ 62 /\ desc_offset cb d = coff /\ desc_size cb d = (nsec + 1) * 512 - coff mod 512.
Proof.
  intros Hcb Hc Hn d.
  assert (Hp : 0 < 2 ^ (70 - cb)) by (apply pow2_pos; lia).
  assert (H62 : 2 ^ 62 = 2 ^ (cb - 8) * 2 ^ (70 - cb)) by (rewrite <- Z.pow_add_r by lia; f_equal; lia).
  assert (Hoff : d mod 2 ^ (70 - cb) = coff).
  { unfold d. rewrite Z.add_comm. apply mod_mul_add; lia. }
  assert (Hq : d / 2 ^ (70 - cb) = nsec).
  { unfold d. rewrite Z.add_comm. apply div_mul_add; lia. }
  split; [unfold d; nia|]. unfold desc_offset, desc_size. cbv zeta. rewrite Hoff, Hq.
  split; [reflexivity|]. rewrite Z.mod_small by lia. reflexivity.
Qed.

(* ---------- version-2 headers: the version-3 fields do not exist ---------- *)
Definition same_v2_part (h h' : hdr) : Prop :=
  h_magic h = h_magic h' /\ h_version h = h_version h' /\
  h_backing_file_offset h = h_backing_file_offset h' /\ h_backing_file_size h = h_backing_file_size h' /\
  h_cluster_bits h = h_cluster_bits h' /\ h_size h = h_size h' /\ h_crypt_method h = h_crypt_method h' /\
  h_l1_size h = h_l1_size h' /\ h_l1_table_offset h = h_l1_table_offset h' /\
  h_refcount_table_offset h = h_refcount_table_offset h' /\
  h_refcount_table_clusters h = h_refcount_table_clusters h' /\
  h_nb_snapshots h = h_nb_snapshots h' /\ h_snapshots_offset h = h_snapshots_offset h'.

Theorem v2_fields_ignored h h' :
  h_version h = 2 -> same_v2_part h h' -> v2_fix h = v2_fix h'.
Proof.
  intros H2 S. destruct h, h'. unfold same_v2_part in S. cbn in *.
  destruct S as (? & ? & ? & ? & ? & ? & ? & ? & ? & ? & ? & ? & ?). subst.
  unfold v2_fix. cbn. reflexivity.
Qed.

Corollary v2_geometry_ignores_v3_fields h h' :
  h_version h = 2 -> same_v2_part h h' ->
  open_geom (v2_fix h) = open_geom (v2_fix h') /\ h_header_length (v2_fix h) = 72 /\
  has_subclusters (v2_fix h) = false /\ has_data_file (v2_fix h) = false.
Proof.
  intros H2 S. rewrite (v2_fields_ignored h h' H2 S). split; [reflexivity|].
  assert (H2' : h_version h' = 2) by (destruct S as (_ & <- & _); exact H2).
  unfold v2_fix. rewrite H2'. cbn. repeat split; reflexivity.
Qed.

(* ---------- non-vacuity: a 3-cluster extended-L2 image and a 70-cluster image over two L2 tables ---------- *)
Definition ex_hdr (version cb size l1_size feats hl : Z) : hdr :=
  {| h_magic := 1363560955; h_version := version; h_backing_file_offset := 0; h_backing_file_size := 0;
     h_cluster_bits := cb; h_size := size; h_crypt_method := 0; h_l1_size := l1_size; h_l1_table_offset := 196608;
     h_refcount_table_offset := 65536; h_refcount_table_clusters := 1; h_nb_snapshots := 0; h_snapshots_offset := 0;
     h_incompatible_features := feats; h_compatible_features := 0; h_autoclear_features := 0; h_refcount_order := 4;
     h_header_length := hl; h_compression_type := 0 |}.

(* extended L2, 64 KiB clusters (2 KiB sub-clusters): cluster 0 has sub-clusters 0-3 allocated and 8-15 zero,
   cluster 1 is fully allocated and contiguous with cluster 0, cluster 2 is absent *)
Definition ex_ext : image :=
  {| i_hdr := ex_hdr 3 16 (3 * 65536) 1 16 112; i_backing := true;
     i_l1 := tbl [(0, 9223372036854775808 + 262144)] 0 1;
     i_l2 := tbl2 [(262144, tbl [(0, 9223372036854775808 + 327680); (1, 15 + 65280 * 4294967296);
                                 (2, 9223372036854775808 + 393216); (3, 4294967295)] 0 8192)] |}.

Example ex_ext_wf : wf_image ex_ext.
Proof.
  split; [right; reflexivity|]. split; [vm_compute; split; discriminate|].
  intros i Hi. cbn in Hi. unfold ex_ext, i_l1, tbl.
  destruct (Z.leb_spec 0 i); cbn [andb]; [|reflexivity].
  destruct (Z.ltb_spec i 1); [lia|reflexivity].
Qed.

Example ex_ext_read :
  qcow2_read ex_ext 100 1000 (3 * 65536 - 1000) =
  Ok [SFile 328680 7192; SParent 8192 8192; SZero 16384; SParent 32768 32768; SFile 393216 65536; SParent 131072 65536].
Proof. vm_compute. reflexivity. Qed.

(* standard L2, 512-byte clusters, 70 clusters: two L2 tables (64 entries each), stored in reverse order, a
   compressed cluster, a zero cluster and a run that is contiguous across the L2-table boundary *)
Definition ex_std : image :=
  {| i_hdr := ex_hdr 2 9 (70 * 512 - 100) 2 18446744073709551615 4294967295; i_backing := false;
     i_l1 := tbl [(0, 4096); (1, 3072)] 0 2;
     i_l2 := tbl2 [(4096, tbl [(0, 4611686018427387904 + 20000); (1, 1); (62, 8192); (63, 8704)] 0 64);
                   (3072, tbl [(0, 9216); (1, 9728 + 9223372036854775808)] 0 64)] |}.

Example ex_std_wf : wf_image ex_std.
Proof.
  split; [left; reflexivity|]. split; [vm_compute; split; discriminate|].
  intros i Hi. cbn in Hi. unfold ex_std, i_l1, tbl.
  destruct (Z.leb_spec 0 i); cbn [andb]; [|reflexivity].
  destruct (Z.ltb_spec i 2); [lia|reflexivity].
Qed.

Example ex_std_read :
  qcow2_read ex_std 100 0 100000 =
  Ok [SInfl 20000 0 512; SZero 512; SZero 30720; SFile 8192 1024; SFile 9216 1024; SZero 1948].
Proof. vm_compute. reflexivity. Qed.
