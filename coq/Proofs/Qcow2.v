(* Proofs/Qcow2.v — count_contiguous_subclusters, _yield_runs and _read refine Spec/Qcow2.v. *)
From Coq Require Import ZArith List Bool Lia.
From DH Require Import Base.Arith Base.Plan Base.Table.
From DH Require Import Gen.Consts Gen.Enums Gen.Qcow2Fun.
From DH Require Import Spec.Qcow2 Model.Qcow2 Proofs.Qcow2Bits Proofs.Qcow2Class.
Import ListNotations.
Open Scope Z_scope.

Lemma bind_ok {A B} (r : res A) (f : A -> res B) b :
  bind r f = Ok b -> exists a, r = Ok a /\ f a = Ok b.
Proof. destruct r; cbn [bind]; try discriminate. eauto. Qed.

Lemma pos_split p S i : 0 < S -> i * S <= p < i * S + S -> p / S = i /\ p mod S = p - i * S.
Proof.
  intros HS Hp. replace p with (i * S + (p - i * S)) at 1 2 by lia.
  split; [apply div_mul_add | apply mod_mul_add]; lia.
Qed.

Lemma mul16_div8 x : x * 16 / 8 = 2 * x.
Proof. replace (x * 16) with (2 * x * 8) by lia. apply Z.div_mul. lia. Qed.
Lemma mul8_div8 x : x * 8 / 8 = x.
Proof. apply Z.div_mul. lia. Qed.

(* ================================================================== *)
(* G. count_contiguous_subclusters                                    *)
(* ================================================================== *)
Section Count.
  Variables (q : geom) (cb : Z) (ext df : bool).
  Hypothesis G : geom_ok q cb ext df.
  Hypothesis Hcb : 9 <= cb <= 21.
  Variable t : Z -> option Z.
  Variable l2_index : Z.

  Let S := if ext then 32 else 1.
  Lemma S_pos : 0 < S. Proof. unfold S; destruct ext; lia. Qed.
  Lemma spc_S : g_subclusters_per_cluster q = S. Proof. apply (gk_spc _ _ _ _ G). Qed.

  (* sub-cluster position p (counted from the first cluster of the run) has type ty, and for
     host-backed types its cluster continues the host range that starts at m0 *)
  Definition at_pos (ty m0 p : Z) : Prop :=
    exists e bm,
      l2_entry q t (l2_index + p / S) = Ok e /\ l2_bitmap q t (l2_index + p / S) = Ok bm /\
      get_subcluster_type q e bm (p mod S) = Ok ty /\
      (is_in ty check_offset_types = true ->
       Z.land e qcow2_L2E_OFFSET_MASK = m0 + (p / S) * g_cluster_size q).

  Variables (sc_index ety m0 : Z).
  Hypothesis Hsc : 0 <= sc_index < S.

  Lemma ccs_loop_sound k : forall i count eoff chk r,
    1 <= i -> count = i * S - sc_index ->
    chk = is_in ety check_offset_types ->
    (chk = true -> eoff = m0 + (i - 1) * g_cluster_size q) ->
    ccs_loop q t l2_index k i count ety eoff chk = Ok r ->
    count <= r /\ r + sc_index <= (i + Z.of_nat k) * S /\
    forall p, count + sc_index <= p < r + sc_index -> at_pos ety m0 p.
  Proof.
    pose proof S_pos as HS.
    induction k as [|k IH]; intros i count eoff chk r Hi Hcount Hchk Heoff Hrun.
    - cbn [ccs_loop] in Hrun. injection Hrun as <-. split; [lia|]. split; [nia|]. intros; lia.
    - cbn [ccs_loop] in Hrun.
      apply bind_ok in Hrun. destruct Hrun as (e & He & Hrun).
      apply bind_ok in Hrun. destruct Hrun as (bm & Hbm & Hrun).
      apply bind_ok in Hrun. destruct Hrun as ([ty n] & Hgrt & Hrun).
      destruct (grt_sound q cb ext df e bm 0 ty n G ltac:(fold S; lia) Hgrt) as (Hv & Hn1 & HnS & _ & Hall).
      fold S in HnS.
      destruct (Z.eqb_spec ty ety) as [->|Hne]; cbn [negb] in Hrun.
      2:{ injection Hrun as <-. split; [lia|]. split; [nia|]. intros; lia. }
      set (eoff' := if chk then eoff + g_cluster_size q else eoff) in *.
      destruct (chk && negb (eoff' =? Z.land e qcow2_L2E_OFFSET_MASK)) eqn:Hoff.
      { injection Hrun as <-. split; [lia|]. split; [nia|]. intros; lia. }
      assert (Hm : chk = true -> Z.land e qcow2_L2E_OFFSET_MASK = m0 + i * g_cluster_size q).
      { intros Hc. rewrite Hc in Hoff. cbn [andb] in Hoff. apply negb_false_iff, Z.eqb_eq in Hoff.
        rewrite <- Hoff. unfold eoff'. rewrite Hc. rewrite (Heoff Hc). lia. }
      (* the sub-clusters of this cluster *)
      assert (Hhere : forall p, i * S <= p < i * S + n -> at_pos ety m0 p).
      { intros p Hp. destruct (pos_split p S i HS ltac:(lia)) as [Hd Hr].
        exists e, bm. rewrite Hd, Hr. repeat split; try assumption.
        - apply Hall. lia.
        - intros Hc. apply Hm. congruence. }
      rewrite spc_S in Hrun.
      destruct (Z.ltb_spec (0 + n) S) as [Hlt|Hge].
      + injection Hrun as <-. split; [lia|]. split; [nia|].
        intros p Hp. apply Hhere. lia.
      + assert (n = S) by lia. subst n.
        specialize (IH (i + 1) (count + S) eoff' chk r ltac:(lia) ltac:(lia) Hchk).
        destruct IH as (Hr1 & Hr2 & Hr3); [|exact Hrun|].
        { intros Hc. unfold eoff'. rewrite Hc. rewrite (Heoff Hc). lia. }
        split; [lia|]. split; [lia|].
        intros p Hp. destruct (Z.lt_ge_cases p (count + S + sc_index)) as [Hl|Hg].
        * apply Hhere. lia.
        * apply Hr3. lia.
  Qed.

  Lemma ccs_sound nb e0 bm0 count :
    l2_entry q t l2_index = Ok e0 -> l2_bitmap q t l2_index = Ok bm0 ->
    get_subcluster_type q e0 bm0 sc_index = Ok ety ->
    m0 = Z.land e0 qcow2_L2E_OFFSET_MASK ->
    0 < nb ->
    count_contiguous_subclusters q nb sc_index t l2_index = Ok count ->
    valid_type ety /\ 1 <= count /\ count + sc_index <= nb * S /\
    (ety = T_COMPRESSED -> count + sc_index = S) /\
    forall p, sc_index <= p < count + sc_index -> at_pos ety m0 p.
  Proof.
    pose proof S_pos as HS.
    intros He0 Hbm0 Hty Hm0 Hnb Hrun. unfold count_contiguous_subclusters in Hrun.
    destruct (Z.leb_spec nb 0); [lia|].
    rewrite He0, Hbm0 in Hrun. cbn [bind] in Hrun.
    apply bind_ok in Hrun. destruct Hrun as ([ty n] & Hgrt & Hrun).
    destruct (grt_sound q cb ext df e0 bm0 sc_index ty n G ltac:(fold S; lia) Hgrt)
      as (Hv & Hn1 & HnS & Hcomp & Hall).
    fold S in HnS, Hcomp.
    assert (ty = ety).
    { specialize (Hall sc_index ltac:(lia)). rewrite Hty in Hall. now injection Hall. }
    subst ty.
    assert (Hhere : forall p, sc_index <= p < sc_index + n -> at_pos ety m0 p).
    { intros p Hp. destruct (pos_split p S 0 HS ltac:(lia)) as [Hd Hr].
      exists e0, bm0. rewrite Hd, Hr, Z.add_0_r, Z.sub_0_r. repeat split; try assumption.
      - apply Hall. lia.
      - intros _. lia. }
    destruct (Z.eqb_spec ety T_COMPRESSED) as [Hc|Hnc].
    { injection Hrun as <-. split; [exact Hv|]. split; [lia|]. split; [nia|]. split; [intros; lia|].
      intros p Hp. apply Hhere. lia. }
    rewrite spc_S in Hrun.
    destruct (Z.ltb_spec (sc_index + n) S) as [Hlt|Hge].
    { injection Hrun as <-. split; [exact Hv|]. split; [lia|]. split; [nia|]. split; [intros; contradiction|].
      intros p Hp. apply Hhere. lia. }
    destruct (ccs_loop_sound (Z.to_nat (nb - 1)) 1 n (Z.land e0 qcow2_L2E_OFFSET_MASK)
                (is_in ety check_offset_types) count ltac:(lia) ltac:(lia) eq_refl ltac:(intros; lia) Hrun)
      as (Hr1 & Hr2 & Hr3).
    split; [exact Hv|]. split; [lia|]. split; [rewrite Z2Nat.id in Hr2 by lia; lia|].
    split; [intros; contradiction|].
    intros p Hp. destruct (Z.lt_ge_cases p (sc_index + n)) as [Hl|Hg].
    - apply Hhere. lia.
    - apply Hr3. lia.
  Qed.
End Count.

(* ================================================================== *)
(* H. the opened image and the specification's view of it             *)
(* ================================================================== *)
Section Image.
  Variable im : image.
  Let sim := spec_of im.
  Let cb := h_cluster_bits (i_hdr im).
  Let q := geo im.
  Let ext := ext_l2 sim.
  Let df := ext_data sim.

  Hypothesis Hver : h_version (i_hdr im) = 2 \/ h_version (i_hdr im) = 3.
  Hypothesis Hcb : 9 <= cb <= 21.
  (* the L1 list has l1_size entries *)
  Hypothesis Hl1 : forall i, h_l1_size (i_hdr im) <= i -> i_l1 im i = None.

  (* QCow2.__init__ on a version-2 header ignores the bytes after byte 72 (fixes/C01-v2-header) *)
  Lemma hd_fields :
    h_cluster_bits (hd im) = cb /\ h_l1_size (hd im) = h_l1_size (i_hdr im) /\
    h_size (hd im) = h_size (i_hdr im) /\
    has_subclusters (hd im) = ext /\ has_data_file (hd im) = df.
  Proof.
    unfold hd, v2_fix, ext, df, ext_l2, ext_data, feature, sim, spec_of. cbn [s_version s_features].
    destruct (Z.eqb_spec (h_version (i_hdr im)) 2) as [H2|H2].
    - rewrite H2. cbn. repeat split; reflexivity.
    - assert (H3 : h_version (i_hdr im) = 3) by (destruct Hver; congruence).
      rewrite H3. cbn [Z.leb Z.compare Pos.compare Pos.compare_cont andb].
      unfold has_subclusters, has_data_file.
      change qcow2_QCOW2_INCOMPAT_EXTL2 with (2 ^ 4). change qcow2_QCOW2_INCOMPAT_DATA_FILE with (2 ^ 2).
      rewrite !land_pow2_eqb, !negb_involutive by lia. repeat split; reflexivity.
  Qed.

  Lemma geo_ok : geom_ok q cb ext df.
  Proof.
    destruct hd_fields as (H1 & _ & _ & H4 & H5).
    unfold q, geo. rewrite <- H1, <- H4, <- H5. apply open_geom_ok. rewrite H1. exact Hcb.
  Qed.

  Let L := l2b cb ext.      (* log2 of the number of entries of an L2 table *)
  Let S := if ext then 32 else 1.
  Let B := scb cb ext.      (* log2 of the sub-cluster size *)

  Lemma L_pos : 0 <= L. Proof. unfold L, l2b. destruct ext; lia. Qed.
  Lemma B_pos : 0 <= B. Proof. unfold B, scb. destruct ext; lia. Qed.
  Lemma S_B : 2 ^ B * S = 2 ^ cb.
  Proof.
    unfold B, scb, S. destruct ext; [|lia].
    change 32 with (2 ^ 5). rewrite <- Z.pow_add_r by lia. f_equal. lia.
  Qed.

  Lemma spec_cluster_size : cluster_size sim = 2 ^ cb.
  Proof. reflexivity. Qed.

  Lemma spec_l2_entries : l2_entries sim = 2 ^ L.
  Proof.
    unfold l2_entries. rewrite spec_cluster_size. fold ext. unfold L, l2b. destruct ext.
    - change 16 with (2 ^ 4). replace (2 ^ cb) with (2 ^ (cb - 4) * 2 ^ 4) by (rewrite <- Z.pow_add_r by lia; f_equal; lia).
      apply Z.div_mul. lia.
    - change 8 with (2 ^ 3). replace (2 ^ cb) with (2 ^ (cb - 3) * 2 ^ 3) by (rewrite <- Z.pow_add_r by lia; f_equal; lia).
      apply Z.div_mul. lia.
  Qed.

  Lemma spec_subcluster_size : subcluster_size sim = 2 ^ (cb - 5).
  Proof.
    unfold subcluster_size. rewrite spec_cluster_size.
    change 32 with (2 ^ 5). replace (2 ^ cb) with (2 ^ (cb - 5) * 2 ^ 5) by (rewrite <- Z.pow_add_r by lia; f_equal; lia).
    apply Z.div_mul. lia.
  Qed.

  (* Spec.guest_src, split at the table lookups *)
  Lemma guest_src_no_l2 o :
    (i_l1 im (o / 2 ^ cb / 2 ^ L) = None \/
     exists l1e, i_l1 im (o / 2 ^ cb / 2 ^ L) = Some l1e /\ Z.land l1e qcow2_L1E_OFFSET_MASK = 0) ->
    guest_src im o = unallocated sim o.
  Proof.
    intros H. unfold guest_src, Spec.Qcow2.guest_src. fold sim. cbv zeta.
    rewrite spec_l2_entries, spec_cluster_size.
    change (s_l1 sim) with (i_l1 im).
    destruct H as [-> | (l1e & -> & Hz)]; [reflexivity|].
    rewrite l1e_offset in Hz. rewrite Hz. reflexivity.
  Qed.

  Lemma guest_src_l2 o l1e :
    i_l1 im (o / 2 ^ cb / 2 ^ L) = Some l1e -> Z.land l1e qcow2_L1E_OFFSET_MASK <> 0 ->
    let t := i_l2 im (Z.land l1e qcow2_L1E_OFFSET_MASK) in
    let idx := (o / 2 ^ cb) mod 2 ^ L in
    guest_src im o =
    if ext then match t (2 * idx), t (2 * idx + 1) with
                | Some e, Some bm => ext_entry_src sim e bm o
                | _, _ => Zero
                end
    else match t idx with Some e => std_entry_src sim e o | None => Zero end.
  Proof.
    intros H1 Hnz t idx. unfold guest_src, Spec.Qcow2.guest_src. fold sim. cbv zeta.
    rewrite spec_l2_entries, spec_cluster_size.
    change (s_l1 sim) with (i_l1 im). change (s_l2 sim) with (i_l2 im). rewrite H1.
    rewrite l1e_offset in Hnz. destruct (Z.eqb_spec (field l1e 9 47 * 512) 0) as [|_]; [contradiction|].
    fold ext. unfold t, idx. rewrite l1e_offset. reflexivity.
  Qed.

  (* the sub-cluster index the reader computes is the one the specification uses *)
  Lemma sc_index_spec o : ext = true ->
    (o / 2 ^ B) mod S = (o mod 2 ^ cb) / 2 ^ (cb - 5).
  Proof.
    intros Hx. unfold B, scb, S. rewrite Hx.
    assert (Hp : 0 < 2 ^ (cb - 5)) by (apply pow2_pos; lia).
    replace (2 ^ cb) with (2 ^ (cb - 5) * 32).
    2:{ change 32 with (2 ^ 5). rewrite <- Z.pow_add_r by lia. f_equal. lia. }
    rewrite Z.rem_mul_r by lia.
    rewrite (Z.mul_comm (2 ^ (cb - 5))). rewrite Z.add_comm.
    rewrite div_mul_add; [reflexivity|lia|]. apply Z.mod_pos_bound. lia.
  Qed.

  (* one guest byte: from the reader's lookups and classification to the specification *)
  Lemma byte_src o l1e e bm ty :
    i_l1 im (o / 2 ^ cb / 2 ^ L) = Some l1e -> Z.land l1e qcow2_L1E_OFFSET_MASK <> 0 ->
    let t := i_l2 im (Z.land l1e qcow2_L1E_OFFSET_MASK) in
    let idx := (o / 2 ^ cb) mod 2 ^ L in
    l2_entry q t idx = Ok e -> l2_bitmap q t idx = Ok bm ->
    get_subcluster_type q e bm ((o / 2 ^ B) mod S) = Ok ty -> valid_type ty ->
    guest_src im o = src_of_type sim ty e o.
  Proof.
    intros H1 Hnz t idx He Hbm Hty Hv.
    rewrite (guest_src_l2 o l1e H1 Hnz). fold t idx.
    pose proof geo_ok as G.
    unfold l2_entry in He. unfold l2_bitmap in Hbm.
    rewrite (gk_es _ _ _ _ G) in He, Hbm. rewrite (gk_ext _ _ _ _ G) in Hbm.
    pose proof spec_subcluster_size as Hss. pose proof (sc_index_spec o) as Hsi.
    pose proof spec_cluster_size as Hcs.
    assert (HS : 0 < S) by (unfold S; destruct ext; lia).
    destruct ext eqn:Hx.
    - rewrite mul16_div8 in He, Hbm.
      destruct (t (2 * idx)) as [e'|]; [|discriminate]. injection He as ->.
      destruct (t (2 * idx + 1)) as [bm'|]; [|discriminate]. injection Hbm as ->.
      eapply ext_type_src with (q := q) (s := (o / 2 ^ B) mod S).
      + apply (gk_ext _ _ _ _ G).
      + apply (gk_df _ _ _ _ G).
      + rewrite Hcs, Hss. apply Hsi. reflexivity.
      + apply Z.mod_pos_bound. exact HS.
      + exact Hty.
      + intros ->. destruct Hv as [_ Hv]. vm_compute in Hv. contradiction.
    - rewrite mul8_div8 in He.
      destruct (t idx) as [e'|]; [|discriminate]. injection He as ->.
      eapply std_type_src with (q := q).
      + apply (gk_ext _ _ _ _ G).
      + apply (gk_df _ _ _ _ G).
      + exact Hty.
  Qed.
End Image.
