(* Proofs/MetaQcow2.v — the QCOW2 extension walk and snapshot table reader return exactly what
   the format's writer stored, for every count and every length. *)
From Coq Require Import String ZArith List Bool Lia.
From DH Require Import Base.Arith Base.Plan Base.Layout Gen.Consts Gen.Layouts
     Model.MetaCodec Model.MetaQcow2 Proofs.MetaCodec.
Import ListNotations.
Open Scope list_scope.
Open Scope Z_scope.

Ltac assoc := repeat rewrite <- app_assoc; reflexivity.

(* the offsets QCow2.__init__ hard-wires are those of the generated header layout *)
Lemma q_offsets :
  Q_V2_HEADER_LENGTH = field_off qcow2_QCowHeader_layout "incompatible_features" /\
  Q_COMPRESSION_OFFSET = field_off qcow2_QCowHeader_layout "compression_type" /\
  XSZ = 24 /\ qcow2_QCowExtension_size = 8.
Proof. repeat split; reflexivity. Qed.

Lemma pad8_align len : 0 <= len < 2 ^ 32 - 7 -> pad8 len = align8 len.
Proof.
  intros H. unfold pad8, align8. apply land_mask8. lia.
Qed.

Lemma align8_ge n : 0 <= n -> n <= align8 n.
Proof. intros H. apply (align8z_bounds n H). Qed.

(* ---------- extension headers ---------- *)
Lemma ext_hdr_at pre m l post o :
  0 <= m < 2 ^ 32 -> 0 <= l < 2 ^ 32 -> o = zlen pre ->
  ext_hdr (buf_reader (pre ++ (be_bytes 4 m ++ be_bytes 4 l) ++ post)) o = Ok (m, l).
Proof.
  intros Hm Hl Ho. unfold ext_hdr.
  set (r := [("magic"%string, VInt m); ("len"%string, VInt l)]).
  assert (He : be_bytes 4 m ++ be_bytes 4 l = encode_struct QBIG qcow2_QCowExtension_layout r).
  { cbn. now rewrite app_nil_r. }
  rewrite He.
  change qcow2_QCowExtension_size with (layout_size qcow2_QCowExtension_layout).
  rewrite read_struct_roundtrip; [reflexivity|reflexivity| |exact Ho].
  cbn. repeat split; eexists; (split; [reflexivity|assumption]).
Qed.

(* ---------- the walk ---------- *)
Definition ext_ok (x : Z * list Z) : Prop :=
  0 < fst x < 2 ^ 32 /\ zlen (snd x) < 2 ^ 32 - 7.

Fixpoint ext_positions (xs : list (Z * list Z)) (start : Z) : list (Z * Z * Z) :=
  match xs with
  | [] => []
  | (m, p) :: r => (m, zlen p, start + 8) :: ext_positions r (start + 8 + align8 (zlen p))
  end.

Lemma ext_render1_len x : zlen (ext_render1 x) = 8 + align8 (zlen (snd x)).
Proof.
  destruct x as [m p]. cbn [ext_render1 snd].
  rewrite !zlen_app, !zlen_be_bytes, zlen_repeat.
  pose proof (align8_ge (zlen p) (zlen_nonneg p)). lia.
Qed.

Lemma ext_render_cons x xs : ext_render (x :: xs) = ext_render1 x ++ ext_render xs.
Proof. reflexivity. Qed.

Lemma ext_render_len_ge xs : 8 * zlen xs <= zlen (ext_render xs).
Proof.
  induction xs as [|x xs IH]; [cbn; lia|].
  rewrite ext_render_cons, zlen_app, ext_render1_len, zlen_cons.
  pose proof (align8_ge (zlen (snd x)) (zlen_nonneg _)). pose proof (zlen_nonneg (snd x)). lia.
Qed.

(* how the rendered area ends: an end marker inside [start, end_), or exactly at end_ *)
Definition area_closed (tail : list Z) (area_end end_ : Z) : Prop :=
  (exists post, tail = ext_end_marker ++ post /\ area_end + 8 <= end_) \/ area_end = end_.

Lemma ext_walk_render xs : forall fuel pre tail start end_,
  start = zlen pre -> Forall ext_ok xs ->
  area_closed tail (start + zlen (ext_render xs)) end_ ->
  (length xs < fuel)%nat ->
  ext_walk fuel (buf_reader (pre ++ ext_render xs ++ tail)) start end_ = Ok (ext_positions xs start).
Proof.
  induction xs as [|[m p] xs IH]; intros fuel pre tail start end_ Hs Hok Hclosed Hfuel.
  - cbn [ext_render flat_map app ext_positions] in *. rewrite Z.add_0_r in Hclosed.
    destruct Hclosed as [(post & -> & Hend)|Hend].
    + destruct fuel as [|fuel]; [inversion Hfuel|]. cbn [ext_walk].
      destruct (Z.ltb_spec start end_) as [_|H]; [|lia].
      change ext_end_marker with (be_bytes 4 0 ++ be_bytes 4 0).
      rewrite (ext_hdr_at pre 0 0 post start) by (lia || assumption). cbn [bind].
      change qcow2_QCowExtension_size with 8.
      destruct (Z.gtb_spec (start + 8) end_) as [H|_]; [lia|].
      destruct (Z.gtb_spec 0 (end_ - (start + 8))) as [H|_]; [lia|]. reflexivity.
    + subst end_. destruct fuel; cbn [ext_walk]; rewrite Z.ltb_irrefl; reflexivity.
  - pose proof (Forall_inv Hok) as [Hm Hp]. pose proof (Forall_inv_tail Hok) as Hok'.
    cbn [fst snd] in Hm, Hp.
    destruct fuel as [|fuel]; [inversion Hfuel|].
    rewrite ext_render_cons in *. rewrite zlen_app, ext_render1_len in Hclosed. cbn [snd] in Hclosed.
    pose proof (zlen_nonneg p) as Hp0. pose proof (align8_ge (zlen p) Hp0) as Hal.
    pose proof (zlen_nonneg (ext_render xs)) as Hr0.
    assert (Hend : start + 8 + align8 (zlen p) + zlen (ext_render xs) <= end_).
    { destruct Hclosed as [(post & _ & H)|H]; lia. }
    cbn [ext_walk ext_positions].
    destruct (Z.ltb_spec start end_) as [_|H]; [|lia].
    set (padding := repeat 0 (Z.to_nat (align8 (zlen p) - zlen p))).
    replace (pre ++ (ext_render1 (m, p) ++ ext_render xs) ++ tail)
      with (pre ++ (be_bytes 4 m ++ be_bytes 4 (zlen p)) ++ (p ++ padding ++ ext_render xs ++ tail))
      by (cbn [ext_render1]; fold padding; assoc).
    rewrite (ext_hdr_at pre m (zlen p) _ start) by (lia || assumption). cbn [bind].
    change qcow2_QCowExtension_size with 8.
    destruct (Z.gtb_spec (start + 8) end_) as [H|_]; [lia|].
    destruct (Z.gtb_spec (zlen p) (end_ - (start + 8))) as [H|_]; [lia|]. cbn [orb].
    destruct (Z.eqb_spec m qcow2_QCOW2_EXT_MAGIC_END) as [H|_]; [change qcow2_QCOW2_EXT_MAGIC_END with 0 in H; lia|].
    rewrite pad8_align by lia.
    replace (pre ++ (be_bytes 4 m ++ be_bytes 4 (zlen p)) ++ p ++ padding ++ ext_render xs ++ tail)
      with ((pre ++ ext_render1 (m, p)) ++ ext_render xs ++ tail)
      by (cbn [ext_render1]; fold padding; assoc).
    rewrite (IH fuel (pre ++ ext_render1 (m, p)) tail (start + 8 + align8 (zlen p)) end_).
    + reflexivity.
    + rewrite zlen_app, ext_render1_len. cbn [snd]. lia.
    + assumption.
    + replace (start + 8 + align8 (zlen p) + zlen (ext_render xs))
        with (start + (8 + align8 (zlen p) + zlen (ext_render xs))) by lia. exact Hclosed.
    + cbn [length] in Hfuel. lia.
Qed.

(* every visited payload is read back as stored *)
Lemma ext_payloads_render xs : forall pre tail start,
  start = zlen pre ->
  map (fun x => let '(m, l, o) := x in (m, buf_reader (pre ++ ext_render xs ++ tail) o l))
      (ext_positions xs start) = xs.
Proof.
  induction xs as [|[m p] xs IH]; intros pre tail start Hs; [reflexivity|].
  cbn [ext_positions map]. f_equal.
  - f_equal. rewrite ext_render_cons. cbn [ext_render1].
    replace (pre ++ ((be_bytes 4 m ++ be_bytes 4 (zlen p) ++ p ++
                      repeat 0 (Z.to_nat (align8 (zlen p) - zlen p))) ++ ext_render xs) ++ tail)
      with ((pre ++ be_bytes 4 m ++ be_bytes 4 (zlen p)) ++ p ++
            (repeat 0 (Z.to_nat (align8 (zlen p) - zlen p)) ++ ext_render xs ++ tail)) by assoc.
    apply buf_reader_mid; [|reflexivity].
    rewrite !zlen_app, !zlen_be_bytes. lia.
  - rewrite ext_render_cons.
    replace (pre ++ (ext_render1 (m, p) ++ ext_render xs) ++ tail)
      with ((pre ++ ext_render1 (m, p)) ++ ext_render xs ++ tail) by assoc.
    apply IH. rewrite zlen_app, ext_render1_len. cbn [snd]. lia.
Qed.

Lemma ext_fuel_enough xs start end_ :
  0 <= start -> start + zlen (ext_render xs) <= end_ -> (length xs < ext_fuel start end_)%nat.
Proof.
  intros Hs He. unfold ext_fuel.
  pose proof (ext_render_len_ge xs) as Hl. unfold zlen in Hl at 1.
  assert (Z.of_nat (length xs) <= (end_ - start) / 8).
  { apply Z.div_le_lower_bound; lia. }
  lia.
Qed.

(* walk (render exts) = exts : any count, any lengths below 2^32 - 7, with the fuel the model uses *)
Theorem qcow2_ext_roundtrip xs pre tail end_ :
  let start := zlen pre in
  let rd := buf_reader (pre ++ ext_render xs ++ tail) in
  Forall ext_ok xs ->
  area_closed tail (start + zlen (ext_render xs)) end_ ->
  exists ps, ext_walk (ext_fuel start end_) rd start end_ = Ok ps /\
             map (fun x => let '(m, l, o) := x in (m, rd o l)) ps = xs.
Proof.
  intros start rd Hok Hclosed. exists (ext_positions xs start). split.
  - apply ext_walk_render; try assumption; [reflexivity|].
    apply ext_fuel_enough; [apply zlen_nonneg|].
    pose proof (zlen_nonneg (ext_render xs)).
    destruct Hclosed as [(post & _ & H0)|H0]; fold start in H0; lia.
  - apply ext_payloads_render. reflexivity.
Qed.

(* the walk never runs out of fuel, whatever the file holds *)
Lemma ext_walk_fuel rd : forall fuel offset end_,
  (end_ - offset) / 8 + 1 < Z.of_nat fuel -> ext_walk fuel rd offset end_ <> Fuel.
Proof.
  induction fuel as [|fuel IH]; intros offset end_ Hf.
  - cbn [ext_walk]. destruct (Z.ltb_spec offset end_) as [H|H]; [|discriminate].
    assert (0 <= (end_ - offset) / 8) by (apply Z.div_pos; lia). lia.
  - cbn [ext_walk]. destruct (Z.ltb_spec offset end_) as [Hlt|_]; [|discriminate].
    destruct (ext_hdr rd offset) as [[magic len]| |] eqn:Hh; cbn [bind]; try discriminate.
    + change qcow2_QCowExtension_size with 8.
      destruct ((offset + 8 >? end_) || (len >? end_ - (offset + 8))) eqn:Hb; [discriminate|].
      destruct (magic =? qcow2_QCOW2_EXT_MAGIC_END); [discriminate|].
      apply orb_false_elim in Hb as [_ Hb].
      destruct (Z.gtb_spec len (end_ - (offset + 8))) as [|Hlen]; [discriminate|].
      assert (Hp : 0 <= pad8 len) by (unfold pad8; apply Z.land_nonneg; right; lia).
      specialize (IH (offset + 8 + pad8 len) end_).
      destruct (ext_walk fuel rd (offset + 8 + pad8 len) end_) eqn:Hw; cbn [bind]; try discriminate.
      exfalso. apply IH; [|reflexivity].
      assert ((end_ - (offset + 8 + pad8 len)) / 8 <= (end_ - offset) / 8 - 1).
      { replace (end_ - offset) with (end_ - (offset + 8) + 1 * 8) by lia.
        rewrite Z.div_add by lia. assert ((end_ - (offset + 8 + pad8 len)) / 8 <= (end_ - (offset + 8)) / 8)
          by (apply Z.div_le_mono; lia). lia. }
      lia.
    + unfold ext_hdr, read_struct, read_exact in Hh.
      destruct (zlen (rd offset qcow2_QCowExtension_size) <? qcow2_QCowExtension_size);
        cbn [bind] in Hh; try discriminate.
      destruct (decode_struct QBIG qcow2_QCowExtension_layout qcow2_QCowExtension_size
                              (rd offset qcow2_QCowExtension_size));
        cbn [of_option bind] in Hh; discriminate.
Qed.

(* ---------- version-2 headers ---------- *)
(* with the repaired constructor the extension walk of a version-2 image starts at byte 72
   and nothing the model exposes depends on header bytes 72..111 *)
Definition hdr_set (h : record) (n : string) (v : Z) : record :=
  map (fun kv => if String.eqb (fst kv) n then (fst kv, VInt v) else kv) h.
