(* Proofs/MetaQcow2.v — the QCOW2 extension walk and snapshot table reader return exactly what
   the format's writer stored, for every count and every length. *)
From Coq Require Import String ZArith List Bool Lia.
From DH Require Import Base.Arith Base.Plan Base.Layout Gen.Consts Gen.Layouts Gen.MetaQcow2Tables
     Model.MetaCodec Model.MetaQcow2 Proofs.MetaCodec.
Import ListNotations.
Open Scope list_scope.
Open Scope Z_scope.

Ltac assoc := repeat rewrite <- app_assoc; reflexivity.

(* the offsets QCow2.__init__ hard-wires are those of the generated header layout *)
Lemma q_offsets :
  Q_V2_HEADER_LENGTH = field_off qcow2_QCowHeader_layout "incompatible_features" /\
  Q_COMPRESSION_OFFSET = field_off qcow2_QCowHeader_layout "compression_type" /\
  XSZ = 24 /\ qcow2_QCowExtension_size = 8.
Proof. repeat split; reflexivity. Qed.

Lemma pad8_align len : 0 <= len < 2 ^ 32 - 7 -> pad8 len = align8 len.
Proof.
  intros H. unfold pad8, align8. change meta_qcow2_pad_mask with 4294967288. apply land_mask8. lia.
Qed.

Lemma align8_ge n : 0 <= n -> n <= align8 n.
Proof. intros H. apply (align8z_bounds n H). Qed.

(* ---------- extension headers ---------- *)
Lemma ext_hdr_at pre m l post o :
  0 <= m < 2 ^ 32 -> 0 <= l < 2 ^ 32 -> o = zlen pre ->
  ext_hdr (buf_reader (pre ++ (be_bytes 4 m ++ be_bytes 4 l) ++ post)) o = Ok (m, l).
Proof.
  intros Hm Hl Ho. unfold ext_hdr.
  set (r := [("magic"%string, VInt m); ("len"%string, VInt l)]).
  assert (He : be_bytes 4 m ++ be_bytes 4 l = encode_struct QBIG qcow2_QCowExtension_layout r).
  { cbn. now rewrite app_nil_r. }
  rewrite He.
  change qcow2_QCowExtension_size with (layout_size qcow2_QCowExtension_layout).
  rewrite read_struct_roundtrip; [reflexivity|reflexivity| |exact Ho].
  cbn. repeat split; eexists; (split; [reflexivity|assumption]).
Qed.

(* ---------- the walk ---------- *)
Definition ext_ok (x : Z * list Z) : Prop :=
  0 < fst x < 2 ^ 32 /\ zlen (snd x) < 2 ^ 32 - 7.

Fixpoint ext_positions (xs : list (Z * list Z)) (start : Z) : list (Z * Z * Z) :=
  match xs with
  | [] => []
  | (m, p) :: r => (m, zlen p, start + 8) :: ext_positions r (start + 8 + align8 (zlen p))
  end.

Lemma ext_render1_len x : zlen (ext_render1 x) = 8 + align8 (zlen (snd x)).
Proof.
  destruct x as [m p]. cbn [ext_render1 snd].
  rewrite !zlen_app, !zlen_be_bytes, zlen_repeat.
  pose proof (align8_ge (zlen p) (zlen_nonneg p)). lia.
Qed.

Lemma ext_render_cons x xs : ext_render (x :: xs) = ext_render1 x ++ ext_render xs.
Proof. reflexivity. Qed.

Lemma ext_render_len_ge xs : 8 * zlen xs <= zlen (ext_render xs).
Proof.
  induction xs as [|x xs IH]; [cbn; lia|].
  rewrite ext_render_cons, zlen_app, ext_render1_len, zlen_cons.
  pose proof (align8_ge (zlen (snd x)) (zlen_nonneg _)). pose proof (zlen_nonneg (snd x)). lia.
Qed.

(* how the rendered area ends: an end marker inside [start, end_), or exactly at end_ *)
Definition area_closed (tail : list Z) (area_end end_ : Z) : Prop :=
  (exists post, tail = ext_end_marker ++ post /\ area_end + 8 <= end_) \/ area_end = end_.

Lemma ext_walk_render xs : forall fuel pre tail start end_,
  start = zlen pre -> Forall ext_ok xs ->
  area_closed tail (start + zlen (ext_render xs)) end_ ->
  (length xs < fuel)%nat ->
  ext_walk fuel (buf_reader (pre ++ ext_render xs ++ tail)) start end_ = Ok (ext_positions xs start).
Proof.
  induction xs as [|[m p] xs IH]; intros fuel pre tail start end_ Hs Hok Hclosed Hfuel.
  - cbn [ext_render flat_map app ext_positions] in *. rewrite Z.add_0_r in Hclosed.
    destruct Hclosed as [(post & -> & Hend)|Hend].
    + destruct fuel as [|fuel]; [inversion Hfuel|]. cbn [ext_walk].
      destruct (Z.ltb_spec start end_) as [_|H]; [|lia].
      change ext_end_marker with (be_bytes 4 0 ++ be_bytes 4 0).
      rewrite (ext_hdr_at pre 0 0 post start) by (lia || assumption). cbn [bind].
      change qcow2_QCowExtension_size with 8.
      destruct (Z.gtb_spec (start + 8) end_) as [H|_]; [lia|].
      destruct (Z.gtb_spec 0 (end_ - (start + 8))) as [H|_]; [lia|]. reflexivity.
    + subst end_. destruct fuel; cbn [ext_walk]; rewrite Z.ltb_irrefl; reflexivity.
  - pose proof (Forall_inv Hok) as [Hm Hp]. pose proof (Forall_inv_tail Hok) as Hok'.
    cbn [fst snd] in Hm, Hp.
    destruct fuel as [|fuel]; [inversion Hfuel|].
    rewrite ext_render_cons in *. rewrite zlen_app, ext_render1_len in Hclosed. cbn [snd] in Hclosed.
    pose proof (zlen_nonneg p) as Hp0. pose proof (align8_ge (zlen p) Hp0) as Hal.
    pose proof (zlen_nonneg (ext_render xs)) as Hr0.
    assert (Hend : start + 8 + align8 (zlen p) + zlen (ext_render xs) <= end_).
    { destruct Hclosed as [(post & _ & H)|H]; lia. }
    cbn [ext_walk ext_positions].
    destruct (Z.ltb_spec start end_) as [_|H]; [|lia].
    set (padding := repeat 0 (Z.to_nat (align8 (zlen p) - zlen p))).
    replace (pre ++ (ext_render1 (m, p) ++ ext_render xs) ++ tail)
      with (pre ++ (be_bytes 4 m ++ be_bytes 4 (zlen p)) ++ (p ++ padding ++ ext_render xs ++ tail))
      by (cbn [ext_render1]; fold padding; assoc).
    rewrite (ext_hdr_at pre m (zlen p) _ start) by (lia || assumption). cbn [bind].
    change qcow2_QCowExtension_size with 8.
    destruct (Z.gtb_spec (start + 8) end_) as [H|_]; [lia|].
    destruct (Z.gtb_spec (zlen p) (end_ - (start + 8))) as [H|_]; [lia|]. cbn [orb].
    destruct (Z.eqb_spec m qcow2_QCOW2_EXT_MAGIC_END) as [H|_]; [change qcow2_QCOW2_EXT_MAGIC_END with 0 in H; lia|].
    rewrite pad8_align by lia.
    replace (pre ++ (be_bytes 4 m ++ be_bytes 4 (zlen p)) ++ p ++ padding ++ ext_render xs ++ tail)
      with ((pre ++ ext_render1 (m, p)) ++ ext_render xs ++ tail)
      by (cbn [ext_render1]; fold padding; assoc).
    rewrite (IH fuel (pre ++ ext_render1 (m, p)) tail (start + 8 + align8 (zlen p)) end_).
    + reflexivity.
    + rewrite zlen_app, ext_render1_len. cbn [snd]. lia.
    + assumption.
    + replace (start + 8 + align8 (zlen p) + zlen (ext_render xs))
        with (start + (8 + align8 (zlen p) + zlen (ext_render xs))) by lia. exact Hclosed.
    + cbn [length] in Hfuel. lia.
Qed.

(* every visited payload is read back as stored *)
Lemma ext_payloads_render xs : forall pre tail start,
  start = zlen pre ->
  map (fun x => let '(m, l, o) := x in (m, buf_reader (pre ++ ext_render xs ++ tail) o l))
      (ext_positions xs start) = xs.
Proof.
  induction xs as [|[m p] xs IH]; intros pre tail start Hs; [reflexivity|].
  cbn [ext_positions map]. f_equal.
  - f_equal. rewrite ext_render_cons. cbn [ext_render1].
    replace (pre ++ ((be_bytes 4 m ++ be_bytes 4 (zlen p) ++ p ++
                      repeat 0 (Z.to_nat (align8 (zlen p) - zlen p))) ++ ext_render xs) ++ tail)
      with ((pre ++ be_bytes 4 m ++ be_bytes 4 (zlen p)) ++ p ++
            (repeat 0 (Z.to_nat (align8 (zlen p) - zlen p)) ++ ext_render xs ++ tail)) by assoc.
    apply buf_reader_mid; [|reflexivity].
    rewrite !zlen_app, !zlen_be_bytes. lia.
  - rewrite ext_render_cons.
    replace (pre ++ (ext_render1 (m, p) ++ ext_render xs) ++ tail)
      with ((pre ++ ext_render1 (m, p)) ++ ext_render xs ++ tail) by assoc.
    apply IH. rewrite zlen_app, ext_render1_len. cbn [snd]. lia.
Qed.

Lemma ext_fuel_enough xs start end_ :
  0 <= start -> start + zlen (ext_render xs) <= end_ -> (length xs < ext_fuel start end_)%nat.
Proof.
  intros Hs He. unfold ext_fuel.
  pose proof (ext_render_len_ge xs) as Hl. unfold zlen in Hl at 1.
  assert (Z.of_nat (length xs) <= (end_ - start) / 8).
  { apply Z.div_le_lower_bound; lia. }
  lia.
Qed.

(* walk (render exts) = exts : any count, any lengths below 2^32 - 7, with the fuel the model uses *)
Theorem qcow2_ext_roundtrip xs pre tail end_ :
  let start := zlen pre in
  let rd := buf_reader (pre ++ ext_render xs ++ tail) in
  Forall ext_ok xs ->
  area_closed tail (start + zlen (ext_render xs)) end_ ->
  exists ps, ext_walk (ext_fuel start end_) rd start end_ = Ok ps /\
             map (fun x => let '(m, l, o) := x in (m, rd o l)) ps = xs.
Proof.
  intros start rd Hok Hclosed. exists (ext_positions xs start). split.
  - apply ext_walk_render; try assumption; [reflexivity|].
    apply ext_fuel_enough; [apply zlen_nonneg|].
    pose proof (zlen_nonneg (ext_render xs)).
    destruct Hclosed as [(post & _ & H0)|H0]; fold start in H0; lia.
  - apply ext_payloads_render. reflexivity.
Qed.

(* the walk never runs out of fuel, whatever the file holds *)
Lemma ext_walk_fuel rd : forall fuel offset end_,
  (end_ - offset) / 8 + 1 < Z.of_nat fuel -> ext_walk fuel rd offset end_ <> Fuel.
Proof.
  induction fuel as [|fuel IH]; intros offset end_ Hf.
  - cbn [ext_walk]. destruct (Z.ltb_spec offset end_) as [H|H]; [|discriminate].
    assert (0 <= (end_ - offset) / 8) by (apply Z.div_pos; lia). lia.
  - cbn [ext_walk]. destruct (Z.ltb_spec offset end_) as [Hlt|_]; [|discriminate].
    destruct (ext_hdr rd offset) as [[magic len]| |] eqn:Hh; cbn [bind]; try discriminate.
    + change qcow2_QCowExtension_size with 8.
      destruct ((offset + 8 >? end_) || (len >? end_ - (offset + 8))) eqn:Hb; [discriminate|].
      destruct (magic =? qcow2_QCOW2_EXT_MAGIC_END); [discriminate|].
      apply orb_false_elim in Hb as [_ Hb].
      destruct (Z.gtb_spec len (end_ - (offset + 8))) as [|Hlen]; [discriminate|].
      assert (Hp : 0 <= pad8 len) by (unfold pad8; apply Z.land_nonneg; right; unfold meta_qcow2_pad_mask; lia).
      specialize (IH (offset + 8 + pad8 len) end_).
      destruct (ext_walk fuel rd (offset + 8 + pad8 len) end_) eqn:Hw; cbn [bind]; try discriminate.
      exfalso. apply IH; [|reflexivity].
      assert ((end_ - (offset + 8 + pad8 len)) / 8 <= (end_ - offset) / 8 - 1).
      { replace (end_ - offset) with (end_ - (offset + 8) + 1 * 8) by lia.
        rewrite Z.div_add by lia. assert ((end_ - (offset + 8 + pad8 len)) / 8 <= (end_ - (offset + 8)) / 8)
          by (apply Z.div_le_mono; lia). lia. }
      lia.
    + unfold ext_hdr, read_struct, read_exact in Hh.
      destruct (zlen (rd offset qcow2_QCowExtension_size) <? qcow2_QCowExtension_size);
        cbn [bind] in Hh; try discriminate.
      destruct (decode_struct QBIG qcow2_QCowExtension_layout qcow2_QCowExtension_size
                              (rd offset qcow2_QCowExtension_size));
        cbn [of_option bind] in Hh; discriminate.
Qed.

(* ---------- snapshot table ---------- *)
Lemma buf_reader_prefix (pre x post : list Z) o n :
  o = zlen pre -> 0 <= n <= zlen x ->
  buf_reader (pre ++ x ++ post) o n = firstn (Z.to_nat n) x.
Proof.
  intros -> Hn. unfold buf_reader.
  destruct (Z.ltb_spec (zlen pre) 0) as [H|_]; [pose proof (zlen_nonneg pre); lia|].
  unfold slice, zlen in *. rewrite Nat2Z.id.
  rewrite skipn_app, skipn_all, Nat.sub_diag. cbn [skipn app].
  rewrite firstn_app. replace (Z.to_nat n - length x)%nat with 0%nat by lia.
  cbn [firstn]. apply app_nil_r.
Qed.

Definition snap_wf (s : snap_spec) : Prop :=
  0 <= ss_l1_table_offset s < 2 ^ 64 /\ 0 <= ss_l1_size s < 2 ^ 32 /\
  0 <= ss_date_sec s < 2 ^ 32 /\ 0 <= ss_date_nsec s < 2 ^ 32 /\
  0 <= ss_vm_clock_nsec s < 2 ^ 64 /\ 0 <= ss_vm_state_size s < 2 ^ 32 /\
  zlen (ss_extra s) < 2 ^ 32 /\ zlen (ss_id s) < 2 ^ 16 /\ zlen (ss_name s) < 2 ^ 16.

Definition snap_hdr_record (s : snap_spec) : record :=
  [("l1_table_offset"%string, VInt (ss_l1_table_offset s)); ("l1_size"%string, VInt (ss_l1_size s));
   ("id_str_size"%string, VInt (zlen (ss_id s))); ("name_size"%string, VInt (zlen (ss_name s)));
   ("date_sec"%string, VInt (ss_date_sec s)); ("date_nsec"%string, VInt (ss_date_nsec s));
   ("vm_clock_nsec"%string, VInt (ss_vm_clock_nsec s)); ("vm_state_size"%string, VInt (ss_vm_state_size s));
   ("extra_data_size"%string, VInt (zlen (ss_extra s)))].

Definition snap_known_extra (s : snap_spec) : list Z :=
  ljust (firstn (Z.to_nat (Z.min (zlen (ss_extra s)) XSZ)) (ss_extra s)) XSZ.

Definition snap_tail (s : snap_spec) : list Z :=
  let body := encode_struct QBIG qcow2_QCowSnapshotHeader_layout (snap_hdr_record s)
              ++ ss_extra s ++ ss_id s ++ ss_name s in
  repeat 0 (Z.to_nat (align8 (zlen body) - zlen body)).

Lemma snap_render_split s :
  snap_render s = encode_struct QBIG qcow2_QCowSnapshotHeader_layout (snap_hdr_record s)
                  ++ ss_extra s ++ ss_id s ++ ss_name s ++ snap_tail s.
Proof.
  unfold snap_render, snap_tail. cbn [encode_struct snap_hdr_record encode_field qcow2_QCowSnapshotHeader_layout
    f_size bytes_of QBIG qcow2_big_endian Z.to_nat Pos.to_nat Pos.iter_op Nat.add].
  rewrite !app_nil_r. repeat rewrite <- app_assoc. reflexivity.
Qed.

(* what the reader returns for one rendered entry *)
Definition snap_expected (s : snap_spec) (ids nm : list Z) : q_snap :=
  let xb := snap_known_extra s in
  {| s_l1_table_offset := ss_l1_table_offset s; s_l1_size := ss_l1_size s;
     s_date_sec := ss_date_sec s; s_date_nsec := ss_date_nsec s;
     s_vm_clock_nsec := ss_vm_clock_nsec s; s_vm_state_size := ss_vm_state_size s;
     s_extra_size := zlen (ss_extra s);
     s_vm_state_size_large := be_uint (slice xb 0 8); s_disk_size := be_uint (slice xb 8 8);
     s_icount := be_uint (slice xb 16 8);
     s_unknown_extra := if zlen (ss_extra s) - XSZ >? 0 then Some (skipn (Z.to_nat XSZ) (ss_extra s)) else None;
     s_id := ids; s_name := nm;
     s_entry_size := zlen (snap_render s) |}.

Lemma zlen_firstn {A} (l : list A) n : 0 <= n <= zlen l -> zlen (firstn (Z.to_nat n) l) = n.
Proof. intros H. unfold zlen in *. rewrite firstn_length. lia. Qed.

Lemma zlen_skipn {A} (l : list A) n : 0 <= n <= zlen l -> zlen (skipn (Z.to_nat n) l) = zlen l - n.
Proof. intros H. unfold zlen in *. rewrite skipn_length. lia. Qed.

Lemma snap_render_len s :
  zlen (snap_render s) = align8 (40 + zlen (ss_extra s) + zlen (ss_id s) + zlen (ss_name s)).
Proof.
  unfold snap_render. rewrite zlen_app, zlen_repeat.
  set (body := _ ++ _).
  assert (Hb : zlen body = 40 + zlen (ss_extra s) + zlen (ss_id s) + zlen (ss_name s)).
  { unfold body. rewrite !zlen_app, !zlen_be_bytes. lia. }
  rewrite Hb. pose proof (zlen_nonneg (ss_extra s)). pose proof (zlen_nonneg (ss_id s)).
  pose proof (zlen_nonneg (ss_name s)).
  pose proof (align8_ge (40 + zlen (ss_extra s) + zlen (ss_id s) + zlen (ss_name s)) ltac:(lia)). lia.
Qed.

Lemma snap_hdr_wf s : snap_wf s -> wf_vals qcow2_QCowSnapshotHeader_layout (snap_hdr_record s).
Proof.
  intros (Hl1 & Hl1s & Hds & Hdn & Hvc & Hvs & Hxs & Hid & Hnm).
  pose proof (zlen_nonneg (ss_extra s)). pose proof (zlen_nonneg (ss_id s)). pose proof (zlen_nonneg (ss_name s)).
  cbn [wf_vals snap_hdr_record qcow2_QCowSnapshotHeader_layout]. unfold val_ok.
  cbn [is_scalar f_kind f_count Z.eqb Pos.eqb f_size f_name].
  change (256 ^ 8) with (2 ^ 64). change (256 ^ 4) with (2 ^ 32). change (256 ^ 2) with (2 ^ 16).
  repeat split; eexists; (split; [reflexivity|]); lia.
Qed.

Theorem snap_read_render dec8 s pre post ids nm o :
  snap_wf s -> dec8 (ss_id s) = Some ids -> dec8 (ss_name s) = Some nm -> o = zlen pre ->
  snap_read dec8 (buf_reader (pre ++ snap_render s ++ post)) o = Ok (snap_expected s ids nm).
Proof.
  intros Hwf Hdi Hdn' ->. pose proof (snap_hdr_wf s Hwf) as Hhw.
  destruct Hwf as (Hl1 & Hl1s & Hds & Hdn & Hvc & Hvs & Hxs & Hid & Hnm).
  pose proof (zlen_nonneg (ss_extra s)) as Hx0. pose proof (zlen_nonneg (ss_id s)) as Hi0.
  pose proof (zlen_nonneg (ss_name s)) as Hn0.
  unfold snap_read. rewrite snap_render_split.
  set (hdr := encode_struct QBIG qcow2_QCowSnapshotHeader_layout (snap_hdr_record s)).
  set (extra := ss_extra s) in *. set (idb := ss_id s) in *. set (nmb := ss_name s) in *.
  set (tl := snap_tail s).
  assert (Hhl : zlen hdr = 40).
  { unfold hdr. cbn [encode_struct snap_hdr_record encode_field qcow2_QCowSnapshotHeader_layout f_size].
    rewrite !zlen_app, !zlen_bytes_of. reflexivity. }
  replace (pre ++ (hdr ++ extra ++ idb ++ nmb ++ tl) ++ post)
    with (pre ++ hdr ++ (extra ++ idb ++ nmb ++ tl ++ post)) by assoc.
  change qcow2_QCowSnapshotHeader_size with (layout_size qcow2_QCowSnapshotHeader_layout).
  unfold hdr at 1.
  rewrite read_struct_roundtrip; [|reflexivity|exact Hhw|reflexivity].
  cbn [bind]. fold hdr.
  change (vint (snap_hdr_record s) "extra_data_size") with (zlen extra).
  change (vint (snap_hdr_record s) "id_str_size") with (zlen idb).
  change (vint (snap_hdr_record s) "name_size") with (zlen nmb).
  change (vint (snap_hdr_record s) "l1_table_offset") with (ss_l1_table_offset s).
  change (vint (snap_hdr_record s) "l1_size") with (ss_l1_size s).
  change (vint (snap_hdr_record s) "date_sec") with (ss_date_sec s).
  change (vint (snap_hdr_record s) "date_nsec") with (ss_date_nsec s).
  change (vint (snap_hdr_record s) "vm_clock_nsec") with (ss_vm_clock_nsec s).
  change (vint (snap_hdr_record s) "vm_state_size") with (ss_vm_state_size s).
  change (layout_size qcow2_QCowSnapshotHeader_layout) with 40.
  set (known := Z.min (zlen extra) XSZ).
  assert (Hk : 0 <= known <= zlen extra) by (unfold known, XSZ; change qcow2_QCowSnapshotExtraData_size with 24; lia).
  (* the known part of the extra data *)
  replace (pre ++ hdr ++ extra ++ idb ++ nmb ++ tl ++ post)
    with ((pre ++ hdr) ++ extra ++ (idb ++ nmb ++ tl ++ post)) by assoc.
  rewrite (buf_reader_prefix (pre ++ hdr) extra _ (zlen pre + 40) known)
    by (try assumption; rewrite zlen_app; lia).
  rewrite (zlen_firstn extra known Hk).
  fold (snap_known_extra s). unfold snap_known_extra. fold extra. fold known.
  set (xb := ljust (firstn (Z.to_nat known) extra) XSZ).
  assert (Hxb : zlen xb = XSZ).
  { unfold xb, ljust. rewrite zlen_app, zlen_repeat, (zlen_firstn extra known Hk).
    unfold known, XSZ. change qcow2_QCowSnapshotExtraData_size with 24. lia. }
  unfold decode_struct. rewrite Hxb, Z.ltb_irrefl. cbn [of_option bind].
  (* unknown extra data *)
  replace (zlen pre + 40 + known) with (zlen ((pre ++ hdr) ++ firstn (Z.to_nat known) extra))
    by (rewrite !zlen_app, (zlen_firstn extra known Hk); lia).
  assert (Hunk : (if zlen extra - XSZ >? 0
                  then Some (buf_reader ((pre ++ hdr) ++ extra ++ idb ++ nmb ++ tl ++ post)
                               (zlen ((pre ++ hdr) ++ firstn (Z.to_nat known) extra)) (zlen extra - XSZ))
                  else None)
                 = (if zlen extra - XSZ >? 0 then Some (skipn (Z.to_nat XSZ) extra) else None)).
  { destruct (Z.gtb_spec (zlen extra - XSZ) 0) as [Hgt|_]; [|reflexivity]. f_equal.
    assert (known = XSZ) as Hkx by (unfold known; lia).
    rewrite Hkx.
    rewrite <- (firstn_skipn (Z.to_nat XSZ) extra) at 1.
    replace ((pre ++ hdr) ++ (firstn (Z.to_nat XSZ) extra ++ skipn (Z.to_nat XSZ) extra) ++ idb ++ nmb ++ tl ++ post)
      with (((pre ++ hdr) ++ firstn (Z.to_nat XSZ) extra) ++ skipn (Z.to_nat XSZ) extra ++ (idb ++ nmb ++ tl ++ post))
      by assoc.
    apply buf_reader_mid; [reflexivity|].
    rewrite zlen_skipn; [reflexivity|]. unfold XSZ in *. change qcow2_QCowSnapshotExtraData_size with 24 in *. lia. }
  rewrite Hunk. clear Hunk.
  set (unk := if zlen extra - XSZ >? 0 then Some (skipn (Z.to_nat XSZ) extra) else None).
  assert (Hp2 : zlen ((pre ++ hdr) ++ firstn (Z.to_nat known) extra)
                + match unk with Some u => zlen u | None => 0 end = zlen ((pre ++ hdr) ++ extra)).
  { rewrite !zlen_app, (zlen_firstn extra known Hk). unfold unk.
    destruct (Z.gtb_spec (zlen extra - XSZ) 0) as [Hgt|Hle].
    - rewrite zlen_skipn by (unfold XSZ in *; change qcow2_QCowSnapshotExtraData_size with 24 in *; lia).
      unfold known. lia.
    - unfold known. lia. }
  rewrite Hp2.
  (* id and name *)
  replace ((pre ++ hdr) ++ extra ++ idb ++ nmb ++ tl ++ post)
    with (((pre ++ hdr) ++ extra) ++ idb ++ (nmb ++ tl ++ post)) by assoc.
  rewrite (buf_reader_mid ((pre ++ hdr) ++ extra) idb _ _ (zlen idb) eq_refl eq_refl).
  rewrite Hdi. cbn [of_option bind].
  replace (((pre ++ hdr) ++ extra) ++ idb ++ nmb ++ tl ++ post)
    with ((((pre ++ hdr) ++ extra) ++ idb) ++ nmb ++ (tl ++ post)) by assoc.
  rewrite (buf_reader_mid (((pre ++ hdr) ++ extra) ++ idb) nmb _ (zlen ((pre ++ hdr) ++ extra) + zlen idb) (zlen nmb))
    by (try reflexivity; rewrite !zlen_app; lia).
  rewrite Hdn'. cbn [of_option bind].
  unfold snap_expected. f_equal. fold extra. fold idb. fold nmb.
  fold (snap_known_extra s). unfold snap_known_extra. fold extra. fold known. fold xb. fold unk.
  f_equal.
  rewrite snap_render_len. fold extra idb nmb. f_equal. rewrite !zlen_app, Hhl. lia.
Qed.

Definition snap_decodes (dec8 : list Z -> option (list Z)) (s : snap_spec) (e : q_snap) : Prop :=
  exists ids nm, dec8 (ss_id s) = Some ids /\ dec8 (ss_name s) = Some nm /\ e = snap_expected s ids nm.

(* the whole table, any number of entries, each with any extra-data / id / name length *)
Theorem snapshot_table_roundtrip dec8 l es :
  Forall snap_wf l -> Forall2 (snap_decodes dec8) l es ->
  forall pre post o, o = zlen pre ->
  snaps_read dec8 (length l) (buf_reader (pre ++ snaps_render l ++ post)) o = Ok es.
Proof.
  intros Hwf H2. induction H2 as [|s e l es (ids & nm & Hi & Hn & ->) H2 IH]; intros pre post o Ho.
  - reflexivity.
  - pose proof (Forall_inv Hwf) as Hs. pose proof (Forall_inv_tail Hwf) as Hwf'.
    cbn [length snaps_read snaps_render flat_map].
    replace (pre ++ (snap_render s ++ flat_map snap_render l) ++ post)
      with (pre ++ snap_render s ++ (flat_map snap_render l ++ post)) by assoc.
    rewrite (snap_read_render dec8 s pre _ ids nm o Hs Hi Hn Ho). cbn [bind].
    cbn [s_entry_size snap_expected].
    replace (pre ++ snap_render s ++ flat_map snap_render l ++ post)
      with ((pre ++ snap_render s) ++ snaps_render l ++ post) by (unfold snaps_render; assoc).
    rewrite (IH Hwf' (pre ++ snap_render s) post (o + zlen (snap_render s)))
      by (rewrite zlen_app; lia).
    reflexivity.
Qed.

(* ---------- version-2 headers ---------- *)
(* with the repaired constructor the extension walk of a version-2 image starts at byte 72
   and nothing the model exposes depends on header bytes 72..111 *)
Theorem qcow2_v2_defaults dec8 z d b rd m :
  q_open dec8 z d b rd = Ok m -> qm_version m = 2 ->
  qm_header_length m = 72 /\ qm_incompat m = 0 /\ qm_compression m = 0.
Proof.
  unfold q_open. intros H Hv.
  destruct (read_qhdr rd) as [h| |]; cbn [bind] in H; try discriminate.
  repeat match type of H with
         | context [if ?c then _ else _] => destruct c eqn:?; try discriminate
         | context [bind ?x _] => destruct x; cbn [bind] in H; try discriminate
         end;
  inversion H; subst m; cbn in Hv |- *;
  repeat match goal with
         | E : (_ =? _) = true |- _ => apply Z.eqb_eq in E
         | E : (_ =? _) = false |- _ => apply Z.eqb_neq in E
         end; try lia; try (repeat split; reflexivity).
Qed.
