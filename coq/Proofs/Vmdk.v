(* Proofs/Vmdk.v — the VMDK reader model refines the pointwise guest-byte specification. *)
From Coq Require Import ZArith List Bool Lia.
From DH Require Import Base.Arith Base.Plan Base.Table Base.Layout Model.Vmdk.
Import ListNotations.
Open Scope Z_scope.

Lemma SECTOR_eq : SECTOR = 512.
Proof. reflexivity. Qed.

Lemma bind_ok {A B} (r : res A) (k : A -> res B) b :
  bind r k = Ok b -> exists a, r = Ok a /\ k a = Ok b.
Proof. destruct r; simpl; intros H; try discriminate. eauto. Qed.

Lemma firstn_map_zseq {A} (f : Z -> A) o n m :
  0 <= m <= n -> firstn (Z.to_nat m) (map f (zseq o n)) = map f (zseq o m).
Proof.
  intros H. replace n with (m + (n - m)) by lia.
  rewrite zseq_app, map_app by lia.
  rewrite firstn_app.
  replace (Z.to_nat m - length (map f (zseq o m)))%nat with 0%nat.
  2:{ rewrite map_length. pose proof (zseq_length o m ltac:(lia)). lia. }
  rewrite firstn_O, app_nil_r. apply firstn_all2.
  rewrite map_length. pose proof (zseq_length o m ltac:(lia)). lia.
Qed.

(* ====================================================================== *)
(* The coalescer and the run executor, for an abstract grain lookup.      *)
(* ====================================================================== *)
Section Runs.
  Variable gs : Z.
  Variable soff : Z.
  Variable look : Z -> res Z.
  Variable compressed : bool.
  Variable has_parent : bool.
  Hypothesis Hgs : 0 < gs.

  Let gb := gs * 512.

  (* what a grain code means for byte k of its grain, at extent offset o *)
  Definition code_src (v o k : Z) : src :=
    if v =? 0 then (if has_parent then Parent (soff * 512 + o) else Zero)
    else if v =? 1 then Zero
    else if compressed then Infl v k else File (v * 512 + k).

  (* the pointwise source the extent is supposed to show *)
  Variable G : Z -> src.
  Hypothesis Hlook : forall rs v k,
    0 <= rs -> look (rs / gs) = Ok v -> 0 <= k -> (rs mod gs) * 512 + k < gs * 512 ->
    G (rs * 512 + k) = code_src v (rs * 512 + k) ((rs mod gs) * 512 + k).

  (* byte j of a run, independently of the run's length *)
  Definition run_src (t ro rp j : Z) : src :=
    if t =? 0 then (if has_parent then Parent (rp * 512 + j) else Zero)
    else if t =? 1 then Zero
    else if compressed then Infl (t + (ro * 512 + j) / (gs * 512) * gs) ((ro * 512 + j) mod (gs * 512))
    else File ((t + ro) * 512 + j).

  Definition run_srcs (r : run) : list src :=
    let '(t, ro, rc, rp) := r in map (run_src t ro rp) (zseq 0 (rc * 512)).

  Definition run_ok (r : run) : Prop :=
    let '(t, ro, rc, rp) := r in 0 <= rc /\ 0 <= ro < gs.

  Definition runs_srcs (l : list run) : list src := flat_map run_srcs l.

  (* ---------- the executor ---------- *)
  Lemma comp_loop_srcs fuel : forall t ro rc q,
    0 <= ro < gs ->
    comp_loop gs fuel t ro rc = Ok q ->
    srcs_of q = map (fun j => Infl (t + (ro * 512 + j) / (gs * 512) * gs) ((ro * 512 + j) mod (gs * 512)))
                    (zseq 0 (rc * 512)).
  Proof.
    induction fuel as [|fuel IH]; intros t ro rc q Hro Hrun.
    - simpl in Hrun. destruct (Z.leb_spec rc 0); [|discriminate].
      injection Hrun as <-. rewrite zseq_nonpos by lia. reflexivity.
    - cbn [comp_loop] in Hrun.
      destruct (Z.leb_spec rc 0) as [Hc|Hc].
      { injection Hrun as <-. rewrite zseq_nonpos by lia. reflexivity. }
      set (n := Z.min rc (gs - ro)) in *.
      assert (Hn : 0 < n <= rc /\ n <= gs - ro) by (subst n; lia).
      apply bind_ok in Hrun. destruct Hrun as (rest & Hrest & Hq).
      injection Hq as <-.
      rewrite srcs_of_cons. rewrite SECTOR_eq. cbn [srcs_of_seg].
      rewrite (IH (t + gs) 0 (rc - n) rest ltac:(lia) Hrest).
      replace (rc * 512) with (n * 512 + (rc - n) * 512) by lia.
      rewrite zseq_app by lia. rewrite map_app. f_equal.
      + rewrite (zseq_rel (Infl t)).
        apply map_ext_zseq. intros j Hj.
        rewrite Z.div_small by nia. rewrite Z.mod_small by nia.
        f_equal; lia.
      + destruct (Z.leb_spec (rc - n) 0) as [Hz|Hz].
        { rewrite !zseq_nonpos by lia. reflexivity. }
        assert (Hfull : n = gs - ro) by lia.
        replace (0 + n * 512) with (0 + n * 512) by lia.
        rewrite (zseq_rel _ (0 + n * 512)).
        apply map_ext_zseq. intros j Hj.
        replace (ro * 512 + (0 + n * 512 + j)) with (1 * (gs * 512) + j) by nia.
        replace (0 * 512 + j) with j by lia.
        assert (Hgb : 0 < gs * 512) by lia.
        rewrite Z.div_add_l by lia.
        replace ((1 * (gs * 512) + j) mod (gs * 512)) with (j mod (gs * 512))
          by (rewrite (Z.add_comm (1 * (gs * 512)) j), Z.mod_add by lia; reflexivity).
        f_equal. lia.
  Qed.

  Lemma exec_run_srcs r q :
    run_ok r -> exec_run gs compressed has_parent r = Ok q -> srcs_of q = run_srcs r.
  Proof.
    destruct r as [[[t ro] rc] rp]. unfold run_ok, exec_run, run_srcs. intros [Hrc Hro] Hrun.
    rewrite SECTOR_eq in Hrun.
    destruct (Z.eqb_spec t 0) as [->|Ht0].
    { injection Hrun as <-. unfold srcs_of. simpl. rewrite app_nil_r.
      unfold run_src. cbn [Z.eqb].
      destruct has_parent; cbn [srcs_of_seg].
      - rewrite (zseq_rel Parent). apply map_ext. intros j. reflexivity.
      - apply map_ext. intros j. reflexivity. }
    destruct (Z.eqb_spec t 1) as [->|Ht1].
    { injection Hrun as <-. unfold srcs_of. simpl. rewrite app_nil_r.
      apply map_ext. intros j. reflexivity. }
    destruct compressed eqn:Hcomp; cbn [negb] in Hrun.
    - rewrite (comp_loop_srcs _ _ _ _ _ Hro Hrun).
      apply map_ext. intros j. unfold run_src. rewrite Hcomp.
      destruct (Z.eqb_spec t 0); [lia|]. destruct (Z.eqb_spec t 1); [lia|]. reflexivity.
    - injection Hrun as <-. unfold srcs_of. simpl. rewrite app_nil_r.
      rewrite (zseq_rel File). apply map_ext. intros j. unfold run_src. rewrite Hcomp.
      destruct (Z.eqb_spec t 0); [lia|]. destruct (Z.eqb_spec t 1); [lia|]. reflexivity.
  Qed.

  Lemma exec_runs_srcs l : forall p,
    Forall run_ok l -> exec_runs gs compressed has_parent l = Ok p -> srcs_of p = runs_srcs l.
  Proof.
    induction l as [|r l IH]; intros p Hok Hrun.
    - injection Hrun as <-. reflexivity.
    - cbn [exec_runs] in Hrun. inversion Hok as [|? ? Hr Hl]; subst.
      apply bind_ok in Hrun. destruct Hrun as (a & Ha & Hrun).
      apply bind_ok in Hrun. destruct Hrun as (b & Hb & Hp). injection Hp as <-.
      rewrite srcs_of_app. unfold runs_srcs. cbn [flat_map].
      rewrite (exec_run_srcs r a Hr Ha). rewrite (IH b Hl Hb). reflexivity.
  Qed.

  (* ---------- the coalescer ---------- *)
  (* invariant of an open run (t, ro, rc, rp) when the loop stands at sector rs with cnt sectors to go *)
  Definition open_inv (t ro rc rp ngs rs cnt : Z) : Prop :=
    0 < rc <= rs /\ 0 <= ro < gs /\
    (forall j, 0 <= j < rc * 512 -> G ((rs - rc) * 512 + j) = run_src t ro rp j) /\
    (t = 0 -> rp = soff + (rs - rc)) /\
    (1 < t -> 0 < cnt -> ngs = t + ro + rc /\ (ro + rc) mod gs = 0 /\ rs mod gs = 0).

  Definition inv (rt : option Z) (ro rc rp ngs rs cnt : Z) : Prop :=
    match rt with
    | None => rc = 0 /\ 0 <= ro < gs
    | Some t => 0 <= t /\ open_inv t ro rc rp ngs rs cnt
    end.

  Lemma run_src_data t ro rp j : 1 < t ->
    run_src t ro rp j =
    if compressed then Infl (t + (ro * 512 + j) / (gs * 512) * gs) ((ro * 512 + j) mod (gs * 512))
    else File ((t + ro) * 512 + j).
  Proof.
    intros Ht. unfold run_src.
    destruct (Z.eqb_spec t 0); [lia|]. destruct (Z.eqb_spec t 1); [lia|]. reflexivity.
  Qed.

  Lemma G_split a rc n :
    0 <= rc -> 0 <= n ->
    map G (zseq (a * 512) ((rc + n) * 512)) =
    map G (zseq (a * 512) (rc * 512)) ++ map G (zseq ((a + rc) * 512) (n * 512)).
  Proof.
    intros Hrc Hn. replace ((rc + n) * 512) with (rc * 512 + n * 512) by lia.
    rewrite zseq_app by lia. rewrite map_app. do 3 f_equal. lia.
  Qed.

  Hypothesis Hlook_nn : forall g v, look g = Ok v -> 0 <= v.

  Theorem runs_loop_sound fuel : forall rt ro rc rp ngs rs cnt runs,
    0 <= rs ->
    inv rt ro rc rp ngs rs cnt ->
    runs_loop gs soff look fuel rt ro rc rp ngs rs cnt = Ok runs ->
    Forall run_ok runs /\
    runs_srcs runs = map G (zseq ((rs - rc) * 512) ((rc + Z.max cnt 0) * 512)).
  Proof.
    induction fuel as [|fuel IH]; intros rt ro rc rp ngs rs cnt runs Hrs Hinv Hrun.
    - (* no fuel: only the exit branch can return *)
      simpl in Hrun. destruct (Z.leb_spec cnt 0) as [Hc|Hc]; [|discriminate].
      destruct rt as [t|]; [|discriminate]. injection Hrun as <-.
      destruct Hinv as (Ht & (Hrc & Hro & HG & _)).
      split; [constructor; [unfold run_ok; lia|constructor]|].
      unfold runs_srcs. cbn [flat_map run_srcs]. rewrite app_nil_r.
      replace (Z.max cnt 0) with 0 by lia. rewrite Z.add_0_r.
      rewrite (zseq_rel G). apply map_ext_zseq. intros j Hj. symmetry. rewrite <- HG by lia. reflexivity.
    - cbn [runs_loop] in Hrun.
      destruct (Z.leb_spec cnt 0) as [Hc|Hc].
      { destruct rt as [t|]; [|discriminate]. injection Hrun as <-.
        destruct Hinv as (Ht & (Hrc & Hro & HG & _)).
        split; [constructor; [unfold run_ok; lia|constructor]|].
        unfold runs_srcs. cbn [flat_map run_srcs]. rewrite app_nil_r.
        replace (Z.max cnt 0) with 0 by lia. rewrite Z.add_0_r.
        rewrite (zseq_rel G). apply map_ext_zseq. intros j Hj. symmetry. rewrite <- HG by lia. reflexivity. }
      apply bind_ok in Hrun. destruct Hrun as (gsec & Hgsec & Hrun).
      pose proof (Hlook_nn _ _ Hgsec) as Hgnn.
      pose proof (Z.mod_pos_bound rs gs Hgs) as Hgo.
      set (go := rs mod gs) in *.
      set (n := Z.min cnt (gs - go)) in *.
      assert (Hn : 0 < n <= cnt /\ n <= gs - go) by (subst n; lia).
      replace (Z.max cnt 0) with cnt by lia.
      (* the n sectors read in this iteration, according to the lookup *)
      assert (Hnew : forall k, 0 <= k < n * 512 ->
                G (rs * 512 + k) = code_src gsec (rs * 512 + k) (go * 512 + k)).
      { intros k Hk. apply Hlook; [lia|exact Hgsec|lia|]. fold go. nia. }
      assert (Hmore : 0 < cnt - n -> n = gs - go /\ (rs + n) mod gs = 0).
      { intros Hm. assert (Hn' : n = gs - go) by lia. split; [exact Hn'|].
        pose proof (Z.div_mod rs gs ltac:(lia)) as Hdm. fold go in Hdm.
        replace (rs + n) with ((rs / gs + 1) * gs) by nia. apply Z.mod_mul. lia. }
      (* starting a new run at rs, whatever stale run_offset ro0 is carried along *)
      assert (Hstart : forall ro0 rest, 0 <= ro0 < gs ->
                (if gsec =? 0 then runs_loop gs soff look fuel (Some 0) ro0 n (soff + rs) ngs (rs + n) (cnt - n)
                 else if gsec =? 1 then runs_loop gs soff look fuel (Some 1) ro0 n (-1) ngs (rs + n) (cnt - n)
                 else runs_loop gs soff look fuel (Some gsec) go n (-1) (gsec + gs) (rs + n) (cnt - n)) = Ok rest ->
                Forall run_ok rest /\ runs_srcs rest = map G (zseq (rs * 512) (cnt * 512))).
      { intros ro0 rest Hro0 Hrest.
        destruct (Z.eqb_spec gsec 0) as [Hg0|Hg0]; [|destruct (Z.eqb_spec gsec 1) as [Hg1|Hg1]].
        - destruct (IH (Some 0) ro0 n (soff + rs) ngs (rs + n) (cnt - n) rest ltac:(lia))
            as [Hok Hsrc]; [|exact Hrest|].
          { split; [lia|]. unfold open_inv.
            split; [lia|]. split; [lia|]. split; [|split; [intros _; lia|intros Hlt1; lia]].
            intros j Hj. replace ((rs + n - n) * 512 + j) with (rs * 512 + j) by lia.
            rewrite Hnew by lia. unfold code_src, run_src. rewrite Hg0. simpl.
            destruct has_parent; [f_equal; lia|reflexivity]. }
          split; [exact Hok|]. rewrite Hsrc. replace (rs + n - n) with rs by lia.
          replace (Z.max (cnt - n) 0) with (cnt - n) by lia. f_equal. f_equal. lia.
        - destruct (IH (Some 1) ro0 n (-1) ngs (rs + n) (cnt - n) rest ltac:(lia))
            as [Hok Hsrc]; [|exact Hrest|].
          { split; [lia|]. unfold open_inv.
            split; [lia|]. split; [lia|]. split; [|split; [intros H01; lia|intros Hlt1; lia]].
            intros j Hj. replace ((rs + n - n) * 512 + j) with (rs * 512 + j) by lia.
            rewrite Hnew by lia. unfold code_src, run_src. rewrite Hg1. reflexivity. }
          split; [exact Hok|]. rewrite Hsrc. replace (rs + n - n) with rs by lia.
          replace (Z.max (cnt - n) 0) with (cnt - n) by lia. f_equal. f_equal. lia.
        - destruct (IH (Some gsec) go n (-1) (gsec + gs) (rs + n) (cnt - n) rest ltac:(lia))
            as [Hok Hsrc]; [|exact Hrest|].
          { split; [lia|]. unfold open_inv.
            split; [lia|]. split; [lia|]. split; [|split; [intros H0; lia|]].
            - intros j Hj. replace ((rs + n - n) * 512 + j) with (rs * 512 + j) by lia.
              rewrite Hnew by lia. rewrite run_src_data by lia. unfold code_src.
              destruct (Z.eqb_spec gsec 0); [lia|]. destruct (Z.eqb_spec gsec 1); [lia|].
              destruct compressed.
              + rewrite Z.div_small by nia. rewrite Z.mod_small by nia. f_equal; lia.
              + f_equal. lia.
            - intros _ Hm. destruct (Hmore Hm) as [Hfull Hmod].
              split; [lia|]. split; [|exact Hmod].
              replace (go + n) with (1 * gs) by lia. apply Z.mod_mul. lia. }
          split; [exact Hok|]. rewrite Hsrc. replace (rs + n - n) with rs by lia.
          replace (Z.max (cnt - n) 0) with (cnt - n) by lia. f_equal. f_equal. lia. }
      destruct rt as [t|].
      + (* a run is open *)
        destruct Hinv as (Ht & (Hrc & Hro & HG & Hrp & Hdata)).
        destruct (((t =? 0) && (gsec =? 0)) || ((t =? 1) && (gsec =? 1))) eqn:Hsame.
        { (* same kind of hole: extend *)
          assert (Hcase : (t = 0 /\ gsec = 0) \/ (t = 1 /\ gsec = 1)).
          { apply orb_true_iff in Hsame. destruct Hsame as [H|H]; apply andb_true_iff in H;
              destruct H as [H1 H2]; apply Z.eqb_eq in H1, H2; auto. }
          destruct (IH (Some t) ro (rc + n) rp ngs (rs + n) (cnt - n) runs ltac:(lia)) as [Hok Hsrc];
            [|exact Hrun|].
          { split; [exact Ht|]. unfold open_inv.
            split; [lia|]. split; [lia|]. split; [|split].
            - intros j Hj. replace (rs + n - (rc + n)) with (rs - rc) by lia.
              destruct (Z.lt_ge_cases j (rc * 512)) as [Hlt|Hge]; [apply HG; lia|].
              replace ((rs - rc) * 512 + j) with (rs * 512 + (j - rc * 512)) by lia.
              rewrite Hnew by lia. unfold code_src, run_src.
              destruct Hcase as [[Ht0 Hg0]|[Ht1 Hg1]].
              + rewrite Ht0, Hg0. cbn [Z.eqb]. rewrite (Hrp Ht0).
                destruct has_parent; [f_equal; lia|reflexivity].
              + rewrite Ht1, Hg1. reflexivity.
            - intros H0. specialize (Hrp H0). lia.
            - intros Hlt1. destruct Hcase as [[Ht0 _]|[Ht1 _]]; lia. }
          split; [exact Hok|]. rewrite Hsrc.
          replace (rs + n - (rc + n)) with (rs - rc) by lia.
          replace (Z.max (cnt - n) 0) with (cnt - n) by lia.
          f_equal. f_equal. lia. }
        destruct (negb (t =? 0) && (t >? 1) && (gsec =? ngs)) eqn:Hadj.
        { (* the next grain is stored right behind the run: extend the data run *)
          apply andb_true_iff in Hadj. destruct Hadj as [Hadj Hg]. apply andb_true_iff in Hadj.
          destruct Hadj as [_ Ht1]. apply Z.eqb_eq in Hg. apply Z.gtb_lt in Ht1.
          destruct (Hdata Ht1 ltac:(lia)) as (Hngs & Hrmod & Hrsmod).
          assert (Hgo0 : go = 0) by (subst go; exact Hrsmod).
          destruct (IH (Some t) ro (rc + n) rp (ngs + gs) (rs + n) (cnt - n) runs ltac:(lia))
            as [Hok Hsrc]; [|exact Hrun|].
          { split; [exact Ht|]. unfold open_inv.
            split; [lia|]. split; [lia|]. split; [|split].
            - intros j Hj. replace (rs + n - (rc + n)) with (rs - rc) by lia.
              destruct (Z.lt_ge_cases j (rc * 512)) as [Hlt|Hge]; [apply HG; lia|].
              replace ((rs - rc) * 512 + j) with (rs * 512 + (j - rc * 512)) by lia.
              rewrite Hnew by lia. rewrite run_src_data by lia. unfold code_src.
              destruct (Z.eqb_spec gsec 0); [lia|]. destruct (Z.eqb_spec gsec 1); [lia|].
              destruct compressed.
              + pose proof (Z.div_mod (ro + rc) gs ltac:(lia)) as Hdm. rewrite Hrmod in Hdm.
                set (m := (ro + rc) / gs) in *.
                replace (ro * 512 + j) with (m * (gs * 512) + (j - rc * 512)) by nia.
                rewrite div_mul_add by nia. rewrite mod_mul_add by nia.
                f_equal; nia.
              + f_equal. nia.
            - intros H0. lia.
            - intros _ Hm. destruct (Hmore Hm) as [Hfull Hmod].
              split; [lia|]. split; [|exact Hmod].
              pose proof (Z.div_mod (ro + rc) gs ltac:(lia)) as Hdm. rewrite Hrmod in Hdm.
              replace (ro + (rc + n)) with (((ro + rc) / gs + 1) * gs) by nia. apply Z.mod_mul. lia. }
          split; [exact Hok|]. rewrite Hsrc.
          replace (rs + n - (rc + n)) with (rs - rc) by lia.
          replace (Z.max (cnt - n) 0) with (cnt - n) by lia.
          f_equal. f_equal. lia. }
        (* flush the open run and start a new one *)
        apply bind_ok in Hrun. destruct Hrun as (rest & Hrest & Hruns). injection Hruns as <-.
        assert (Hflush : run_ok (t, ro, rc, rp) /\
                  run_srcs (t, ro, rc, rp) = map G (zseq ((rs - rc) * 512) (rc * 512))).
        { split; [unfold run_ok; lia|]. unfold run_srcs.
          rewrite (zseq_rel G). apply map_ext_zseq. intros j Hj. symmetry. rewrite <- HG by lia. reflexivity. }
        destruct Hflush as [Hfok Hfsrc].
        destruct (Hstart ro rest Hro Hrest) as [Hrok Hrsrc].
        split; [constructor; assumption|].
        unfold runs_srcs in *. cbn [app flat_map]. rewrite Hfsrc, Hrsrc.
        rewrite (G_split (rs - rc) rc cnt) by lia. do 3 f_equal. lia.
      + (* no run is open yet *)
        destruct Hinv as [-> Hro]. cbn [orb andb] in Hrun.
        apply bind_ok in Hrun. destruct Hrun as (rest & Hrest & Hruns). injection Hruns as <-.
        destruct (Hstart ro rest Hro Hrest) as [Hrok Hrsrc].
        split; [exact Hrok|]. cbn [app]. rewrite Hrsrc. f_equal. f_equal; lia.
  Qed.

  (* SparseDisk.get_runs: the runs tile the request and every byte of a run is the guest byte *)
  Theorem get_runs_sound fuel sector count runs :
    soff <= sector ->
    get_runs gs soff look fuel sector count = Ok runs ->
    Forall run_ok runs /\
    runs_srcs runs = map G (zseq ((sector - soff) * 512) (count * 512)).
  Proof.
    intros Hs Hrun. unfold get_runs in Hrun.
    destruct (Z.eqb_spec count 0) as [->|Hc0].
    { injection Hrun as <-. split; [constructor|]. rewrite zseq_nonpos by lia. reflexivity. }
    destruct (Z.ltb_spec count 0) as [Hneg|Hpos]; [discriminate|].
    destruct (Z.eqb_spec gs 0) as [Hz|_]; [lia|].
    destruct (runs_loop_sound fuel None 0 0 (-1) 0 (sector - soff) count runs ltac:(lia)
                ltac:(split; lia) Hrun) as [Hok Hsrc].
    split; [exact Hok|]. rewrite Hsrc. replace (Z.max count 0) with count by lia.
    f_equal. f_equal; lia.
  Qed.

  Theorem read_sectors_gen_correct fuel sector count p :
    soff <= sector ->
    read_sectors_gen gs soff look compressed has_parent fuel sector count = Ok p ->
    srcs_of p = map G (zseq ((sector - soff) * 512) (count * 512)).
  Proof.
    intros Hs Hrun. unfold read_sectors_gen in Hrun.
    apply bind_ok in Hrun. destruct Hrun as (runs & Hruns & Hexec).
    destruct (get_runs_sound fuel sector count runs Hs Hruns) as [Hok Hsrc].
    rewrite (exec_runs_srcs runs p Hok Hexec). exact Hsrc.
  Qed.

  (* ---------- progress: the loops end for ANY table content ---------- *)
  Hypothesis Hlook_nf : forall g, look g <> Fuel.

  Lemma runs_loop_fuel fuel : forall rt ro rc rp ngs rs cnt,
    cnt < Z.of_nat fuel -> runs_loop gs soff look fuel rt ro rc rp ngs rs cnt <> Fuel.
  Proof.
    induction fuel as [|fuel IH]; intros rt ro rc rp ngs rs cnt Hf.
    - simpl. destruct (Z.leb_spec cnt 0); [destruct rt; discriminate|lia].
    - cbn [runs_loop]. destruct (Z.leb_spec cnt 0) as [Hc|Hc]; [destruct rt; discriminate|].
      pose proof (Hlook_nf (rs / gs)) as Hnf.
      destruct (look (rs / gs)) as [gsec| |]; cbn [bind]; try discriminate; try congruence.
      pose proof (Z.mod_pos_bound rs gs Hgs) as Hgo.
      set (n := Z.min cnt (gs - rs mod gs)).
      assert (Hn : 0 < n <= cnt) by (subst n; lia).
      assert (Hstep : forall rt' ro' rc' rp' ngs',
                 runs_loop gs soff look fuel rt' ro' rc' rp' ngs' (rs + n) (cnt - n) <> Fuel).
      { intros. apply IH. lia. }
      destruct (match rt with Some t => ((t =? 0) && (gsec =? 0)) || ((t =? 1) && (gsec =? 1)) | None => false end);
        [apply Hstep|].
      destruct (match rt with Some t => negb (t =? 0) && (t >? 1) && (gsec =? ngs) | None => false end);
        [apply Hstep|].
      destruct (gsec =? 0).
      { pose proof (Hstep (Some 0) ro n (soff + rs) ngs) as H.
        destruct (runs_loop gs soff look fuel (Some 0) ro n (soff + rs) ngs (rs + n) (cnt - n)); cbn [bind];
          try discriminate; congruence. }
      destruct (gsec =? 1).
      { pose proof (Hstep (Some 1) ro n (-1) ngs) as H.
        destruct (runs_loop gs soff look fuel (Some 1) ro n (-1) ngs (rs + n) (cnt - n)); cbn [bind];
          try discriminate; congruence. }
      pose proof (Hstep (Some gsec) (rs mod gs) n (-1) (gsec + gs)) as H.
      destruct (runs_loop gs soff look fuel (Some gsec) (rs mod gs) n (-1) (gsec + gs) (rs + n) (cnt - n));
        cbn [bind]; try discriminate; congruence.
  Qed.

  Lemma comp_loop_fuel fuel : forall t ro rc,
    0 <= ro < gs -> rc < Z.of_nat fuel -> comp_loop gs fuel t ro rc <> Fuel.
  Proof.
    induction fuel as [|fuel IH]; intros t ro rc Hro Hf.
    - simpl. destruct (Z.leb_spec rc 0); [discriminate|lia].
    - cbn [comp_loop]. destruct (Z.leb_spec rc 0) as [Hc|Hc]; [discriminate|].
      set (n := Z.min rc (gs - ro)). assert (Hn : 0 < n <= rc) by (subst n; lia).
      pose proof (IH (t + gs) 0 (rc - n) ltac:(lia) ltac:(lia)) as H.
      destruct (comp_loop gs fuel (t + gs) 0 (rc - n)); cbn [bind]; try discriminate; congruence.
  Qed.

  Lemma exec_runs_fuel l : Forall run_ok l -> exec_runs gs compressed has_parent l <> Fuel.
  Proof.
    induction l as [|r l IH]; intros Hok; [discriminate|].
    inversion Hok as [|? ? Hr Hl]; subst. cbn [exec_runs].
    assert (Hr' : exec_run gs compressed has_parent r <> Fuel).
    { destruct r as [[[t ro] rc] rp]. unfold exec_run. destruct Hr as [Hrc Hro].
      destruct (t =? 0); [discriminate|]. destruct (t =? 1); [discriminate|].
      destruct (negb compressed); [discriminate|]. apply comp_loop_fuel; lia. }
    destruct (exec_run gs compressed has_parent r); cbn [bind]; try congruence; try discriminate.
    specialize (IH Hl). destruct (exec_runs gs compressed has_parent l); cbn [bind]; try congruence; discriminate.
  Qed.

  Theorem read_sectors_gen_fuel fuel sector count :
    soff <= sector -> count < Z.of_nat fuel ->
    read_sectors_gen gs soff look compressed has_parent fuel sector count <> Fuel.
  Proof.
    intros Hs Hf. unfold read_sectors_gen.
    destruct (get_runs gs soff look fuel sector count) as [runs| |] eqn:Hruns; cbn [bind]; try discriminate.
    - apply exec_runs_fuel. apply (get_runs_sound fuel sector count runs Hs Hruns).
    - exfalso. unfold get_runs in Hruns.
      destruct (count =? 0); [discriminate|]. destruct (count <? 0); [discriminate|].
      destruct (gs =? 0); [discriminate|].
      exact (runs_loop_fuel fuel None 0 0 (-1) 0 (sector - soff) count Hf Hruns).
  Qed.

  (* ---------- success: when every grain of the request can be looked up ---------- *)
  Lemma runs_loop_ok fuel : forall rt ro rc rp ngs rs cnt lim,
    (forall g, 0 <= g -> g * gs < lim -> exists v, look g = Ok v) ->
    0 <= rs -> rs + cnt <= lim -> cnt < Z.of_nat fuel -> (0 < cnt \/ rt <> None) ->
    exists runs, runs_loop gs soff look fuel rt ro rc rp ngs rs cnt = Ok runs.
  Proof.
    induction fuel as [|fuel IH]; intros rt ro rc rp ngs rs cnt lim Hcov Hrs Hlim Hf Hne.
    - simpl. destruct (Z.leb_spec cnt 0); [|lia]. destruct rt; [eauto|]. destruct Hne; [lia|congruence].
    - cbn [runs_loop]. destruct (Z.leb_spec cnt 0) as [Hc|Hc].
      { destruct rt; [eauto|]. destruct Hne; [lia|congruence]. }
      pose proof (Z.mod_pos_bound rs gs Hgs) as Hgo.
      pose proof (Z.div_mod rs gs ltac:(lia)) as Hdm.
      assert (Hg : 0 <= rs / gs) by (apply Z.div_pos; lia).
      destruct (Hcov (rs / gs) Hg ltac:(nia)) as [gsec Hgsec]. rewrite Hgsec. cbn [bind].
      set (n := Z.min cnt (gs - rs mod gs)).
      assert (Hn : 0 < n <= cnt) by (subst n; lia).
      assert (Hstep : forall rt' ro' rc' rp' ngs', rt' <> None ->
                 exists runs, runs_loop gs soff look fuel rt' ro' rc' rp' ngs' (rs + n) (cnt - n) = Ok runs).
      { intros. apply (IH _ _ _ _ _ _ _ lim Hcov); try lia. right. assumption. }
      destruct (match rt with Some t => ((t =? 0) && (gsec =? 0)) || ((t =? 1) && (gsec =? 1)) | None => false end) eqn:E1.
      { apply Hstep. destruct rt; [discriminate|discriminate]. }
      destruct (match rt with Some t => negb (t =? 0) && (t >? 1) && (gsec =? ngs) | None => false end) eqn:E2.
      { apply Hstep. destruct rt; discriminate. }
      destruct (gsec =? 0).
      { destruct (Hstep (Some 0) ro n (soff + rs) ngs ltac:(discriminate)) as [r ->]. cbn [bind]. eauto. }
      destruct (gsec =? 1).
      { destruct (Hstep (Some 1) ro n (-1) ngs ltac:(discriminate)) as [r ->]. cbn [bind]. eauto. }
      destruct (Hstep (Some gsec) (rs mod gs) n (-1) (gsec + gs) ltac:(discriminate)) as [r ->]. cbn [bind]. eauto.
  Qed.

  Lemma comp_loop_ok fuel : forall t ro rc,
    0 <= ro < gs -> rc < Z.of_nat fuel -> exists q, comp_loop gs fuel t ro rc = Ok q.
  Proof.
    induction fuel as [|fuel IH]; intros t ro rc Hro Hf.
    - simpl. destruct (Z.leb_spec rc 0); [eauto|lia].
    - cbn [comp_loop]. destruct (Z.leb_spec rc 0) as [Hc|Hc]; [eauto|].
      set (n := Z.min rc (gs - ro)). assert (Hn : 0 < n <= rc) by (subst n; lia).
      destruct (IH (t + gs) 0 (rc - n) ltac:(lia) ltac:(lia)) as [q ->]. cbn [bind]. eauto.
  Qed.

  Lemma exec_runs_ok l : Forall run_ok l -> exists p, exec_runs gs compressed has_parent l = Ok p.
  Proof.
    induction l as [|r l IH]; intros Hok; [simpl; eauto|].
    inversion Hok as [|? ? Hr Hl]; subst. cbn [exec_runs].
    assert (Hr' : exists a, exec_run gs compressed has_parent r = Ok a).
    { destruct r as [[[t ro] rc] rp]. unfold exec_run. destruct Hr as [Hrc Hro].
      destruct (t =? 0); [eauto|]. destruct (t =? 1); [eauto|].
      destruct (negb compressed); [eauto|]. apply comp_loop_ok; lia. }
    destruct Hr' as [a ->]. destruct (IH Hl) as [b ->]. cbn [bind]. eauto.
  Qed.

  Theorem read_sectors_gen_ok fuel sector count lim :
    (forall g, 0 <= g -> g * gs < lim -> exists v, look g = Ok v) ->
    soff <= sector -> 0 <= count -> sector - soff + count <= lim -> count < Z.of_nat fuel ->
    exists p, read_sectors_gen gs soff look compressed has_parent fuel sector count = Ok p.
  Proof.
    intros Hcov Hs Hc Hlim Hf. unfold read_sectors_gen.
    assert (Hr : exists runs, get_runs gs soff look fuel sector count = Ok runs).
    { unfold get_runs. destruct (Z.eqb_spec count 0); [eauto|].
      destruct (Z.ltb_spec count 0); [lia|]. destruct (Z.eqb_spec gs 0); [lia|].
      apply (runs_loop_ok fuel None 0 0 (-1) 0 (sector - soff) count lim Hcov); lia. }
    destruct Hr as [runs Hruns]. rewrite Hruns. cbn [bind].
    apply exec_runs_ok. apply (get_runs_sound fuel sector count runs Hs Hruns).
  Qed.
End Runs.

(* ====================================================================== *)
(* Bit-level facts about the masks taken from the source (Gen/*.v).       *)
(* ====================================================================== *)
Lemma land_shifted_ones e s w : 0 <= s -> 0 <= w ->
  Z.land e (Z.shiftl (Z.ones w) s) = ((e / 2 ^ s) mod 2 ^ w) * 2 ^ s.
Proof.
  intros Hs Hw. rewrite <- Z.shiftl_mul_pow2, <- Z.land_ones, <- Z.shiftr_div_pow2 by lia.
  apply Z.bits_inj'. intros i Hi. rewrite Z.land_spec.
  destruct (Z.lt_ge_cases i s) as [Hlt|Hge].
  - rewrite !Z.shiftl_spec_low by lia. apply andb_false_r.
  - rewrite !Z.shiftl_spec by lia. rewrite Z.land_spec, Z.shiftr_spec by lia.
    replace (i - s + s) with i by lia. reflexivity.
Qed.

Lemma lor_disjoint a b n : 0 <= n -> 0 <= a < 2 ^ n -> Z.lor a (Z.shiftl b n) = a + Z.shiftl b n.
Proof.
  intros Hn Ha.
  assert (Hland : Z.land a (Z.shiftl b n) = 0).
  { apply Z.bits_inj'. intros i Hi. rewrite Z.land_spec, Z.bits_0.
    destruct (Z.lt_ge_cases i n) as [Hlt|Hge].
    - rewrite Z.shiftl_spec_low by lia. apply andb_false_r.
    - rewrite <- (Z.mod_small a (2 ^ n)) by lia. rewrite Z.mod_pow2_bits_high by lia. reflexivity. }
  rewrite (Z.add_nocarry_lxor _ _ Hland). symmetry. apply Z.lxor_lor. exact Hland.
Qed.

Definition u64 (e : Z) : Prop := 0 <= e < 2 ^ 64.

(* the grain-type mask selects the top nibble *)
Lemma gte_type_mask e : u64 e ->
  Z.land e C.vmdk_SESPARSE_GRAIN_TYPE_MASK = (e / 2 ^ 60) * 2 ^ 60 /\ 0 <= e / 2 ^ 60 < 16.
Proof.
  intros [H0 H1].
  assert (Hq : 0 <= e / 2 ^ 60 < 16).
  { split; [apply Z.div_pos; lia|]. apply Z.div_lt_upper_bound; [lia|]. exact H1. }
  split; [|exact Hq].
  change C.vmdk_SESPARSE_GRAIN_TYPE_MASK with (Z.shiftl (Z.ones 4) 60).
  rewrite land_shifted_ones by lia. rewrite Z.mod_small; [reflexivity|]. change (2 ^ 4) with 16. exact Hq.
Qed.

(* the two literal masks of _lookup_grain assemble the 60-bit cluster number *)
Lemma se_cluster_spec e : 0 <= e ->
  se_cluster e = (e / 2 ^ 48) mod 2 ^ 12 + (e mod 2 ^ 48) * 2 ^ 12.
Proof.
  intros H0. unfold se_cluster.
  change T.vmdk_gte_hi_mask with (Z.shiftl (Z.ones 12) 48).
  change T.vmdk_gte_lo_mask with (Z.shiftl (Z.ones 48) 0).
  change T.vmdk_gte_hi_shift with 48. change T.vmdk_gte_lo_shift with 12.
  rewrite !land_shifted_ones by lia.
  rewrite Z.shiftr_div_pow2 by lia. rewrite Z.div_mul by lia.
  change (2 ^ 0) with 1. rewrite Z.div_1_r, Z.mul_1_r.
  rewrite lor_disjoint; [rewrite Z.shiftl_mul_pow2 by lia; reflexivity|lia|].
  apply Z.mod_pos_bound. lia.
Qed.

(* the grain-directory check of _lookup_grain_table: top 32 bits = 0x10000000; index = low 32 bits *)
Lemma gde_check_spec e : u64 e ->
  (Z.land e T.vmdk_gde_check_mask =? T.vmdk_gde_check_value) = (e / 2 ^ 32 =? 2 ^ 28) /\
  Z.land e T.vmdk_gde_index_mask = e mod 2 ^ 32.
Proof.
  intros [H0 H1].
  assert (Hq : 0 <= e / 2 ^ 32 < 2 ^ 32).
  { split; [apply Z.div_pos; lia|]. apply Z.div_lt_upper_bound; [lia|]. exact H1. }
  split.
  - change T.vmdk_gde_check_mask with (Z.shiftl (Z.ones 32) 32).
    change T.vmdk_gde_check_value with (2 ^ 28 * 2 ^ 32).
    rewrite land_shifted_ones by lia. rewrite Z.mod_small by exact Hq.
    destruct (Z.eqb_spec (e / 2 ^ 32) (2 ^ 28)) as [Heq|Hne].
    + rewrite Heq. apply Z.eqb_refl.
    + apply Z.eqb_neq. intros Hc. apply Hne. lia.
  - change T.vmdk_gde_index_mask with (Z.shiftl (Z.ones 32) 0).
    rewrite land_shifted_ones by lia. change (2 ^ 0) with 1. rewrite Z.div_1_r, Z.mul_1_r. reflexivity.
Qed.

(* the compressed flag is bit 16 *)
Lemma is_compressed_spec sp : is_compressed sp = stream_optimized sp.
Proof.
  unfold is_compressed, stream_optimized. change C.vmdk_SPARSEFLAG_COMPRESSED with (2 ^ 16).
  set (x := sp_flags sp).
  assert (H : Z.land x (2 ^ 16) = if Z.testbit x 16 then 2 ^ 16 else 0).
  { apply Z.bits_inj'. intros n Hn. rewrite Z.land_spec, Z.pow2_bits_eqb by lia.
    destruct (Z.eqb_spec 16 n) as [<-|Hne].
    - rewrite andb_true_r. destruct (Z.testbit x 16).
      + rewrite Z.pow2_bits_eqb by lia. reflexivity.
      + rewrite Z.bits_0. reflexivity.
    - rewrite andb_false_r. destruct (Z.testbit x 16).
      + rewrite Z.pow2_bits_eqb by lia. symmetry. apply Z.eqb_neq. exact Hne.
      + rewrite Z.bits_0. reflexivity. }
  rewrite H. destruct (Z.testbit x 16); reflexivity.
Qed.

(* ====================================================================== *)
(* The concrete lookup against the format-level grain state.              *)
(* ====================================================================== *)
Definition wf_words (f : vfile) : Prop :=
  (forall o, 0 <= f_u32 f o) /\ (forall o, u64 (f_u64 f o)).

Definition wf_geom (sp : sparse) : Prop :=
  0 < sp_grain_size sp /\
  (sp_se sp = true -> 2 <= sp_grains_off sp /\ (sp_gt_size sp * 8) mod 512 = 0).

Definition code_of_state (st : gstate) (v : Z) : Prop :=
  match st with
  | GAbsent => v = 0
  | GZero => v = 1
  | GData s => v = s /\ 2 <= s
  | GBad => False
  end.

Lemma Ok_inj {A} (a b : A) : Ok a = Ok b -> a = b.
Proof. congruence. Qed.

Lemma table_at_ok f sp sector t : table_at f sp sector = Ok t -> t = Some (sector * 512).
Proof.
  unfold table_at. destruct (array_in_file f (entry_width sp) sector (sp_gt_size sp)); [|discriminate].
  intros [= <-]. reflexivity.
Qed.

Lemma lookup_grain_state f sp g v :
  wf_words f -> wf_geom sp -> lookup_grain f sp g = Ok v -> code_of_state (grain_state f sp g) v.
Proof.
  intros [H32 H64] [Hgs Hse] Hrun. unfold lookup_grain in Hrun.
  destruct (Z.eqb_spec (sp_gt_size sp) 0) as [|Hgt]; [discriminate|].
  apply bind_ok in Hrun. destruct Hrun as (t & Ht & Hrun).
  unfold lookup_grain_table in Ht. unfold grain_state.
  set (dir := g / sp_gt_size sp) in *. set (idx := g mod sp_gt_size sp) in *.
  destruct (gd_entry f sp dir) as [e|] eqn:Hgd; [|discriminate].
  assert (He : e = rd f sp (sp_gd_off sp * SECTOR + entry_width sp * dir)).
  { unfold gd_entry in Hgd. destruct ((0 <=? dir) && (dir <? sp_gd_size sp)); [|discriminate].
    injection Hgd as <-. reflexivity. }
  unfold rd, entry_width in *.
  destruct (sp_se sp) eqn:Hkind.
  - (* SE-sparse *)
    destruct (Hse eq_refl) as [Hgo Hdiv].
    assert (Hu : u64 e) by (rewrite He; apply H64).
    destruct (gde_check_spec e Hu) as [Hchk Hidx].
    unfold se_gde_table. rewrite Hchk in Ht.
    destruct ((e =? 0) || negb (e / 2 ^ 32 =? 2 ^ 28)) eqn:Habs.
    + injection Ht as <-. apply Ok_inj in Hrun; subst v.
      destruct (Z.eqb_spec (e / 2 ^ 32) (2 ^ 28)) as [Heq|Hne]; [|reflexivity].
      apply orb_true_iff in Habs. destruct Habs as [Hz|Hn]; [|discriminate].
      apply Z.eqb_eq in Hz. subst e. discriminate.
    + apply orb_false_iff in Habs. destruct Habs as [_ Hn]. apply negb_false_iff in Hn. rewrite Hn.
      apply table_at_ok in Ht. subst t. rewrite Hidx in Hrun.
      set (i := e mod 2 ^ 32) in *.
      (* the table address: sectors in the code, bytes in the specification *)
      assert (Haddr : (sp_gts_off sp + i * (sp_gt_size sp * 8) / SECTOR) * 512 + 8 * idx =
                      sp_gts_off sp * 512 + i * (sp_gt_size sp * 8) + 8 * idx).
      { rewrite SECTOR_eq. apply Z.div_exact in Hdiv; [|lia].
        set (q := sp_gt_size sp * 8 / 512) in *. rewrite Hdiv.
        replace (i * (512 * q)) with (i * q * 512) by lia. rewrite Z.div_mul by lia. lia. }
      rewrite Haddr in Hrun.
      set (ge := f_u64 f (sp_gts_off sp * 512 + i * (sp_gt_size sp * 8) + 8 * idx)) in *.
      assert (Hge : u64 ge) by apply H64.
      destruct (gte_type_mask ge Hge) as [Hty Hk]. rewrite Hty in Hrun.
      unfold se_gte_state. set (k := ge / 2 ^ 60) in *.
      unfold C.vmdk_SESPARSE_GRAIN_TYPE_UNALLOCATED, C.vmdk_SESPARSE_GRAIN_TYPE_FALLTHROUGH,
        C.vmdk_SESPARSE_GRAIN_TYPE_ZERO, C.vmdk_SESPARSE_GRAIN_TYPE_ALLOCATED in Hrun.
      change (2 ^ 60) with 1152921504606846976 in Hrun.
      destruct (Z.leb_spec k 1) as [Hk1|Hk1].
      { assert (Hc : (k * 1152921504606846976 =? 0) || (k * 1152921504606846976 =? 1152921504606846976) = true).
        { apply orb_true_iff. assert (k = 0 \/ k = 1) as [->| ->] by lia; [left|right]; reflexivity. }
        rewrite Hc in Hrun. apply Ok_inj in Hrun; subst v. reflexivity. }
      assert (Hc : (k * 1152921504606846976 =? 0) || (k * 1152921504606846976 =? 1152921504606846976) = false).
      { apply orb_false_iff. split; apply Z.eqb_neq; lia. }
      rewrite Hc in Hrun.
      destruct (Z.eqb_spec k 2) as [->|Hk2].
      { change (2 * 1152921504606846976 =? 2305843009213693952) with true in Hrun. cbv iota in Hrun.
        apply Ok_inj in Hrun; subst v. reflexivity. }
      destruct (Z.eqb_spec k 3) as [->|Hk3].
      { change (3 * 1152921504606846976 =? 2305843009213693952) with false in Hrun.
        change (3 * 1152921504606846976 =? 3458764513820540928) with true in Hrun. cbv iota in Hrun.
        apply Ok_inj in Hrun; subst v. rewrite se_cluster_spec by (destruct Hge; lia).
        split; [reflexivity|].
        assert (Ha : 0 <= (ge / 2 ^ 48) mod 2 ^ 12) by (apply Z.mod_pos_bound; lia).
        assert (Hb : 0 <= ge mod 2 ^ 48) by (apply Z.mod_pos_bound; lia).
        set (a := (ge / 2 ^ 48) mod 2 ^ 12) in *. set (b := ge mod 2 ^ 48) in *.
        assert (Hab : 0 <= a + b * 2 ^ 12) by (apply Z.add_nonneg_nonneg; [exact Ha|apply Z.mul_nonneg_nonneg; lia]).
        assert (Hm : 0 <= (a + b * 2 ^ 12) * sp_grain_size sp) by (apply Z.mul_nonneg_nonneg; lia).
        lia. }
      destruct (Z.eqb_spec (k * 1152921504606846976) 2305843009213693952) as [|_]; [lia|].
      destruct (Z.eqb_spec (k * 1152921504606846976) 3458764513820540928) as [|_]; [lia|]. discriminate.
  - (* hosted sparse / COWD *)
    assert (He0 : 0 <= e) by (rewrite He; apply H32).
    destruct (Z.eqb_spec e 0) as [->|Hne].
    + injection Ht as <-. apply Ok_inj in Hrun; subst v. reflexivity.
    + apply table_at_ok in Ht. subst t. apply Ok_inj in Hrun; subst v.
      unfold hosted_gte_state.
      set (ge := f_u32 f (e * 512 + 4 * idx)). pose proof (H32 (e * 512 + 4 * idx)) as Hge. fold ge in Hge.
      destruct (Z.eqb_spec ge 0) as [->|H0]; [reflexivity|].
      destruct (Z.eqb_spec ge 1) as [->|H1]; [reflexivity|]. split; [reflexivity|lia].
Qed.

Lemma lookup_grain_nn f sp g v : wf_words f -> wf_geom sp -> lookup_grain f sp g = Ok v -> 0 <= v.
Proof.
  intros Hw Hg Hrun. pose proof (lookup_grain_state f sp g v Hw Hg Hrun) as H.
  destruct (grain_state f sp g); cbn in H; [lia|lia|lia|contradiction].
Qed.

Lemma lookup_grain_nf f sp g : lookup_grain f sp g <> Fuel.
Proof.
  unfold lookup_grain. destruct (sp_gt_size sp =? 0); [discriminate|].
  assert (Ht : forall s, table_at f sp s <> Fuel).
  { intros s. unfold table_at. destruct (array_in_file f (entry_width sp) s (sp_gt_size sp)); discriminate. }
  assert (Hl : lookup_grain_table f sp (g / sp_gt_size sp) <> Fuel).
  { unfold lookup_grain_table. destruct (gd_entry f sp (g / sp_gt_size sp)); [|discriminate].
    destruct (sp_se sp).
    - destruct ((z =? 0) || negb (Z.land z T.vmdk_gde_check_mask =? T.vmdk_gde_check_value)); [discriminate|apply Ht].
    - destruct (z =? 0); [discriminate|apply Ht]. }
  destruct (lookup_grain_table f sp (g / sp_gt_size sp)) as [[b|]| |]; cbn [bind]; try discriminate; try congruence.
  destruct (sp_se sp); [|discriminate].
  set (ty := Z.land (rd f sp (b + entry_width sp * (g mod sp_gt_size sp))) C.vmdk_SESPARSE_GRAIN_TYPE_MASK).
  destruct ((ty =? C.vmdk_SESPARSE_GRAIN_TYPE_UNALLOCATED) || (ty =? C.vmdk_SESPARSE_GRAIN_TYPE_FALLTHROUGH));
    [discriminate|].
  destruct (ty =? C.vmdk_SESPARSE_GRAIN_TYPE_ZERO); [discriminate|].
  destruct (ty =? C.vmdk_SESPARSE_GRAIN_TYPE_ALLOCATED); discriminate.
Qed.

Section Sparse.
  Variables (f : vfile) (sp : sparse) (soff : Z) (hp : bool).
  Hypothesis Hw : wf_words f.
  Hypothesis Hg : wf_geom sp.

  Let gs := sp_grain_size sp.

  Lemma lookup_hlook rs v k :
    0 <= rs -> lookup_grain f sp (rs / gs) = Ok v -> 0 <= k -> (rs mod gs) * 512 + k < gs * 512 ->
    guest_src f sp soff hp (rs * 512 + k) =
    code_src soff (is_compressed sp) hp v (rs * 512 + k) ((rs mod gs) * 512 + k).
  Proof.
    intros Hrs Hlook Hk Hfit. destruct Hg as [Hgs _]. fold gs in Hgs.
    pose proof (Z.mod_pos_bound rs gs Hgs) as Hm.
    destruct (byte_block rs gs 512 k (gs - rs mod gs) Hgs ltac:(lia) Hrs ltac:(lia) ltac:(lia)) as [Hq Hr].
    unfold guest_src. fold gs. rewrite (div_div_mul _ gs 512) by lia. rewrite Hq, Hr.
    pose proof (lookup_grain_state f sp (rs / gs) v Hw Hg Hlook) as Hst.
    rewrite <- is_compressed_spec. unfold code_src.
    destruct (grain_state f sp (rs / gs)) as [| |s|]; cbn in Hst.
    - subst v. reflexivity.
    - subst v. reflexivity.
    - destruct Hst as [-> Hs2].
      destruct (Z.eqb_spec s 0); [lia|]. destruct (Z.eqb_spec s 1); [lia|]. reflexivity.
    - contradiction.
  Qed.

  (* C02, sector interface of a sparse extent: whatever the tables hold, a successful read is
     exactly the guest bytes of the requested sectors *)
  Theorem sparse_read_sectors_correct fuel sector count p :
    soff <= sector ->
    sparse_read_sectors f sp soff hp fuel sector count = Ok p ->
    srcs_of p = map (guest_src f sp soff hp) (zseq ((sector - soff) * 512) (count * 512)).
  Proof.
    intros Hs Hrun. destruct Hg as [Hgs _].
    apply (read_sectors_gen_correct (sp_grain_size sp) soff (lookup_grain f sp) (is_compressed sp) hp Hgs
             (guest_src f sp soff hp) lookup_hlook
             (fun g v H => lookup_grain_nn f sp g v Hw Hg H) fuel sector count p Hs Hrun).
  Qed.

  (* the coalescer alone: the runs tile the request; every byte of a run is the guest byte, so a run of
     merged grains is physically consecutive (one file read = the per-grain reads) *)
  Theorem sparse_get_runs_sound fuel sector count runs :
    soff <= sector ->
    sparse_get_runs f sp soff fuel sector count = Ok runs ->
    runs_srcs (sp_grain_size sp) (is_compressed sp) hp runs =
      map (guest_src f sp soff hp) (zseq ((sector - soff) * 512) (count * 512)).
  Proof.
    intros Hs Hrun. destruct Hg as [Hgs _].
    apply (get_runs_sound (sp_grain_size sp) soff (lookup_grain f sp) (is_compressed sp) hp Hgs
             (guest_src f sp soff hp) lookup_hlook
             (fun g v H => lookup_grain_nn f sp g v Hw Hg H) fuel sector count runs Hs Hrun).
  Qed.

  Theorem sparse_read_sectors_fuel fuel sector count :
    soff <= sector -> count < Z.of_nat fuel ->
    sparse_read_sectors f sp soff hp fuel sector count <> Fuel.
  Proof.
    intros Hs Hf. destruct Hg as [Hgs _].
    apply (read_sectors_gen_fuel (sp_grain_size sp) soff (lookup_grain f sp) (is_compressed sp) hp Hgs
             (guest_src f sp soff hp) lookup_hlook
             (fun g v H => lookup_grain_nn f sp g v Hw Hg H) (lookup_grain_nf f sp) fuel sector count Hs Hf).
  Qed.
End Sparse.

(* ====================================================================== *)
(* Success on well-formed extents and the stream back-end contract.       *)
(* ====================================================================== *)
(* every grain below the capacity can be looked up: the directory is long enough, the tables lie inside
   the file, SE-sparse entries carry a known type *)
Definition sparse_covers (f : vfile) (sp : sparse) : Prop :=
  forall g, 0 <= g -> g * sp_grain_size sp < sp_capacity sp -> exists v, lookup_grain f sp g = Ok v.

Definition wf_sparse (f : vfile) (sp : sparse) : Prop :=
  wf_words f /\ wf_geom sp /\ 0 <= sp_capacity sp /\ sparse_covers f sp.

Theorem sparse_read_sectors_ok f sp hp sector count :
  wf_sparse f sp -> 0 <= sector -> 0 <= count -> sector + count <= sp_capacity sp ->
  exists p, sparse_read_sectors f sp 0 hp (fuel_for count) sector count = Ok p.
Proof.
  intros (Hw & Hg & Hcap & Hcov) Hs Hc Hend. pose proof Hg as [Hgs _].
  apply (read_sectors_gen_ok (sp_grain_size sp) 0 (lookup_grain f sp) (is_compressed sp) hp Hgs
           (guest_src f sp 0 hp) (lookup_hlook f sp 0 hp Hw Hg)
           (fun g v H => lookup_grain_nn f sp g v Hw Hg H) (fuel_for count) sector count (sp_capacity sp));
    try lia.
  - exact Hcov.
  - unfold fuel_for. lia.
Qed.

Lemma mk_vmdk_single x :
  mk_vmdk [x] = {| v_offsets := []; v_disks := [(x, 0)]; v_size := 0 + x_size x; v_sector_count := 0 + x_sectors x |}.
Proof. reflexivity. Qed.

Lemma walk_single x sector count p0 :
  0 < count -> count <= x_sectors x - sector ->
  x_read x 0 sector count = Ok p0 ->
  walk [(x, 0)] 0 sector count = Ok (map (fun s => (0, s)) p0 ++ []).
Proof.
  intros Hc Hfit Hread. cbn [walk].
  destruct (Z.leb_spec count 0); [lia|].
  replace (sector - 0) with sector by lia.
  replace (Z.min (x_sectors x - sector) count) with count by lia.
  rewrite Hread. cbn [bind]. replace (count - count) with 0 by lia.
  destruct (Z.leb_spec 0 0); [|lia]. reflexivity.
Qed.

Lemma plan_of_x_single (p0 : list seg) : plan_of_x (map (fun s => (0, s)) p0 ++ []) = p0.
Proof.
  unfold plan_of_x. rewrite app_nil_r, map_map. cbn [snd]. apply map_id.
Qed.

(* sector arithmetic of VMDK._read for an aligned offset inside a disk of nsect sectors *)
Lemma read_arith off len nsect :
  0 <= off < nsect * 512 -> off mod 512 = 0 -> 0 < len ->
  let n := Z.min len (nsect * 512 - off) in
  let count := (n + 512 - 1) / 512 in
  0 < count /\ off / 512 + count <= nsect /\ n <= count * 512 /\ off / 512 * 512 = off /\ 0 <= off / 512.
Proof.
  intros Hoff Hal Hlen n count.
  pose proof (Z.div_mod off 512 ltac:(lia)) as Hdm.
  pose proof (Z.div_mod (n + 512 - 1) 512 ltac:(lia)) as Hdc.
  pose proof (Z.mod_pos_bound (n + 512 - 1) 512 ltac:(lia)) as Hmc.
  fold count in Hdc. subst n.
  split; [lia|]. split; [lia|]. split; [lia|]. split; lia.
Qed.

(* C02, the stream back-end contract for a sparse extent (VMDK._read with the clamp): an aligned
   request, even one running past the end of the disk, succeeds and its first min(len, size - off)
   bytes are the guest bytes *)
Theorem vmdk_sparse_read_correct f sp hp off len :
  wf_sparse f sp -> 0 <= off < sp_capacity sp * 512 -> off mod 512 = 0 -> 0 < len ->
  exists p, vmdk_read (mk_vmdk [XSparse f sp hp]) off len = Ok p /\
    let n := Z.min len (sp_capacity sp * 512 - off) in
    firstn (Z.to_nat n) (srcs_of (plan_of_x p)) = map (guest_src f sp 0 hp) (zseq off n).
Proof.
  intros Hwf Hoff Hal Hlen. pose proof Hwf as (Hw & Hg & Hcap & Hcov).
  unfold vmdk_read. rewrite mk_vmdk_single. cbn [v_size v_offsets v_disks x_size].
  rewrite SECTOR_eq. replace (0 + sp_capacity sp * 512) with (sp_capacity sp * 512) by lia.
  destruct (read_arith off len (sp_capacity sp) Hoff Hal Hlen) as (Hc & Hend & Hn & Hoffeq & Hs).
  set (n := Z.min len (sp_capacity sp * 512 - off)) in *.
  set (count := (n + 512 - 1) / 512) in *.
  unfold vmdk_read_sectors. cbn [v_offsets v_disks bisect_right skipn Z.of_nat].
  destruct (sparse_read_sectors_ok f sp hp (off / 512) count Hwf Hs ltac:(lia) Hend) as [p0 Hp0].
  rewrite (walk_single (XSparse f sp hp) (off / 512) count p0 Hc ltac:(cbn [x_sectors]; lia) Hp0).
  eexists. split; [reflexivity|]. cbv zeta. rewrite plan_of_x_single.
  rewrite (sparse_read_sectors_correct f sp 0 hp Hw Hg (fuel_for count) (off / 512) count p0 Hs Hp0).
  replace ((off / 512 - 0) * 512) with off by lia.
  apply firstn_map_zseq. lia.
Qed.

(* ---------- flat extents ---------- *)
Theorem raw_read_sectors_correct sector count :
  srcs_of (raw_read_sectors 0 0 sector count) = map flat_src (zseq (sector * 512) (count * 512)).
Proof.
  unfold raw_read_sectors, srcs_of. rewrite SECTOR_eq. simpl. rewrite app_nil_r.
  replace (sector - 0 + 0) with sector by lia. reflexivity.
Qed.

Theorem vmdk_flat_read_correct nsect off len :
  0 <= off < nsect * 512 -> off mod 512 = 0 -> 0 < len ->
  exists p, vmdk_read (mk_vmdk [XRaw (nsect * 512) 0]) off len = Ok p /\
    let n := Z.min len (nsect * 512 - off) in
    firstn (Z.to_nat n) (srcs_of (plan_of_x p)) = map flat_src (zseq off n).
Proof.
  intros Hoff Hal Hlen.
  unfold vmdk_read. rewrite mk_vmdk_single. cbn [v_size v_offsets v_disks x_size].
  rewrite SECTOR_eq. replace (0 + nsect * 512) with (nsect * 512) by lia.
  destruct (read_arith off len nsect Hoff Hal Hlen) as (Hc & Hend & Hn & Hoffeq & Hs).
  set (n := Z.min len (nsect * 512 - off)) in *.
  set (count := (n + 512 - 1) / 512) in *.
  unfold vmdk_read_sectors. cbn [v_offsets v_disks bisect_right skipn Z.of_nat].
  assert (Hsect : x_sectors (XRaw (nsect * 512) 0) = nsect).
  { cbn [x_sectors]. rewrite SECTOR_eq. apply Z.div_mul. lia. }
  rewrite (walk_single (XRaw (nsect * 512) 0) (off / 512) count (raw_read_sectors 0 0 (off / 512) count) Hc
             ltac:(rewrite Hsect; lia) eq_refl).
  eexists. split; [reflexivity|]. cbv zeta. rewrite plan_of_x_single.
  rewrite raw_read_sectors_correct. rewrite Hoffeq.
  apply firstn_map_zseq. lia.
Qed.

(* ---------- the tail read without the clamp (the code as found) ---------- *)
(* for ANY single-extent disk whose size is not a multiple of the request: the walk runs off the list of disks *)
Theorem vmdk_tail_read_unclamped_fails x off len :
  (forall s c, exists p, x_read x 0 s c = Ok p) ->
  0 <= off -> off mod 512 = 0 -> 0 < x_sectors x - off / 512 < (len + 512 - 1) / 512 ->
  vmdk_read_unclamped (mk_vmdk [x]) off len = Err.
Proof.
  intros Hread Hoff Hal Hshort. unfold vmdk_read_unclamped. rewrite mk_vmdk_single.
  unfold vmdk_read_sectors. cbn [v_offsets v_disks bisect_right skipn Z.of_nat]. rewrite SECTOR_eq.
  set (count := (len + 512 - 1) / 512) in *. set (s := off / 512) in *.
  cbn [walk]. destruct (Z.leb_spec count 0); [lia|].
  replace (s - 0) with s by lia.
  replace (Z.min (x_sectors x - s) count) with (x_sectors x - s) by lia.
  destruct (Hread s (x_sectors x - s)) as [p ->]. cbn [bind].
  destruct (Z.leb_spec (count - (x_sectors x - s)) 0); [lia|]. reflexivity.
Qed.

(* ---------- header / footer selection (SparseDisk.__init__) ---------- *)
Definition hosted_geometry (h : header) : sparse :=
  let cov := h_num_gte h * h_grain_size h in
  {| sp_se := false; sp_flags := h_flags h; sp_capacity := h_capacity h; sp_grain_size := h_grain_size h;
     sp_gd_size := (h_capacity h + cov - 1) / cov; sp_gt_size := h_num_gte h;
     sp_gd_off := h_gd_off h; sp_gts_off := 0; sp_grains_off := 0 |}.

(* a primary header whose grain-directory offset is SPARSE_GD_AT_END (2^64-1) is only a pointer to the
   copy 1024 bytes before the end of the file: geometry and grain directory come from that copy *)
Theorem footer_selected f h0 hf :
  read_header f 0 = Ok h0 -> h_kind h0 = KHosted -> h_gd_off h0 = C.vmdk_SPARSE_GD_AT_END ->
  1024 <= f_size f ->
  read_header f (f_size f - 1024) = Ok hf -> h_kind hf = KHosted ->
  h_num_gte hf * h_grain_size hf <> 0 ->
  open_sparse f =
    if array_in_file f 4 (h_gd_off hf) (sp_gd_size (hosted_geometry hf)) then Ok (hosted_geometry hf) else Err.
Proof.
  intros H0 Hk0 Hgd Hsz Hf Hkf Hcov. unfold open_sparse. rewrite H0. cbn [bind]. rewrite Hk0.
  rewrite Hgd. change (int64_is_m1 C.vmdk_SPARSE_GD_AT_END) with true. cbv iota.
  change T.vmdk_footer_seek with (-1024).
  replace (Z.max 0 (f_size f + -1024)) with (f_size f - 1024) by lia.
  rewrite Hf. cbn [bind]. rewrite Hkf.
  destruct (Z.eqb_spec (h_num_gte hf * h_grain_size hf) 0) as [|_]; [contradiction|].
  cbn [bind]. reflexivity.
Qed.

Theorem header_selected f h0 :
  read_header f 0 = Ok h0 -> h_kind h0 = KHosted -> 0 <= h_gd_off h0 < 2 ^ 64 - 1 ->
  h_num_gte h0 * h_grain_size h0 <> 0 ->
  open_sparse f =
    if array_in_file f 4 (h_gd_off h0) (sp_gd_size (hosted_geometry h0)) then Ok (hosted_geometry h0) else Err.
Proof.
  intros H0 Hk0 Hgd Hcov. unfold open_sparse. rewrite H0. cbn [bind]. rewrite Hk0.
  assert (Hm : int64_is_m1 (h_gd_off h0) = false).
  { unfold int64_is_m1. apply Z.eqb_neq. rewrite Z.mod_small by lia. lia. }
  rewrite Hm. cbn [bind]. rewrite Hk0.
  destruct (Z.eqb_spec (h_num_gte h0 * h_grain_size h0) 0) as [|_]; [contradiction|].
  cbn [bind]. reflexivity.
Qed.

(* ---------- non-vacuity: concrete well-formed extents ---------- *)
Definition lookz (l : list (Z * Z)) (o : Z) : Z := match assoc_z l o with Some v => v | None => 0 end.

Lemma lookz_range (P : Z -> Prop) l : P 0 -> Forall (fun p => P (snd p)) l -> forall o, P (lookz l o).
Proof.
  intros H0 Hl o. unfold lookz. induction l as [|[k v] l IH]; cbn [assoc_z]; [exact H0|].
  inversion Hl as [|? ? Hv Hl']; subst. destruct (k =? o); [exact Hv|apply IH; exact Hl'].
Qed.

(* hosted sparse: 14 sectors (neither a multiple of the 4-sector grain nor of 16), 2-entry grain tables;
   grains 0 and 1 stored back to back, grain 2 a zero grain, grain 3 absent *)
Definition ex_file : vfile :=
  {| f_size := 28 * 512; f_hdr := fun _ => [];
     f_u32 := lookz [(512, 2); (516, 3); (1024, 20); (1028, 24); (1536, 1)];
     f_u64 := lookz [] |}.
Definition ex_sparse : sparse :=
  {| sp_se := false; sp_flags := 1; sp_capacity := 14; sp_grain_size := 4; sp_gd_size := 2; sp_gt_size := 2;
     sp_gd_off := 1; sp_gts_off := 0; sp_grains_off := 0 |}.

Example ex_sparse_wf : wf_sparse ex_file ex_sparse.
Proof.
  split; [|split; [|split]].
  - split; intros o; cbn [ex_file f_u32 f_u64].
    + apply (lookz_range (fun v => 0 <= v)); [lia|]. repeat constructor; cbn; lia.
    + apply (lookz_range u64); [unfold u64; lia|]. constructor.
  - split; [cbn; lia|]. intros H; discriminate.
  - cbn; lia.
  - intros g Hg Hlt. cbn [ex_sparse sp_grain_size sp_capacity] in Hlt.
    assert (Hcase : g = 0 \/ g = 1 \/ g = 2 \/ g = 3) by lia.
    destruct Hcase as [->|[->|[->| ->]]]; eexists; vm_compute; reflexivity.
Qed.

Example ex_sparse_read :
  vmdk_read (mk_vmdk [XSparse ex_file ex_sparse false]) 512 8192 =
  Ok [(0, SFile 10752 3584); (0, SZero 2048); (0, SZero 1024)].
Proof. vm_compute. reflexivity. Qed.

Example ex_sparse_tail_unclamped :
  vmdk_read_unclamped (mk_vmdk [XSparse ex_file ex_sparse false]) 0 8192 = Err.
Proof. vm_compute. reflexivity. Qed.

(* SE-sparse: 20 sectors, 8-sector grains, one 64-entry table; grain 0 at cluster 2^12+5 (uses both
   parts of the split cluster field), grain 1 zero, grain 2 unallocated *)
Definition ex_se_file : vfile :=
  {| f_size := 2 ^ 40; f_hdr := fun _ => []; f_u32 := lookz [];
     f_u64 := lookz [(1024, 1152921504606846976);
                     (2048, 3458764513820540928 + 5 * 2 ^ 48 + 1); (2056, 2305843009213693952)] |}.
Definition ex_se_sparse : sparse :=
  {| sp_se := true; sp_flags := 0; sp_capacity := 20; sp_grain_size := 8; sp_gd_size := 64; sp_gt_size := 64;
     sp_gd_off := 2; sp_gts_off := 4; sp_grains_off := 16 |}.

Example ex_se_wf : wf_sparse ex_se_file ex_se_sparse.
Proof.
  split; [|split; [|split]].
  - split; intros o; cbn [ex_se_file f_u32 f_u64].
    + apply (lookz_range (fun v => 0 <= v)); [lia|]. constructor.
    + apply (lookz_range u64); [unfold u64; lia|]. repeat constructor; cbn; lia.
  - split; [cbn; lia|]. intros _. split; [cbn; lia|reflexivity].
  - cbn; lia.
  - intros g Hg Hlt. cbn [ex_se_sparse sp_grain_size sp_capacity] in Hlt.
    assert (Hcase : g = 0 \/ g = 1 \/ g = 2) by lia.
    destruct Hcase as [->|[->| ->]]; eexists; vm_compute; reflexivity.
Qed.

Example ex_se_read :
  vmdk_read (mk_vmdk [XSparse ex_se_file ex_se_sparse false]) 0 16384 =
  Ok [(0, SFile ((16 + (2 ^ 12 + 5) * 8) * 512) 4096); (0, SZero 4096); (0, SZero 2048)].
Proof. vm_compute. reflexivity. Qed.

(* encode / decode round trip of the SE-sparse cluster field: every cluster number below 2^60 survives,
   so nothing is truncated at 2^32 sectors *)
Lemma se_cluster_roundtrip c : 0 <= c < 2 ^ 60 ->
  se_cluster (3 * 2 ^ 60 + (c mod 2 ^ 12) * 2 ^ 48 + c / 2 ^ 12) = c.
Proof.
  intros Hc.
  pose proof (Z.mod_pos_bound c (2 ^ 12) ltac:(lia)) as Hlo.
  assert (Hhi : 0 <= c / 2 ^ 12 < 2 ^ 48).
  { split; [apply Z.div_pos; lia|]. apply Z.div_lt_upper_bound; lia. }
  set (lo := c mod 2 ^ 12) in *. set (hi := c / 2 ^ 12) in *.
  rewrite se_cluster_spec by lia.
  assert (H1 : (3 * 2 ^ 60 + lo * 2 ^ 48 + hi) / 2 ^ 48 = 3 * 2 ^ 12 + lo).
  { replace (3 * 2 ^ 60 + lo * 2 ^ 48 + hi) with ((3 * 2 ^ 12 + lo) * 2 ^ 48 + hi) by lia.
    apply div_mul_add; lia. }
  assert (H2 : (3 * 2 ^ 60 + lo * 2 ^ 48 + hi) mod 2 ^ 48 = hi).
  { replace (3 * 2 ^ 60 + lo * 2 ^ 48 + hi) with ((3 * 2 ^ 12 + lo) * 2 ^ 48 + hi) by lia.
    apply mod_mul_add; lia. }
  rewrite H1, H2.
  replace ((3 * 2 ^ 12 + lo) mod 2 ^ 12) with lo.
  2:{ symmetry. replace (3 * 2 ^ 12 + lo) with (3 * 2 ^ 12 + lo) by lia. apply mod_mul_add; lia. }
  pose proof (Z.div_mod c (2 ^ 12) ltac:(lia)) as Hdm. fold lo hi in Hdm. lia.
Qed.
