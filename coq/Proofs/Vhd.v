(* Proofs/Vhd.v — the VHD reader model refines the pointwise guest-byte spec. *)
From Coq Require Import ZArith List Bool Lia.
From DH Require Import Base.Arith Base.Plan Base.Table Model.Vhd.
Import ListNotations.
Open Scope Z_scope.

Lemma SECTOR_eq : SECTOR = 512.
Proof. reflexivity. Qed.

Lemma byte_in_block s n i rc :
  0 < n -> 0 <= s -> 0 <= i < rc * 512 -> s mod n + rc <= n ->
  (s * 512 + i) / (n * 512) = s / n /\
  (s * 512 + i) mod (n * 512) = (s mod n) * 512 + i.
Proof.
  intros Hn Hs Hi Hfit.
  destruct (byte_block s n 512 i rc Hn ltac:(lia) Hs Hi Hfit) as [H1 H2].
  split; [|exact H2]. rewrite div_div_mul by lia. exact H1.
Qed.

Section Dyn.
  Variable d : vhd_dyn.
  Hypothesis Hspb : 0 < spb d.

  Lemma dyn_step_srcs sector rc so :
    0 <= sector -> 0 <= rc -> sector mod spb d + rc <= spb d ->
    bat_get d (sector / spb d) = Ok so ->
    srcs_of_seg (if so =? 0 then SZero (rc * SECTOR)
                 else SFile ((so + bitmap_sectors d + sector mod spb d) * SECTOR) (rc * SECTOR))
    = map (guest_src d) (zseq (sector * SECTOR) (rc * SECTOR)).
  Proof.
    intros Hs Hrc Hfit Hget. rewrite SECTOR_eq in *.
    unfold bat_get in Hget.
    destruct (sector / spb d + 1 >? d_max_entries d); [discriminate|].
    destruct (d_bat d (sector / spb d)) as [v|] eqn:Hbat; [|discriminate].
    injection Hget as Hso.
    assert (Hsrc : forall i, 0 <= i < rc * 512 ->
              guest_src d (sector * 512 + i) =
              if so =? 0 then Zero
              else File ((so + bitmap_sectors d + sector mod spb d) * 512 + i)).
    { intros i Hi. unfold guest_src. rewrite SECTOR_eq.
      destruct (byte_in_block sector (spb d) i rc Hspb Hs Hi Hfit) as [Hq Hr].
      rewrite Hq, Hr, Hbat. subst so.
      destruct (Z.eqb_spec v 4294967295) as [->|Hv1]; simpl; [reflexivity|].
      destruct (Z.eqb_spec v 0) as [->|Hv0]; simpl; [reflexivity|].
      f_equal. lia. }
    rewrite (zseq_rel (guest_src d)).
    rewrite (map_ext_zseq _ (fun j => if so =? 0 then Zero
              else File ((so + bitmap_sectors d + sector mod spb d) * 512 + j)) 0 (rc * 512))
      by (intros; apply Hsrc; lia).
    destruct (so =? 0); cbn [srcs_of_seg].
    - reflexivity.
    - rewrite (zseq_rel File). reflexivity.
  Qed.

  Theorem dyn_read_sectors_correct fuel : forall sector count p,
    0 <= sector ->
    dyn_read_sectors d fuel sector count = Ok p ->
    srcs_of p = map (guest_src d) (zseq (sector * SECTOR) (count * SECTOR)).
  Proof.
    induction fuel as [|fuel IH]; intros sector count p Hs Hrun.
    - simpl in Hrun. destruct (Z.leb_spec count 0); [|discriminate].
      injection Hrun as <-. rewrite zseq_nonpos; [reflexivity|rewrite SECTOR_eq; lia].
    - cbn [dyn_read_sectors] in Hrun.
      destruct (Z.leb_spec count 0) as [Hc|Hc].
      { injection Hrun as <-. rewrite zseq_nonpos; [reflexivity|rewrite SECTOR_eq; lia]. }
      pose proof (Z.mod_pos_bound sector (spb d) Hspb) as Hm.
      set (rc := Z.min count (spb d - sector mod spb d)) in *.
      assert (Hrc : 0 < rc <= count /\ sector mod spb d + rc <= spb d) by (subst rc; lia).
      destruct (bat_get d (sector / spb d)) as [so| |] eqn:Hget; try discriminate.
      cbn [bind] in Hrun.
      destruct (dyn_read_sectors d fuel (sector + rc) (count - rc)) as [rest| |] eqn:Hrest;
        try discriminate.
      cbn [bind] in Hrun. injection Hrun as <-.
      rewrite srcs_of_cons.
      rewrite (dyn_step_srcs sector rc so Hs ltac:(lia) ltac:(lia) Hget).
      rewrite (IH (sector + rc) (count - rc) rest ltac:(lia) Hrest).
      replace (count * SECTOR) with (rc * SECTOR + (count - rc) * SECTOR) by lia.
      rewrite zseq_app by (rewrite SECTOR_eq; lia). rewrite map_app.
      do 3 f_equal. lia.
  Qed.

  Lemma bat_get_not_fuel b : bat_get d b <> Fuel.
  Proof.
    unfold bat_get. destruct (b + 1 >? d_max_entries d); [discriminate|].
    destruct (d_bat d b); discriminate.
  Qed.

  (* progress: for ANY table contents the loop ends within count iterations *)
  Theorem dyn_read_sectors_fuel fuel : forall sector count,
    0 <= sector -> count < Z.of_nat fuel -> dyn_read_sectors d fuel sector count <> Fuel.
  Proof.
    induction fuel as [|fuel IH]; intros sector count Hs Hf.
    - simpl. destruct (Z.leb_spec count 0); [discriminate|lia].
    - cbn [dyn_read_sectors].
      destruct (Z.leb_spec count 0) as [Hc|Hc]; [discriminate|].
      pose proof (Z.mod_pos_bound sector (spb d) Hspb) as Hm.
      set (rc := Z.min count (spb d - sector mod spb d)).
      assert (Hrc : 0 < rc <= count) by (subst rc; lia).
      pose proof (bat_get_not_fuel (sector / spb d)) as Hnf.
      destruct (bat_get d (sector / spb d)) as [so| |]; cbn [bind]; try discriminate; try congruence.
      specialize (IH (sector + rc) (count - rc) ltac:(lia) ltac:(lia)).
      destruct (dyn_read_sectors d fuel (sector + rc) (count - rc)); cbn [bind];
        try discriminate. congruence.
  Qed.

  (* a table that covers the disk: every block below the end has an entry *)
  Definition covers (nsect : Z) : Prop :=
    forall b, 0 <= b -> b * spb d < nsect ->
      b + 1 <= d_max_entries d /\ exists v, d_bat d b = Some v.

  Theorem dyn_read_sectors_ok fuel : forall sector count nsect,
    covers nsect -> 0 <= sector -> sector + count <= nsect -> count < Z.of_nat fuel ->
    exists p, dyn_read_sectors d fuel sector count = Ok p.
  Proof.
    induction fuel as [|fuel IH]; intros sector count nsect Hcov Hs Hend Hf.
    - simpl. destruct (Z.leb_spec count 0); [eauto|lia].
    - cbn [dyn_read_sectors].
      destruct (Z.leb_spec count 0) as [Hc|Hc]; [eauto|].
      pose proof (Z.mod_pos_bound sector (spb d) Hspb) as Hm.
      pose proof (Z.div_mod sector (spb d) ltac:(lia)) as Hdm.
      set (rc := Z.min count (spb d - sector mod spb d)).
      assert (Hrc : 0 < rc <= count) by (subst rc; lia).
      assert (Hb : 0 <= sector / spb d) by (apply Z.div_pos; lia).
      destruct (Hcov (sector / spb d) Hb ltac:(nia)) as [Hmax [v Hv]].
      unfold bat_get. destruct (Z.gtb_spec (sector / spb d + 1) (d_max_entries d)); [lia|].
      rewrite Hv. cbn [bind].
      destruct (IH (sector + rc) (count - rc) nsect Hcov ltac:(lia) ltac:(lia) ltac:(lia)) as [rest ->].
      cbn [bind]. eauto.
  Qed.
End Dyn.

(* ---------- the byte-level back end VHD._read ---------- *)
Definition wf_dyn (d : vhd_dyn) : Prop :=
  0 < spb d /\ 0 <= d_size d /\ covers d (cdiv (d_size d) SECTOR).

Lemma firstn_map_zseq {A} (f : Z -> A) o n m :
  0 <= m <= n -> firstn (Z.to_nat m) (map f (zseq o n)) = map f (zseq o m).
Proof.
  intros H. replace n with (m + (n - m)) by lia.
  rewrite zseq_app, map_app by lia.
  rewrite firstn_app.
  replace (Z.to_nat m - length (map f (zseq o m)))%nat with 0%nat.
  2:{ rewrite map_length. pose proof (zseq_length o m ltac:(lia)). lia. }
  rewrite firstn_O, app_nil_r. apply firstn_all2.
  rewrite map_length. pose proof (zseq_length o m ltac:(lia)). lia.
Qed.

(* The stream back-end contract (C08, lemma 1) for dynamic VHD: an aligned
   request — even one running past the end of the disk — succeeds and its
   first min(len, size-off) bytes are the guest bytes. *)
Theorem dyn_read_correct d off len :
  wf_dyn d -> 0 <= off < d_size d -> off mod SECTOR = 0 -> 0 < len ->
  exists p, dyn_read d (fuel_for (cdiv (Z.min len (d_size d - off)) SECTOR)) off len = Ok p /\
    let n := Z.min len (d_size d - off) in
    firstn (Z.to_nat n) (srcs_of p) = map (guest_src d) (zseq off n).
Proof.
  intros (Hspb & Hsz & Hcov) Hoff Hal Hlen. unfold dyn_read.
  set (n := Z.min len (d_size d - off)).
  assert (Hn : 0 < n) by (subst n; lia).
  rewrite SECTOR_eq in *. unfold cdiv in *.
  set (count := (n + 512 - 1) / 512).
  pose proof (Z.div_mod off 512 ltac:(lia)) as Hdm.
  pose proof (Z.div_mod (n + 512 - 1) 512 ltac:(lia)) as Hdc.
  pose proof (Z.mod_pos_bound (n + 512 - 1) 512 ltac:(lia)) as Hmc.
  pose proof (Z.div_mod (d_size d + 512 - 1) 512 ltac:(lia)) as Hds.
  pose proof (Z.mod_pos_bound (d_size d + 512 - 1) 512 ltac:(lia)) as Hms.
  fold count in Hdc.
  assert (Hcnt : n <= count * 512 /\ 0 < count) by lia.
  assert (Hend : off / 512 + count <= (d_size d + 512 - 1) / 512).
  { subst count n. lia. }
  assert (Hs : 0 <= off / 512) by (apply Z.div_pos; lia).
  destruct (dyn_read_sectors_ok d Hspb (fuel_for count) (off / 512) count _ Hcov Hs Hend
              ltac:(unfold fuel_for; lia)) as [p Hp].
  exists p. split; [exact Hp|]. cbv zeta.
  rewrite (dyn_read_sectors_correct d Hspb _ _ _ _ Hs Hp).
  rewrite SECTOR_eq. replace (off / 512 * 512) with off by lia.
  apply firstn_map_zseq. lia.
Qed.

(* ---------- fixed disks ---------- *)
Theorem fixed_read_sectors_correct sector count :
  srcs_of (fixed_read_sectors sector count)
  = map fixed_src (zseq (sector * SECTOR) (count * SECTOR)).
Proof. unfold fixed_read_sectors, srcs_of. simpl. now rewrite app_nil_r. Qed.

Theorem fixed_read_correct size off len :
  0 <= off < size -> off mod SECTOR = 0 -> 0 < len ->
  let n := Z.min len (size - off) in
  firstn (Z.to_nat n) (srcs_of (fixed_read size off len)) = map fixed_src (zseq off n).
Proof.
  intros Hoff Hal Hlen n. unfold fixed_read. fold n.
  rewrite fixed_read_sectors_correct. rewrite SECTOR_eq in *.
  pose proof (Z.div_mod off 512 ltac:(lia)) as Hdm.
  pose proof (Z.div_mod (n + 512 - 1) 512 ltac:(lia)) as Hdc.
  pose proof (Z.mod_pos_bound (n + 512 - 1) 512 ltac:(lia)) as Hmc.
  replace (off / 512 * 512) with off by lia.
  apply firstn_map_zseq. subst n. lia.
Qed.

(* legacy 511-byte footer: the footer used is the last 512 bytes iff bit 1 of
   the features field read there is set *)
Theorem footer_offset_spec fsz feat :
  footer_offset fsz feat = if Z.testbit feat 1 then fsz - 512 else fsz - 511.
Proof.
  unfold footer_offset.
  assert (H : Z.land feat 2 = if Z.testbit feat 1 then 2 else 0).
  { apply Z.bits_inj'. intros n Hn. rewrite Z.land_spec.
    destruct (Z.eq_dec n 1) as [->|Hne].
    - destruct (Z.testbit feat 1); reflexivity.
    - replace (Z.testbit 2 n) with false.
      2:{ change 2 with (2 ^ 1). rewrite Z.pow2_bits_eqb by lia.
          symmetry. apply Z.eqb_neq. lia. }
      rewrite andb_false_r. destruct (Z.testbit feat 1).
      + change 2 with (2 ^ 1). rewrite Z.pow2_bits_eqb by lia.
        symmetry. apply Z.eqb_neq. lia.
      + symmetry. apply Z.bits_0. }
  rewrite H. destruct (Z.testbit feat 1); reflexivity.
Qed.

(* non-vacuity: a 3-block disk stored in reverse order, size not a multiple of the block *)
Definition ex_dyn : vhd_dyn :=
  {| d_size := 5 * 1024 + 100; d_block_size := 2048; d_max_entries := 3;
     d_bat := tbl [(0, 40); (1, 4294967295); (2, 7)] 0 3 |}.

Example ex_dyn_wf : wf_dyn ex_dyn.
Proof.
  unfold wf_dyn. split; [reflexivity|]. split; [vm_compute; discriminate|].
  intros b Hb Hlt. change (spb ex_dyn) with 4 in Hlt.
  change (cdiv (d_size ex_dyn) SECTOR) with 11 in Hlt.
  assert (Hcase : b = 0 \/ b = 1 \/ b = 2) by lia.
  destruct Hcase as [-> | [-> | ->]]; (split; [vm_compute; discriminate|eexists; reflexivity]).
Qed.

Example ex_dyn_read :
  dyn_read ex_dyn 100 512 4096 =
  Ok [SFile 20992 1536; SZero 2048; SFile 3584 512].
Proof. vm_compute. reflexivity. Qed.
