(* Proofs/MetaVmdkExt.v — extent lines of the VMDK descriptor: the backtracking matcher on the
   writer's line shapes, for every access mode and every type of the generated grammar. *)
From Coq Require Import String ZArith List Bool Lia.
From DH Require Import Base.Plan Gen.MetaVmdkTables Model.MetaCodec Model.MetaVmdk Proofs.MetaVmdk.
Import ListNotations.
Open Scope list_scope.
Open Scope Z_scope.

Lemma star_match_run cl ds x rest c k r :
  forallb (in_cls cl) ds = true -> in_cls cl x = false -> k (x :: rest) c = Some r ->
  star_match cl (ds ++ x :: rest) c k = Some r.
Proof.
  intros Hds Hx Hk. induction ds as [|d ds IH]; cbn [app star_match].
  - now rewrite Hx.
  - cbn [forallb] in Hds. apply andb_prop in Hds as [Hd Hds]. rewrite Hd, (IH Hds). reflexivity.
Qed.

Lemma star_match_last cl fn q c k r :
  forallb (in_cls cl) fn = true -> in_cls cl q = true -> k [] c = None -> k [q] c = Some r ->
  star_match cl (fn ++ [q]) c k = Some r.
Proof.
  intros Hfn Hq Hn Hk. induction fn as [|a fn IH]; cbn [app star_match].
  - now rewrite Hq, Hn.
  - cbn [forallb] in Hfn. apply andb_prop in Hfn as [Ha Hfn]. rewrite Ha, (IH Hfn). reflexivity.
Qed.

Lemma taken_suffix (a s' : list Z) : taken (a ++ s') s' = a.
Proof.
  unfold taken. rewrite app_length. replace (length a + length s' - length s')%nat with (length a) by lia.
  rewrite firstn_app, firstn_all, Nat.sub_diag. cbn. apply app_nil_r.
Qed.

Lemma taken_nil (s : list Z) : taken s [] = s.
Proof. unfold taken. cbn [length]. rewrite Nat.sub_0_r. apply firstn_all. Qed.

Ltac fix_taken A D T :=
  repeat match goal with
  | |- context [taken ?s []] => rewrite (taken_nil s)
  | |- context [taken ?s (32 :: ?r)] =>
      first [ replace (taken s (32 :: r)) with A by (symmetry; exact (taken_suffix A (32 :: r)))
            | replace (taken s (32 :: r)) with D by (symmetry; exact (taken_suffix D (32 :: r)))
            | replace (taken s (32 :: r)) with T by (symmetry; exact (taken_suffix T (32 :: r))) ]
  end.

Ltac ext_case A T d0 ds Hd0 Hds Hf0 Hfn :=
  unfold ext_fields, re_search, re_extent, re_extent_of, ACCESS_MODES, EXTENT_TYPES, meta_extent_access, meta_extent_types;
  cbn [seqs alts map rmatch app starts_with]; cbn; rewrite Hd0;
  erewrite star_match_run; [|exact Hds|reflexivity|];
  [|cbn; rewrite Hf0; cbn [negb]; erewrite star_match_last; [reflexivity|exact Hfn|reflexivity|reflexivity|]; cbn; reflexivity];
  fix_taken A (d0 :: ds) T;
  cbn [extent_of cap_get Nat.eqb parse_dec forallb bind of_option option_map];
  rewrite Hd0, Hds; cbn [andb of_option bind x_access x_sectors x_type x_filename x_start x_partition x_device];
  reflexivity.

(* an extent line  ACCESS sectors TYPE "file name"  decodes to its fields: every access mode and every
   type of the generated grammar (incl. the VMFS / VMFSSPARSE / VMFSRDM / VMFSRAW prefix cases that need
   backtracking), any decimal digits, any file name (spaces, quotes inside, any code point but newline) *)
Theorem extent_line_roundtrip am ty d0 ds f0 fn :
  In am ACCESS_MODES -> In ty EXTENT_TYPES ->
  is_digit d0 = true -> forallb is_digit ds = true ->
  (f0 =? 10) = false -> forallb (in_cls CAny) fn = true ->
  ext_fields (am ++ 32 :: (d0 :: ds) ++ 32 :: ty ++ 32 :: 34 :: (f0 :: fn) ++ [34])
  = Some (am, dec_value 0 (d0 :: ds), ty, Some (strip is_quote (34 :: (f0 :: fn) ++ [34])), None, None, None).
Proof.
  intros Ham Hty Hd0 Hds Hf0 Hfn.
  unfold ACCESS_MODES, meta_extent_access in Ham. unfold EXTENT_TYPES, meta_extent_types in Hty.
  cbn [In] in Ham, Hty.
  repeat match type of Ham with _ \/ _ => destruct Ham as [Ham|Ham] end; try contradiction;
  repeat match type of Hty with _ \/ _ => destruct Hty as [Hty|Hty] end; try contradiction;
  subst am ty;
  match goal with
  | |- ext_fields (?A ++ 32 :: _ ++ 32 :: ?T ++ _) = _ => ext_case A T d0 ds Hd0 Hds Hf0 Hfn
  end.
Qed.


(* ---------- with a start sector:  ACCESS sectors TYPE "file name" start ---------- *)
Lemma star_match_end cl ds c k r :
  forallb (in_cls cl) ds = true -> k [] c = Some r -> star_match cl ds c k = Some r.
Proof.
  intros Hds Hk. induction ds as [|d ds IH]; cbn [star_match]; [exact Hk|].
  cbn [forallb] in Hds. apply andb_prop in Hds as [Hd Hds]. rewrite Hd, (IH Hds). reflexivity.
Qed.

Lemma star_match_none cl rest c k :
  (forall p t, rest = p ++ t -> k t c = None) -> star_match cl rest c k = None.
Proof.
  induction rest as [|x rest IH]; intros Hf; cbn [star_match].
  - apply (Hf [] []). reflexivity.
  - rewrite IH by (intros p t ->; apply (Hf (x :: p) t); reflexivity).
    rewrite (Hf [] (x :: rest) eq_refl). destruct (in_cls cl x); reflexivity.
Qed.

Lemma star_match_back cl fn q rest c k r :
  forallb (in_cls cl) fn = true -> in_cls cl q = true ->
  (forall p t, rest = p ++ t -> k t c = None) -> k (q :: rest) c = Some r ->
  star_match cl (fn ++ q :: rest) c k = Some r.
Proof.
  intros Hfn Hq Hf Hk. induction fn as [|a fn IH]; cbn [app star_match].
  - rewrite Hq, (star_match_none cl rest c k Hf). exact Hk.
  - cbn [forallb] in Hfn. apply andb_prop in Hfn as [Ha Hfn]. rewrite Ha, (IH Hfn). reflexivity.
Qed.

Lemma digit_not_quote y : is_digit y = true -> (34 =? y) = false.
Proof. unfold is_digit. intros H. apply andb_prop in H as [H1 _]. apply Z.leb_le in H1. apply Z.eqb_neq. lia. Qed.

Lemma digit_is_any y : is_digit y = true -> in_cls CAny y = true.
Proof.
  unfold is_digit, in_cls. intros H. apply andb_prop in H as [H1 _]. apply Z.leb_le in H1.
  apply negb_true_iff. apply Z.eqb_neq. lia.
Qed.

Lemma suffix_head_in {A} (rest p t : list A) y : rest = p ++ y :: t -> In y rest.
Proof. intros ->. apply in_or_app. right. now left. Qed.

Ltac ext_case_start A T d0 ds f0 fn e0 es Hd0 Hds Hf0 Hfn He0 Hes :=
  let rhs := fresh "rhs" in
  match goal with |- _ = ?R => set (rhs := R) end;
  unfold ext_fields, re_search, re_extent, re_extent_of, ACCESS_MODES, EXTENT_TYPES, meta_extent_access, meta_extent_types;
  cbn [seqs alts map rmatch app starts_with]; cbn; rewrite Hd0;
  erewrite star_match_run; [|exact Hds|reflexivity|];
  [|cbn; rewrite Hf0; cbn [negb];
    erewrite (star_match_back CAny _ 34 (32 :: e0 :: es)); [reflexivity|exact Hfn|reflexivity| |];
    [ intros p t Hpt; destruct t as [|y t]; [reflexivity|];
      assert (Hy : (34 =? y) = false);
      [ pose proof (suffix_head_in _ _ _ _ Hpt) as Hin; destruct Hin as [<-|[<-|Hin]];
        [reflexivity|now apply digit_not_quote|
         apply digit_not_quote; rewrite forallb_forall in Hes; now apply Hes]
      | destruct y as [|q|q]; cbn; try reflexivity; destruct (Pos.eqb_spec 34 q) as [<-|Hne]; [discriminate Hy|reflexivity] ]
    | cbn; rewrite He0; erewrite star_match_end; [reflexivity|exact Hes|]; cbn; reflexivity ] ];
  fix_taken A (d0 :: ds) T;
  replace (taken (34 :: f0 :: fn ++ 34 :: 32 :: e0 :: es) (32 :: e0 :: es)) with (34 :: (f0 :: fn) ++ [34])
    by (symmetry; rewrite <- (taken_suffix (34 :: (f0 :: fn) ++ [34]) (32 :: e0 :: es)); f_equal; cbn [app];
        rewrite <- app_assoc; reflexivity);
  cbn [extent_of cap_get Nat.eqb parse_dec forallb bind of_option option_map];
  rewrite Hd0, Hds, He0, Hes;
  cbn [andb of_option bind x_access x_sectors x_type x_filename x_start x_partition x_device];
  subst rhs; reflexivity.


(* ... and with a start sector after the file name (FLAT / VMFS extents): the greedy ".+" first runs to
   the end of the line and backtracks to the closing quote *)
Theorem extent_line_start_roundtrip am ty d0 ds f0 fn e0 es :
  In am ACCESS_MODES -> In ty EXTENT_TYPES ->
  is_digit d0 = true -> forallb is_digit ds = true ->
  (f0 =? 10) = false -> forallb (in_cls CAny) fn = true ->
  is_digit e0 = true -> forallb is_digit es = true ->
  ext_fields (am ++ 32 :: (d0 :: ds) ++ 32 :: ty ++ 32 :: 34 :: (f0 :: fn) ++ 34 :: 32 :: e0 :: es)
  = Some (am, dec_value 0 (d0 :: ds), ty, Some (strip is_quote (34 :: (f0 :: fn) ++ [34])),
          Some (dec_value 0 (e0 :: es)), None, None).
Proof.
  intros Ham Hty Hd0 Hds Hf0 Hfn He0 Hes.
  unfold ACCESS_MODES, meta_extent_access in Ham. unfold EXTENT_TYPES, meta_extent_types in Hty.
  cbn [In] in Ham, Hty.
  repeat match type of Ham with _ \/ _ => destruct Ham as [Ham|Ham] end; try contradiction;
  repeat match type of Hty with _ \/ _ => destruct Hty as [Hty|Hty] end; try contradiction;
  subst am ty;
  match goal with
  | |- ext_fields (?A ++ 32 :: _ ++ 32 :: ?T ++ _) = _ =>
      ext_case_start A T d0 ds f0 fn e0 es Hd0 Hds Hf0 Hfn He0 Hes
  end.
Qed.

(* the file name between the quotes is exposed as stored when it neither starts nor ends with a quote *)
Lemma filename_strip f0 fn :
  clean is_quote (f0 :: fn) -> clean is_quote (rev (f0 :: fn)) ->
  strip is_quote (34 :: (f0 :: fn) ++ [34]) = f0 :: fn.
Proof. intros H1 H2. now apply strip_quoted. Qed.
