(* Proofs/Vhdx.v — VHDX.read_sectors / _read refine the pointwise spec
   (non-differencing part; the partially-present path is Proofs/VhdxPartial.v). *)
From Coq Require Import ZArith List Bool Lia String.
From DH Require Import Base.Arith Base.Plan Base.Table Base.Layout Model.Walk Model.Vhdx Proofs.BlockMapped.
From DH Require Gen.Layouts.
Import ListNotations.
Open Scope Z_scope.

(* the generated layout of bat_entry is what be_state / be_mb decode *)
Lemma bat_entry_layout_pinned :
  Gen.Layouts.vhdx_bat_entry_size = 8 /\
  Gen.Layouts.vhdx_big_endian = false /\
  map (fun f => (f_name f, f_off f, f_bitoff f, f_bitw f)) Gen.Layouts.vhdx_bat_entry_layout =
  [("state"%string, 0, 0, 3); ("reserved"%string, 0, 3, 17); ("file_offset_mb"%string, 0, 20, 44)].
Proof. repeat split. Qed.

Lemma be_state_bits raw : be_state raw = bits raw 0 3.
Proof. unfold be_state, bits. now rewrite Z.pow_0_r, Z.div_1_r. Qed.
Lemma be_mb_bits raw : 0 <= raw < 2 ^ 64 -> be_mb raw = bits raw 20 44.
Proof.
  intros H. unfold be_mb, bits. symmetry. apply Z.mod_small.
  split; [apply Z.div_pos; lia|]. apply Z.div_lt_upper_bound; lia.
Qed.

Lemma consts_pinned :
  MB = 1048576 /\ PB_NOT_PRESENT = 0 /\ PB_UNDEFINED = 1 /\ PB_ZERO = 2 /\ PB_UNMAPPED = 3 /\
  PB_FULLY_PRESENT = 6 /\ PB_PARTIALLY_PRESENT = 7.
Proof. repeat split. Qed.

Definition geom_ok (x : vhdx) : Prop :=
  0 < x_ss x /\ 0 < spb x /\ x_bs x = spb x * x_ss x /\ 0 < chunk_ratio x.

Definition states_ok (x : vhdx) : Prop :=
  forall i e, x_bat x i = Some e -> be_state e <> 4 /\ be_state e <> 5.

Section X.
  Variable x : vhdx.
  Hypothesis Hgeom : geom_ok x.
  Hypothesis Hstates : states_ok x.

  Lemma byte_in_vblock block sib n j :
    0 <= block -> 0 <= sib -> sib + n <= spb x -> 0 <= j < n * x_ss x ->
    ((block * spb x + sib) * x_ss x + j) / x_bs x = block /\
    ((block * spb x + sib) * x_ss x + j) mod x_bs x = sib * x_ss x + j.
  Proof.
    destruct Hgeom as (Hss & Hspb & Hbs & Hcr). intros Hb Hs Hfit Hj. rewrite Hbs.
    replace ((block * spb x + sib) * x_ss x + j) with (block * (spb x * x_ss x) + (sib * x_ss x + j)) by lia.
    assert (0 <= sib * x_ss x + j < spb x * x_ss x) by nia.
    split; [apply div_mul_add | apply mod_mul_add]; nia.
  Qed.

  (* per-block correctness when no parent is configured *)
  Lemma vhdx_emit_ok_noparent :
    x_has_parent x = false ->
    forall block es sib n segs,
    vhdx_lookup x block = Ok es -> vhdx_emit x es block sib n = Ok segs ->
    0 <= block -> 0 <= sib -> 0 < n -> sib + n <= spb x ->
    srcs_of segs = map (vhdx_src x) (zseq ((block * spb x + sib) * x_ss x) (n * x_ss x)).
  Proof.
    intros Hnp block [e s] sib n segs Hlk Hem Hb Hs Hn Hfit.
    destruct consts_pinned as (HMB & H0 & H1 & H2 & H3 & H6 & H7).
    destruct Hgeom as (Hss & Hspb & Hbs & Hcr).
    (* the payload entry *)
    assert (Hbat : x_bat x (block + block / chunk_ratio x) = Some e).
    { unfold vhdx_lookup, bat_pb, bat_get in Hlk.
      destruct (block + block / chunk_ratio x + 1 >? entry_count x); [discriminate|].
      destruct (x_bat x (block + block / chunk_ratio x)) as [e'|]; [|discriminate].
      cbn [of_option bind] in Hlk.
      destruct (be_state e' =? PB_PARTIALLY_PRESENT).
      - destruct (bat_sb x block); cbn [bind] in Hlk; congruence.
      - congruence. }
    destruct (Hstates _ _ Hbat) as [Hn4 Hn5].
    assert (Hst : 0 <= be_state e < 8) by (unfold be_state; apply Z.mod_pos_bound; lia).
    (* the spec on this range *)
    assert (Hsrc : forall j, 0 <= j < n * x_ss x ->
      vhdx_src x ((block * spb x + sib) * x_ss x + j) =
      if be_state e =? 6 then File (be_mb e * MB + sib * x_ss x + j)
      else if be_state e =? 7 then
        vhdx_src x ((block * spb x + sib) * x_ss x + j)
      else Zero).
    { intros j Hj. destruct (be_state e =? 7) eqn:E7.
      { destruct (be_state e =? 6) eqn:E6; [lia|reflexivity]. }
      unfold vhdx_src.
      destruct (byte_in_vblock block sib n j Hb Hs Hfit Hj) as [-> ->].
      rewrite Hbat. cbv zeta. rewrite E7, Hnp, andb_false_r.
      destruct (be_state e =? 6); [f_equal; lia|reflexivity]. }
    unfold vhdx_emit in Hem. rewrite H0, H1, H2, H3, H6, H7, Hnp in Hem.
    rewrite (zseq_rel (vhdx_src x)).
    destruct (Z.eqb_spec (be_state e) 0) as [E0|E0].
    { injection Hem as <-. unfold srcs_of; cbn [flat_map srcs_of_seg]; rewrite app_nil_r.
      apply map_ext_zseq. intros j Hj. rewrite Hsrc by lia.
      destruct (be_state e =? 6) eqn:E6; [lia|]. destruct (be_state e =? 7) eqn:E7; [lia|reflexivity]. }
    destruct ((be_state e =? 1) || (be_state e =? 2) || (be_state e =? 3)) eqn:E123.
    { injection Hem as <-. unfold srcs_of; cbn [flat_map srcs_of_seg]; rewrite app_nil_r.
      apply map_ext_zseq. intros j Hj. rewrite Hsrc by lia.
      destruct (be_state e =? 6) eqn:E6; [lia|]. destruct (be_state e =? 7) eqn:E7; [lia|reflexivity]. }
    destruct (Z.eqb_spec (be_state e) 6) as [E6|E6].
    { injection Hem as <-. unfold srcs_of; cbn [flat_map srcs_of_seg]; rewrite app_nil_r.
      rewrite (zseq_rel File). apply map_ext_zseq. intros j Hj. rewrite Hsrc by lia.
      try rewrite E6. cbn. f_equal; lia. }
    destruct (Z.eqb_spec (be_state e) 7) as [E7|E7].
    { cbn [negb] in Hem. discriminate. }
    exfalso. lia.
  Qed.

  Lemma vhdx_lookup_not_fuel b : vhdx_lookup x b <> Fuel.
  Proof.
    unfold vhdx_lookup, bat_pb, bat_sb, bat_get.
    destruct (_ >? entry_count x); cbn [bind]; [discriminate|].
    destruct (x_bat x _) as [e|]; cbn [of_option bind]; [|discriminate].
    destruct (be_state e =? PB_PARTIALLY_PRESENT); [|discriminate].
    destruct (_ >? entry_count x); cbn [bind]; [discriminate|].
    destruct (x_bat x _); cbn [of_option bind]; discriminate.
  Qed.

  Lemma vhdx_emit_not_fuel es b sib n : vhdx_emit x es b sib n <> Fuel.
  Proof.
    destruct es as [e s]. unfold vhdx_emit.
    repeat match goal with |- context [if ?c then _ else _] => destruct c end; try discriminate.
    unfold iter_partial_runs. destruct (map _ _); cbn [bind]; discriminate.
  Qed.

  (* C03: non-differencing VHDX, sector interface *)
  Theorem vhdx_read_sectors_sound fuel sector count p :
    x_has_parent x = false -> 0 <= sector ->
    vhdx_read_sectors x fuel sector count = Ok p ->
    srcs_of p = map (vhdx_src x) (zseq (sector * x_ss x) (count * x_ss x)).
  Proof.
    intros Hnp Hs Hrun. destruct Hgeom as (Hss & Hspb & Hbs & Hcr).
    exact (walk_correct (spb x) (x_ss x) (vhdx_lookup x) (vhdx_emit x) (vhdx_src x) Hspb Hss
             (vhdx_emit_ok_noparent Hnp) fuel sector count p Hs Hrun).
  Qed.

  Theorem vhdx_read_sectors_progress fuel sector count :
    0 <= sector -> count < Z.of_nat fuel -> vhdx_read_sectors x fuel sector count <> Fuel.
  Proof.
    intros Hs Hf. destruct Hgeom as (Hss & Hspb & Hbs & Hcr).
    apply (walk_fuel (spb x) (vhdx_lookup x) (vhdx_emit x) Hspb vhdx_lookup_not_fuel vhdx_emit_not_fuel); lia.
  Qed.

  (* interleaving arithmetic: the payload entry of a block inside the disk is inside the table *)
  Lemma pb_index_in_table block :
    x_has_parent x = false -> 0 <= block < pb_count x ->
    block + block / chunk_ratio x + 1 <= entry_count x.
  Proof.
    intros Hnp Hb. destruct Hgeom as (Hss & Hspb & Hbs & Hcr). unfold entry_count. rewrite Hnp.
    assert (block / chunk_ratio x <= (pb_count x - 1) / chunk_ratio x)
      by (apply Z.div_le_mono; lia).
    lia.
  Qed.

  Lemma pb_sb_index_in_table_parent block :
    x_has_parent x = true -> 0 <= block < pb_count x ->
    block + block / chunk_ratio x + 1 <= entry_count x /\
    (block / chunk_ratio x + 1) * chunk_ratio x + block / chunk_ratio x + 1 <= entry_count x.
  Proof.
    intros Hp Hb. destruct Hgeom as (Hss & Hspb & Hbs & Hcr). unfold entry_count, sb_count. rewrite Hp.
    set (cr := chunk_ratio x) in *. set (pc := pb_count x) in *.
    pose proof (Z.div_mod block cr ltac:(lia)) as Hd. pose proof (Z.mod_pos_bound block cr Hcr) as Hm.
    assert (Hq : block / cr + 1 <= (pc + cr - 1) / cr).
    { apply Z.div_le_lower_bound; [lia|]. nia. }
    nia.
  Qed.

  (* the BAT covers the disk: every entry a block inside the disk needs can be read *)
  Definition bat_covers : Prop :=
    forall i, 0 <= i < entry_count x -> exists e, x_bat x i = Some e.

  Definition vhdx_wf_nodiff : Prop :=
    x_has_parent x = false /\ 0 <= x_size x /\ bat_covers /\
    (forall i e, x_bat x i = Some e -> be_state e <> 7).

  Lemma covers_nodiff :
    vhdx_wf_nodiff -> covers (spb x) (vhdx_lookup x) (vhdx_emit x) (cdiv (x_size x) (x_ss x)).
  Proof.
    intros (Hnp & Hsz & Hcov & Hn7) block Hb Hlt.
    destruct Hgeom as (Hss & Hspb & Hbs & Hcr).
    assert (Hblk : block < pb_count x).
    { unfold pb_count, cdiv in *. rewrite Hbs.
      pose proof (Z.div_mod (x_size x + x_ss x - 1) (x_ss x) ltac:(lia)) as Hd1.
      pose proof (Z.mod_pos_bound (x_size x + x_ss x - 1) (x_ss x) Hss) as Hm1.
      assert (Hlt' : block * (spb x * x_ss x) <= x_size x - 1) by nia.
      assert (block + 1 <= (x_size x + spb x * x_ss x - 1) / (spb x * x_ss x)); [|lia].
      apply Z.div_le_lower_bound; nia. }
    pose proof (pb_index_in_table block Hnp ltac:(lia)) as Hidx.
    assert (Hq : 0 <= block / chunk_ratio x) by (apply Z.div_pos; lia).
    destruct (Hcov (block + block / chunk_ratio x) ltac:(lia)) as [e He].
    exists (e, 0). split.
    - unfold vhdx_lookup, bat_pb, bat_get.
      destruct (Z.gtb_spec (block + block / chunk_ratio x + 1) (entry_count x)); [lia|].
      rewrite He. cbn [of_option bind].
      destruct (Z.eqb_spec (be_state e) PB_PARTIALLY_PRESENT) as [E|E]; [|reflexivity].
      exfalso. apply (Hn7 _ _ He). exact E.
    - intros io n _ _ _. unfold vhdx_emit.
      destruct (be_state e =? PB_NOT_PRESENT); [eauto|].
      destruct ((be_state e =? PB_UNDEFINED) || (be_state e =? PB_ZERO) || (be_state e =? PB_UNMAPPED)); [eauto|].
      destruct (be_state e =? PB_FULLY_PRESENT); [eauto|].
      destruct (Z.eqb_spec (be_state e) PB_PARTIALLY_PRESENT) as [E|E]; [|eauto].
      exfalso. apply (Hn7 _ _ He). exact E.
  Qed.

  (* C03 / C08 back-end contract: any sector-aligned request starting inside the disk *)
  Theorem vhdx_read_correct off len :
    vhdx_wf_nodiff -> 0 <= off < x_size x -> off mod x_ss x = 0 -> 0 < len ->
    exists p, vhdx_read x (vhdx_fuel (cdiv (Z.min len (x_size x - off)) (x_ss x))) off len = Ok p /\
      let n := Z.min len (x_size x - off) in
      firstn (Z.to_nat n) (srcs_of p) = map (vhdx_src x) (zseq off n).
  Proof.
    intros Hwf Hoff Hal Hlen. pose proof (covers_nodiff Hwf) as Hc.
    destruct Hwf as (Hnp & Hsz & Hcov & Hn7). destruct Hgeom as (Hss & Hspb & Hbs & Hcr).
    unfold vhdx_read. set (n := Z.min len (x_size x - off)). assert (Hn : 0 < n) by (subst n; lia).
    unfold cdiv in *. set (ss := x_ss x) in *. set (count := (n + ss - 1) / ss).
    pose proof (Z.div_mod off ss ltac:(lia)) as Hdm.
    pose proof (Z.div_mod (n + ss - 1) ss ltac:(lia)) as Hdc.
    pose proof (Z.mod_pos_bound (n + ss - 1) ss Hss) as Hmc. fold count in Hdc.
    pose proof (Z.div_mod (x_size x + ss - 1) ss ltac:(lia)) as Hds.
    pose proof (Z.mod_pos_bound (x_size x + ss - 1) ss Hss) as Hms.
    assert (Hcnt : n <= count * ss /\ 0 < count) by nia.
    assert (Hs : 0 <= off / ss) by (apply Z.div_pos; lia).
    assert (Hend : off / ss + count <= (x_size x + ss - 1) / ss).
    { assert (off / ss * ss = off) by lia. subst count n.
      apply Z.div_le_lower_bound; [lia|].
      assert ((off / ss + (Z.min len (x_size x - off) + ss - 1) / ss) * ss <= off + Z.min len (x_size x - off) + ss - 1) by nia.
      lia. }
    destruct (walk_ok (spb x) (vhdx_lookup x) (vhdx_emit x) Hspb (vhdx_fuel count) (off / ss) count _
                Hc Hs Hend ltac:(unfold vhdx_fuel; lia)) as [p Hp].
    exists p. split; [exact Hp|]. cbv zeta.
    rewrite (vhdx_read_sectors_sound _ _ _ _ Hnp Hs Hp). fold ss.
    replace (off / ss * ss) with off by lia.
    apply firstn_map_zseq. lia.
  Qed.
End X.

(* 44-bit MiB offsets: no truncation for any file offset below 2^64 *)
Theorem bat_entry_roundtrip state mb :
  0 <= state < 8 -> 0 <= mb < 2 ^ 44 ->
  be_state (state + mb * 2 ^ 20) = state /\ be_mb (state + mb * 2 ^ 20) = mb.
Proof.
  intros Hs Hm. unfold be_state, be_mb. split.
  - replace (state + mb * 2 ^ 20) with (mb * 2 ^ 17 * 8 + state) by lia.
    apply mod_mul_add; lia.
  - rewrite Z.add_comm. apply div_mul_add; lia.
Qed.

(* non-vacuity: 1 MiB blocks, blocks stored at 10, 8, -, 9 MiB *)
Definition ex_vhdx : vhdx :=
  {| x_size := 4 * 1048576 - 4096; x_bs := 1048576; x_ss := 512; x_has_parent := false;
     x_bat := tbl [(0, 6 + 10 * 1048576); (1, 6 + 8 * 1048576); (3, 6 + 9 * 1048576)] 0 4;
     x_fbyte := fun _ => 0 |}.

Example ex_vhdx_geom : geom_ok ex_vhdx.
Proof. repeat split. Qed.

Example ex_vhdx_read :
  vhdx_read ex_vhdx 100%nat 524288 1048576 =
  Ok [SFile (10 * 1048576 + 524288) 524288; SFile (8 * 1048576) 524288].
Proof. vm_compute. reflexivity. Qed.
