(* Proofs/VmxCrypto.v — lemmas about Model/VmxCrypto.v *)
From Coq Require Import String Ascii ZArith List Bool Lia.
From DH Require Import Model.VmxCrypto.
Import ListNotations.
Open Scope Z_scope.

Lemma len_nonneg {A} (l : list A) : 0 <= len l.
Proof. unfold len. lia. Qed.
