(* Proofs/VmxCrypto.v — lemmas about Model/VmxCrypto.v *)
From Coq Require Import String Ascii ZArith List Bool Lia.
From DH Require Import Model.VmxCrypto.
Import ListNotations.
Open Scope Z_scope.

(* ---------------------------------------------------------------- lists *)
Lemma len_nonneg {A} (l : list A) : 0 <= len l.
Proof. unfold len. lia. Qed.

Lemma len_app {A} (a b : list A) : len (a ++ b) = len a + len b.
Proof. unfold len. rewrite app_length. lia. Qed.

Lemma len_nat {A} (l : list A) : Z.to_nat (len l) = length l.
Proof. unfold len. apply Nat2Z.id. Qed.

Lemma len_repeat {A} (x : A) k : len (repeat x k) = Z.of_nat k.
Proof. unfold len. now rewrite repeat_length. Qed.

Lemma list_eqb_refl a : list_eqb a a = true.
Proof. induction a as [|x a IH]; simpl; [reflexivity|]. now rewrite Z.eqb_refl, IH. Qed.

Lemma list_eqb_eq a b : list_eqb a b = true -> a = b.
Proof.
  revert b; induction a as [|x a IH]; intros [|y b]; simpl; try discriminate; [reflexivity|].
  intros H. apply andb_true_iff in H as [H1 H2]. apply Z.eqb_eq in H1. subst. f_equal. now apply IH.
Qed.

Lemma firstn_exact {A} (a b : list A) : firstn (length a) (a ++ b) = a.
Proof. induction a as [|x a IH]; simpl; [now destruct b|]. now rewrite IH. Qed.

Lemma skipn_exact {A} (a b : list A) : skipn (length a) (a ++ b) = b.
Proof. induction a as [|x a IH]; simpl; [reflexivity|exact IH]. Qed.

Lemma firstn_len_app {A} (a b : list A) n : n = len a -> firstn (Z.to_nat n) (a ++ b) = a.
Proof. intros ->. rewrite len_nat. apply firstn_exact. Qed.

Lemma skipn_len_app {A} (a b : list A) n : n = len a -> skipn (Z.to_nat n) (a ++ b) = b.
Proof. intros ->. rewrite len_nat. apply skipn_exact. Qed.

Lemma len_firstn_le {A} (l : list A) n : 0 <= n <= len l -> len (firstn (Z.to_nat n) l) = n.
Proof. intros H. unfold len in *. rewrite firstn_length. lia. Qed.

Lemma rev_repeat {A} (x : A) k : rev (repeat x k) = repeat x k.
Proof.
  induction k as [|k IH]; simpl; [reflexivity|]. rewrite IH.
  clear IH. induction k as [|k IH]; simpl; [reflexivity|]. now rewrite IH.
Qed.

(* ---------------------------------------------------------------- plans *)
Lemma run_pcatch {A B} o (p : plan A) (f : xres A -> plan B) :
  run o (pcatch p f) = run o (f (run o p)).
Proof. induction p as [r|c k IH]; simpl; [reflexivity|apply IH]. Qed.

Lemma run_pbind {A B} o (p : plan A) (f : A -> plan B) :
  run o (pbind p f) =
  match run o p with XOk a => run o (f a) | XExc e => XExc e | XFuel => XFuel end.
Proof. unfold pbind. rewrite run_pcatch. now destruct (run o p). Qed.

Lemma run_lift {A} o (r : xres A) : run o (lift r) = r.
Proof. reflexivity. Qed.

(* ---------------------------------------------------------------- PKCS#7 *)
Lemma pad_n_range (p : bytes) : 1 <= 16 - len p mod 16 <= 16.
Proof. pose proof (Z.mod_pos_bound (len p) 16 ltac:(lia)). lia. Qed.

Lemma pkcs7_pad_len (p : bytes) : len (pkcs7_pad p) = len p + (16 - len p mod 16).
Proof.
  unfold pkcs7_pad. rewrite len_app, len_repeat. pose proof (pad_n_range p). lia.
Qed.

Lemma pkcs7_pad_blocks (p : bytes) : len (pkcs7_pad p) mod 16 = 0.
Proof.
  rewrite pkcs7_pad_len. pose proof (Z.div_mod (len p) 16 ltac:(lia)) as Hd.
  replace (len p + (16 - len p mod 16)) with ((len p / 16 + 1) * 16) by lia.
  apply Z_mod_mult.
Qed.

Lemma pkcs7_pad_rev (p : bytes) :
  exists t, rev (pkcs7_pad p) = (16 - len p mod 16) :: t.
Proof.
  unfold pkcs7_pad. rewrite rev_app_distr, rev_repeat.
  pose proof (pad_n_range p) as Hn.
  destruct (Z.to_nat (16 - len p mod 16)) as [|k] eqn:Hk; [lia|].
  simpl. eexists. reflexivity.
Qed.

Theorem pkcs7_roundtrip (p : bytes) :
  exists lastb t, rev (pkcs7_pad p) = lastb :: t /\ pkcs7_strip (pkcs7_pad p) lastb = XOk p.
Proof.
  destruct (pkcs7_pad_rev p) as [t Ht].
  exists (16 - len p mod 16), t. split; [exact Ht|].
  pose proof (pad_n_range p) as Hn.
  unfold pkcs7_strip.
  destruct (Z.ltb_spec 16 (16 - len p mod 16)); [lia|].
  destruct (Z.eqb_spec (16 - len p mod 16) 0); [lia|].
  rewrite pkcs7_pad_len.
  replace (len p + (16 - len p mod 16) - (16 - len p mod 16)) with (len p) by lia.
  unfold pkcs7_pad.
  rewrite (skipn_len_app p _ (len p) eq_refl), (firstn_len_app p _ (len p) eq_refl).
  rewrite list_eqb_refl. reflexivity.
Qed.

(* ---------------------------------------------------------------- blob slicing *)
Lemma blob_slices (iv ct tag : bytes) n :
  len iv = 16 -> len tag = n -> 0 < n ->
  firstn 16 (iv ++ ct ++ tag) = iv /\
  slice_enc (iv ++ ct ++ tag) n = ct /\
  slice_mac (iv ++ ct ++ tag) n = tag.
Proof.
  intros Hiv Htag Hn.
  assert (Hiv' : length iv = 16%nat) by (unfold len in Hiv; lia).
  repeat split.
  - rewrite <- Hiv'. apply firstn_exact.
  - unfold slice_enc. destruct (Z.eqb_spec n 0); [lia|].
    replace (skipn 16 (iv ++ ct ++ tag)) with (ct ++ tag)
      by (rewrite <- Hiv'; symmetry; apply skipn_exact).
    apply firstn_len_app. rewrite !len_app. lia.
  - unfold slice_mac. destruct (Z.eqb_spec n 0); [lia|].
    rewrite app_assoc. apply skipn_len_app. rewrite !len_app. lia.
Qed.

(* ---------------------------------------------------------------- generated tables *)
Lemma valid_keylen_cases n : valid_keylen n = true -> n = 16 \/ n = 24 \/ n = 32.
Proof.
  unfold valid_keylen. intros H.
  destruct (Z.eqb_spec n 16); [auto|]. destruct (Z.eqb_spec n 24); [auto|].
  destruct (Z.eqb_spec n 32); [auto|]. discriminate.
Qed.

Ltac in_table H :=
  unfold CIPHER_KEY_SIZES, HMAC_MAP, PASS2KEY_MAP,
    Gen.Consts.vmx_CIPHER_KEY_SIZES, Gen.Consts.vmx_HMAC_MAP, Gen.Consts.vmx_PASS2KEY_MAP in H;
  simpl in H;
  repeat (destruct H as [H|H]; [inversion H; subst; clear H|]); [..|contradiction].

(* every cipher the code supports has an AES key size, and lookups find the entry *)
Lemma cipher_table_ok name klen :
  In (name, klen) CIPHER_KEY_SIZES ->
  lookup_str CIPHER_KEY_SIZES (cps name) = Some klen /\ valid_keylen klen = true.
Proof. intros H. in_table H; split; reflexivity. Qed.

(* every MAC entry names a hash whose digest is at least as long as the stored MAC *)
Definition hash_len (h : string) : Z :=
  if String.eqb h "sha1" then 20 else if String.eqb h "sha256" then 32 else 0.

Lemma hmac_table_ok name h n :
  In (name, (h, n)) HMAC_MAP ->
  lookup_str HMAC_MAP (cps name) = Some (h, n) /\ 0 < n <= hash_len h.
Proof. intros H. in_table H; split; try reflexivity; unfold hash_len; simpl; lia. Qed.

Lemma kdf_table_ok name h :
  In (name, h) PASS2KEY_MAP ->
  lookup_str PASS2KEY_MAP (cps name) = Some h /\ 0 < hash_len h.
Proof. intros H. in_table H; split; try reflexivity; unfold hash_len; simpl; lia. Qed.

(* the combinations the property names are all in the generated tables *)
Lemma tables_cover_property :
  In ("AES-128"%string, 16) CIPHER_KEY_SIZES /\ In ("AES-192"%string, 24) CIPHER_KEY_SIZES /\
  In ("AES-256"%string, 32) CIPHER_KEY_SIZES /\
  In ("HMAC-SHA-1"%string, ("sha1"%string, 20)) HMAC_MAP /\
  In ("HMAC-SHA-1-128"%string, ("sha1"%string, 16)) HMAC_MAP /\
  In ("HMAC-SHA-256"%string, ("sha256"%string, 32)) HMAC_MAP /\
  In ("PBKDF2-HMAC-SHA-1"%string, "sha1"%string) PASS2KEY_MAP /\
  In ("PBKDF2-HMAC-SHA-256"%string, "sha256"%string) PASS2KEY_MAP.
Proof. unfold CIPHER_KEY_SIZES, HMAC_MAP, PASS2KEY_MAP. simpl. intuition. Qed.

(* ---------------------------------------------------------------- the unlock path *)
Section Unlock.
  Variable o : oracles.

  (* "the stored MAC and padding of [data] verify under [key] and yield [plain]" *)
  Definition verified (key data : bytes) (h : string) (n : Z) (plain : bytes) : Prop :=
    valid_keylen (len key) = true /\ len (firstn 16 data) = 16 /\ len (slice_enc data n) mod 16 = 0 /\
    exists lastb t,
      rev (o_aes_dec o key (firstn 16 data) (slice_enc data n)) = lastb :: t /\
      pkcs7_strip (o_aes_dec o key (firstn 16 data) (slice_enc data n)) lastb = XOk plain /\
      firstn (Z.to_nat n) (o_hmac o (cps h) key plain) = slice_mac data n.

  Lemma decrypt_hmac_verified key data macname h n plain :
    lookup_str HMAC_MAP macname = Some (h, n) ->
    verified key data h n plain ->
    run o (decrypt_hmac key data macname) = XOk plain.
  Proof.
    intros Hl (Hk & Hiv & Hblk & lastb & t & Hrev & Hstrip & Hmac).
    unfold decrypt_hmac. rewrite Hl, Hk. cbn [negb].
    rewrite Hiv, Z.eqb_refl. cbn [negb]. rewrite Hblk. cbn [Z.eqb negb].
    cbn [run answer]. rewrite Hrev, Hstrip. cbn [run answer].
    rewrite Hmac, list_eqb_refl. reflexivity.
  Qed.

  Lemma decrypt_hmac_ok_inv key data macname plain :
    run o (decrypt_hmac key data macname) = XOk plain ->
    exists h n, lookup_str HMAC_MAP macname = Some (h, n) /\ verified key data h n plain.
  Proof.
    unfold decrypt_hmac. intros H.
    destruct (lookup_str HMAC_MAP macname) as [[h n]|] eqn:Hl; [|discriminate].
    exists h, n. split; [reflexivity|].
    destruct (valid_keylen (len key)) eqn:Hk; [|discriminate]. cbn [negb] in H.
    destruct (Z.eqb_spec (len (firstn 16 data)) 16) as [Hiv|]; [|discriminate]. cbn [negb] in H.
    destruct (Z.eqb_spec (len (slice_enc data n) mod 16) 0) as [Hblk|]; [|discriminate]. cbn [negb] in H.
    cbn [run answer] in H.
    destruct (rev (o_aes_dec o key (firstn 16 data) (slice_enc data n))) as [|lastb t] eqn:Hrev;
      [discriminate|].
    destruct (pkcs7_strip (o_aes_dec o key (firstn 16 data) (slice_enc data n)) lastb)
      as [dec'| |] eqn:Hstrip; try discriminate.
    cbn [run answer] in H.
    destruct (list_eqb (firstn (Z.to_nat n) (o_hmac o (cps h) key dec')) (slice_mac data n)) eqn:Hm;
      [|discriminate].
    injection H as <-.
    repeat split; try assumption.
    exists lastb, t. repeat split; try assumption. now apply list_eqb_eq.
  Qed.

  (* a stored MAC that differs from the recomputed one is a ValueError, never an acceptance *)
  Lemma decrypt_hmac_mismatch key data macname h n lastb t plain :
    lookup_str HMAC_MAP macname = Some (h, n) ->
    valid_keylen (len key) = true -> len (firstn 16 data) = 16 -> len (slice_enc data n) mod 16 = 0 ->
    rev (o_aes_dec o key (firstn 16 data) (slice_enc data n)) = lastb :: t ->
    pkcs7_strip (o_aes_dec o key (firstn 16 data) (slice_enc data n)) lastb = XOk plain ->
    firstn (Z.to_nat n) (o_hmac o (cps h) key plain) <> slice_mac data n ->
    run o (decrypt_hmac key data macname) = XExc EValue.
  Proof.
    intros Hl Hk Hiv Hblk Hrev Hstrip Hne.
    unfold decrypt_hmac. rewrite Hl, Hk. cbn [negb].
    rewrite Hiv, Z.eqb_refl. cbn [negb]. rewrite Hblk. cbn [Z.eqb negb].
    cbn [run answer]. rewrite Hrev, Hstrip. cbn [run answer].
    destruct (list_eqb _ _) eqn:He; [|reflexivity].
    apply list_eqb_eq in He. contradiction.
  Qed.

  (* ---- Phrase.unwrap *)
  Definition rounds_ok (r : Z) : Prop := 1 <= r <= 2147483647.

  Lemma phrase_unwrap_ok p2k cipher rounds salt pw kh klen :
    lookup_str PASS2KEY_MAP p2k = Some kh -> lookup_str CIPHER_KEY_SIZES cipher = Some klen ->
    rounds_ok rounds -> 1 <= klen ->
    run o (phrase_unwrap p2k cipher rounds salt pw) = XOk (o_pbkdf2 o (cps kh) pw salt rounds klen).
  Proof.
    intros H1 H2 [Hr1 Hr2] Hk. unfold phrase_unwrap. rewrite H1, H2.
    destruct (Z.ltb_spec rounds (-9223372036854775808)); [lia|].
    destruct (Z.ltb_spec 9223372036854775807 rounds); [lia|]. cbn [orb].
    destruct (Z.ltb_spec rounds 1); [lia|].
    destruct (Z.ltb_spec 2147483647 rounds); [lia|].
    destruct (Z.ltb_spec klen 1); [lia|].
    reflexivity.
  Qed.

  Lemma phrase_unwrap_ok_inv p2k cipher rounds salt pw key :
    run o (phrase_unwrap p2k cipher rounds salt pw) = XOk key ->
    exists kh klen, lookup_str PASS2KEY_MAP p2k = Some kh /\ lookup_str CIPHER_KEY_SIZES cipher = Some klen /\
      rounds_ok rounds /\ key = o_pbkdf2 o (cps kh) pw salt rounds klen.
  Proof.
    unfold phrase_unwrap. intros H.
    destruct (lookup_str PASS2KEY_MAP p2k) as [kh|]; [|discriminate].
    destruct (lookup_str CIPHER_KEY_SIZES cipher) as [klen|]; [|discriminate].
    destruct ((rounds <? -9223372036854775808) || (9223372036854775807 <? rounds)); [discriminate|].
    destruct (Z.ltb_spec rounds 1); [discriminate|].
    destruct (Z.ltb_spec 2147483647 rounds); [discriminate|].
    destruct (Z.ltb_spec klen 1); [discriminate|].
    cbn [run answer] in H. injection H as <-.
    exists kh, klen. unfold rounds_ok. repeat split; try reflexivity; lia.
  Qed.

  (* ---- the key dictionary inside a pair: bytes -> configuration key *)
  Definition keydict_key (kd : bytes) : xres bytes :=
    dox text <- utf8_strict kd;
    dox k64 <- of_opt EKey (dict_get (parse_crypto_dict text) (cps "key"));
    b64decode_str k64.

  Lemma run_attempt p2k cipher rounds salt mac data pw :
    run o (attempt p2k cipher rounds salt mac data pw) =
    match run o (phrase_unwrap p2k cipher rounds salt pw) with
    | XOk key =>
        match run o (decrypt_hmac key data mac) with
        | XOk dec => match keydict_key dec with XOk k => XOk (k, mac) | XExc e => XExc e | XFuel => XFuel end
        | XExc e => XExc e
        | XFuel => XFuel
        end
    | XExc e => XExc e
    | XFuel => XFuel
    end.
  Proof.
    unfold attempt. rewrite run_pbind.
    destruct (run o (phrase_unwrap p2k cipher rounds salt pw)) as [key| |]; try reflexivity.
    rewrite run_pbind.
    destruct (run o (decrypt_hmac key data mac)) as [dec| |]; try reflexivity.
    rewrite run_pbind, run_lift. unfold keydict_key.
    destruct (utf8_strict dec) as [text| |]; try reflexivity. cbn [xbind].
    rewrite run_pbind, run_lift.
    destruct (of_opt EKey (dict_get (parse_crypto_dict text) (cps "key"))) as [k64| |]; try reflexivity.
    cbn [xbind]. rewrite run_pbind, run_lift.
    destruct (b64decode_str k64); reflexivity.
  Qed.

  (* ---- KeySafe.unseal_with_phrase *)
  (* a locator the loop passes over: not a Phrase pair, or its attempt ends in ValueError *)
  Definition skipped (pw : bytes) (l : locator) : Prop :=
    match l with
    | LPair (LPhrase _ p2k cipher rounds salt) mac data =>
        run o (attempt p2k cipher rounds salt mac data pw) = XExc EValue
    | LPair _ _ _ => True
    | _ => False
    end.

  Lemma unseal_skip pw pre rest :
    Forall (skipped pw) pre -> run o (unseal (pre ++ rest) pw) = run o (unseal rest pw).
  Proof.
    induction 1 as [|l pre Hl _ IH]; [reflexivity|].
    cbn [app unseal].
    destruct l as [ls|w mac data|id p2k c r s]; cbn [skipped] in Hl; try contradiction.
    destruct w as [ls'|w' mac' data'|id p2k c r s]; try exact IH.
    rewrite run_pcatch, Hl. exact IH.
  Qed.

  Lemma unseal_hit pw id p2k c r s mac data rest k :
    run o (attempt p2k c r s mac data pw) = XOk (k, mac) ->
    run o (unseal (LPair (LPhrase id p2k c r s) mac data :: rest) pw) = XOk (k, mac).
  Proof. intros H. cbn [unseal]. rewrite run_pcatch, H. reflexivity. Qed.

  Lemma unseal_ok_inv pw locs k m :
    run o (unseal locs pw) = XOk (k, m) ->
    exists id p2k c r s data,
      In (LPair (LPhrase id p2k c r s) m data) locs /\
      run o (attempt p2k c r s m data pw) = XOk (k, m).
  Proof.
    induction locs as [|l locs IH]; cbn [unseal]; [discriminate|].
    intros H.
    assert (Hrest : run o (unseal locs pw) = XOk (k, m) ->
            exists id p2k c r s data,
              In (LPair (LPhrase id p2k c r s) m data) (l :: locs) /\
              run o (attempt p2k c r s m data pw) = XOk (k, m)).
    { intros H'. destruct (IH H') as (id & p2k & c & r & s & data & Hin & Hrun).
      exists id, p2k, c, r, s, data. split; [right; exact Hin|exact Hrun]. }
    destruct l as [ls|w mac data|id p2k c r s]; try discriminate.
    destruct w as [ls'|w' mac' data'|id p2k c r s]; try (apply Hrest; exact H).
    rewrite run_pcatch in H.
    destruct (run o (attempt p2k c r s mac data pw)) as [[k' m']|e|] eqn:Ha.
    - cbn [run] in H. injection H as -> ->.
      assert (Hm : m = mac).
      { rewrite run_attempt in Ha.
        destruct (run o (phrase_unwrap p2k c r s pw)); try discriminate.
        destruct (run o (decrypt_hmac a data mac)); try discriminate.
        destruct (keydict_key a0); try discriminate. now injection Ha as _ <-. }
      subst m. exists id, p2k, c, r, s, data. split; [left; reflexivity|exact Ha].
    - destruct e; try discriminate. apply Hrest; exact H.
    - discriminate.
  Qed.

  (* ---- VMX.unlock_with_phrase *)
  Lemma run_unlock attr pw :
    run o (unlock attr pw) =
    match dict_get attr K_KEYSAFE with
    | None => XExc EType
    | Some ks =>
      match keysafe_from_text ks with
      | XOk locs =>
        match run o (unseal locs pw) with
        | XOk km =>
          match dict_get attr K_DATA with
          | None => XExc EKey
          | Some d64 =>
            match b64decode_str d64 with
            | XOk enc =>
              match run o (decrypt_hmac (fst km) enc (snd km)) with
              | XOk dec =>
                  match utf8_strict dec with
                  | XOk text => XOk (dict_update attr (parse_dictionary text))
                  | XExc e => XExc e | XFuel => XFuel
                  end
              | XExc e => XExc e | XFuel => XFuel
              end
            | XExc e => XExc e | XFuel => XFuel
            end
          end
        | XExc e => XExc e | XFuel => XFuel
        end
      | XExc e => XExc e | XFuel => XFuel
      end
    end.
  Proof.
    unfold unlock. destruct (dict_get attr K_KEYSAFE) as [ks|]; [|reflexivity].
    rewrite run_pbind, run_lift. destruct (keysafe_from_text ks) as [locs| |]; try reflexivity.
    rewrite run_pbind. destruct (run o (unseal locs pw)) as [km| |]; try reflexivity.
    rewrite run_pbind, run_lift. destruct (dict_get attr K_DATA) as [d64|]; [|reflexivity].
    cbn [of_opt]. rewrite run_pbind, run_lift. destruct (b64decode_str d64) as [enc| |]; try reflexivity.
    rewrite run_pbind. destruct (run o (decrypt_hmac (fst km) enc (snd km))) as [dec| |]; try reflexivity.
    rewrite run_pbind, run_lift. destruct (utf8_strict dec); reflexivity.
  Qed.

  (* success => both stored MACs (and paddings) verify: the exact content of "authenticated" *)
  Theorem unlock_sound attr pw attr' :
    run o (unlock attr pw) = XOk attr' ->
    exists ks locs id p2k cipher rounds salt macname pdata kh klen h n kd d64 blob cfg text,
      dict_get attr K_KEYSAFE = Some ks /\ keysafe_from_text ks = XOk locs /\
      In (LPair (LPhrase id p2k cipher rounds salt) macname pdata) locs /\
      lookup_str PASS2KEY_MAP p2k = Some kh /\ lookup_str CIPHER_KEY_SIZES cipher = Some klen /\
      rounds_ok rounds /\
      lookup_str HMAC_MAP macname = Some (h, n) /\
      verified (o_pbkdf2 o (cps kh) pw salt rounds klen) pdata h n kd /\
      dict_get attr K_DATA = Some d64 /\ b64decode_str d64 = XOk blob /\
      (exists key, keydict_key kd = XOk key /\ verified key blob h n cfg) /\
      utf8_strict cfg = XOk text /\
      attr' = dict_update attr (parse_dictionary text).
  Proof.
    rewrite run_unlock. intros H.
    destruct (dict_get attr K_KEYSAFE) as [ks|] eqn:Hks; [|discriminate].
    destruct (keysafe_from_text ks) as [locs| |] eqn:Hkt; try discriminate.
    destruct (run o (unseal locs pw)) as [[key mac]| |] eqn:Hu; try discriminate.
    destruct (dict_get attr K_DATA) as [d64|] eqn:Hkd; [|discriminate].
    destruct (b64decode_str d64) as [blob| |] eqn:Hb; try discriminate.
    cbn [fst snd] in H.
    destruct (run o (decrypt_hmac key blob mac)) as [cfg| |] eqn:Hd; try discriminate.
    destruct (utf8_strict cfg) as [text| |] eqn:Ht; try discriminate.
    injection H as <-.
    destruct (unseal_ok_inv _ _ _ _ Hu) as (id & p2k & c & r & s & pdata & Hin & Ha).
    rewrite run_attempt in Ha.
    destruct (run o (phrase_unwrap p2k c r s pw)) as [wk| |] eqn:Hw; try discriminate.
    destruct (run o (decrypt_hmac wk pdata mac)) as [kd| |] eqn:Hp; try discriminate.
    destruct (keydict_key kd) as [k| |] eqn:Hk; try discriminate.
    injection Ha as ->.
    destruct (phrase_unwrap_ok_inv _ _ _ _ _ _ Hw) as (kh & klen & Hl1 & Hl2 & Hr & ->).
    destruct (decrypt_hmac_ok_inv _ _ _ _ Hp) as (h & n & Hl3 & Hv1).
    destruct (decrypt_hmac_ok_inv _ _ _ _ Hd) as (h' & n' & Hl3' & Hv2).
    rewrite Hl3 in Hl3'. injection Hl3' as <- <-.
    exists ks, locs, id, p2k, c, r, s, mac, pdata, kh, klen, h, n, kd, d64, blob, cfg, text.
    do 10 (split; [solve [assumption | reflexivity]|]).
    split; [exists key; split; [exact Hk|exact Hv2]|].
    split; [exact Ht|reflexivity].
  Qed.

  (* failure leaves the dictionary as it was *)
  Theorem no_partial_update attr pw :
    fst (unlock_state o attr pw) <> XOk tt -> snd (unlock_state o attr pw) = attr.
  Proof.
    unfold unlock_state. destruct (run o (unlock attr pw)); cbn [fst snd]; [congruence|reflexivity..].
  Qed.

  Theorem unlock_state_ok attr pw attr' :
    unlock_state o attr pw = (XOk tt, attr') <-> run o (unlock attr pw) = XOk attr'.
  Proof.
    unfold unlock_state. destruct (run o (unlock attr pw)); split; intros H; try discriminate;
      inversion H; reflexivity.
  Qed.
End Unlock.

(* ---------------------------------------------------------------- sealing and the round trip *)
Section Roundtrip.
  Variable aes_enc : bytes -> bytes -> bytes -> bytes.
  Variable o : oracles.

  (* the only facts used about the primitives *)
  Hypothesis aes_inverse : forall k iv p,
    valid_keylen (len k) = true -> len iv = 16 -> len p mod 16 = 0 ->
    o_aes_dec o k iv (aes_enc k iv p) = p.
  Hypothesis aes_length : forall k iv p, len (aes_enc k iv p) = len p.
  Hypothesis hmac_length : forall h k m, 0 < hash_len h -> len (o_hmac o (cps h) k m) = hash_len h.
  Hypothesis pbkdf2_length : forall h pw s r n, 0 < hash_len h -> 0 <= n -> len (o_pbkdf2 o (cps h) pw s r n) = n.

  Lemma seal_verified key iv plain h n :
    valid_keylen (len key) = true -> len iv = 16 -> 0 < n <= hash_len h ->
    verified o key (seal_blob aes_enc (o_hmac o) (cps h) n key iv plain) h n plain.
  Proof.
    intros Hk Hiv Hn. unfold seal_blob.
    assert (Htag : len (firstn (Z.to_nat n) (o_hmac o (cps h) key plain)) = n).
    { apply len_firstn_le. rewrite hmac_length by lia. lia. }
    destruct (blob_slices iv (aes_enc key iv (pkcs7_pad plain))
                (firstn (Z.to_nat n) (o_hmac o (cps h) key plain)) n Hiv Htag ltac:(lia))
      as (E1 & E2 & E3).
    unfold verified. rewrite E1, E2, E3.
    repeat split; try assumption.
    - rewrite aes_length. apply pkcs7_pad_blocks.
    - rewrite aes_inverse by (try assumption; apply pkcs7_pad_blocks).
      destruct (pkcs7_roundtrip plain) as (lastb & t & Hrev & Hstrip).
      exists lastb, t. repeat split; assumption.
  Qed.

  (* a Phrase pair sealed under [pw] opens under [pw] *)
  Lemma attempt_sealed kdf kh cipher klen macname h n rounds salt pw iv kd k :
    In (kdf, kh) PASS2KEY_MAP -> In (cipher, klen) CIPHER_KEY_SIZES -> In (macname, (h, n)) HMAC_MAP ->
    rounds_ok rounds -> len iv = 16 -> keydict_key kd = XOk k ->
    let key := o_pbkdf2 o (cps kh) pw salt rounds klen in
    run o (attempt (cps kdf) (cps cipher) rounds salt (cps macname)
                   (seal_blob aes_enc (o_hmac o) (cps h) n key iv kd) pw) = XOk (k, cps macname).
  Proof.
    intros Hkdf Hc Hm Hr Hiv Hkd key.
    destruct (kdf_table_ok _ _ Hkdf) as [Lk Hkh].
    destruct (cipher_table_ok _ _ Hc) as [Lc Hvk].
    destruct (hmac_table_ok _ _ _ Hm) as [Lm Hn].
    assert (Hklen : 1 <= klen) by (destruct (valid_keylen_cases _ Hvk) as [->|[->| ->]]; lia).
    rewrite run_attempt.
    rewrite (phrase_unwrap_ok o _ _ _ _ _ _ _ Lk Lc Hr Hklen). fold key.
    assert (Hkey : valid_keylen (len key) = true).
    { unfold key. rewrite pbkdf2_length by lia. exact Hvk. }
    rewrite (decrypt_hmac_verified o _ _ _ _ _ _ Lm (seal_verified key iv kd h n Hkey Hiv Hn)).
    rewrite Hkd. reflexivity.
  Qed.

  (* the central round trip at the level of the parsed key safe *)
  Theorem unlock_roundtrip_parsed
      kdf kh cipher klen macname h n rounds salt pw iv1 iv2 id kd K cfg text attr ks d64 pre post :
    In (kdf, kh) PASS2KEY_MAP -> In (cipher, klen) CIPHER_KEY_SIZES -> In (macname, (h, n)) HMAC_MAP ->
    rounds_ok rounds -> len iv1 = 16 -> len iv2 = 16 ->
    keydict_key kd = XOk K -> valid_keylen (len K) = true ->
    utf8_strict cfg = XOk text ->
    let wkey := o_pbkdf2 o (cps kh) pw salt rounds klen in
    let pair := LPair (LPhrase id (cps kdf) (cps cipher) rounds salt) (cps macname)
                      (seal_blob aes_enc (o_hmac o) (cps h) n wkey iv1 kd) in
    Forall (skipped o pw) pre ->
    dict_get attr K_KEYSAFE = Some ks -> keysafe_from_text ks = XOk (pre ++ pair :: post) ->
    dict_get attr K_DATA = Some d64 ->
    b64decode_str d64 = XOk (seal_blob aes_enc (o_hmac o) (cps h) n K iv2 cfg) ->
    run o (unlock attr pw) = XOk (dict_update attr (parse_dictionary text)).
  Proof.
    intros Hkdf Hc Hm Hr Hiv1 Hiv2 Hkd HK Hcfg wkey pair Hpre Hks Hparse Hd Hb64.
    destruct (hmac_table_ok _ _ _ Hm) as [Lm Hn].
    rewrite run_unlock, Hks, Hparse.
    rewrite (unseal_skip o pw pre (pair :: post) Hpre).
    unfold pair.
    rewrite (unseal_hit o pw _ _ _ _ _ _ _ post K
               (attempt_sealed kdf kh cipher klen macname h n rounds salt pw iv1 kd K
                  Hkdf Hc Hm Hr Hiv1 Hkd)).
    rewrite Hd, Hb64. cbn [fst snd].
    rewrite (decrypt_hmac_verified o _ _ _ _ _ _ Lm (seal_verified K iv2 cfg h n HK Hiv2 Hn)).
    rewrite Hcfg. reflexivity.
  Qed.
End Roundtrip.

(* ---------------------------------------------------------------- non-vacuity: toy primitives *)
Definition toy_hlen (hs : str) : Z :=
  if list_eqb hs (cps "sha1") then 20 else if list_eqb hs (cps "sha256") then 32 else 0.
Definition sumz (l : list Z) : Z := fold_right Z.add 0 l.
(* a key-dependent involution that maps bytes to bytes *)
Definition flip (b : Z) : Z := if Z.even b then b + 1 else b - 1.
Definition toy_enc (k iv p : bytes) : bytes :=
  if Z.odd (sumz k + sumz iv) then map flip p else rev p.
Definition toy_dec (k iv c : bytes) : bytes := toy_enc k iv c.
Definition toy_hmac (hs : str) (k m : bytes) : bytes :=
  repeat ((sumz m + 7 * sumz k + len m) mod 251) (Z.to_nat (toy_hlen hs)).
Definition toy_pbkdf2 (hs : str) (pw s : bytes) (r n : Z) : bytes :=
  repeat ((len pw + r) mod 256) (Z.to_nat n).
Definition toy : oracles :=
  {| o_pbkdf2 := toy_pbkdf2; o_aes_dec := toy_dec; o_hmac := toy_hmac |}.

Lemma toy_hyps :
  (forall k iv p, valid_keylen (len k) = true -> len iv = 16 -> len p mod 16 = 0 ->
                  toy_dec k iv (toy_enc k iv p) = p) /\
  (forall k iv p, len (toy_enc k iv p) = len p) /\
  (forall h k m, 0 < hash_len h -> len (toy_hmac (cps h) k m) = hash_len h) /\
  (forall h pw s r n, 0 < hash_len h -> 0 <= n -> len (toy_pbkdf2 (cps h) pw s r n) = n).
Proof.
  repeat split.
  - intros k iv p _ _ _. unfold toy_dec, toy_enc.
    destruct (Z.odd (sumz k + sumz iv)); [|apply rev_involutive].
    rewrite map_map. rewrite <- (map_id p) at 2. apply map_ext. intros b. unfold flip.
    destruct (Z.even b) eqn:E.
    + rewrite Z.even_add, E. simpl. lia.
    + rewrite Z.even_sub, E. simpl. lia.
  - intros. unfold toy_enc, len. destruct (Z.odd _); [now rewrite map_length|now rewrite rev_length].
  - intros h k m Hh. unfold toy_hmac. rewrite len_repeat. unfold hash_len in *. unfold toy_hlen.
    destruct (String.eqb_spec h "sha1") as [->|]; [reflexivity|].
    destruct (String.eqb_spec h "sha256") as [->|]; [reflexivity|]. lia.
  - intros. unfold toy_pbkdf2. rewrite len_repeat. lia.
Qed.

(* a complete sealed file, rendered as text by the writer of the specification *)
Definition ex_pw : bytes := cps "secret".
Definition ex_K : bytes := [1; 2; 3; 4; 5; 6; 7; 8; 9; 10; 11; 12; 13; 14; 15; 255].
Definition ex_cfg : bytes := cps "a = ""1""" ++ [10] ++ cps "Disk.File=""d 1.vmdk""".
Definition ex_iv : bytes := repeat 7 16.
Definition ex_wkey : bytes := toy_pbkdf2 (cps "sha1") ex_pw [200; 0; 17] 10 16.
Definition ex_pair : ppair :=
  {| pp_id := cps "id/1,(x)"; pp_p2k := cps "PBKDF2-HMAC-SHA-1"; pp_cipher := cps "AES-128";
     pp_rounds := 10; pp_salt := [200; 0; 17]; pp_mac := cps "HMAC-SHA-1-128";
     pp_data := seal_blob toy_enc toy_hmac (cps "sha1") 16 ex_wkey ex_iv
                          (render_keydict (cps "AES-128") ex_K) |}.
Definition ex_decoy : ppair :=
  {| pp_id := cps "other"; pp_p2k := cps "PBKDF2-HMAC-SHA-256"; pp_cipher := cps "AES-256";
     pp_rounds := 3; pp_salt := []; pp_mac := cps "HMAC-SHA-256";
     pp_data := seal_blob toy_enc toy_hmac (cps "sha256") 32 (repeat 1 32) ex_iv
                          (render_keydict (cps "AES-128") ex_K) |}.
Definition ex_attr : dict :=
  [(cps ".encoding", cps "UTF-8");
   (K_KEYSAFE, render_keysafe [ex_decoy; ex_pair]);
   (K_DATA, b64encode (seal_blob toy_enc toy_hmac (cps "sha1") 16 ex_K ex_iv ex_cfg))].

Lemma ex_unlocks :
  run toy (unlock ex_attr ex_pw) =
  XOk (ex_attr ++ [(cps "a", cps "1"); (cps "disk.file", cps "d 1.vmdk")]).
Proof. vm_compute. reflexivity. Qed.

Lemma ex_wrong_phrase : run toy (unlock ex_attr (cps "Secret!")) = XExc EValue.
Proof. vm_compute. reflexivity. Qed.

Lemma ex_decoy_skipped : skipped toy ex_pw (loc_of_ppair ex_decoy).
Proof. vm_compute. reflexivity. Qed.
