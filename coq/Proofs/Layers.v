(* Proofs/Layers.v — each format's reader, seen as a layer over a parent, meets [layer_ok];
   chains of such layers therefore read as the overlay of their layers (Proofs/Chain.v). *)
From Coq Require Import ZArith List Bool Lia.
From DH Require Import Base.Arith Base.Plan Base.Table Model.Walk Proofs.BlockMapped Model.Chain Proofs.Chain
  Model.Vdi Proofs.Vdi Model.Hds Proofs.Hds.
Import ListNotations.
Open Scope Z_scope.

(* ---------------- VDI ---------------- *)
Definition vdi_layer (v : vdi) : layer :=
  {| l_read := fun off n => vdi_read v (vdi_fuel n) off n; l_src := vdi_src v |}.

Lemma vdi_emit_parent_range v idx e io n segs o m :
  vdi_emit v e idx io n = Ok segs -> In (SParent o m) segs ->
  0 <= idx -> 0 <= io -> 0 < n -> io + n <= v_bs v ->
  (idx * v_bs v + io) * 1 <= o /\ 0 <= m /\ o + m <= (idx * v_bs v + io + n) * 1.
Proof.
  unfold vdi_emit. intros [= <-] Hin Hidx Hio Hn Hfit.
  destruct (e =? UNALLOCATED); [destruct (v_parent v)|destruct (e =? SPARSE)];
    cbn in Hin; destruct Hin as [Hin|[]]; try discriminate.
  injection Hin as <- <-. lia.
Qed.

Theorem vdi_layer_ok v : 0 < v_bs v -> vdi_wf v -> layer_ok (v_size v) (vdi_layer v).
Proof.
  intros Hbs Hwf off n Hoff Hn Hfit. cbn [vdi_layer l_read l_src].
  destruct (Z.eq_dec n 0) as [->|Hn0].
  - exists []. unfold vdi_read. rewrite Z.min_l by lia. split; [reflexivity|]. split; [reflexivity|].
    intros o m [].
  - destruct (vdi_read_correct v Hbs off n Hwf ltac:(lia) ltac:(lia)) as (p & Hp & Hs).
    exists p. split; [exact Hp|]. rewrite Z.min_l in Hs by lia. split; [exact Hs|].
    intros o m Hin. unfold vdi_read in Hp. rewrite Z.min_l in Hp by lia.
    destruct (walk_parent_range (v_bs v) 1 (vdi_lookup v) (vdi_emit v) Hbs ltac:(lia)
                (vdi_emit_parent_range v) (vdi_fuel n) off n p o m Hoff Hp Hin) as (H1 & H2 & H3).
    lia.
Qed.

Lemma vdi_parent_same v : parent_same (vdi_layer v).
Proof.
  intros o o'. cbn. unfold vdi_src. destruct (v_map v _) as [e|]; [|discriminate].
  destruct (e =? -1); [destruct (v_parent v); [congruence|discriminate]|].
  destruct (e =? -2); discriminate.
Qed.

(* a VDI chain of any depth, all layers of the same virtual size *)
Theorem vdi_chain_correct size (vs : list vdi) :
  Forall (fun v => 0 < v_bs v /\ vdi_wf v /\ v_size v = size) vs ->
  forall off n, 0 <= off -> 0 <= n -> off + n <= size ->
  chain_read (map vdi_layer vs) 0 off n = Ok (map (chain_src (map vdi_layer vs) 0) (zseq off n)).
Proof.
  intros Hall off n Hoff Hn Hfit. apply (chain_read_correct size); try assumption.
  apply Forall_map. eapply Forall_impl; [|exact Hall].
  intros v (Hbs & Hwf & <-). now apply vdi_layer_ok.
Qed.

(* ---------------- Parallels HDS ---------------- *)
Definition hds_layer (h : hds) : layer :=
  {| l_read := fun off n => hds_read h (hds_fuel n) off n; l_src := hds_src h |}.

Lemma segs_of_runs_parent_range h : forall rs g o m,
  Forall (fun r => 0 <= snd r) rs -> In (SParent o m) (segs_of_runs h g rs) ->
  g <= o /\ 0 <= m /\ o + m <= g + fold_right (fun r a => snd r + a) 0 rs.
Proof.
  induction rs as [|r rest IH]; intros g o m Hnn Hin; [destruct Hin|].
  inversion Hnn as [|? ? Hr Hrest]; subst. cbn [segs_of_runs fold_right] in *.
  assert (Htot : 0 <= fold_right (fun r a => snd r + a) 0 rest).
  { clear -Hrest. induction Hrest; cbn; lia. }
  destruct Hin as [Hin|Hin].
  - unfold seg_of_run in Hin. destruct (fst r); [discriminate|].
    destruct (h_parent h); [|discriminate]. injection Hin as <- <-. lia.
  - destruct (IH (g + snd r) o m Hrest Hin) as (H1 & H2 & H3). lia.
Qed.

Lemma srcs_len_runs h : forall rs g, Forall (fun r => 0 <= snd r) rs ->
  Z.of_nat (length (srcs_of (segs_of_runs h g rs))) = fold_right (fun r a => snd r + a) 0 rs.
Proof.
  induction rs as [|r rest IH]; intros g Hnn; [reflexivity|].
  inversion Hnn as [|? ? Hr Hrest]; subst. cbn [segs_of_runs fold_right].
  rewrite srcs_of_cons, app_length, Nat2Z.inj_add, (IH _ Hrest).
  f_equal. rewrite srcs_of_seg_length; unfold seg_of_run;
    destruct (fst r); [| destruct (h_parent h) | | destruct (h_parent h)]; cbn; lia.
Qed.

Lemma iter_runs_sizes_pos h (Hcs : 0 < h_cs h) fuel : forall off len cur rs,
  iter_runs h fuel off len cur = Ok rs ->
  (match cur with Some (_, ps) => 0 < ps | None => True end) ->
  Forall (fun r => 0 <= snd r) rs.
Proof.
  induction fuel as [|fuel IH]; intros off len cur rs Hrun Hcur; cbn [iter_runs] in Hrun.
  - destruct ((off <? h_size h) && (0 <? len)); [discriminate|]. injection Hrun as <-.
    destruct cur as [[po ps]|]; [constructor; [cbn; lia|constructor]|constructor].
  - destruct ((off <? h_size h) && (0 <? len)) eqn:Hc.
    2:{ injection Hrun as <-. destruct cur as [[po ps]|]; [constructor; [cbn; lia|constructor]|constructor]. }
    apply andb_true_iff in Hc. destruct Hc as [_ Hp]. apply Z.ltb_lt in Hp.
    pose proof (Z.mod_pos_bound off (h_cs h) Hcs) as Hm.
    set (rsz := Z.min (h_cs h - off mod h_cs h) len) in *.
    assert (Hrs : 0 < rsz) by (subst rsz; lia).
    destruct (h_bat h (off / h_cs h)) as [e|]; [|discriminate]. cbn [of_option bind] in Hrun.
    destruct cur as [[po ps]|].
    + destruct (mergeable po ps _).
      * eapply IH; [exact Hrun|cbn; lia].
      * destruct (iter_runs h fuel (off + rsz) (len - rsz) _) as [rest| |] eqn:Hrest; try discriminate.
        cbn [bind] in Hrun. injection Hrun as <-. constructor; [cbn; lia|].
        eapply IH; [exact Hrest|cbn; lia].
    + eapply IH; [exact Hrun|cbn; lia].
Qed.

Theorem hds_layer_ok h : 0 < h_cs h -> hds_wf h -> layer_ok (h_size h) (hds_layer h).
Proof.
  intros Hcs Hwf off n Hoff Hn Hfit. cbn [hds_layer l_read l_src].
  destruct (Z.eq_dec n 0) as [->|Hn0].
  - exists []. unfold hds_read. cbn [iter_runs hds_fuel Z.to_nat].
    replace ((off <? h_size h) && (0 <? 0)) with false by (rewrite andb_false_r; reflexivity).
    cbn [bind segs_of_runs]. split; [reflexivity|]. split; [reflexivity|]. intros o m [].
  - destruct (hds_read_correct h Hcs off n Hwf ltac:(lia) ltac:(lia)) as (p & T & Hp & HT & Hs).
    assert (T = n) by lia. subst T.
    exists p. split; [exact Hp|]. split; [exact Hs|].
    intros o m Hin. unfold hds_read in Hp.
    destruct (iter_runs h (hds_fuel n) off n None) as [rs| |] eqn:Hit; try discriminate.
    cbn [bind] in Hp. injection Hp as <-.
    pose proof (iter_runs_sizes_pos h Hcs _ _ _ _ _ Hit I) as Hnn.
    destruct (segs_of_runs_parent_range h rs off o m Hnn Hin) as (H1 & H2 & H3).
    pose proof (srcs_len_runs h rs off Hnn) as Hlen.
    rewrite Hs, map_length, zseq_length in Hlen by lia. lia.
Qed.

Theorem hds_chain_correct size (hs : list hds) :
  Forall (fun h => 0 < h_cs h /\ hds_wf h /\ h_size h = size) hs ->
  forall off n, 0 <= off -> 0 <= n -> off + n <= size ->
  chain_read (map hds_layer hs) 0 off n = Ok (map (chain_src (map hds_layer hs) 0) (zseq off n)).
Proof.
  intros Hall off n Hoff Hn Hfit. apply (chain_read_correct size); try assumption.
  apply Forall_map. eapply Forall_impl; [|exact Hall].
  intros h (Hcs & Hwf & <-). now apply hds_layer_ok.
Qed.
