(* Proofs/Layers.v — each format's reader, seen as a layer over a parent, meets [layer_ok];
   chains of such layers therefore read as the overlay of their layers (Proofs/Chain.v). *)
From Coq Require Import ZArith List Bool Lia.
From DH Require Import Base.Arith Base.Plan Base.Table Model.Walk Proofs.BlockMapped Model.Chain Proofs.Chain
  Model.Vdi Proofs.Vdi Model.Hds Proofs.Hds.
Import ListNotations.
Open Scope Z_scope.

(* ---------------- VDI ---------------- *)
Definition vdi_layer (v : vdi) : layer :=
  {| l_read := fun off n => vdi_read v (vdi_fuel n) off n; l_src := vdi_src v |}.

Lemma vdi_emit_parent_range v idx e io n segs o m :
  vdi_emit v e idx io n = Ok segs -> In (SParent o m) segs ->
  0 <= idx -> 0 <= io -> 0 < n -> io + n <= v_bs v ->
  (idx * v_bs v + io) * 1 <= o /\ 0 <= m /\ o + m <= (idx * v_bs v + io + n) * 1 /\ o mod 1 = 0 /\ m mod 1 = 0.
Proof.
  unfold vdi_emit. intros [= <-] Hin Hidx Hio Hn Hfit.
  destruct (e =? UNALLOCATED); [destruct (v_parent v)|destruct (e =? SPARSE)];
    cbn in Hin; destruct Hin as [Hin|[]]; try discriminate.
  injection Hin as <- <-. rewrite !Z.mod_1_r. lia.
Qed.

Theorem vdi_layer_ok v : 0 < v_bs v -> vdi_wf v -> layer_ok (v_size v) 1 (vdi_layer v).
Proof.
  intros Hbs Hwf off n Hoff Hn Hfit _ _. cbn [vdi_layer l_read l_src].
  destruct (Z.eq_dec n 0) as [->|Hn0].
  - exists []. unfold vdi_read. rewrite Z.min_l by lia. split; [reflexivity|]. split; [reflexivity|].
    intros o m [].
  - destruct (vdi_read_correct v Hbs off n Hwf ltac:(lia) ltac:(lia)) as (p & Hp & Hs).
    exists p. split; [exact Hp|]. rewrite Z.min_l in Hs by lia. split; [exact Hs|].
    intros o m Hin _. unfold vdi_read in Hp. rewrite Z.min_l in Hp by lia.
    destruct (walk_parent_range (v_bs v) 1 (vdi_lookup v) (vdi_emit v) Hbs ltac:(lia)
                (vdi_emit_parent_range v) (vdi_fuel n) off n p o m Hoff Hp Hin) as (H1 & H2 & H3 & _ & _).
    rewrite !Z.mod_1_r. lia.
Qed.

Lemma vdi_parent_same v : parent_same (vdi_layer v).
Proof.
  intros o o'. cbn. unfold vdi_src. destruct (v_map v _) as [e|]; [|discriminate].
  destruct (e =? -1); [destruct (v_parent v); [congruence|discriminate]|].
  destruct (e =? -2); discriminate.
Qed.

(* a VDI chain of any depth, all layers of the same virtual size *)
Theorem vdi_chain_correct size (vs : list vdi) :
  Forall (fun v => 0 < v_bs v /\ vdi_wf v /\ v_size v = size) vs ->
  forall off n, 0 <= off -> 0 <= n -> off + n <= size ->
  chain_read (map vdi_layer vs) 0 off n = Ok (map (chain_src (map vdi_layer vs) 0) (zseq off n)).
Proof.
  intros Hall off n Hoff Hn Hfit. apply (chain_read_correct size 1); try assumption; try apply Z.mod_1_r.
  apply Forall_map. eapply Forall_impl; [|exact Hall].
  intros v (Hbs & Hwf & <-). now apply vdi_layer_ok.
Qed.

(* ---------------- Parallels HDS ---------------- *)
Definition hds_layer (h : hds) : layer :=
  {| l_read := fun off n => hds_read h (hds_fuel n) off n; l_src := hds_src h |}.

Lemma segs_of_runs_parent_range h : forall rs g o m,
  Forall (fun r => 0 <= snd r) rs -> In (SParent o m) (segs_of_runs h g rs) ->
  g <= o /\ 0 <= m /\ o + m <= g + fold_right (fun r a => snd r + a) 0 rs.
Proof.
  induction rs as [|r rest IH]; intros g o m Hnn Hin; [destruct Hin|].
  inversion Hnn as [|? ? Hr Hrest]; subst. cbn [segs_of_runs fold_right] in *.
  assert (Htot : 0 <= fold_right (fun r a => snd r + a) 0 rest).
  { clear -Hrest. induction Hrest; cbn; lia. }
  destruct Hin as [Hin|Hin].
  - unfold seg_of_run in Hin. destruct (fst r); [discriminate|].
    destruct (h_parent h); [|discriminate]. injection Hin as <- <-. lia.
  - destruct (IH (g + snd r) o m Hrest Hin) as (H1 & H2 & H3). lia.
Qed.

Lemma srcs_len_runs h : forall rs g, Forall (fun r => 0 <= snd r) rs ->
  Z.of_nat (length (srcs_of (segs_of_runs h g rs))) = fold_right (fun r a => snd r + a) 0 rs.
Proof.
  induction rs as [|r rest IH]; intros g Hnn; [reflexivity|].
  inversion Hnn as [|? ? Hr Hrest]; subst. cbn [segs_of_runs fold_right].
  rewrite srcs_of_cons, app_length, Nat2Z.inj_add, (IH _ Hrest).
  f_equal. rewrite srcs_of_seg_length; unfold seg_of_run;
    destruct (fst r); [| destruct (h_parent h) | | destruct (h_parent h)]; cbn; lia.
Qed.

Lemma iter_runs_sizes_pos h (Hcs : 0 < h_cs h) fuel : forall off len cur rs,
  iter_runs h fuel off len cur = Ok rs ->
  (match cur with Some (_, ps) => 0 < ps | None => True end) ->
  Forall (fun r => 0 <= snd r) rs.
Proof.
  induction fuel as [|fuel IH]; intros off len cur rs Hrun Hcur; cbn [iter_runs] in Hrun.
  - destruct ((off <? h_size h) && (0 <? len)); [discriminate|]. injection Hrun as <-.
    destruct cur as [[po ps]|]; [constructor; [cbn; lia|constructor]|constructor].
  - destruct ((off <? h_size h) && (0 <? len)) eqn:Hc.
    2:{ injection Hrun as <-. destruct cur as [[po ps]|]; [constructor; [cbn; lia|constructor]|constructor]. }
    apply andb_true_iff in Hc. destruct Hc as [_ Hp]. apply Z.ltb_lt in Hp.
    pose proof (Z.mod_pos_bound off (h_cs h) Hcs) as Hm.
    set (rsz := Z.min (h_cs h - off mod h_cs h) len) in *.
    assert (Hrs : 0 < rsz) by (subst rsz; lia).
    destruct (h_bat h (off / h_cs h)) as [e|]; [|discriminate]. cbn [of_option bind] in Hrun.
    destruct cur as [[po ps]|].
    + destruct (mergeable po ps _).
      * eapply IH; [exact Hrun|cbn; lia].
      * destruct (iter_runs h fuel (off + rsz) (len - rsz) _) as [rest| |] eqn:Hrest; try discriminate.
        cbn [bind] in Hrun. injection Hrun as <-. constructor; [cbn; lia|].
        eapply IH; [exact Hrest|cbn; lia].
    + eapply IH; [exact Hrun|cbn; lia].
Qed.

Theorem hds_layer_ok h : 0 < h_cs h -> hds_wf h -> layer_ok (h_size h) 1 (hds_layer h).
Proof.
  intros Hcs Hwf off n Hoff Hn Hfit _ _. cbn [hds_layer l_read l_src].
  destruct (Z.eq_dec n 0) as [->|Hn0].
  - exists []. unfold hds_read. cbn [iter_runs hds_fuel Z.to_nat].
    replace ((off <? h_size h) && (0 <? 0)) with false by (rewrite andb_false_r; reflexivity).
    cbn [bind segs_of_runs]. split; [reflexivity|]. split; [reflexivity|]. intros o m [].
  - destruct (hds_read_correct h Hcs off n Hwf ltac:(lia) ltac:(lia)) as (p & T & Hp & HT & Hs).
    assert (T = n) by lia. subst T.
    exists p. split; [exact Hp|]. split; [exact Hs|].
    intros o m Hin _. unfold hds_read in Hp.
    destruct (iter_runs h (hds_fuel n) off n None) as [rs| |] eqn:Hit; try discriminate.
    cbn [bind] in Hp. injection Hp as <-.
    pose proof (iter_runs_sizes_pos h Hcs _ _ _ _ _ Hit I) as Hnn.
    destruct (segs_of_runs_parent_range h rs off o m Hnn Hin) as (H1 & H2 & H3).
    pose proof (srcs_len_runs h rs off Hnn) as Hlen.
    rewrite Hs, map_length, zseq_length in Hlen by lia. rewrite !Z.mod_1_r. lia.
Qed.

Theorem hds_chain_correct size (hs : list hds) :
  Forall (fun h => 0 < h_cs h /\ hds_wf h /\ h_size h = size) hs ->
  forall off n, 0 <= off -> 0 <= n -> off + n <= size ->
  chain_read (map hds_layer hs) 0 off n = Ok (map (chain_src (map hds_layer hs) 0) (zseq off n)).
Proof.
  intros Hall off n Hoff Hn Hfit. apply (chain_read_correct size 1); try assumption; try apply Z.mod_1_r.
  apply Forall_map. eapply Forall_impl; [|exact Hall].
  intros h (Hcs & Hwf & <-). now apply hds_layer_ok.
Qed.

(* ---------------- VHDX ---------------- *)
From DH Require Import Model.Vhdx Proofs.Vhdx Proofs.VhdxPartial Proofs.VhdxLayer.

Lemma vhdx_emit_noparent_no_sparent x es idx io n segs o m :
  x_has_parent x = false -> vhdx_emit x es idx io n = Ok segs -> ~ In (SParent o m) segs.
Proof.
  destruct es as [e s]. intros Hnp Hem Hin. unfold vhdx_emit in Hem. rewrite Hnp in Hem. cbn [negb] in Hem.
  destruct (be_state e =? PB_NOT_PRESENT).
  { injection Hem as <-. cbn in Hin. destruct Hin as [Hin|[]]. discriminate. }
  destruct ((be_state e =? PB_UNDEFINED) || (be_state e =? PB_ZERO) || (be_state e =? PB_UNMAPPED)).
  { injection Hem as <-. destruct Hin as [Hin|[]]. discriminate. }
  destruct (be_state e =? PB_FULLY_PRESENT).
  { injection Hem as <-. destruct Hin as [Hin|[]]. discriminate. }
  destruct (be_state e =? PB_PARTIALLY_PRESENT); [discriminate|].
  injection Hem as <-. destruct Hin.
Qed.

Theorem vhdx_base_layer_ok x :
  geom_ok x -> states_ok x -> vhdx_wf_nodiff x -> x_size x mod x_ss x = 0 ->
  layer_ok (x_size x) (x_ss x) (vhdx_layer x).
Proof.
  intros Hg Hst Hwf Hsm off n Hoff Hn Hfit Hog Hng.
  pose proof (covers_nodiff x Hg Hwf) as Hc. destruct Hwf as (Hnp & Hsz & Hcov & Hn7).
  pose proof Hg as (Hss & Hspb & Hbs & Hcr). cbn [vhdx_layer l_read l_src].
  pose proof (Z.div_mod off (x_ss x) ltac:(lia)) as Hd1.
  pose proof (Z.div_mod n (x_ss x) ltac:(lia)) as Hd2.
  pose proof (Z.div_mod (x_size x) (x_ss x) ltac:(lia)) as Hd3.
  assert (Hs : 0 <= off / x_ss x) by (apply Z.div_pos; lia).
  assert (Hc0 : 0 <= n / x_ss x) by (apply Z.div_pos; lia).
  assert (Hcd : cdiv (x_size x) (x_ss x) = x_size x / x_ss x).
  { unfold cdiv. symmetry. apply Z.div_unique with (r := x_ss x - 1); [left; lia|]. lia. }
  assert (Hend : off / x_ss x + n / x_ss x <= cdiv (x_size x) (x_ss x)) by (rewrite Hcd; nia).
  destruct (walk_ok (spb x) (vhdx_lookup x) (vhdx_emit x) Hspb (vhdx_fuel (n / x_ss x)) (off / x_ss x)
              (n / x_ss x) _ Hc Hs Hend ltac:(unfold vhdx_fuel; lia)) as [p Hp].
  exists p. split; [exact Hp|]. split.
  - rewrite (vhdx_read_sectors_sound x Hg Hst _ _ _ p Hnp Hs Hp). f_equal. f_equal; lia.
  - intros o m Hin _. exfalso.
    (* no parent reference can occur without a parent *)
    clear -Hp Hin Hnp Hspb. unfold vhdx_read_sectors in Hp.
    revert Hp Hin. generalize (vhdx_fuel (n / x_ss x)) as fuel. generalize (off / x_ss x) as a, (n / x_ss x) as b.
    intros a b fuel; revert p a b. induction fuel as [|fuel IH]; intros p a b Hp Hin; cbn [walk] in Hp.
    + destruct (b <=? 0); [|discriminate]. injection Hp as <-. destruct Hin.
    + destruct (b <=? 0); [injection Hp as <-; destruct Hin|].
      destruct (vhdx_lookup x (a / spb x)) as [es| |]; try discriminate. cbn [bind] in Hp.
      destruct (vhdx_emit x es (a / spb x) (a mod spb x) _) as [segs| |] eqn:Hem; try discriminate. cbn [bind] in Hp.
      destruct (walk _ _ _ fuel _ _) as [rest| |] eqn:Hrest; try discriminate. cbn [bind] in Hp.
      injection Hp as <-. apply in_app_or in Hin. destruct Hin as [Hin|Hin].
      * exact (vhdx_emit_noparent_no_sparent x es _ _ _ segs o m Hnp Hem Hin).
      * exact (IH rest _ _ Hrest Hin).
Qed.

(* a VHDX chain: differencing layers over a non-differencing base, all of one size and sector size *)
Definition vhdx_member_ok (size ss : Z) (x : vhdx) : Prop :=
  geom_ok x /\ states_ok x /\ x_size x = size /\ x_ss x = ss /\ size mod ss = 0 /\
  ((x_has_parent x = true /\ vhdx_wf_diff x) \/ vhdx_wf_nodiff x).

Theorem vhdx_chain_correct size ss (xs : list vhdx) :
  Forall (vhdx_member_ok size ss) xs ->
  forall off n, 0 <= off -> 0 <= n -> off + n <= size -> off mod ss = 0 -> n mod ss = 0 ->
  chain_read (map vhdx_layer xs) 0 off n = Ok (map (chain_src (map vhdx_layer xs) 0) (zseq off n)).
Proof.
  intros Hall off n Hoff Hn Hfit Hog Hng. apply (chain_read_correct size ss); try assumption.
  apply Forall_map. eapply Forall_impl; [|exact Hall].
  intros x (Hg & Hst & <- & <- & Hsm & [[Hp Hwf]|Hwf]).
  - now apply vhdx_layer_ok.
  - now apply vhdx_base_layer_ok.
Qed.

(* ---------------- QCOW2 (backing files) ---------------- *)
From DH Require Model.Qcow2 Proofs.Qcow2 Proofs.Qcow2Total Spec.Qcow2.

Definition qcow2_layer (im : Model.Qcow2.image) : layer :=
  {| l_read := fun off n => Model.Qcow2.qcow2_read im (S (Z.to_nat n)) off n; l_src := Model.Qcow2.guest_src im |}.

Lemma qcow2_parent_same im o o' : Model.Qcow2.guest_src im o = Parent o' -> o' = o.
Proof.
  unfold Model.Qcow2.guest_src, Spec.Qcow2.guest_src, Spec.Qcow2.unallocated, Spec.Qcow2.stored. cbv zeta.
  repeat match goal with
  | |- context [match ?x with _ => _ end] => destruct x
  end; intros H; try discriminate; try (injection H as <-; reflexivity).
Qed.

Theorem qcow2_layer_ok (im : Model.Qcow2.image) :
  Proofs.Qcow2.wf_image im -> Spec.Qcow2.conformant (Model.Qcow2.spec_of im) (Model.Qcow2.size_of im) ->
  layer_ok (Model.Qcow2.size_of im) 1 (qcow2_layer im).
Proof.
  intros Hwf Hc. apply exact_reader_layer_ok; [apply qcow2_parent_same|].
  intros off n Hoff Hn Hfit. cbn [qcow2_layer l_read l_src].
  destruct (Z.eq_dec n 0) as [->|Hn0].
  - exists []. split; [|reflexivity].
    unfold Model.Qcow2.qcow2_read, Model.Qcow2.read_runs. cbn [Z.to_nat].
    replace (Z.min 0 (Model.Qcow2.size_of im - off)) with 0 by lia. reflexivity.
  - destruct (Proofs.Qcow2Total.qcow2_read_total im off n Hwf Hc ltac:(lia) ltac:(lia)) as (p & Hp & Hs).
    cbv zeta in *. replace (Z.min n (Model.Qcow2.size_of im - off)) with n in * by lia.
    exists p. split; assumption.
Qed.

Theorem qcow2_chain_correct size (ims : list Model.Qcow2.image) :
  Forall (fun im => Proofs.Qcow2.wf_image im /\
                    Spec.Qcow2.conformant (Model.Qcow2.spec_of im) (Model.Qcow2.size_of im) /\
                    Model.Qcow2.size_of im = size) ims ->
  forall off n, 0 <= off -> 0 <= n -> off + n <= size ->
  chain_read (map qcow2_layer ims) 0 off n = Ok (map (chain_src (map qcow2_layer ims) 0) (zseq off n)).
Proof.
  intros Hall off n Hoff Hn Hfit. apply (chain_read_correct size 1); try assumption; try apply Z.mod_1_r.
  apply Forall_map. eapply Forall_impl; [|exact Hall].
  intros im (Hwf & Hc & <-). now apply qcow2_layer_ok.
Qed.

(* ... and over a base image that is SHORTER than the overlays (an overlay created larger than its backing file): beyond
   the end of the base the chain reads zeros; what the overlays hold there stays where it is *)
Theorem qcow2_short_base_chain size (tops : list Model.Qcow2.image) (base : Model.Qcow2.image) :
  Forall (fun im => Proofs.Qcow2.wf_image im /\
                    Spec.Qcow2.conformant (Model.Qcow2.spec_of im) (Model.Qcow2.size_of im) /\
                    Model.Qcow2.size_of im = size) tops ->
  Proofs.Qcow2.wf_image base -> Spec.Qcow2.conformant (Model.Qcow2.spec_of base) (Model.Qcow2.size_of base) ->
  0 <= Model.Qcow2.size_of base <= size ->
  let ls := map qcow2_layer tops ++ [clip_layer (Model.Qcow2.size_of base) (qcow2_layer base)] in
  forall off n, 0 <= off -> 0 <= n -> off + n <= size ->
  chain_read ls 0 off n = Ok (map (chain_src ls 0) (zseq off n)).
Proof.
  intros Hall Hwf Hc Hsz ls off n Hoff Hn Hfit.
  apply (chain_read_correct size 1); try assumption; try apply Z.mod_1_r.
  apply Forall_app. split.
  - apply Forall_map. eapply Forall_impl; [|exact Hall].
    intros im (Hwf' & Hc' & <-). now apply qcow2_layer_ok.
  - constructor; [|constructor].
    apply clip_layer_ok; [lia|assumption|apply Z.mod_1_r|now apply qcow2_layer_ok].
Qed.

