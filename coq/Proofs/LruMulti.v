(* Proofs/LruMulti.v — several readers side by side (the extents of one VMDK, the links of a chain, images open in
   one process), each memoising its own mapping tables in its own cache.  When every reader's working set fits its
   own cache, a history that interleaves requests to all of them in any order loads each table of each reader at
   most once — the bound is the sum of the working sets, although that sum may exceed the capacity of any one cache.
   (C13: the cost of a request does not depend on what other extents were read in between.)  The examples show that
   the statement is about the caches being per reader: one cache of the same capacity shared by all of them thrashes. *)
From Coq Require Import ZArith List Bool Lia.
From DH Require Import Model.Lru Proofs.Lru Proofs.LruCost.
Import ListNotations.
Open Scope Z_scope.

Section Multi.
  Context {V : Type}.
  Variable cap : nat.
  Variable load : nat -> Z -> V.         (* reader i loads table k *)

  Fixpoint upd {A} (l : list A) (i : nat) (x : A) : list A :=
    match l, i with
    | [], _ => []
    | _ :: r, O => x :: r
    | a :: r, S j => a :: upd r j x
    end.

  (* loads of a history of (reader, table) requests; a request to a reader that does not exist costs nothing *)
  Fixpoint multi_misses (cs : list (@cache V)) (h : list (nat * Z)) : nat :=
    match h with
    | [] => O
    | (i, k) :: r =>
        match nth_error cs i with
        | None => multi_misses cs r
        | Some c =>
            ((match lookup k c with Some _ => O | None => 1%nat end) +
             multi_misses (upd cs i (snd (lru_get cap (load i) c k))) r)%nat
        end
    end.

  Definition total (cs : list (@cache V)) : nat := fold_right (fun c n => (length c + n)%nat) O cs.
  Definition wtotal (Ws : list (list Z)) : nat := fold_right (fun W n => (length W + n)%nat) O Ws.

  Lemma total_le Ws : forall cs, Forall2 (@inv V) Ws cs -> (total cs <= wtotal Ws)%nat.
  Proof.
    induction Ws as [|W Ws IH]; intros cs H; inversion H as [|? c ? cs' Hi Hr]; subst; cbn [total wtotal fold_right]; [lia|].
    pose proof (inv_length W c Hi). specialize (IH _ Hr). unfold total, wtotal in IH. lia.
  Qed.

  Lemma forall2_upd Ws : forall cs i W c',
    Forall2 (@inv V) Ws cs -> nth_error Ws i = Some W -> inv W c' -> Forall2 (@inv V) Ws (upd cs i c').
  Proof.
    induction Ws as [|W0 Ws IH]; intros cs i W c' H Hn Hc'; [destruct i; discriminate|].
    inversion H as [|? c ? cs' Hi Hr]; subst.
    destruct i as [|j]; cbn [nth_error] in Hn; cbn [upd].
    - injection Hn as ->. constructor; assumption.
    - constructor; [assumption|]. now apply (IH cs' j W c').
  Qed.

  Lemma total_upd : forall (cs : list (@cache V)) i c c',
    nth_error cs i = Some c -> (total (upd cs i c') + length c = total cs + length c')%nat.
  Proof.
    induction cs as [|c0 cs IH]; intros i c c' Hn; [destruct i; discriminate|].
    destruct i as [|j]; cbn [nth_error] in Hn; cbn [upd total fold_right].
    - injection Hn as ->. lia.
    - specialize (IH j c c' Hn). unfold total in IH. lia.
  Qed.

  Lemma forall2_nth Ws : forall cs i W,
    Forall2 (@inv V) Ws cs -> nth_error Ws i = Some W -> exists c, nth_error cs i = Some c /\ inv W c.
  Proof.
    induction Ws as [|W0 Ws IH]; intros cs i W H Hn; [destruct i; discriminate|].
    inversion H as [|? c ? cs' Hi Hr]; subst.
    destruct i as [|j]; cbn [nth_error] in *.
    - injection Hn as ->. exists c. split; [reflexivity|assumption].
    - now apply IH.
  Qed.

  (* every reader's working set fits its own cache: loads + what is cached never exceed the sum of the working sets *)
  Theorem multi_misses_bound Ws :
    Forall (fun W => (length W <= cap)%nat) Ws -> forall h cs,
    Forall2 (@inv V) Ws cs ->
    (forall i k, In (i, k) h -> exists W, nth_error Ws i = Some W /\ In k W) ->
    (multi_misses cs h + total cs <= wtotal Ws)%nat.
  Proof.
    intros Hcap. induction h as [|[i k] r IH]; intros cs Hinv Hh; cbn [multi_misses].
    - pose proof (total_le Ws cs Hinv). lia.
    - destruct (Hh i k (or_introl eq_refl)) as (W & HW & HkW).
      destruct (forall2_nth Ws cs i W Hinv HW) as (c & Hc & Hic).
      rewrite Hc.
      assert (HWcap : (length W <= cap)%nat).
      { rewrite Forall_forall in Hcap. apply Hcap. eapply nth_error_In; eauto. }
      destruct (lru_get_inv cap (load i) W c k HWcap HkW Hic) as [Hinv' Hlen].
      set (c' := snd (lru_get cap (load i) c k)) in *.
      assert (Hr : forall i0 k0, In (i0, k0) r -> exists W0, nth_error Ws i0 = Some W0 /\ In k0 W0)
        by (intros i0 k0 Hin; apply Hh; now right).
      specialize (IH (upd cs i c') (forall2_upd Ws cs i W c' Hinv HW Hinv') Hr).
      pose proof (total_upd cs i c c' Hc) as Ht.
      destruct (lookup k c); lia.
  Qed.

  (* from empty caches: at most one load per table of each reader *)
  Corollary multi_loads_each_once Ws h :
    Forall (fun W => (length W <= cap)%nat) Ws ->
    (forall i k, In (i, k) h -> exists W, nth_error Ws i = Some W /\ In k W) ->
    (multi_misses (map (fun _ => []) Ws) h <= wtotal Ws)%nat.
  Proof.
    intros Hcap Hh.
    assert (Hinv : Forall2 (@inv V) Ws (map (fun _ => []) Ws)).
    { clear. induction Ws as [|W Ws IH]; cbn [map]; constructor; [|exact IH].
      split; [constructor|intros x []]. }
    pose proof (multi_misses_bound Ws Hcap h _ Hinv Hh). lia.
  Qed.
End Multi.

(* non-vacuity: two readers of three tables each, caches of 4 entries, three interleaved passes: 6 loads *)
Definition ex_hist : list (nat * Z) :=
  let pass := [(0%nat, 1); (1%nat, 1); (0%nat, 2); (1%nat, 2); (0%nat, 3); (1%nat, 3)] in pass ++ pass ++ pass.
Example ex_multi_cost : multi_misses 4 (fun i k => (i, k)) [[]; []] ex_hist = 6%nat.
Proof. reflexivity. Qed.
(* the same history through ONE cache of 4 entries shared by both readers (keys made distinct): 18 loads *)
Example ex_shared_thrash :
  lru_misses 4 (fun k => k) [] (map (fun ik => Z.of_nat (fst ik) * 100 + snd ik) ex_hist) = 18%nat.
Proof. reflexivity. Qed.
