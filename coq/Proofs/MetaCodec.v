(* Proofs/MetaCodec.v — the generic struct codec: decode ∘ encode = id for every plain
   layout, the generated layouts are plain and have the sizes the code relies on, the
   8-byte padding arithmetic, list/slice facts shared by the other C14 proofs. *)
From Coq Require Import String ZArith List Bool Lia.
From DH Require Import Base.Arith Base.Plan Base.Layout Gen.Consts Gen.Layouts
     Model.MetaCodec Model.MetaHdrs.
Import ListNotations.
Open Scope list_scope.
Open Scope Z_scope.

(* ---------- lists, slices ---------- *)
Lemma zlen_app {A} (a b : list A) : zlen (a ++ b) = zlen a + zlen b.
Proof. unfold zlen. rewrite app_length. lia. Qed.

Lemma zlen_nonneg {A} (a : list A) : 0 <= zlen a.
Proof. unfold zlen. lia. Qed.

Lemma zlen_repeat {A} (x : A) n : zlen (repeat x n) = Z.of_nat n.
Proof. unfold zlen. now rewrite repeat_length. Qed.

Lemma zlen_cons {A} (x : A) l : zlen (x :: l) = 1 + zlen l.
Proof. unfold zlen. cbn [length]. lia. Qed.

Lemma zlen_nil {A} : zlen (@nil A) = 0.
Proof. reflexivity. Qed.

Lemma slice_app_mid {A} (pre x post : list A) o n :
  o = zlen pre -> n = zlen x -> slice (pre ++ x ++ post) o n = x.
Proof.
  intros -> ->. unfold slice, zlen. rewrite !Nat2Z.id.
  rewrite skipn_app, skipn_all, Nat.sub_diag. cbn [skipn app].
  rewrite firstn_app, firstn_all, Nat.sub_diag. cbn [firstn]. apply app_nil_r.
Qed.

Lemma slice_app_mid0 {A} (x post : list A) n : n = zlen x -> slice (x ++ post) 0 n = x.
Proof. intros H. apply (slice_app_mid [] x post); [reflexivity|exact H]. Qed.

(* reading n bytes at o from a buffer that holds x there, when more bytes follow: exactly x *)
Lemma buf_reader_mid (pre x post : list Z) o n :
  o = zlen pre -> n = zlen x -> buf_reader (pre ++ x ++ post) o n = x.
Proof.
  intros Ho Hn. unfold buf_reader.
  destruct (Z.ltb_spec o 0) as [H|H]; [pose proof (zlen_nonneg pre); lia|].
  now apply slice_app_mid.
Qed.

(* reading past the end of the stored bytes is clipped *)
Lemma slice_clip {A} (pre x : list A) o n :
  o = zlen pre -> zlen x <= n -> slice (pre ++ x) o n = x.
Proof.
  intros -> Hn. unfold slice, zlen in *. rewrite Nat2Z.id.
  rewrite skipn_app, skipn_all, Nat.sub_diag. cbn [skipn app].
  apply firstn_all2. lia.
Qed.

Lemma bytes_of_length big n v : length (bytes_of big n v) = n.
Proof. destruct big; cbn [bytes_of]; [unfold be_bytes; rewrite rev_length|]; apply le_bytes_length. Qed.

Lemma zlen_bytes_of big n v : zlen (bytes_of big n v) = Z.of_nat n.
Proof. unfold zlen. now rewrite bytes_of_length. Qed.

Lemma be_bytes_length n v : length (be_bytes n v) = n.
Proof. unfold be_bytes. rewrite rev_length. apply le_bytes_length. Qed.

Lemma zlen_be_bytes n v : zlen (be_bytes n v) = Z.of_nat n.
Proof. unfold zlen. now rewrite be_bytes_length. Qed.

Lemma zlen_le_bytes n v : zlen (le_bytes n v) = Z.of_nat n.
Proof. unfold zlen. now rewrite le_bytes_length. Qed.

Lemma uint_of_bytes_of big n v : 0 <= v < 256 ^ Z.of_nat n -> uint_of big (bytes_of big n v) = v.
Proof.
  intros H. destruct big; cbn [uint_of bytes_of]; [now apply be_uint_be_bytes|now apply le_uint_le_bytes].
Qed.

(* ---------- one field ---------- *)
Definition val_ok (f : field) (v : val) : Prop :=
  if is_scalar f then exists z, v = VInt z /\ 0 <= z < 256 ^ f_size f
  else exists bs, v = VBytes bs /\ zlen bs = f_size f.

Fixpoint wf_vals (L : list field) (r : record) : Prop :=
  match L, r with
  | [], [] => True
  | f :: L', (n, v) :: r' => n = f_name f /\ val_ok f v /\ wf_vals L' r'
  | _, _ => False
  end.

Lemma plain_field_spec f :
  plain_field f = true ->
  f_bitw f = 0 /\ 0 <= f_size f /\ f_kind f <> KInt /\ f_kind f <> KFloat.
Proof.
  unfold plain_field. intros H.
  apply andb_prop in H as [H Hk]. apply andb_prop in H as [Hb Hs].
  apply Z.eqb_eq in Hb. apply Z.leb_le in Hs.
  repeat split; try assumption; intros E; rewrite E in Hk; discriminate.
Qed.

Lemma encode_field_len big f v :
  plain_field f = true -> val_ok f v -> zlen (encode_field big f v) = f_size f.
Proof.
  intros Hp Hv. destruct (plain_field_spec f Hp) as (_ & Hs & _).
  unfold val_ok in Hv. destruct (is_scalar f).
  - destruct Hv as (z & -> & _). cbn [encode_field]. rewrite zlen_bytes_of. lia.
  - destruct Hv as (bs & -> & Hl). exact Hl.
Qed.

Lemma field_roundtrip big f v pre post :
  plain_field f = true -> f_off f = zlen pre -> val_ok f v ->
  decode_field big f (pre ++ encode_field big f v ++ post) = v.
Proof.
  intros Hp Ho Hv.
  pose proof (encode_field_len big f v Hp Hv) as Hlen.
  destruct (plain_field_spec f Hp) as (Hb & Hs & Hk1 & Hk2).
  unfold decode_field. rewrite Hb. cbn [Z.eqb negb].
  rewrite (slice_app_mid pre (encode_field big f v) post (f_off f) (f_size f) Ho (eq_sym Hlen)).
  unfold val_ok in Hv. destruct (is_scalar f) eqn:Hsc.
  - destruct Hv as (z & -> & Hz). cbn [encode_field].
    assert (Hu : uint_of big (bytes_of big (Z.to_nat (f_size f)) z) = z).
    { apply uint_of_bytes_of. rewrite Z2Nat.id by assumption. exact Hz. }
    destruct (f_kind f); try (now rewrite Hu); contradiction.
  - destruct Hv as (bs & -> & _). reflexivity.
Qed.

(* ---------- whole structures ---------- *)
Lemma encode_struct_len big L : forall off r,
  contig off L = true -> wf_vals L r -> zlen (encode_struct big L r) = layout_size L.
Proof.
  induction L as [|f L IH]; intros off r Hc Hw.
  - destruct r; [reflexivity|contradiction].
  - destruct r as [|[n v] r]; [contradiction|].
    cbn [contig] in Hc. apply andb_prop in Hc as [Hc Hc2]. apply andb_prop in Hc as [_ Hp].
    destruct Hw as (_ & Hv & Hw). cbn [encode_struct layout_size].
    rewrite zlen_app, (encode_field_len big f v Hp Hv), (IH _ _ Hc2 Hw). reflexivity.
Qed.

Lemma decode_fields_at big L : forall off pre r post,
  contig off L = true -> zlen pre = off -> wf_vals L r ->
  map (fun f => (f_name f, decode_field big f (pre ++ encode_struct big L r ++ post))) L = r.
Proof.
  induction L as [|f L IH]; intros off pre r post Hc Hpre Hw.
  - destruct r; [reflexivity|contradiction].
  - destruct r as [|[n v] r]; [contradiction|].
    cbn [contig] in Hc. apply andb_prop in Hc as [Hc Hc2]. apply andb_prop in Hc as [Ho Hp].
    apply Z.eqb_eq in Ho. destruct Hw as (Hn & Hv & Hw).
    cbn [encode_struct map]. f_equal.
    + rewrite <- app_assoc. rewrite (field_roundtrip big f v pre _ Hp) by (try lia; assumption).
      now rewrite Hn.
    + replace (pre ++ (encode_field big f v ++ encode_struct big L r) ++ post)
        with ((pre ++ encode_field big f v) ++ encode_struct big L r ++ post)
        by (rewrite <- !app_assoc; reflexivity).
      apply (IH (off + f_size f)); [assumption| |assumption].
      rewrite zlen_app, (encode_field_len big f v Hp Hv). lia.
Qed.

(* the central codec theorem: for every plain layout (any list of fields, any endianness),
   decoding the encoding of a well-formed record gives the record back, whatever follows *)
Theorem struct_roundtrip big L r post :
  contig 0 L = true -> wf_vals L r ->
  decode_struct big L (layout_size L) (encode_struct big L r ++ post) = Some r.
Proof.
  intros Hc Hw. unfold decode_struct.
  rewrite zlen_app, (encode_struct_len big L 0 r Hc Hw).
  destruct (Z.ltb_spec (layout_size L + zlen post) (layout_size L)) as [H|H];
    [pose proof (zlen_nonneg post); lia|].
  f_equal. apply (decode_fields_at big L 0 [] r post Hc); [reflexivity|assumption].
Qed.

Corollary read_struct_roundtrip big L r pre post o :
  contig 0 L = true -> wf_vals L r -> o = zlen pre ->
  read_struct (buf_reader (pre ++ encode_struct big L r ++ post)) big L (layout_size L) o = Ok r.
Proof.
  intros Hc Hw Ho. unfold read_struct, read_exact.
  pose proof (encode_struct_len big L 0 r Hc Hw) as Hl.
  rewrite (buf_reader_mid pre (encode_struct big L r) post) by (try assumption; now rewrite Hl).
  rewrite Hl, Z.ltb_irrefl. cbn [bind].
  rewrite <- (app_nil_r (encode_struct big L r)), (struct_roundtrip big L r [] Hc Hw). reflexivity.
Qed.

(* ---------- the generated layouts ---------- *)
Definition plain_layouts : list (list field * Z) := [
  (vhd_footer_layout, vhd_footer_size); (vhd_parent_locator_layout, vhd_parent_locator_size);
  (vhd_dynamic_header_layout, vhd_dynamic_header_size);
  (vdi_HeaderDescriptor_layout, vdi_HeaderDescriptor_size);
  (hdd_v1_layout, hdd_pvd_header_size); (hdd_v2_layout, hdd_pvd_header_size);
  (hdd_pvd_ext_block_check_layout, hdd_pvd_ext_block_check_size);
  (hdd_pvd_ext_block_element_header_layout, hdd_pvd_ext_block_element_header_size);
  (vhdx_file_identifier_layout, vhdx_file_identifier_size); (vhdx_header_layout, vhdx_header_size);
  (vhdx_region_table_header_layout, vhdx_region_table_header_size);
  (vhdx_region_table_entry_layout, vhdx_region_table_entry_size);
  (vhdx_metadata_table_header_layout, vhdx_metadata_table_header_size);
  (vhdx_virtual_disk_id_layout, vhdx_virtual_disk_id_size);
  (vhdx_parent_locator_header_layout, vhdx_parent_locator_header_size);
  (vhdx_parent_locator_entry_layout, vhdx_parent_locator_entry_size);
  (qcow2_QCowHeader_layout, qcow2_QCowHeader_size); (qcow2_QCowExtension_layout, qcow2_QCowExtension_size);
  (qcow2_Qcow2CryptoHeaderExtension_layout, qcow2_Qcow2CryptoHeaderExtension_size);
  (qcow2_Qcow2BitmapHeaderExt_layout, qcow2_Qcow2BitmapHeaderExt_size);
  (qcow2_QCowSnapshotHeader_layout, qcow2_QCowSnapshotHeader_size);
  (qcow2_QCowSnapshotExtraData_layout, qcow2_QCowSnapshotExtraData_size);
  (vmdk_VMDKSparseExtentHeader_layout, vmdk_VMDKSparseExtentHeader_size);
  (vmdk_COWDSparseExtentHeader_layout, vmdk_COWDSparseExtentHeader_size);
  (vmdk_VMDKSESparseConstHeader_layout, vmdk_VMDKSESparseConstHeader_size);
  (vmdk_VMDKSESparseVolatileHeader_layout, vmdk_VMDKSESparseVolatileHeader_size);
  (vmdk_SparseGrainLBAHeaderOnDisk_layout, vmdk_SparseGrainLBAHeaderOnDisk_size);
  (vmdk_SparseSpecialLBAHeaderOnDisk_layout, vmdk_SparseSpecialLBAHeaderOnDisk_size)
].

Definition layout_okb (p : list field * Z) : bool := contig 0 (fst p) && (layout_size (fst p) =? snd p).

Lemma plain_layouts_ok : forallb layout_okb plain_layouts = true.
Proof. vm_compute. reflexivity. Qed.

Theorem generated_struct_roundtrip big L size r post :
  In (L, size) plain_layouts -> wf_vals L r ->
  decode_struct big L size (encode_struct big L r ++ post) = Some r.
Proof.
  intros Hin Hw.
  pose proof (proj1 (forallb_forall _ _) plain_layouts_ok _ Hin) as H.
  unfold layout_okb in H. cbn [fst snd] in H. apply andb_prop in H as [Hc Hs].
  apply Z.eqb_eq in Hs. rewrite <- Hs. now apply struct_roundtrip.
Qed.

(* sizes and offsets the code hard-wires *)
Lemma layout_sizes :
  qcow2_QCowHeader_size = 112 /\ qcow2_QCowExtension_size = 8 /\ qcow2_QCowSnapshotHeader_size = 40 /\
  qcow2_QCowSnapshotExtraData_size = 24 /\ qcow2_Qcow2CryptoHeaderExtension_size = 16 /\
  qcow2_Qcow2BitmapHeaderExt_size = 24 /\
  field_off qcow2_QCowHeader_layout "incompatible_features" = 72 /\
  field_off qcow2_QCowHeader_layout "header_length" = 100 /\
  field_off qcow2_QCowHeader_layout "compression_type" = 104 /\
  vhd_footer_size = 511 /\ vhd_dynamic_header_size = 1024 /\ vhd_parent_locator_size = 24 /\
  vdi_HeaderDescriptor_size = 456 /\ hdd_pvd_header_size = 64 /\
  field_off hdd_pvd_header_layout "m_SizeInSectors_v1" = 36 /\
  field_off hdd_pvd_header_layout "m_SizeInSectors_v2" = 36 /\
  vhdx_file_identifier_size = 520 /\ vhdx_header_size = 4176 /\ vhdx_region_table_header_size = 16 /\
  vhdx_region_table_entry_size = 32 /\ vhdx_metadata_table_header_size = 32 /\
  vhdx_metadata_table_entry_size = 32 /\ vhdx_file_parameters_size = 8 /\
  vhdx_parent_locator_header_size = 20 /\ vhdx_parent_locator_entry_size = 12 /\
  vhdx_ALIGNMENT = 65536 /\
  vmdk_VMDKSparseExtentHeader_size = 512 /\ vmdk_COWDSparseExtentHeader_size = 32 /\
  vmdk_VMDKSESparseConstHeader_size = 512 /\ vmdk_SECTOR_SIZE = 512.
Proof. repeat split; reflexivity. Qed.

(* ---------- bit-fields (VHDX file_parameters, metadata table entry flags) ---------- *)
Lemma bits_lo a b w : 0 <= a < 2 ^ w -> 0 <= w -> bits (a + 2 ^ w * b) 0 w = a.
Proof.
  intros Ha Hw. unfold bits. rewrite Z.pow_0_r, Z.div_1_r.
  replace (a + 2 ^ w * b) with (b * 2 ^ w + a) by lia.
  apply mod_mul_add; [apply Z.pow_pos_nonneg; lia|assumption].
Qed.

Lemma bits_hi a b o w : 0 <= a < 2 ^ o -> 0 <= o -> bits (a + 2 ^ o * b) o w = b mod 2 ^ w.
Proof.
  intros Ha Ho. unfold bits. f_equal.
  replace (a + 2 ^ o * b) with (b * 2 ^ o + a) by lia.
  apply div_mul_add; [apply Z.pow_pos_nonneg; lia|assumption].
Qed.

Theorem file_parameters_roundtrip bs la hp rs post :
  0 <= bs < 2 ^ 32 -> 0 <= la < 2 -> 0 <= hp < 2 -> 0 <= rs < 2 ^ 30 ->
  decode_struct false vhdx_file_parameters_layout vhdx_file_parameters_size
    (le_bytes 4 bs ++ le_bytes 4 (la + 2 * hp + 4 * rs) ++ post)
  = Some [("block_size"%string, VInt bs); ("leave_block_allocated"%string, VInt la);
          ("has_parent"%string, VInt hp); ("reserved"%string, VInt rs)].
Proof.
  intros Hbs Hla Hhp Hrs. unfold decode_struct.
  destruct (Z.ltb_spec (zlen (le_bytes 4 bs ++ le_bytes 4 (la + 2 * hp + 4 * rs) ++ post))
                       vhdx_file_parameters_size) as [H|_].
  { rewrite !zlen_app, !zlen_le_bytes in H. pose proof (zlen_nonneg post).
    change vhdx_file_parameters_size with 8 in H. lia. }
  f_equal. cbn [map vhdx_file_parameters_layout].
  unfold decode_field. cbn [f_bitw f_off f_size f_elem f_bitoff f_name f_kind f_count is_scalar Z.eqb negb].
  rewrite (slice_app_mid0 (le_bytes 4 bs)) by reflexivity.
  rewrite (slice_app_mid (le_bytes 4 bs) (le_bytes 4 (la + 2 * hp + 4 * rs)) post) by reflexivity.
  cbn [uint_of].
  assert (Hle : forall v, 0 <= v < 2 ^ 32 -> le_uint (le_bytes 4 v) = v).
  { intros v Hv. apply le_uint_le_bytes. change (256 ^ Z.of_nat 4) with (2 ^ 32). exact Hv. }
  rewrite (Hle bs Hbs), (Hle (la + 2 * hp + 4 * rs)) by lia.
  repeat f_equal.
  - replace (la + 2 * hp + 4 * rs) with (la + 2 ^ 1 * (hp + 2 * rs)) by lia. apply bits_lo; lia.
  - replace (la + 2 * hp + 4 * rs) with (la + 2 ^ 1 * (hp + 2 * rs)) by lia.
    rewrite bits_hi by lia. replace (hp + 2 * rs) with (rs * 2 + hp) by lia.
    change (2 ^ 1) with 2. apply mod_mul_add; lia.
  - replace (la + 2 * hp + 4 * rs) with ((la + 2 * hp) + 2 ^ 2 * rs) by lia.
    rewrite bits_hi by lia. apply Z.mod_small. lia.
Qed.

(* ---------- 8-byte padding ---------- *)
Lemma land_mask8 x : 0 <= x < 2 ^ 32 -> Z.land x 4294967288 = x / 8 * 8.
Proof.
  intros Hx.
  assert (Hq : 0 <= x / 8 < 2 ^ 29).
  { split; [apply Z.div_pos; lia|]. apply Z.div_lt_upper_bound; lia. }
  change 4294967288 with (Z.shiftl (Z.ones 29) 3).
  replace (x / 8 * 8) with (Z.shiftl (x / 8) 3) by (rewrite Z.shiftl_mul_pow2 by lia; reflexivity).
  apply Z.bits_inj'. intros n Hn.
  rewrite Z.land_spec, !Z.shiftl_spec by assumption.
  destruct (Z.ltb_spec n 3) as [Hlt|Hge].
  - rewrite !(Z.testbit_neg_r _ (n - 3)) by lia. apply andb_false_r.
  - replace (x / 8) with (Z.shiftr x 3) by (rewrite Z.shiftr_div_pow2 by lia; reflexivity).
    rewrite Z.shiftr_spec by lia.
    replace (n - 3 + 3) with n by lia.
    destruct (Z.ltb_spec (n - 3) 29) as [Hin|Hout].
    + rewrite Z.ones_spec_low by lia. apply andb_true_r.
    + rewrite Z.ones_spec_high by lia. rewrite andb_false_r.
      symmetry. apply (Z.bits_above_log2 x n); [lia|].
      destruct (Z.eq_dec x 0) as [->|Hnz]; [cbn; lia|].
      apply Z.log2_lt_pow2; [lia|]. apply Z.lt_le_trans with (2 ^ 32); [lia|].
      apply Z.pow_le_mono_r; lia.
Qed.

Definition align8z (n : Z) : Z := (n + 7) / 8 * 8.

Lemma align8z_bounds n : 0 <= n -> n <= align8z n < n + 8 /\ align8z n mod 8 = 0.
Proof.
  intros Hn. unfold align8z.
  pose proof (Z.div_mod (n + 7) 8 ltac:(lia)). pose proof (Z.mod_pos_bound (n + 7) 8 ltac:(lia)).
  split; [lia|]. apply Z_mod_mult.
Qed.
