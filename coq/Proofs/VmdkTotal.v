(* Proofs/VmdkTotal.v — reads of a multi-extent VMDK succeed: for a disk assembled from well-formed extents
   (sparse extents whose tables cover their capacity; flat extents), VMDK.read_sectors at any sector, for any
   count that stays inside the disk, returns (no IndexError, no failed assertion), across any number of extent
   boundaries and up to the very last sector.  With multi_read_correct this is total correctness. *)
From Coq Require Import ZArith List Bool Lia.
From DH Require Import Base.Arith Base.Plan Base.Table Model.Vmdk Model.VmdkDesc Proofs.Vmdk Proofs.VmdkDesc.
Import ListNotations.
Open Scope Z_scope.

(* a sparse extent at any sector offset inside the disk *)
Theorem sparse_read_sectors_ok_at f sp soff hp sector count :
  wf_sparse f sp -> soff <= sector -> 0 <= count -> sector - soff + count <= sp_capacity sp ->
  exists p, sparse_read_sectors f sp soff hp (fuel_for count) sector count = Ok p.
Proof.
  intros (Hw & Hg & Hcap & Hcov) Hs Hc Hend. pose proof Hg as [Hgs _].
  apply (read_sectors_gen_ok (sp_grain_size sp) soff (lookup_grain f sp) (is_compressed sp) hp Hgs
           (guest_src f sp soff hp) (lookup_hlook f sp soff hp Hw Hg)
           (fun g v H => lookup_grain_nn f sp g v Hw Hg H) (fuel_for count) sector count (sp_capacity sp));
    try lia.
  - exact Hcov.
  - unfold fuel_for. lia.
Qed.

Definition x_total (x : extent) : Prop :=
  match x with XSparse f sp _ => wf_sparse f sp | XRaw _ _ => True end.

Lemma x_read_ok x soff sector n :
  x_total x -> soff <= sector -> 0 <= n -> sector - soff + n <= x_sectors x ->
  exists p, x_read x soff sector n = Ok p.
Proof.
  destruct x as [f sp hp|size start]; cbn [x_total x_read x_sectors]; intros Hwf Hs Hn Hfit.
  - now apply sparse_read_sectors_ok_at.
  - eexists. reflexivity.
Qed.

(* the end of the disk as seen from a list of laid-out extents (the request's own sector when there is none) *)
Definition dend (ds : list (extent * Z)) (sector : Z) : Z :=
  match ds with [] => sector | (_, soff) :: _ => ds_end ds soff end.

Theorem walk_total ds : forall idx sector count,
  match ds with
  | [] => True
  | (x, soff) :: _ => laid ds soff /\ soff <= sector < soff + x_sectors x
  end ->
  Forall (fun d => x_total (fst d)) ds ->
  0 <= count -> (0 < count -> sector + count <= dend ds sector) ->
  exists p, walk ds idx sector count = Ok p.
Proof.
  induction ds as [|[x soff] ds IH]; intros idx sector count Hpos Hwf Hc Hend; cbn [walk].
  - cbn [dend] in Hend. assert (count = 0) by lia. subst count. cbn. eauto.
  - destruct (Z.leb_spec count 0) as [Hz|Hz]; [eauto|].
    destruct Hpos as [Hlaid Hin]. cbn [laid] in Hlaid. destruct Hlaid as (_ & Hxs & Hlaid').
    inversion Hwf as [|? ? Hx Hwf']; subst. cbn [fst] in Hx.
    specialize (Hend Hz). cbn [dend] in Hend. unfold ds_end in Hend. cbn [map fst sum_sectors fold_right] in Hend.
    fold (sum_sectors (map fst ds)) in Hend.
    set (n := Z.min (x_sectors x - (sector - soff)) count) in *.
    assert (Hn : 0 < n <= count /\ sector + n <= soff + x_sectors x) by (subst n; lia).
    assert (Ha : soff <= sector) by lia. assert (Hb : 0 <= n) by lia.
    assert (Hcc : sector - soff + n <= x_sectors x) by lia.
    destruct (x_read_ok x soff sector n Hx Ha Hb Hcc) as [p0 Hp0].
    rewrite Hp0. cbn [bind].
    assert (Hrest : exists rest, walk ds (idx + 1) (sector + n) (count - n) = Ok rest).
    { destruct (Z.leb_spec (count - n) 0) as [Hr|Hr].
      - destruct ds as [|[a b] ds']; cbn [walk]; destruct (Z.leb_spec (count - n) 0); try lia; eauto.
      - assert (Hfull : sector + n = soff + x_sectors x) by lia.
        apply IH; [|exact Hwf'|lia|].
        + destruct ds as [|[x' soff'] ds']; [exact I|].
          cbn [laid] in Hlaid'. destruct Hlaid' as (Hs' & Hx' & Hl'). subst soff'.
          split; [cbn [laid]; repeat split; assumption|lia].
        + intros _. rewrite Hfull.
          destruct ds as [|[x' soff'] ds']; cbn [dend]; [cbn [map fst sum_sectors fold_right] in Hend; lia|].
          cbn [laid] in Hlaid'. destruct Hlaid' as (-> & _ & _).
          unfold ds_end. lia. }
    destruct Hrest as [rest Hrest]. rewrite Hrest. cbn [bind]. eauto.
Qed.

Lemma ds_end_skipn ds : forall s0 i x soff rest,
  laid ds s0 -> skipn i ds = (x, soff) :: rest -> ds_end ((x, soff) :: rest) soff = ds_end ds s0.
Proof.
  induction ds as [|[y so] ds IH]; intros s0 i x soff rest Hl Hsk.
  - destruct i; discriminate.
  - cbn [laid] in Hl. destruct Hl as (-> & Hy & Hl').
    destruct i as [|i].
    + cbn [skipn] in Hsk. injection Hsk as -> -> ->. reflexivity.
    + cbn [skipn] in Hsk. rewrite (IH (s0 + x_sectors y) i x soff rest Hl' Hsk).
      unfold ds_end. cbn [map fst sum_sectors fold_right]. fold (sum_sectors (map fst ds)). lia.
Qed.

(* C10: a read that stays inside the disk succeeds, wherever it starts and however many extents it crosses *)
Theorem multi_read_total xs sector count :
  Forall (fun x => 0 < x_sectors x /\ 0 < x_size x) xs -> Forall x_total xs ->
  0 <= sector -> 0 <= count -> sector + count <= sum_sectors xs -> sector < sum_sectors xs ->
  exists p, vmdk_read_sectors (mk_vmdk xs) sector count = Ok p.
Proof.
  intros Hpos Hwf Hs Hc Hfit Hin.
  assert (Hpos1 : Forall (fun x => 0 < x_sectors x) xs).
  { eapply Forall_impl; [|exact Hpos]. intros x [H _]. exact H. }
  pose proof (mk_vmdk_laid xs Hpos1) as Hlaid.
  destruct (size_is_sum xs) as (_ & _ & Hfst).
  assert (Hoffs : v_offsets (mk_vmdk xs) = map snd (tl (v_disks (mk_vmdk xs)))).
  { unfold mk_vmdk. pose proof (layout_offsets xs 0 0 Hpos ltac:(lia)) as H.
    destruct (layout_loop xs 0 0) as [[[offs ds] size'] sc']. cbn [v_offsets v_disks]. exact H. }
  unfold vmdk_read_sectors. rewrite Hoffs.
  set (ds := v_disks (mk_vmdk xs)) in *.
  assert (Hend : ds_end ds 0 = sum_sectors xs) by (unfold ds_end; rewrite Hfst; lia).
  pose proof (bisect_skipn ds 0 sector Hlaid ltac:(lia)) as Hb. cbn zeta in Hb.
  set (i := bisect_right (map snd (tl ds)) sector) in *.
  destruct (skipn i ds) as [|[x soff] rest] eqn:Hsk; [contradiction|].
  destruct Hb as (Hl & Hsec & _).
  assert (Hwf' : Forall (fun d => x_total (fst d)) ((x, soff) :: rest)).
  { rewrite <- Hsk. apply Forall_forall. intros d Hd.
    assert (Hd' : In d ds).
    { rewrite <- (firstn_skipn i ds). apply in_or_app. right. exact Hd. }
    rewrite Forall_forall in Hwf. apply Hwf. rewrite <- Hfst. apply in_map. exact Hd'. }
  apply (walk_total ((x, soff) :: rest) (Z.of_nat i) sector count (conj Hl Hsec) Hwf' Hc).
  intros _. cbn [dend].
  rewrite (ds_end_skipn ds 0 i x soff rest Hlaid Hsk). lia.
Qed.
