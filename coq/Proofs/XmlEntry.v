(* Proofs/XmlEntry.v — C19: the inventory theorems (by computation on the regenerated
   lists) and the routing theorems under the parser contract. *)
From Coq Require Import String ZArith List Bool.
Import ListNotations.
Open Scope Z_scope.
Open Scope string_scope.
From DH Require Import Model.XmlEntry Gen.XmlSites.

Lemma all_sites_ok : forallb site_ok xml_sites = true.
Proof. vm_compute. reflexivity. Qed.

Lemma entry_points :
  map (fun s => (site_module s, site_fn s)) xml_sites =
  [ ("dissect.hypervisor.descriptor.ovf", "OVF.__init__");
    ("dissect.hypervisor.descriptor.pvs", "PVS.__init__");
    ("dissect.hypervisor.descriptor.vbox", "VBox.__init__");
    ("dissect.hypervisor.disk.hdd", "Descriptor.__init__") ].
Proof. vm_compute. reflexivity. Qed.

Lemma no_runtime_xml : xml_runtime_imports = [].
Proof. vm_compute. reflexivity. Qed.

Lemma nothing_unresolved : xml_unresolved = [].
Proof. vm_compute. reflexivity. Qed.

Lemma scanned_enough :
  forallb (fun m => existsb (String.eqb m) xml_modules_scanned)
    [ "dissect.hypervisor.descriptor.ovf"; "dissect.hypervisor.descriptor.pvs"; "dissect.hypervisor.descriptor.vbox";
      "dissect.hypervisor.descriptor.vmx"; "dissect.hypervisor.descriptor.hyperv"; "dissect.hypervisor.disk.hdd";
      "dissect.hypervisor.disk.vmdk"; "dissect.hypervisor.disk.qcow2"; "dissect.hypervisor.disk.vhdx";
      "dissect.hypervisor.disk.vhd"; "dissect.hypervisor.disk.vdi"; "dissect.hypervisor.util.envelope";
      "dissect.hypervisor.util.vmtar"; "dissect.hypervisor.tools.envelope" ] = true.
Proof. vm_compute. reflexivity. Qed.

Section Routing.
  Variables doc tree : Type.
  Variable declares_entity : doc -> bool.
  Variable stdlib_parse : doc -> option tree.
  Variable defused_parse : doc -> outcome tree.
  Variable other_parse : xml_site -> doc -> outcome tree.

  (* the contract of defusedxml.ElementTree.fromstring with default arguments (an oracle,
     validated by the correspondence against the installed defusedxml) *)
  Hypothesis defused_refuses : forall d, declares_entity d = true -> defused_parse d = Refused.
  Hypothesis defused_benign :
    forall d, declares_entity d = false -> defused_parse d = of_stdlib doc tree stdlib_parse d.

  Lemma site_in_ok s : In s xml_sites -> site_ok s = true.
  Proof. intros H. pose proof all_sites_ok as F. rewrite forallb_forall in F. now apply F. Qed.

  Lemma entities_refused s d :
    In s xml_sites -> declares_entity d = true ->
    entry doc tree stdlib_parse defused_parse other_parse s d = Refused.
  Proof. intros Hs Hd. unfold entry. rewrite (site_in_ok s Hs). now apply defused_refuses. Qed.

  Lemma benign_same s d :
    In s xml_sites -> declares_entity d = false ->
    entry doc tree stdlib_parse defused_parse other_parse s d = of_stdlib doc tree stdlib_parse d.
  Proof. intros Hs Hd. unfold entry. rewrite (site_in_ok s Hs). now apply defused_benign. Qed.
End Routing.
