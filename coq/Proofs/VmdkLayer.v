(* Proofs/VmdkLayer.v — a sparse VMDK extent with a parent (delta / snapshot link) is a layer of
   the chain theorem at sector granularity: every request inside the capacity succeeds, expands to
   the extent's pointwise guest source, and every SParent segment it emits is a whole number of
   sectors at the same guest offset inside the disk.  So a chain of sparse VMDKs of any depth reads,
   for every byte, from the topmost link that holds the grain. *)
From Coq Require Import ZArith List Bool Lia.
From DH Require Import Base.Arith Base.Plan Base.Table Model.Chain Proofs.Chain Model.Vmdk Proofs.Vmdk.
Import ListNotations.
Open Scope Z_scope.

Definition vmdk_layer (fs : vfile * sparse) : layer :=
  let '(f, sp) := fs in
  {| l_read := fun off n => sparse_read_sectors f sp 0 true (fuel_for (n / 512)) (off / 512) (n / 512);
     l_src := guest_src f sp 0 true |}.

Lemma vmdk_parent_same f sp o o' : guest_src f sp 0 true o = Parent o' -> o' = o.
Proof.
  unfold guest_src. cbv zeta.
  destruct (grain_state f sp _); try discriminate.
  - intros H. injection H as <-. lia.
  - destruct (stream_optimized sp); discriminate.
Qed.

(* the SParent segments of an executed run list are whole sectors *)
Lemma comp_loop_no_sparent gs : forall fuel t ro rc p o m,
  comp_loop gs fuel t ro rc = Ok p -> ~ In (SParent o m) p.
Proof.
  induction fuel as [|fuel IH]; intros t ro rc p o m H; cbn [comp_loop] in H.
  - destruct (rc <=? 0); [injection H as <-; intros []|discriminate].
  - destruct (rc <=? 0); [injection H as <-; intros []|].
    destruct (comp_loop gs fuel (t + gs) 0 (rc - Z.min rc (gs - ro))) as [rest| |] eqn:Hr; cbn [bind] in H; try discriminate.
    injection H as <-. intros [Hin|Hin]; [discriminate|]. exact (IH _ _ _ _ o m Hr Hin).
Qed.

Lemma exec_run_sparent_aligned gs comp hp r p o m :
  exec_run gs comp hp r = Ok p -> In (SParent o m) p -> o mod 512 = 0 /\ m mod 512 = 0.
Proof.
  destruct r as [[[t ro] rc] rp]. unfold exec_run.
  destruct (t =? 0).
  { intros H. injection H as <-. destruct hp; intros [Hin|[]]; [|discriminate].
    injection Hin as <- <-. unfold SECTOR. change Gen.Consts.vmdk_SECTOR_SIZE with 512.
    split; apply Z.mod_mul; lia. }
  destruct (t =? 1).
  { intros H. injection H as <-. intros [Hin|[]]. discriminate. }
  destruct (negb comp).
  { intros H. injection H as <-. intros [Hin|[]]. discriminate. }
  intros H Hin. exfalso. exact (comp_loop_no_sparent _ _ _ _ _ _ o m H Hin).
Qed.

Lemma exec_runs_sparent_aligned gs comp hp : forall rs p o m,
  exec_runs gs comp hp rs = Ok p -> In (SParent o m) p -> o mod 512 = 0 /\ m mod 512 = 0.
Proof.
  induction rs as [|r rs IH]; intros p o m H Hin; cbn [exec_runs] in H.
  - injection H as <-. destruct Hin.
  - destruct (exec_run gs comp hp r) as [a| |] eqn:Ha; cbn [bind] in H; try discriminate.
    destruct (exec_runs gs comp hp rs) as [b| |] eqn:Hb; cbn [bind] in H; try discriminate.
    injection H as <-. apply in_app_or in Hin. destruct Hin as [Hin|Hin].
    + exact (exec_run_sparent_aligned _ _ _ _ _ _ _ Ha Hin).
    + exact (IH _ _ _ eq_refl Hin).
Qed.

Lemma read_sectors_sparent_aligned f sp soff hp fuel sector count p o m :
  sparse_read_sectors f sp soff hp fuel sector count = Ok p -> In (SParent o m) p ->
  o mod 512 = 0 /\ m mod 512 = 0.
Proof.
  unfold sparse_read_sectors, read_sectors_gen. intros H Hin.
  destruct (get_runs _ _ _ _ _ _) as [runs| |]; cbn [bind] in H; try discriminate.
  exact (exec_runs_sparent_aligned _ _ _ _ _ _ _ H Hin).
Qed.

Theorem vmdk_layer_ok f sp :
  wf_sparse f sp -> layer_ok (sp_capacity sp * 512) 512 (vmdk_layer (f, sp)).
Proof.
  intros Hwf off n Hoff Hn Hfit Hog Hng. cbn [vmdk_layer l_read l_src].
  pose proof Hwf as (Hw & Hg & Hcap & Hcov).
  assert (Eo : off = off / 512 * 512) by (pose proof (Z.div_mod off 512 ltac:(lia)); lia).
  assert (En : n = n / 512 * 512) by (pose proof (Z.div_mod n 512 ltac:(lia)); lia).
  assert (0 <= off / 512) by (apply Z.div_pos; lia).
  assert (0 <= n / 512) by (apply Z.div_pos; lia).
  assert (Hend : off / 512 + n / 512 <= sp_capacity sp).
  { set (a := off / 512) in *. set (b := n / 512) in *. lia. }
  destruct (sparse_read_sectors_ok f sp true (off / 512) (n / 512) Hwf H H0 Hend) as [p Hp].
  exists p. split; [exact Hp|].
  pose proof (sparse_read_sectors_correct f sp 0 true Hw Hg _ _ _ p H Hp) as Hs.
  rewrite Z.sub_0_r, <- Eo, <- En in Hs.
  split; [exact Hs|].
  intros o m Hin Hm.
  destruct (sparent_in_range _ (vmdk_parent_same f sp) p off n Hn Hs o m Hin Hm) as [A B].
  destruct (read_sectors_sparent_aligned _ _ _ _ _ _ _ _ _ _ Hp Hin) as [C D].
  repeat split; try assumption; lia.
Qed.

(* a chain of sparse VMDK links (child first), all of the same capacity *)
Theorem vmdk_chain_correct cap (links : list (vfile * sparse)) :
  Forall (fun fs => wf_sparse (fst fs) (snd fs) /\ sp_capacity (snd fs) = cap) links ->
  forall off n, 0 <= off -> 0 <= n -> off + n <= cap * 512 -> off mod 512 = 0 -> n mod 512 = 0 ->
  chain_read (map vmdk_layer links) 0 off n = Ok (map (chain_src (map vmdk_layer links) 0) (zseq off n)).
Proof.
  intros Hall off n Hoff Hn Hfit Hog Hng.
  apply (chain_read_correct (cap * 512) 512); try assumption.
  apply Forall_map. eapply Forall_impl; [|exact Hall].
  intros [f sp] (Hwf & <-). cbn [fst snd] in *. now apply vmdk_layer_ok.
Qed.
