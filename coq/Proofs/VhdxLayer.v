(* Proofs/VhdxLayer.v — a differencing VHDX (payload states 0/1/2/3/6/7, per-sector bitmaps)
   read through read_sectors yields, for every sector, this file's data where the layer
   holds it and a parent reference at the same guest offset where it does not. *)
From Coq Require Import ZArith List Bool Lia.
From DH Require Import Base.Arith Base.Plan Base.Table Model.Walk Proofs.BlockMapped
  Model.Vhdx Proofs.Vhdx Proofs.VhdxPartial Model.Chain Proofs.Chain.
Import ListNotations.
Open Scope Z_scope.

(* sources of a list of per-sector types starting at relative sector rel *)
Fixpoint secs (ss fb pb : Z) (rel : Z) (ts : list Z) : list src :=
  match ts with
  | [] => []
  | t :: r => (if t =? 0 then map Parent (zseq (pb + rel * ss) ss) else map File (zseq (fb + rel * ss) ss))
              ++ secs ss fb pb (rel + 1) r
  end.

Lemma secs_repeat ss fb pb t : 0 < ss -> forall c rel rest,
  secs ss fb pb rel (repeat t c ++ rest) =
  (if t =? 0 then map Parent (zseq (pb + rel * ss) (Z.of_nat c * ss))
   else map File (zseq (fb + rel * ss) (Z.of_nat c * ss))) ++ secs ss fb pb (rel + Z.of_nat c) rest.
Proof.
  intros Hss. induction c as [|c IH]; intros rel rest.
  - cbn [repeat app Z.of_nat]. rewrite Z.add_0_r. destruct (t =? 0); reflexivity.
  - cbn [repeat app secs]. rewrite IH. rewrite Nat2Z.inj_succ.
    replace (Z.succ (Z.of_nat c) * ss) with (ss + Z.of_nat c * ss) by lia.
    replace (rel + Z.succ (Z.of_nat c)) with (rel + 1 + Z.of_nat c) by lia.
    destruct (t =? 0); rewrite zseq_app by nia; rewrite map_app, <- app_assoc;
      (f_equal; f_equal; f_equal; f_equal; lia).
Qed.

Lemma partial_segs_secs x fb pb : 0 < x_ss x -> forall runs rel,
  Forall (fun r => 0 <= snd r) runs ->
  srcs_of (partial_segs x fb pb rel runs) = secs (x_ss x) fb pb rel (expand runs).
Proof.
  intros Hss. induction runs as [|[t c] r IH]; intros rel Hnn; [reflexivity|].
  inversion Hnn as [|? ? Hc Hr]; subst. cbn [snd] in Hc.
  cbn [partial_segs]. rewrite srcs_of_cons, IH by assumption.
  unfold expand at 2. cbn [flat_map fst snd]. fold (expand r). unfold zrepeat.
  rewrite (secs_repeat (x_ss x) fb pb t Hss). rewrite Z2Nat.id by lia.
  destruct (t =? 0); reflexivity.
Qed.

Lemma nth_map_zseq_nat {A} (f : Z -> A) d : forall m o q, (q < m)%nat ->
  nth q (map f (zseq_nat o m)) d = f (o + Z.of_nat q).
Proof.
  induction m as [|m IH]; intros o q Hlt; [lia|].
  destruct q as [|q]; cbn [zseq_nat map nth].
  - f_equal. lia.
  - rewrite IH by lia. f_equal. lia.
Qed.

Section XL.
  Variable x : vhdx.
  Hypothesis Hgeom : geom_ok x.
  Hypothesis Hstates : states_ok x.
  Hypothesis Hpar : x_has_parent x = true.

  (* the specification for one sector of a partially-present block *)
  Lemma src_partial block e s sib j :
    0 <= block -> 0 <= sib < spb x -> 0 <= j < x_ss x ->
    x_bat x (block + block / chunk_ratio x) = Some e -> be_state e = 7 ->
    x_bat x ((block / chunk_ratio x + 1) * chunk_ratio x + block / chunk_ratio x) = Some s ->
    vhdx_src x ((block * spb x + sib) * x_ss x + j) =
    if sector_present x s block sib then File (be_mb e * MB + sib * x_ss x + j)
    else Parent ((block * spb x + sib) * x_ss x + j).
  Proof.
    intros Hb Hsib Hj He E7 Hsb. destruct Hgeom as (Hss & Hspb & Hbs & Hcr).
    unfold vhdx_src.
    destruct (byte_in_vblock x Hgeom block sib 1 j Hb ltac:(lia) ltac:(lia) ltac:(lia)) as [-> ->].
    rewrite He. cbv zeta. rewrite E7. cbn [Z.eqb Pos.eqb]. rewrite Hsb.
    replace ((sib * x_ss x + j) / x_ss x) with sib by (symmetry; apply div_mul_add; lia).
    destruct (sector_present x s block sib); [f_equal; lia|reflexivity].
  Qed.

  Lemma bitmap_bit_is_present block s sib n k :
    0 <= block -> 0 <= sib -> 0 <= k < n ->
    let sic := (block mod chunk_ratio x) * spb x + sib in
    let bm := map (x_fbyte x) (zseq (be_mb s * MB + sic / 8) ((sic mod 8 + n + 7) / 8)) in
    (bm_bit bm (sic mod 8 + k) =? 0) = negb (sector_present x s block (sib + k)).
  Proof.
    intros Hb Hsib Hk sic bm. destruct Hgeom as (Hss & Hspb & Hbs & Hcr).
    pose proof (Z.mod_pos_bound block (chunk_ratio x) Hcr) as Hbm.
    assert (Hsic : 0 <= sic) by (subst sic; nia).
    pose proof (Z.mod_pos_bound sic 8 ltac:(lia)) as Hm8.
    pose proof (Z.div_mod sic 8 ltac:(lia)) as Hd8.
    unfold sector_present. fold sic.
    replace ((block mod chunk_ratio x) * spb x + (sib + k)) with (sic + k) by (subst sic; lia).
    set (i := sic mod 8 + k).
    assert (Hi : 0 <= i) by (subst i; lia).
    assert (Hq : (sic + k) / 8 = sic / 8 + i / 8 /\ (sic + k) mod 8 = i mod 8).
    { replace (sic + k) with (sic / 8 * 8 + i) by (subst i; lia).
      split.
      - rewrite Z.div_add_l by lia. reflexivity.
      - rewrite Z.add_comm, Z.mod_add by lia. reflexivity. }
    destruct Hq as [-> ->]. unfold bm_bit.
    set (nb := (sic mod 8 + n + 7) / 8).
    assert (Hnb : i / 8 < nb).
    { subst nb i. apply Z.div_lt_upper_bound; [lia|].
      pose proof (Z.div_mod (sic mod 8 + n + 7) 8 ltac:(lia)).
      pose proof (Z.mod_pos_bound (sic mod 8 + n + 7) 8 ltac:(lia)). lia. }
    assert (Hi8 : 0 <= i / 8) by (apply Z.div_pos; lia).
    assert (Hnth : nth (Z.to_nat (i / 8)) bm 0 = x_fbyte x (be_mb s * MB + sic / 8 + i / 8)).
    { subst bm. unfold zseq. rewrite nth_map_zseq_nat by lia. f_equal. lia. }
    rewrite Hnth. replace (be_mb s * MB + (sic / 8 + i / 8)) with (be_mb s * MB + sic / 8 + i / 8) by lia.
    pose proof (bit_of_range (x_fbyte x (be_mb s * MB + sic / 8 + i / 8)) (i mod 8)) as Hr.
    destruct (Z.eqb_spec (bit_of (x_fbyte x (be_mb s * MB + sic / 8 + i / 8)) (i mod 8)) 0) as [E|E];
      destruct (Z.eqb_spec (bit_of (x_fbyte x (be_mb s * MB + sic / 8 + i / 8)) (i mod 8)) 1) as [E1|E1];
      cbn [negb]; try reflexivity; lia.
  Qed.

  (* sector by sector, the types the bitmap yields are the specification *)
  Lemma secs_spec block e s sib n :
    0 <= block -> 0 <= sib -> sib + n <= spb x ->
    x_bat x (block + block / chunk_ratio x) = Some e -> be_state e = 7 ->
    x_bat x ((block / chunk_ratio x + 1) * chunk_ratio x + block / chunk_ratio x) = Some s ->
    let sic := (block mod chunk_ratio x) * spb x + sib in
    let bm := map (x_fbyte x) (zseq (be_mb s * MB + sic / 8) ((sic mod 8 + n + 7) / 8)) in
    forall m rel, rel + Z.of_nat m = n -> 0 <= rel ->
    secs (x_ss x) (be_mb e * MB + sib * x_ss x) ((block * spb x + sib) * x_ss x) rel
         (map (bm_bit bm) (zseq_nat (sic mod 8 + rel) m))
    = map (vhdx_src x) (zseq (((block * spb x + sib) + rel) * x_ss x) (Z.of_nat m * x_ss x)).
  Proof.
    intros Hb Hsib Hfit He E7 Hsb sic bm. destruct Hgeom as (Hss & Hspb & Hbs & Hcr).
    subst bm sic.
    induction m as [|m IH]; intros rel Hrel Hr0.
    - cbn. reflexivity.
    - cbn [zseq_nat map secs].
      rewrite (bitmap_bit_is_present block s sib n rel Hb Hsib ltac:(lia)).
      replace ((block mod chunk_ratio x * spb x + sib) mod 8 + rel + 1)
        with ((block mod chunk_ratio x * spb x + sib) mod 8 + (rel + 1)) by lia.
      rewrite (IH (rel + 1)) by lia.
      rewrite Nat2Z.inj_succ.
      replace (Z.succ (Z.of_nat m) * x_ss x) with (x_ss x + Z.of_nat m * x_ss x) by lia.
      rewrite zseq_app by nia. rewrite map_app. f_equal.
      + rewrite (zseq_rel (vhdx_src x)).
        rewrite (map_ext_zseq _ (fun j => if sector_present x s block (sib + rel)
                   then File (be_mb e * MB + (sib + rel) * x_ss x + j)
                   else Parent ((block * spb x + (sib + rel)) * x_ss x + j)) 0 (x_ss x)).
        2:{ intros j Hj. replace ((block * spb x + sib + rel) * x_ss x + j)
              with ((block * spb x + (sib + rel)) * x_ss x + j) by lia.
            apply (src_partial block e s (sib + rel) j); try assumption; lia. }
        destruct (sector_present x s block (sib + rel)); cbn [negb].
        * rewrite (zseq_rel File). apply map_ext. intros j. f_equal. lia.
        * rewrite (zseq_rel Parent). apply map_ext. intros j. f_equal. lia.
      + do 2 f_equal. lia.
  Qed.

  (* per-block correctness of the emitter, with a parent *)
  Lemma vhdx_emit_ok_parent :
    forall block es sib n segs,
    vhdx_lookup x block = Ok es -> vhdx_emit x es block sib n = Ok segs ->
    0 <= block -> 0 <= sib -> 0 < n -> sib + n <= spb x ->
    srcs_of segs = map (vhdx_src x) (zseq ((block * spb x + sib) * x_ss x) (n * x_ss x)).
  Proof.
    intros block [e s] sib n segs Hlk Hem Hb Hs Hn Hfit.
    destruct consts_pinned as (HMB & H0 & H1 & H2 & H3 & H6 & H7).
    pose proof Hgeom as (Hss & Hspb & Hbs & Hcr).
    assert (Hbat : x_bat x (block + block / chunk_ratio x) = Some e /\
                   (be_state e = 7 -> x_bat x ((block / chunk_ratio x + 1) * chunk_ratio x + block / chunk_ratio x) = Some s)).
    { unfold vhdx_lookup, bat_pb, bat_get in Hlk.
      destruct (block + block / chunk_ratio x + 1 >? entry_count x); [discriminate|].
      destruct (x_bat x (block + block / chunk_ratio x)) as [e'|]; [|discriminate].
      cbn [of_option bind] in Hlk. rewrite H7 in Hlk.
      destruct (Z.eqb_spec (be_state e') 7) as [E|E].
      - unfold bat_sb, bat_get in Hlk.
        destruct (_ >? entry_count x); [discriminate|].
        destruct (x_bat x ((block / chunk_ratio x + 1) * chunk_ratio x + block / chunk_ratio x)) as [s'|];
          [|discriminate].
        cbn [of_option bind] in Hlk. injection Hlk as <- <-. split; [reflexivity|intros; reflexivity].
      - injection Hlk as <- <-. split; [reflexivity|intros; contradiction]. }
    destruct Hbat as [Hbat Hsb].
    destruct (Hstates _ _ Hbat) as [Hn4 Hn5].
    assert (Hst : 0 <= be_state e < 8) by (unfold be_state; apply Z.mod_pos_bound; lia).
    unfold vhdx_emit in Hem. rewrite H0, H1, H2, H3, H6, H7, Hpar in Hem. cbn [negb] in Hem.
    assert (Hsrc_np : forall j, 0 <= j < n * x_ss x -> be_state e <> 7 ->
      vhdx_src x ((block * spb x + sib) * x_ss x + j) =
      if be_state e =? 6 then File (be_mb e * MB + sib * x_ss x + j)
      else if be_state e =? 0 then Parent ((block * spb x + sib) * x_ss x + j) else Zero).
    { intros j Hj Hne. unfold vhdx_src.
      destruct (byte_in_vblock x Hgeom block sib n j Hb Hs Hfit Hj) as [Hq Hr].
      rewrite Hq. rewrite Hbat. cbv zeta. rewrite Hr, Hpar, andb_true_r.
      destruct (Z.eqb_spec (be_state e) 6); [f_equal; lia|].
      destruct (Z.eqb_spec (be_state e) 7); [contradiction|].
      destruct (be_state e =? 0); reflexivity. }
    destruct (Z.eqb_spec (be_state e) 0) as [E0|E0].
    { injection Hem as <-. unfold srcs_of; cbn [flat_map srcs_of_seg]; rewrite app_nil_r.
      rewrite (zseq_rel (vhdx_src x)), (zseq_rel Parent). apply map_ext_zseq. intros j Hj.
      rewrite Hsrc_np by lia. rewrite E0. reflexivity. }
    destruct ((be_state e =? 1) || (be_state e =? 2) || (be_state e =? 3)) eqn:E123.
    { injection Hem as <-. unfold srcs_of; cbn [flat_map srcs_of_seg]; rewrite app_nil_r.
      rewrite (zseq_rel (vhdx_src x)). apply map_ext_zseq. intros j Hj.
      rewrite Hsrc_np by lia.
      destruct (Z.eqb_spec (be_state e) 6); [lia|]. destruct (Z.eqb_spec (be_state e) 0); [lia|reflexivity]. }
    destruct (Z.eqb_spec (be_state e) 6) as [E6|E6].
    { injection Hem as <-. unfold srcs_of; cbn [flat_map srcs_of_seg]; rewrite app_nil_r.
      rewrite (zseq_rel (vhdx_src x)), (zseq_rel File). apply map_ext_zseq. intros j Hj.
      rewrite Hsrc_np by lia. try rewrite E6. cbn. f_equal; lia. }
    destruct (Z.eqb_spec (be_state e) 7) as [E7|E7]; [|exfalso; lia].
    (* partially present *)
    specialize (Hsb E7).
    set (sic := (block mod chunk_ratio x) * spb x + sib) in *.
    set (bm := map (x_fbyte x) (zseq (be_mb s * MB + sic / 8) ((sic mod 8 + n + 7) / 8))) in *.
    destruct (iter_partial_runs bm (sic mod 8) n) as [runs| |] eqn:Hruns; try discriminate.
    cbn [bind] in Hem. injection Hem as <-.
    pose proof (Z.mod_pos_bound sic 8 ltac:(lia)) as Hm8.
    assert (Hlenbm : sic mod 8 + n <= 8 * Z.of_nat (length bm)).
    { subst bm. rewrite map_length.
      assert (Hnb : 0 <= (sic mod 8 + n + 7) / 8) by (apply Z.div_pos; lia).
      rewrite zseq_length by lia.
      pose proof (Z.div_mod (sic mod 8 + n + 7) 8 ltac:(lia)).
      pose proof (Z.mod_pos_bound (sic mod 8 + n + 7) 8 ltac:(lia)). lia. }
    pose proof (iter_partial_runs_correct bm (sic mod 8) n runs Hm8 ltac:(lia) Hlenbm Hruns) as Hexp.
    pose proof (iter_partial_runs_nonneg bm (sic mod 8) n runs Hm8 ltac:(lia) Hruns) as Hnn.
    rewrite (partial_segs_secs x _ _ Hss runs 0 Hnn), Hexp.
    pose proof (secs_spec block e s sib n Hb Hs Hfit Hbat E7 Hsb (Z.to_nat n) 0 ltac:(lia) ltac:(lia)) as Hsp.
    cbv zeta in Hsp. fold sic in Hsp. fold bm in Hsp.
    rewrite Z.add_0_r in Hsp. unfold zseq at 1. rewrite Hsp.
    rewrite Z2Nat.id by lia. rewrite Z.add_0_r. reflexivity.
  Qed.
End XL.

(* ---------- the differencing VHDX as a layer ---------- *)
Definition run_total (runs : list (Z * Z)) : Z := fold_right (fun r a => snd r + a) 0 runs.

Lemma expand_length runs : Forall nn runs -> Z.of_nat (length (expand runs)) = run_total runs.
Proof.
  induction 1 as [|[t c] r Hc Hr IH]; [reflexivity|].
  unfold expand. cbn [flat_map fst snd run_total fold_right]. fold (expand r). fold (run_total r).
  rewrite app_length, Nat2Z.inj_add, IH. unfold zrepeat. rewrite repeat_length. unfold nn in Hc. cbn in Hc. lia.
Qed.

Lemma partial_segs_parent_range x fb pb : 0 < x_ss x -> forall runs rel o m,
  Forall nn runs -> 0 <= rel -> In (SParent o m) (partial_segs x fb pb rel runs) ->
  exists k c, o = pb + k * x_ss x /\ m = c * x_ss x /\ rel <= k /\ 0 <= c /\ k + c <= rel + run_total runs.
Proof.
  intros Hss. induction runs as [|[t c] r IH]; intros rel o m Hnn Hrel Hin; [destruct Hin|].
  inversion Hnn as [|? ? Hc Hr]; subst. unfold nn in Hc. cbn [snd] in Hc.
  assert (Ht : 0 <= run_total r).
  { clear -Hr. induction Hr as [|[t' c'] r' Hc' Hr' IH']; cbn; [lia|]. unfold nn in Hc'. cbn in Hc'.
    fold (run_total r'). lia. }
  cbn [partial_segs] in Hin. destruct Hin as [Hin|Hin].
  - destruct (t =? 0); [|discriminate]. injection Hin as <- <-.
    exists rel, c. cbn [run_total fold_right snd]. fold (run_total r). repeat split; lia.
  - destruct (IH (rel + c) o m Hr ltac:(lia) Hin) as (k & c' & H1 & H2 & H3 & H4 & H5).
    exists k, c'. cbn [run_total fold_right snd]. fold (run_total r). repeat split; lia.
Qed.

Section XLayer.
  Variable x : vhdx.
  Hypothesis Hgeom : geom_ok x.
  Hypothesis Hstates : states_ok x.
  Hypothesis Hpar : x_has_parent x = true.

  Definition vhdx_layer : layer :=
    {| l_read := fun off n => vhdx_read_sectors x (vhdx_fuel (n / x_ss x)) (off / x_ss x) (n / x_ss x);
       l_src := vhdx_src x |}.

  Lemma vhdx_emit_parent_range idx es io n segs o m :
    vhdx_emit x es idx io n = Ok segs -> In (SParent o m) segs ->
    0 <= idx -> 0 <= io -> 0 < n -> io + n <= spb x ->
    (idx * spb x + io) * x_ss x <= o /\ 0 <= m /\ o + m <= (idx * spb x + io + n) * x_ss x /\
    o mod x_ss x = 0 /\ m mod x_ss x = 0.
  Proof.
    destruct es as [e s]. intros Hem Hin Hidx Hio Hn Hfit.
    destruct consts_pinned as (HMB & H0 & H1 & H2 & H3 & H6 & H7).
    destruct Hgeom as (Hss & Hspb & Hbs & Hcr).
    unfold vhdx_emit in Hem. rewrite H0, H1, H2, H3, H6, H7, Hpar in Hem. cbn [negb] in Hem.
    destruct (be_state e =? 0).
    { injection Hem as <-. destruct Hin as [Hin|[]]. injection Hin as <- <-.
      rewrite !Z.mod_mul by lia. repeat split; nia. }
    destruct ((be_state e =? 1) || (be_state e =? 2) || (be_state e =? 3)).
    { injection Hem as <-. destruct Hin as [Hin|[]]. discriminate. }
    destruct (be_state e =? 6).
    { injection Hem as <-. destruct Hin as [Hin|[]]. discriminate. }
    destruct (be_state e =? 7); [|injection Hem as <-; destruct Hin].
    set (sic := (idx mod chunk_ratio x) * spb x + io) in *.
    set (bm := map (x_fbyte x) (zseq (be_mb s * MB + sic / 8) ((sic mod 8 + n + 7) / 8))) in *.
    destruct (iter_partial_runs bm (sic mod 8) n) as [runs| |] eqn:Hruns; try discriminate.
    cbn [bind] in Hem. injection Hem as <-.
    pose proof (Z.mod_pos_bound sic 8 ltac:(lia)) as Hm8.
    pose proof (iter_partial_runs_nonneg bm (sic mod 8) n runs Hm8 ltac:(lia) Hruns) as Hnn.
    assert (Hlenbm : sic mod 8 + n <= 8 * Z.of_nat (length bm)).
    { subst bm. rewrite map_length.
      assert (Hnb : 0 <= (sic mod 8 + n + 7) / 8) by (apply Z.div_pos; lia).
      rewrite zseq_length by lia.
      pose proof (Z.div_mod (sic mod 8 + n + 7) 8 ltac:(lia)).
      pose proof (Z.mod_pos_bound (sic mod 8 + n + 7) 8 ltac:(lia)). lia. }
    pose proof (iter_partial_runs_correct bm (sic mod 8) n runs Hm8 ltac:(lia) Hlenbm Hruns) as Hexp.
    pose proof (expand_length runs Hnn) as Hlen. rewrite Hexp, map_length, zseq_length in Hlen by lia.
    destruct (partial_segs_parent_range x _ _ Hss runs 0 o m Hnn ltac:(lia) Hin)
      as (k & c & -> & -> & Hk & Hc & Hkc).
    rewrite <- Hlen in Hkc.
    replace ((idx * spb x + io) * x_ss x + k * x_ss x) with ((idx * spb x + io + k) * x_ss x) by lia.
    rewrite !Z.mod_mul by lia. repeat split; nia.
  Qed.

  (* the BAT covers the disk and every sector bitmap can be consulted *)
  Definition vhdx_wf_diff : Prop := 0 <= x_size x /\ bat_covers x.

  Lemma covers_diff :
    vhdx_wf_diff -> covers (spb x) (vhdx_lookup x) (vhdx_emit x) (cdiv (x_size x) (x_ss x)).
  Proof.
    intros (Hsz & Hcov) block Hb Hlt.
    destruct consts_pinned as (HMB & H0 & H1 & H2 & H3 & H6 & H7).
    pose proof Hgeom as (Hss & Hspb & Hbs & Hcr).
    assert (Hblk : block < pb_count x).
    { unfold pb_count, cdiv in *. rewrite Hbs.
      pose proof (Z.div_mod (x_size x + x_ss x - 1) (x_ss x) ltac:(lia)) as Hd1.
      pose proof (Z.mod_pos_bound (x_size x + x_ss x - 1) (x_ss x) Hss) as Hm1.
      assert (Hlt' : block * (spb x * x_ss x) <= x_size x - 1) by nia.
      assert (block + 1 <= (x_size x + spb x * x_ss x - 1) / (spb x * x_ss x)); [|lia].
      apply Z.div_le_lower_bound; nia. }
    destruct (pb_sb_index_in_table_parent x Hgeom block Hpar ltac:(lia)) as [Hi1 Hi2].
    assert (Hq : 0 <= block / chunk_ratio x) by (apply Z.div_pos; lia).
    destruct (Hcov (block + block / chunk_ratio x) ltac:(lia)) as [e He].
    destruct (Hcov ((block / chunk_ratio x + 1) * chunk_ratio x + block / chunk_ratio x) ltac:(nia)) as [s Hs].
    exists (e, if be_state e =? 7 then s else 0). split.
    - unfold vhdx_lookup, bat_pb, bat_sb, bat_get.
      destruct (Z.gtb_spec (block + block / chunk_ratio x + 1) (entry_count x)); [lia|].
      rewrite He. cbn [of_option bind]. rewrite H7.
      destruct (be_state e =? 7); [|reflexivity].
      destruct (Z.gtb_spec ((block / chunk_ratio x + 1) * chunk_ratio x + block / chunk_ratio x + 1) (entry_count x)); [lia|].
      rewrite Hs. reflexivity.
    - intros io n Hio Hn Hfit. unfold vhdx_emit. rewrite H0, H1, H2, H3, H6, H7, Hpar. cbn [negb].
      destruct (be_state e =? 0); [eauto|].
      destruct ((be_state e =? 1) || (be_state e =? 2) || (be_state e =? 3)); [eauto|].
      destruct (be_state e =? 6); [eauto|].
      destruct (be_state e =? 7); [|eauto].
      unfold iter_partial_runs.
      set (sic := (block mod chunk_ratio x) * spb x + io).
      pose proof (Z.mod_pos_bound sic 8 ltac:(lia)) as Hm8.
      assert (Hnb : 1 <= (sic mod 8 + n + 7) / 8) by (apply Z.div_le_lower_bound; lia).
      destruct (map (x_fbyte x) (zseq (be_mb s * MB + sic / 8) ((sic mod 8 + n + 7) / 8))) as [|b0 r] eqn:Hbm.
      + exfalso. apply (f_equal (@length Z)) in Hbm. rewrite map_length in Hbm.
        pose proof (zseq_length (be_mb s * MB + sic / 8) ((sic mod 8 + n + 7) / 8) ltac:(lia)). cbn in Hbm. lia.
      + cbn [bind]. eauto.
  Qed.

  Theorem vhdx_layer_ok : vhdx_wf_diff -> x_size x mod x_ss x = 0 ->
    layer_ok (x_size x) (x_ss x) vhdx_layer.
  Proof.
    intros Hwf Hsm off n Hoff Hn Hfit Hog Hng. pose proof (covers_diff Hwf) as Hc.
    pose proof Hgeom as (Hss & Hspb & Hbs & Hcr). destruct Hwf as (Hsz & Hcov).
    cbn [vhdx_layer l_read l_src].
    pose proof (Z.div_mod off (x_ss x) ltac:(lia)) as Hd1.
    pose proof (Z.div_mod n (x_ss x) ltac:(lia)) as Hd2.
    pose proof (Z.div_mod (x_size x) (x_ss x) ltac:(lia)) as Hd3.
    assert (Hs : 0 <= off / x_ss x) by (apply Z.div_pos; lia).
    assert (Hc0 : 0 <= n / x_ss x) by (apply Z.div_pos; lia).
    assert (Hcd : cdiv (x_size x) (x_ss x) = x_size x / x_ss x).
    { unfold cdiv. symmetry. apply Z.div_unique with (r := x_ss x - 1); [left; lia|]. lia. }
    assert (Hend : off / x_ss x + n / x_ss x <= cdiv (x_size x) (x_ss x)) by (rewrite Hcd; nia).
    destruct (walk_ok (spb x) (vhdx_lookup x) (vhdx_emit x) Hspb (vhdx_fuel (n / x_ss x)) (off / x_ss x)
                (n / x_ss x) _ Hc Hs Hend ltac:(unfold vhdx_fuel; lia)) as [p Hp].
    exists p. split; [exact Hp|]. split.
    - rewrite (walk_correct (spb x) (x_ss x) (vhdx_lookup x) (vhdx_emit x) (vhdx_src x) Hspb Hss
                 (vhdx_emit_ok_parent x Hgeom Hstates Hpar) _ _ _ p Hs Hp).
      f_equal. f_equal; lia.
    - intros o m Hin _.
      destruct (walk_parent_range (spb x) (x_ss x) (vhdx_lookup x) (vhdx_emit x) Hspb Hss
                  vhdx_emit_parent_range _ _ _ p o m Hs Hp Hin) as (K1 & K2 & K3 & K4 & K5).
      repeat split; try assumption; nia.
  Qed.
End XLayer.
