(* Proofs/Hds.v — HDS._iter_runs/_read refine the pointwise spec: coalescing runs is sound. *)
From Coq Require Import ZArith List Bool Lia.
From DH Require Import Base.Arith Base.Plan Base.Table Model.Hds Proofs.BlockMapped.
Import ListNotations.
Open Scope Z_scope.

Lemma HSECTOR_eq : HSECTOR = 512. Proof. reflexivity. Qed.

Section H.
  Variable h : hds.
  Hypothesis Hcs : 0 < h_cs h.
  Notation gsrc := (hds_src h).

  (* one cluster's piece of a request *)
  Lemma cluster_srcs off rs e :
    0 <= off -> 0 < rs -> off mod h_cs h + rs <= h_cs h ->
    h_bat h (off / h_cs h) = Some e ->
    srcs_of_seg (seg_of_run h off
       (if e =? 0 then None else Some (e * h_mult h * HSECTOR + off mod h_cs h), rs))
    = map gsrc (zseq off rs).
  Proof.
    intros Hoff Hrs Hfit Hbat. rewrite HSECTOR_eq.
    assert (Hsrc : forall j, 0 <= j < rs ->
      gsrc (off + j) = if e =? 0 then (if h_parent h then Parent (off + j) else Zero)
                       else File (e * h_mult h * 512 + off mod h_cs h + j)).
    { intros j Hj. unfold hds_src.
      destruct (unit_step off (h_cs h) j Hcs ltac:(lia) ltac:(lia)) as [-> ->].
      rewrite Hbat. destruct (e =? 0); [reflexivity|]. f_equal. lia. }
    rewrite (zseq_rel gsrc).
    rewrite (map_ext_zseq _ (fun j => if e =? 0 then (if h_parent h then Parent (off + j) else Zero)
                       else File (e * h_mult h * 512 + off mod h_cs h + j)) 0 rs)
      by (intros; apply Hsrc; lia).
    unfold seg_of_run. destruct (e =? 0); cbn [fst snd srcs_of_seg].
    - destruct (h_parent h); cbn [srcs_of_seg]; [rewrite (zseq_rel Parent)|]; reflexivity.
    - rewrite (zseq_rel File). reflexivity.
  Qed.

  Lemma merge_srcs g po ps ro rs :
    0 <= ps -> 0 <= rs -> mergeable po ps ro = true ->
    srcs_of_seg (seg_of_run h g (po, ps + rs)) =
    srcs_of_seg (seg_of_run h g (po, ps)) ++ srcs_of_seg (seg_of_run h (g + ps) (ro, rs)).
  Proof.
    intros Hps Hrs Hm. unfold seg_of_run, mergeable in *. cbn [fst snd] in *.
    destruct po as [p|], ro as [r|]; try discriminate.
    - apply Z.eqb_eq in Hm. subst r. cbn [srcs_of_seg].
      rewrite zseq_app by lia. apply map_app.
    - destruct (h_parent h); cbn [srcs_of_seg]; rewrite zseq_app by lia; rewrite map_app.
      + reflexivity.
      + f_equal. apply map_const_zseq.
  Qed.

  (* T bytes were produced from position off on: at most the request, at least up to the disk end *)
  Definition produced_ok (off len T : Z) : Prop :=
    0 <= T /\ T <= Z.max 0 len /\ Z.min len (h_size h - off) <= T.

  Lemma iter_runs_sound fuel : forall off len cur rs,
    0 <= off -> iter_runs h fuel off len cur = Ok rs ->
    match cur with
    | None => exists T, produced_ok off len T /\
        srcs_of (segs_of_runs h off rs) = map gsrc (zseq off T)
    | Some (po, ps) => forall g, g + ps = off -> 0 < ps -> 0 <= g ->
        srcs_of_seg (seg_of_run h g (po, ps)) = map gsrc (zseq g ps) ->
        exists T, produced_ok off len T /\
          srcs_of (segs_of_runs h g rs) = map gsrc (zseq g (ps + T))
    end.
  Proof.
    induction fuel as [|fuel IH]; intros off len cur rs Hoff Hrun.
    - cbn [iter_runs] in Hrun.
      destruct ((off <? h_size h) && (0 <? len)) eqn:Hc; [discriminate|].
      assert (Hstop : h_size h <= off \/ len <= 0).
      { apply andb_false_iff in Hc. destruct Hc as [Hc|Hc]; [left|right];
          [apply Z.ltb_ge in Hc|apply Z.ltb_ge in Hc]; lia. }
      injection Hrun as <-. destruct cur as [[po ps]|].
      + intros g Hg Hps Hg0 Hpend. exists 0. split; [unfold produced_ok; lia|].
        cbn [segs_of_runs]. rewrite srcs_of_cons. unfold srcs_of at 1. cbn [flat_map].
        rewrite app_nil_r, Z.add_0_r. exact Hpend.
      + exists 0. split; [unfold produced_ok; lia|]. reflexivity.
    - cbn [iter_runs] in Hrun.
      destruct ((off <? h_size h) && (0 <? len)) eqn:Hc.
      2:{ assert (Hstop : h_size h <= off \/ len <= 0).
          { apply andb_false_iff in Hc. destruct Hc as [Hc|Hc]; [left|right];
              [apply Z.ltb_ge in Hc|apply Z.ltb_ge in Hc]; lia. }
          injection Hrun as <-. destruct cur as [[po ps]|].
          + intros g Hg Hps Hg0 Hpend. exists 0. split; [unfold produced_ok; lia|].
            cbn [segs_of_runs]. rewrite srcs_of_cons. unfold srcs_of at 1. cbn [flat_map].
            rewrite app_nil_r, Z.add_0_r. exact Hpend.
          + exists 0. split; [unfold produced_ok; lia|]. reflexivity. }
      apply andb_true_iff in Hc. destruct Hc as [Hlt Hpos].
      apply Z.ltb_lt in Hlt. apply Z.ltb_lt in Hpos.
      pose proof (Z.mod_pos_bound off (h_cs h) Hcs) as Hm.
      set (rsz := Z.min (h_cs h - off mod h_cs h) len) in *.
      assert (Hrs : 0 < rsz <= len /\ off mod h_cs h + rsz <= h_cs h) by (subst rsz; lia).
      destruct (h_bat h (off / h_cs h)) as [e|] eqn:Hbat; [|discriminate].
      cbn [of_option bind] in Hrun.
      set (ro := if e =? 0 then None else Some (e * h_mult h * HSECTOR + off mod h_cs h)) in *.
      pose proof (cluster_srcs off rsz e Hoff ltac:(lia) ltac:(lia) Hbat) as Hcl. fold ro in Hcl.
      destruct cur as [[po ps]|].
      + intros g Hg Hps Hg0 Hpend.
        destruct (mergeable po ps ro) eqn:Hmg.
        * (* merged into the pending run *)
          specialize (IH (off + rsz) (len - rsz) (Some (po, ps + rsz)) rs ltac:(lia) Hrun).
          cbn beta iota in IH.
          destruct (IH g ltac:(lia) ltac:(lia) Hg0) as [T [HT Hs]].
          { rewrite (merge_srcs g po ps ro rsz ltac:(lia) ltac:(lia) Hmg).
            rewrite Hpend. replace (g + ps) with off by lia. rewrite Hcl.
            rewrite (zseq_app g ps rsz) by lia. rewrite map_app.
            now replace (g + ps) with off by lia. }
          exists (rsz + T). split; [unfold produced_ok in *; lia|].
          rewrite Hs. do 2 f_equal. lia.
        * (* flush the pending run, start a new one *)
          destruct (iter_runs h fuel (off + rsz) (len - rsz) (Some (ro, rsz))) as [rest| |] eqn:Hrest;
            try discriminate.
          cbn [bind] in Hrun. injection Hrun as <-.
          specialize (IH (off + rsz) (len - rsz) (Some (ro, rsz)) rest ltac:(lia) Hrest).
          cbn beta iota in IH.
          destruct (IH off ltac:(lia) ltac:(lia) Hoff Hcl) as [T [HT Hs]].
          exists (rsz + T). split; [unfold produced_ok in *; lia|].
          cbn [segs_of_runs snd]. rewrite srcs_of_cons, Hpend.
          replace (g + ps) with off by lia. rewrite Hs.
          rewrite (zseq_app g ps (rsz + T)) by (unfold produced_ok in HT; lia).
          rewrite map_app. now replace (g + ps) with off by lia.
      + specialize (IH (off + rsz) (len - rsz) (Some (ro, rsz)) rs ltac:(lia) Hrun).
        cbn beta iota in IH.
        destruct (IH off ltac:(lia) ltac:(lia) Hoff Hcl) as [T [HT Hs]].
        exists (rsz + T). split; [unfold produced_ok in *; lia|]. exact Hs.
  Qed.

  (* a successful read is the guest bytes of [off, off+T), with min(len, size-off) <= T <= len *)
  Theorem hds_read_sound fuel off len p :
    0 <= off -> hds_read h fuel off len = Ok p ->
    exists T, produced_ok off len T /\ srcs_of p = map gsrc (zseq off T).
  Proof.
    intros Hoff Hrun. unfold hds_read in Hrun.
    destruct (iter_runs h fuel off len None) as [rs| |] eqn:Hit; try discriminate.
    cbn [bind] in Hrun. injection Hrun as <-.
    exact (iter_runs_sound fuel off len None rs Hoff Hit).
  Qed.

  Lemma iter_runs_progress fuel : forall off len cur,
    0 <= off -> len < Z.of_nat fuel -> iter_runs h fuel off len cur <> Fuel.
  Proof.
    induction fuel as [|fuel IH]; intros off len cur Hoff Hf.
    - cbn [iter_runs]. destruct ((off <? h_size h) && (0 <? len)) eqn:Hc; [|discriminate].
      apply andb_true_iff in Hc. destruct Hc as [_ Hp]. apply Z.ltb_lt in Hp. lia.
    - cbn [iter_runs]. destruct ((off <? h_size h) && (0 <? len)) eqn:Hc; [|discriminate].
      apply andb_true_iff in Hc. destruct Hc as [_ Hp]. apply Z.ltb_lt in Hp.
      pose proof (Z.mod_pos_bound off (h_cs h) Hcs) as Hm.
      set (rsz := Z.min (h_cs h - off mod h_cs h) len).
      assert (Hrs : 0 < rsz <= len) by (subst rsz; lia).
      destruct (h_bat h (off / h_cs h)) as [e|]; cbn [of_option bind]; [|discriminate].
      destruct cur as [[po ps]|].
      + destruct (mergeable po ps _).
        * apply IH; lia.
        * pose proof (IH (off + rsz) (len - rsz)
                        (Some (if e =? 0 then None else Some (e * h_mult h * HSECTOR + off mod h_cs h), rsz))
                        ltac:(lia) ltac:(lia)) as Hnf.
          destruct (iter_runs h fuel (off + rsz) (len - rsz) _); cbn [bind]; try discriminate. congruence.
      + apply IH; lia.
  Qed.

  Theorem hds_read_progress fuel off len :
    0 <= off -> len < Z.of_nat fuel -> hds_read h fuel off len <> Fuel.
  Proof.
    intros Hoff Hf. unfold hds_read.
    pose proof (iter_runs_progress fuel off len None Hoff Hf) as Hnf.
    destruct (iter_runs h fuel off len None); cbn [bind]; try discriminate. congruence.
  Qed.

  Definition hds_wf : Prop :=
    0 <= h_size h /\ forall i, 0 <= i -> i * h_cs h < h_size h -> exists e, h_bat h i = Some e.

  Lemma iter_runs_ok fuel : forall off len cur,
    hds_wf -> 0 <= off -> len < Z.of_nat fuel -> exists rs, iter_runs h fuel off len cur = Ok rs.
  Proof.
    induction fuel as [|fuel IH]; intros off len cur Hwf Hoff Hf.
    - cbn [iter_runs]. destruct ((off <? h_size h) && (0 <? len)) eqn:Hc; [|eauto].
      apply andb_true_iff in Hc. destruct Hc as [_ Hp]. apply Z.ltb_lt in Hp. lia.
    - cbn [iter_runs]. destruct ((off <? h_size h) && (0 <? len)) eqn:Hc; [|eauto].
      apply andb_true_iff in Hc. destruct Hc as [Hl Hp]. apply Z.ltb_lt in Hp. apply Z.ltb_lt in Hl.
      pose proof (Z.mod_pos_bound off (h_cs h) Hcs) as Hm.
      pose proof (Z.div_mod off (h_cs h) ltac:(lia)) as Hdm.
      set (rsz := Z.min (h_cs h - off mod h_cs h) len).
      assert (Hrs : 0 < rsz <= len) by (subst rsz; lia).
      destruct Hwf as [Hsz Hcov].
      destruct (Hcov (off / h_cs h) ltac:(apply Z.div_pos; lia) ltac:(nia)) as [e ->].
      cbn [of_option bind].
      destruct cur as [[po ps]|].
      + destruct (mergeable po ps _).
        * apply IH; [split; assumption|lia|lia].
        * destruct (IH (off + rsz) (len - rsz)
                      (Some (if e =? 0 then None else Some (e * h_mult h * HSECTOR + off mod h_cs h), rsz))
                      (conj Hsz Hcov) ltac:(lia) ltac:(lia)) as [rest ->].
          cbn [bind]. eauto.
      + apply IH; [split; assumption|lia|lia].
  Qed.

  (* stream back-end contract *)
  Theorem hds_read_correct off len :
    hds_wf -> 0 <= off < h_size h -> 0 < len ->
    exists p T, hds_read h (hds_fuel len) off len = Ok p /\
      Z.min len (h_size h - off) <= T <= len /\ srcs_of p = map gsrc (zseq off T).
  Proof.
    intros Hwf Hoff Hlen.
    destruct (iter_runs_ok (hds_fuel len) off len None Hwf ltac:(lia) ltac:(unfold hds_fuel; lia)) as [rs Hrs].
    assert (Hrun : hds_read h (hds_fuel len) off len = Ok (segs_of_runs h off rs)).
    { unfold hds_read. rewrite Hrs. reflexivity. }
    assert (Hoff0 : 0 <= off) by lia.
    destruct (hds_read_sound (hds_fuel len) off len _ Hoff0 Hrun) as [T [(H0 & H1 & H2) Hs]].
    exists (segs_of_runs h off rs), T. repeat split; try assumption; lia.
  Qed.
End H.

(* non-vacuity: the coincidence image — sparse run of 8 KiB followed by a cluster stored at file offset 8 KiB *)
Definition ex_hds : hds :=
  {| h_size := 5 * 8192; h_cs := 8192; h_mult := 16; h_bat := tbl [(1, 1); (4, 2)] 0 5; h_parent := false |}.

Example ex_hds_wf : hds_wf ex_hds.
Proof.
  split; [vm_compute; discriminate|]. intros i Hi Hlt.
  change (h_cs ex_hds) with 8192 in Hlt. change (h_size ex_hds) with 40960 in Hlt.
  assert (Hc : i = 0 \/ i = 1 \/ i = 2 \/ i = 3 \/ i = 4) by lia.
  destruct Hc as [-> | [-> | [-> | [-> | ->]]]]; eexists; reflexivity.
Qed.

Example ex_hds_read :
  hds_read ex_hds 100%nat 0 40960 = Ok [SZero 8192; SFile 8192 8192; SZero 16384; SFile 16384 8192].
Proof. vm_compute. reflexivity. Qed.
