(* Proofs/VmdkDesc.v — multi-extent assembly: layout, lookup, cross-extent reads; grammar/wiring tables. *)
From Coq Require Import ZArith List Bool Lia.
From DH Require Import Base.Arith Base.Plan Base.Table Model.Vmdk Model.VmdkDesc Proofs.Vmdk.
Import ListNotations.
Open Scope Z_scope.

(* ---------- tables read from the source ---------- *)
Definition s_FLAT : str := [70; 76; 65; 84].
Definition s_VMFS : str := [86; 77; 70; 83].
Definition s_SPARSE : str := [83; 80; 65; 82; 83; 69].
Definition s_VMFSSPARSE : str := [86; 77; 70; 83; 83; 80; 65; 82; 83; 69].
Definition s_SESPARSE : str := [83; 69; 83; 80; 65; 82; 83; 69].
Definition data_types : list str := [s_FLAT; s_VMFS; s_SPARSE; s_VMFSSPARSE; s_SESPARSE].

Lemma str_eqb_eq a : forall b, str_eqb a b = true -> a = b.
Proof.
  induction a as [|x a IH]; intros [|y b] H; cbn in H; try discriminate; [reflexivity|].
  apply andb_true_iff in H. destruct H as [H1 H2]. apply Z.eqb_eq in H1. subst y. f_equal. apply IH. exact H2.
Qed.

Lemma mem_str_In t l : mem_str t l = true -> In t l.
Proof.
  unfold mem_str. intros H. apply existsb_exists in H. destruct H as (x & Hin & Heq).
  apply str_eqb_eq in Heq. subst x. exact Hin.
Qed.

(* every data-bearing extent type is an alternative of the grammar AND is opened by VMDK.__init__ *)
Definition data_types_covered : bool :=
  forallb (fun t => mem_str t T.vmdk_re_types && (mem_str t T.vmdk_sparse_wired || mem_str t T.vmdk_raw_wired)) data_types.

Theorem no_data_extent_dropped t :
  In t data_types -> In t T.vmdk_re_types /\ (In t T.vmdk_sparse_wired \/ In t T.vmdk_raw_wired).
Proof.
  intros Hin.
  assert (Hall : data_types_covered = true) by (vm_compute; reflexivity).
  unfold data_types_covered in Hall. rewrite forallb_forall in Hall. specialize (Hall t Hin).
  apply andb_true_iff in Hall. destruct Hall as [H1 H2]. split; [apply mem_str_In; exact H1|].
  apply orb_true_iff in H2. destruct H2 as [H2|H2]; [left|right]; apply mem_str_In; exact H2.
Qed.

(* every type VMDK.__init__ wires is producible by the grammar (no dead wiring) *)
Theorem wired_types_in_grammar t :
  In t (T.vmdk_sparse_wired ++ T.vmdk_raw_wired) -> In t T.vmdk_re_types.
Proof.
  intros Hin.
  assert (Hall : forallb (fun t => mem_str t T.vmdk_re_types) (T.vmdk_sparse_wired ++ T.vmdk_raw_wired) = true)
    by (vm_compute; reflexivity).
  rewrite forallb_forall in Hall. apply mem_str_In. apply Hall. exact Hin.
Qed.

(* the pattern the matcher implements is the pattern in the source *)
Theorem skeleton_matches_source : T.vmdk_re_skeleton = expected_skeleton.
Proof. vm_compute. reflexivity. Qed.

Theorem prefixes_match_modes :
  T.vmdk_extent_prefixes = map (fun m => m ++ [32]) T.vmdk_re_access_modes.
Proof. vm_compute. reflexivity. Qed.

(* ---------- layout: VMDK.__init__ bookkeeping ---------- *)
Definition sum_size (xs : list extent) : Z := fold_right (fun x a => x_size x + a) 0 xs.
Definition sum_sectors (xs : list extent) : Z := fold_right (fun x a => x_sectors x + a) 0 xs.

(* disks laid out back to back from sector s0, each with at least one sector *)
Fixpoint laid (ds : list (extent * Z)) (s0 : Z) : Prop :=
  match ds with
  | [] => True
  | (x, soff) :: ds' => soff = s0 /\ 0 < x_sectors x /\ laid ds' (s0 + x_sectors x)
  end.

Definition ds_end (ds : list (extent * Z)) (s0 : Z) : Z := s0 + sum_sectors (map fst ds).

Lemma layout_loop_spec xs : forall size sc,
  let '(offs, ds, size', sc') := layout_loop xs size sc in
  size' = size + sum_size xs /\ sc' = sc + sum_sectors xs /\ map fst ds = xs /\
  (Forall (fun x => 0 < x_sectors x) xs -> laid ds sc).
Proof.
  induction xs as [|x xs IH]; intros size sc; cbn [layout_loop sum_size sum_sectors fold_right].
  - repeat split; try lia.
  - specialize (IH (size + x_size x) (sc + x_sectors x)).
    destruct (layout_loop xs (size + x_size x) (sc + x_sectors x)) as [[[offs ds] size'] sc'].
    destruct IH as (H1 & H2 & H3 & H4).
    split; [unfold sum_size in *; lia|]. split; [unfold sum_sectors in *; lia|].
    split; [cbn [map fst]; f_equal; exact H3|].
    intros Hall. inversion Hall as [|? ? Hx Hxs]; subst. cbn [laid]. repeat split; try assumption.
    apply H4. exact Hxs.
Qed.

(* C10: the size of an assembled disk is the sum of its extents, its sector count likewise *)
Theorem size_is_sum xs :
  v_size (mk_vmdk xs) = sum_size xs /\ v_sector_count (mk_vmdk xs) = sum_sectors xs /\
  map fst (v_disks (mk_vmdk xs)) = xs.
Proof.
  unfold mk_vmdk. pose proof (layout_loop_spec xs 0 0) as H.
  destruct (layout_loop xs 0 0) as [[[offs ds] size'] sc']. cbn [v_size v_sector_count v_disks].
  destruct H as (H1 & H2 & H3 & _). repeat split; try lia. exact H3.
Qed.

Theorem mk_vmdk_laid xs :
  Forall (fun x => 0 < x_sectors x) xs -> laid (v_disks (mk_vmdk xs)) 0.
Proof.
  intros Hall. unfold mk_vmdk. pose proof (layout_loop_spec xs 0 0) as H.
  destruct (layout_loop xs 0 0) as [[[offs ds] size'] sc']. cbn [v_disks].
  destruct H as (_ & _ & _ & H4). apply H4. exact Hall.
Qed.

(* _disk_offsets holds the first sector of every disk but the first (sizes are positive) *)
Lemma layout_offsets xs : forall size sc,
  Forall (fun x => 0 < x_sectors x /\ 0 < x_size x) xs -> 0 <= size ->
  let '(offs, ds, _, _) := layout_loop xs size sc in
  offs = if size =? 0 then map snd (tl ds) else map snd ds.
Proof.
  induction xs as [|x xs IH]; intros size sc Hall Hsz; cbn [layout_loop].
  - destruct (size =? 0); reflexivity.
  - inversion Hall as [|? ? [Hx1 Hx2] Hxs]; subst.
    specialize (IH (size + x_size x) (sc + x_sectors x) Hxs ltac:(lia)).
    destruct (layout_loop xs (size + x_size x) (sc + x_sectors x)) as [[[offs ds] size'] sc'].
    destruct (Z.eqb_spec (size + x_size x) 0) as [|_]; [lia|]. subst offs.
    destruct (size =? 0); reflexivity.
Qed.

(* ---------- per-extent reads ---------- *)
Definition x_wf (x : extent) : Prop :=
  match x with XSparse f sp _ => wf_words f /\ wf_geom sp | XRaw _ _ => True end.

Lemma x_read_correct x soff sector n p :
  x_wf x -> soff <= sector -> x_read x soff sector n = Ok p ->
  srcs_of p = map (x_src x soff) (zseq ((sector - soff) * 512) (n * 512)).
Proof.
  destruct x as [f sp hp|size start]; cbn [x_wf x_read x_src]; intros Hwf Hs Hrun.
  - destruct Hwf as [Hw Hg]. exact (sparse_read_sectors_correct f sp soff hp Hw Hg _ _ _ _ Hs Hrun).
  - injection Hrun as <-. unfold raw_read_sectors, srcs_of. rewrite SECTOR_eq.
    cbn [flat_map srcs_of_seg]. rewrite app_nil_r.
    replace ((sector - soff + start) * 512) with ((sector - soff) * 512 + start * 512) by lia.
    rewrite zseq_shift. apply map_ext. intros o. cbn [x_src]. f_equal. lia.
Qed.

Lemma xsrcs_of_app p q : xsrcs_of (p ++ q) = xsrcs_of p ++ xsrcs_of q.
Proof. unfold xsrcs_of. apply flat_map_app. Qed.

Lemma xsrcs_of_tag idx p : xsrcs_of (map (fun s => (idx, s)) p) = map (fun s => (idx, s)) (srcs_of p).
Proof.
  induction p as [|s p IH]; [reflexivity|].
  cbn [map]. unfold xsrcs_of, srcs_of in *. cbn [flat_map fst snd]. rewrite map_app. f_equal. exact IH.
Qed.

(* ---------- the walk of VMDK.read_sectors ---------- *)
Theorem walk_correct ds : forall idx sector count p,
  match ds with
  | [] => True
  | (x, soff) :: _ => laid ds soff /\ soff <= sector < soff + x_sectors x
  end ->
  Forall (fun d => x_wf (fst d)) ds ->
  walk ds idx sector count = Ok p ->
  xsrcs_of p = map (concat_src ds idx) (zseq (sector * 512) (count * 512)).
Proof.
  induction ds as [|[x soff] ds IH]; intros idx sector count p Hpos Hwf Hrun; cbn [walk] in Hrun.
  - destruct (Z.leb_spec count 0) as [Hc|Hc]; [|discriminate].
    injection Hrun as <-. rewrite zseq_nonpos by lia. reflexivity.
  - destruct (Z.leb_spec count 0) as [Hc|Hc].
    { injection Hrun as <-. rewrite zseq_nonpos by lia. reflexivity. }
    destruct Hpos as [Hlaid Hin]. cbn [laid] in Hlaid. destruct Hlaid as (_ & Hxs & Hlaid').
    inversion Hwf as [|? ? Hx Hwf']; subst. cbn [fst] in Hx.
    set (n := Z.min (x_sectors x - (sector - soff)) count) in *.
    assert (Hn : 0 < n <= count /\ sector + n <= soff + x_sectors x) by (subst n; lia).
    apply bind_ok in Hrun. destruct Hrun as (p0 & Hp0 & Hrun).
    apply bind_ok in Hrun. destruct Hrun as (rest & Hrest & Hp). injection Hp as <-.
    rewrite xsrcs_of_app, xsrcs_of_tag.
    rewrite (x_read_correct x soff sector n p0 Hx ltac:(lia) Hp0).
    replace (count * 512) with (n * 512 + (count - n) * 512) by lia.
    rewrite zseq_app by lia. rewrite map_app. f_equal.
    + rewrite map_map. rewrite (zseq_rel _ ((sector - soff) * 512)), (zseq_rel _ (sector * 512)).
      apply map_ext_zseq. intros j Hj. cbn [concat_src].
      assert (Hdiv : (sector * 512 + j) / 512 < soff + x_sectors x).
      { apply Z.div_lt_upper_bound; lia. }
      destruct (Z.ltb_spec ((sector * 512 + j) / 512) (soff + x_sectors x)); [|lia].
      f_equal. f_equal. lia.
    + destruct (Z.leb_spec (count - n) 0) as [Hz|Hz].
      { destruct ds; cbn [walk] in Hrest; destruct (Z.leb_spec (count - n) 0); try lia;
          injection Hrest as <-; rewrite zseq_nonpos by lia; reflexivity. }
      assert (Hfull : sector + n = soff + x_sectors x) by lia.
      replace (sector * 512 + n * 512) with ((sector + n) * 512) by lia.
      assert (Hskip : forall o, (sector + n) * 512 <= o ->
                concat_src ((x, soff) :: ds) idx o = concat_src ds (idx + 1) o).
      { intros o Ho. cbn [concat_src].
        assert (soff + x_sectors x <= o / 512) by (apply Z.div_le_lower_bound; lia).
        destruct (Z.ltb_spec (o / 512) (soff + x_sectors x)); [lia|reflexivity]. }
      rewrite (map_ext_zseq (concat_src ((x, soff) :: ds) idx) (concat_src ds (idx + 1)))
        by (intros; apply Hskip; lia).
      apply (IH (idx + 1) (sector + n) (count - n) rest); [|exact Hwf'|exact Hrest].
      destruct ds as [|[x' soff'] ds']; [exact I|].
      cbn [laid] in Hlaid'. destruct Hlaid' as (Hs' & Hx' & Hl'). subst soff'.
      split; [cbn [laid]; repeat split; assumption|lia].
Qed.

(* ---------- the bisect lookup ---------- *)
Lemma concat_src_cons x soff ds idx o :
  concat_src ((x, soff) :: ds) idx o =
  if o / 512 <? soff + x_sectors x then (idx, x_src x soff (o - soff * 512)) else concat_src ds (idx + 1) o.
Proof. reflexivity. Qed.

Lemma laid_skipn_ge i : forall l a y so rest, laid l a -> skipn i l = (y, so) :: rest -> a <= so.
Proof.
  induction i as [|i IHi]; intros l a y so rest Hl Hsk.
  - cbn [skipn] in Hsk. subst l. cbn [laid] in Hl. lia.
  - destruct l as [|[z sz] l']; [discriminate|]. cbn [skipn] in Hsk. cbn [laid] in Hl.
    destruct Hl as (Hsz & Hz & Hl'). subst sz. pose proof (IHi l' (a + x_sectors z) y so rest Hl' Hsk). lia.
Qed.

(* in a laid-out list the extent holding a sector is found by counting the later starts <= sector *)
Lemma bisect_skipn ds : forall s0 sector,
  laid ds s0 -> s0 <= sector < ds_end ds s0 ->
  let i := bisect_right (map snd (tl ds)) sector in
  match skipn i ds with
  | (x, soff) :: rest => laid ((x, soff) :: rest) soff /\ soff <= sector < soff + x_sectors x /\
                         (forall idx o, soff * 512 <= o -> concat_src ds idx o = concat_src ((x, soff) :: rest) (idx + Z.of_nat i) o)
  | [] => False
  end.
Proof.
  induction ds as [|[x soff] ds IH]; intros s0 sector Hlaid Hin.
  - unfold ds_end in Hin. cbn in Hin. lia.
  - cbn [laid] in Hlaid. destruct Hlaid as (Hs & Hx & Hl). subst soff.
    unfold ds_end in Hin. cbn [map fst sum_sectors fold_right] in Hin. fold (sum_sectors (map fst ds)) in Hin.
    destruct ds as [|[x' soff'] ds'].
    + cbn [tl map bisect_right skipn]. cbn [sum_sectors map fold_right] in Hin.
      split; [cbn [laid]; split; [reflexivity|split; [exact Hx|exact I]]|]. split; [lia|].
      intros idx o Ho. replace (idx + Z.of_nat 0) with idx by lia. reflexivity.
    + cbn [tl map snd bisect_right]. pose proof Hl as Hl2. cbn [laid] in Hl2. destruct Hl2 as (Hs' & Hx' & Hl').
      subst soff'.
      destruct (Z.leb_spec (s0 + x_sectors x) sector) as [Hge|Hlt].
      * (* the sector lies in a later extent *)
        specialize (IH (s0 + x_sectors x) sector Hl).
        assert (Hin' : s0 + x_sectors x <= sector < ds_end ((x', s0 + x_sectors x) :: ds') (s0 + x_sectors x)).
        { unfold ds_end. lia. }
        specialize (IH Hin'). cbn [tl map snd] in IH. cbn zeta in IH.
        set (i := bisect_right (map snd ds') sector) in *.
        cbn [skipn].
        destruct (skipn i ((x', s0 + x_sectors x) :: ds')) as [|[y so] rest] eqn:Hsk; [contradiction|].
        destruct IH as (H1 & H2 & H3). split; [exact H1|]. split; [exact H2|].
        intros idx o Ho. rewrite (concat_src_cons x s0).
        assert (Hso : s0 + x_sectors x <= so).
        { exact (laid_skipn_ge i _ _ _ _ _ Hl Hsk). }
        assert (s0 + x_sectors x <= o / 512) by (apply Z.div_le_lower_bound; lia).
        destruct (Z.ltb_spec (o / 512) (s0 + x_sectors x)); [lia|].
        rewrite (H3 (idx + 1) o Ho). f_equal. lia.
      * cbn [skipn]. split; [cbn [laid]; split; [reflexivity|split; [exact Hx|exact Hl]]|]. split; [lia|].
        intros idx o Ho. replace (idx + Z.of_nat 0) with idx by lia. reflexivity.
Qed.

(* C10: a read of a disk assembled from any extents (flat with any start sector, hosted sparse, COWD,
   SE-sparse), at any position, across any number of extent boundaries, returns the concatenation *)
Theorem multi_read_correct xs sector count p :
  Forall (fun x => 0 < x_sectors x /\ 0 < x_size x) xs -> Forall x_wf xs ->
  0 <= sector < sum_sectors xs ->
  vmdk_read_sectors (mk_vmdk xs) sector count = Ok p ->
  xsrcs_of p = map (concat_src (v_disks (mk_vmdk xs)) 0) (zseq (sector * 512) (count * 512)).
Proof.
  intros Hpos Hwf Hin Hrun.
  assert (Hpos1 : Forall (fun x => 0 < x_sectors x) xs).
  { eapply Forall_impl; [|exact Hpos]. intros x [H _]. exact H. }
  pose proof (mk_vmdk_laid xs Hpos1) as Hlaid.
  destruct (size_is_sum xs) as (_ & _ & Hfst).
  assert (Hoffs : v_offsets (mk_vmdk xs) = map snd (tl (v_disks (mk_vmdk xs)))).
  { unfold mk_vmdk. pose proof (layout_offsets xs 0 0 Hpos ltac:(lia)) as H.
    destruct (layout_loop xs 0 0) as [[[offs ds] size'] sc']. cbn [v_offsets v_disks]. exact H. }
  unfold vmdk_read_sectors in Hrun. rewrite Hoffs in Hrun.
  set (ds := v_disks (mk_vmdk xs)) in *.
  assert (Hend : ds_end ds 0 = sum_sectors xs) by (unfold ds_end; rewrite Hfst; lia).
  pose proof (bisect_skipn ds 0 sector Hlaid ltac:(lia)) as Hb. cbn zeta in Hb.
  set (i := bisect_right (map snd (tl ds)) sector) in *.
  destruct (skipn i ds) as [|[x soff] rest] eqn:Hsk; [contradiction|].
  destruct Hb as (Hl & Hsec & Hcs).
  assert (Hwf' : Forall (fun d => x_wf (fst d)) ((x, soff) :: rest)).
  { rewrite <- Hsk. apply Forall_forall. intros d Hd.
    assert (Hd' : In d ds).
    { rewrite <- (firstn_skipn i ds). apply in_or_app. right. exact Hd. }
    rewrite Forall_forall in Hwf. apply Hwf. rewrite <- Hfst. apply in_map. exact Hd'. }
  rewrite (walk_correct ((x, soff) :: rest) (Z.of_nat i) sector count p (conj Hl Hsec) Hwf' Hrun).
  apply map_ext_zseq. intros o Ho. rewrite (Hcs 0 o ltac:(lia)). reflexivity.
Qed.

(* ---------- the 13 pinned regex cases of tests/test_vmdk.py, on the matcher model ---------- *)
Definition ext_out (e : extent_desc) :=
  (e_access e, e_sectors e, e_type e, e_filename e, e_start e, e_partition e, e_device e).
Definition parse_extents (line : str) := map ext_out (d_extents (parse_descriptor line)).

Definition s_RW : str := [82; 87].
Definition s_RDONLY : str := [82; 68; 79; 78; 76; 89].
Definition s_NOACCESS : str := [78; 79; 65; 67; 67; 69; 83; 83].
Definition s_ZERO : str := [90; 69; 82; 79].
Definition n_disk : str := [100; 105; 115; 107; 46; 118; 109; 100; 107].                         (* disk.vmdk *)
Definition n_spaces : str := [100; 105; 115; 107; 32; 119; 105; 116; 104; 32; 115; 112; 97; 99; 101; 115; 46; 118; 109; 100; 107].
Definition prefix_spaces : str :=   (* the line RW 1234567890 SPARSE, quoted name with spaces *)
  s_RW ++ [32; 49; 50; 51; 52; 53; 54; 55; 56; 57; 48; 32] ++ s_SPARSE ++ [32; 34] ++ n_spaces ++ [34].
Definition s_123 : str := [32; 49; 50; 51].
Definition s_part : str := [112; 97; 114; 116; 45; 117; 117; 105; 100].                         (* part-uuid *)
Definition s_dev : str := [100; 101; 118; 105; 99; 101; 45; 105; 100].                          (* device-id *)

Example pinned_sparse :
  parse_extents (s_RW ++ [32; 49; 50; 51; 52; 53; 54; 55; 56; 57; 32] ++ s_SPARSE ++ [32; 34] ++ n_disk ++ [34])
  = [(s_RW, 123456789, s_SPARSE, Some n_disk, None, None, None)].
Proof. vm_compute. reflexivity. Qed.

Example pinned_flat :
  parse_extents (s_RW ++ [32; 49; 50; 51; 52; 53; 54; 55; 56; 57; 32] ++ s_FLAT ++
                 [32; 34; 100; 105; 115; 107; 45; 102; 108; 97; 116; 46; 118; 109; 100; 107; 34; 32; 48])
  = [(s_RW, 123456789, s_FLAT, Some [100; 105; 115; 107; 45; 102; 108; 97; 116; 46; 118; 109; 100; 107], Some 0, None, None)].
Proof. vm_compute. reflexivity. Qed.

Example pinned_zero :
  parse_extents (s_RDONLY ++ [32; 48; 32] ++ s_ZERO) = [(s_RDONLY, 0, s_ZERO, None, None, None, None)].
Proof. vm_compute. reflexivity. Qed.

Example pinned_sparse_ids :
  parse_extents (s_NOACCESS ++ [32; 49; 50; 51; 52; 53; 54; 55; 56; 57; 32] ++ s_SPARSE ++
                 [32; 34; 100; 105; 115; 107; 45; 115; 112; 97; 114; 115; 101; 46; 118; 109; 100; 107; 34] ++ s_123 ++
                 [32; 112; 97; 114; 116; 105; 116; 105; 111; 110; 45; 117; 117; 105; 100; 32] ++ s_dev)
  = [(s_NOACCESS, 123456789, s_SPARSE, Some [100; 105; 115; 107; 45; 115; 112; 97; 114; 115; 101; 46; 118; 109; 100; 107],
      Some 123, Some [112; 97; 114; 116; 105; 116; 105; 111; 110; 45; 117; 117; 105; 100], Some s_dev)].
Proof. vm_compute. reflexivity. Qed.

Example pinned_bad_1 : parse_extents (s_RW ++ [32; 49; 50; 51; 52; 53; 54; 55; 56; 57; 48]) = [].
Proof. vm_compute. reflexivity. Qed.
Example pinned_bad_2 :
  parse_extents (s_RDONLY ++ [32; 34; 102; 105; 108; 101; 46; 118; 109; 100; 107; 34]) = [].
Proof. vm_compute. reflexivity. Qed.
Example pinned_bad_3 : parse_extents s_NOACCESS = [].
Proof. vm_compute. reflexivity. Qed.

Example pinned_spaces_4 :
  parse_extents prefix_spaces = [(s_RW, 1234567890, s_SPARSE, Some n_spaces, None, None, None)].
Proof. vm_compute. reflexivity. Qed.
Example pinned_spaces_5 :
  parse_extents (prefix_spaces ++ s_123) = [(s_RW, 1234567890, s_SPARSE, Some n_spaces, Some 123, None, None)].
Proof. vm_compute. reflexivity. Qed.
Example pinned_spaces_6 :
  parse_extents (prefix_spaces ++ s_123 ++ [32] ++ s_part)
  = [(s_RW, 1234567890, s_SPARSE, Some n_spaces, Some 123, Some s_part, None)].
Proof. vm_compute. reflexivity. Qed.
Example pinned_spaces_7 :
  parse_extents (prefix_spaces ++ s_123 ++ [32] ++ s_part ++ [32] ++ s_dev)
  = [(s_RW, 1234567890, s_SPARSE, Some n_spaces, Some 123, Some s_part, Some s_dev)].
Proof. vm_compute. reflexivity. Qed.

(* the pinned name with an inner double quote, quotes, backslashes and non-ASCII letters *)
Definition n_specials : str :=
  [116; 104; 105; 115; 32; 105; 115; 32; 97; 110; 32; 101; 120; 97; 109; 112; 108; 101; 32; 34; 92; 39; 32; 100; 105; 115; 107;
   235; 228; 244; 58; 41; 92; 92; 92; 39; 96; 92; 102; 111; 111; 46; 118; 109; 100; 107].
Example pinned_specials :
  parse_extents (s_RW ++ [32; 49; 54; 55; 55; 55; 50; 49; 54; 32] ++ s_SPARSE ++ [32; 34] ++ n_specials ++ [34] ++ s_123)
  = [(s_RW, 16777216, s_SPARSE, Some n_specials, Some 123, None, None)].
Proof. vm_compute. reflexivity. Qed.

Definition n_emoji : str := [129418; 32; 129418; 32; 129418; 46; 118; 109; 100; 107].
Example pinned_emoji :
  parse_extents (s_RW ++ [32; 49; 51; 51; 55; 49; 51; 51; 55; 32] ++ s_SPARSE ++ [32; 34] ++ n_emoji ++ [34])
  = [(s_RW, 13371337, s_SPARSE, Some n_emoji, None, None, None)].
Proof. vm_compute. reflexivity. Qed.

(* an SE-sparse extent line is parsed and wired (needs fixes/C10-vmdk-sesparse-extent-type.diff) *)
Example sesparse_line_wired :
  map wire (d_extents (parse_descriptor (s_RW ++ [32; 53; 51; 32] ++ s_SESPARSE ++ [32; 34] ++ n_disk ++ [34])))
  = [Some (WSparse, n_disk, 53, 0)].
Proof. vm_compute. reflexivity. Qed.

(* ---------- a filename-only extent line parses back for EVERY name (the greedy dot-plus backtracks exactly once) ---------- *)
Lemma star_all_then {R} (p : Z -> bool) (l : str) (q : Z) (k : str -> option R) r :
  Forall (fun c => p c = true) l -> p q = true -> k [] = None -> k [q] = Some r ->
  star p (l ++ [q]) k = Some r.
Proof.
  intros Hl Hq Hk0 Hk1. induction l as [|c l IH]; cbn [app star].
  - rewrite Hq, Hk0. exact Hk1.
  - inversion Hl as [|? ? Hc Hl']; subst. rewrite Hc. rewrite (IH Hl'). reflexivity.
Qed.

(* non-vacuity of multi_read_correct: a three-extent disk (flat with a start sector, hosted sparse, flat) *)
Definition ex_multi : list extent := [XRaw (3 * 512) 5; XSparse ex_file ex_sparse false; XRaw (2 * 512) 0].

Example ex_multi_ok :
  Forall (fun x => 0 < x_sectors x /\ 0 < x_size x) ex_multi /\ Forall x_wf ex_multi.
Proof.
  split.
  - repeat constructor; vm_compute; reflexivity.
  - constructor; [exact I|]. constructor; [|constructor; [exact I|constructor]].
    cbn [x_wf]. destruct ex_sparse_wf as (Hw & Hg & _). split; assumption.
Qed.

Example ex_multi_read :
  vmdk_read (mk_vmdk ex_multi) (2 * 512) (17 * 512) =
  Ok [(0, SFile 3584 512); (1, SFile 10240 4096); (1, SZero 2048); (1, SZero 1024); (2, SFile 0 1024)].
Proof. vm_compute. reflexivity. Qed.

(* without a parent the parent-aware assembly is the assembly the theorems above are about *)
Lemma open_wired_p_false files w : open_wired_p false files w = open_wired files w.
Proof. reflexivity. Qed.

Theorem assemble_p_no_parent files text :
  desc_has_parent (parse_descriptor text) = Ok false -> assemble_p files text = assemble files text.
Proof.
  intros H. unfold assemble_p, assemble. rewrite H. cbn [bind].
  f_equal.
Qed.
